----------------------------- MODULE MetaState -----------------------------
(***************************************************************************)
(* State validation for C19: every record is one real build (api.Build,    *)
(* metafile on) projected to                                               *)
(*   emitted   the files of BuildResult.OutputFiles (path, length)         *)
(*   outputs / oimports / oexports / oinputs   the "outputs" section of    *)
(*             the metafile, flattened                                      *)
(*   pimports / pexports   the import statements and export names          *)
(*             re-parsed from the emitted JS/CSS (acorn, CSS tokenizer),   *)
(*             specifiers resolved against the emitted files               *)
(*   inputs / iimports     the "inputs" section of the metafile            *)
(*   simports  the import statements re-parsed from the input sources      *)
(*   read / sizes          the files read into the bundle (scan.parse      *)
(*             hook) and their sizes on disk                               *)
(*   present   which input's marker literal occurs in which emitted file   *)
(*   exact     the length of the text printed for an input in an emitted   *)
(*             file, where it can be delimited (output that keeps its      *)
(*             white space: sections between the path comments, the last   *)
(*             one closed by the linker's own tail)                        *)
(*   glue      per emitted file all of whose text is delimited: the bytes  *)
(*             outside every input's sections                              *)
(*   roots     entry points and injected files                             *)
(*   exec / ran / redges / recorders   (bundles whose modules record what  *)
(*             they do when the bundle is run in Node) the modules that    *)
(*             were evaluated and, per (importer, specifier, kind), the id *)
(*             of the module that was really received                      *)
(* The invariants say that the metafile is an exact account of all that.   *)
(***************************************************************************)
EXTENDS Integers, Sequences, FiniteSets, TLC, Json

Records == ndJsonDeserialize("c19records.ndjson")

VARIABLE i
Init == i = 1
Next == i < Len(Records) /\ i' = i + 1
Spec == Init /\ [][Next]_i

Rec == Records[i]
ToSet(s) == {s[k] : k \in 1..Len(s)}
Em == ToSet(Rec.emitted)
Outs == ToSet(Rec.outputs)
OImports == ToSet(Rec.oimports)
PImports == ToSet(Rec.pimports)
OExports == ToSet(Rec.oexports)
PExports == ToSet(Rec.pexports)
OInputs == ToSet(Rec.oinputs)
Ins == ToSet(Rec.inputs)
IImports == ToSet(Rec.iimports)
SImports == ToSet(Rec.simports)
Read == ToSet(Rec.read)
Sizes == ToSet(Rec.sizes)
Entries == ToSet(Rec.entries)
Present == ToSet(Rec.present)
EmPaths == {e.path : e \in Em}
OutPaths == {o.path : o \in Outs}
InPaths == {x.path : x \in Ins}
CodeOuts == {o.path : o \in {x \in Outs : x.code}}

\* the metafile lists exactly the emitted files (each once)
OutputsKeysAreEmittedFiles ==
  /\ OutPaths = EmPaths
  /\ Cardinality(OutPaths) = Len(Rec.outputs)
  /\ Cardinality(EmPaths) = Len(Rec.emitted)
DOutputs == [missing |-> EmPaths \ OutPaths, extra |-> OutPaths \ EmPaths]

\* with their exact byte lengths
WrongBytes == {[path |-> o.path, metafile |-> o.bytes] : o \in {x \in Outs : \E e \in Em : e.path = x.path /\ e.len # x.bytes}}
BytesExact == WrongBytes = {}

\* every configured entry point is the entry point of exactly one output; an
\* output's entry point is an input of the bundle that the output lists
\* among its own inputs; two code files of the same type never share one
EntryProblems ==
  {[entry |-> e, outputs |-> {o.path : o \in {x \in Outs : x.entryPoint = e}}] : e \in {y \in Entries : Cardinality({o \in Outs : o.entryPoint = y}) # 1}}
  \cup {[entry |-> o.entryPoint, outputs |-> {o.path}] :
          o \in {x \in Outs : x.entryPoint # "" /\ (x.entryPoint \notin InPaths \/ ~\E c \in OInputs : c.out = x.path /\ c.inp = x.entryPoint)}}
EntryPointRight == EntryProblems = {}

\* the imports the metafile lists for an output are the import statements of the emitted code
OImportsOfCode == {m \in OImports : m.out \in CodeOuts}
ImportsAreReal == OImportsOfCode = PImports /\ \A m \in OImports : m.out \in CodeOuts
DImports == [notInCode |-> OImportsOfCode \ PImports, notInMetafile |-> PImports \ OImportsOfCode, ofNonCode |-> {m \in OImports : m.out \notin CodeOuts}]

\* ... and the export names (ES module output)
ExportsAreReal == Rec.esm => OExports = PExports
DExports == IF Rec.esm THEN [notInCode |-> OExports \ PExports, notInMetafile |-> PExports \ OExports] ELSE [notInCode |-> {}, notInMetafile |-> {}]

\* the inputs are exactly the files read into the bundle, with their exact sizes
\* (a file that was parsed but that no listed import names and that left no
\* trace in any emitted file - e.g. the "module" file of a package after the
\* dual-package rule redirected every import of it to the "main" file - was
\* read but is not part of the bundle)
Traces == {p.inp : p \in Present} \cup ToSet(Rec.ran) \cup {m.path : m \in {x \in IImports : ~x.external}}
NotListed == (Read \ InPaths) \cap Traces
InputsAreExactlyRead == InPaths \subseteq Read /\ NotListed = {}
DInputs == [notRead |-> InPaths \ Read, notListed |-> NotListed]
WrongSizes == {x.path : x \in {y \in Ins : ~\E s \in Sizes : s.path = y.path /\ s.size = y.bytes}}
InputBytesExact == WrongSizes = {}

\* what is attributed to the inputs of an output never exceeds the file
RECURSIVE SumBytes(_)
SumBytes(S) == IF S = {} THEN 0 ELSE LET c == CHOOSE x \in S : TRUE IN c.bytes + SumBytes(S \ {c})
Attributed(o) == SumBytes({c \in OInputs : c.out = o})
Overfull == {[path |-> o.path, bytes |-> o.bytes, attributed |-> Attributed(o.path)] : o \in {x \in Outs : Attributed(x.path) > x.bytes}}
ContributionsBounded == Overfull = {} /\ \A c \in OInputs : c.bytes >= 0 /\ c.inp \in InPaths

\* where the text printed for an input can be delimited in the emitted file
\* (unminified output, sections between the path comments), the bytes
\* attributed to the input are exactly the bytes of that text
Exact == ToSet(Rec.exact)
Inexact == {[out |-> x.out, inp |-> x.inp, expected |-> x.expected, metafile |-> {c.bytes : c \in {d \in OInputs : d.out = x.out /\ d.inp = x.inp}}] :
              x \in {y \in Exact : ~\E c \in OInputs : c.out = y.out /\ c.inp = y.inp /\ c.bytes = y.expected}}
ContributionExact == Inexact = {}

\* the accounting rule of Meta.tla on the real file: what is attributed to the
\* inputs plus what the linker printed itself is the size of the file
Glue == ToSet(Rec.glue)
GlueOff == {[out |-> g.out, glue |-> g.bytes, attributed |-> Attributed(g.out), bytes |-> {o.bytes : o \in {x \in Outs : x.path = g.out}}] :
              g \in {h \in Glue : ~\E o \in Outs : o.path = h.out /\ Attributed(h.out) + h.bytes = o.bytes}}
GlueExact == GlueOff = {}

\* an input with a non-zero contribution really has its code in that file
\* (its marker literal, or for a file-loader input the path of its emitted
\* copy); an input whose marker is in a file contributes to it; hence a
\* tree-shaken input contributes zero
Ghosts == {c \in OInputs : c.bytes > 0 /\ ~\E p \in Present : p.out = c.out /\ p.inp = c.inp}
Unattributed == {p \in {q \in Present : q.via = "marker"} : ~\E c \in OInputs : c.out = p.out /\ c.inp = p.inp /\ c.bytes > 0}
ContributionIsPresent == Ghosts = {} /\ Unattributed = {}

\* the resolved imports of the inputs: a non-external import names an input of
\* the bundle, an external one does not name a file that was bundled, and the
\* (specifier, kind) pairs are those of the import statements in the source
NotInputs == {m \in IImports : ~m.external /\ m.path \notin InPaths}
BundledExternal == {m \in IImports : m.external /\ m.bundled}
\* (imports that the inject option adds to every file are not in the source text)
ISpecs == {[inp |-> m.inp, spec |-> m.spec, kind |-> m.kind] : m \in {x \in IImports : ~x.injected}}
\* judged against what the bundle really loads: for every (importer,
\* specifier, kind) the running bundle recorded, the metafile lists that import
\* and its path is the module that was really received (an external or
\* disabled module has no id)
REdges == ToSet(Rec.redges)
EdgeMatches(m, e) == IF m.external \/ m.disabled THEN e.got = "<none>" ELSE e.got = m.file
SameRef(m, e) == m.inp = e.inp /\ m.spec = e.spec /\ m.kind = e.kind
Unlisted == {e \in REdges : ~\E m \in IImports : SameRef(m, e)}
Misdirected == {[inp |-> e.inp, spec |-> e.spec, kind |-> e.kind, loaded |-> e.got, metafile |-> {m.path : m \in {x \in IImports : SameRef(x, e)}}] :
                  e \in {f \in REdges : \E m \in IImports : SameRef(m, f) /\ ~EdgeMatches(m, f)}}
InputImportsAreReal == NotInputs = {} /\ BundledExternal = {} /\ ISpecs = SImports /\ Unlisted = {} /\ Misdirected = {}
DInputImports == [notInputs |-> NotInputs, bundledButExternal |-> BundledExternal, notInSource |-> ISpecs \ SImports, notInMetafile |-> SImports \ ISpecs,
                  unlisted |-> Unlisted, misdirected |-> Misdirected]

\* the import graph of the metafile is closed: the inputs are exactly what is
\* reachable from the entry points (and injected files) along the listed
\* non-external imports
RECURSIVE Reach(_)
Reach(S) == LET N == S \cup {m.path : m \in {x \in IImports : x.inp \in S /\ ~x.external}} IN IF N = S THEN S ELSE Reach(N)
Roots == ToSet(Rec.roots)
Reached == Reach(Roots)
ImportGraphClosed == Reached = InPaths
DClosed == [unreachable |-> InPaths \ Reached, notInputs |-> Reached \ InPaths]

\* the modules that are evaluated when the bundle runs are exactly the inputs
\* with a non-zero contribution (among the files that record their evaluation)
Ran == ToSet(Rec.ran)
Recorders == ToSet(Rec.recorders)
Contributing == {c.inp : c \in {d \in OInputs : d.bytes > 0}}
RanWithoutBytes == (Ran \cap Recorders) \ Contributing
BytesButNotRun == (Contributing \cap Recorders) \ Ran
ExecutedAreContributing == Rec.exec => (RanWithoutBytes = {} /\ BytesButNotRun = {} /\ Ran \subseteq InPaths)
DExecuted == [ranWithoutBytes |-> IF Rec.exec THEN RanWithoutBytes ELSE {}, bytesButNotRun |-> IF Rec.exec THEN BytesButNotRun ELSE {}, ranNotInput |-> IF Rec.exec THEN Ran \ InPaths ELSE {}]

Failing ==
  (IF OutputsKeysAreEmittedFiles THEN {} ELSE {"OutputsKeysAreEmittedFiles"}) \cup
  (IF BytesExact THEN {} ELSE {"BytesExact"}) \cup
  (IF EntryPointRight THEN {} ELSE {"EntryPointRight"}) \cup
  (IF ImportsAreReal THEN {} ELSE {"ImportsAreReal"}) \cup
  (IF ExportsAreReal THEN {} ELSE {"ExportsAreReal"}) \cup
  (IF InputsAreExactlyRead THEN {} ELSE {"InputsAreExactlyRead"}) \cup
  (IF InputBytesExact THEN {} ELSE {"InputBytesExact"}) \cup
  (IF ContributionsBounded THEN {} ELSE {"ContributionsBounded"}) \cup
  (IF ContributionIsPresent THEN {} ELSE {"ContributionIsPresent"}) \cup
  (IF ContributionExact THEN {} ELSE {"ContributionExact"}) \cup
  (IF InputImportsAreReal THEN {} ELSE {"InputImportsAreReal"}) \cup
  (IF GlueExact THEN {} ELSE {"GlueExact"}) \cup
  (IF ImportGraphClosed THEN {} ELSE {"ImportGraphClosed"}) \cup
  (IF ExecutedAreContributing THEN {} ELSE {"ExecutedAreContributing"})

\* per invariant: the named sets of offending items (all empty when it holds)
Detail ==
  [ OutputsKeysAreEmittedFiles |-> DOutputs,
    BytesExact |-> [wrongBytes |-> WrongBytes],
    EntryPointRight |-> [entry |-> EntryProblems],
    ImportsAreReal |-> DImports,
    ExportsAreReal |-> DExports,
    InputsAreExactlyRead |-> DInputs,
    InputBytesExact |-> [wrongSizes |-> WrongSizes],
    ContributionsBounded |-> [overfull |-> Overfull, notInputs |-> {c \in OInputs : c.inp \notin InPaths}],
    ContributionIsPresent |-> [ghosts |-> Ghosts, unattributed |-> Unattributed],
    ContributionExact |-> [inexact |-> Inexact],
    InputImportsAreReal |-> DInputImports,
    GlueExact |-> [glueOff |-> GlueOff],
    ImportGraphClosed |-> DClosed,
    ExecutedAreContributing |-> DExecuted ]
Report == PrintT(<<"CASE", ToJson([i |-> i, failing |-> Failing, detail |-> IF Failing = {} THEN [ok |-> [ok |-> {}]] ELSE Detail])>>)
=============================================================================
