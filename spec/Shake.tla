------------------------------- MODULE Shake -------------------------------
(***************************************************************************)
(* C04 -- tree shaking removes only code whose removal is unobservable.    *)
(*                                                                         *)
(* The LIVENESS design of esbuild's linker (linker.go markFileLiveFor-      *)
(* TreeShaking / markPartLiveForTreeShaking, the dependency construction    *)
(* of scanImportsAndExports step 6), written over two layers:               *)
(*                                                                         *)
(*  - the SYMBOL layer: files with ordered parts; a part has `declares`,    *)
(*    `uses` (names local to the file: declared there or bound by an        *)
(*    import), `effect` (GROUND TRUTH: executing the statement has an       *)
(*    observable effect), `removable` (what the classifier claims:          *)
(*    CanBeRemovedIfUnused), `recs` (import records stmt|require|dynamic    *)
(*    -> file); per file import bindings, export clauses, re-exports and    *)
(*    `export *`; per file the package.json annotation sideEffects:false;   *)
(*    entry points; the flags ts (tree shaking) and ignoreAnn.              *)
(*  - the DEPENDENCY layer D (what link.done projects from the real         *)
(*    linker): per part `removable`, `force`, `deps` (part references),     *)
(*    `fdeps` (files made live through a wrapper: require()/import()),      *)
(*    `srecs` (targets of statement-level import records).                  *)
(*                                                                         *)
(* Live(D) is the least fixed point the two mark functions compute.  The    *)
(* same operators are used (a) on the bounded graph family below, checked   *)
(* by TLC, (b) by ShakeGen.tla on the abstract graphs of the replay         *)
(* shapes to compute which probe events MUST survive bundling and which     *)
(* MAY vanish, (c) by ShakeState.tla on the records projected from real     *)
(* builds.                                                                  *)
(***************************************************************************)
EXTENDS Integers, Sequences, FiniteSets, TLC

-----------------------------------------------------------------------------
(* Dependency layer                                                        *)

PartRefs(D) == UNION {{<<f, i>> : i \in DOMAIN D.part[f]} : f \in D.files}
PartAt(D, r) == D.part[r[1]][r[2]]

\* an import statement keeps its part (and makes the target live) unless the
\* target is covered by a side-effects-free annotation
KeepsImport(D, r) == \E g \in PartAt(D, r).srecs : g \notin D.seFree

\* linker.go: `!canBeRemovedIfUnused || (!part.ForceTreeShaking && !c.options.TreeShaking && file.IsEntryPoint())`
MustLive(D, r) ==
  LET p == PartAt(D, r) IN
    \/ ~p.removable
    \/ KeepsImport(D, r)
    \/ (~D.ts /\ r[1] \in D.entry /\ ~p.force)

Step(D, L) ==
  LET refs == PartRefs(D)
      nf == L.files
            \cup {r[1] : r \in L.parts}                                         \* markPartLive -> markFileLive
            \cup UNION {PartAt(D, r).srecs \ D.seFree : r \in {q \in refs : q[1] \in L.files}}
            \cup UNION {PartAt(D, r).fdeps : r \in L.parts}                      \* wrapper part of a required / dynamically imported file
      np == L.parts
            \cup {r \in refs : r[1] \in L.files /\ MustLive(D, r)}
            \cup UNION {PartAt(D, r).deps : r \in L.parts}
  IN [files |-> nf \cap D.files, parts |-> np \cap refs]

RECURSIVE Fix(_, _)
Fix(D, L) == LET N == Step(D, L) IN IF N = L THEN L ELSE Fix(D, N)

\* the least fixed point of markFileLive / markPartLive started at the entry points
Live(D) == Fix(D, [files |-> D.entry \cap D.files, parts |-> {}])

\* L is closed under the rules (used on recorded states: the real flags must be closed)
ClosedUnder(D, L) == Step(D, L) = L

\* --- the invariants of the property, over a dependency graph and a liveness assignment L ---

\* dependencies of a live part are live, and so is its file
LiveClosed(D, L) ==
  \A r \in L.parts :
     /\ r[1] \in L.files
     /\ (PartAt(D, r).deps \cap PartRefs(D)) \subseteq L.parts
     /\ (PartAt(D, r).fdeps \cap D.files) \subseteq L.files

\* a file imported by a statement of a live file is live unless an annotation covers it
ImportsKept(D, L) ==
  \A r \in PartRefs(D) :
     r[1] \in L.files => ((PartAt(D, r).srecs \cap D.files) \ D.seFree) \subseteq L.files

\* a part the classifier does not call removable is live as soon as its file is
UnremovableKept(D, L) ==
  \A r \in PartRefs(D) : (r[1] \in L.files /\ ~PartAt(D, r).removable) => r \in L.parts

EntriesLive(D, L) == (D.entry \cap D.files) \subseteq L.files

-----------------------------------------------------------------------------
(* Symbol layer: a graph G                                                 *)
(*  G.files, G.entry, G.seFalse (annotated files), G.ts, G.ignoreAnn,        *)
(*  G.part[f] : sequence of                                                  *)
(*     [declares, uses, effect, removable, force, recs, probe]               *)
(*       recs : set of [kind |-> "stmt"|"require"|"dynamic", to |-> file]    *)
(*  G.imp[f]  : set of [local, from, name]       import {name as local} from *)
(*  G.exp[f]  : set of [kind, name, local, from, fromName, part]             *)
(*       kind "local": export {local as name}; "from": export {fromName as   *)
(*       name} from; "star": export * from; part = index of the statement    *)

NoRes == [ok |-> FALSE, file |-> 0, name |-> "", via |-> {}]

RECURSIVE ResolveExport(_, _, _, _), ResolveLocal(_, _, _, _)

\* the declaration a name that is visible in file f refers to; `via` collects
\* the re-export statements passed on the way (importData.ReExports)
ResolveLocal(G, f, n, fuel) ==
  IF fuel = 0 THEN NoRes
  ELSE IF \E i \in DOMAIN G.part[f] : n \in G.part[f][i].declares
       THEN [ok |-> TRUE, file |-> f, name |-> n, via |-> {}]
  ELSE LET bs == {b \in G.imp[f] : b.local = n} IN
       IF bs = {} THEN NoRes
       ELSE LET b == CHOOSE b \in bs : TRUE IN ResolveExport(G, b.from, b.name, fuel - 1)

ResolveExport(G, f, en, fuel) ==
  IF fuel = 0 \/ f \notin G.files THEN NoRes
  ELSE LET locals == {e \in G.exp[f] : e.kind = "local" /\ e.name = en}
           froms  == {e \in G.exp[f] : e.kind = "from" /\ e.name = en}
           stars  == {e \in G.exp[f] : e.kind = "star"}
       IN IF locals # {} THEN ResolveLocal(G, f, (CHOOSE e \in locals : TRUE).local, fuel - 1)
          ELSE IF froms # {} THEN
               LET e == CHOOSE e \in froms : TRUE
                   r == ResolveExport(G, e.from, e.fromName, fuel - 1)
               IN IF r.ok THEN [r EXCEPT !.via = @ \cup {<<f, e.part>>}] ELSE NoRes
          ELSE LET cands == {e \in stars : ResolveExport(G, e.from, en, fuel - 1).ok} IN
               IF cands = {} THEN NoRes
               ELSE LET e == CHOOSE e \in cands : \A e2 \in cands : e.part <= e2.part
                        r == ResolveExport(G, e.from, en, fuel - 1)
                    IN [r EXCEPT !.via = @ \cup {<<f, e.part>>}]

Fuel(G) == 2 * Cardinality(G.files) + 2
DeclParts(G, f, n) == {<<f, i>> : i \in {j \in DOMAIN G.part[f] : n \in G.part[f][j].declares}}

\* dependencies of part (f, i) that bind a use to its declaration ...
DeclDeps(G, f, i) ==
  UNION {LET r == ResolveLocal(G, f, n, Fuel(G)) IN IF r.ok THEN DeclParts(G, r.file, r.name) ELSE {} : n \in G.part[f][i].uses}
\* ... and those on the re-export statements passed in between
PassDeps(G, f, i) ==
  UNION {LET r == ResolveLocal(G, f, n, Fuel(G)) IN IF r.ok THEN r.via ELSE {} : n \in G.part[f][i].uses}

\* an entry point depends on the declarations of all its exports: modelled by a
\* pseudo use in a trailing non-removable part, so nothing special is needed here

SeFree(G) == IF G.ignoreAnn THEN {} ELSE G.seFalse

\* projection of the symbol layer onto the dependency layer (what the linker builds)
DepGraph(G) ==
  [files |-> G.files, entry |-> G.entry, seFree |-> SeFree(G), ts |-> G.ts,
   part |-> [f \in G.files |->
       [i \in DOMAIN G.part[f] |->
          LET p == G.part[f][i] IN
          [removable |-> p.removable, force |-> p.force,
           deps  |-> DeclDeps(G, f, i) \cup PassDeps(G, f, i),
           fdeps |-> {r.to : r \in {q \in p.recs : q.kind \in {"require", "dynamic"}}},
           srecs |-> {r.to : r \in {q \in p.recs : q.kind = "stmt"}}]]]]

LiveOf(G) == Live(DepGraph(G))

\* the classifier is sound when it never calls an effectful statement removable
ClassifierSound(G) == \A f \in G.files : \A i \in DOMAIN G.part[f] : G.part[f][i].removable => ~G.part[f][i].effect

\* files that native execution reaches and no annotation licenses to skip:
\* plain reachability over statement-level imports, independent of Live
RECURSIVE ReachFix(_, _)
ReachFix(G, R) ==
  LET tg == UNION {UNION {{r.to : r \in {q \in G.part[f][i].recs : q.kind = "stmt"}} : i \in DOMAIN G.part[f]} : f \in R}
      M == R \cup ((tg \cap G.files) \ SeFree(G))
  IN IF M = R THEN R ELSE ReachFix(G, M)
ReachedForEffects(G) == ReachFix(G, G.entry)

\* every statement with an effect, in a file reached for its side effects (or
\* in any file that is live at all), is live
EffectsKeptOn(G, L) ==
  \A f \in ReachedForEffects(G) \cup L.files : \A i \in DOMAIN G.part[f] :
     G.part[f][i].effect => <<f, i>> \in L.parts

\* a live use resolves to a declaration all of whose declaring parts are live,
\* and the re-export statements in between are live too
NoDanglingUseOn(G, L) ==
  \A r \in L.parts : \A n \in G.part[r[1]][r[2]].uses :
     LET res == ResolveLocal(G, r[1], n, Fuel(G)) IN
       res.ok => /\ DeclParts(G, res.file, res.name) # {}
                 /\ DeclParts(G, res.file, res.name) \subseteq L.parts
                 /\ res.file \in L.files
                 /\ res.via \subseteq L.parts

DesignLiveClosedOn(D, L) ==
  LiveClosed(D, L) /\ ImportsKept(D, L) /\ UnremovableKept(D, L) /\ EntriesLive(D, L) /\ ClosedUnder(D, L)

\* --- annotations only ever enlarge the removable set ---
LeqLive(A, B) == A.files \subseteq B.files /\ A.parts \subseteq B.parts
\* all one-step strengthenings of the annotations of G: one more file covered by
\* sideEffects:false, or one more part called removable (a pure annotation)
\* (annotations change flags of the dependency graph only, never its edges)
MoreAnnotated(D) ==
  {[D EXCEPT !.seFree = @ \cup {f}] : f \in D.files \ D.seFree}
  \cup {[D EXCEPT !.part[r[1]][r[2]].removable = TRUE] : r \in {q \in PartRefs(D) : ~PartAt(D, q).removable}}
AnnotationMonotoneOn(D, L) == \A H \in MoreAnnotated(D) : LeqLive(Live(H), L)
\* disabling tree shaking or ignoring annotations only ever keeps more
ModeMonotoneOn(D, L) ==
  /\ LeqLive(L, Live([D EXCEPT !.ts = FALSE]))
  /\ LeqLive(L, Live([D EXCEPT !.seFree = {}]))

\* what MUST survive: effectful parts that stay live under the IDEAL sound
\* classifier (removable = ~effect) with tree shaking on.  A sideEffects:false
\* file that is only passed through by a re-export (none of its own
\* declarations is bound by a live use) may vanish as a whole: the property
\* lets annotated modules disappear.
Ideal(G) == [G EXCEPT !.ts = TRUE,
               !.part = [f \in G.files |-> [i \in DOMAIN G.part[f] |-> [G.part[f][i] EXCEPT !.removable = ~G.part[f][i].effect]]]]
DeclBound(G, L) == {d[1] : d \in UNION {DeclDeps(G, r[1], r[2]) : r \in L.parts}}
MustKeepParts(G) ==
  LET I == Ideal(G) L == LiveOf(I)
      passOnly == (L.files \cap SeFree(G)) \ (DeclBound(I, L) \cup G.entry)
  IN {r \in L.parts : G.part[r[1]][r[2]].effect /\ r[1] \notin passOnly}
EffectParts(G) == {r \in UNION {{<<f, i>> : i \in DOMAIN G.part[f]} : f \in G.files} : G.part[r[1]][r[2]].effect}
\* natively every file reachable over any import record executes
RECURSIVE NativeFix(_, _)
NativeFix(G, R) ==
  LET N == (R \cup UNION {UNION {{r.to : r \in G.part[f][i].recs} : i \in DOMAIN G.part[f]} : f \in R}) \cap G.files
  IN IF N = R THEN R ELSE NativeFix(G, N)
NativeFiles(G) == NativeFix(G, G.entry)

=============================================================================
