------------------------------- MODULE Shake -------------------------------
(***************************************************************************)
(* C04 -- tree shaking removes only code whose removal is unobservable.    *)
(*                                                                         *)
(* The LIVENESS design of esbuild's linker (linker.go markFileLiveFor-      *)
(* TreeShaking / markPartLiveForTreeShaking, the dependency construction    *)
(* of scanImportsAndExports step 6), written over two layers:               *)
(*                                                                         *)
(*  - the SYMBOL layer: files with ordered parts; a part has `declares`,    *)
(*    `uses` (names local to the file: declared there or bound by an        *)
(*    import), `effect` (GROUND TRUTH: executing the statement has an       *)
(*    observable effect), `removable` (what the classifier claims:          *)
(*    CanBeRemovedIfUnused), `recs` (import records stmt|require|dynamic    *)
(*    -> file); per file import bindings, export clauses, re-exports and    *)
(*    `export *`; per file the package.json annotation sideEffects:false;   *)
(*    entry points; the flags ts (tree shaking) and ignoreAnn.              *)
(*  - the DEPENDENCY layer D (what link.done projects from the real         *)
(*    linker): per part `removable`, `force`, `deps` (part references),     *)
(*    `fdeps` (files made live through a wrapper: require()/import()),      *)
(*    `srecs` (targets of statement-level import records).                  *)
(*                                                                         *)
(* Live(D) is the least fixed point the two mark functions compute.  The    *)
(* same operators are used (a) on the bounded graph family below, checked   *)
(* by TLC, (b) by ShakeGen.tla on the abstract graphs of the replay         *)
(* shapes to compute which probe events MUST survive bundling and which     *)
(* MAY vanish, (c) by ShakeState.tla on the records projected from real     *)
(* builds.                                                                  *)
(***************************************************************************)
EXTENDS Integers, Sequences, FiniteSets, TLC

-----------------------------------------------------------------------------
(* Dependency layer                                                        *)

PartRefs(D) == UNION {{<<f, i>> : i \in DOMAIN D.part[f]} : f \in D.files}
PartAt(D, r) == D.part[r[1]][r[2]]

\* an import statement keeps its part (and makes the target live) unless the
\* target is covered by a side-effects-free annotation
KeepsImport(D, r) == \E g \in PartAt(D, r).srecs : g \notin D.seFree

\* linker.go: `!canBeRemovedIfUnused || (!part.ForceTreeShaking && !c.options.TreeShaking && file.IsEntryPoint())`
MustLive(D, r) ==
  LET p == PartAt(D, r) IN
    \/ ~p.removable
    \/ KeepsImport(D, r)
    \/ (~D.ts /\ r[1] \in D.entry /\ ~p.force)

Step(D, L) ==
  LET refs == PartRefs(D)
      nf == L.files
            \cup {r[1] : r \in L.parts}                                         \* markPartLive -> markFileLive
            \cup UNION {PartAt(D, r).srecs \ D.seFree : r \in {q \in refs : q[1] \in L.files}}
            \cup UNION {PartAt(D, r).fdeps : r \in L.parts}                      \* wrapper part of a required / dynamically imported file
      np == L.parts
            \cup {r \in refs : r[1] \in L.files /\ MustLive(D, r)}
            \cup UNION {PartAt(D, r).deps : r \in L.parts}
  IN [files |-> nf \cap D.files, parts |-> np \cap refs]

RECURSIVE Fix(_, _)
Fix(D, L) == LET N == Step(D, L) IN IF N = L THEN L ELSE Fix(D, N)

\* the least fixed point of markFileLive / markPartLive started at the entry points
Live(D) == Fix(D, [files |-> D.entry \cap D.files, parts |-> {}])

\* L is closed under the rules (used on recorded states: the real flags must be closed)
ClosedUnder(D, L) == Step(D, L) = L

\* --- the invariants of the property, over a dependency graph and a liveness assignment L ---

\* dependencies of a live part are live, and so is its file
LiveClosed(D, L) ==
  \A r \in L.parts :
     /\ r[1] \in L.files
     /\ (PartAt(D, r).deps \cap PartRefs(D)) \subseteq L.parts
     /\ (PartAt(D, r).fdeps \cap D.files) \subseteq L.files

\* a file imported by a statement of a live file is live unless an annotation covers it
ImportsKept(D, L) ==
  \A r \in PartRefs(D) :
     r[1] \in L.files => ((PartAt(D, r).srecs \cap D.files) \ D.seFree) \subseteq L.files

\* a part the classifier does not call removable is live as soon as its file is
UnremovableKept(D, L) ==
  \A r \in PartRefs(D) : (r[1] \in L.files /\ ~PartAt(D, r).removable) => r \in L.parts

EntriesLive(D, L) == (D.entry \cap D.files) \subseteq L.files

-----------------------------------------------------------------------------
(* Symbol layer: a graph G                                                 *)
(*  G.files, G.entry, G.seFalse (annotated files), G.ts, G.ignoreAnn,        *)
(*  G.part[f] : sequence of                                                  *)
(*     [declares, uses, effect, removable, force, recs, probe, entryExp]     *)
(*       recs : set of [kind |-> "stmt"|"require"|"dynamic", to |-> file]    *)
(*  G.imp[f]  : set of [local, from, name]       import {name as local} from *)
(*  G.exp[f]  : set of [kind, name, local, from, fromName, part]             *)
(*       kind "local": export {local as name}; "from": export {fromName as   *)
(*       name} from; "star": export * from; part = index of the statement    *)
(*  G.cjs     : the CommonJS files (no static exports; wrapped in __commonJS)  *)
(*  a part with entryExp = TRUE is the entry point's dummy part of step 6: it  *)
(*  depends on everything the entry point exports                             *)

NoRes == [ok |-> FALSE, file |-> 0, name |-> "", via |-> {}]
CjsName == "*cjs"   \* a binding of a CommonJS file: a property read on the required namespace, no declaring part

\* the statement-level import records of a part / a file
StmtRecsOf(G, f, i) == {r.to : r \in {q \in G.part[f][i].recs : q.kind = "stmt"}}
StmtTargets(G, f) == UNION {StmtRecsOf(G, f, i) : i \in DOMAIN G.part[f]}
\* the import / re-export statements of file f that name file g: they DECLARE the
\* import symbols in f (matchImportWithExport adds them to importData.ReExports:
\* "the statement(s) that declared this import symbol in the original file")
ImportStmtParts(G, f, g) == {<<f, i>> : i \in {j \in DOMAIN G.part[f] : g \in StmtRecsOf(G, f, j)}}

RECURSIVE ResolveExport(_, _, _, _), ResolveLocal(_, _, _, _)

\* the declaration a name that is visible in file f refers to; `via` collects
\* the re-export statements passed on the way (importData.ReExports)
ResolveLocal(G, f, n, fuel) ==
  IF fuel = 0 THEN NoRes
  ELSE IF \E i \in DOMAIN G.part[f] : n \in G.part[f][i].declares
       THEN [ok |-> TRUE, file |-> f, name |-> n, via |-> {}]
  ELSE LET bs == {b \in G.imp[f] : b.local = n} IN
       IF bs = {} THEN NoRes
       ELSE LET b == CHOOSE b \in bs : TRUE
                r == ResolveExport(G, b.from, b.name, fuel - 1)
            IN IF r.ok THEN [r EXCEPT !.via = @ \cup ImportStmtParts(G, f, b.from)] ELSE NoRes

ResolveExport(G, f, en, fuel) ==
  IF fuel = 0 \/ f \notin G.files THEN NoRes
  ELSE IF f \in G.cjs THEN [ok |-> TRUE, file |-> f, name |-> CjsName, via |-> {}]
  ELSE LET locals == {e \in G.exp[f] : e.kind = "local" /\ e.name = en}
           froms  == {e \in G.exp[f] : e.kind = "from" /\ e.name = en}
           stars  == {e \in G.exp[f] : e.kind = "star"}
       IN IF locals # {} THEN ResolveLocal(G, f, (CHOOSE e \in locals : TRUE).local, fuel - 1)
          ELSE IF froms # {} THEN
               LET e == CHOOSE e \in froms : TRUE
                   r == ResolveExport(G, e.from, e.fromName, fuel - 1)
               IN IF r.ok THEN [r EXCEPT !.via = @ \cup {<<f, e.part>>}] ELSE NoRes
          ELSE LET cands == {e \in stars : ResolveExport(G, e.from, en, fuel - 1).ok} IN
               IF cands = {} THEN NoRes
               ELSE LET e == CHOOSE e \in cands : \A e2 \in cands : e.part <= e2.part
                        r == ResolveExport(G, e.from, en, fuel - 1)
                    IN [r EXCEPT !.via = @ \cup {<<f, e.part>>}]

Fuel(G) == 2 * Cardinality(G.files) + 2
DeclParts(G, f, n) == {<<f, i>> : i \in {j \in DOMAIN G.part[f] : n \in G.part[f][j].declares}}

\* dependencies of part (f, i) that bind a use to its declaration ...
DeclDeps(G, f, i) ==
  UNION {LET r == ResolveLocal(G, f, n, Fuel(G)) IN IF r.ok THEN DeclParts(G, r.file, r.name) ELSE {} : n \in G.part[f][i].uses}
\* ... and those on the re-export statements passed in between
PassDeps(G, f, i) ==
  UNION {LET r == ResolveLocal(G, f, n, Fuel(G)) IN IF r.ok THEN r.via ELSE {} : n \in G.part[f][i].uses}

SeFree(G) == IF G.ignoreAnn THEN {} ELSE G.seFalse

\* --- wrap kinds (graph.WrapNone / WrapESM / WrapCJS), a derived graph attribute:
\* a CommonJS file is wrapped in __commonJS; an ES module that is the target of
\* require() or of import() (no code splitting) is wrapped lazily in __esm
\* (init_x), and so is everything a wrapped file imports by statement
LazyTargets(G) ==
  UNION {UNION {{r.to : r \in {q \in G.part[f][i].recs : q.kind \in {"require", "dynamic"}}} : i \in DOMAIN G.part[f]} : f \in G.files}
RECURSIVE WrapFix(_, _)
WrapFix(G, W) ==
  LET N == (W \cup UNION {StmtTargets(G, f) : f \in W}) \cap G.files
  IN IF N = W THEN W ELSE WrapFix(G, N)
Wrapped(G) == WrapFix(G, (LazyTargets(G) \cup G.cjs) \cap G.files)
WrapOfIn(G, W, f) == IF f \in G.cjs THEN "cjs" ELSE IF f \in W THEN "esm" ELSE "none"
WrapOf(G, f) == WrapOfIn(G, Wrapped(G), f)

\* the names an entry point exports (export * expanded)
NameUniverse(G) ==
  UNION {UNION {G.part[f][i].declares : i \in DOMAIN G.part[f]} : f \in G.files}
  \cup UNION {{e.name : e \in G.exp[f]} : f \in G.files}
ExportNames(G, f) ==
  IF f \in G.cjs THEN {}
  ELSE {n \in NameUniverse(G) \ {""} : ResolveExport(G, f, n, Fuel(G)).ok
                                        /\ (\E e \in G.exp[f] : e.kind = "star" \/ e.name = n)}

\* --- the EDGE KINDS of scanImportsAndExports step 6 (a `drop` set names the
\* kinds a mutated linker leaves out; the design is drop = {}):
\*  useDecl       part using an import      -> the parts declaring the bound symbol
\*  usePass       part using an import      -> importData.ReExports: the import / re-export statements passed, the file's own import statement included
\*  entryDecl     entry point dummy part    -> the parts declaring every exported symbol
\*  entryPass     entry point dummy part    -> importData.ReExports in OTHER files
\*  entryPassSelf entry point dummy part    -> importData.ReExports in the entry point itself (its own `export {x} from` / `import {x}` statement)
\*  wrapUse       part with an import statement of a WRAPPED file -> the wrapper (init_x / require_x) of that file
\*  lazyFile      part with require() / import() -> the wrapper and the exports object of the target
EdgeKindNames == {"useDecl", "usePass", "entryDecl", "entryPass", "entryPassSelf", "wrapUse", "lazyFile"}

EntryExpDeps(G, f, drop) ==
  UNION {LET r == ResolveExport(G, f, n, Fuel(G)) IN
         IF ~r.ok THEN {}
         ELSE (IF "entryDecl" \in drop THEN {} ELSE DeclParts(G, r.file, r.name))
              \cup {v \in r.via : IF v[1] = f THEN "entryPassSelf" \notin drop ELSE "entryPass" \notin drop}
         : n \in ExportNames(G, f)}

\* projection of the symbol layer onto the dependency layer (what the linker builds)
DepGraphM(G, drop) ==
  LET W == Wrapped(G) IN
  [files |-> G.files, entry |-> G.entry, seFree |-> SeFree(G), ts |-> G.ts,
   part |-> [f \in G.files |->
       [i \in DOMAIN G.part[f] |->
          LET p == G.part[f][i] IN
          [removable |-> p.removable, force |-> p.force,
           deps  |-> (IF "useDecl" \in drop THEN {} ELSE DeclDeps(G, f, i))
                     \cup (IF "usePass" \in drop THEN {} ELSE PassDeps(G, f, i))
                     \cup (IF p.entryExp THEN EntryExpDeps(G, f, drop) ELSE {}),
           fdeps |-> (IF "lazyFile" \in drop THEN {} ELSE {r.to : r \in {q \in p.recs : q.kind \in {"require", "dynamic"}}})
                     \cup (IF "wrapUse" \in drop THEN {} ELSE {g \in StmtRecsOf(G, f, i) : WrapOfIn(G, W, g) # "none"}),
           srecs |-> StmtRecsOf(G, f, i)]]]]
DepGraph(G) == DepGraphM(G, {})

LiveOf(G) == Live(DepGraph(G))

\* the classifier is sound when it never calls an effectful statement removable
ClassifierSound(G) == \A f \in G.files : \A i \in DOMAIN G.part[f] : G.part[f][i].removable => ~G.part[f][i].effect

\* files that native execution reaches and no annotation licenses to skip:
\* plain reachability over statement-level imports, independent of Live
RECURSIVE ReachFix(_, _)
ReachFix(G, R) ==
  LET tg == UNION {UNION {{r.to : r \in {q \in G.part[f][i].recs : q.kind = "stmt"}} : i \in DOMAIN G.part[f]} : f \in R}
      M == R \cup ((tg \cap G.files) \ SeFree(G))
  IN IF M = R THEN R ELSE ReachFix(G, M)
ReachedForEffects(G) == ReachFix(G, G.entry)

\* every statement with an effect, in a file reached for its side effects (or
\* in any file that is live at all), is live
EffectsKeptOn(G, L) ==
  \A f \in ReachedForEffects(G) \cup L.files : \A i \in DOMAIN G.part[f] :
     G.part[f][i].effect => <<f, i>> \in L.parts

\* an import / re-export statement that names a WRAPPED file is what becomes the
\* `init_x()` / `require_x()` call: it carries an initialiser obligation
InitStmt(G, v) == \E g \in StmtRecsOf(G, v[1], v[2]) : WrapOf(G, g) # "none"

\* a live use resolves to a declaration all of whose declaring parts are live,
\* and the statements in between that initialise a wrapped file are live too
NoDanglingUseOn(G, L) ==
  \A r \in L.parts : \A n \in G.part[r[1]][r[2]].uses :
     LET res == ResolveLocal(G, r[1], n, Fuel(G)) IN
       res.ok => /\ (res.file \in G.cjs \/ DeclParts(G, res.file, res.name) # {})
                 /\ DeclParts(G, res.file, res.name) \subseteq L.parts
                 /\ res.file \in L.files
                 /\ \A v \in res.via : InitStmt(G, v) => v \in L.parts
\* the design keeps ALL statements in between live (stricter than needed)
PassStmtsLiveOn(G, L) ==
  \A r \in L.parts : \A n \in G.part[r[1]][r[2]].uses :
     LET res == ResolveLocal(G, r[1], n, Fuel(G)) IN res.ok => res.via \subseteq L.parts

\* EXPORTED BINDINGS ARE INITIALISED: whatever an entry point exports resolves
\* to a live declaration in a live file, and every statement on the way that
\* must call the wrapper of a wrapped file (init_x / require_x) is live --
\* otherwise the bundle exports a binding that was never initialised
ExportsInitialisedOn(G, L) ==
  \A e \in G.entry \cap G.files : \A n \in ExportNames(G, e) :
     LET res == ResolveExport(G, e, n, Fuel(G)) IN
       res.ok => /\ (res.file \in G.cjs \/ DeclParts(G, res.file, res.name) # {})
                 /\ DeclParts(G, res.file, res.name) \subseteq L.parts
                 /\ res.file \in L.files
                 /\ \A v \in res.via : InitStmt(G, v) => v \in L.parts
\* (design, stricter) all of them are live
ExportPassStmtsLiveOn(G, L) ==
  \A e \in G.entry \cap G.files : \A n \in ExportNames(G, e) :
     LET res == ResolveExport(G, e, n, Fuel(G)) IN res.ok => res.via \subseteq L.parts

DesignLiveClosedOn(D, L) ==
  LiveClosed(D, L) /\ ImportsKept(D, L) /\ UnremovableKept(D, L) /\ EntriesLive(D, L) /\ ClosedUnder(D, L)

\* --- annotations only ever enlarge the removable set ---
LeqLive(A, B) == A.files \subseteq B.files /\ A.parts \subseteq B.parts
\* all one-step strengthenings of the annotations of G: one more file covered by
\* sideEffects:false, or one more part called removable (a pure annotation)
\* (annotations change flags of the dependency graph only, never its edges)
MoreAnnotated(D) ==
  {[D EXCEPT !.seFree = @ \cup {f}] : f \in D.files \ D.seFree}
  \cup {[D EXCEPT !.part[r[1]][r[2]].removable = TRUE] : r \in {q \in PartRefs(D) : ~PartAt(D, q).removable}}
AnnotationMonotoneOn(D, L) == \A H \in MoreAnnotated(D) : LeqLive(Live(H), L)
\* disabling tree shaking or ignoring annotations only ever keeps more
ModeMonotoneOn(D, L) ==
  /\ LeqLive(L, Live([D EXCEPT !.ts = FALSE]))
  /\ LeqLive(L, Live([D EXCEPT !.seFree = {}]))

\* what MUST survive: effectful parts that stay live under the IDEAL sound
\* classifier (removable = ~effect; the entry point's dummy part is never
\* removable) with tree shaking on.  A sideEffects:false
\* file that is only passed through by a re-export (none of its own
\* declarations is bound by a live use) may vanish as a whole: the property
\* lets annotated modules disappear.
Ideal(G) == [G EXCEPT !.ts = TRUE,
               !.part = [f \in G.files |-> [i \in DOMAIN G.part[f] |-> [G.part[f][i] EXCEPT !.removable = ~G.part[f][i].effect /\ ~G.part[f][i].entryExp]]]]
BoundFiles(G, f, i) ==
  {d[1] : d \in DeclDeps(G, f, i)}
  \cup UNION {LET r == ResolveLocal(G, f, n, Fuel(G)) IN IF r.ok THEN {r.file} ELSE {} : n \in G.part[f][i].uses}
  \cup (IF G.part[f][i].entryExp
        THEN UNION {LET r == ResolveExport(G, f, n, Fuel(G)) IN IF r.ok THEN {r.file} ELSE {} : n \in ExportNames(G, f)}
        ELSE {})
DeclBound(G, L) == UNION {BoundFiles(G, r[1], r[2]) : r \in L.parts}
MustKeepParts(G) ==
  LET I == Ideal(G) L == LiveOf(I)
      passOnly == (L.files \cap SeFree(G)) \ (DeclBound(I, L) \cup G.entry)
  IN {r \in L.parts : G.part[r[1]][r[2]].effect /\ r[1] \notin passOnly}
EffectParts(G) == {r \in UNION {{<<f, i>> : i \in DOMAIN G.part[f]} : f \in G.files} : G.part[r[1]][r[2]].effect}
\* natively every file reachable over any import record executes
RECURSIVE NativeFix(_, _)
NativeFix(G, R) ==
  LET N == (R \cup UNION {UNION {{r.to : r \in G.part[f][i].recs} : i \in DOMAIN G.part[f]} : f \in R}) \cap G.files
  IN IF N = R THEN R ELSE NativeFix(G, N)
NativeFiles(G) == NativeFix(G, G.entry)

=============================================================================
