------------------------------ MODULE JsSemStep ------------------------------
(***************************************************************************)
(* A SMALL-STEP machine for the expression fragment of JsSem, written      *)
(* independently of the big-step evaluator Ev: a control (expression to    *)
(* evaluate | value | abrupt result), a stack of frames and the same host  *)
(* state.  One rule per evaluation step of ECMA-262 13.x (operand order,   *)
(* short circuit, reference resolution before the right-hand side,         *)
(* GetValue before the right-hand side of a compound assignment, ...).     *)
(* Every rule is a guarded set { } or {successor}; the step relation is    *)
(* their union.  TLC checks on every reachable configuration:              *)
(*   Deterministic  at most one rule applies (one trace per program and    *)
(*                  environment)                                           *)
(*   Progress       a non-final configuration has a successor (total)      *)
(*   Agreement      the final configuration equals the big-step result     *)
(*                  Ev(e, InitState(env)): value/throw, trace, variables,  *)
(*                  recorder store, probe count                            *)
(* Value-level helpers (BinR, ToPrimR, GetRef, PutRef, UnPrim) are shared  *)
(* with JsSem: what is re-specified here is the evaluation ORDER.          *)
(***************************************************************************)
EXTENDS JsSemProgs

CONSTANTS NStep,      \* number of seeded random expressions (depth Depth) besides the exhaustive depth-1 set
          NRows       \* number of environment rows (of RowSeq) to run every expression in

VARIABLES e0, row, cfg

RowSeq   == << <<0, 0>>, <<3, 5>>, <<7, 2>>, <<11, 9>>, <<1, 1>>, <<5, 12>> >>
StepRows == {RowSeq[n] : n \in 1..NRows}

Ctl(m, e, v) == [m |-> m, e |-> e, v |-> v]                 \* m: "ev" | "val" | "thr" | "unk"
Frame(f, e, vs, ref) == [f |-> f, e |-> e, vs |-> vs, ref |-> ref]
Cfg(c, k, st) == [c |-> c, k |-> k, st |-> st]
EvC(e)  == Ctl("ev", e, Undef)
ValC(v) == Ctl("val", None, v)
OfR(r)  == Ctl(IF r.c = "val" THEN "val" ELSE IF r.c = "throw" THEN "thr" ELSE "unk", None, r.v)   \* a helper result as control

Final(g) == g.k = <<>> /\ g.c.m # "ev"
Top(g)   == g.k[Len(g.k)]
Pop(g)   == SubSeq(g.k, 1, Len(g.k) - 1)
PushF(g, fr) == Append(g.k, fr)
One1(c, k, st) == {Cfg(c, k, st)}

(* ---- rules for a control that is an expression to evaluate ---- *)
RLeaf(g) ==
  LET e == g.c.e
  IN IF g.c.m = "ev" /\ e.k \in {"lit", "var", "rec", "glob"}
     THEN One1(CASE e.k = "lit" -> ValC(e.v)
                [] e.k = "var" -> ValC(g.st.vars[e.op])
                [] e.k = "rec" -> ValC(RecV)
                [] e.k = "glob" -> IF g.st.g.t = "undecl" THEN Ctl("thr", None, RefErr) ELSE ValC(g.st.g),
              g.k, g.st)
     ELSE {}

DoCall(n, vs, k, st) ==          \* the probe call itself
  LET st1 == [st EXCEPT !.tr = Append(@, Event("p", n, <<>>, vs)), !.calls = @ + 1]
  IN One1(IF st1.calls >= MaxCalls THEN Ctl("thr", None, Err(3)) ELSE ValC(st1.pv[n]), k, st1)

RProbe(g) ==
  LET e == g.c.e
  IN IF g.c.m = "ev" /\ e.k = "probe"
     THEN IF e.a = <<>> THEN DoCall(e.n, <<>>, g.k, g.st)
          ELSE One1(EvC(e.a[1]), PushF(g, Frame("args", e, <<>>, NoRef)), g.st)
     ELSE {}

ROperand(g) ==                   \* operators that start by evaluating their first operand
  LET e == g.c.e
  IN IF g.c.m = "ev" /\ e.k \in {"bin", "log", "cond", "comma"}
     THEN One1(EvC(e.a[1]), PushF(g, Frame(e.k, e, <<>>, NoRef)), g.st)
     ELSE {}

RUnary(g) ==
  LET e == g.c.e
  IN IF g.c.m = "ev" /\ e.k = "un"
     THEN IF e.op = "typeof" /\ e.a[1].k = "glob" /\ g.st.g.t = "undecl"
          THEN One1(ValC(Str(CU("undefined"))), g.k, g.st)
          ELSE One1(EvC(e.a[1]), PushF(g, Frame("un", e, <<>>, NoRef)), g.st)
     ELSE {}

(* member reads, assignment, delete: first resolve the reference (base, then key) *)
TargetOf(e) == IF e.k \in {"asg", "del"} THEN e.a[1] ELSE e
RRefStart(g) ==
  LET e == g.c.e
      t == TargetOf(e)
  IN IF g.c.m = "ev" /\ e.k \in {"mem", "optmem", "idx", "asg", "del"}
     THEN IF t.k = "var"
          THEN (IF e.k = "asg"          \* identifier reference: nothing to evaluate
                THEN One1(Ctl("ref", None, Undef), PushF(g, Frame("target", e, <<>>, [rk |-> "var", nm |-> t.op, base |-> Undef, key |-> <<>>])), g.st)
                ELSE {})
          ELSE IF t.k \in {"mem", "optmem", "idx"}
          THEN One1(EvC(t.a[1]), PushF(g, Frame("base", e, <<>>, NoRef)), g.st)
          ELSE IF e.k = "del"           \* delete of a non-reference
          THEN One1(EvC(t), PushF(g, Frame("delval", e, <<>>, NoRef)), g.st)
          ELSE One1(Ctl("unk", None, Unk), g.k, g.st)
     ELSE {}

(* ---- rules for a value returned to the top frame ---- *)
RArgs(g) ==
  IF g.c.m = "val" /\ g.k # <<>> /\ Top(g).f = "args"
  THEN LET fr == Top(g) vs == Append(fr.vs, g.c.v)
       IN IF Len(vs) < Len(fr.e.a)
          THEN One1(EvC(fr.e.a[Len(vs) + 1]), Append(Pop(g), Frame("args", fr.e, vs, NoRef)), g.st)
          ELSE DoCall(fr.e.n, vs, Pop(g), g.st)
  ELSE {}

RBinLeft(g) ==       \* left operand done: evaluate the right operand
  IF g.c.m = "val" /\ g.k # <<>> /\ Top(g).f = "bin" /\ Top(g).vs = <<>>
  THEN One1(EvC(Top(g).e.a[2]), Append(Pop(g), Frame("bin", Top(g).e, <<g.c.v>>, NoRef)), g.st)
  ELSE {}
RBinRight(g) ==      \* both operands done: ToPrimitive left, ToPrimitive right, operate
  IF g.c.m = "val" /\ g.k # <<>> /\ Top(g).f = "bin" /\ Len(Top(g).vs) = 1
  THEN LET r == BinR(Top(g).e.op, Top(g).vs[1], g.c.v, g.st) IN One1(OfR(r), Pop(g), r.st)
  ELSE {}

RLog(g) ==
  IF g.c.m = "val" /\ g.k # <<>> /\ Top(g).f = "log"
  THEN LET op == Top(g).e.op
           short == (op = "&&" /\ ~Truthy(g.c.v)) \/ (op = "||" /\ Truthy(g.c.v)) \/ (op = "??" /\ ~Nullish(g.c.v))
       IN IF short THEN One1(g.c, Pop(g), g.st) ELSE One1(EvC(Top(g).e.a[2]), Pop(g), g.st)
  ELSE {}
RCond(g) ==
  IF g.c.m = "val" /\ g.k # <<>> /\ Top(g).f = "cond"
  THEN One1(EvC(IF Truthy(g.c.v) THEN Top(g).e.a[2] ELSE Top(g).e.a[3]), Pop(g), g.st)
  ELSE {}
RComma(g) ==
  IF g.c.m = "val" /\ g.k # <<>> /\ Top(g).f = "comma"
  THEN One1(EvC(Top(g).e.a[2]), Pop(g), g.st)
  ELSE {}
RUnApply(g) ==
  IF g.c.m = "val" /\ g.k # <<>> /\ Top(g).f = "un"
  THEN LET op == Top(g).e.op
       IN IF op \in {"typeof", "!", "void"}
          THEN One1(OfR(FromV(UnPrim(op, g.c.v), g.st)), Pop(g), g.st)
          ELSE LET p == ToPrimR(g.c.v, "number", g.st)
               IN IF p.c # "val" THEN One1(OfR(p), Pop(g), p.st)
                  ELSE One1(OfR(FromV(UnPrim(op, p.v), p.st)), Pop(g), p.st)
  ELSE {}
RDelVal(g) ==
  IF g.c.m = "val" /\ g.k # <<>> /\ Top(g).f = "delval"
  THEN One1(ValC(True), Pop(g), g.st)
  ELSE {}

(* base of a property reference evaluated: the key, or the reference is complete *)
RBase(g) ==
  IF g.c.m = "val" /\ g.k # <<>> /\ Top(g).f = "base"
  THEN LET e == Top(g).e t == TargetOf(e)
       IN IF t.k = "idx"
          THEN One1(EvC(t.a[2]), Append(Pop(g), Frame("key", e, <<g.c.v>>, NoRef)), g.st)
          ELSE One1(Ctl("ref", None, Undef),
                    Append(Pop(g), Frame("target", e, <<>>, [rk |-> "prop", nm |-> "", base |-> g.c.v, key |-> KeyK])), g.st)
  ELSE {}
RKey(g) ==
  IF g.c.m = "val" /\ g.k # <<>> /\ Top(g).f = "key"
  THEN LET ks == PropKeyOf(g.c.v)
       IN IF ks.t # "str" THEN One1(Ctl("unk", None, Unk), Pop(g), g.st)
          ELSE One1(Ctl("ref", None, Undef),
                    Append(Pop(g), Frame("target", Top(g).e, <<>>, [rk |-> "prop", nm |-> "", base |-> Top(g).vs[1], key |-> ks.s])), g.st)
  ELSE {}

(* the reference is resolved (control "ref", frame "target"): what the operator does with it *)
RRefUse(g) ==
  IF g.c.m = "ref" /\ g.k # <<>> /\ Top(g).f = "target"
  THEN LET e == Top(g).e ref == Top(g).ref t == TargetOf(e)
       IN CASE e.k \in {"mem", "idx"} -> LET r == GetRef(ref, g.st) IN One1(OfR(r), Pop(g), r.st)
            [] e.k = "optmem" -> IF Nullish(ref.base) THEN One1(ValC(Undef), Pop(g), g.st)
                                 ELSE LET r == GetRef(ref, g.st) IN One1(OfR(r), Pop(g), r.st)
            [] e.k = "del" ->
                 IF Nullish(ref.base)
                 THEN One1(IF t.k = "optmem" THEN ValC(True) ELSE Ctl("thr", None, TypeErr), Pop(g), g.st)
                 ELSE IF ref.base = RecV
                 THEN One1(ValC(True), Pop(g), [Push(g.st, Event("del", 0, ref.key, <<>>)) EXCEPT !.os = OsDel(@, ref.key)])
                 ELSE IF ref.key = KeyK THEN One1(ValC(True), Pop(g), g.st)
                 ELSE One1(Ctl("unk", None, Unk), Pop(g), g.st)
            [] e.k = "asg" ->
                 IF e.op = "="
                 THEN One1(EvC(e.a[2]), Append(Pop(g), Frame("rhs", e, <<>>, ref)), g.st)
                 ELSE LET old == GetRef(ref, g.st)            \* GetValue(lref) BEFORE the right-hand side
                      IN IF old.c # "val" THEN One1(OfR(old), Pop(g), old.st)
                         ELSE IF e.op \in LogAsgOps /\
                                 ((e.op = "&&=" /\ ~Truthy(old.v)) \/ (e.op = "||=" /\ Truthy(old.v)) \/ (e.op = "??=" /\ ~Nullish(old.v)))
                         THEN One1(ValC(old.v), Pop(g), old.st)
                         ELSE One1(EvC(e.a[2]), Append(Pop(g), Frame("rhs", e, <<old.v>>, ref)), old.st)
  ELSE {}
RRhs(g) ==
  IF g.c.m = "val" /\ g.k # <<>> /\ Top(g).f = "rhs"
  THEN LET e == Top(g).e ref == Top(g).ref
       IN IF e.op \in {"="} \cup LogAsgOps
          THEN LET r == PutRef(ref, g.c.v, g.st) IN One1(OfR(r), Pop(g), r.st)
          ELSE LET x == BinR(BaseOp(e.op), Top(g).vs[1], g.c.v, g.st)
               IN IF x.c # "val" THEN One1(OfR(x), Pop(g), x.st)
                  ELSE LET r == PutRef(ref, x.v, x.st) IN One1(OfR(r), Pop(g), r.st)
  ELSE {}

(* an abrupt result unwinds the whole stack (no try inside an expression) *)
RAbrupt(g) ==
  IF g.c.m \in {"thr", "unk"} /\ g.k # <<>> THEN One1(g.c, <<>>, g.st) ELSE {}

Rules(g) == << RLeaf(g), RProbe(g), ROperand(g), RUnary(g), RRefStart(g), RArgs(g), RBinLeft(g), RBinRight(g),
               RLog(g), RCond(g), RComma(g), RUnApply(g), RDelVal(g), RBase(g), RKey(g), RRefUse(g), RRhs(g), RAbrupt(g) >>
Succ(g) == UNION {Rules(g)[n] : n \in 1..18}
Enabled1(g) == {n \in 1..18 : Rules(g)[n] # {}}

(* ---- the checked behaviours ---- *)
StepExprs == (IF DoD1 THEN D1Exprs(0) ELSE {})
             \cup {GenE(Depth, [r |-> RngInit(Seed, n), np |-> 0]).t : n \in 1..NStep}

Init == /\ e0 \in StepExprs
        /\ row \in StepRows
        /\ cfg = Cfg(EvC(e0), <<>>, InitState(EnvOf(row[1], row[2])))
Next == /\ cfg' \in Succ(cfg)
        /\ UNCHANGED <<e0, row>>

(* every pattern class the property names is inhabited by the exhaustive skeleton family *)
InhabitedBy(progs) == \A c \in RequiredClasses : \E pr \in progs : c \in Labels(pr)
ASSUME DoSkel => InhabitedBy(SkelProgs)

Deterministic == Cardinality(Enabled1(cfg)) <= 1 /\ Cardinality(Succ(cfg)) <= 1
Progress      == ~Final(cfg) => Succ(cfg) # {}
Agreement     == Final(cfg) =>
                   LET big == Ev(e0, InitState(EnvOf(row[1], row[2])))
                   IN /\ big.c = (CASE cfg.c.m = "val" -> "val" [] cfg.c.m = "thr" -> "throw" [] OTHER -> "unk")
                      /\ big.c # "unk" => (big.v = cfg.c.v /\ big.st = cfg.st)
                      /\ big.c = "unk" => big.st.tr = cfg.st.tr
=============================================================================
