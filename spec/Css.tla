-------------------------------- MODULE Css --------------------------------
(***************************************************************************)
(* C12 - the cascade as a specification.                                   *)
(*                                                                         *)
(* A style sheet is a sequence of ITEMS in order of appearance.  An item   *)
(* is a style rule in flat form (its PATH = the enclosing @layer / @media  *)
(* / @supports / @container blocks and enclosing style rules, outermost    *)
(* first, ending in its own selector list; then its declarations) or an    *)
(* `@layer a, b;` statement.  Nesting is part of the path: the path        *)
(* <<sel ".a", sel "&.c">> is the rule `.a { &.c { ... } }`; its meaning   *)
(* is defined by DESUGARING (`&` = :is(parent list)), and the operators    *)
(* PM/PS give the direct ("nested form") meaning; NestEquiv states that    *)
(* the two agree.                                                          *)
(*                                                                         *)
(* An ENVIRONMENT is a browser: the truth of every condition atom and the  *)
(* set of syntax features it understands.  Unknown selector syntax         *)
(* invalidates the whole rule (with everything nested in it), unknown      *)
(* property/value syntax invalidates the declaration, an unknown media     *)
(* feature makes its media query false.                                    *)
(*                                                                         *)
(* Winner(sheet, env, element, longhand) is the cascade of CSS Cascade 5   *)
(* for one origin: importance, layers (reversed for !important),           *)
(* specificity, order of appearance.  Shorthands set their longhands.      *)
(* Values are abstract: every value has one canonical form and several     *)
(* spellings (each possibly needing a syntax feature).                     *)
(***************************************************************************)
EXTENDS Integers, Sequences, FiniteSets, TLC, CssVals

\* Bind(v, F) = F(v) with v evaluated ONCE: TLC re-evaluates a LET definition or an operator
\* argument at every use when it depends on a state variable, but binds a quantified variable
\* to a value.  Used wherever an expensive intermediate result is used many times.
Bind(v, F(_)) == CHOOSE r \in {F(x) : x \in {v}} : TRUE

\* ------------------------------------------------------------------ document
Dom == <<
 [tag |-> "div",  id |-> "r", cls |-> {"a"},      attr |-> {},                par |-> 0],
 [tag |-> "p",    id |-> "",  cls |-> {"a","b"},  attr |-> {<<"title","t">>}, par |-> 1],
 [tag |-> "p",    id |-> "",  cls |-> {"b"},      attr |-> {},                par |-> 1],
 [tag |-> "span", id |-> "s", cls |-> {"a"},      attr |-> {},                par |-> 2],
 [tag |-> "span", id |-> "",  cls |-> {"c"},      attr |-> {<<"title","u">>}, par |-> 2],
 [tag |-> "a",    id |-> "",  cls |-> {"a","c"},  attr |-> {<<"href","h">>},  par |-> 3],
 [tag |-> "div",  id |-> "",  cls |-> {"b","c"},  attr |-> {},                par |-> 1],
 [tag |-> "span", id |-> "",  cls |-> {"a"},      attr |-> {},                par |-> 7],
 [tag |-> "p",    id |-> "",  cls |-> {"a","c"},  attr |-> {},                par |-> 8] >>
Elems == 1..Len(Dom)
Par(e) == Dom[e].par
RECURSIVE Anc(_)
Anc(e) == IF Par(e) = 0 THEN {} ELSE {Par(e)} \cup Anc(Par(e))
Sibs(e) == {f \in Elems : Par(f) = Par(e)}
PrevSibs(e) == {f \in Sibs(e) : f < e}
Prev(e) == IF PrevSibs(e) = {} THEN 0 ELSE CHOOSE f \in PrevSibs(e) : \A g \in PrevSibs(e) : g <= f
IsFirst(e) == PrevSibs(e) = {}
IsLast(e) == {f \in Sibs(e) : f > e} = {}
\* f `comb` e
Rel(e, comb) ==
  CASE comb = " " -> Anc(e)
    [] comb = ">" -> IF Par(e) = 0 THEN {} ELSE {Par(e)}
    [] comb = "+" -> IF Prev(e) = 0 THEN {} ELSE {Prev(e)}
    [] comb = "~" -> PrevSibs(e)
    [] OTHER -> {}

\* ------------------------------------------------------------------ selectors
\* compound  = [ty, cls, id, attr, ps, amp]; pseudo = [k, args]; complex = Seq([comb, c])
\* complex[k].comb is the combinator to the LEFT of compound k; complex[1].comb
\* is "" or, for a relative nested selector, the leading combinator (implied &).
Cp(ty, cls, id) == [ty |-> ty, cls |-> cls, id |-> id, attr |-> {}, ps |-> <<>>, amp |-> FALSE]
Ty(t) == Cp(t, {}, "")
Cl(c) == Cp("", {c}, "")
Id(i) == Cp("", {}, i)
AmpC == [Cp("", {}, "") EXCEPT !.amp = TRUE]
WithAttr(c, a) == [c EXCEPT !.attr = a]
WithPs(c, ps) == [c EXCEPT !.ps = ps]
WithAmp(c) == [c EXCEPT !.amp = TRUE]
Ps(k, args) == [k |-> k, args |-> args]
One(c) == << [comb |-> "", c |-> c] >>
Then(x, comb, c) == Append(x, [comb |-> comb, c |-> c])
Lead(comb, c) == << [comb |-> comb, c |-> c] >>

ListPseudos == {"is", "where", "not"}

RECURSIVE MCompound(_, _, _), MPseudo(_, _, _), MFrom(_, _, _, _)
MCompound(c, e, pm) ==
  /\ (c.ty \in {"", "*"} \/ c.ty = Dom[e].tag)
  /\ c.cls \subseteq Dom[e].cls
  /\ (c.id = "" \/ c.id = Dom[e].id)
  /\ \A a \in c.attr : \E b \in Dom[e].attr : b[1] = a[1] /\ (a[2] = "" \/ b[2] = a[3])
  /\ (c.amp => e \in pm)
  /\ \A i \in 1..Len(c.ps) : MPseudo(c.ps[i], e, pm)
MPseudo(p, e, pm) ==
  CASE p.k \in {"is", "where"} -> \E i \in 1..Len(p.args) : MFrom(p.args[i], Len(p.args[i]), e, pm)
    [] p.k = "not" -> ~ \E i \in 1..Len(p.args) : MFrom(p.args[i], Len(p.args[i]), e, pm)
    [] p.k = "first-child" -> IsFirst(e)
    [] p.k = "last-child" -> IsLast(e)
    [] p.k = "root" -> Par(e) = 0
    [] OTHER -> FALSE          \* dynamic pseudo-classes (:hover) match nothing in a static document
MFrom(x, k, e, pm) ==
  /\ MCompound(x[k].c, e, pm)
  /\ IF k = 1 THEN (x[1].comb = "" \/ \E f \in Rel(e, x[1].comb) : f \in pm)
     ELSE \E f \in Rel(e, x[k].comb) : MFrom(x, k - 1, f, pm)
\* complex selector x matches element e, `&` standing for the elements pm
MComplex(x, e, pm) == MFrom(x, Len(x), e, pm)

\* specificity triples
Z3 == <<0, 0, 0>>
SAdd(s, t) == <<s[1] + t[1], s[2] + t[2], s[3] + t[3]>>
SLess(s, t) == \/ s[1] < t[1]
               \/ s[1] = t[1] /\ s[2] < t[2]
               \/ s[1] = t[1] /\ s[2] = t[2] /\ s[3] < t[3]
SMax(S) == CHOOSE s \in S : \A t \in S : ~SLess(s, t)
RECURSIVE SpCompound(_, _), SpPseudo(_, _), SpFrom(_, _, _), SpPsFrom(_, _, _)
SpPseudo(p, ps) ==
  CASE p.k = "where" -> Z3
    [] p.k \in {"is", "not"} -> SMax({SpFrom(p.args[i], Len(p.args[i]), ps) : i \in 1..Len(p.args)})
    [] OTHER -> <<0, 1, 0>>
SpPsFrom(pss, k, ps) == IF k = 0 THEN Z3 ELSE SAdd(SpPseudo(pss[k], ps), SpPsFrom(pss, k - 1, ps))
SpCompound(c, ps) ==
  SAdd(SAdd(<<IF c.id # "" THEN 1 ELSE 0, Cardinality(c.cls) + Cardinality(c.attr), IF c.ty \in {"", "*"} THEN 0 ELSE 1>>,
            IF c.amp THEN ps ELSE Z3),
       SpPsFrom(c.ps, Len(c.ps), ps))
SpFrom(x, k, ps) ==
  IF k = 0 THEN (IF x[1].comb # "" THEN ps ELSE Z3)
  ELSE SAdd(SpCompound(x[k].c, ps), SpFrom(x, k - 1, ps))
\* specificity of complex selector x, `&` having specificity ps
SpComplex(x, ps) == SpFrom(x, Len(x), ps)

RECURSIVE HasAmpC(_), HasAmpFrom(_, _)
HasAmpC(c) == c.amp \/ \E i \in 1..Len(c.ps) :
                 c.ps[i].k \in ListPseudos /\ \E j \in 1..Len(c.ps[i].args) : HasAmpFrom(c.ps[i].args[j], Len(c.ps[i].args[j]))
HasAmpFrom(x, k) == k > 0 /\ (HasAmpC(x[k].c) \/ HasAmpFrom(x, k - 1))
HasAmp(x) == HasAmpFrom(x, Len(x))
\* a nested selector without & is relative to its parent: `span` = `& span`
Norm(x) == IF HasAmp(x) \/ x[1].comb # "" THEN x ELSE [x EXCEPT ![1].comb = " "]

\* ---- nesting, direct meaning: lists = the selector lists on the path, outermost first
NormAt(x, n) == IF n = 1 THEN x ELSE Norm(x)
RECURSIVE PM(_, _), PS(_, _)
PS(lists, n) ==      \* specificity of `&` referring to level n
  IF n = 0 THEN Z3
  ELSE Bind(PS(lists, n - 1), LAMBDA ps : SMax({SpComplex(NormAt(lists[n][i], n), ps) : i \in 1..Len(lists[n])}))
PM(lists, n) ==      \* the elements level n matches
  IF n = 0 THEN {}
  ELSE Bind(PM(lists, n - 1), LAMBDA pm :
            {e \in Elems : \E i \in 1..Len(lists[n]) : MComplex(NormAt(lists[n][i], n), e, pm)})
NestedSpecWith(lists, e, pm, ps) ==
  LET n == Len(lists) IN
  SMax({SpComplex(NormAt(lists[n][i], n), ps) : i \in {j \in 1..Len(lists[n]) : MComplex(NormAt(lists[n][j], n), e, pm)}})
NestedSpec(lists, e) ==    \* specificity with which the innermost rule applies to e
  NestedSpecWith(lists, e, PM(lists, Len(lists) - 1), PS(lists, Len(lists) - 1))

\* ---- nesting by desugaring: & = :is(parent list)
RECURSIVE DsCompound(_, _), DsPseudo(_, _), DsComplex(_, _)
DsPseudo(p, plist) ==
  IF p.k \in ListPseudos THEN [p EXCEPT !.args = [i \in 1..Len(p.args) |-> DsComplex(p.args[i], plist)]] ELSE p
DsCompound(c, plist) ==
  [c EXCEPT !.amp = FALSE,
            !.ps = (IF c.amp THEN <<Ps("is", plist)>> ELSE <<>>) \o [i \in 1..Len(c.ps) |-> DsPseudo(c.ps[i], plist)]]
DsComplex(x, plist) ==
  LET body == [k \in 1..Len(x) |-> [comb |-> x[k].comb, c |-> DsCompound(x[k].c, plist)]] IN
  IF x[1].comb # "" THEN <<[comb |-> "", c |-> WithPs(Cp("", {}, ""), <<Ps("is", plist)>>)]>> \o body ELSE body
RECURSIVE Flat(_, _)
Flat(lists, n) == IF n = 1 THEN lists[1]
                  ELSE Bind(Flat(lists, n - 1), LAMBDA pl : [i \in 1..Len(lists[n]) |-> DsComplex(Norm(lists[n][i]), pl)])
FlatMatches(fl, e) == \E i \in 1..Len(fl) : MComplex(fl[i], e, {})
FlatSpec(fl, e) == SMax({SpComplex(fl[i], Z3) : i \in {j \in 1..Len(fl) : MComplex(fl[j], e, {})}})

\* the nested form and its desugaring select the same elements with the same specificity
NestEquiv(lists) ==
  Bind(Flat(lists, Len(lists)), LAMBDA fl :
  Bind(PM(lists, Len(lists)), LAMBDA pm :
  Bind(PM(lists, Len(lists) - 1), LAMBDA pm1 :
  Bind(PS(lists, Len(lists) - 1), LAMBDA ps1 :
    \A e \in Elems : /\ FlatMatches(fl, e) <=> e \in pm
                     /\ e \in pm => FlatSpec(fl, e) = NestedSpecWith(lists, e, pm1, ps1)))))

\* features a selector list needs
RECURSIVE FeatC(_), FeatFrom(_, _)
FeatP(p) == (CASE p.k = "is" -> {"is"} [] p.k = "where" -> {"where"}
               [] p.k = "not" -> IF Len(p.args) > 1 \/ Len(p.args[1]) > 1 THEN {"not-list"} ELSE {}
               [] OTHER -> {})
FeatC(c) == (IF c.amp THEN {"nesting"} ELSE {}) \cup
            UNION {FeatP(c.ps[i]) \cup (IF c.ps[i].k \in ListPseudos
                                       THEN UNION {FeatFrom(c.ps[i].args[j], Len(c.ps[i].args[j])) : j \in 1..Len(c.ps[i].args)}
                                       ELSE {}) : i \in 1..Len(c.ps)}
FeatFrom(x, k) == IF k = 0 THEN (IF x[1].comb # "" THEN {"nesting"} ELSE {}) ELSE FeatC(x[k].c) \cup FeatFrom(x, k - 1)
FeatList(l) == UNION {FeatFrom(l[i], Len(l[i])) : i \in 1..Len(l)}

\* ------------------------------------------------------------------ vocabulary: selectors
\* key = the CSS text of the list; value = its structure
A3(n, o, v) == <<n, o, v>>
TopSels ==
  "div" :> <<One(Ty("div"))>> @@ "p" :> <<One(Ty("p"))>> @@ "span" :> <<One(Ty("span"))>> @@ "a" :> <<One(Ty("a"))>> @@
  "*" :> <<One(Ty("*"))>> @@ ".a" :> <<One(Cl("a"))>> @@ ".b" :> <<One(Cl("b"))>> @@ ".c" :> <<One(Cl("c"))>> @@
  "#s" :> <<One(Id("s"))>> @@ "#r" :> <<One(Id("r"))>> @@
  "p.a" :> <<One(Cp("p", {"a"}, ""))>> @@ ".a.b" :> <<One(Cp("", {"a","b"}, ""))>> @@ "span.a" :> <<One(Cp("span", {"a"}, ""))>> @@
  "[title]" :> <<One(WithAttr(Cp("", {}, ""), {A3("title", "", "")}))>> @@
  "[title=t]" :> <<One(WithAttr(Cp("", {}, ""), {A3("title", "=", "t")}))>> @@
  "a[href=h]" :> <<One(WithAttr(Ty("a"), {A3("href", "=", "h")}))>> @@
  "div p" :> <<Then(One(Ty("div")), " ", Ty("p"))>> @@
  "div>p" :> <<Then(One(Ty("div")), ">", Ty("p"))>> @@
  ".a .c" :> <<Then(One(Cl("a")), " ", Cl("c"))>> @@
  ".b>.a" :> <<Then(One(Cl("b")), ">", Cl("a"))>> @@
  "p+p" :> <<Then(One(Ty("p")), "+", Ty("p"))>> @@
  "p~div" :> <<Then(One(Ty("p")), "~", Ty("div"))>> @@
  ".a+.c" :> <<Then(One(Cl("a")), "+", Cl("c"))>> @@
  "#r .c" :> <<Then(One(Id("r")), " ", Cl("c"))>> @@
  "div>p>span" :> <<Then(Then(One(Ty("div")), ">", Ty("p")), ">", Ty("span"))>> @@
  ".a,.b" :> <<One(Cl("a")), One(Cl("b"))>> @@
  "p,#s" :> <<One(Ty("p")), One(Id("s"))>> @@
  "div>p,.c" :> <<Then(One(Ty("div")), ">", Ty("p")), One(Cl("c"))>> @@
  "span,a" :> <<One(Ty("span")), One(Ty("a"))>> @@
  ":is(.a,#s)" :> <<One(WithPs(Cp("", {}, ""), <<Ps("is", <<One(Cl("a")), One(Id("s"))>>)>>))>> @@
  ":where(.a,#s)" :> <<One(WithPs(Cp("", {}, ""), <<Ps("where", <<One(Cl("a")), One(Id("s"))>>)>>))>> @@
  "p:not(.a)" :> <<One(WithPs(Ty("p"), <<Ps("not", <<One(Cl("a"))>>)>>))>> @@
  ":not(.a,.b)" :> <<One(WithPs(Cp("", {}, ""), <<Ps("not", <<One(Cl("a")), One(Cl("b"))>>)>>))>> @@
  ":not(div>p)" :> <<One(WithPs(Cp("", {}, ""), <<Ps("not", <<Then(One(Ty("div")), ">", Ty("p"))>>)>>))>> @@
  "span:is(.a,.c)" :> <<One(WithPs(Ty("span"), <<Ps("is", <<One(Cl("a")), One(Cl("c"))>>)>>))>> @@
  "div :is(p,span).a" :> <<Then(One(Ty("div")), " ", WithPs(Cl("a"), <<Ps("is", <<One(Ty("p")), One(Ty("span"))>>)>>))>> @@
  ":where(p) .c" :> <<Then(One(WithPs(Cp("", {}, ""), <<Ps("where", <<One(Ty("p"))>>)>>)), " ", Cl("c"))>> @@
  ":is(div>p,.c) span" :> <<Then(One(WithPs(Cp("", {}, ""), <<Ps("is", <<Then(One(Ty("div")), ">", Ty("p")), One(Cl("c"))>>)>>)), " ", Ty("span"))>> @@
  ":first-child" :> <<One(WithPs(Cp("", {}, ""), <<Ps("first-child", <<>>)>>))>> @@
  "p:last-child" :> <<One(WithPs(Ty("p"), <<Ps("last-child", <<>>)>>))>> @@
  ":root" :> <<One(WithPs(Cp("", {}, ""), <<Ps("root", <<>>)>>))>> @@
  ".a:hover" :> <<One(WithPs(Cl("a"), <<Ps("hover", <<>>)>>))>> @@
  "span:not(.c):not(#s)" :> <<One(WithPs(Ty("span"), <<Ps("not", <<One(Cl("c"))>>), Ps("not", <<One(Id("s"))>>)>>))>> @@
  "span:first-child,.b.c" :> <<One(WithPs(Ty("span"), <<Ps("first-child", <<>>)>>)), One(Cp("", {"b","c"}, ""))>>

NestSels ==
  "&.c" :> <<One(WithAmp(Cl("c")))>> @@
  "& .c" :> <<Then(One(AmpC), " ", Cl("c"))>> @@
  ".b &" :> <<Then(One(Cl("b")), " ", AmpC)>> @@
  ">p" :> <<Lead(">", Ty("p"))>> @@
  "+p" :> <<Lead("+", Ty("p"))>> @@
  "~.c" :> <<Lead("~", Cl("c"))>> @@
  "&+&" :> <<Then(One(AmpC), "+", AmpC)>> @@
  "& &" :> <<Then(One(AmpC), " ", AmpC)>> @@
  "span" :> <<One(Ty("span"))>> @@
  ".a" :> <<One(Cl("a"))>> @@
  "&>span,.c &" :> <<Then(One(AmpC), ">", Ty("span")), Then(One(Cl("c")), " ", AmpC)>> @@
  "&:not(.b)" :> <<One(WithPs(AmpC, <<Ps("not", <<One(Cl("b"))>>)>>))>> @@
  "p&" :> <<One(WithAmp(Ty("p")))>> @@
  ":is(&,.b)>span" :> <<Then(One(WithPs(Cp("", {}, ""), <<Ps("is", <<One(AmpC), One(Cl("b"))>>)>>)), ">", Ty("span"))>> @@
  ":not(&) .c" :> <<Then(One(WithPs(Cp("", {}, ""), <<Ps("not", <<One(AmpC)>>)>>)), " ", Cl("c"))>> @@
  "&#s,&.b" :> <<One(WithAmp(Id("s"))), One(WithAmp(Cl("b")))>> @@
  "&:where(.a,.c)" :> <<One(WithPs(AmpC, <<Ps("where", <<One(Cl("a")), One(Cl("c"))>>)>>))>> @@
  ":is(&,#s)>span" :> <<Then(One(WithPs(Cp("", {}, ""), <<Ps("is", <<One(AmpC), One(Id("s"))>>)>>)), ">", Ty("span"))>> @@
  ".c:is(&)" :> <<One(WithPs(Cl("c"), <<Ps("is", <<One(AmpC)>>)>>))>> @@
  "&" :> <<One(AmpC)>>

\* selector list of a path element (level 1 = top-level vocabulary, deeper = nested vocabulary)
SelOf(key, level) == IF level = 1 THEN TopSels[key] ELSE NestSels[key]

\* ------------------------------------------------------------------ vocabulary: conditions
\* Sp(t) / SpF(t, f): a spelling without / with a needed syntax feature (defined in CssVals)
Atoms ==
  [ w100  |-> [r |-> "media", key |-> "media:(min-width:100px)",
               sp |-> <<Sp("(min-width:100px)"), Sp("(min-width: 100.0px)"), SpF("(width>=100px)", "media-range"), SpF("(100px <= width)", "media-range")>>],
    w50   |-> [r |-> "media", key |-> "media:(max-width:50px)",
               sp |-> <<Sp("(max-width:50px)"), SpF("(width<=50px)", "media-range")>>],
    print |-> [r |-> "media", key |-> "media:print", sp |-> <<Sp("print")>>],
    hov   |-> [r |-> "media", key |-> "media:(hover:hover)", sp |-> <<Sp("(hover:hover)"), Sp("(hover: hover)")>>],
    grid  |-> [r |-> "supports", key |-> "supports:(display:grid)", sp |-> <<Sp("(display:grid)"), Sp("(display: grid)")>>],
    gap   |-> [r |-> "supports", key |-> "supports:(gap:1px)", sp |-> <<Sp("(gap:1px)")>>],
    c200  |-> [r |-> "container", key |-> "container:(min-width:200px)", sp |-> <<Sp("(min-width:200px)")>>] ]
NoCond == [r |-> "", qs |-> <<>>]
\* condition = OR of queries; query = [neg, atoms: Seq([a, sp])] = (NOT) AND of atoms
QueryFeats(q) == UNION {Atoms[q.atoms[i].a].sp[q.atoms[i].sp].f : i \in 1..Len(q.atoms)}
QueryTrue(q, env) == /\ QueryFeats(q) \subseteq env.feats
                     /\ q.neg # (\A i \in 1..Len(q.atoms) : env.conds[q.atoms[i].a])
CondTrue(c, env) == \E k \in 1..Len(c.qs) : QueryTrue(c.qs[k], env)
CondAtoms(c) == UNION {{c.qs[k].atoms[i].a : i \in 1..Len(c.qs[k].atoms)} : k \in 1..Len(c.qs)}
CondFeats(c) == UNION {QueryFeats(c.qs[k]) : k \in 1..Len(c.qs)}
WFCond(c, rule) ==
  /\ c.r = rule /\ Len(c.qs) >= 1
  /\ \A k \in 1..Len(c.qs) : /\ Len(c.qs[k].atoms) >= 1
                             /\ \A i \in 1..Len(c.qs[k].atoms) :
                                  LET at == c.qs[k].atoms[i] IN
                                  /\ at.a \in DOMAIN Atoms /\ Atoms[at.a].r = rule /\ at.sp \in 1..Len(Atoms[at.a].sp)

\* ------------------------------------------------------------------ vocabulary: values and properties
\* canon = canonical form (a sequence of component strings); sp = spellings
BaseVals ==
  [ red    |-> [kind |-> "color", canon |-> <<"rgba(255,0,0,1)">>,
                sp |-> <<Sp("red"), Sp("#f00"), Sp("#FF0000"), Sp("rgb(255,0,0)"), Sp("RED"), Sp("hsl(0,100%,50%)"), Sp("rgb(100%,0%,0%)"), Sp("rgba(255,0,0,1.0)"),
                         SpF("rgb(255 0 0)", "rgb-space"), SpF("#ff0000ff", "hex-alpha"), SpF("#f00f", "hex-alpha"), SpF("hsl(0deg 100% 50%)", "rgb-space"), SpF("rgb(255 0 0 / 100%)", "rgb-space")>>],
    blue   |-> [kind |-> "color", canon |-> <<"rgba(0,0,255,1)">>,
                sp |-> <<Sp("blue"), Sp("#00f"), Sp("#0000ff"), Sp("rgb(0,0,255)"), Sp("hsl(240,100%,50%)"), SpF("rgb(0 0 255)", "rgb-space"), SpF("#0000ffff", "hex-alpha")>>],
    tan    |-> [kind |-> "color", canon |-> <<"rgba(210,180,140,1)">>,
                sp |-> <<Sp("tan"), Sp("#d2b48c"), Sp("rgb(210,180,140)"), SpF("rgb(210 180 140)", "rgb-space"), SpF("#D2B48CFF", "hex-alpha")>>],
    gray   |-> [kind |-> "color", canon |-> <<"rgba(128,128,128,1)">>,
                sp |-> <<Sp("gray"), Sp("grey"), Sp("#808080"), Sp("rgb(128,128,128)"), Sp("hsl(0,0%,50.2%)")>>],
    red40  |-> [kind |-> "color", canon |-> <<"rgba(255,0,0,0.4)">>,
                sp |-> <<Sp("rgba(255,0,0,0.4)"), Sp("rgba(255,0,0,.40)"), Sp("rgba(255, 0, 0, 40%)"), Sp("hsla(0,100%,50%,0.4)"), SpF("#ff000066", "hex-alpha"), SpF("#f006", "hex-alpha"),
                         SpF("rgb(255 0 0 / 0.4)", "rgb-space"), SpF("rgb(255 0 0 / 40%)", "rgb-space")>>],
    clear  |-> [kind |-> "color", canon |-> <<"rgba(0,0,0,0)">>,
                sp |-> <<Sp("transparent"), Sp("rgba(0,0,0,0)"), SpF("#0000", "hex-alpha"), SpF("#00000000", "hex-alpha"), SpF("rgb(0 0 0 / 0)", "rgb-space")>>],
    cur    |-> [kind |-> "color", canon |-> <<"currentcolor">>, sp |-> <<Sp("currentColor"), Sp("currentcolor")>>],
    l0     |-> [kind |-> "length", canon |-> <<"0">>,
                sp |-> <<Sp("0"), Sp("0px"), Sp("+.0px"), Sp("0.0em"), Sp("-0"), Sp("0e0"), Sp("calc(1px - 1px)")>>],
    l1     |-> [kind |-> "length", canon |-> <<"1px">>, sp |-> <<Sp("1px"), Sp("1.0px"), Sp("+1px"), Sp("1PX"), Sp("1e0px"), Sp("calc(3px - 2px)")>>],
    l2     |-> [kind |-> "length", canon |-> <<"2px">>, sp |-> <<Sp("2px"), Sp("2.00px"), Sp("calc(1px + 1px)"), Sp("calc(2 * 1px)")>>],
    lhalf  |-> [kind |-> "length", canon |-> <<"0.5px">>, sp |-> <<Sp(".5px"), Sp("0.50px"), Sp("+0.5px"), Sp("calc(1px / 2)"), Sp("5e-1px")>>],
    lneg   |-> [kind |-> "length", canon |-> <<"-2px">>, sp |-> <<Sp("-2px"), Sp("-2.0px"), Sp("calc(1px - 3px)"), Sp("calc(-1 * 2px)")>>],
    em15   |-> [kind |-> "length", canon |-> <<"1.5em">>, sp |-> <<Sp("1.5em"), Sp("1.50em"), Sp("calc(3em / 2)")>>],
    pct    |-> [kind |-> "length", canon |-> <<"50%">>, sp |-> <<Sp("50%"), Sp("50.0%"), Sp("calc(100% / 2)")>>],
    pct0   |-> [kind |-> "length", canon |-> <<"0%">>, sp |-> <<Sp("0%"), Sp("0.0%")>>],
    mix    |-> [kind |-> "length", canon |-> <<"calc(100%+-10px)">>, sp |-> <<Sp("calc(100% - 10px)"), Sp("calc(100% - 10.0px)"), Sp("calc(100% - (4px + 6px))")>>],
    auto   |-> [kind |-> "length", canon |-> <<"auto">>, sp |-> <<Sp("auto"), Sp("AUTO")>>],
    slash  |-> [kind |-> "slash", canon |-> <<"/">>, sp |-> <<Sp("/")>>],
    italic |-> [kind |-> "fstyle", canon |-> <<"italic">>, sp |-> <<Sp("italic")>>],
    bold   |-> [kind |-> "weight", canon |-> <<"700">>, sp |-> <<Sp("bold"), Sp("700")>>],
    wnorm  |-> [kind |-> "weight", canon |-> <<"400">>, sp |-> <<Sp("400"), Sp("normal")>>],
    w300   |-> [kind |-> "weight", canon |-> <<"300">>, sp |-> <<Sp("300")>>],
    lh15   |-> [kind |-> "lhnum", canon |-> <<"1.5">>, sp |-> <<Sp("1.5"), Sp("1.50")>>],
    arial  |-> [kind |-> "family", canon |-> <<"n:Arial">>, sp |-> <<Sp("Arial"), Sp("\"Arial\""), Sp("'Arial'")>>],
    serif  |-> [kind |-> "family", canon |-> <<"g:serif">>, sp |-> <<Sp("serif")>>],
    qserif |-> [kind |-> "family", canon |-> <<"n:serif">>, sp |-> <<Sp("\"serif\""), Sp("'serif'")>>],
    tnr    |-> [kind |-> "family", canon |-> <<"n:Times New Roman,g:serif">>,
                sp |-> <<Sp("Times New Roman,serif"), Sp("\"Times New Roman\", serif"), Sp("Times  New  Roman , serif")>>],
    block  |-> [kind |-> "display", canon |-> <<"block">>, sp |-> <<Sp("block"), Sp("BLOCK")>>],
    none   |-> [kind |-> "display", canon |-> <<"none">>, sp |-> <<Sp("none")>>],
    unset  |-> [kind |-> "wide", canon |-> <<"unset">>, sp |-> <<Sp("unset"), Sp("UNSET")>>],
    inherit |-> [kind |-> "wide", canon |-> <<"inherit">>, sp |-> <<Sp("inherit")>>],
    initial |-> [kind |-> "wide", canon |-> <<"initial">>, sp |-> <<Sp("initial")>>],
    revert |-> [kind |-> "wide", canon |-> <<"revert">>, sp |-> <<Sp("revert"), Sp("REVERT")>>],
    \* opaque functions in a length position: atomic values (never reduced); min()/max() are newer syntax
    \* that a browser may reject (feature "math-fn"), env() and an irreducible calc() are not
    envtop |-> [kind |-> "lenfn", canon |-> <<"env(safe-area-inset-top)">>, sp |-> <<Sp("env(safe-area-inset-top)")>>],
    max12  |-> [kind |-> "lenfn", canon |-> <<"max(1px,2%)">>, sp |-> <<SpF("max(1px,2%)", "math-fn"), SpF("max(1px, 2%)", "math-fn")>>],
    min12  |-> [kind |-> "lenfn", canon |-> <<"min(2px,5%)">>, sp |-> <<SpF("min(2px,5%)", "math-fn"), SpF("MIN(2px , 5%)", "math-fn")>>],
    \* custom properties: token stream with numbers normalised and calc() reduced (units kept, colours as written)
    cust1  |-> [kind |-> "custom", canon |-> <<"0.5">>, sp |-> <<Sp("0.50"), Sp(" 0.50 "), Sp(".5")>>],
    cust2  |-> [kind |-> "custom", canon |-> <<"#FF0000 0px">>, sp |-> <<Sp("#FF0000 0px"), Sp("#FF0000   0px")>>],
    cust3  |-> [kind |-> "custom", canon |-> <<"rgb(255 0 0)">>, sp |-> <<Sp("rgb(255 0 0)")>>],
    cust4  |-> [kind |-> "custom", canon |-> <<"0px">>, sp |-> <<Sp("0px"), Sp("0px "), Sp("+.0px"), Sp("0.0px")>>],
    cust5  |-> [kind |-> "custom", canon |-> <<"2px">>, sp |-> <<Sp("2px"), Sp("calc(1px + 1px)")>>],
    varx   |-> [kind |-> "var", canon |-> <<"var(--x)">>, sp |-> <<Sp("var(--x)")>>] ]

\* hand-written values (every shorthand family, keywords, custom properties) + the generated grids
Vals == BaseVals @@ GridVals

Sides == <<"top", "right", "bottom", "left">>
Corners == <<"border-top-left-radius", "border-top-right-radius", "border-bottom-right-radius", "border-bottom-left-radius">>
FontLonghands == <<"font-style", "font-variant", "font-weight", "font-stretch", "font-size", "line-height", "font-family">>
BoxSides(p) == IF p = "inset" THEN Sides ELSE [i \in 1..4 |-> CASE p = "margin" -> <<"margin-top", "margin-right", "margin-bottom", "margin-left">>[i]
                                                               [] p = "padding" -> <<"padding-top", "padding-right", "padding-bottom", "padding-left">>[i]]
\* the shape of a property's value
Shape(p) ==
  CASE p \in {"color", "background-color", "border-top-color", "outline-color"} -> "color"
    [] p \in {"margin-top", "margin-right", "margin-bottom", "margin-left", "padding-top", "padding-right", "padding-bottom", "padding-left",
              "top", "right", "bottom", "left", "width", "height", "font-size"} -> "len"
    [] p \in {"margin", "padding", "inset"} -> "box"
    [] p = "border-radius" -> "radius"
    [] p \in {"border-top-left-radius", "border-top-right-radius", "border-bottom-right-radius", "border-bottom-left-radius"} -> "corner"
    [] p = "font" -> "font"
    [] p = "font-weight" -> "weight"
    [] p = "font-family" -> "family"
    [] p = "font-style" -> "fstyle"
    [] p = "line-height" -> "lh"
    [] p = "background" -> "bg"
    [] p = "display" -> "display"
    [] p = "all" -> "all"
    [] p \in {"--x", "--y"} -> "custom"
    [] OTHER -> "?"
PropNames == {"color", "background-color", "border-top-color", "outline-color",
              "margin-top", "margin-right", "margin-bottom", "margin-left", "padding-top", "padding-right", "padding-bottom", "padding-left",
              "top", "right", "bottom", "left", "width", "height", "font-size", "margin", "padding", "inset", "border-radius",
              "border-top-left-radius", "border-top-right-radius", "border-bottom-right-radius", "border-bottom-left-radius",
              "font", "font-weight", "font-family", "font-style", "line-height", "background", "display", "all", "--x", "--y"}

Kind(v) == Vals[v].kind
KindsOf(d) == [i \in 1..Len(d.v) |-> Kind(d.v[i])]
IsLen(k) == k = "length"
Wide(d) == Len(d.v) = 1 /\ Kind(d.v[1]) = "wide"
SlashAt(d) == {i \in 1..Len(d.v) : Kind(d.v[i]) = "slash"}
\* font: [fstyle] [weight] length [slash (lhnum|length)] family
FontParse(d) ==
  LET ks == KindsOf(d)
      a == IF Len(ks) >= 1 /\ ks[1] = "fstyle" THEN 1 ELSE 0
      b == IF Len(ks) >= a + 1 /\ ks[a + 1] = "weight" THEN 1 ELSE 0
      szi == a + b + 1
      hasLh == Len(ks) >= szi + 2 /\ ks[szi + 1] = "slash"
      fami == IF hasLh THEN szi + 3 ELSE szi + 1
  IN [ok |-> /\ Len(ks) = fami /\ ks[szi] = "length" /\ ks[fami] = "family"
             /\ (hasLh => ks[szi + 2] \in {"lhnum", "length"})
             /\ d.v[szi] \notin {"auto"},
      style |-> IF a = 1 THEN d.v[1] ELSE "", weight |-> IF b = 1 THEN d.v[a + 1] ELSE "",
      size |-> d.v[szi], lh |-> IF hasLh THEN d.v[szi + 2] ELSE "", fam |-> d.v[fami]]

WFDecl(d) ==
  /\ d.p \in PropNames /\ Len(d.v) >= 1 /\ Len(d.sp) = Len(d.v)
  /\ \A i \in 1..Len(d.v) : d.v[i] \in DOMAIN Vals /\ d.sp[i] \in 1..Len(Vals[d.v[i]].sp)
  /\ LET s == Shape(d.p) ks == KindsOf(d) IN
     \/ Wide(d) /\ s # "?"
     \/ s = "color" /\ Len(ks) = 1 /\ ks[1] = "color"
     \/ s = "len" /\ Len(ks) = 1 /\ ks[1] \in {"length", "var", "lenfn"}
     \/ s = "box" /\ Len(ks) \in 1..4 /\ \A i \in 1..Len(ks) : ks[i] \in {"length", "lenfn"}
     \/ s = "box" /\ Len(ks) = 1 /\ ks[1] = "var"        \* a shorthand whose value is one var(): its longhands are pending
     \/ s = "radius" /\ \A i \in 1..Len(ks) : ks[i] \in {"length", "slash", "lenfn"} /\ d.v[i] # "auto"
                     /\ \/ SlashAt(d) = {} /\ Len(ks) \in 1..4
                        \/ \E k \in 2..(Len(ks) - 1) : SlashAt(d) = {k} /\ k - 1 <= 4 /\ Len(ks) - k <= 4
     \/ s = "corner" /\ Len(ks) \in 1..2 /\ \A i \in 1..Len(ks) : ks[i] \in {"length", "lenfn"} /\ d.v[i] # "auto"
     \/ s = "corner" /\ Len(ks) = 1 /\ ks[1] = "var"
     \/ s = "font" /\ FontParse(d).ok
     \/ s = "weight" /\ Len(ks) = 1 /\ ks[1] = "weight"
     \/ s = "family" /\ Len(ks) = 1 /\ ks[1] = "family"
     \/ s = "fstyle" /\ Len(ks) = 1 /\ ks[1] = "fstyle"
     \/ s = "lh" /\ Len(ks) = 1 /\ ks[1] \in {"lhnum", "length"}
     \/ s = "bg" /\ Len(ks) = 1 /\ ks[1] = "color"
     \/ s = "display" /\ Len(ks) = 1 /\ ks[1] = "display"
     \/ s = "custom" /\ Len(ks) = 1 /\ ks[1] \in {"custom", "var"}

Canon(v) == Vals[v].canon
\* 1-4 value expansion: value for side i (1 top, 2 right, 3 bottom, 4 left) of a list of n values
Side14(vs, i) ==
  LET n == Len(vs) IN
  CASE i = 1 -> vs[1]
    [] i = 2 -> IF n >= 2 THEN vs[2] ELSE vs[1]
    [] i = 3 -> IF n >= 3 THEN vs[3] ELSE vs[1]
    [] i = 4 -> IF n = 4 THEN vs[4] ELSE IF n >= 2 THEN vs[2] ELSE vs[1]
\* the longhands a declaration sets, with their canonical values: a set of <<longhand, canon>>
\* (U = the longhand universe of the sheet, needed for `all`)
Expand(d, U) ==
  LET s == Shape(d.p) IN
  IF s = "all" THEN {<<lh, Canon(d.v[1])>> : lh \in {u \in U : Shape(u) # "custom"}}
  ELSE IF s = "box" THEN
    {<<BoxSides(d.p)[i], IF Wide(d) THEN Canon(d.v[1])
                         ELSE IF Kind(d.v[1]) = "var" THEN <<"pending:var(--x)">>
                         ELSE Canon(Side14(d.v, i))>> : i \in 1..4}
  ELSE IF s = "radius" THEN
    IF Wide(d) THEN {<<Corners[i], Canon(d.v[1])>> : i \in 1..4} ELSE
    LET k == IF SlashAt(d) = {} THEN Len(d.v) + 1 ELSE CHOOSE j \in SlashAt(d) : TRUE
        h == SubSeq(d.v, 1, k - 1)
        v == IF k > Len(d.v) THEN h ELSE SubSeq(d.v, k + 1, Len(d.v))
    IN {<<Corners[i], Canon(Side14(h, i)) \o Canon(Side14(v, i))>> : i \in 1..4}
  ELSE IF s = "corner" THEN
    {<<d.p, IF Wide(d) \/ Kind(d.v[1]) = "var" THEN Canon(d.v[1]) ELSE Canon(d.v[1]) \o Canon(d.v[Len(d.v)])>>}
  ELSE IF s = "font" THEN
    IF Wide(d) THEN {<<FontLonghands[i], Canon(d.v[1])>> : i \in 1..7} ELSE
    LET f == FontParse(d) IN
    { <<"font-style", IF f.style = "" THEN <<"normal">> ELSE Canon(f.style)>>,
      <<"font-variant", <<"normal">>>>,
      <<"font-weight", IF f.weight = "" THEN <<"400">> ELSE Canon(f.weight)>>,
      <<"font-stretch", <<"normal">>>>,
      <<"font-size", Canon(f.size)>>,
      <<"line-height", IF f.lh = "" THEN <<"normal">> ELSE Canon(f.lh)>>,
      <<"font-family", Canon(f.fam)>> }
  ELSE IF s = "bg" THEN
    IF Wide(d) THEN {<<"background-color", Canon(d.v[1])>>, <<"background-image", Canon(d.v[1])>>}
    ELSE {<<"background-color", Canon(d.v[1])>>, <<"background-image", <<"none">>>>}
  ELSE {<<d.p, Canon(d.v[1])>>}
Longhands(d, U) == {x[1] : x \in Expand(d, U)}
DeclFeats(d) == (IF d.p = "inset" THEN {"inset"} ELSE {}) \cup UNION {Vals[d.v[i]].sp[d.sp[i]].f : i \in 1..Len(d.v)}

\* shorthand law: a shorthand is the same as its longhands written in its place
ShorthandLaw(d) ==
  /\ \A x, y \in Expand(d, {}) : x[1] = y[1] => x = y           \* a function of the longhand
  /\ Shape(d.p) = "box" /\ ~Wide(d) =>
       LET full == [d EXCEPT !.v = [i \in 1..4 |-> Side14(d.v, i)], !.sp = [i \in 1..4 |-> 1]] IN Expand(full, {}) = Expand(d, {})

\* ------------------------------------------------------------------ sheets
\* path element: [t, s, c, n]: t = "sel" (s = selector key), "media"/"supports"/"container" (c = condition), "layer" (n = name segments, <<>> = anonymous)
\* item: [k = "rule"|"layer", path, decls, names]
IsSel(pe) == pe.t = "sel"
IsCondEl(pe) == pe.t \in {"media", "supports", "container"}
IsLayerEl(pe) == pe.t = "layer"
SelIdx(path) == {k \in 1..Len(path) : IsSel(path[k])}
\* level of the selector at path position k (1 = top level)
Level(path, k) == Cardinality({j \in SelIdx(path) : j <= k})
RECURSIVE SelListsFrom(_, _)
SelListsFrom(path, k) ==     \* the selector lists on the path up to position k, outermost first
  IF k = 0 THEN <<>>
  ELSE IF IsSel(path[k]) THEN Append(SelListsFrom(path, k - 1), SelOf(path[k].s, Level(path, k)))
  ELSE SelListsFrom(path, k - 1)
SelLists(path) == SelListsFrom(path, Len(path))

WFItem(it) ==
  /\ it.k \in {"rule", "layer"}
  /\ \A k \in 1..Len(it.path) :
       LET pe == it.path[k] IN
       /\ pe.t \in {"sel", "media", "supports", "container", "layer"}
       /\ IsSel(pe) => pe.s \in DOMAIN (IF Level(it.path, k) = 1 THEN TopSels ELSE NestSels)
       /\ IsCondEl(pe) => WFCond(pe.c, pe.t)
       /\ IsLayerEl(pe) => \A j \in SelIdx(it.path) : j > k        \* layers are not nested inside style rules
  /\ it.k = "rule" => /\ SelIdx(it.path) # {} /\ Len(it.decls) >= 1
                      /\ \A i \in 1..Len(it.decls) : WFDecl(it.decls[i])
  /\ it.k = "layer" => /\ SelIdx(it.path) = {} /\ Len(it.names) >= 1 /\ \A i \in 1..Len(it.names) : Len(it.names[i]) >= 1
WFSheet(sh) == \A i \in 1..Len(sh) : WFItem(sh[i])

\* syntax features
PathFeats(path) ==
  LET si == SelIdx(path) IN
  (IF Cardinality(si) >= 2 \/ \E k \in 1..Len(path) : ~IsSel(path[k]) /\ \E j \in si : j < k THEN {"nesting"} ELSE {})
  \cup UNION {FeatList(SelOf(path[k].s, Level(path, k))) : k \in si}
MediaFeats(path) == UNION {CondFeats(path[k].c) : k \in {j \in 1..Len(path) : IsCondEl(path[j])}}
ItemFeats(it) == PathFeats(it.path) \cup MediaFeats(it.path) \cup UNION {DeclFeats(it.decls[i]) : i \in 1..Len(it.decls)}
SheetFeats(sh) == UNION {ItemFeats(sh[i]) : i \in 1..Len(sh)}
ItemAtoms(it) == UNION {CondAtoms(it.path[k].c) : k \in {j \in 1..Len(it.path) : IsCondEl(it.path[j])}}
SheetAtoms(sh) == UNION {ItemAtoms(sh[i]) : i \in 1..Len(sh)}
Universe(sh) == UNION {UNION {Longhands(sh[i].decls[j], {}) : j \in 1..Len(sh[i].decls)} : i \in 1..Len(sh)}

\* ------------------------------------------------------------------ layers
\* a layer = sequence of segments; segment = <<name, item, pos>> (named: <<n, 0, 0>>; anonymous: <<"", item index, path position>>)
RECURSIVE SegsOf(_, _, _)
SegsOf(names, k, acc) == IF k > Len(names) THEN acc ELSE SegsOf(names, k + 1, Append(acc, <<names[k], 0, 0>>))
ElSegs(pe, ri, k) == IF pe.n = <<>> THEN << <<"", ri, k>> >> ELSE SegsOf(pe.n, 1, <<>>)
RECURSIVE LayerUpTo(_, _, _)
LayerUpTo(path, ri, k) ==      \* the layer in force after path position k
  IF k = 0 THEN <<>>
  ELSE IF IsLayerEl(path[k]) THEN LayerUpTo(path, ri, k - 1) \o ElSegs(path[k], ri, k) ELSE LayerUpTo(path, ri, k - 1)
ItemLayer(sh, ri) == LayerUpTo(sh[ri].path, ri, Len(sh[ri].path))
CondsTrueUpTo(path, k, env) == \A j \in 1..k : IsCondEl(path[j]) => CondTrue(path[j].c, env)
LPrefixes(l) == [i \in 1..Len(l) |-> SubSeq(l, 1, i)]
RECURSIVE ItemEvents(_, _, _, _), StmtEvents(_, _, _), Events(_, _, _)
ItemEvents(sh, ri, k, env) ==     \* layer names declared by the path of item ri, in order
  IF k > Len(sh[ri].path) THEN <<>>
  ELSE (IF IsLayerEl(sh[ri].path[k]) /\ CondsTrueUpTo(sh[ri].path, k, env) THEN LPrefixes(LayerUpTo(sh[ri].path, ri, k)) ELSE <<>>)
       \o ItemEvents(sh, ri, k + 1, env)
StmtEvents(base, names, i) ==
  IF i > Len(names) THEN <<>> ELSE LPrefixes(base \o SegsOf(names[i], 1, <<>>)) \o StmtEvents(base, names, i + 1)
Events(sh, ri, env) ==
  IF ri > Len(sh) THEN <<>>
  ELSE ItemEvents(sh, ri, 1, env)
       \o (IF sh[ri].k = "layer" /\ CondsTrueUpTo(sh[ri].path, Len(sh[ri].path), env)
           THEN StmtEvents(ItemLayer(sh, ri), sh[ri].names, 1) ELSE <<>>)
       \o Events(sh, ri + 1, env)
FirstIdx(l, ev) == CHOOSE i \in 1..Len(ev) : ev[i] = l /\ \A j \in 1..(i - 1) : ev[j] # l
IsProperPrefix(a, b) == Len(a) < Len(b) /\ SubSeq(b, 1, Len(a)) = a
\* l1 has lower priority than l2 for normal declarations
LayerLower(l1, l2, ev) ==
  IF l1 = l2 THEN FALSE
  ELSE IF IsProperPrefix(l2, l1) THEN TRUE         \* sublayers (and everything layered: l2 = <<>>) come before the parent's own rules
  ELSE IF IsProperPrefix(l1, l2) THEN FALSE
  ELSE LET k == CHOOSE j \in 1..Len(l1) : SubSeq(l1, 1, j) # SubSeq(l2, 1, j) /\ SubSeq(l1, 1, j - 1) = SubSeq(l2, 1, j - 1)
       IN FirstIdx(SubSeq(l1, 1, k), ev) < FirstIdx(SubSeq(l2, 1, k), ev)
LayerSet(ev) == {ev[i] : i \in 1..Len(ev)} \cup {<<>>}
LayerRank(l, ev) == Cardinality({m \in LayerSet(ev) : LayerLower(m, l, ev)})

\* ------------------------------------------------------------------ the cascade
RECURSIVE TLess(_, _, _)
TLess(a, b, i) == IF i > Len(a) THEN FALSE ELSE IF a[i] < b[i] THEN TRUE ELSE IF a[i] > b[i] THEN FALSE ELSE TLess(a, b, i + 1)
KeyLess(a, b) == TLess(a, b, 1)

\* what does not depend on the environment: for every rule item, whom it matches and how
\* specifically, its layer, and per declaration the features, importance and longhands
RuleInfo(sh, ri, U) ==
  LET it == sh[ri] IN
  IF it.k # "rule" THEN [m |-> [e \in Elems |-> <<-1, 0, 0>>], feats |-> {}, layer |-> <<>>, d |-> <<>>]
  ELSE Bind(Flat(SelLists(it.path), Len(SelLists(it.path))), LAMBDA fl :
       [m |-> [e \in Elems |-> IF FlatMatches(fl, e) THEN FlatSpec(fl, e) ELSE <<-1, 0, 0>>],
        feats |-> PathFeats(it.path),
        layer |-> ItemLayer(sh, ri),
        d |-> [di \in 1..Len(it.decls) |-> [f |-> DeclFeats(it.decls[di]), imp |-> IF it.decls[di].i THEN 1 ELSE 0,
                                             ex |-> Expand(it.decls[di], U)]]])
SheetInfo(sh) == Bind(Universe(sh), LAMBDA U : [ri \in 1..Len(sh) |-> RuleInfo(sh, ri, U)])

NoWinner == <<>>
Live(sh, info, env) == {ri \in 1..Len(sh) : /\ sh[ri].k = "rule"
                                           /\ info[ri].feats \subseteq env.feats
                                           /\ CondsTrueUpTo(sh[ri].path, Len(sh[ri].path), env)}
\* candidates of an environment: <<rule, declaration>> pairs whose syntax the environment understands
Cands(sh, info, env) == UNION {{<<ri, di>> : di \in {j \in 1..Len(sh[ri].decls) : info[ri].d[j].f \subseteq env.feats}} : ri \in Live(sh, info, env)}
Ranks(sh, info, env) ==
  Bind(Events(sh, 1, env), LAMBDA ev :
       [ri \in Live(sh, info, env) |-> IF Len(ev) = 0 THEN 0 ELSE LayerRank(info[ri].layer, ev)])
\* the cascade sort key of candidate c for element e: importance, layer (reversed when important), specificity, order
CKey(info, rank, c, e) ==
  LET imp == info[c[1]].d[c[2]].imp  s == info[c[1]].m[e] IN
  <<imp, IF imp = 1 THEN 0 - rank[c[1]] ELSE rank[c[1]], s[1], s[2], s[3], c[1], c[2]>>
Sets(info, c, lh) == \E x \in info[c[1]].d[c[2]].ex : x[1] = lh
ValueOf(info, c, lh) == (CHOOSE x \in info[c[1]].d[c[2]].ex : x[1] = lh)[2]
\* table of winners for one environment: [e -> [longhand -> canon or NoWinner]]
WinTable(sh, info, env) ==
  Bind(Universe(sh), LAMBDA U :
  Bind(Ranks(sh, info, env), LAMBDA rank :
  Bind(Cands(sh, info, env), LAMBDA cands :
    [e \in Elems |->
       Bind({c \in cands : info[c[1]].m[e][1] >= 0}, LAMBDA ce :
       Bind([c \in ce |-> CKey(info, rank, c, e)], LAMBDA key :
         [lh \in U |->
            Bind({c \in ce : Sets(info, c, lh)}, LAMBDA cl :
                 IF cl = {} THEN NoWinner
                 ELSE ValueOf(info, CHOOSE c \in cl : \A d \in cl : ~KeyLess(key[c], key[d]), lh))]))])))
Winner(sh, env, e, lh) == WinTable(sh, SheetInfo(sh), env)[e][lh]

\* the winning declaration is unique: the cascade order is total on the candidates
WinnerUnique(sh, info, env) ==
  Bind(Ranks(sh, info, env), LAMBDA rank :
  Bind(Cands(sh, info, env), LAMBDA cands :
    \A e \in Elems :
      Bind({x \in cands : info[x[1]].m[e][1] >= 0}, LAMBDA ce :
      Bind([c \in ce |-> CKey(info, rank, c, e)], LAMBDA key :
        \A c, d \in ce : c # d => (KeyLess(key[c], key[d]) # KeyLess(key[d], key[c]))))))
\* layer order is a strict total order
LayerOrderTotal(sh, env) ==
  Bind(Events(sh, 1, env), LAMBDA ev :
  Bind(LayerSet(ev), LAMBDA S :
    /\ \A a, b \in S : a # b => (LayerLower(a, b, ev) # LayerLower(b, a, ev))
    /\ \A a, b, c \in S : LayerLower(a, b, ev) /\ LayerLower(b, c, ev) => LayerLower(a, c, ev)))

\* the environments that matter for a sheet
EnvsOf(sh) == {[feats |-> f, conds |-> c] : f \in SUBSET SheetFeats(sh), c \in [SheetAtoms(sh) -> BOOLEAN]}
Understands(env, sh) == SheetFeats(sh) \subseteq env.feats

\* replace every shorthand declaration by its longhands (used by the shorthand law on sheets)
\* ------------------------------------------------------------------ the property's relation
\* out = winners of the emitted sheet, in = winners of the input, per environment (same atoms);
\* envs: sequence of environments over the input's features; tf = features every browser of the target understands
MoreThan(e1, e2) == e1.conds = e2.conds /\ e2.feats \subseteq e1.feats
Preserved(inW, outW, envs, k, e, lh) ==
  LET o == outW[k][e][lh] IN
  /\ \E j \in 1..Len(envs) : MoreThan(envs[j], envs[k]) /\ inW[j][e][lh] = o
  /\ inW[k][e][lh] # NoWinner => o # NoWinner
=============================================================================
