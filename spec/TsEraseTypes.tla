---------------------------- MODULE TsEraseTypes ----------------------------
(***************************************************************************)
(* C06, part 1: the TYPE-SPACE alphabet.                                   *)
(*                                                                         *)
(* Type forms of the TypeScript type grammar (TypeScript language          *)
(* definition: types, type parameters, type arguments, type predicates,    *)
(* type-only statements and class members) as token sequences, and the     *)
(* FILLERS: what may be inserted at a slot of a given kind of a JavaScript *)
(* skeleton (module TsErase).  Tokens are kept separate ("A","<","B",">"); *)
(* the harness renders them spaced, tight ("A<B<C>>": token splitting) and *)
(* with line breaks after openers.  The pseudo token "<GLUE>" asks for no  *)
(* white space between its neighbours in every rendering.                  *)
(* Nothing here is transcribed from esbuild.                               *)
(***************************************************************************)
EXTENDS Integers, Sequences, FiniteSets, TLC

CONSTANTS Stride, Phase   \* sampling of the rich type forms (Stride = 1: all)

(* a type form: name, flags (subset of {"rich","amb"}), tokens *)
TY(n, fl, toks) == [name |-> n, fl |-> fl, toks |-> toks]

CoreTypes == {
  TY("t-num", {}, <<"number">>),
  TY("t-generic", {"amb"}, <<"A", "<", "B", ">">>),
  TY("t-fn", {"amb", "s:FA+"}, <<"(", "a", ":", "T", ")", "=>", "U">>) }

RichTypeSeq == <<
  TY("t-array", {"rich"}, <<"T", "[", "]">>),
  TY("t-generic2", {"rich", "amb"}, <<"A", "<", "B", "<", "C", ">", ">">>),
  TY("t-generic3", {"rich", "amb"}, <<"A", "<", "B", "<", "C", "<", "D", ">", ">", ">">>),
  TY("t-generic-fnarg", {"rich", "amb", "s:FA+"}, <<"A", "<", "<", "T", ">", "(", "x", ":", "T", ")", "=>", "T", ">">>),
  TY("t-generic-arr", {"rich", "amb"}, <<"A", "<", "B", ">", "[", "]">>),
  TY("t-generic-obj", {"rich", "amb"}, <<"Array", "<", "{", "a", ":", "T", "}", ">">>),
  TY("t-generic-multi", {"rich", "amb"}, <<"Map", "<", "K", ",", "V", "[", "]", ">">>),
  TY("t-union", {"rich"}, <<"A", "|", "B">>),
  TY("t-lead-union", {"rich"}, <<"|", "A", "|", "B">>),
  TY("t-inter", {"rich"}, <<"A", "&", "B">>),
  TY("t-lead-inter", {"rich"}, <<"&", "A", "&", "B">>),
  TY("t-obj", {"rich", "amb"}, <<"{", "a", ":", "T", ";", "b", "?", ":", "U", ",", "readonly", "c", ":", "V", "}">>),
  TY("t-obj-empty", {"rich", "amb"}, <<"{", "}">>),
  TY("t-obj-sigs", {"rich", "amb"}, <<"{", "m", "(", "x", ":", "T", ")", ":", "U", ";", "new", "(", "x", ":", "T", ")", ":", "U", ";",
                                   "(", "x", ":", "T", ")", ":", "U", ";", "[", "k", ":", "string", "]", ":", "T", ";",
                                   "get", "g", "(", ")", ":", "T", ";", "set", "g", "(", "v", ":", "T", ")", "}">>),
  TY("t-obj-generic-method", {"rich", "amb"}, <<"{", "m", "<", "T", ">", "(", "x", ":", "T", ")", ":", "T", ";", "n", "?", "(", ")", ":", "void", "}">>),
  TY("t-tuple", {"rich"}, <<"[", "A", ",", "B", "?", ",", "...", "C", "[", "]", "]">>),
  TY("t-named-tuple", {"rich"}, <<"[", "a", ":", "A", ",", "b", "?", ":", "B", ",", "...", "rest", ":", "C", "[", "]", "]">>),
  TY("t-cond", {"rich", "amb"}, <<"T", "extends", "U", "?", "X", ":", "Y">>),
  TY("t-cond-nested", {"rich", "amb"}, <<"T", "extends", "U", "?", "X", "extends", "V", "?", "1", ":", "2", ":", "Y">>),
  TY("t-infer", {"rich", "amb", "s:FA-"}, <<"T", "extends", "(", "infer", "U", ")", "[", "]", "?", "U", ":", "never">>),
  TY("t-infer-ext", {"rich", "amb", "s:IC+"}, <<"T", "extends", "[", "infer", "H", "extends", "string", ",", "...", "infer", "R", "]", "?", "H", ":", "never">>),
  TY("t-infer-fn", {"rich", "amb", "s:FA+"}, <<"T", "extends", "(", "...", "a", ":", "any", "[", "]", ")", "=>", "infer", "R", "?", "R", ":", "never">>),
  TY("t-tpl", {"rich", "amb"}, <<"`a${", "T", "}b`">>),
  TY("t-tpl2", {"rich", "amb"}, <<"`${", "A", "}-${", "B", "<", "C", ">", "}`">>),
  TY("t-tpl-plain", {"rich"}, <<"`abc`">>),
  TY("t-mapped", {"rich", "amb"}, <<"{", "[", "K", "in", "keyof", "T", "]", ":", "T", "[", "K", "]", "}">>),
  TY("t-mapped-mod", {"rich", "amb"}, <<"{", "readonly", "[", "K", "in", "keyof", "T", "]", "?", ":", "T", "[", "K", "]", "}">>),
  TY("t-mapped-minus", {"rich", "amb"}, <<"{", "-", "readonly", "[", "K", "in", "keyof", "T", "]", "-", "?", ":", "T", "[", "K", "]", ";", "}">>),
  TY("t-mapped-plus", {"rich", "amb"}, <<"{", "+", "readonly", "[", "K", "in", "keyof", "T", "]", "+", "?", ":", "T", "[", "K", "]", "}">>),
  TY("t-mapped-as", {"rich", "amb"}, <<"{", "[", "K", "in", "keyof", "T", "as", "`x${", "K", "&", "string", "}`", "]", ":", "T", "[", "K", "]", "}">>),
  TY("t-typeof", {"rich"}, <<"typeof", "a">>),
  TY("t-typeof-dot", {"rich"}, <<"typeof", "a", ".", "b">>),
  TY("t-typeof-import", {"rich"}, <<"typeof", "import", "(", "'m'", ")">>),
  TY("t-typeof-generic", {"rich", "amb"}, <<"typeof", "a", "<", "T", ">">>),
  TY("t-keyof", {"rich"}, <<"keyof", "T">>),
  TY("t-keyof-typeof", {"rich"}, <<"keyof", "typeof", "a">>),
  TY("t-import", {"rich", "amb"}, <<"import", "(", "'m'", ")", ".", "T", "<", "U", ">">>),
  TY("t-qualified", {"rich"}, <<"A", ".", "B", ".", "C">>),
  TY("t-qualified-generic", {"rich", "amb"}, <<"A", ".", "B", "<", "C", ".", "D", ">">>),
  TY("t-lit-num", {"rich"}, <<"1">>),
  TY("t-lit-neg", {"rich"}, <<"-", "1">>),
  TY("t-lit-str", {"rich"}, <<"'s'">>),
  TY("t-lit-big", {"rich"}, <<"1n">>),
  TY("t-true", {"rich"}, <<"true">>),
  TY("t-null", {"rich"}, <<"null">>),
  TY("t-undefined", {"rich"}, <<"undefined">>),
  TY("t-void", {"rich"}, <<"void">>),
  TY("t-never", {"rich"}, <<"never">>),
  TY("t-unknown", {"rich"}, <<"unknown">>),
  TY("t-any", {"rich"}, <<"any">>),
  TY("t-string", {"rich"}, <<"string">>),
  TY("t-symbol", {"rich"}, <<"symbol">>),
  TY("t-object", {"rich"}, <<"object">>),
  TY("t-this", {"rich"}, <<"this">>),
  TY("t-paren", {"rich", "amb", "s:FA-"}, <<"(", "A", "|", "B", ")", "[", "]">>),
  TY("t-fn-generic", {"rich", "amb", "s:FA+"}, <<"<", "T", ">", "(", "x", ":", "T", ")", "=>", "T">>),
  TY("t-fn-empty", {"rich", "amb", "s:FA+"}, <<"(", ")", "=>", "void">>),
  TY("t-ctor", {"rich", "amb", "s:FA+"}, <<"new", "(", "x", ":", "T", ")", "=>", "U">>),
  TY("t-abstract-ctor", {"rich", "amb", "s:FA+"}, <<"abstract", "new", "(", ")", "=>", "T">>),
  TY("t-fn-fn", {"rich", "amb", "s:FA+"}, <<"(", ")", "=>", "(", ")", "=>", "void">>),
  TY("t-fn-this", {"rich", "amb", "s:FA+"}, <<"(", "this", ":", "T", ",", "a", "?", ":", "U", ",", "...", "r", ":", "V", "[", "]", ")", "=>", "void">>),
  TY("t-fn-destr", {"rich", "amb", "s:FA+"}, <<"(", "{", "a", ",", "b", "}", ":", "T", ",", "[", "c", "]", ":", "U", ")", "=>", "void">>),
  TY("t-fn-pred", {"rich", "amb", "s:FA+"}, <<"(", "x", ":", "unknown", ")", "=>", "x", "is", "T">>),
  TY("t-fn-asserts", {"rich", "amb", "s:FA+"}, <<"(", "x", ":", "unknown", ")", "=>", "asserts", "x", "is", "T">>),
  TY("t-fn-union-paren", {"rich", "amb", "s:FA-", "s:FA+", "n:FA->FA+"}, <<"(", "(", ")", "=>", "void", ")", "|", "null">>),
  TY("t-readonly-arr", {"rich"}, <<"readonly", "T", "[", "]">>),
  TY("t-index", {"rich"}, <<"T", "[", "'k'", "]">>),
  TY("t-index-num", {"rich"}, <<"T", "[", "number", "]", "[", "]">>),
  TY("t-unique", {"rich"}, <<"unique", "symbol">>),
  TY("t-generic-typeof", {"rich", "amb"}, <<"A", "<", "typeof", "x", ">">>),
  TY("t-generic-lit", {"rich", "amb"}, <<"A", "<", "'a'", "|", "'b'", ",", "1", ">">>),
  (* a speculative type position nested inside another one ("n:OUTER>INNER") *)
  TY("t-fn-fnarg", {"rich", "amb", "s:FA+", "n:FA+>FA+"}, <<"(", "a", ":", "(", "b", ":", "T", ")", "=>", "U", ")", "=>", "V">>),
  TY("t-fn-parenarg", {"rich", "amb", "s:FA+", "s:FA-", "n:FA+>FA-"}, <<"(", "a", ":", "(", "T", "|", "U", ")", "[", "]", ")", "=>", "V">>),
  TY("t-paren-fn", {"rich", "amb", "s:FA-", "s:FA+", "n:FA->FA+"}, <<"(", "(", "a", ":", "T", ")", "=>", "U", ")", "[", "]">>),
  TY("t-paren-paren", {"rich", "amb", "s:FA-", "n:FA->FA-"}, <<"(", "(", "A", "|", "B", ")", "[", "]", "|", "C", ")", "[", "]">>),
  TY("t-fn-infer", {"rich", "amb", "s:FA+", "s:IC+", "n:FA+>IC+"}, <<"T", "extends", "(", "a", ":", "infer", "U", "extends", "string", ")", "=>", "void", "?", "U", ":", "never">>),
  TY("t-paren-infer-cond", {"rich", "amb", "s:FA-", "s:IC-", "n:FA->IC-"}, <<"T", "extends", "(", "infer", "U", "extends", "string", "?", "1", ":", "2", ")", "?", "3", ":", "4">>),
  TY("t-infer-ext-fn", {"rich", "amb", "s:IC+", "s:FA+", "n:IC+>FA+"}, <<"T", "extends", "[", "infer", "U", "extends", "(", "a", ":", "T", ")", "=>", "V", "]", "?", "U", ":", "never">>),
  TY("t-infer-ext-infer", {"rich", "amb", "s:IC+", "s:FA-", "n:IC+>IC+", "n:IC+>FA-"}, <<"T", "extends", "[", "infer", "U", "extends", "(", "X", "extends", "[", "infer", "W", "extends", "string", "]", "?", "1", ":", "2", ")", "]", "?", "U", ":", "never">>),
  TY("t-infer-cond-fn", {"rich", "amb", "s:FA-", "s:IC-", "s:FA+", "n:IC->FA+"}, <<"T", "extends", "(", "infer", "U", "extends", "(", "a", ":", "T", ")", "=>", "V", "?", "1", ":", "2", ")", "?", "3", ":", "4">>),
  TY("t-infer-cond-infer", {"rich", "amb", "s:FA-", "s:IC-", "n:IC->IC-", "n:IC->FA-"}, <<"T", "extends", "(", "infer", "U", "extends", "(", "infer", "W", "extends", "string", "?", "1", ":", "2", ")", "?", "3", ":", "4", ")", "?", "5", ":", "6">>) >>

(* the quick tier takes every Stride-th rich type form, starting at Phase (chosen from the seed) *)
RichTypes == {RichTypeSeq[i] : i \in {j \in 1..Len(RichTypeSeq) : j % Stride = Phase % Stride}}
AllTypes == CoreTypes \cup RichTypes
EveryType == CoreTypes \cup {RichTypeSeq[i] : i \in 1..Len(RichTypeSeq)}
TypeByName(n) == CHOOSE t \in EveryType : t.name = n
(* labels of speculative type positions (see TsErase, family "nest") *)
SLabels == {"s:FA+", "s:FA-", "s:IC+", "s:IC-"}
NLabels == {"n:FA+>FA+", "n:FA+>FA-", "n:FA->FA+", "n:FA->FA-", "n:FA+>IC+", "n:FA->IC-", "n:IC+>FA+", "n:IC+>FA-", "n:IC+>IC+", "n:IC->FA+", "n:IC->FA-", "n:IC->IC-"}
NestTypes == {t \in EveryType : t.fl \cap NLabels # {}}
LabelTypes == {t \in EveryType : t.name \in {"t-paren", "t-infer-ext", "t-paren-infer-cond"}}

(* return-position only: type predicates (the parameter is named a) *)
PredTypes == {
  TY("t-is", {"rich", "amb"}, <<"a", "is", "T">>),
  TY("t-is-generic", {"rich", "amb"}, <<"a", "is", "A", "<", "B", ">">>),
  TY("t-asserts", {"rich", "amb"}, <<"asserts", "a">>),
  TY("t-asserts-is", {"rich", "amb"}, <<"asserts", "a", "is", "T">>) }
ThisPredTypes == { TY("t-this-is", {"rich", "amb"}, <<"this", "is", "T">>), TY("t-asserts-this", {"rich", "amb"}, <<"asserts", "this", "is", "T">>) }

(* ------------------------------------------------------------ fillers *)
(* a sequence of fillers, the rich ones sampled like the rich types *)
Sample(seq) == {seq[i] : i \in {j \in 1..Len(seq) : "rich" \notin seq[j].fl \/ j % Stride = Phase % Stride}}
(* name: sequence of strings; fl: flags
     rich   only combined according to RichMode
     amb    the position/form is one of the ambiguous ones named by the property
     notsx  not valid in a .tsx file
     nv     not valid with verbatimModuleSyntax (TypeScript would reject it)
   needs/gives: a filler that needs X may only be inserted after one that gives X *)
F(n, fl, toks) == [name |-> n, fl |-> fl, toks |-> toks, needs |-> "", gives |-> ""]
FD(n, fl, toks, needs, gives) == [name |-> n, fl |-> fl, toks |-> toks, needs |-> needs, gives |-> gives]

WithPrefix(tag, pre, types) == {F(<<tag, t.name>>, t.fl, pre \o t.toks) : t \in types}
Wrapped(tag, pre, types, post, extra) == {F(<<tag, t.name>>, t.fl \cup extra, pre \o t.toks \o post) : t \in types}
ArrayTypes == {t \in EveryType : t.name \in {"t-array", "t-generic-arr", "t-readonly-arr", "t-tuple", "t-named-tuple", "t-any", "t-paren", "t-index-num"}}
              \cup {TY("t-array-generic", {"rich", "amb"}, <<"Array", "<", "T", ">">>)}
NoUnique == {t \in AllTypes : t.name # "t-unique"}

TypeParamLists == {
  F(<<"tp-1">>, {"amb"}, <<"<", "T", ">">>),
  F(<<"tp-extends">>, {"amb", "rich"}, <<"<", "T", "extends", "U", ">">>),
  F(<<"tp-default">>, {"amb", "rich"}, <<"<", "T", "=", "D", ">">>),
  F(<<"tp-2-keyof">>, {"amb", "rich"}, <<"<", "T", ",", "K", "extends", "keyof", "T", ">">>),
  F(<<"tp-const">>, {"amb", "rich"}, <<"<", "const", "T", ">">>),
  F(<<"tp-extends-fn">>, {"amb", "rich"}, <<"<", "T", "extends", "(", ")", "=>", "void", ">">>),
  F(<<"tp-extends-generic">>, {"amb", "rich"}, <<"<", "T", "extends", "A", "<", "B", ">", ">">>),
  F(<<"tp-extends-default-generic">>, {"amb", "rich"}, <<"<", "T", "extends", "A", "<", "B", ">", "=", "A", "<", "B", ">", ">">>),
  F(<<"tp-trailing-comma">>, {"amb", "rich"}, <<"<", "T", ",", ">">>),
  F(<<"tp-extends-obj">>, {"amb", "rich"}, <<"<", "T", "extends", "{", "a", ":", "1", "}", ">">>) }
(* generic arrow functions: a .tsx file needs "<T,>" or an extends clause *)
ArrowTypeParamLists == {
  F(<<"tpa-1">>, {"amb", "notsx"}, <<"<", "T", ">">>),
  F(<<"tpa-comma">>, {"amb"}, <<"<", "T", ",", ">">>),
  F(<<"tpa-extends">>, {"amb", "rich"}, <<"<", "T", "extends", "U", ">">>),
  F(<<"tpa-2">>, {"amb", "rich"}, <<"<", "T", ",", "U", ">">>),
  F(<<"tpa-const">>, {"amb", "rich", "notsx"}, <<"<", "const", "T", ">">>),
  F(<<"tpa-default">>, {"amb", "rich", "notsx"}, <<"<", "T", "=", "D", ">">>),
  F(<<"tpa-extends-generic">>, {"amb", "rich"}, <<"<", "T", "extends", "A", "<", "B", ">", ">">>),
  F(<<"tpa-extends-fn">>, {"amb", "rich"}, <<"<", "T", "extends", "(", ")", "=>", "void", ">">>) }
ClassTypeParamLists == TypeParamLists \cup {
  F(<<"tp-in">>, {"amb", "rich"}, <<"<", "in", "T", ">">>),
  F(<<"tp-out">>, {"amb", "rich"}, <<"<", "out", "T", ">">>),
  F(<<"tp-in-out">>, {"amb", "rich"}, <<"<", "in", "out", "T", ",", "out", "U", ">">>) }

TypeArgTypes == {t \in AllTypes : t.name \in {"t-num", "t-generic", "t-generic2", "t-generic3", "t-generic-fnarg", "t-fn", "t-fn-empty", "t-fn-generic", "t-obj", "t-array",
                                             "t-typeof", "t-generic-lit", "t-lit-num", "t-qualified", "t-import", "t-cond", "t-tpl", "t-tuple", "t-union", "t-lit-neg",
                                             "t-mapped", "t-ctor", "t-keyof", "t-this", "t-paren", "t-generic-multi", "t-obj-empty",
                                             "t-infer-ext", "t-fn-fnarg", "t-fn-parenarg", "t-paren-fn", "t-paren-paren", "t-fn-infer", "t-paren-infer-cond",
                                             "t-infer-ext-fn", "t-infer-ext-infer", "t-infer-cond-fn", "t-infer-cond-infer"}}
TypeArgLists == Wrapped("ta", <<"<">>, TypeArgTypes, <<">">>, {"amb"})
                \cup {F(<<"ta-2">>, {"amb", "rich"}, <<"<", "A", ",", "B", ">">>),
                      F(<<"ta-2-generic">>, {"amb", "rich"}, <<"<", "A", "<", "B", ">", ",", "C", "<", "D", ">", ">">>)}
CastLists == Wrapped("cast", <<"<">>, {t \in TypeArgTypes : t.name # "t-fn-generic"}, <<">">>, {"amb", "notsx"})
             \cup {F(<<"cast-const">>, {"amb", "notsx", "rich"}, <<"<", "const", ">">>),
                   F(<<"cast-any">>, {"amb", "notsx", "rich"}, <<"<", "any", ">">>)}

AsFillers(types) == WithPrefix("as", <<"as">>, types) \cup WithPrefix("satisfies", <<"satisfies">>, types)
PostCommon == {F(<<"nonnull">>, {"amb"}, <<"!">>),
               F(<<"nonnull2">>, {"amb", "rich"}, <<"!", "!">>),
               F(<<"as-const">>, {"rich"}, <<"as", "const">>),
               F(<<"as-any-as">>, {"rich"}, <<"as", "any", "as", "T">>),
               F(<<"nonnull-as">>, {"amb", "rich"}, <<"!", "as", "T">>),
               F(<<"as-satisfies">>, {"rich"}, <<"as", "T", "satisfies", "U">>)}
(* before a binary operator / "?" / "=" only forms that cannot continue into the next token *)
PostBeforeOp == {F(<<"nonnull">>, {"amb"}, <<"!">>)}
                \cup AsFillers({t \in AllTypes : t.name \in {"t-num", "t-lit-str", "t-fn", "t-this", "t-obj", "t-tuple", "t-paren", "t-tpl", "t-any"}})

StmtFillersSeq == <<
  F(<<"st-interface">>, {}, <<"interface", "I", "{", "a", ":", "T", "}">>),
  F(<<"st-interface-rich">>, {"rich", "amb"}, <<"interface", "I", "<", "T", "extends", "U", "=", "V", ">", "extends", "J", "<", "T", ">", ",", "K", "{",
       "a", ":", "T", ";", "m", "(", ")", ":", "void", ";", "(", "x", ":", "T", ")", ":", "U", ";", "new", "(", "x", ":", "T", ")", ":", "U", ";",
       "[", "k", ":", "string", "]", ":", "T", ";", "readonly", "r", "?", ":", "T", ",", "get", "g", "(", ")", ":", "T", ";", "set", "g", "(", "v", ":", "T", ")", ";", "}">>),
  F(<<"st-interface-kw-members">>, {"rich", "amb"}, <<"interface", "I", "{", "type", ":", "T", ";", "readonly", ":", "T", ";", "get", ":", "T", ";", "set", "(", ")", ":", "void", ";",
       "new", "?", ":", "T", ";", "in", ":", "T", ";", "declare", "?", "(", ")", ":", "void", "}">>),
  F(<<"st-interface-export">>, {"rich"}, <<"export", "interface", "I", "{", "}">>),
  F(<<"st-type">>, {}, <<"type", "X", "=", "A", "<", "B", ">", ";">>),
  F(<<"st-type-generic">>, {"rich", "amb"}, <<"type", "X", "<", "T", ",", "U", "=", "T", ">", "=", "T", "extends", "U", "?", "X", "<", "U", ">", ":", "never", ";">>),
  F(<<"st-type-asi">>, {"rich", "amb"}, <<"type", "X", "=", "{", "a", ":", "T", "}", "<NL>">>),
  F(<<"st-type-fn">>, {"rich", "amb"}, <<"type", "X", "=", "<", "T", ">", "(", "x", ":", "T", ")", "=>", "T", ";">>),
  F(<<"st-type-export">>, {"rich"}, <<"export", "type", "X", "=", "1", ";">>),
  F(<<"st-type-named-type">>, {"rich", "amb"}, <<"type", "type", "=", "1", ";">>),
  F(<<"st-type-intrinsic">>, {"rich"}, <<"type", "Up", "<", "S", "extends", "string", ">", "=", "intrinsic", ";">>),
  F(<<"st-declare-const">>, {}, <<"declare", "const", "dc", ":", "T", ";">>),
  F(<<"st-declare-let-multi">>, {"rich"}, <<"declare", "let", "dl", ":", "T", ",", "dm", ":", "U", ";">>),
  F(<<"st-declare-function">>, {"rich"}, <<"declare", "function", "df", "<", "T", ">", "(", "a", ":", "T", ")", ":", "void", ";">>),
  F(<<"st-declare-class">>, {"rich", "amb"}, <<"declare", "class", "DC", "<", "T", ">", "extends", "B", "<", "T", ">", "implements", "I", "{", "x", ":", "T", ";", "m", "(", ")", ":", "void", ";",
       "static", "s", ":", "T", ";", "constructor", "(", "a", ":", "T", ")", ";", "private", "p", ";", "get", "g", "(", ")", ":", "T", ";", "}">>),
  F(<<"st-declare-abstract-class">>, {"rich"}, <<"declare", "abstract", "class", "DA", "{", "abstract", "m", "(", ")", ":", "void", ";", "}">>),
  F(<<"st-declare-module">>, {"rich"}, <<"declare", "module", "'mod'", "{", "export", "const", "a", ":", "T", ";", "export", "default", "a", ";", "}">>),
  F(<<"st-declare-module-short">>, {"rich"}, <<"declare", "module", "'mod2'", ";">>),
  F(<<"st-declare-namespace">>, {"rich"}, <<"declare", "namespace", "DN", ".", "Inner", "{", "let", "a", ":", "T", ";", "function", "f", "(", ")", ":", "void", ";", "}">>),
  F(<<"st-declare-enum">>, {"rich"}, <<"declare", "enum", "DE", "{", "A", "=", "1", ",", "B", "}">>),
  F(<<"st-declare-const-enum">>, {"rich"}, <<"declare", "const", "enum", "DCE", "{", "A", "}">>),
  F(<<"st-declare-global">>, {"rich"}, <<"declare", "global", "{", "interface", "Window", "{", "w", ":", "T", "}", "}">>),
  F(<<"st-declare-export">>, {"rich"}, <<"export", "declare", "const", "edc", ":", "T", ";">>),
  F(<<"st-declare-export-function">>, {"rich"}, <<"export", "declare", "function", "edf", "(", ")", ":", "void", ";">>),
  F(<<"st-namespace-types-only">>, {"rich", "amb"}, <<"namespace", "NT", "{", "export", "type", "T", "=", "1", ";", "export", "interface", "I", "{", "}", "}">>),
  F(<<"st-namespace-empty">>, {"rich", "amb"}, <<"namespace", "NE", "{", "}">>),
  F(<<"st-namespace-nested-types-only">>, {"rich", "amb"}, <<"namespace", "NN", ".", "M", "{", "export", "namespace", "O", "{", "export", "type", "T", "=", "1", "}", "declare", "const", "q", ":", "T", ";", "}">>),
  F(<<"st-abstract-class-declare">>, {"rich"}, <<"declare", "abstract", "class", "AD", "{", "}">>),
  F(<<"st-import-type-default">>, {}, <<"import", "type", "IT", "from", "'t'", ";">>),
  F(<<"st-import-type-named">>, {"rich"}, <<"import", "type", "{", "IA", ",", "IB", "as", "IC", "}", "from", "'t'", ";">>),
  F(<<"st-import-type-ns">>, {"rich"}, <<"import", "type", "*", "as", "INS", "from", "'t'", ";">>),
  F(<<"st-import-type-from">>, {"rich", "amb"}, <<"import", "type", "from", "from", "'t'", ";">>),
  F(<<"st-import-type-equals-require">>, {"rich", "amb"}, <<"import", "type", "IR", "=", "require", "(", "'t'", ")", ";">>),
  F(<<"st-import-type-attrs">>, {"rich"}, <<"import", "type", "{", "IW", "}", "from", "'t'", "with", "{", "'resolution-mode'", ":", "'import'", "}", ";">>),
  F(<<"st-export-type-from">>, {"rich"}, <<"export", "type", "{", "EA", ",", "EB", "as", "EC", "}", "from", "'t'", ";">>),
  F(<<"st-export-type-star">>, {"rich"}, <<"export", "type", "*", "from", "'t'", ";">>),
  F(<<"st-export-type-star-as">>, {"rich"}, <<"export", "type", "*", "as", "ETN", "from", "'t'", ";">>),
  F(<<"st-type-and-export-type">>, {"rich"}, <<"type", "LX", "=", "1", ";", "export", "type", "{", "LX", "}", ";">>) >>
StmtFillers == Sample(StmtFillersSeq)

(* overload signatures of the function f that follows the slot *)
OverloadFillers == {
  F(<<"ovl-1">>, {"amb"}, <<"function", "f", "(", "a", ":", "string", ")", ":", "void", ";">>),
  F(<<"ovl-2">>, {"amb", "rich"}, <<"function", "f", "<", "T", ">", "(", "a", ":", "T", ")", ":", "T", ";", "function", "f", "(", "a", ":", "number", ",", "b", "?", ":", "number", ")", ":", "void", ";">>),
  F(<<"ovl-asi">>, {"amb", "rich"}, <<"function", "f", "(", ")", ":", "void", "<NL>">>) }
=============================================================================
