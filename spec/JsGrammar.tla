------------------------------ MODULE JsGrammar ------------------------------
(***************************************************************************)
(* Grammar-derivation machine for C13.  State = a sentential form (a       *)
(* sequence of terminals and non-terminals); one action = one production   *)
(* applied to the LEFTMOST non-terminal.  Terminal sentential forms of at  *)
(* most MaxLen tokens are exported with the set of productions used.       *)
(*                                                                         *)
(* The sub-grammars are deliberately focused on the places where the       *)
(* ECMA-262 grammar is context sensitive (clauses 12.10 ASI, 12.9.5        *)
(* regular-expression vs division goal symbols, contextual keywords,       *)
(* cover grammars 13.2.5 / 13.15.5 / 15.3, Annex B.3 labelled functions    *)
(* and HTML-like comments, 12.9.3 numeric separators, 12.7 escapes in      *)
(* identifier names, 15.7 class elements).  They over-generate on purpose: *)
(* whether a derived string is a valid script / module is decided by V8    *)
(* and acorn together, never by this grammar.  The token "<NL>" is a line  *)
(* terminator; the harness joins the other tokens with single spaces.      *)
(***************************************************************************)
EXTENDS Integers, Sequences, FiniteSets, TLC, Json

CONSTANTS Grammar,   \* which sub-grammar
          MaxLen,    \* bound on the number of terminals
          Full       \* BOOLEAN: thorough alphabets (class modifiers x names)

VARIABLES form,      \* the sentential form
          used       \* names of the productions applied so far
vars == <<form, used>>

(* a production: name, rare?, right-hand side *)
P(name, rare, rhs) == [name |-> name, rare |-> rare, rhs |-> rhs]

(* ------------------------------------------------------------------ ASI *)
Asi(nt) ==
  CASE nt = "Prog" -> {P("prog-1", FALSE, <<"Line">>), P("prog-2", FALSE, <<"Line", "Line">>),
                       P("prog-fn", FALSE, <<"function", "f", "(", ")", "{", "InFn", "}">>),
                       P("prog-gen", FALSE, <<"function", "*", "g", "(", ")", "{", "InGen", "}">>),
                       P("prog-loop", FALSE, <<"l", ":", "for", "(", ";", ";", ")", "{", "InLoop", "}">>),
                       P("prog-async-nl", TRUE, <<"async", "NL", "function", "h", "(", ")", "{", "}">>),
                       P("prog-async-arrow-nl", TRUE, <<"x", "=", "async", "NL", "(", "a", ")", "=>", "a", ";">>),
                       P("prog-arrow-nl", TRUE, <<"x", "=", "(", "a", ")", "NL", "=>", "a", ";">>),
                       P("prog-let-nl", TRUE, <<"let", "NL", "z", "=", "1", ";">>),
                       P("prog-let-nl-bracket", TRUE, <<"let", "NL", "[", "z", "]", "=", "a", ";">>),
                       P("prog-if-else", TRUE, <<"if", "(", "a", ")", "b", "NL", "else", "c">>),
                       P("prog-do-while", TRUE, <<"do", "a", "NL", "while", "(", "b", ")", "c">>),
                       P("prog-do-while-semi", TRUE, <<"do", "a", ";", "while", "(", "b", ")", "c">>),
                       P("prog-empty-for", TRUE, <<"for", "(", "a", "NL", "b", "NL", "c", ")", ";">>),
                       P("prog-var-nl", TRUE, <<"var", "a", "NL", "=", "1", "NL", ",", "b", "NL", "c">>)}
    [] nt = "Line" -> {P("line-semi", FALSE, <<"E", ";">>), P("line-nl", TRUE, <<"E", "<NL>">>), P("line-none", FALSE, <<"E">>)}
    [] nt = "NL" -> {P("nl-yes", TRUE, <<"<NL>">>), P("nl-no", FALSE, <<>>)}
    [] nt = "E" -> {P("e-id", FALSE, <<"a">>), P("e-assign", FALSE, <<"a", "=", "b">>),
                    P("e-cont", TRUE, <<"a", "<NL>", "Cont">>), P("e-post", FALSE, <<"a", "Post">>),
                    P("e-post-nl", TRUE, <<"a", "<NL>", "Post", "<NL>", "b">>),
                    P("e-pre", FALSE, <<"Post", "a">>),
                    P("e-bin-nl", TRUE, <<"a", "Op", "<NL>", "b">>)}
    [] nt = "Cont" -> {P("cont-paren", TRUE, <<"(", "b", ")">>), P("cont-bracket", TRUE, <<"[", "0", "]">>), P("cont-template", TRUE, <<"`t`">>),
                       P("cont-plus", TRUE, <<"+", "b">>), P("cont-minus", TRUE, <<"-", "b">>), P("cont-slash", TRUE, <<"/", "b", "/", "g">>),
                       P("cont-regexp-call", TRUE, <<"/b/g", ".", "test", "(", "c", ")">>),
                       P("cont-incr", TRUE, <<"++", "b">>), P("cont-decr", TRUE, <<"--", "b">>), P("cont-dot", TRUE, <<".", "b">>),
                       P("cont-optchain", TRUE, <<"?.", "b">>), P("cont-in", TRUE, <<"in", "b">>), P("cont-star", TRUE, <<"*", "b">>),
                       P("cont-comma", TRUE, <<",", "b">>), P("cont-arrow-paren", TRUE, <<"(", "b", ")", "=>", "c">>),
                       P("cont-async-arrow", TRUE, <<"async", "(", "b", ")", "=>", "c">>)}
    [] nt = "Post" -> {P("post-incr", FALSE, <<"++">>), P("post-decr", FALSE, <<"--">>)}
    [] nt = "Op" -> {P("op-plus", FALSE, <<"+">>), P("op-assign", FALSE, <<"=">>), P("op-dot", FALSE, <<".">>), P("op-comma", FALSE, <<",">>)}
    [] nt = "InFn" -> {P("ret-e", FALSE, <<"return", "NL", "E", "Semi">>), P("ret-none", FALSE, <<"return", "Semi">>),
                       P("ret-regexp", TRUE, <<"return", "NL", "/b/g", "Semi">>), P("ret-obj", TRUE, <<"return", "NL", "{", "}", "Semi">>),
                       P("throw-e", FALSE, <<"throw", "NL", "E", "Semi">>), P("ret-paren-nl", TRUE, <<"return", "(", "<NL>", "a", "<NL>", ")", "Semi">>),
                       P("ret-comment-nl", TRUE, <<"return", "/*", "<NL>", "*/", "a", "Semi">>)}
    [] nt = "InGen" -> {P("yield-e", FALSE, <<"yield", "NL", "E", "Semi">>), P("yield-none", FALSE, <<"yield", "Semi">>),
                        P("yield-star", TRUE, <<"yield", "NL", "*", "NL", "a", "Semi">>), P("yield-regexp", TRUE, <<"yield", "NL", "/b/g", "Semi">>),
                        P("yield-in-expr", TRUE, <<"x", "=", "yield", "NL", "a", "Semi">>), P("yield-paren", TRUE, <<"(", "yield", ")", "Semi">>)}
    [] nt = "InLoop" -> {P("break-l", FALSE, <<"break", "NL", "l", "Semi">>), P("continue-l", FALSE, <<"continue", "NL", "l", "Semi">>),
                         P("break-none", FALSE, <<"break", "Semi">>), P("continue-none", FALSE, <<"continue", "Semi">>),
                         P("break-then-expr", TRUE, <<"break", "NL", "a", "Semi">>)}
    [] nt = "Semi" -> {P("semi", FALSE, <<";">>), P("semi-nl", TRUE, <<"<NL>">>), P("semi-none", TRUE, <<>>), P("semi-nl-next", TRUE, <<"<NL>", "b", ";">>)}

(* ------------------------------------------------- regexp vs division *)
ReDiv(nt) ==
  CASE nt = "Prog" -> {P("rd-after", FALSE, <<"Before", "Slash">>), P("rd-wrapped", FALSE, <<"x", "=", "Open", "Re", "Close", ";">>),
                       P("rd-block-then-re", TRUE, <<"{", "}", "Re", ";">>), P("rd-block-then-re-call", TRUE, <<"{", "}", "/b/g", ".", "test", "(", "c", ")">>),
                       P("rd-if-then-re", TRUE, <<"if", "(", "a", ")", "Re", ".", "test", "(", "c", ")", ";">>),
                       P("rd-paren-obj-div", TRUE, <<"(", "{", "}", ")", "/", "b", "/", "c", ";">>),
                       P("rd-fn-decl-then-re", TRUE, <<"function", "f", "(", ")", "{", "}", "Re", ";">>),
                       P("rd-fn-expr-div", TRUE, <<"x", "=", "function", "(", ")", "{", "}", "/", "b", "/", "c", ";">>),
                       P("rd-class-expr-div", TRUE, <<"x", "=", "class", "{", "}", "/", "b", "/", "c", ";">>),
                       P("rd-gen-yield-re", TRUE, <<"function", "*", "g", "(", ")", "{", "yield", "Re", ";", "}">>),
                       P("rd-fn-return-re", TRUE, <<"function", "f", "(", ")", "{", "return", "Re", ";", "}">>),
                       P("rd-arrow-body-re", TRUE, <<"x", "=", "(", ")", "=>", "Re", ";">>),
                       P("rd-cond-re", TRUE, <<"x", "=", "a", "?", "Re", ":", "Re", ";">>),
                       P("rd-template-hole-re", TRUE, <<"x", "=", "`a${", "Re", "}b`", ";">>),
                       P("rd-template-div", TRUE, <<"x", "=", "`t`", "/", "b", "/", "c", ";">>),
                       P("rd-re-div-re", TRUE, <<"x", "=", "Re", "/", "Re", ";">>),
                       P("rd-label-re", TRUE, <<"l", ":", "Re", ";">>),
                       P("rd-case-re", TRUE, <<"switch", "(", "a", ")", "{", "case", "Re", ":", "}">>),
                       P("rd-do-re", TRUE, <<"do", "Re", ";", "while", "(", "a", ")">>),
                       P("rd-else-re", TRUE, <<"if", "(", "a", ")", ";", "else", "Re", ";">>),
                       P("rd-spread-re", TRUE, <<"x", "=", "[", "...", "Re", "]", ";">>)}
    [] nt = "Before" -> {P("b-id", FALSE, <<"a">>), P("b-num", FALSE, <<"1">>), P("b-rparen", FALSE, <<"(", "a", ")">>), P("b-rbracket", FALSE, <<"a", "[", "0", "]">>),
                         P("b-post-incr", TRUE, <<"a", "++">>), P("b-post-decr", TRUE, <<"a", "--">>),
                         P("b-string", FALSE, <<"'s'">>), P("b-regexp", TRUE, <<"/r/">>), P("b-obj-paren", TRUE, <<"(", "{", "}", ")">>),
                         P("b-kw-prop", TRUE, <<"a", ".", "typeof">>), P("b-super-call", FALSE, <<"a", "(", ")">>)}
    [] nt = "Slash" -> {P("s-div-div", FALSE, <<"/", "b", "/", "c", ";">>), P("s-div", FALSE, <<"/", "b", ";">>),
                        P("s-diveq", TRUE, <<"/=", "b", ";">>), P("s-div-re", TRUE, <<"/", "Re", ";">>), P("s-div-nl", TRUE, <<"<NL>", "/", "b", "/", "c", ";">>)}
    [] nt = "Open" -> {P("o-none", FALSE, <<>>), P("o-paren", FALSE, <<"(">>), P("o-bracket", FALSE, <<"[">>), P("o-typeof", FALSE, <<"typeof">>),
                       P("o-not", FALSE, <<"!">>), P("o-comma", FALSE, <<"a", ",">>), P("o-plus", FALSE, <<"a", "+">>), P("o-and", FALSE, <<"a", "&&">>),
                       P("o-new", TRUE, <<"new">>), P("o-void", FALSE, <<"void">>), P("o-in", TRUE, <<"a", "in">>), P("o-lt", TRUE, <<"a", "<">>),
                       P("o-arrow-call", TRUE, <<"f", "(">>)}
    [] nt = "Close" -> {P("c-none", FALSE, <<>>), P("c-paren", FALSE, <<")">>), P("c-bracket", FALSE, <<"]">>), P("c-dot", FALSE, <<".", "source">>),
                        P("c-in", TRUE, <<"in", "b">>), P("c-instanceof", TRUE, <<"instanceof", "b">>), P("c-call", TRUE, <<".", "test", "(", "a", ")", ")">>)}
    [] nt = "Re" -> {P("re-simple", FALSE, <<"/b/">>), P("re-flags", FALSE, <<"/b/g">>), P("re-class-slash", TRUE, <<"/[/]/">>), P("re-esc-slash", TRUE, <<"/\\//">>),
                     P("re-eq", TRUE, <<"/=b/">>), P("re-star", TRUE, <<"/b*/u">>)}

(* --------------------------------- contextual keywords as identifiers *)
Idents(nt) ==
  CASE nt = "Prog" -> {P("id-expr", FALSE, <<"N", ";">>), P("id-var", FALSE, <<"var", "N", "=", "1", ";">>), P("id-let-decl", TRUE, <<"let", "N", "=", "1", ";">>),
                       P("id-const-decl", TRUE, <<"const", "N", "=", "1", ";">>),
                       P("id-assign", FALSE, <<"N", "=", "1", ";">>), P("id-fn-name", TRUE, <<"function", "N", "(", ")", "{", "}">>),
                       P("id-fn-expr-name", TRUE, <<"x", "=", "function", "N", "(", ")", "{", "}", ";">>),
                       P("id-gen-name", TRUE, <<"function", "*", "N", "(", ")", "{", "}">>), P("id-async-fn-name", TRUE, <<"async", "function", "N", "(", ")", "{", "}">>),
                       P("id-param", TRUE, <<"function", "f", "(", "N", ")", "{", "}">>), P("id-arrow-param", TRUE, <<"x", "=", "N", "=>", "N", ";">>),
                       P("id-arrow-paren-param", TRUE, <<"x", "=", "(", "N", ")", "=>", "N", ";">>), P("id-async-arrow-param", TRUE, <<"x", "=", "async", "N", "=>", "1", ";">>),
                       P("id-async-arrow-paren-param", TRUE, <<"x", "=", "async", "(", "N", ")", "=>", "1", ";">>),
                       P("id-obj-key", FALSE, <<"x", "=", "{", "N", ":", "1", "}", ";">>), P("id-obj-shorthand", TRUE, <<"x", "=", "{", "N", "}", ";">>),
                       P("id-obj-method", TRUE, <<"x", "=", "{", "N", "(", ")", "{", "}", "}", ";">>), P("id-obj-getter", TRUE, <<"x", "=", "{", "get", "N", "(", ")", "{", "}", "}", ";">>),
                       P("id-obj-async-method", TRUE, <<"x", "=", "{", "async", "N", "(", ")", "{", "}", "}", ";">>),
                       P("id-member", FALSE, <<"x", ".", "N", ";">>), P("id-opt-member", TRUE, <<"x", "?.", "N", ";">>),
                       P("id-class-method", TRUE, <<"class", "C", "{", "N", "(", ")", "{", "}", "}">>), P("id-class-field", TRUE, <<"class", "C", "{", "N", "=", "1", "}">>),
                       P("id-class-field-bare", TRUE, <<"class", "C", "{", "N", "}">>), P("id-class-static-field", TRUE, <<"class", "C", "{", "static", "N", "}">>),
                       P("id-class-getter", TRUE, <<"class", "C", "{", "get", "N", "(", ")", "{", "}", "}">>), P("id-class-name", TRUE, <<"class", "N", "{", "}">>),
                       P("id-class-private", TRUE, <<"class", "C", "{", "#N", "=", "1", "}">>),
                       P("id-label", TRUE, <<"N", ":", "x", ";">>), P("id-forof-lhs", TRUE, <<"for", "(", "N", "of", "y", ")", ";">>),
                       P("id-forin-lhs", TRUE, <<"for", "(", "N", "in", "y", ")", ";">>), P("id-forof-var", TRUE, <<"for", "(", "var", "N", "of", "y", ")", ";">>),
                       P("id-forof-rhs", TRUE, <<"for", "(", "x", "of", "N", ")", ";">>), P("id-for-init", TRUE, <<"for", "(", "N", ";", ";", ")", "break", ";">>),
                       P("id-tagged", TRUE, <<"N", "`t`", ";">>), P("id-new", TRUE, <<"new", "N", ";">>), P("id-call", FALSE, <<"N", "(", "1", ")", ";">>),
                       P("id-destructure-array", TRUE, <<"[", "N", "]", "=", "y", ";">>), P("id-destructure-obj", TRUE, <<"(", "{", "N", "}", "=", "y", ")", ";">>),
                       P("id-destructure-default", TRUE, <<"(", "{", "N", "=", "1", "}", "=", "y", ")", ";">>),
                       P("id-postfix", TRUE, <<"N", "++", ";">>), P("id-typeof", FALSE, <<"typeof", "N", ";">>), P("id-index", TRUE, <<"N", "[", "0", "]", ";">>),
                       P("id-in-gen", TRUE, <<"function", "*", "g", "(", ")", "{", "N", ";", "}">>), P("id-in-async", TRUE, <<"async", "function", "h", "(", ")", "{", "N", ";", "}">>),
                       P("id-in-gen-nested-fn", TRUE, <<"function", "*", "g", "(", ")", "{", "function", "k", "(", ")", "{", "N", ";", "}", "}">>),
                       P("id-in-async-arrow-param", TRUE, <<"async", "function", "h", "(", ")", "{", "(", "N", ")", "=>", "1", ";", "}">>),
                       P("id-in-class-static-block", TRUE, <<"class", "C", "{", "static", "{", "N", ";", "}", "}">>),
                       P("id-import-as", TRUE, <<"import", "{", "x", "as", "N", "}", "from", "'m'", ";">>),
                       P("id-export-as", TRUE, <<"var", "x", ";", "export", "{", "x", "as", "N", "}", ";">>),
                       P("id-import-default", TRUE, <<"import", "N", "from", "'m'", ";">>),
                       P("id-catch-param", TRUE, <<"try", "{", "}", "catch", "(", "N", ")", "{", "}">>),
                       P("id-use-strict-fn", TRUE, <<"function", "f", "(", ")", "{", "'use strict'", ";", "N", ";", "}">>)}
    [] nt = "N" -> {P("n-plain", FALSE, <<"foo">>), P("n-let", TRUE, <<"let">>), P("n-async", TRUE, <<"async">>), P("n-yield", TRUE, <<"yield">>),
                    P("n-of", TRUE, <<"of">>), P("n-get", TRUE, <<"get">>), P("n-set", TRUE, <<"set">>),
                    P("n-static", TRUE, <<"static">>), P("n-accessor", TRUE, <<"accessor">>), P("n-using", TRUE, <<"using">>), P("n-as", TRUE, <<"as">>),
                    P("n-from", TRUE, <<"from">>), P("n-target", TRUE, <<"target">>), P("n-arguments", TRUE, <<"arguments">>), P("n-eval", TRUE, <<"eval">>),
                    P("n-undefined", TRUE, <<"undefined">>), P("n-implements", TRUE, <<"implements">>), P("n-constructor", TRUE, <<"constructor">>)}

(* ------------------------------------------------------- cover grammars *)
Cover(nt) ==
  CASE nt = "Prog" -> {P("cv-paren", FALSE, <<"x", "=", "(", "Items", ")", "PTail", ";">>), P("cv-async-paren", TRUE, <<"x", "=", "async", "(", "Items", ")", "PTail", ";">>),
                       P("cv-empty-arrow", FALSE, <<"x", "=", "(", ")", "=>", "c", ";">>), P("cv-empty-paren", TRUE, <<"x", "=", "(", ")", ";">>),
                       P("cv-array", FALSE, <<"[", "Items", "]", "ATail", ";">>), P("cv-obj", FALSE, <<"(", "{", "Props", "}", "ATail", ")", ";">>),
                       P("cv-obj-stmt-start", TRUE, <<"{", "Props", "}", "ATail", ";">>),
                       P("cv-for-of", TRUE, <<"for", "(", "[", "Items", "]", "of", "y", ")", ";">>), P("cv-for-of-obj", TRUE, <<"for", "(", "{", "Props", "}", "of", "y", ")", ";">>),
                       P("cv-for-in", TRUE, <<"for", "(", "[", "Items", "]", "in", "y", ")", ";">>),
                       P("cv-paren-assign", TRUE, <<"(", "Item", ")", "=", "d", ";">>), P("cv-fn-params", TRUE, <<"function", "f", "(", "Items", ")", "{", "}">>),
                       P("cv-catch", TRUE, <<"try", "{", "}", "catch", "(", "Item", ")", "{", "}">>),
                       P("cv-var", TRUE, <<"var", "Item", "=", "d", ";">>)}
    [] nt = "Items" -> {P("items-1", FALSE, <<"Item">>), P("items-2", FALSE, <<"Item", ",", "Item">>), P("items-trailing", TRUE, <<"Item", ",">>),
                        P("items-hole", TRUE, <<",", "Item">>), P("items-rest", TRUE, <<"Item", ",", "...", "Item">>), P("items-rest-only", TRUE, <<"...", "Item">>),
                        P("items-rest-trailing", TRUE, <<"...", "Item", ",">>)}
    [] nt = "Item" -> {P("item-id", FALSE, <<"a">>), P("item-default", TRUE, <<"a", "=", "1">>), P("item-array", TRUE, <<"[", "b", "]">>), P("item-obj", TRUE, <<"{", "b", "}">>),
                       P("item-obj-default", TRUE, <<"{", "b", "=", "1", "}">>), P("item-member", TRUE, <<"a", ".", "b">>), P("item-paren", TRUE, <<"(", "a", ")">>),
                       P("item-paren-member", TRUE, <<"(", "a", ".", "b", ")">>), P("item-paren-pattern", TRUE, <<"(", "[", "a", "]", ")">>),
                       P("item-call", TRUE, <<"a", "(", ")">>), P("item-num", FALSE, <<"1">>), P("item-yield", TRUE, <<"yield">>),
                       P("item-array-default", TRUE, <<"[", "b", "]", "=", "c">>), P("item-optional", TRUE, <<"a", "?.", "b">>)}
    [] nt = "Props" -> {P("props-short", FALSE, <<"a">>), P("props-short-2", FALSE, <<"a", ",", "b">>), P("props-kv", FALSE, <<"a", ":", "Item">>),
                        P("props-default", TRUE, <<"a", "=", "1">>), P("props-rest", TRUE, <<"a", ",", "...", "Item">>), P("props-computed", TRUE, <<"[", "k", "]", ":", "Item">>),
                        P("props-string-key", TRUE, <<"'s'", ":", "Item">>), P("props-method", TRUE, <<"m", "(", ")", "{", "}">>), P("props-trailing", TRUE, <<"a", ",">>),
                        P("props-kv-default", TRUE, <<"a", ":", "b", "=", "1">>), P("props-getter", TRUE, <<"get", "a", "(", ")", "{", "}">>),
                        P("props-proto-dup", TRUE, <<"__proto__", ":", "a", ",", "__proto__", ":", "b">>)}
    [] nt = "PTail" -> {P("pt-none", FALSE, <<>>), P("pt-arrow", FALSE, <<"=>", "c">>), P("pt-arrow-block", FALSE, <<"=>", "{", "}">>), P("pt-assign", TRUE, <<"=", "d">>),
                        P("pt-call", TRUE, <<"(", ")">>), P("pt-arrow-nl", TRUE, <<"<NL>", "=>", "c">>)}
    [] nt = "ATail" -> {P("at-none", FALSE, <<>>), P("at-assign", FALSE, <<"=", "d">>), P("at-compound", TRUE, <<"+=", "d">>), P("at-member", TRUE, <<".", "p">>)}

(* ----------------------- Annex B: labelled functions, HTML-like comments *)
AnnexB(nt) ==
  CASE nt = "Prog" -> {P("lf-label-fn", TRUE, <<"l", ":", "Fn">>), P("lf-label-label-fn", TRUE, <<"l", ":", "m", ":", "Fn">>),
                       P("lf-if-fn", TRUE, <<"if", "(", "a", ")", "Fn">>), P("lf-if-else-fn", TRUE, <<"if", "(", "a", ")", ";", "else", "Fn">>),
                       P("lf-if-fn-else-fn", TRUE, <<"if", "(", "a", ")", "Fn", "else", "Fn">>),
                       P("lf-while-label-fn", TRUE, <<"while", "(", "a", ")", "l", ":", "Fn">>), P("lf-block-label-fn", TRUE, <<"{", "l", ":", "Fn", "}">>),
                       P("lf-if-label-fn", TRUE, <<"if", "(", "a", ")", "l", ":", "Fn">>), P("lf-fn-body", TRUE, <<"function", "o", "(", ")", "{", "l", ":", "Fn", "}">>),
                       P("lf-strict", TRUE, <<"'use strict'", ";", "l", ":", "Fn">>), P("lf-label-class", TRUE, <<"l", ":", "class", "C", "{", "}">>),
                       P("lf-label-let", TRUE, <<"l", ":", "let", "x">>), P("lf-label-var", FALSE, <<"l", ":", "var", "x", ";">>),
                       P("lf-dup-fn-block", TRUE, <<"{", "Fn", "Fn", "}">>), P("lf-switch-fn", TRUE, <<"switch", "(", "a", ")", "{", "case", "1", ":", "Fn", "}">>),
                       P("hc-open-line", TRUE, <<"<!--", "c", "<NL>", "a", ";">>), P("hc-open-after-expr", TRUE, <<"a", "<!--", "b", "<NL>", ";">>),
                       P("hc-close-line-start", TRUE, <<"a", ";", "<NL>", "-->", "c", "<NL>", "b", ";">>), P("hc-close-first-line", TRUE, <<"-->", "c", "<NL>", "b", ";">>),
                       P("hc-close-after-comment", TRUE, <<"a", ";", "<NL>", "/* */", "-->", "c", "<NL>", "b", ";">>),
                       P("hc-close-after-ml-comment", TRUE, <<"a", ";", "/*", "<NL>", "*/", "-->", "c", "<NL>", "b", ";">>),
                       P("hc-decr-gt", TRUE, <<"x", "=", "a", "-->", "b", ";">>), P("hc-lt-not-decr", TRUE, <<"x", "=", "a", "<", "!", "--", "b", ";">>),
                       P("hc-lt-not-decr-glued", TRUE, <<"x", "=", "a", "<!--b", "<NL>", ";">>), P("hc-in-string", FALSE, <<"x", "=", "'<!-- -->'", ";">>),
                       P("hc-in-template", TRUE, <<"x", "=", "`<!--${", "a", "}-->`", ";">>), P("hc-in-regexp", TRUE, <<"x", "=", "/<!--/", ";">>),
                       P("hc-decr-gt-line-start", TRUE, <<"x", "=", "a", "<NL>", "-->", "b", ";">>),
                       P("hc-hashbang", TRUE, <<"#!/bin/node", "<NL>", "a", ";">>)}
    [] nt = "Fn" -> {P("fn-plain", FALSE, <<"function", "f", "(", ")", "{", "}">>), P("fn-gen", TRUE, <<"function", "*", "f", "(", ")", "{", "}">>),
                     P("fn-async", TRUE, <<"async", "function", "f", "(", ")", "{", "}">>)}

(* ------------------------------- numeric separators and numeric forms *)
NumSep(nt) ==
  CASE nt = "Prog" -> {P("ns-assign", FALSE, <<"x", "=", "Num", ";">>), P("ns-member", TRUE, <<"x", "=", "Num", ".", "p", ";">>),
                       P("ns-member-glued", TRUE, <<"x", "=", "NumDot", "p", ";">>), P("ns-in", TRUE, <<"x", "=", "Num", "in", "y", ";">>),
                       P("ns-neg-pow", TRUE, <<"x", "=", "(", "-", "Num", ")", "**", "2", ";">>), P("ns-key", TRUE, <<"x", "=", "{", "Num", ":", "1", "}", ";">>),
                       P("ns-class-key", TRUE, <<"class", "C", "{", "Num", "=", "1", "}">>), P("ns-ident-after", TRUE, <<"x", "=", "NumGlue", ";">>)}
    [] nt = "Num" -> {P("num-int", FALSE, <<"1000">>), P("num-sep", TRUE, <<"1_000">>), P("num-sep-double", TRUE, <<"1__0">>), P("num-sep-trailing", TRUE, <<"1_">>),
                      P("num-sep-frac", TRUE, <<"1_0.0_1">>), P("num-sep-after-dot", TRUE, <<"1._1">>), P("num-sep-before-dot", TRUE, <<"1_.1">>),
                      P("num-sep-exp", TRUE, <<"1e1_0">>), P("num-sep-after-e", TRUE, <<"1e_1">>), P("num-sep-lead-dot", TRUE, <<"._1">>),
                      P("num-sep-after-zero", TRUE, <<"0_1">>), P("num-legacy-octal", TRUE, <<"017">>), P("num-legacy-octal-sep", TRUE, <<"01_7">>),
                      P("num-legacy-dec", TRUE, <<"089">>), P("num-legacy-dec-frac", TRUE, <<"089.5">>), P("num-legacy-octal-dot", TRUE, <<"017.5">>),
                      P("num-hex-sep", TRUE, <<"0xA_B">>), P("num-hex-sep-lead", TRUE, <<"0x_A">>), P("num-bin-sep", TRUE, <<"0b1_0">>), P("num-oct-sep", TRUE, <<"0o1_7">>),
                      P("num-big-sep", TRUE, <<"1_000n">>), P("num-big-legacy", TRUE, <<"017n">>), P("num-big-frac", TRUE, <<"1.5n">>), P("num-big-exp", TRUE, <<"1e3n">>),
                      P("num-big-hex", TRUE, <<"0xFn">>), P("num-trailing-dot", TRUE, <<"1.">>), P("num-lead-dot", TRUE, <<".5">>), P("num-exp-dot", TRUE, <<"1.e3">>),
                      P("num-exp-upper", TRUE, <<"1E+3">>), P("num-hex-upper", TRUE, <<"0XAB">>), P("num-hex-e", TRUE, <<"0xe+1">>), P("num-zero-dot", TRUE, <<"0.0">>),
                      P("num-big-zero", TRUE, <<"0n">>), P("num-double-zero", TRUE, <<"00">>), P("num-zero-e", TRUE, <<"0e0">>)}
    [] nt = "NumDot" -> {P("nd-int-dot-dot", TRUE, <<"1..">>), P("nd-frac-dot", TRUE, <<"1.5.">>), P("nd-int-dot", TRUE, <<"1.">>), P("nd-exp-dot", TRUE, <<"1e3.">>),
                         P("nd-hex-dot", TRUE, <<"0x1.">>), P("nd-big-dot", TRUE, <<"1n.">>), P("nd-legacy-dot", TRUE, <<"017.">>), P("nd-legacy-dec-dot", TRUE, <<"089.">>),
                         P("nd-sep-dot", TRUE, <<"1_0.">>)}
    [] nt = "NumGlue" -> {P("ng-in", TRUE, <<"1in y">>), P("ng-ident", TRUE, <<"1a">>), P("ng-hex-ident", TRUE, <<"0x1g">>), P("ng-big-ident", TRUE, <<"1na">>),
                          P("ng-dot-ident", TRUE, <<"1.a">>), P("ng-exp-ident", TRUE, <<"1ea">>), P("ng-num-num", TRUE, <<"1.5.5">>), P("ng-escape", TRUE, <<"1\\u0061">>)}

(* --------------------------------------- escapes in identifier names *)
Escapes(nt) ==
  CASE nt = "Prog" -> {P("es-var", FALSE, <<"var", "I", "=", "1", ";">>), P("es-expr", FALSE, <<"I", ";">>), P("es-member", TRUE, <<"x", ".", "K", ";">>),
                       P("es-obj-key", TRUE, <<"x", "=", "{", "K", ":", "1", "}", ";">>), P("es-label", TRUE, <<"I", ":", ";">>),
                       P("es-class-member", TRUE, <<"class", "C", "{", "K", "(", ")", "{", "}", "}">>), P("es-private", TRUE, <<"class", "C", "{", "#", "I", "=", "1", "}">>),
                       P("es-kw-stmt-var", TRUE, <<"v\\u0061r", "x", "=", "1", ";">>), P("es-kw-stmt-if", TRUE, <<"\\u0069f", "(", "a", ")", ";">>),
                       P("es-kw-let-decl", TRUE, <<"l\\u0065t", "x", "=", "1", ";">>), P("es-kw-let-expr", TRUE, <<"l\\u0065t", ";">>),
                       P("es-kw-let-bracket", TRUE, <<"l\\u0065t", "<NL>", "[", "a", "]", "=", "b", ";">>),
                       P("es-kw-async-fn", TRUE, <<"\\u0061sync", "function", "f", "(", ")", "{", "}">>), P("es-kw-async-arrow", TRUE, <<"x", "=", "\\u0061sync", "(", ")", "=>", "1", ";">>),
                       P("es-kw-async-id", TRUE, <<"\\u0061sync", ";">>), P("es-kw-of", TRUE, <<"for", "(", "a", "\\u006ff", "b", ")", ";">>),
                       P("es-kw-static", TRUE, <<"class", "C", "{", "st\\u0061tic", "x", "}">>), P("es-kw-get", TRUE, <<"x", "=", "{", "g\\u0065t", "a", "(", ")", "{", "}", "}", ";">>),
                       P("es-kw-yield-gen", TRUE, <<"function", "*", "g", "(", ")", "{", "yi\\u0065ld", ";", "}">>),
                       P("es-kw-yield-sloppy", TRUE, <<"var", "yi\\u0065ld", ";">>), P("es-kw-await-async", TRUE, <<"async", "function", "h", "(", ")", "{", "aw\\u0061it", "a", ";", "}">>),
                       P("es-kw-new-target", TRUE, <<"function", "f", "(", ")", "{", "new", ".", "t\\u0061rget", ";", "}">>),
                       P("es-kw-true", TRUE, <<"x", "=", "tru\\u0065", ";">>), P("es-kw-null-member", TRUE, <<"x", ".", "nul\\u006c", ";">>),
                       P("es-kw-this", TRUE, <<"x", "=", "th\\u0069s", ";">>), P("es-kw-typeof", TRUE, <<"x", "=", "typ\\u0065of", "a", ";">>),
                       P("es-kw-export-as", TRUE, <<"var", "x", ";", "export", "{", "x", "\\u0061s", "y", "}", ";">>),
                       P("es-kw-import-default", TRUE, <<"import", "{", "d\\u0065fault", "as", "y", "}", "from", "'m'", ";">>),
                       P("es-string-lone", TRUE, <<"x", "=", "'\\u'", ";">>), P("es-template-lone", TRUE, <<"x", "=", "`\\u`", ";">>),
                       P("es-tagged-lone", TRUE, <<"x", "=", "f", "`\\u`", ";">>), P("es-regexp-u", TRUE, <<"x", "=", "/\\u{61}/u", ";">>)}
    [] nt = "I" -> {P("i-plain", FALSE, <<"ab">>), P("i-esc4-start", TRUE, <<"\\u0061b">>), P("i-esc4-part", TRUE, <<"a\\u0062">>), P("i-esc-brace", TRUE, <<"\\u{61}b">>),
                    P("i-esc-brace-long", TRUE, <<"\\u{000061}b">>), P("i-esc-all", TRUE, <<"\\u0061\\u0062">>), P("i-esc-digit-start", TRUE, <<"\\u0031b">>),
                    P("i-esc-digit-part", TRUE, <<"a\\u0031">>), P("i-esc-astral", TRUE, <<"\\u{1F600}">>), P("i-esc-astral-id", TRUE, <<"\\u{2F800}">>),
                    P("i-esc-surrogates", TRUE, <<"\\uD87E\\uDC00">>), P("i-esc-zwj", TRUE, <<"a\\u200D">>), P("i-esc-zwj-start", TRUE, <<"\\u200Da">>),
                    P("i-esc-dollar", TRUE, <<"\\u0024">>), P("i-esc-space", TRUE, <<"a\\u0020b">>), P("i-esc-bad-hex", TRUE, <<"\\u00G1">>), P("i-esc-x", TRUE, <<"\\x61">>),
                    P("i-esc-upper", TRUE, <<"\\u00E9">>), P("i-esc-too-big", TRUE, <<"\\u{110000}">>), P("i-esc-empty-brace", TRUE, <<"\\u{}">>)}
    [] nt = "K" -> {P("k-if", TRUE, <<"\\u0069f">>), P("k-class", TRUE, <<"cl\\u0061ss">>), P("k-plain", FALSE, <<"\\u0061b">>), P("k-get", TRUE, <<"g\\u0065t">>),
                    P("k-constructor", TRUE, <<"constructo\\u0072">>), P("k-proto", TRUE, <<"__prot\\u006f__">>), P("k-static", TRUE, <<"st\\u0061tic">>)}

(* ------------------------------------------------- class elements *)
ClassEl(nt) ==
  CASE nt = "Prog" -> {P("cl-1", FALSE, <<"class", "C", "{", "El", "}">>),
                       P("cl-2", FALSE, <<"class", "C", "{", "Mods", "Name", "FKind", "Sep", "El2", "}">>),
                       P("cl-extends", TRUE, <<"class", "C", "extends", "B", "{", "x", "Kind", "}">>), P("cl-expr", TRUE, <<"x", "=", "class", "{", "El", "}", ";">>)}
    [] nt = "El" -> {P("el-member", FALSE, <<"Mods", "Name", "Kind", "Sep">>), P("el-static-block", TRUE, <<"static", "{", "}">>),
                     P("el-semi", TRUE, <<";">>), P("el-mods-nl", TRUE, <<"Mods", "<NL>", "Name", "Kind", "Sep">>)}
    [] nt = "Mods" -> {P("m-none", FALSE, <<>>), P("m-static", FALSE, <<"static">>), P("m-async", TRUE, <<"async">>), P("m-get", TRUE, <<"get">>),
                       P("m-gen", TRUE, <<"*">>)}
                      \cup (IF Full THEN
                      {P("m-set", TRUE, <<"set">>), P("m-static-async", TRUE, <<"static", "async">>), P("m-static-get", TRUE, <<"static", "get">>),
                       P("m-async-gen", TRUE, <<"async", "*">>), P("m-static-async-gen", TRUE, <<"static", "async", "*">>),
                       P("m-static-static", TRUE, <<"static", "static">>), P("m-get-gen", TRUE, <<"get", "*">>)} ELSE {})
    [] nt = "Name" -> {P("nm-x", FALSE, <<"x">>), P("nm-get", TRUE, <<"get">>), P("nm-static", TRUE, <<"static">>), P("nm-async", TRUE, <<"async">>),
                       P("nm-constructor", TRUE, <<"constructor">>), P("nm-private", TRUE, <<"#p">>), P("nm-string", TRUE, <<"'s'">>), P("nm-computed", TRUE, <<"[", "k", "]">>)}
                      \cup (IF Full THEN
                      {P("nm-set", TRUE, <<"set">>), P("nm-private-constructor", TRUE, <<"#constructor">>),
                       P("nm-string-constructor", TRUE, <<"'constructor'">>), P("nm-num", TRUE, <<"1">>),
                       P("nm-prototype", TRUE, <<"prototype">>), P("nm-in", TRUE, <<"in">>), P("nm-bigint", TRUE, <<"1n">>)} ELSE {})
    [] nt = "FKind" -> {P("fk-field", FALSE, <<>>), P("fk-field-init", FALSE, <<"=", "1">>)}
    [] nt = "El2" -> {P("e2-field", FALSE, <<"y">>), P("e2-gen", TRUE, <<"*", "g", "(", ")", "{", "}">>), P("e2-computed", TRUE, <<"[", "k", "]", "=", "1">>),
                      P("e2-static", TRUE, <<"static", "z">>), P("e2-in", TRUE, <<"in">>), P("e2-paren", TRUE, <<"(", ")", "{", "}">>),
                      P("e2-private", TRUE, <<"#q">>), P("e2-string", TRUE, <<"'t'", "(", ")", "{", "}">>), P("e2-instanceof", TRUE, <<"instanceof", "=", "1">>)}
    [] nt = "Kind" -> {P("kd-field", FALSE, <<>>), P("kd-field-init", FALSE, <<"=", "1">>), P("kd-method", FALSE, <<"(", ")", "{", "}">>),
                       P("kd-method-param", TRUE, <<"(", "a", ")", "{", "}">>), P("kd-field-arrow", TRUE, <<"=", "(", ")", "=>", "this">>),
                       P("kd-field-in", TRUE, <<"=", "#p", "in", "this">>), P("kd-method-super", TRUE, <<"(", ")", "{", "super", ".", "x", "}">>),
                       P("kd-field-arguments", TRUE, <<"=", "arguments">>), P("kd-method-super-call", TRUE, <<"(", ")", "{", "super", "(", ")", "}">>)}
    [] nt = "Sep" -> {P("sp-none", FALSE, <<>>), P("sp-semi", FALSE, <<";">>), P("sp-nl", TRUE, <<"<NL>">>)}
    [] nt = "B" -> {P("b-id", FALSE, <<"Base">>), P("b-null", TRUE, <<"null">>), P("b-call", TRUE, <<"f", "(", ")">>), P("b-paren-seq", TRUE, <<"(", "a", ",", "b", ")">>),
                    P("b-class", TRUE, <<"class", "{", "}">>), P("b-arrow-unparen", TRUE, <<"(", ")", "=>", "1">>), P("b-obj", TRUE, <<"{", "}">>)}

NonTerminalsOf(g) ==
  CASE g = "asi" -> {"Prog", "Line", "NL", "E", "Cont", "Post", "Op", "InFn", "InGen", "InLoop", "Semi"}
    [] g = "regexdiv" -> {"Prog", "Before", "Slash", "Open", "Close", "Re"}
    [] g = "idents" -> {"Prog", "N"}
    [] g = "cover" -> {"Prog", "Items", "Item", "Props", "PTail", "ATail"}
    [] g = "annexb" -> {"Prog", "Fn"}
    [] g = "numsep" -> {"Prog", "Num", "NumDot", "NumGlue"}
    [] g = "escapes" -> {"Prog", "I", "K"}
    [] g = "class" -> {"Prog", "El", "Mods", "Name", "Kind", "FKind", "El2", "Sep", "B"}
NT == NonTerminalsOf(Grammar)
Prods(nt) ==
  CASE Grammar = "asi" -> Asi(nt) [] Grammar = "regexdiv" -> ReDiv(nt) [] Grammar = "idents" -> Idents(nt) [] Grammar = "cover" -> Cover(nt)
    [] Grammar = "annexb" -> AnnexB(nt) [] Grammar = "numsep" -> NumSep(nt) [] Grammar = "escapes" -> Escapes(nt) [] Grammar = "class" -> ClassEl(nt)

AllProds == UNION {Prods(nt) : nt \in NT}
RareNames == {p.name : p \in {q \in AllProds : q.rare}}

(* index of the leftmost non-terminal, 0 if the form is terminal *)
Leftmost(f) == IF \E i \in 1..Len(f) : f[i] \in NT
               THEN CHOOSE i \in 1..Len(f) : f[i] \in NT /\ \A j \in 1..(i - 1) : f[j] \notin NT
               ELSE 0
NTerminals(f) == Cardinality({i \in 1..Len(f) : f[i] \notin NT})

ASSUME PrintT(<<"CASE", ToJson([grammar |-> Grammar, allprods |-> {p.name : p \in AllProds}, rareprods |-> RareNames])>>)

Init == form = <<"Prog">> /\ used = {}

Derive ==
  LET i == Leftmost(form) IN
  /\ i > 0
  /\ \E p \in Prods(form[i]) :
       /\ form' = SubSeq(form, 1, i - 1) \o p.rhs \o SubSeq(form, i + 1, Len(form))
       /\ used' = used \cup {p.name}
       /\ NTerminals(form') <= MaxLen

(* a terminal form is exported once (stuttering step with the side effect) *)
Export ==
  /\ Leftmost(form) = 0
  /\ form # <<"done">>
  /\ PrintT(<<"CASE", ToJson([grammar |-> Grammar, toks |-> form, prods |-> used, rare |-> used \cap RareNames])>>)
  /\ form' = <<"done">> /\ used' = {}

Next == Derive \/ Export
Spec == Init /\ [][Next]_vars

(* model-level checks *)
TypeOK == /\ form \in Seq(STRING) /\ used \subseteq {p.name : p \in AllProds}
Bounded == NTerminals(form) <= MaxLen
(* leftmost derivation: everything to the left of the leftmost non-terminal is terminal (by definition) and
   the set of used productions never shrinks along a derivation *)
UsedGrows == [][form' # <<"done">> => used \subseteq used']_vars
(* every production of the sub-grammar is reachable: checked by the harness from the exported sets
   (per-production counts) and by TLC's action coverage *)
=============================================================================
