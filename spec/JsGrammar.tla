------------------------------ MODULE JsGrammar ------------------------------
(***************************************************************************)
(* Grammar-derivation machine for C13.  State = a sentential form (a       *)
(* sequence of terminals and non-terminals); one action = one production   *)
(* applied to the LEFTMOST non-terminal.  Terminal sentential forms of at  *)
(* most MaxLen tokens are exported with the set of productions used.       *)
(*                                                                         *)
(* The sub-grammars are deliberately focused on the places where the       *)
(* ECMA-262 grammar is context sensitive (clauses 12.10 ASI, 12.9.5        *)
(* regular-expression vs division goal symbols, contextual keywords,       *)
(* cover grammars 13.2.5 / 13.15.5 / 15.3, Annex B.3 labelled functions    *)
(* and HTML-like comments, 12.9.3 numeric separators, 12.7 escapes in      *)
(* identifier names, 15.7 class elements).  They over-generate on purpose: *)
(* whether a derived string is a valid script / module is decided by V8    *)
(* and acorn together, never by this grammar.  The token "<NL>" is a line  *)
(* terminator; the harness joins the other tokens with single spaces.      *)
(*                                                                         *)
(* Three further sub-grammars derive STATEMENT STRUCTURE (14.7 iteration   *)
(* statements and the [In] grammar parameter of 13.x, every statement kind *)
(* that opens a scope): "forhead", "inop", "scopes".  Their productions    *)
(* carry a weight; a derivation may use productions of summed weight       *)
(* <= MaxCost, which makes TLC enumerate every clause position with every  *)
(* heavy alternative, and every PAIR of positions with every pair of       *)
(* alternatives, while the remaining positions hold a plain filler.        *)
(***************************************************************************)
EXTENDS Integers, Sequences, FiniteSets, TLC, Json

CONSTANTS Grammar,   \* which sub-grammar
          MaxLen,    \* bound on the number of terminals
          MaxCost,   \* bound on the summed weight of the productions of one derivation
          Full       \* BOOLEAN: thorough alphabets (class modifiers x names, all leaves/operators/statement kinds)

VARIABLES form,      \* the sentential form
          used,      \* names of the productions applied so far
          cost       \* summed weight of the productions applied so far
vars == <<form, used, cost>>

(* a production: name, rare?, right-hand side, weight.  The weight bounds how many "heavy" constructs     *)
(* (scope-bearing expressions, `in`-carrying leaves, operator applications, non-empty loop bodies) one     *)
(* derivation may combine: with MaxCost = 2 weights every PAIR of slots of a statement is filled with     *)
(* every pair of heavy alternatives while the other slots hold the plain filler.                          *)
P(name, rare, rhs) == [name |-> name, rare |-> rare, rhs |-> rhs, w |-> 0]
H(name, w, rhs) == [name |-> name, rare |-> TRUE, rhs |-> rhs, w |-> w]

(* ------------------------------------------------------------------ ASI *)
Asi(nt) ==
  CASE nt = "Prog" -> {P("prog-1", FALSE, <<"Line">>), P("prog-2", FALSE, <<"Line", "Line">>),
                       P("prog-fn", FALSE, <<"function", "f", "(", ")", "{", "InFn", "}">>),
                       P("prog-gen", FALSE, <<"function", "*", "g", "(", ")", "{", "InGen", "}">>),
                       P("prog-loop", FALSE, <<"l", ":", "for", "(", ";", ";", ")", "{", "InLoop", "}">>),
                       P("prog-async-nl", TRUE, <<"async", "NL", "function", "h", "(", ")", "{", "}">>),
                       P("prog-async-arrow-nl", TRUE, <<"x", "=", "async", "NL", "(", "a", ")", "=>", "a", ";">>),
                       P("prog-arrow-nl", TRUE, <<"x", "=", "(", "a", ")", "NL", "=>", "a", ";">>),
                       P("prog-let-nl", TRUE, <<"let", "NL", "z", "=", "1", ";">>),
                       P("prog-let-nl-bracket", TRUE, <<"let", "NL", "[", "z", "]", "=", "a", ";">>),
                       P("prog-if-else", TRUE, <<"if", "(", "a", ")", "b", "NL", "else", "c">>),
                       P("prog-do-while", TRUE, <<"do", "a", "NL", "while", "(", "b", ")", "c">>),
                       P("prog-do-while-semi", TRUE, <<"do", "a", ";", "while", "(", "b", ")", "c">>),
                       P("prog-empty-for", TRUE, <<"for", "(", "a", "NL", "b", "NL", "c", ")", ";">>),
                       P("prog-var-nl", TRUE, <<"var", "a", "NL", "=", "1", "NL", ",", "b", "NL", "c">>)}
    [] nt = "Line" -> {P("line-semi", FALSE, <<"E", ";">>), P("line-nl", TRUE, <<"E", "<NL>">>), P("line-none", FALSE, <<"E">>)}
    [] nt = "NL" -> {P("nl-yes", TRUE, <<"<NL>">>), P("nl-no", FALSE, <<>>)}
    [] nt = "E" -> {P("e-id", FALSE, <<"a">>), P("e-assign", FALSE, <<"a", "=", "b">>),
                    P("e-cont", TRUE, <<"a", "<NL>", "Cont">>), P("e-post", FALSE, <<"a", "Post">>),
                    P("e-post-nl", TRUE, <<"a", "<NL>", "Post", "<NL>", "b">>),
                    P("e-pre", FALSE, <<"Post", "a">>),
                    P("e-bin-nl", TRUE, <<"a", "Op", "<NL>", "b">>)}
    [] nt = "Cont" -> {P("cont-paren", TRUE, <<"(", "b", ")">>), P("cont-bracket", TRUE, <<"[", "0", "]">>), P("cont-template", TRUE, <<"`t`">>),
                       P("cont-plus", TRUE, <<"+", "b">>), P("cont-minus", TRUE, <<"-", "b">>), P("cont-slash", TRUE, <<"/", "b", "/", "g">>),
                       P("cont-regexp-call", TRUE, <<"/b/g", ".", "test", "(", "c", ")">>),
                       P("cont-incr", TRUE, <<"++", "b">>), P("cont-decr", TRUE, <<"--", "b">>), P("cont-dot", TRUE, <<".", "b">>),
                       P("cont-optchain", TRUE, <<"?.", "b">>), P("cont-in", TRUE, <<"in", "b">>), P("cont-star", TRUE, <<"*", "b">>),
                       P("cont-comma", TRUE, <<",", "b">>), P("cont-arrow-paren", TRUE, <<"(", "b", ")", "=>", "c">>),
                       P("cont-async-arrow", TRUE, <<"async", "(", "b", ")", "=>", "c">>)}
    [] nt = "Post" -> {P("post-incr", FALSE, <<"++">>), P("post-decr", FALSE, <<"--">>)}
    [] nt = "Op" -> {P("op-plus", FALSE, <<"+">>), P("op-assign", FALSE, <<"=">>), P("op-dot", FALSE, <<".">>), P("op-comma", FALSE, <<",">>)}
    [] nt = "InFn" -> {P("ret-e", FALSE, <<"return", "NL", "E", "Semi">>), P("ret-none", FALSE, <<"return", "Semi">>),
                       P("ret-regexp", TRUE, <<"return", "NL", "/b/g", "Semi">>), P("ret-obj", TRUE, <<"return", "NL", "{", "}", "Semi">>),
                       P("throw-e", FALSE, <<"throw", "NL", "E", "Semi">>), P("ret-paren-nl", TRUE, <<"return", "(", "<NL>", "a", "<NL>", ")", "Semi">>),
                       P("ret-comment-nl", TRUE, <<"return", "/*", "<NL>", "*/", "a", "Semi">>)}
    [] nt = "InGen" -> {P("yield-e", FALSE, <<"yield", "NL", "E", "Semi">>), P("yield-none", FALSE, <<"yield", "Semi">>),
                        P("yield-star", TRUE, <<"yield", "NL", "*", "NL", "a", "Semi">>), P("yield-regexp", TRUE, <<"yield", "NL", "/b/g", "Semi">>),
                        P("yield-in-expr", TRUE, <<"x", "=", "yield", "NL", "a", "Semi">>), P("yield-paren", TRUE, <<"(", "yield", ")", "Semi">>)}
    [] nt = "InLoop" -> {P("break-l", FALSE, <<"break", "NL", "l", "Semi">>), P("continue-l", FALSE, <<"continue", "NL", "l", "Semi">>),
                         P("break-none", FALSE, <<"break", "Semi">>), P("continue-none", FALSE, <<"continue", "Semi">>),
                         P("break-then-expr", TRUE, <<"break", "NL", "a", "Semi">>)}
    [] nt = "Semi" -> {P("semi", FALSE, <<";">>), P("semi-nl", TRUE, <<"<NL>">>), P("semi-none", TRUE, <<>>), P("semi-nl-next", TRUE, <<"<NL>", "b", ";">>)}

(* ------------------------------------------------- regexp vs division *)
ReDiv(nt) ==
  CASE nt = "Prog" -> {P("rd-after", FALSE, <<"Before", "Slash">>), P("rd-wrapped", FALSE, <<"x", "=", "Open", "Re", "Close", ";">>),
                       P("rd-block-then-re", TRUE, <<"{", "}", "Re", ";">>), P("rd-block-then-re-call", TRUE, <<"{", "}", "/b/g", ".", "test", "(", "c", ")">>),
                       P("rd-if-then-re", TRUE, <<"if", "(", "a", ")", "Re", ".", "test", "(", "c", ")", ";">>),
                       P("rd-paren-obj-div", TRUE, <<"(", "{", "}", ")", "/", "b", "/", "c", ";">>),
                       P("rd-fn-decl-then-re", TRUE, <<"function", "f", "(", ")", "{", "}", "Re", ";">>),
                       P("rd-fn-expr-div", TRUE, <<"x", "=", "function", "(", ")", "{", "}", "/", "b", "/", "c", ";">>),
                       P("rd-class-expr-div", TRUE, <<"x", "=", "class", "{", "}", "/", "b", "/", "c", ";">>),
                       P("rd-gen-yield-re", TRUE, <<"function", "*", "g", "(", ")", "{", "yield", "Re", ";", "}">>),
                       P("rd-fn-return-re", TRUE, <<"function", "f", "(", ")", "{", "return", "Re", ";", "}">>),
                       P("rd-arrow-body-re", TRUE, <<"x", "=", "(", ")", "=>", "Re", ";">>),
                       P("rd-cond-re", TRUE, <<"x", "=", "a", "?", "Re", ":", "Re", ";">>),
                       P("rd-template-hole-re", TRUE, <<"x", "=", "`a${", "Re", "}b`", ";">>),
                       P("rd-template-div", TRUE, <<"x", "=", "`t`", "/", "b", "/", "c", ";">>),
                       P("rd-re-div-re", TRUE, <<"x", "=", "Re", "/", "Re", ";">>),
                       P("rd-label-re", TRUE, <<"l", ":", "Re", ";">>),
                       P("rd-case-re", TRUE, <<"switch", "(", "a", ")", "{", "case", "Re", ":", "}">>),
                       P("rd-do-re", TRUE, <<"do", "Re", ";", "while", "(", "a", ")">>),
                       P("rd-else-re", TRUE, <<"if", "(", "a", ")", ";", "else", "Re", ";">>),
                       P("rd-spread-re", TRUE, <<"x", "=", "[", "...", "Re", "]", ";">>)}
    [] nt = "Before" -> {P("b-id", FALSE, <<"a">>), P("b-num", FALSE, <<"1">>), P("b-rparen", FALSE, <<"(", "a", ")">>), P("b-rbracket", FALSE, <<"a", "[", "0", "]">>),
                         P("b-post-incr", TRUE, <<"a", "++">>), P("b-post-decr", TRUE, <<"a", "--">>),
                         P("b-string", FALSE, <<"'s'">>), P("b-regexp", TRUE, <<"/r/">>), P("b-obj-paren", TRUE, <<"(", "{", "}", ")">>),
                         P("b-kw-prop", TRUE, <<"a", ".", "typeof">>), P("b-super-call", FALSE, <<"a", "(", ")">>)}
    [] nt = "Slash" -> {P("s-div-div", FALSE, <<"/", "b", "/", "c", ";">>), P("s-div", FALSE, <<"/", "b", ";">>),
                        P("s-diveq", TRUE, <<"/=", "b", ";">>), P("s-div-re", TRUE, <<"/", "Re", ";">>), P("s-div-nl", TRUE, <<"<NL>", "/", "b", "/", "c", ";">>)}
    [] nt = "Open" -> {P("o-none", FALSE, <<>>), P("o-paren", FALSE, <<"(">>), P("o-bracket", FALSE, <<"[">>), P("o-typeof", FALSE, <<"typeof">>),
                       P("o-not", FALSE, <<"!">>), P("o-comma", FALSE, <<"a", ",">>), P("o-plus", FALSE, <<"a", "+">>), P("o-and", FALSE, <<"a", "&&">>),
                       P("o-new", TRUE, <<"new">>), P("o-void", FALSE, <<"void">>), P("o-in", TRUE, <<"a", "in">>), P("o-lt", TRUE, <<"a", "<">>),
                       P("o-arrow-call", TRUE, <<"f", "(">>)}
    [] nt = "Close" -> {P("c-none", FALSE, <<>>), P("c-paren", FALSE, <<")">>), P("c-bracket", FALSE, <<"]">>), P("c-dot", FALSE, <<".", "source">>),
                        P("c-in", TRUE, <<"in", "b">>), P("c-instanceof", TRUE, <<"instanceof", "b">>), P("c-call", TRUE, <<".", "test", "(", "a", ")", ")">>)}
    [] nt = "Re" -> {P("re-simple", FALSE, <<"/b/">>), P("re-flags", FALSE, <<"/b/g">>), P("re-class-slash", TRUE, <<"/[/]/">>), P("re-esc-slash", TRUE, <<"/\\//">>),
                     P("re-eq", TRUE, <<"/=b/">>), P("re-star", TRUE, <<"/b*/u">>)}

(* --------------------------------- contextual keywords as identifiers *)
Idents(nt) ==
  CASE nt = "Prog" -> {P("id-expr", FALSE, <<"N", ";">>), P("id-var", FALSE, <<"var", "N", "=", "1", ";">>), P("id-let-decl", TRUE, <<"let", "N", "=", "1", ";">>),
                       P("id-const-decl", TRUE, <<"const", "N", "=", "1", ";">>),
                       P("id-assign", FALSE, <<"N", "=", "1", ";">>), P("id-fn-name", TRUE, <<"function", "N", "(", ")", "{", "}">>),
                       P("id-fn-expr-name", TRUE, <<"x", "=", "function", "N", "(", ")", "{", "}", ";">>),
                       P("id-gen-name", TRUE, <<"function", "*", "N", "(", ")", "{", "}">>), P("id-async-fn-name", TRUE, <<"async", "function", "N", "(", ")", "{", "}">>),
                       P("id-param", TRUE, <<"function", "f", "(", "N", ")", "{", "}">>), P("id-arrow-param", TRUE, <<"x", "=", "N", "=>", "N", ";">>),
                       P("id-arrow-paren-param", TRUE, <<"x", "=", "(", "N", ")", "=>", "N", ";">>), P("id-async-arrow-param", TRUE, <<"x", "=", "async", "N", "=>", "1", ";">>),
                       P("id-async-arrow-paren-param", TRUE, <<"x", "=", "async", "(", "N", ")", "=>", "1", ";">>),
                       P("id-obj-key", FALSE, <<"x", "=", "{", "N", ":", "1", "}", ";">>), P("id-obj-shorthand", TRUE, <<"x", "=", "{", "N", "}", ";">>),
                       P("id-obj-method", TRUE, <<"x", "=", "{", "N", "(", ")", "{", "}", "}", ";">>), P("id-obj-getter", TRUE, <<"x", "=", "{", "get", "N", "(", ")", "{", "}", "}", ";">>),
                       P("id-obj-async-method", TRUE, <<"x", "=", "{", "async", "N", "(", ")", "{", "}", "}", ";">>),
                       P("id-member", FALSE, <<"x", ".", "N", ";">>), P("id-opt-member", TRUE, <<"x", "?.", "N", ";">>),
                       P("id-class-method", TRUE, <<"class", "C", "{", "N", "(", ")", "{", "}", "}">>), P("id-class-field", TRUE, <<"class", "C", "{", "N", "=", "1", "}">>),
                       P("id-class-field-bare", TRUE, <<"class", "C", "{", "N", "}">>), P("id-class-static-field", TRUE, <<"class", "C", "{", "static", "N", "}">>),
                       P("id-class-getter", TRUE, <<"class", "C", "{", "get", "N", "(", ")", "{", "}", "}">>), P("id-class-name", TRUE, <<"class", "N", "{", "}">>),
                       P("id-class-private", TRUE, <<"class", "C", "{", "#N", "=", "1", "}">>),
                       P("id-label", TRUE, <<"N", ":", "x", ";">>), P("id-forof-lhs", TRUE, <<"for", "(", "N", "of", "y", ")", ";">>),
                       P("id-forin-lhs", TRUE, <<"for", "(", "N", "in", "y", ")", ";">>), P("id-forof-var", TRUE, <<"for", "(", "var", "N", "of", "y", ")", ";">>),
                       P("id-forof-rhs", TRUE, <<"for", "(", "x", "of", "N", ")", ";">>), P("id-for-init", TRUE, <<"for", "(", "N", ";", ";", ")", "break", ";">>),
                       P("id-tagged", TRUE, <<"N", "`t`", ";">>), P("id-new", TRUE, <<"new", "N", ";">>), P("id-call", FALSE, <<"N", "(", "1", ")", ";">>),
                       P("id-destructure-array", TRUE, <<"[", "N", "]", "=", "y", ";">>), P("id-destructure-obj", TRUE, <<"(", "{", "N", "}", "=", "y", ")", ";">>),
                       P("id-destructure-default", TRUE, <<"(", "{", "N", "=", "1", "}", "=", "y", ")", ";">>),
                       P("id-postfix", TRUE, <<"N", "++", ";">>), P("id-typeof", FALSE, <<"typeof", "N", ";">>), P("id-index", TRUE, <<"N", "[", "0", "]", ";">>),
                       P("id-in-gen", TRUE, <<"function", "*", "g", "(", ")", "{", "N", ";", "}">>), P("id-in-async", TRUE, <<"async", "function", "h", "(", ")", "{", "N", ";", "}">>),
                       P("id-in-gen-nested-fn", TRUE, <<"function", "*", "g", "(", ")", "{", "function", "k", "(", ")", "{", "N", ";", "}", "}">>),
                       P("id-in-async-arrow-param", TRUE, <<"async", "function", "h", "(", ")", "{", "(", "N", ")", "=>", "1", ";", "}">>),
                       P("id-in-class-static-block", TRUE, <<"class", "C", "{", "static", "{", "N", ";", "}", "}">>),
                       P("id-import-as", TRUE, <<"import", "{", "x", "as", "N", "}", "from", "'m'", ";">>),
                       P("id-export-as", TRUE, <<"var", "x", ";", "export", "{", "x", "as", "N", "}", ";">>),
                       P("id-import-default", TRUE, <<"import", "N", "from", "'m'", ";">>),
                       P("id-catch-param", TRUE, <<"try", "{", "}", "catch", "(", "N", ")", "{", "}">>),
                       P("id-use-strict-fn", TRUE, <<"function", "f", "(", ")", "{", "'use strict'", ";", "N", ";", "}">>)}
    [] nt = "N" -> {P("n-plain", FALSE, <<"foo">>), P("n-let", TRUE, <<"let">>), P("n-async", TRUE, <<"async">>), P("n-yield", TRUE, <<"yield">>),
                    P("n-of", TRUE, <<"of">>), P("n-get", TRUE, <<"get">>), P("n-set", TRUE, <<"set">>),
                    P("n-static", TRUE, <<"static">>), P("n-accessor", TRUE, <<"accessor">>), P("n-using", TRUE, <<"using">>), P("n-as", TRUE, <<"as">>),
                    P("n-from", TRUE, <<"from">>), P("n-target", TRUE, <<"target">>), P("n-arguments", TRUE, <<"arguments">>), P("n-eval", TRUE, <<"eval">>),
                    P("n-undefined", TRUE, <<"undefined">>), P("n-implements", TRUE, <<"implements">>), P("n-constructor", TRUE, <<"constructor">>)}

(* ------------------------------------------------------- cover grammars *)
Cover(nt) ==
  CASE nt = "Prog" -> {P("cv-paren", FALSE, <<"x", "=", "(", "Items", ")", "PTail", ";">>), P("cv-async-paren", TRUE, <<"x", "=", "async", "(", "Items", ")", "PTail", ";">>),
                       P("cv-empty-arrow", FALSE, <<"x", "=", "(", ")", "=>", "c", ";">>), P("cv-empty-paren", TRUE, <<"x", "=", "(", ")", ";">>),
                       P("cv-array", FALSE, <<"[", "Items", "]", "ATail", ";">>), P("cv-obj", FALSE, <<"(", "{", "Props", "}", "ATail", ")", ";">>),
                       P("cv-obj-stmt-start", TRUE, <<"{", "Props", "}", "ATail", ";">>),
                       P("cv-for-of", TRUE, <<"for", "(", "[", "Items", "]", "of", "y", ")", ";">>), P("cv-for-of-obj", TRUE, <<"for", "(", "{", "Props", "}", "of", "y", ")", ";">>),
                       P("cv-for-in", TRUE, <<"for", "(", "[", "Items", "]", "in", "y", ")", ";">>),
                       P("cv-paren-assign", TRUE, <<"(", "Item", ")", "=", "d", ";">>), P("cv-fn-params", TRUE, <<"function", "f", "(", "Items", ")", "{", "}">>),
                       P("cv-catch", TRUE, <<"try", "{", "}", "catch", "(", "Item", ")", "{", "}">>),
                       P("cv-var", TRUE, <<"var", "Item", "=", "d", ";">>)}
    [] nt = "Items" -> {P("items-1", FALSE, <<"Item">>), P("items-2", FALSE, <<"Item", ",", "Item">>), P("items-trailing", TRUE, <<"Item", ",">>),
                        P("items-hole", TRUE, <<",", "Item">>), P("items-rest", TRUE, <<"Item", ",", "...", "Item">>), P("items-rest-only", TRUE, <<"...", "Item">>),
                        P("items-rest-trailing", TRUE, <<"...", "Item", ",">>)}
    [] nt = "Item" -> {P("item-id", FALSE, <<"a">>), P("item-default", TRUE, <<"a", "=", "1">>), P("item-array", TRUE, <<"[", "b", "]">>), P("item-obj", TRUE, <<"{", "b", "}">>),
                       P("item-obj-default", TRUE, <<"{", "b", "=", "1", "}">>), P("item-member", TRUE, <<"a", ".", "b">>), P("item-paren", TRUE, <<"(", "a", ")">>),
                       P("item-paren-member", TRUE, <<"(", "a", ".", "b", ")">>), P("item-paren-pattern", TRUE, <<"(", "[", "a", "]", ")">>),
                       P("item-call", TRUE, <<"a", "(", ")">>), P("item-num", FALSE, <<"1">>), P("item-yield", TRUE, <<"yield">>),
                       P("item-array-default", TRUE, <<"[", "b", "]", "=", "c">>), P("item-optional", TRUE, <<"a", "?.", "b">>)}
    [] nt = "Props" -> {P("props-short", FALSE, <<"a">>), P("props-short-2", FALSE, <<"a", ",", "b">>), P("props-kv", FALSE, <<"a", ":", "Item">>),
                        P("props-default", TRUE, <<"a", "=", "1">>), P("props-rest", TRUE, <<"a", ",", "...", "Item">>), P("props-computed", TRUE, <<"[", "k", "]", ":", "Item">>),
                        P("props-string-key", TRUE, <<"'s'", ":", "Item">>), P("props-method", TRUE, <<"m", "(", ")", "{", "}">>), P("props-trailing", TRUE, <<"a", ",">>),
                        P("props-kv-default", TRUE, <<"a", ":", "b", "=", "1">>), P("props-getter", TRUE, <<"get", "a", "(", ")", "{", "}">>),
                        P("props-proto-dup", TRUE, <<"__proto__", ":", "a", ",", "__proto__", ":", "b">>)}
    [] nt = "PTail" -> {P("pt-none", FALSE, <<>>), P("pt-arrow", FALSE, <<"=>", "c">>), P("pt-arrow-block", FALSE, <<"=>", "{", "}">>), P("pt-assign", TRUE, <<"=", "d">>),
                        P("pt-call", TRUE, <<"(", ")">>), P("pt-arrow-nl", TRUE, <<"<NL>", "=>", "c">>)}
    [] nt = "ATail" -> {P("at-none", FALSE, <<>>), P("at-assign", FALSE, <<"=", "d">>), P("at-compound", TRUE, <<"+=", "d">>), P("at-member", TRUE, <<".", "p">>)}

(* ----------------------- Annex B: labelled functions, HTML-like comments *)
AnnexB(nt) ==
  CASE nt = "Prog" -> {P("lf-label-fn", TRUE, <<"l", ":", "Fn">>), P("lf-label-label-fn", TRUE, <<"l", ":", "m", ":", "Fn">>),
                       P("lf-if-fn", TRUE, <<"if", "(", "a", ")", "Fn">>), P("lf-if-else-fn", TRUE, <<"if", "(", "a", ")", ";", "else", "Fn">>),
                       P("lf-if-fn-else-fn", TRUE, <<"if", "(", "a", ")", "Fn", "else", "Fn">>),
                       P("lf-while-label-fn", TRUE, <<"while", "(", "a", ")", "l", ":", "Fn">>), P("lf-block-label-fn", TRUE, <<"{", "l", ":", "Fn", "}">>),
                       P("lf-if-label-fn", TRUE, <<"if", "(", "a", ")", "l", ":", "Fn">>), P("lf-fn-body", TRUE, <<"function", "o", "(", ")", "{", "l", ":", "Fn", "}">>),
                       P("lf-strict", TRUE, <<"'use strict'", ";", "l", ":", "Fn">>), P("lf-label-class", TRUE, <<"l", ":", "class", "C", "{", "}">>),
                       P("lf-label-let", TRUE, <<"l", ":", "let", "x">>), P("lf-label-var", FALSE, <<"l", ":", "var", "x", ";">>),
                       P("lf-dup-fn-block", TRUE, <<"{", "Fn", "Fn", "}">>), P("lf-switch-fn", TRUE, <<"switch", "(", "a", ")", "{", "case", "1", ":", "Fn", "}">>),
                       P("hc-open-line", TRUE, <<"<!--", "c", "<NL>", "a", ";">>), P("hc-open-after-expr", TRUE, <<"a", "<!--", "b", "<NL>", ";">>),
                       P("hc-close-line-start", TRUE, <<"a", ";", "<NL>", "-->", "c", "<NL>", "b", ";">>), P("hc-close-first-line", TRUE, <<"-->", "c", "<NL>", "b", ";">>),
                       P("hc-close-after-comment", TRUE, <<"a", ";", "<NL>", "/* */", "-->", "c", "<NL>", "b", ";">>),
                       P("hc-close-after-ml-comment", TRUE, <<"a", ";", "/*", "<NL>", "*/", "-->", "c", "<NL>", "b", ";">>),
                       P("hc-decr-gt", TRUE, <<"x", "=", "a", "-->", "b", ";">>), P("hc-lt-not-decr", TRUE, <<"x", "=", "a", "<", "!", "--", "b", ";">>),
                       P("hc-lt-not-decr-glued", TRUE, <<"x", "=", "a", "<!--b", "<NL>", ";">>), P("hc-in-string", FALSE, <<"x", "=", "'<!-- -->'", ";">>),
                       P("hc-in-template", TRUE, <<"x", "=", "`<!--${", "a", "}-->`", ";">>), P("hc-in-regexp", TRUE, <<"x", "=", "/<!--/", ";">>),
                       P("hc-decr-gt-line-start", TRUE, <<"x", "=", "a", "<NL>", "-->", "b", ";">>),
                       P("hc-hashbang", TRUE, <<"#!/bin/node", "<NL>", "a", ";">>)}
    [] nt = "Fn" -> {P("fn-plain", FALSE, <<"function", "f", "(", ")", "{", "}">>), P("fn-gen", TRUE, <<"function", "*", "f", "(", ")", "{", "}">>),
                     P("fn-async", TRUE, <<"async", "function", "f", "(", ")", "{", "}">>)}

(* ------------------------------- numeric separators and numeric forms *)
NumSep(nt) ==
  CASE nt = "Prog" -> {P("ns-assign", FALSE, <<"x", "=", "Num", ";">>), P("ns-member", TRUE, <<"x", "=", "Num", ".", "p", ";">>),
                       P("ns-member-glued", TRUE, <<"x", "=", "NumDot", "p", ";">>), P("ns-in", TRUE, <<"x", "=", "Num", "in", "y", ";">>),
                       P("ns-neg-pow", TRUE, <<"x", "=", "(", "-", "Num", ")", "**", "2", ";">>), P("ns-key", TRUE, <<"x", "=", "{", "Num", ":", "1", "}", ";">>),
                       P("ns-class-key", TRUE, <<"class", "C", "{", "Num", "=", "1", "}">>), P("ns-ident-after", TRUE, <<"x", "=", "NumGlue", ";">>)}
    [] nt = "Num" -> {P("num-int", FALSE, <<"1000">>), P("num-sep", TRUE, <<"1_000">>), P("num-sep-double", TRUE, <<"1__0">>), P("num-sep-trailing", TRUE, <<"1_">>),
                      P("num-sep-frac", TRUE, <<"1_0.0_1">>), P("num-sep-after-dot", TRUE, <<"1._1">>), P("num-sep-before-dot", TRUE, <<"1_.1">>),
                      P("num-sep-exp", TRUE, <<"1e1_0">>), P("num-sep-after-e", TRUE, <<"1e_1">>), P("num-sep-lead-dot", TRUE, <<"._1">>),
                      P("num-sep-after-zero", TRUE, <<"0_1">>), P("num-legacy-octal", TRUE, <<"017">>), P("num-legacy-octal-sep", TRUE, <<"01_7">>),
                      P("num-legacy-dec", TRUE, <<"089">>), P("num-legacy-dec-frac", TRUE, <<"089.5">>), P("num-legacy-octal-dot", TRUE, <<"017.5">>),
                      P("num-hex-sep", TRUE, <<"0xA_B">>), P("num-hex-sep-lead", TRUE, <<"0x_A">>), P("num-bin-sep", TRUE, <<"0b1_0">>), P("num-oct-sep", TRUE, <<"0o1_7">>),
                      P("num-big-sep", TRUE, <<"1_000n">>), P("num-big-legacy", TRUE, <<"017n">>), P("num-big-frac", TRUE, <<"1.5n">>), P("num-big-exp", TRUE, <<"1e3n">>),
                      P("num-big-hex", TRUE, <<"0xFn">>), P("num-trailing-dot", TRUE, <<"1.">>), P("num-lead-dot", TRUE, <<".5">>), P("num-exp-dot", TRUE, <<"1.e3">>),
                      P("num-exp-upper", TRUE, <<"1E+3">>), P("num-hex-upper", TRUE, <<"0XAB">>), P("num-hex-e", TRUE, <<"0xe+1">>), P("num-zero-dot", TRUE, <<"0.0">>),
                      P("num-big-zero", TRUE, <<"0n">>), P("num-double-zero", TRUE, <<"00">>), P("num-zero-e", TRUE, <<"0e0">>)}
    [] nt = "NumDot" -> {P("nd-int-dot-dot", TRUE, <<"1..">>), P("nd-frac-dot", TRUE, <<"1.5.">>), P("nd-int-dot", TRUE, <<"1.">>), P("nd-exp-dot", TRUE, <<"1e3.">>),
                         P("nd-hex-dot", TRUE, <<"0x1.">>), P("nd-big-dot", TRUE, <<"1n.">>), P("nd-legacy-dot", TRUE, <<"017.">>), P("nd-legacy-dec-dot", TRUE, <<"089.">>),
                         P("nd-sep-dot", TRUE, <<"1_0.">>)}
    [] nt = "NumGlue" -> {P("ng-in", TRUE, <<"1in y">>), P("ng-ident", TRUE, <<"1a">>), P("ng-hex-ident", TRUE, <<"0x1g">>), P("ng-big-ident", TRUE, <<"1na">>),
                          P("ng-dot-ident", TRUE, <<"1.a">>), P("ng-exp-ident", TRUE, <<"1ea">>), P("ng-num-num", TRUE, <<"1.5.5">>), P("ng-escape", TRUE, <<"1\\u0061">>)}

(* --------------------------------------- escapes in identifier names *)
Escapes(nt) ==
  CASE nt = "Prog" -> {P("es-var", FALSE, <<"var", "I", "=", "1", ";">>), P("es-expr", FALSE, <<"I", ";">>), P("es-member", TRUE, <<"x", ".", "K", ";">>),
                       P("es-obj-key", TRUE, <<"x", "=", "{", "K", ":", "1", "}", ";">>), P("es-label", TRUE, <<"I", ":", ";">>),
                       P("es-class-member", TRUE, <<"class", "C", "{", "K", "(", ")", "{", "}", "}">>), P("es-private", TRUE, <<"class", "C", "{", "#", "I", "=", "1", "}">>),
                       P("es-kw-stmt-var", TRUE, <<"v\\u0061r", "x", "=", "1", ";">>), P("es-kw-stmt-if", TRUE, <<"\\u0069f", "(", "a", ")", ";">>),
                       P("es-kw-let-decl", TRUE, <<"l\\u0065t", "x", "=", "1", ";">>), P("es-kw-let-expr", TRUE, <<"l\\u0065t", ";">>),
                       P("es-kw-let-bracket", TRUE, <<"l\\u0065t", "<NL>", "[", "a", "]", "=", "b", ";">>),
                       P("es-kw-async-fn", TRUE, <<"\\u0061sync", "function", "f", "(", ")", "{", "}">>), P("es-kw-async-arrow", TRUE, <<"x", "=", "\\u0061sync", "(", ")", "=>", "1", ";">>),
                       P("es-kw-async-id", TRUE, <<"\\u0061sync", ";">>), P("es-kw-of", TRUE, <<"for", "(", "a", "\\u006ff", "b", ")", ";">>),
                       P("es-kw-static", TRUE, <<"class", "C", "{", "st\\u0061tic", "x", "}">>), P("es-kw-get", TRUE, <<"x", "=", "{", "g\\u0065t", "a", "(", ")", "{", "}", "}", ";">>),
                       P("es-kw-yield-gen", TRUE, <<"function", "*", "g", "(", ")", "{", "yi\\u0065ld", ";", "}">>),
                       P("es-kw-yield-sloppy", TRUE, <<"var", "yi\\u0065ld", ";">>), P("es-kw-await-async", TRUE, <<"async", "function", "h", "(", ")", "{", "aw\\u0061it", "a", ";", "}">>),
                       P("es-kw-new-target", TRUE, <<"function", "f", "(", ")", "{", "new", ".", "t\\u0061rget", ";", "}">>),
                       P("es-kw-true", TRUE, <<"x", "=", "tru\\u0065", ";">>), P("es-kw-null-member", TRUE, <<"x", ".", "nul\\u006c", ";">>),
                       P("es-kw-this", TRUE, <<"x", "=", "th\\u0069s", ";">>), P("es-kw-typeof", TRUE, <<"x", "=", "typ\\u0065of", "a", ";">>),
                       P("es-kw-export-as", TRUE, <<"var", "x", ";", "export", "{", "x", "\\u0061s", "y", "}", ";">>),
                       P("es-kw-import-default", TRUE, <<"import", "{", "d\\u0065fault", "as", "y", "}", "from", "'m'", ";">>),
                       P("es-string-lone", TRUE, <<"x", "=", "'\\u'", ";">>), P("es-template-lone", TRUE, <<"x", "=", "`\\u`", ";">>),
                       P("es-tagged-lone", TRUE, <<"x", "=", "f", "`\\u`", ";">>), P("es-regexp-u", TRUE, <<"x", "=", "/\\u{61}/u", ";">>)}
    [] nt = "I" -> {P("i-plain", FALSE, <<"ab">>), P("i-esc4-start", TRUE, <<"\\u0061b">>), P("i-esc4-part", TRUE, <<"a\\u0062">>), P("i-esc-brace", TRUE, <<"\\u{61}b">>),
                    P("i-esc-brace-long", TRUE, <<"\\u{000061}b">>), P("i-esc-all", TRUE, <<"\\u0061\\u0062">>), P("i-esc-digit-start", TRUE, <<"\\u0031b">>),
                    P("i-esc-digit-part", TRUE, <<"a\\u0031">>), P("i-esc-astral", TRUE, <<"\\u{1F600}">>), P("i-esc-astral-id", TRUE, <<"\\u{2F800}">>),
                    P("i-esc-surrogates", TRUE, <<"\\uD87E\\uDC00">>), P("i-esc-zwj", TRUE, <<"a\\u200D">>), P("i-esc-zwj-start", TRUE, <<"\\u200Da">>),
                    P("i-esc-dollar", TRUE, <<"\\u0024">>), P("i-esc-space", TRUE, <<"a\\u0020b">>), P("i-esc-bad-hex", TRUE, <<"\\u00G1">>), P("i-esc-x", TRUE, <<"\\x61">>),
                    P("i-esc-upper", TRUE, <<"\\u00E9">>), P("i-esc-too-big", TRUE, <<"\\u{110000}">>), P("i-esc-empty-brace", TRUE, <<"\\u{}">>)}
    [] nt = "K" -> {P("k-if", TRUE, <<"\\u0069f">>), P("k-class", TRUE, <<"cl\\u0061ss">>), P("k-plain", FALSE, <<"\\u0061b">>), P("k-get", TRUE, <<"g\\u0065t">>),
                    P("k-constructor", TRUE, <<"constructo\\u0072">>), P("k-proto", TRUE, <<"__prot\\u006f__">>), P("k-static", TRUE, <<"st\\u0061tic">>)}

(* ------------------------------------------------- class elements *)
ClassEl(nt) ==
  CASE nt = "Prog" -> {P("cl-1", FALSE, <<"class", "C", "{", "El", "}">>),
                       P("cl-2", FALSE, <<"class", "C", "{", "Mods", "Name", "FKind", "Sep", "El2", "}">>),
                       P("cl-extends", TRUE, <<"class", "C", "extends", "B", "{", "x", "Kind", "}">>), P("cl-expr", TRUE, <<"x", "=", "class", "{", "El", "}", ";">>)}
    [] nt = "El" -> {P("el-member", FALSE, <<"Mods", "Name", "Kind", "Sep">>), P("el-static-block", TRUE, <<"static", "{", "}">>),
                     P("el-semi", TRUE, <<";">>), P("el-mods-nl", TRUE, <<"Mods", "<NL>", "Name", "Kind", "Sep">>)}
    [] nt = "Mods" -> {P("m-none", FALSE, <<>>), P("m-static", FALSE, <<"static">>), P("m-async", TRUE, <<"async">>), P("m-get", TRUE, <<"get">>),
                       P("m-gen", TRUE, <<"*">>)}
                      \cup (IF Full THEN
                      {P("m-set", TRUE, <<"set">>), P("m-static-async", TRUE, <<"static", "async">>), P("m-static-get", TRUE, <<"static", "get">>),
                       P("m-async-gen", TRUE, <<"async", "*">>), P("m-static-async-gen", TRUE, <<"static", "async", "*">>),
                       P("m-static-static", TRUE, <<"static", "static">>), P("m-get-gen", TRUE, <<"get", "*">>)} ELSE {})
    [] nt = "Name" -> {P("nm-x", FALSE, <<"x">>), P("nm-get", TRUE, <<"get">>), P("nm-static", TRUE, <<"static">>), P("nm-async", TRUE, <<"async">>),
                       P("nm-constructor", TRUE, <<"constructor">>), P("nm-private", TRUE, <<"#p">>), P("nm-string", TRUE, <<"'s'">>), P("nm-computed", TRUE, <<"[", "k", "]">>)}
                      \cup (IF Full THEN
                      {P("nm-set", TRUE, <<"set">>), P("nm-private-constructor", TRUE, <<"#constructor">>),
                       P("nm-string-constructor", TRUE, <<"'constructor'">>), P("nm-num", TRUE, <<"1">>),
                       P("nm-prototype", TRUE, <<"prototype">>), P("nm-in", TRUE, <<"in">>), P("nm-bigint", TRUE, <<"1n">>)} ELSE {})
    [] nt = "FKind" -> {P("fk-field", FALSE, <<>>), P("fk-field-init", FALSE, <<"=", "1">>)}
    [] nt = "El2" -> {P("e2-field", FALSE, <<"y">>), P("e2-gen", TRUE, <<"*", "g", "(", ")", "{", "}">>), P("e2-computed", TRUE, <<"[", "k", "]", "=", "1">>),
                      P("e2-static", TRUE, <<"static", "z">>), P("e2-in", TRUE, <<"in">>), P("e2-paren", TRUE, <<"(", ")", "{", "}">>),
                      P("e2-private", TRUE, <<"#q">>), P("e2-string", TRUE, <<"'t'", "(", ")", "{", "}">>), P("e2-instanceof", TRUE, <<"instanceof", "=", "1">>)}
    [] nt = "Kind" -> {P("kd-field", FALSE, <<>>), P("kd-field-init", FALSE, <<"=", "1">>), P("kd-method", FALSE, <<"(", ")", "{", "}">>),
                       P("kd-method-param", TRUE, <<"(", "a", ")", "{", "}">>), P("kd-field-arrow", TRUE, <<"=", "(", ")", "=>", "this">>),
                       P("kd-field-in", TRUE, <<"=", "#p", "in", "this">>), P("kd-method-super", TRUE, <<"(", ")", "{", "super", ".", "x", "}">>),
                       P("kd-field-arguments", TRUE, <<"=", "arguments">>), P("kd-method-super-call", TRUE, <<"(", ")", "{", "super", "(", ")", "}">>)}
    [] nt = "Sep" -> {P("sp-none", FALSE, <<>>), P("sp-semi", FALSE, <<";">>), P("sp-nl", TRUE, <<"<NL>">>)}
    [] nt = "B" -> {P("b-id", FALSE, <<"Base">>), P("b-null", TRUE, <<"null">>), P("b-call", TRUE, <<"f", "(", ")">>), P("b-paren-seq", TRUE, <<"(", "a", ",", "b", ")">>),
                    P("b-class", TRUE, <<"class", "{", "}">>), P("b-arrow-unparen", TRUE, <<"(", ")", "=>", "1">>), P("b-obj", TRUE, <<"{", "}">>)}

(* ===================================================================== *)
(* Statement structure: the three sub-grammars below derive statements   *)
(* with scope-bearing / `in`-carrying constructs in every clause         *)
(* position.  They share the derivation machine; weights (H) bound how   *)
(* many heavy alternatives one derivation combines.                      *)
(* ===================================================================== *)
Ctxs == {"p", "g", "a"}      \* plain code, generator body (yield operands), async body (await operands, for await)
Lvls == {"1", "2", "3"}
NextLvl(l) == IF l = "1" THEN "2" ELSE "3"

(* ------------------------------------------------------------ forhead *)
(* 14.7.4 / 14.7.5: for ( [lookahead != let [] Expression[~In]opt ; ...; ...) / for ( var VariableDeclarationList[~In] ; ...)  *)
(* / for ( LexicalDeclaration[~In] ...) / for ( LHS in Expression[+In] ) / for ( LHS of AssignmentExpression[+In] ) / for await. *)
(* Slots: i = init ([~In]), t = test, u = update, r = right-hand side of in/of, d = default initialiser inside a binding       *)
(* or assignment pattern of the head.  Every slot has its own copy of the expression grammar (production names carry the       *)
(* slot), so "every production inhabited" means every leaf in every clause position.                                           *)
FhSlots == {"i", "t", "u", "r", "d"}
FhE(s, l, c) == "E" \o s \o l \o c
FhExpr(s, l, c) ==
  LET n(x) == s \o "-" \o x
      sub == FhE(s, NextLvl(l), c) IN
  {P(n("id"), FALSE, <<"a">>),
   H(n("in-paren"), 4, <<"(", "a", "in", "b", ")">>)}
  \cup (IF c = "p" THEN
         {H(n("arrow-in-paren"), 4, <<"k", "=>", "(", "k", "in", "o", ")">>),
          H(n("in"), 4, <<"a", "in", "b">>),
          H(n("arrow-block-in"), 4, <<"k", "=>", "{", "k", "in", "o", "}">>),
          H(n("fn-in"), 4, <<"function", "(", ")", "{", "a", "in", "b", "}">>),
          H(n("template-in"), 4, <<"`${", "a", "in", "b", "}`">>)}
         \cup (IF Full /\ l # "3" THEN
         {H(n("arrow-in"), 5, <<"k", "=>", "k", "in", "o">>),
          H(n("obj-method-in"), 5, <<"{", "m", "(", ")", "{", "a", "in", "b", "}", "}">>),
          H(n("async-arrow-in-paren"), 5, <<"async", "k", "=>", "(", "k", "in", "o", ")">>),
          H(n("paren-arrow-in"), 5, <<"(", "k", "=>", "k", "in", "o", ")">>),
          H(n("arrow-default-in"), 5, <<"(", "k", "=", "a", "in", "b", ")", "=>", "k">>),
          H(n("class-key-in"), 5, <<"class", "{", "[", "a", "in", "b", "]", "(", ")", "{", "}", "}">>),
          H(n("not-in-paren"), 5, <<"!", "(", "a", "in", "b", ")">>),
          H(n("or-in-paren"), 5, <<"a", "||", "(", "a", "in", "b", ")">>),
          H(n("fn-default-in"), 5, <<"function", "(", "p", "=", "a", "in", "b", ")", "{", "}">>)} ELSE {})
       ELSE IF c = "g" THEN
         {H(n("yield-in-paren"), 4, <<"yield", "(", "a", "in", "b", ")">>),
          H(n("yield-in"), 4, <<"yield", "a", "in", "b">>)}
         \cup (IF Full /\ l # "3" THEN
         {H(n("arrow-in-paren"), 5, <<"k", "=>", "(", "k", "in", "o", ")">>),
          H(n("yield-star-in-paren"), 5, <<"yield", "*", "(", "a", "in", "b", ")">>),
          H(n("yield-arrow-in-paren"), 5, <<"yield", "k", "=>", "(", "k", "in", "o", ")">>)} ELSE {})
       ELSE
         {H(n("await-in-paren"), 4, <<"await", "(", "a", "in", "b", ")">>),
          H(n("await-in"), 4, <<"await", "a", "in", "b">>)}
         \cup (IF Full /\ l # "3" THEN
         {H(n("arrow-in-paren"), 5, <<"k", "=>", "(", "k", "in", "o", ")">>),
          H(n("async-arrow-await-in"), 5, <<"async", "k", "=>", "await", "(", "k", "in", "o", ")">>)} ELSE {}))
  \* sequence / conditional nesting (to depth 2) where the restriction matters: the [~In] init slot
  \cup (IF l = "3" \/ s # "i" THEN {} ELSE
         {H(n("seq"), 2, <<sub, ",", sub>>),
          H(n("cond"), 2, <<"c", "?", sub, ":", sub>>)}
         \cup (IF Full /\ l = "1" THEN {H(n("paren-seq"), 2, <<"(", sub, ",", sub, ")">>)} ELSE {}))

FhStmt(b, c) ==
  LET E(s) == FhE(s, "1", c)
      For == "For" \o c  Init == "Init" \o c  Lhs == "Lhs" \o c  Body == "Body" \o c IN
  CASE b = "For" ->
         {P("fh-cstyle", FALSE, <<"for", "(", Init, ";", E("t"), ";", E("u"), ")", Body>>),
          P("fh-cstyle-initonly", TRUE, <<"for", "(", Init, ";", ";", ")", Body>>),
          P("fh-cstyle-noinit", TRUE, <<"for", "(", ";", E("t"), ";", E("u"), ")", Body>>),
          P("fh-in", TRUE, <<"for", "(", Lhs, "in", E("r"), ")", Body>>),
          P("fh-of", TRUE, <<"for", "(", Lhs, "of", E("r"), ")", Body>>),
          P("fh-labelled-continue", TRUE, <<"l", ":", "for", "(", "var", "x", "=", E("i"), ";", ";", E("u"), ")", "continue", "l", ";">>)}
         \cup (IF c = "g" THEN {} ELSE {P("fh-await-of", TRUE, <<"for", "await", "(", Lhs, "of", E("r"), ")", Body>>)})
    [] b = "Init" ->
         {P("init-expr", FALSE, <<E("i")>>), P("init-var", FALSE, <<"var", "x", "=", E("i")>>),
          P("init-let", TRUE, <<"let", "x", "=", E("i")>>)}
         \cup (IF Full THEN
         {P("init-const", TRUE, <<"const", "x", "=", E("i")>>),
          P("init-var-2", TRUE, <<"var", "x", "=", "a", ",", "y", "=", E("i")>>),
          P("init-let-array-default", TRUE, <<"let", "[", "x", "=", E("d"), "]", "=", E("i")>>),
          P("init-var-obj-default", TRUE, <<"var", "{", "x", "=", E("d"), "}", "=", E("i")>>)} ELSE {})
    [] b = "Lhs" ->
         {P("lhs-id", FALSE, <<"x">>), P("lhs-var", FALSE, <<"var", "x">>), P("lhs-let", TRUE, <<"let", "x">>), P("lhs-const", TRUE, <<"const", "x">>),
          P("lhs-var-init", TRUE, <<"var", "x", "=", E("i")>>),
          P("lhs-array-default", TRUE, <<"[", "x", "=", E("d"), "]">>)}
         \cup (IF Full THEN
         {P("lhs-member", TRUE, <<"x", ".", "p">>), P("lhs-obj-default", TRUE, <<"{", "x", "=", E("d"), "}">>),
          P("lhs-let-array-default", TRUE, <<"let", "[", "x", "=", E("d"), "]">>),
          P("lhs-computed-member", TRUE, <<"x", "[", E("d"), "]">>)} ELSE {})
    [] b = "Body" ->
         {P("body-empty", FALSE, <<";">>),
          H("body-block-let", 4, <<"{", "let", "y", "=", "a", "}">>),
          H("body-nested-for-in", 4, <<"for", "(", "var", "z", "in", "o", ")", ";">>),
          H("body-closure", 4, <<"f", "(", "(", ")", "=>", "a", ")", ";">>)}
         \cup (IF Full THEN
         {H("body-nested-for-init-in", 5, <<"for", "(", "var", "z", "=", "(", "a", "in", "b", ")", ";", ";", ")", "break", ";">>),
          H("body-block-continue", 5, <<"{", "continue", "}">>)} ELSE {})

FhBases == {"For", "Init", "Lhs", "Body"}
ForHeadNT == {"Prog"} \cup {b \o c : b \in FhBases, c \in Ctxs} \cup {FhE(s, l, c) : s \in FhSlots, l \in Lvls, c \in Ctxs}
ForHead(nt) ==
  IF nt = "Prog" THEN
    {P("fh-top", FALSE, <<"Forp">>),
     P("fh-in-gen", TRUE, <<"function", "*", "g", "(", ")", "{", "Forg", "}">>),
     P("fh-in-async", TRUE, <<"async", "function", "h", "(", ")", "{", "Fora", "}">>)}
  ELSE IF \E b \in FhBases, c \in Ctxs : nt = b \o c THEN
    LET t == CHOOSE t \in FhBases \X Ctxs : nt = t[1] \o t[2] IN FhStmt(t[1], t[2])
  ELSE
    LET t == CHOOSE t \in FhSlots \X Lvls \X Ctxs : nt = FhE(t[1], t[2], t[3]) IN FhExpr(t[1], t[2], t[3])

(* --------------------------------------------------------------- inop *)
(* The [In] parameter of ECMA-262 (Expression[In], AssignmentExpression[In], ConditionalExpression[In], ArrowFunction[In],      *)
(* ConciseBody[In], YieldExpression[In], ShortCircuitExpression[In] ... RelationalExpression[In]): a for-init is [~In]; every  *)
(* operator below either forwards the restriction to its operand (comma, assignment, the test and the else-branch of a        *)
(* conditional, an expression-bodied arrow, yield, binary chains, unary operators, await) or resets it to [+In] (parentheses,   *)
(* brackets, call arguments, template substitutions, the middle operand of a conditional, function/class/arrow-block bodies,    *)
(* parameter initialisers, object-literal values, computed keys).  X<l><c> = an operand position at nesting level l.           *)
IoX(l, c) == "X" \o l \o c
IoOps(l, c) ==
  LET h == IoX(NextLvl(l), c)
      core == \* forwarding operators and the most common resets
        {H("op-paren", 1, <<"(", h, ")">>), H("op-comma-r", 1, <<"a", ",", h>>), H("op-assign", 1, <<"x", "=", h>>),
         H("op-cond-yes", 1, <<"c", "?", h, ":", "b">>), H("op-cond-no", 1, <<"c", "?", "a", ":", h>>),
         H("op-arrow", 1, <<"k", "=>", h>>), H("op-or-r", 1, <<"a", "||", h>>), H("op-not", 1, <<"!", h>>),
         H("op-call-arg", 1, <<"f", "(", h, ")">>)}
      more ==
        {H("op-comma-l", 1, <<h, ",", "a">>), H("op-assign-add", 1, <<"x", "+=", h>>), H("op-assign-and", 1, <<"x", "&&=", h>>),
         H("op-assign-nullish", 1, <<"x", "??=", h>>), H("op-cond-test", 1, <<h, "?", "a", ":", "b">>),
         H("op-async-arrow", 1, <<"async", "k", "=>", h>>), H("op-arrow-noparam", 1, <<"(", ")", "=>", h>>),
         H("op-arrow-block", 1, <<"k", "=>", "{", h, "}">>), H("op-arrow-default-param", 1, <<"(", "k", "=", h, ")", "=>", "a">>),
         H("op-and-r", 1, <<"a", "&&", h>>), H("op-nullish-r", 1, <<"a", "??", h>>), H("op-plus-r", 1, <<"a", "+", h>>),
         H("op-or-l", 1, <<h, "||", "a">>), H("op-typeof", 1, <<"typeof", h>>),
         H("op-array-spread", 1, <<"[", "...", h, "]">>), H("op-call-spread", 1, <<"f", "(", "...", h, ")">>),
         H("op-template", 1, <<"`${", h, "}`">>), H("op-computed-member", 1, <<"a", "[", h, "]">>),
         H("op-obj-value", 1, <<"{", "k", ":", h, "}">>), H("op-fn-default-param", 1, <<"function", "(", "p", "=", h, ")", "{", "}">>),
         H("op-class-computed-key", 1, <<"class", "{", "[", h, "]", "(", ")", "{", "}", "}">>)}
      full ==
        {H("op-assign-or", 1, <<"x", "||=", h>>), H("op-assign-pow", 1, <<"x", "**=", h>>), H("op-lt-r", 1, <<"a", "<", h>>),
         H("op-eq-r", 1, <<"a", "==", h>>), H("op-instanceof-r", 1, <<"a", "instanceof", h>>), H("op-pow-r", 1, <<"a", "**", h>>),
         H("op-plus-l", 1, <<h, "+", "a">>), H("op-in-l", 1, <<h, "in", "a">>), H("op-in-r", 1, <<"a", "in", h>>),
         H("op-neg", 1, <<"-", h>>), H("op-void", 1, <<"void", h>>), H("op-array-elem", 1, <<"[", h, "]">>),
         H("op-new-arg", 1, <<"new", "f", "(", h, ")">>), H("op-tagged-template", 1, <<"t", "`${", h, "}`">>),
         H("op-opt-computed", 1, <<"a", "?.", "[", h, "]">>), H("op-opt-call", 1, <<"a", "?.", "(", h, ")">>),
         H("op-obj-computed-key", 1, <<"{", "[", h, "]", ":", "a", "}">>), H("op-obj-spread", 1, <<"{", "...", h, "}">>),
         H("op-class-extends", 1, <<"class", "extends", "(", h, ")", "{", "}">>), H("op-class-field", 1, <<"class", "{", "f", "=", h, "}">>),
         H("op-class-static-block", 1, <<"class", "{", "static", "{", h, "}", "}">>),
         H("op-fn-body", 1, <<"function", "(", ")", "{", h, "}">>), H("op-fn-return", 1, <<"function", "(", ")", "{", "return", h, "}">>),
         H("op-member-of-paren", 1, <<"(", h, ")", ".", "p">>), H("op-member", 1, <<h, ".", "p">>), H("op-import-call", 1, <<"import", "(", h, ")">>),
         H("op-destructure-array-default", 1, <<"[", "x", "=", h, "]", "=", "a">>),
         H("op-destructure-obj-default", 1, <<"{", "x", "=", h, "}", "=", "a">>)}
      fwd == {H("op-comma-l", 1, <<h, ",", "a">>), H("op-assign-add", 1, <<"x", "+=", h>>), H("op-cond-test", 1, <<h, "?", "a", ":", "b">>),
              H("op-async-arrow", 1, <<"async", "k", "=>", h>>), H("op-and-r", 1, <<"a", "&&", h>>), H("op-typeof", 1, <<"typeof", h>>)}
      ctx == IF c = "g" THEN {H("op-yield", 1, <<"yield", h>>), H("op-yield-star", 1, <<"yield", "*", h>>)}
             ELSE IF c = "a" THEN {H("op-await", 1, <<"await", h>>)} ELSE {} IN
  IF l = "3" THEN {}
  ELSE IF l = "1" THEN core \cup more \cup ctx \cup (IF Full THEN full ELSE {})
  ELSE core \cup ctx \cup (IF Full THEN fwd ELSE {})
(* an identifier that charset=ascii prints with an escape, directly before the keyword operator (operand level 1 only) *)
IoAstral == {P("in-astral", TRUE, <<"(", "\\u{20BB7}", "in", "b", ")">>), P("in-astral-bare", TRUE, <<"\\u{20BB7}", "in", "b">>)}
IoIn == {P("in-paren", FALSE, <<"(", "a", "in", "b", ")">>), P("in-bare", TRUE, <<"a", "in", "b">>)}
        \cup (IF Full THEN {P("in-chain", TRUE, <<"a", "in", "b", "in", "c">>)} ELSE {})
InOpNT == {"Prog"} \cup {IoX(l, c) : l \in Lvls, c \in Ctxs}
InOp(nt) ==
  IF nt = "Prog" THEN
    {P("io-for-init", FALSE, <<"for", "(", "X1p", ";", ";", ")", ";">>),
     P("io-for-var-init", FALSE, <<"for", "(", "var", "x", "=", "X1p", ";", ";", ")", ";">>),
     P("io-gen-for-var-init", TRUE, <<"function", "*", "g", "(", ")", "{", "for", "(", "var", "x", "=", "X1g", ";", ";", ")", ";", "}">>),
     P("io-async-for-var-init", TRUE, <<"async", "function", "h", "(", ")", "{", "for", "(", "var", "x", "=", "X1a", ";", ";", ")", ";", "}">>),
     P("io-expr-stmt", TRUE, <<"x", "=", "X1p", ";">>)}
    \cup (IF Full THEN
    {P("io-for-let-init", TRUE, <<"for", "(", "let", "x", "=", "X1p", ";", ";", ")", ";">>),
     P("io-for-test", TRUE, <<"for", "(", ";", "X1p", ";", ")", ";">>),
     P("io-forin-annexb-init", TRUE, <<"for", "(", "var", "x", "=", "X1p", "in", "o", ")", ";">>),
     P("io-forin-rhs", TRUE, <<"for", "(", "x", "in", "X1p", ")", ";">>),
     P("io-forof-rhs", TRUE, <<"for", "(", "x", "of", "X1p", ")", ";">>),
     P("io-gen-for-init", TRUE, <<"function", "*", "g", "(", ")", "{", "for", "(", "X1g", ";", ";", ")", ";", "}">>)} ELSE {})
  ELSE LET t == CHOOSE t \in Lvls \X Ctxs : nt = IoX(t[1], t[2]) IN IoOps(t[1], t[2]) \cup IoIn \cup (IF t[1] = "1" /\ t[2] = "p" THEN IoAstral ELSE {})

(* ------------------------------------------------------------- scopes *)
(* Every statement kind that opens a scope or has clauses that the two passes of the compiler walk in a particular order, with *)
(* a scope-bearing expression S (arrow, function, class, object method, accessor ...) or a scope-opening body B / statement    *)
(* list L in every clause / operand position.  All S/B/L alternatives except the plain filler have weight 1: with MaxCost = 2   *)
(* every pair of positions of every statement kind holds every pair of scope-bearing alternatives.                              *)
ScS ==
         {H("se-arrow", 2, <<"(", ")", "=>", "a">>), H("se-arrow-block", 2, <<"(", ")", "=>", "{", "}">>),
          H("se-fn", 2, <<"function", "(", ")", "{", "}">>), H("se-class", 2, <<"class", "{", "}">>),
          H("se-obj-method", 2, <<"(", "{", "m", "(", ")", "{", "}", "}", ")">>)}
         \cup (IF Full THEN
         {H("se-obj-getter", 3, <<"(", "{", "get", "g", "(", ")", "{", "}", "}", ")">>),
          H("se-async-arrow", 3, <<"async", "(", ")", "=>", "a">>),
          H("se-generator", 3, <<"function", "*", "(", ")", "{", "}">>),
          H("se-named-class-method", 3, <<"class", "N", "{", "m", "(", ")", "{", "}", "}">>),
          H("se-class-static-block", 3, <<"class", "{", "static", "{", "}", "}">>),
          H("se-class-computed-field", 3, <<"class", "{", "[", "k", "]", "=", "a", "}">>),
          H("se-arrow-default-closure", 3, <<"(", "p", "=", "(", ")", "=>", "a", ")", "=>", "a">>)} ELSE {})
ScB ==
         {H("b-block", 2, <<"{", "}">>), H("b-block-let", 2, <<"{", "let", "y", ";", "}">>),
          H("b-closure-stmt", 2, <<"f", "(", "(", ")", "=>", "a", ")", ";">>),
          H("b-nested-for", 2, <<"for", "(", ";", ";", ")", "break", ";">>)}
         \cup (IF Full THEN
         {H("b-nested-for-let", 3, <<"for", "(", "let", "z", ";", ";", ")", "break", ";">>),
          H("b-try", 3, <<"try", "{", "}", "catch", "{", "}">>), H("b-switch", 3, <<"switch", "(", "a", ")", "{", "}">>),
          H("b-labelled-block", 3, <<"m", ":", "{", "}">>),
          H("b-class-expr-stmt", 3, <<"x", "=", "class", "{", "}", ";">>)} ELSE {})
Scopes(nt) ==
  CASE nt = "S" -> {P("se-none", FALSE, <<"a">>)} \cup ScS
    [] nt = "SH" -> ScS
    [] nt = "B" -> {P("b-empty", FALSE, <<";">>)} \cup ScB
    [] nt = "BH" -> ScB
    [] nt = "L" ->
         {P("l-empty", FALSE, <<>>), P("l-body", FALSE, <<"BH">>), P("l-assign", FALSE, <<"x", "=", "SH", ";">>)}
         \cup (IF Full THEN {P("l-let", TRUE, <<"let", "y", "=", "SH", ";">>), H("l-fn-decl", 3, <<"function", "d", "(", ")", "{", "}">>),
                             H("l-class-decl", 3, <<"class", "D", "{", "}">>)} ELSE {})
    [] nt = "Prog" ->
         {P("sc-for", TRUE, <<"for", "(", "S", ";", "S", ";", "S", ")", "B">>),
          P("sc-for-var", TRUE, <<"for", "(", "var", "v", "=", "S", ";", "S", ";", "S", ")", "B">>),
          P("sc-for-let", TRUE, <<"for", "(", "let", "v", "=", "S", ";", "S", ";", "S", ")", "B">>),
          P("sc-for-in", TRUE, <<"for", "(", "v", "in", "S", ")", "B">>),
          P("sc-for-let-of", TRUE, <<"for", "(", "let", "v", "of", "S", ")", "B">>),
          P("sc-for-const-default-of", TRUE, <<"for", "(", "const", "[", "v", "=", "S", "]", "of", "S", ")", "B">>),
          P("sc-for-member-in", TRUE, <<"for", "(", "(", "S", ")", ".", "p", "in", "S", ")", "B">>),
          P("sc-while", TRUE, <<"while", "(", "S", ")", "B">>),
          P("sc-do-while", TRUE, <<"do", "B", "while", "(", "S", ")", ";">>),
          P("sc-if-else", TRUE, <<"if", "(", "S", ")", "B", "else", "B">>),
          P("sc-switch", TRUE, <<"switch", "(", "S", ")", "{", "case", "S", ":", "L", "default", ":", "L", "case", "S", ":", "L", "}">>),
          P("sc-try-catch-finally", TRUE, <<"try", "{", "L", "}", "catch", "{", "L", "}", "finally", "{", "L", "}">>),
          P("sc-try-catch-binding", TRUE, <<"try", "{", "L", "}", "catch", "(", "e", ")", "{", "L", "}">>),
          P("sc-try-catch-destructured", TRUE, <<"try", "{", "L", "}", "catch", "(", "{", "e", "=", "S", "}", ")", "{", "L", "}">>),
          P("sc-labelled-block", TRUE, <<"l", ":", "{", "L", "break", "l", ";", "L", "}">>),
          P("sc-labelled-for-continue", TRUE, <<"l", ":", "for", "(", ";", "S", ";", "S", ")", "{", "L", "continue", "l", ";", "}">>),
          P("sc-class-members", TRUE, <<"class", "C", "extends", "S", "{", "[", "S", "]", "=", "S", ";", "static", "{", "L", "}", "[", "S", "]", "(", ")", "{", "L", "}", "}">>),
          P("sc-class-static-fields", TRUE, <<"class", "C", "{", "static", "[", "S", "]", "=", "S", ";", "static", "{", "L", "}", "static", "s", "=", "S", ";", "}">>),
          P("sc-fn-defaults", TRUE, <<"function", "f", "(", "p", "=", "S", ",", "q", "=", "S", ")", "{", "L", "}">>),
          P("sc-arrow-defaults", TRUE, <<"x", "=", "(", "p", "=", "S", ")", "=>", "S", ";">>),
          P("sc-with", TRUE, <<"with", "(", "S", ")", "B">>),
          P("sc-var-2", TRUE, <<"var", "v", "=", "S", ",", "w", "=", "S", ";">>),
          P("sc-let-default", TRUE, <<"let", "[", "v", "=", "S", "]", "=", "S", ";">>),
          P("sc-cond", TRUE, <<"x", "=", "S", "?", "S", ":", "S", ";">>),
          P("sc-call", TRUE, <<"x", "=", "(", "S", ")", "(", "S", ",", "S", ")", ";">>),
          P("sc-assign-member", TRUE, <<"a", "[", "S", "]", "=", "S", ";">>),
          P("sc-template", TRUE, <<"x", "=", "`${", "S", "}${", "S", "}`", ";">>),
          P("sc-obj-methods", TRUE, <<"x", "=", "{", "[", "S", "]", "(", "p", "=", "S", ")", "{", "L", "}", ",", "get", "[", "S", "]", "(", ")", "{", "L", "}", "}", ";">>),
          P("sc-destructure-assign", TRUE, <<"[", "a", "[", "S", "]", "=", "S", "]", "=", "S", ";">>)}
         \cup (IF Full THEN
         {P("sc-for-var-in", TRUE, <<"for", "(", "var", "v", "in", "S", ")", "B">>),
          P("sc-for-of", TRUE, <<"for", "(", "v", "of", "S", ")", "B">>),
          P("sc-for-var-init-in", TRUE, <<"for", "(", "var", "v", "=", "S", "in", "S", ")", "B">>),
          P("sc-for-await-of", TRUE, <<"async", "function", "h", "(", ")", "{", "for", "await", "(", "v", "of", "S", ")", "B", "}">>),
          P("sc-try-finally", TRUE, <<"try", "{", "L", "}", "finally", "{", "L", "}">>),
          P("sc-label-label", TRUE, <<"l", ":", "m", ":", "B">>),
          P("sc-class-accessors", TRUE, <<"class", "C", "{", "get", "[", "S", "]", "(", ")", "{", "L", "}", "set", "[", "S", "]", "(", "v", "=", "S", ")", "{", "L", "}", "}">>),
          P("sc-fn-destructured-defaults", TRUE, <<"function", "f", "(", "{", "p", "=", "S", "}", ",", "[", "q", "=", "S", "]", ")", "{", "L", "}">>),
          P("sc-arrow-defaults-block", TRUE, <<"x", "=", "(", "p", "=", "S", ")", "=>", "{", "L", "}", ";">>),
          P("sc-nested-fn", TRUE, <<"function", "f", "(", ")", "{", "L", "function", "g", "(", ")", "{", "L", "}", "L", "}">>),
          P("sc-return-seq", TRUE, <<"function", "f", "(", ")", "{", "return", "S", ",", "S", ";", "}">>),
          P("sc-let-obj-computed", TRUE, <<"let", "{", "[", "S", "]", ":", "v", "=", "S", "}", "=", "S", ";">>),
          P("sc-seq", TRUE, <<"x", "=", "(", "S", ",", "S", ")", ";">>),
          P("sc-new", TRUE, <<"new", "(", "S", ")", "(", "S", ")", ";">>),
          P("sc-assign-compound-member", TRUE, <<"(", "S", ")", ".", "p", "??=", "S", ";">>),
          P("sc-tagged", TRUE, <<"x", "=", "(", "S", ")", "`${", "S", "}`", ";">>),
          P("sc-opt-chain", TRUE, <<"x", "=", "a", "?.", "[", "S", "]", "?.", "(", "S", ")", ";">>),
          P("sc-or", TRUE, <<"x", "=", "S", "||", "S", ";">>), P("sc-nullish", TRUE, <<"x", "=", "S", "??", "S", ";">>),
          P("sc-array-spread", TRUE, <<"x", "=", "[", "S", ",", "...", "S", "]", ";">>),
          P("sc-obj-computed-spread", TRUE, <<"x", "=", "{", "[", "S", "]", ":", "S", ",", "...", "S", "}", ";">>),
          P("sc-destructure-obj-assign", TRUE, <<"(", "{", "[", "S", "]", ":", "a", "[", "S", "]", "=", "S", "}", "=", "S", ")", ";">>),
          P("sc-yield", TRUE, <<"function", "*", "g", "(", ")", "{", "x", "=", "yield", "S", ",", "yield", "*", "S", ";", "}">>),
          P("sc-await", TRUE, <<"async", "function", "h", "(", ")", "{", "x", "=", "await", "S", ",", "await", "S", ";", "}">>),
          P("sc-export-default", TRUE, <<"export", "default", "S", ";">>),
          \* label sets and declaration scopes of nested scope-opening statements
          P("sc-label-label-continue", TRUE, <<"l", ":", "m", ":", "for", "(", ";", "S", ";", ")", "{", "L", "continue", "l", ";", "}">>),
          P("sc-static-block-same-label", TRUE, <<"l", ":", "{", "class", "C", "{", "static", "{", "l", ":", "{", "L", "break", "l", ";", "}", "}", "}", "}">>),
          P("sc-static-block-var-fn", TRUE, <<"class", "C", "{", "static", "{", "var", "v", "=", "S", ";", "function", "v", "(", ")", "{", "L", "}", "}", "}">>),
          P("sc-fn-var-fn", TRUE, <<"function", "f", "(", ")", "{", "var", "v", "=", "S", ";", "function", "v", "(", ")", "{", "L", "}", "}">>),
          P("sc-paren-string-then-with", TRUE, <<"(", "'use strict'", ")", ";", "with", "(", "S", ")", "B">>)} ELSE {})

NonTerminalsOf(g) ==
  CASE g = "asi" -> {"Prog", "Line", "NL", "E", "Cont", "Post", "Op", "InFn", "InGen", "InLoop", "Semi"}
    [] g = "regexdiv" -> {"Prog", "Before", "Slash", "Open", "Close", "Re"}
    [] g = "idents" -> {"Prog", "N"}
    [] g = "cover" -> {"Prog", "Items", "Item", "Props", "PTail", "ATail"}
    [] g = "annexb" -> {"Prog", "Fn"}
    [] g = "numsep" -> {"Prog", "Num", "NumDot", "NumGlue"}
    [] g = "escapes" -> {"Prog", "I", "K"}
    [] g = "class" -> {"Prog", "El", "Mods", "Name", "Kind", "FKind", "El2", "Sep", "B"}
    [] g = "forhead" -> ForHeadNT
    [] g = "inop" -> InOpNT
    [] g = "scopes" -> {"Prog", "S", "SH", "B", "BH", "L"}
ProdsRaw(nt) ==
  CASE Grammar = "asi" -> Asi(nt) [] Grammar = "regexdiv" -> ReDiv(nt) [] Grammar = "idents" -> Idents(nt) [] Grammar = "cover" -> Cover(nt)
    [] Grammar = "annexb" -> AnnexB(nt) [] Grammar = "numsep" -> NumSep(nt) [] Grammar = "escapes" -> Escapes(nt) [] Grammar = "class" -> ClassEl(nt)
    [] Grammar = "forhead" -> ForHead(nt) [] Grammar = "inop" -> InOp(nt) [] Grammar = "scopes" -> Scopes(nt)

(* the non-terminals reachable from Prog (with the alphabets selected by Full), and their productions, computed once *)
RECURSIVE Reach(_)
Reach(S) == LET T == S \cup {x \in NonTerminalsOf(Grammar) : \E nt \in S : \E p \in ProdsRaw(nt) : \E i \in 1..Len(p.rhs) : p.rhs[i] = x}
            IN IF T = S THEN S ELSE Reach(T)
NT == Reach({"Prog"})
ProdTable == [nt \in NT |-> ProdsRaw(nt)]
Prods(nt) == ProdTable[nt]

AllProds == UNION {Prods(nt) : nt \in NT}
RareNames == {p.name : p \in {q \in AllProds : q.rare}}
HeavyNames == {p.name : p \in {q \in AllProds : q.w > 0}}

(* index of the leftmost non-terminal, 0 if the form is terminal *)
Leftmost(f) == IF \E i \in 1..Len(f) : f[i] \in NT
               THEN CHOOSE i \in 1..Len(f) : f[i] \in NT /\ \A j \in 1..(i - 1) : f[j] \notin NT
               ELSE 0
NTerminals(f) == Cardinality({i \in 1..Len(f) : f[i] \notin NT})

ASSUME PrintT(<<"CASE", ToJson([grammar |-> Grammar, allprods |-> {p.name : p \in AllProds}, rareprods |-> RareNames])>>)

Init == form = <<"Prog">> /\ used = {} /\ cost = 0

Derive ==
  LET i == Leftmost(form) IN
  /\ i > 0
  /\ \E p \in Prods(form[i]) :
       /\ form' = SubSeq(form, 1, i - 1) \o p.rhs \o SubSeq(form, i + 1, Len(form))
       /\ used' = used \cup {p.name}
       /\ cost' = cost + p.w
       /\ cost' <= MaxCost
       /\ NTerminals(form') <= MaxLen

(* a terminal form is exported once (stuttering step with the side effect) *)
Export ==
  /\ Leftmost(form) = 0
  /\ form # <<"done">>
  /\ PrintT(<<"CASE", ToJson([grammar |-> Grammar, toks |-> form, prods |-> used, rare |-> used \cap RareNames,
                              heavy |-> used \cap HeavyNames, cost |-> cost])>>)
  /\ form' = <<"done">> /\ used' = {} /\ cost' = 0

Next == Derive \/ Export
Spec == Init /\ [][Next]_vars

(* model-level checks *)
TypeOK == /\ form \in Seq(STRING) /\ used \subseteq {p.name : p \in AllProds} /\ cost \in 0..MaxCost
Bounded == NTerminals(form) <= MaxLen
(* the weight bound is respected and a derivation that used no weighted production has weight 0 *)
CostSound == (used \cap HeavyNames = {}) => cost = 0
(* leftmost derivation: everything to the left of the leftmost non-terminal is terminal (by definition) and
   the set of used productions never shrinks along a derivation, nor does its weight *)
UsedGrows == [][form' # <<"done">> => (used \subseteq used' /\ cost <= cost')]_vars
(* every production of the sub-grammar is reachable: checked by the harness from the exported sets
   (per-production counts) and by TLC's action coverage *)
=============================================================================
