------------------------------- MODULE Rename -------------------------------
(***************************************************************************)
(* C15 - renaming never changes which declaration a name refers to.        *)
(*                                                                         *)
(* A behaviour of this specification builds one SCOPE TREE and then runs   *)
(* the renamers on it:                                                     *)
(*   phase "files":  files (module scopes that the linker merges into one  *)
(*          chunk scope), each with a wrapper kind: "none" (plain ES       *)
(*          module: its top-level symbols are top-level symbols of the     *)
(*          chunk), "lazy-*" (ES module wrapped in an __esm closure: its   *)
(*          top-level symbols are hoisted out of the closure, i.e. they    *)
(*          are top-level symbols of the chunk too) or "cjs-*" (CommonJS   *)
(*          module wrapped in a __commonJS closure: its module scope is a  *)
(*          function scope nested in the chunk scope; free names inside it *)
(*          still resolve through the chunk scope);                        *)
(*   phase "scopes": nested scopes (function, arrow, block, catch, for,    *)
(*          class-with-static-block, with), optionally with a direct eval  *)
(*          inside;                                                        *)
(*   phase "decls":  declarations (var hoisted out of blocks/catch/for,    *)
(*          let/const/class, function declarations incl. function-in-      *)
(*          block, parameters, catch parameters, the self-binding of a     *)
(*          named function/class expression);  Analyse derives the         *)
(*          bindings and the symbols;                                      *)
(*   phase "refs":   references (in a body, or in a parameter default,     *)
(*          i.e. in the parameter scope);  DoResolve applies               *)
(*          (a) Look, the language's resolution of a reference;            *)
(*   DoName runs (b) NumNames = esbuild's NumberRenamer and MinNames =     *)
(*          esbuild's MinifyRenamer (renamer.go) on the tree;              *)
(*   phase "done":   (c) BindingPreserved, NoTwoVisibleSameName,           *)
(*          NoReservedOrFreeCapture, PinnedUnchanged (and                  *)
(*          SourceTextPreserved) are evaluated for both namings, and       *)
(*          (d) Export prints the tree with the predictions as CASE record.*)
(* The intermediate results are kept in variables so that TLC computes     *)
(* each of them once per tree.  Trees are built in a canonical order, so   *)
(* TLC enumerates all trees up to the bounds (breadth-first) or samples    *)
(* them (-simulate with Planned = TRUE).                                   *)
(***************************************************************************)
EXTENDS Integers, Sequences, FiniteSets, TLC, Json, Randomization

CONSTANTS
  Names,        \* names that may be referenced
  DeclNames,    \* subset of names that may be declared
  ScopeKinds,   \* nested scope kinds: subset of {"fn","arrow","block","catch","for","cls","with"}
  DeclKinds,    \* subset of {"var","let","const","class","fun","param","cparam","self"}
  MaxFiles, MaxScopes, MaxDecls, MaxRefs,
  Sloppy,       \* TRUE: one sloppy script emitted without wrapper; FALSE: strict ES modules bundled into one chunk
  Wraps,        \* wrapper kinds files 2.. may have besides "none": subset of
                \* {"cjs-m", "cjs-e", "cjs-r", "lazy-r", "lazy-i"} (how the file becomes wrapped: module.exports / exports.x /
                \* no export syntax but require()d; ES module that is require()d / import()ed without splitting)
  ReserveWrappedFree,   \* TRUE: as designed and implemented (renameSymbolsInChunk passes the module scopes of ALL files
                        \* of the chunk to ComputeReservedNames); FALSE: free names used inside CommonJS-wrapped files are not reserved
  AllowEval,    \* direct eval may occur in a scope (Sloppy only)
  ParamRefs,    \* references may occur in parameter defaults
  ReservePinnedNested,  \* TRUE: the intended design (every pinned name is reserved);
                        \* FALSE: as implemented (ComputeReservedNames looks at module scopes and eval scopes only)
  MinSeq,       \* the minifier's name sequence (abstract: the real one is shuffled by character frequency)
  ExportCases,  \* TRUE: print a CASE record for every complete tree ...
  ExportOnlyFailing, \* ... but only for trees on which a renamer of the model fails (counterexamples to replay)
  Sample,       \* 0: every candidate is tried (enumeration); k > 0: at every step only k random
                \* candidates per choice are tried (cheap random walks with -simulate)
  Planned       \* TRUE: the sizes of the tree are chosen first (balanced sampling with -simulate);
                \* FALSE: a tree may be completed at any size (exhaustive enumeration)

VARIABLES scopes, decls, refs, phase, plan,
          an,    \* analysis of the declarations: bindings, symbols, markers
          res,   \* res[k]: the binding reference k resolves to
          nm     \* the two namings: [num, min, pinned, reserved]
vars == <<scopes, decls, refs, phase, plan, an, res, nm>>

ReservedWords == {"do", "if", "in"}   \* the keywords that occur in the minifier sequences
\* the whole alphabet (the order is only used to canonicalise references); it
\* contains the renamers' own products: minified names, numbered names, _a
Alpha == <<"a", "b", "e", "t", "$", "_", "x", "x2", "x3", "x22", "_a", "arguments", "eval", "y", "n", "r">>
NameIdx(n) == CHOOSE i \in 1..Len(Alpha) : Alpha[i] = n
\* abstract minifier sequences (cfg: MinSeq <- MinSeqA)
MinSeqA == <<"a", "e", "in", "x", "b", "t", "$", "c", "d", "f", "g", "h", "i", "j", "k", "l", "m", "o", "p", "q">>
MinSeqB == <<"e", "t", "a", "do", "$", "b", "x", "c", "d", "f", "g", "h", "i", "j", "k", "l", "m", "o", "p", "q">>
\* "_" first: the real minifier orders by character frequency and "_" is the most frequent
\* character of the marker programs (__L, __T)
MinSeqC == <<"_", "e", "a", "in", "t", "$", "b", "x", "c", "d", "f", "g", "h", "i", "j", "k", "l", "m", "o", "p", "q">>
ASSUME Names \subseteq {Alpha[i] : i \in 1..Len(Alpha)} /\ DeclNames \subseteq Names

NS == Len(scopes)
ND == Len(decls)
NR == Len(refs)
Kind(s) == scopes[s].kind
Par(s) == scopes[s].parent
IsCJS(w) == w \in {"cjs-m", "cjs-e", "cjs-r"}
ASSUME Wraps \subseteq {"cjs-m", "cjs-e", "cjs-r", "lazy-r", "lazy-i"}
FnLike(s) == Kind(s) \in {"file", "fn", "arrow", "cls"}     \* var-hoisting targets
BlockLike(s) == ~FnLike(s)

RECURSIVE Anc(_)
Anc(s) == IF s = 0 THEN {} ELSE {s} \cup Anc(Par(s))        \* s and its ancestors
RECURSIVE Hoist(_)
Hoist(s) == IF FnLike(s) THEN s ELSE Hoist(Par(s))
RECURSIVE FileOf(_)
FileOf(s) == IF Par(s) = 0 THEN s ELSE FileOf(Par(s))
CJSFile(s) == Kind(s) = "file" /\ IsCJS(scopes[s].wrap)     \* module scope = body of the __commonJS closure
InCJS(s) == CJSFile(FileOf(s))
Path(s, t) == Anc(s) \ Anc(Par(t))                          \* from s up to its ancestor t, inclusive
Strict(s) == ~Sloppy \/ \E u \in Anc(s) : Kind(u) = "cls"   \* class bodies are strict code
EvalTainted == UNION {Anc(s) : s \in {u \in 1..NS : scopes[u].ev}}
Min(S) == CHOOSE x \in S : \A y \in S : x <= y
Eager(S) == {x : x \in S}
Cand(S) == IF Sample = 0 \/ Cardinality(S) <= Sample THEN S ELSE RandomSubset(Sample, S)                                   \* enumerate a lazily represented set once

-----------------------------------------------------------------------------
(* Declarations and the bindings they create                                *)

\* function declarations are lexical in blocks and at the top level of an ES module
\* (the top level of a CommonJS module is a function body: var-like)
Lexical(d) == \/ d.kind \in {"let", "const", "class"}
              \/ d.kind = "fun" /\ (BlockLike(d.scope) \/ (Kind(d.scope) = "file" /\ ~Sloppy /\ ~CJSFile(d.scope)))
VarPath(d) == Path(d.scope, Hoist(d.scope))                 \* scopes a hoisted var passes through

\* would two declarations of the same name be an early error?
Conflict(d, e) ==
  /\ d.name = e.name
  /\ \/ d.scope = e.scope /\ Lexical(d) /\ e.kind # "self"
     \/ d.scope = e.scope /\ Lexical(e) /\ d.kind # "self"
     \/ d.scope = e.scope /\ d.kind = e.kind /\ d.kind \in {"param", "cparam", "self"}
     \/ d.kind = "var" /\ Lexical(e) /\ e.scope \in VarPath(d)
     \/ e.kind = "var" /\ Lexical(d) /\ d.scope \in VarPath(e)
     \* for (var x of ...) inside catch (x) is an early error (B.3.5 excludes for-of)
     \/ d.kind = "var" /\ Kind(d.scope) = "for" /\ e.kind = "cparam" /\ e.scope \in VarPath(d)
     \/ e.kind = "var" /\ Kind(e.scope) = "for" /\ d.kind = "cparam" /\ d.scope \in VarPath(e)

KindAllowed(k, s) ==
  CASE k = "param"  -> Kind(s) \in {"fn", "arrow"}
    [] k = "cparam" -> Kind(s) = "catch" /\ ~\E i \in 1..ND : decls[i].scope = s /\ decls[i].kind = "cparam"
    [] k = "self"   -> Kind(s) \in {"fn", "cls"} /\ ~\E i \in 1..ND : decls[i].scope = s /\ decls[i].kind = "self"
    [] OTHER        -> IF Kind(s) = "for"
                         THEN k \in {"let", "var"} /\ \A i \in 1..ND : decls[i].scope = s => decls[i].kind = k
                         ELSE TRUE

\* "arguments" cannot be bound in strict code; a class is strict code including its name
NameAllowed(n, s, k) ==
  /\ n \in DeclNames
  /\ (n = "arguments") => (~Strict(s) /\ k # "class" /\ ~(k = "self" /\ Kind(s) = "cls"))

\* B.3.3: a function declared in a block of sloppy code also creates a var
\* binding in the enclosing function unless "var f" would be an early error
\* there or f is a parameter name.
AnnexB(i) ==
  LET d == decls[i] T == Hoist(d.scope) IN
  /\ d.kind = "fun" /\ BlockLike(d.scope) /\ ~Strict(d.scope)
  /\ \A j \in 1..ND : j # i =>
        LET e == decls[j] IN
        ~(/\ e.name = d.name
          /\ \/ Lexical(e) /\ e.scope \in Path(d.scope, T) /\ (e.scope # d.scope)
             \/ e.kind = "param" /\ e.scope = T)

B(s, lvl, n) == [s |-> s, lvl |-> lvl, n |-> n]
Free(n) == B(0, "g", n)
Args(s) == B(s, "a", "arguments")                           \* the implicit arguments object of a function
IsFree(b) == b.lvl = "g"
IsArgs(b) == b.lvl = "a"

DeclBinds(i) ==
  LET d == decls[i] IN
  CASE d.kind = "var"  -> {B(Hoist(d.scope), "m", d.name)}
    [] d.kind = "fun"  -> IF AnnexB(i) THEN {B(d.scope, "m", d.name), B(Hoist(d.scope), "m", d.name)}
                          ELSE {B(d.scope, "m", d.name)}
    [] d.kind = "self" -> {B(d.scope, "s", d.name)}
    [] OTHER           -> {B(d.scope, "m", d.name)}

(* (a) Resolution.  BS is a set of records [s, lvl, n, par, o]: in scope s  *)
(* at level lvl the name n is bound to (original binding) o; par: it is a   *)
(* parameter.  po: the reference is in a parameter default of s, where only *)
(* the parameters of s (and the levels outside) are visible.                *)
(* merged = FALSE: the input, every file is a module of its own (past the   *)
(* file: a free name).  merged = TRUE: the output chunk, where the top-     *)
(* level bindings of all files that are not CommonJS-wrapped live in one    *)
(* chunk scope that every file (also the body of a __commonJS closure)      *)
(* sees past its own scope.                                                 *)
RECURSIVE LookG(_, _, _, _, _)
LookG(BS, n, s, po, merged) ==
  IF s = 0 THEN
       LET ch == {b \in BS : b.lvl = "m" /\ b.n = n /\ Kind(b.s) = "file" /\ ~CJSFile(b.s)} IN
       IF merged /\ ch # {} THEN (CHOOSE b \in ch : TRUE).o ELSE Free(n)
  ELSE LET m == {b \in BS : b.s = s /\ b.lvl = "m" /\ b.n = n /\ (po => b.par)}
           sf == {b \in BS : b.s = s /\ b.lvl = "s" /\ b.n = n} IN
       IF m # {} THEN (CHOOSE b \in m : TRUE).o
       ELSE IF n = "arguments" /\ Kind(s) = "fn" THEN Args(s)
       ELSE IF sf # {} THEN (CHOOSE b \in sf : TRUE).o
       ELSE LookG(BS, n, Par(s), FALSE, merged)
Look(BS, n, s, po) == LookG(BS, n, s, po, FALSE)
LookOut(BS, n, s, po) == LookG(BS, n, s, po, TRUE)

\* One symbol per binding, except that a simple catch parameter and a var of
\* the same name declared below it are one symbol (esbuild merges them; they
\* need the same name because "var x = v" there assigns the parameter, B.3.5).
SymOfB(b, db) ==
  IF \E i \in 1..ND : decls[i].kind = "cparam" /\ b \in db[i]
  THEN IF \E j \in 1..ND : decls[j].kind = "var" /\ decls[j].name = b.n /\ b.s \in VarPath(decls[j])
       THEN B(Hoist(b.s), "m", b.n) ELSE b
  ELSE b

RECURSIVE SeqOf(_, _, _)     \* <<f(1), ..., f(n)>> built eagerly
SeqOf(f(_), i, n) == IF i > n THEN <<>> ELSE <<f(i)>> \o SeqOf(f, i + 1, n)

SetToSeq(S, key(_)) ==
  LET RECURSIVE F(_)
      F(T) == IF T = {} THEN <<>>
              ELSE LET x == CHOOSE x \in T : \A y \in T : key(x) <= key(y) IN <<x>> \o F(T \ {x})
  IN F(S)

\* top-level symbols of the chunk (NumberRenamer: the root scope).  The module
\* scope of a CommonJS-wrapped file is a nested scope below the root scope.
TopLevelB(y) == Kind(y.s) = "file" /\ ~CJSFile(y.s)
\* MinifyRenamer: nested-scope slots are assigned per file at parse time, when the
\* wrapper kind is not known: every module-level symbol gets a top-level slot
FileLevel(y) == Kind(y.s) = "file"
\* levels: every scope has a self level (the name of a named function/class
\* expression) enclosing its main level
LvlRank(y) == 2 * y.s + (IF y.lvl = "s" THEN 0 ELSE 1)

Analysis ==
  LET db    == SeqOf(DeclBinds, 1, ND)
      binds == UNION {db[i] : i \in 1..ND}
      obs   == {[s |-> b.s, lvl |-> b.lvl, n |-> b.n, o |-> b,
                 par |-> \E i \in 1..ND : decls[i].kind = "param" /\ b \in db[i]] : b \in binds}
      \* the binding a declaration's initialiser writes to
      wr(i) == IF decls[i].kind = "var" THEN {Look(obs, decls[i].name, decls[i].scope, FALSE)} ELSE db[i]
      writes == SeqOf(wr, 1, ND)
      \* declarations whose initialisers write a common binding get the same
      \* marker value in the rendered program, so that the value a reference
      \* reads does not depend on the evaluation order
      RECURSIVE Closure(_)
      Closure(S) == LET T == S \cup {j \in 1..ND : \E i \in S : writes[i] \cap writes[j] # {}} IN
                    IF T = S THEN S ELSE Closure(T)
      mk(i) == Min(Closure({i}))
      symof == [b \in binds |-> SymOfB(b, db)]
      syms  == {symof[b] : b \in binds}
      \* creation order of symbols (esbuild: inner index = order of declaration)
      ord(y) == Min(UNION {{2 * i + (IF B(decls[i].scope, "m", decls[i].name) = b \/ decls[i].kind = "self" THEN 0 ELSE 1)
                             : b \in {b \in db[i] : symof[b] = y}} : i \in 1..ND})
      ordf  == [y \in syms |-> ord(y)]
      key(y) == (IF TopLevelB(y) THEN 0 ELSE 100000) + 1000 * LvlRank(y) + ordf[y]
  IN [ db |-> db, binds |-> binds, obs |-> obs, writes |-> writes, mark |-> SeqOf(mk, 1, ND),
       symof |-> symof, ord |-> ordf,
       symseq |-> SetToSeq(syms, key) ]      \* processing order of both renamers: enclosing levels first

Syms == {an.symseq[k] : k \in 1..Len(an.symseq)}
SymOf(b) == an.symof[b]
Ord(y) == an.ord[y]
TopLevel(y) == TopLevelB(y)
Writers(b) == {i \in 1..ND : b \in an.writes[i]}

\* z is declared in a level that strictly encloses the level of y
Encloses(z, y) ==
  \/ z.s \in Anc(y.s) /\ z.s # y.s
  \/ z.s = y.s /\ z.lvl = "s" /\ y.lvl = "m"
  \/ TopLevel(z) /\ ~TopLevel(y)          \* all module scopes of the chunk are merged
SameLevel(z, y) == (z.s = y.s /\ z.lvl = y.lvl) \/ (TopLevel(z) /\ TopLevel(y))

-----------------------------------------------------------------------------
(* After resolution: what is pinned, what is reserved                       *)

FreeNames == {refs[k].name : k \in {k \in 1..NR : IsFree(res[k])}}
\* the free names ComputeReservedNames collects
ReservedFreeNames == {refs[k].name : k \in {k \in 1..NR : IsFree(res[k]) /\ (ReserveWrappedFree \/ ~InCJS(refs[k].scope))}}
RefsTo(y) == {k \in 1..NR : ~IsFree(res[k]) /\ ~IsArgs(res[k]) /\ SymOf(res[k]) = y}
ThroughWith(k) ==                         \* the lookup of reference k passes a with scope
  \E w \in Anc(refs[k].scope) \ (IF res[k].s = 0 THEN {} ELSE Anc(res[k].s)) : Kind(w) = "with"
PinnedByWith(y) ==
  \/ \E k \in RefsTo(y) : ThroughWith(k)
  \/ \E i \in 1..ND : /\ decls[i].kind = "var" /\ SymOf(B(Hoist(decls[i].scope), "m", decls[i].name)) = y
                      /\ \E w \in VarPath(decls[i]) : Kind(w) = "with"
PinnedDef(y) ==
  \/ Sloppy /\ TopLevel(y)                \* a script emitted without wrapper: top-level names are observable
  \/ y.s \in EvalTainted                  \* direct eval can see it
  \/ PinnedByWith(y)

(* (b1) NumberRenamer: keep the original name if it is unused in this and   *)
(* every enclosing level and not reserved, else append 2, 3, ... until that *)
(* holds.  All top-level symbols of all files are named first (root scope). *)
RECURSIVE FirstUnused(_, _, _)
FirstUnused(n, k, U) == IF (n \o ToString(k)) \notin U THEN n \o ToString(k) ELSE FirstUnused(n, k + 1, U)
FindUnused(n, U) == IF n \notin U THEN n ELSE FirstUnused(n, 2, U)

Naming ==
  LET seq      == an.symseq
      pinned   == Eager({y \in Syms : PinnedDef(y)})
      free     == Eager(FreeNames)
      reserved == ReservedWords \cup Eager(ReservedFreeNames) \cup
                  {y.n : y \in {y \in pinned : TopLevel(y) \/ y.s \in EvalTainted \/ ReservePinnedNested}}
      RECURSIVE NumFold(_, _)
      NumFold(k, acc) ==      \* acc: function from the symbols processed so far to their names
        IF k > Len(seq) THEN acc
        ELSE LET y == seq[k]
                 \* names of pinned symbols are not recorded in the nested scopes (assignName
                 \* returns early); they are avoided only when they are in the reserved set
                 used == reserved \cup {acc[z] : z \in {z \in DOMAIN acc : (Encloses(z, y) \/ SameLevel(z, y)) /\ z \notin pinned}}
                 name == IF y \in pinned THEN y.n ELSE FindUnused(y.n, used)
             IN NumFold(k + 1, acc @@ (y :> name))
      (* (b2) MinifyRenamer.  Nested symbols: slot = number of unpinned symbols in *)
      (* the enclosing nested levels + position in the own level; symbols of      *)
      (* unrelated scopes (and of different files) share slots.  Top-level        *)
      (* symbols: one slot each after the maximum nested slot count of all files. *)
      (* Names are handed out by decreasing use count, skipping reserved names.   *)
      unpinned == Eager(Syms \ pinned)
      nested   == Eager({y \in unpinned : ~FileLevel(y)})
      nslot    == [y \in nested |-> Cardinality({z \in nested : Encloses(z, y) \/ (SameLevel(z, y) /\ Ord(z) < Ord(y))})]
      ncount   == IF nested = {} THEN 0 ELSE 1 + (CHOOSE m \in {nslot[y] : y \in nested} : \A y \in nested : nslot[y] <= m)
      uses     == [y \in Syms |-> 1 + Cardinality(RefsTo(y))]
      topkey(y) == 100000 * y.s + 1000 * (99 - uses[y]) + Ord(y)    \* per file by count, then order
      topseq   == SetToSeq({y \in unpinned : FileLevel(y)}, topkey)
      slot     == [y \in unpinned |-> IF FileLevel(y) THEN ncount + (CHOOSE k \in 1..Len(topseq) : topseq[k] = y) - 1 ELSE nslot[y]]
      nslots   == ncount + Len(topseq)
      RECURSIVE Sum(_)
      Sum(T)   == IF T = {} THEN 0 ELSE LET x == CHOOSE x \in T : TRUE IN uses[x] + Sum(T \ {x})
      scount   == [i \in 0..(nslots - 1) |-> Sum({y \in unpinned : slot[y] = i})]
      sorder   == SetToSeq(0..(nslots - 1), LAMBDA i : 1000 * (999 - scount[i]) + i)
      RECURSIVE MinFold(_, _, _)
      MinFold(k, next, acc) ==   \* acc: slot -> name
        IF k > Len(sorder) THEN acc
        ELSE IF MinSeq[next] \in reserved THEN MinFold(k, next + 1, acc)
        ELSE MinFold(k + 1, next + 1, acc @@ (sorder[k] :> MinSeq[next]))
      snames   == MinFold(1, 1, <<>>)
  IN [ pinned |-> pinned, reserved |-> reserved, free |-> free,
       num |-> NumFold(1, <<>>),
       min |-> [y \in Syms |-> IF y \in pinned THEN y.n ELSE snames[slot[y]]],
       slot |-> [y \in Syms |-> IF y \in pinned THEN -1 ELSE slot[y]] ]

Pinned(y) == y \in nm.pinned
NumNames == nm.num
MinNames == nm.min

-----------------------------------------------------------------------------
(* (c) The properties, for a final naming f : Syms -> names                 *)

RenamedBS(f) == {[b EXCEPT !.n = f[SymOf(b.o)]] : b \in an.obs}
NewRefName(f, k) == IF IsFree(res[k]) \/ IsArgs(res[k]) THEN refs[k].name ELSE f[SymOf(res[k])]

BindingPreserved(f) ==
  LET bs == RenamedBS(f) IN
  \A k \in 1..NR : LookOut(bs, NewRefName(f, k), refs[k].scope, refs[k].pos = "param") = res[k]

\* a reference seen through "with" or evaluated by direct eval keeps its source text
SourceTextPreserved(f) ==
  \A k \in 1..NR : (ThroughWith(k) \/ scopes[refs[k].scope].ev) => NewRefName(f, k) = refs[k].name

NoTwoVisibleSameName(f) ==
  \A y, z \in Syms : (y # z /\ SameLevel(y, z)) => f[y] # f[z]

\* no new name is a reserved word, and no free (global) reference - nor a read
\* of the implicit arguments object - is captured by a renamed declaration
\* that is visible where the reference occurs
NoReservedOrFreeCapture(f) ==
  LET bs == RenamedBS(f) IN
  /\ \A y \in Syms : f[y] \notin ReservedWords
  /\ \A k \in 1..NR : (IsFree(res[k]) \/ IsArgs(res[k])) =>
        LookOut(bs, refs[k].name, refs[k].scope, refs[k].pos = "param") = res[k]

PinnedUnchanged(f) == \A y \in Syms : Pinned(y) => f[y] = y.n

Failing(f) ==
  (IF BindingPreserved(f) THEN {} ELSE {"BindingPreserved"}) \cup
  (IF SourceTextPreserved(f) THEN {} ELSE {"SourceTextPreserved"}) \cup
  (IF NoTwoVisibleSameName(f) THEN {} ELSE {"NoTwoVisibleSameName"}) \cup
  (IF NoReservedOrFreeCapture(f) THEN {} ELSE {"NoReservedOrFreeCapture"}) \cup
  (IF PinnedUnchanged(f) THEN {} ELSE {"PinnedUnchanged"})

Done == phase = "done"
NumBindingPreserved        == Done => BindingPreserved(NumNames)
NumSourceTextPreserved     == Done => SourceTextPreserved(NumNames)
NumNoTwoVisibleSameName    == Done => NoTwoVisibleSameName(NumNames)
NumNoReservedOrFreeCapture == Done => NoReservedOrFreeCapture(NumNames)
NumPinnedUnchanged         == Done => PinnedUnchanged(NumNames)
MinBindingPreserved        == Done => BindingPreserved(MinNames)
MinSourceTextPreserved     == Done => SourceTextPreserved(MinNames)
MinNoTwoVisibleSameName    == Done => NoTwoVisibleSameName(MinNames)
MinNoReservedOrFreeCapture == Done => NoReservedOrFreeCapture(MinNames)
MinPinnedUnchanged         == Done => PinnedUnchanged(MinNames)

-----------------------------------------------------------------------------
(* Growing the tree                                                         *)

Plans == IF Planned THEN [s : 1..MaxScopes, d : 1..MaxDecls, r : 1..MaxRefs]
         ELSE {[s |-> MaxScopes, d |-> MaxDecls, r |-> MaxRefs]}
Init ==
  /\ plan \in Plans
  /\ \E nf \in 1..MaxFiles : nf <= plan.s /\ scopes = [i \in 1..nf |-> [kind |-> "file", parent |-> 0, ev |-> FALSE, wrap |-> "none"]]
  /\ decls = <<>> /\ refs = <<>> /\ phase = "files"
  /\ an = <<>> /\ res = <<>> /\ nm = <<>>

\* the wrapper kinds of the files: file 1 (the entry point) is a plain ES module;
\* either all files are plain or (sampling: a few of) the other assignments
WrapChoices == {w \in [1..NS -> Wraps \cup {"none"}] : w[1] = "none"}
AllNone == [i \in 1..NS |-> "none"]
ChooseWraps ==
  /\ phase = "files"
  /\ \E w \in {AllNone} \cup Cand(WrapChoices \ {AllNone}) :
        scopes' = [i \in 1..NS |-> [scopes[i] EXCEPT !.wrap = w[i]]]
  /\ phase' = "scopes"
  /\ UNCHANGED <<decls, refs, plan, an, res, nm>>

AddScope ==
  /\ phase = "scopes" /\ NS < plan.s
  /\ \E k \in Cand(ScopeKinds), p \in Cand(1..NS), e \in (IF AllowEval THEN BOOLEAN ELSE {FALSE}) :
        /\ p >= scopes[NS].parent                        \* canonical numbering: parents non-decreasing
        /\ (k = "with") => (~Strict(p) /\ ~e)
        /\ scopes' = Append(scopes, [kind |-> k, parent |-> p, ev |-> e, wrap |-> ""])
  /\ UNCHANGED <<decls, refs, phase, plan, an, res, nm>>

AddDecl ==
  /\ phase \in {"scopes", "decls"} /\ ND < plan.d /\ (Planned => NS = plan.s)
  /\ \E s \in Cand(1..NS), k \in Cand(DeclKinds), n \in Cand(DeclNames) \cup Cand({decls[i].name : i \in 1..ND}) :
        LET d == [scope |-> s, kind |-> k, name |-> n] IN
        /\ (ND > 0) => s >= decls[ND].scope              \* canonical order: by scope
        /\ (Kind(s) = "with") => k \in {"var", "let", "const", "class", "fun"}
        \* excluded: a function in a block below "with" (B.3.3 initialises the var binding
        \* directly; esbuild's rewrite "var f = f2" assigns through the with object - not a renaming matter)
        /\ (k = "fun" /\ BlockLike(s)) => ~\E w \in VarPath(d) : Kind(w) = "with"
        /\ KindAllowed(k, s) /\ NameAllowed(n, s, k)
        /\ (k \in {"param", "cparam", "self"}) =>        \* headers first within a scope
              \A i \in 1..ND : decls[i].scope = s => decls[i].kind \in {"param", "cparam", "self"}
        /\ \A i \in 1..ND : ~Conflict(d, decls[i])
        /\ decls' = Append(decls, d)
  /\ phase' = "decls"
  /\ UNCHANGED <<scopes, refs, plan, an, res, nm>>

Analyse ==
  /\ phase = "decls" /\ (Planned => ND = plan.d)
  /\ an' = Analysis /\ phase' = "refs"
  /\ UNCHANGED <<scopes, decls, refs, plan, res, nm>>

RefAllowed(s, n, pos) ==
  /\ (pos = "param") => (ParamRefs /\ Kind(s) \in {"fn", "arrow"})
  \* "arguments" is an early error in a class static block (also through arrows);
  \* at the top level of a file that is wrapped in a closure (__commonJS, __esm - also
  \* a plain file that a wrapped file loads) it is the closure's own arguments object:
  \* not generated when any file of the chunk is wrapped (a wrapping, not a renaming matter)
  /\ (n = "arguments") =>
        LET RECURSIVE Owner(_)
            Owner(u) == IF Kind(u) \in {"fn", "cls", "file"} THEN u ELSE Owner(Par(u))
        IN /\ Kind(Owner(s)) # "cls"
           /\ ~(Kind(Owner(s)) = "file" /\ \E f \in 1..NS : Kind(f) = "file" /\ scopes[f].wrap # "none")

AddRef ==
  /\ phase = "refs" /\ NR < plan.r
  /\ \E s \in Cand(1..NS), n \in Cand(Names) \cup Cand({decls[i].name : i \in 1..ND}), pos \in {"body", "param"} :
        /\ RefAllowed(s, n, pos)
        /\ (NR > 0) => \/ s > refs[NR].scope
                       \/ s = refs[NR].scope /\ NameIdx(n) >= NameIdx(refs[NR].name)
        /\ refs' = Append(refs, [scope |-> s, name |-> n, pos |-> pos])
  /\ UNCHANGED <<scopes, decls, phase, plan, an, res, nm>>

DoResolve ==
  /\ phase = "refs" /\ (Planned => NR = plan.r)
  /\ res' = LET f(k) == Look(an.obs, refs[k].name, refs[k].scope, refs[k].pos = "param") IN SeqOf(f, 1, NR)
  /\ phase' = "resolved"
  /\ UNCHANGED <<scopes, decls, refs, plan, an, nm>>

DoName ==
  /\ phase = "resolved"
  /\ nm' = Naming /\ phase' = "done"
  /\ UNCHANGED <<scopes, decls, refs, plan, an, res>>

Next == ChooseWraps \/ AddScope \/ AddDecl \/ Analyse \/ AddRef \/ DoResolve \/ DoName
Spec == Init /\ [][Next]_vars

TypeOK ==
  /\ \A s \in 1..NS : scopes[s].parent < s
  /\ \A i \in 1..ND : decls[i].scope \in 1..NS
  /\ \A k \in 1..NR : refs[k].scope \in 1..NS

-----------------------------------------------------------------------------
(* (d) Export of complete trees with the specification's predictions        *)

SymIndex(y) == CHOOSE k \in 1..Len(an.symseq) : an.symseq[k] = y
\* per reference: index of the symbol it resolves to (0 = free, -1 = implicit arguments)
ResOf(k) == IF IsFree(res[k]) THEN 0 ELSE IF IsArgs(res[k]) THEN -1 ELSE SymIndex(SymOf(res[k]))
\* per reference: the marker the deferred read must see (0 = the free global
\* of that name, -1 = the arguments object of scope argsOf, -2 = undefined:
\* no initialiser writes the binding)
ValOf(k) == IF IsFree(res[k]) THEN 0 ELSE IF IsArgs(res[k]) THEN -1
            ELSE IF Writers(res[k]) = {} THEN -2 ELSE an.mark[Min(Writers(res[k]))]
ArgsOf(k) == IF IsArgs(res[k]) THEN res[k].s ELSE 0

Coincidences ==
  (IF \E y, z \in Syms : y # z /\ y.n = z.n /\ Encloses(z, y) /\ ~(TopLevel(y) /\ TopLevel(z)) THEN {"shadow"} ELSE {}) \cup
  (IF \E y, z \in Syms : y # z /\ y.n = z.n /\ TopLevel(y) /\ TopLevel(z) THEN {"dup-top-level"} ELSE {}) \cup
  (IF \E y \in Syms : NumNames[y] # y.n THEN {"numbered"} ELSE {}) \cup
  (IF \E y, z \in Syms : y # z /\ NumNames[z] # z.n /\ y.n = NumNames[z] THEN {"generated-number-collision"} ELSE {}) \cup
  (IF \E y, z \in Syms : y # z /\ ~Pinned(z) /\ y.n = MinNames[z] THEN {"minified-name-declared"} ELSE {}) \cup
  (IF \E i \in 1..Len(MinSeq) : i <= Cardinality(Syms) + 1 /\ MinSeq[i] \in nm.free THEN {"minified-name-free"} ELSE {}) \cup
  (IF \E y \in Syms : y.n \in nm.free THEN {"free-vs-declared"} ELSE {}) \cup
  (IF \E k \in 1..NR : IsFree(res[k]) /\ InCJS(refs[k].scope) THEN {"free-in-commonjs-file"} ELSE {}) \cup
  (IF \E y, z \in Syms : CJSFile(y.s) /\ TopLevel(z) /\ y.n = z.n THEN {"commonjs-vs-chunk-level"} ELSE {})

Record ==
  [ sloppy |-> Sloppy,
    scopes |-> scopes, decls |-> decls, refs |-> refs,
    mark   |-> an.mark,
    annexb |-> [i \in 1..ND |-> AnnexB(i)],
    res    |-> [k \in 1..NR |-> ResOf(k)],
    val    |-> [k \in 1..NR |-> ValOf(k)],
    argsOf |-> [k \in 1..NR |-> ArgsOf(k)],
    viaWith |-> [k \in 1..NR |-> ThroughWith(k)],
    syms   |-> [k \in 1..Len(an.symseq) |->
                  LET y == an.symseq[k] IN
                  [s |-> y.s, lvl |-> y.lvl, n |-> y.n, pinned |-> Pinned(y), top |-> TopLevel(y),
                   pinNotReserved |-> Pinned(y) /\ y.n \notin nm.reserved,
                   \* the marker the binding holds when the program has finished (-2: no initialiser writes it)
                   val |-> IF Writers(y) = {} THEN -2 ELSE an.mark[Min(Writers(y))],
                   slot |-> nm.slot[y], num |-> NumNames[y], min |-> MinNames[y]]],
    free   |-> nm.free,
    coinc  |-> Coincidences,
    failNum |-> Failing(NumNames), failMin |-> Failing(MinNames) ]

Export ==
  (Done /\ ExportCases /\ (ExportOnlyFailing => (Failing(NumNames) \cup Failing(MinNames)) # {}))
     => PrintT(<<"CASE", ToJson(Record)>>)
=============================================================================
