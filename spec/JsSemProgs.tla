------------------------------ MODULE JsSemProgs -----------------------------
(***************************************************************************)
(* C03 scenario generator over JsSem: which programs and environments are  *)
(* enumerated, what the semantics predicts for them, and TLC checks on the *)
(* model (totality / determinism of the evaluation, pattern classes are    *)
(* inhabited).                                                             *)
(*                                                                         *)
(*  "d1"   EXHAUSTIVE: every unary/binary/logical/conditional/comma/       *)
(*         assignment/member operator over probe | parameter | literal     *)
(*         operands, in return / unused / test position                    *)
(*  "skel" EXHAUSTIVE statement skeletons: if-chains with jumps, loops,    *)
(*         switch (fallthrough, default positions), try/catch/finally,     *)
(*         labelled blocks and loops, declarations followed by one use in  *)
(*         each operand position, typeof guards, optional chains           *)
(*  "cx"   CONTEXT x OPERAND-KIND pairs: 30 one-hole contexts x every      *)
(*         operator class as the operand, literal slots over a typed       *)
(*         table; a covering sample (every pair) + a seeded share of the   *)
(*         full product                                                    *)
(*  "xc"   constants bound OUTSIDE the function (another module's const,   *)
(*         an enum member, a define key) meeting side-effecting operands   *)
(*         in the same contexts                                            *)
(*  "rnd"  a SEEDED slice of the expression trees of depth <= Depth over   *)
(*         all operators: the grammar derivation is driven by a            *)
(*         Wichmann-Hill generator seeded with (Seed, i)                   *)
(* Environments: an orthogonal array of strength 2 over the value grid:    *)
(* row (i, j) gives factor c the value Grid[(i + c*j) mod Q]; Q prime, so  *)
(* every PAIR of factors takes every pair of values in exactly one row.    *)
(***************************************************************************)
EXTENDS JsSem, Json, SequencesExt

CONSTANTS Q,        \* 13 | 23 : size of the environment value grid (prime)
          Seed,     \* seed of the "rnd" slice and of the environment rows evaluated by the spec
          Depth,    \* depth of random expression trees
          DoD1, DoSkel    \* BOOLEAN: include the exhaustive families

(* ------------------------------------------------------------------ *)
(* environments                                                       *)
(* ------------------------------------------------------------------ *)
G13 == << Undef, Null, True, False, PZero, NZero, Num(1), NaN, Str(<<>>), Str(<<97>>),
          Obj(2), Big(1, <<1>>), IntV(1, P2_31) >>
G23 == << Undef, Null, True, False, PZero, NZero, Num(1), Num(-1), Num(2), NaN, PInf, NInf,
          IntV(1, P2_31), IntV(1, NSub(P2_32, One)), IntV(1, P2_53),
          Str(<<>>), Str(<<48>>), Str(<<97>>), Str(<<49, 48>>), Obj(1), Obj(2), Obj(3), Big(1, <<1>>) >>
EnvGrid == IF Q = 13 THEN G13 ELSE G23
ASSUME Len(EnvGrid) = Q /\ EnvGrid[1] = Undef

\* factor columns: probes 1..7 -> 0..6, a -> 7, b -> 8, G -> 9, o.k -> 10 (probes 8, 9 return undefined)
Cell(i, j, c) == ((i + c * j) % Q) + 1                   \* index into EnvGrid
RowIdx(i, j) == [p  |-> [n \in 1..NProbes |-> IF n <= 7 THEN Cell(i, j, n - 1) ELSE 1],
                 a  |-> Cell(i, j, 7), b |-> Cell(i, j, 8),
                 g  |-> IF Cell(i, j, 9) = 1 THEN 0 ELSE Cell(i, j, 9),      \* 0: G undeclared
                 ok |-> IF Cell(i, j, 10) = 1 THEN 0 ELSE Cell(i, j, 10)]    \* 0: o.k absent
EnvOf(i, j) == LET r == RowIdx(i, j)
               IN [pv |-> [n \in 1..NProbes |-> EnvGrid[r.p[n]]], a |-> EnvGrid[r.a], b |-> EnvGrid[r.b],
                   g  |-> IF r.g = 0 THEN Undecl ELSE EnvGrid[r.g],
                   ok |-> IF r.ok = 0 THEN Absent ELSE EnvGrid[r.ok]]

(* ------------------------------------------------------------------ *)
(* Wichmann-Hill generator on small integers (TLC ints are 32-bit)    *)
(* ------------------------------------------------------------------ *)
RngNext(r) == << (171 * r[1]) % 30269, (172 * r[2]) % 30307, (170 * r[3]) % 30323 >>
RngInit(seed, ix) ==
  RngNext(RngNext(RngNext(
    << 1 + ((((seed % 30268) * 7919) + ((ix % 30268) * 733)) % 30268),
       1 + ((((seed % 65521) * 31) + ((ix % 1000003) * 17) + 12345) % 30306),
       1 + (((ix \div 30268) + ((seed % 65521) * 13) + 7) % 30322) >>)))
RngOut(r) == r[1] + r[2] + r[3]
\* generator state: rng + number of probes used so far
Draw(g, k) == [i |-> (RngOut(g.r) % k) + 1, g |-> [g EXCEPT !.r = RngNext(@)]]

(* ------------------------------------------------------------------ *)
(* random expression trees: all operators equally likely              *)
(* ------------------------------------------------------------------ *)
UnOpSeq  == << "-", "+", "!", "~", "typeof", "void" >>
BinOpSeq == << "+", "-", "*", "/", "%", "**", "<<", ">>", ">>>", "&", "|", "^",
               "==", "!=", "===", "!==", "<", ">", "<=", ">=" >>
LogOpSeq == << "&&", "||", "??" >>
AsgOpSeq == << "=", "+=", "-=", "*=", "/=", "%=", "**=", "<<=", ">>=", ">>>=", "&=", "|=", "^=", "&&=", "||=", "??=" >>
MaxP == 7
NProds == 6 + 20 + 3 + 16 + 7       \* + cond comma probeA mem optmem del idx

T(t, g) == [t |-> t, g |-> g]

RECURSIVE GenE(_, _)
GenLeaf(g) ==
  LET c == Draw(g, 20)
  IN IF c.i <= 8 /\ c.g.np < MaxP THEN T(EProbe(c.g.np + 1), [c.g EXCEPT !.np = @ + 1])
     ELSE IF c.i <= 10 THEN T(EVar("a"), c.g)
     ELSE IF c.i <= 12 THEN T(EVar("b"), c.g)
     ELSE IF c.i = 13 THEN T(EVar("x"), c.g)
     ELSE IF c.i = 14 THEN T(EGlob, c.g)
     ELSE IF c.i = 15 THEN T(EMem(ERec), c.g)
     ELSE LET l == Draw(c.g, Len(Grid)) IN T(ELit(Grid[l.i]), l.g)

GenTarget(g) ==       \* assignment target
  LET c == Draw(g, 3)
  IN IF c.i = 1 THEN T(EVar("x"), c.g)
     ELSE IF c.i = 2 THEN T(EMem(ERec), c.g)
     ELSE LET k == GenLeaf(c.g) IN T(EIdx(ERec, k.t), k.g)

GenE(d, g) ==
  IF d = 0 THEN GenLeaf(g)
  ELSE LET c == Draw(g, NProds + 6)
       IN IF c.i > NProds THEN GenLeaf(c.g)
          ELSE IF c.i <= 6 THEN LET x == GenE(d - 1, c.g) IN T(EUn(UnOpSeq[c.i], x.t), x.g)
          ELSE IF c.i <= 26 THEN LET l == GenE(d - 1, c.g) r == GenE(d - 1, l.g)
                                 IN T(EBin(BinOpSeq[c.i - 6], l.t, r.t), r.g)
          ELSE IF c.i <= 29 THEN LET l == GenE(d - 1, c.g) r == GenE(d - 1, l.g)
                                 IN T(ELog(LogOpSeq[c.i - 26], l.t, r.t), r.g)
          ELSE IF c.i <= 45 THEN LET t == GenTarget(c.g) r == GenE(d - 1, t.g)
                                 IN T(EAsg(AsgOpSeq[c.i - 29], t.t, r.t), r.g)
          ELSE IF c.i = 46 THEN LET x == GenE(d - 1, c.g) y == GenE(d - 1, x.g) z == GenE(d - 1, y.g)
                                IN T(ECond(x.t, y.t, z.t), z.g)
          ELSE IF c.i = 47 THEN LET l == GenE(d - 1, c.g) r == GenE(d - 1, l.g) IN T(EComma(l.t, r.t), r.g)
          ELSE IF c.i = 48 THEN (IF c.g.np < MaxP
                                 THEN LET n == c.g.np + 1
                                          x == GenE(d - 1, [c.g EXCEPT !.np = n])
                                      IN T(EProbeA(n, <<x.t>>), x.g)
                                 ELSE GenLeaf(c.g))
          ELSE IF c.i = 49 THEN LET x == GenE(d - 1, c.g) IN T(EMem(x.t), x.g)
          ELSE IF c.i = 50 THEN LET x == GenE(d - 1, c.g) IN T(EOptMem(x.t), x.g)
          ELSE IF c.i = 51 THEN LET t == GenTarget(c.g)
                                IN T(EDel(IF t.t.k = "var" THEN EOptMem(EVar("a")) ELSE t.t), t.g)
          ELSE LET k == GenE(d - 1, c.g) IN T(EIdx(ERec, k.t), k.g)

InContext(ctx, e) ==
  CASE ctx = 1 -> << SRet(e) >>
    [] ctx = 2 -> << SExpr(e) >>
    [] ctx = 3 -> << SIfElse(e, SExpr(EProbe(8)), SExpr(EProbe(9))) >>
    [] ctx = 4 -> << SDecl(1, "y", e), SExpr(EProbe(8)), SRet(EVar("y")) >>
    [] ctx = 5 -> << SRet(EUn("!", e)) >>
    [] ctx = 6 -> << SDecl(2, "y", e), SRet(EProbeA(8, <<EVar("y")>>)) >>

RandProg(i) ==
  LET g0 == [r |-> RngInit(Seed, i), np |-> 0]
      c  == Draw(g0, 6)
      e  == GenE(Depth, c.g)
  IN InContext(c.i, e.t)

(* ------------------------------------------------------------------ *)
(* exhaustive depth-1 expressions                                     *)
(* ------------------------------------------------------------------ *)
SmallLits == {Undef, Null, True, PZero, NaN, Str(<<97>>)}
Opnd(n) == {EProbe(n), EVar("a")} \cup {ELit(v) : v \in SmallLits}
Targets == {EVar("x"), EMem(ERec), EIdx(ERec, EProbe(3))}
D1Exprs(u_) ==
       {EUn(op, x) : op \in UnOps, x \in Opnd(1)}
  \cup {EBin(op, x, y) : op \in BinValueOps, x \in Opnd(1), y \in Opnd(2)}
  \cup {ELog(op, x, y) : op \in LogOps, x \in Opnd(1), y \in Opnd(2)}
  \cup {ECond(x, EProbe(2), EProbe(3)) : x \in Opnd(1)}
  \cup {ECond(EProbe(1), x, y) : x \in {EProbe(2), ELit(True), ELit(PZero)}, y \in {EProbe(3), ELit(True), ELit(PZero)}}
  \cup {EComma(x, y) : x \in Opnd(1), y \in Opnd(2)}
  \cup {EAsg(op, t, y) : op \in AsgOps, t \in Targets, y \in Opnd(2)}
  \cup {EMem(x) : x \in Opnd(1)} \cup {EOptMem(x) : x \in Opnd(1)}
  \cup {EDel(t) : t \in {EMem(ERec), EIdx(ERec, EProbe(1)), EOptMem(EVar("a")), EMem(EVar("a")), EProbe(1), ELit(Num(1))}}
  \cup {EIdx(ERec, x) : x \in Opnd(1)}
  \cup {EUn("!", EBin(op, EProbe(1), EProbe(2))) : op \in RelOps \cup EqOps}
  \cup {EUn("!", EUn("!", x)) : x \in Opnd(1)}
  \cup {EUn("typeof", EGlob), EGlob}
D1Set == IF DoD1 THEN D1Exprs(0) ELSE {}      \* each expression is put in the contexts 1, 2, 3 by the step

(* ------------------------------------------------------------------ *)
(* statement skeletons                                                *)
(* ------------------------------------------------------------------ *)
P(n)  == SExpr(EProbe(n))
X     == EVar("x")
A     == EVar("a")
Tests(n) == {EProbe(n), A, EUn("!", EProbe(n)), ELit(True), ELit(PZero), EUn("!", EBin("<", EProbe(n), EVar("b"))),
             EBin("<", EProbe(n), EVar("b")), ELog("&&", A, EProbe(n))}
JF == {SRet0, SRet(EProbe(7)), SThrow(EProbe(7))}            \* jumps out of the function
JL == JF \cup {SBreak(""), SContinue("")}                    \* jumps inside a loop

SkIf(u_) ==
       {<< SIf(t, j), P(2) >> : t \in Tests(1), j \in JF}
  \cup {<< SIf(t, SBlock(<< P(2), j >>)), P(3) >> : t \in Tests(1), j \in JF}
  \cup {<< SIfElse(t, j, P(2)), P(3) >> : t \in Tests(1), j \in JF}
  \cup {<< SIfElse(t, P(2), j), P(3) >> : t \in Tests(1), j \in JF}
  \cup {<< SIfElse(t, j1, j2) >> : t \in Tests(1), j1 \in JF \cup {SRet(EProbe(2))}, j2 \in JF \cup {SRet(EProbe(3))}}
  \cup {<< SIf(t, j1), SIf(u, j2), SRet(EProbe(5)) >> : t \in Tests(1), u \in {EProbe(3), EVar("b")}, j1 \in JF, j2 \in {SRet(EProbe(4)), SRet0}}
  \cup {<< SIfElse(t, P(2), P(3)) >> : t \in Tests(1)}
  \cup {<< SIfElse(t, SExpr(EAsg("=", X, EProbe(2))), SExpr(EAsg("=", X, EProbe(3)))), SRet(X) >> : t \in Tests(1)}
  \cup {<< SIf(t, SIf(EProbe(2), P(3))), P(4) >> : t \in Tests(1)}
  \cup {<< SIfElse(t, SBlock(<< SIf(EProbe(2), P(3)) >>), P(4)) >> : t \in Tests(1)}
  \cup {<< SIfElse(t, SBlock(<<>>), P(2)) >> : t \in Tests(1)}
  \cup {<< SIfElse(t, P(2), SBlock(<<>>)) >> : t \in Tests(1)}
  \cup {<< SIf(t, SBlock(<<>>)), P(2) >> : t \in Tests(1)}
  \cup {<< SIf(t, SRet(EProbe(2))), SRet(EProbe(3)) >> : t \in Tests(1)}
  \cup {<< SIf(t, SRet(ELit(True))), SRet(ELit(False)) >> : t \in Tests(1)}
  \cup {<< SRet(EProbe(1)), P(2) >>, << SThrow(EProbe(1)), P(2) >>}

LoopTests == {EProbe(3), A}
SkLoop(u_) ==
       {<< SWhile(EProbe(1), SBlock(<< P(2), SIf(t, j), P(4) >>)), P(5) >> : t \in LoopTests, j \in JL}
  \cup {<< SDoWhile(SBlock(<< P(2), SIf(t, j), P(4) >>), EProbe(1)), P(5) >> : t \in LoopTests, j \in JL}
  \cup {<< SFor(SDecl(0, "i", ELit(PZero)), EBin("<", EVar("i"), ELit(Num(2))), EAsg("+=", EVar("i"), ELit(Num(1))),
                SBlock(<< SExpr(EProbeA(1, <<EVar("i")>>)), SIf(t, j), P(4) >>)), P(5) >> : t \in LoopTests, j \in JL}
  \cup {<< SFor(None, None, None, SBlock(<< SIf(EProbe(1), j), P(2) >>)), P(5) >> : j \in JF \cup {SBreak("")}}
  \cup {<< SWhile(ELit(True), SBlock(<< SIf(t, SBreak("")), P(2) >>)), P(5) >> : t \in {EProbe(1), EUn("!", EProbe(1))}}
  \cup {<< SWhile(EProbe(1), SBlock(<< SIfElse(t, SBlock(<< P(2), SContinue("") >>), P(3)), P(4) >>)) >> : t \in LoopTests}
  \cup {<< SWhile(EProbe(1), SIf(t, SBreak(""))), P(5) >> : t \in LoopTests}
  \cup {<< SFor(SExpr(EProbe(1)), EProbe(2), EProbe(3), P(4)) >>, << SFor(None, EProbe(2), None, SBlock(<<>>)) >>,
        << SWhile(EProbe(1), SBlock(<<>>)) >>, << SDoWhile(P(1), ELit(PZero)) >>, << SDoWhile(SBlock(<< P(1), SBreak("") >>), EProbe(2)), P(3) >>}

CaseTests == {ELit(Num(1)), EProbe(6)}
Bodies(n) == {<< P(n) >>, << P(n), SBreak("") >>, <<>>}
SkSwitch(u_) ==
  LET discs == {EProbe(1), A}
  IN   {<< SSwitch(d, << SCase(t1, b1), SCase(t2, b2), SDefault(b3) >>), P(5) >> :
            d \in discs, t1 \in CaseTests, t2 \in {ELit(Str(<<97>>)), EProbe(7)}, b1 \in Bodies(2), b2 \in Bodies(3), b3 \in Bodies(4)}
  \cup {<< SSwitch(d, << SCase(t1, b1), SDefault(b3), SCase(t2, b2) >>), P(5) >> :
            d \in discs, t1 \in CaseTests, t2 \in {ELit(Str(<<97>>)), EProbe(7)}, b1 \in Bodies(2), b2 \in Bodies(3), b3 \in Bodies(4)}
  \cup {<< SSwitch(d, << SDefault(b3), SCase(t1, b1), SCase(t2, b2) >>), P(5) >> :
            d \in discs, t1 \in CaseTests, t2 \in {ELit(Str(<<97>>)), EProbe(7)}, b1 \in Bodies(2), b2 \in Bodies(3), b3 \in Bodies(4)}
  \cup {<< SSwitch(d, << SCase(t1, b1), SCase(t2, b2) >>), P(5) >> :
            d \in discs \cup {ELit(Num(1))}, t1 \in CaseTests, t2 \in {ELit(Str(<<97>>)), EProbe(7), ELit(Num(1))}, b1 \in Bodies(2) \cup {<< SRet(EProbe(2)) >>}, b2 \in Bodies(3)}
  \cup {<< SSwitch(d, << SDefault(<< P(2) >>) >>), P(5) >> : d \in discs}
  \cup {<< SSwitch(d, <<>>), P(5) >> : d \in discs}
  \cup {<< SWhile(EProbe(1), SBlock(<< SSwitch(A, << SCase(ELit(Num(1)), << P(2), j >>), SDefault(<< P(3) >>) >>), P(4) >>)), P(5) >> : j \in {SBreak(""), SContinue("")}}

Fin(j) == IF j.k = "none" THEN SBlock(<< P(4) >>) ELSE SBlock(<< P(4), j >>)
SkTry(u_) ==
       {<< STry(SBlock(<< P(1), j1 >>), None, Fin(j2)), P(5) >> : j1 \in JF \cup {SEmpty}, j2 \in {None, SRet(EProbe(6)), SThrow(EProbe(6))}}
  \cup {<< STry(SBlock(<< P(1), SThrow(EProbe(2)), P(3) >>), SBlock(<< SExpr(EProbeA(6, <<EVar("e")>>)) >> \o tl), f), P(5) >> :
            tl \in {<<>>, << SRet(EVar("e")) >>, << SThrow(EProbe(7)) >>}, f \in {None, SBlock(<< P(4) >>)}}
  \cup {<< STry(SBlock(<< SExpr(EMem(A)) >>), SBlock(<< SExpr(EProbeA(6, <<EVar("e")>>)) >>), None), P(5) >>,
        << STry(SBlock(<< SExpr(EGlob) >>), SBlock(<< SExpr(EProbeA(6, <<EVar("e")>>)) >>), None), P(5) >>,
        << STry(SBlock(<<>>), None, SBlock(<< P(1) >>)) >>,
        << STry(SBlock(<< P(1) >>), SBlock(<< P(2) >>), None) >>}
  \cup {<< SWhile(EProbe(1), STry(SBlock(<< P(2), j1 >>), None, Fin(j2))), P(5) >> :
            j1 \in {SBreak(""), SContinue(""), SRet(EProbe(7))}, j2 \in {None, SBreak(""), SContinue("")}}

SkLabel(u_) ==
       {<< SLabel("L1", SBlock(<< P(1), SIf(t, SBreak("L1")), P(3) >>)), P(4) >> : t \in Tests(2)}
  \cup {<< SLabel("L1", SWhile(EProbe(1), SBlock(<< SWhile(EProbe(2), SBlock(<< SIf(EProbe(3), j), P(4) >>)), P(5) >>))), P(6) >> :
            j \in {SBreak("L1"), SContinue("L1"), SBreak(""), SContinue("")}}
  \cup {<< SLabel("L1", SIfElse(EProbe(1), SBlock(<< P(2), SBreak("L1") >>), P(3))), P(4) >>,
        << SLabel("L1", SBlock(<< SBreak("L1") >>)), P(1) >>,
        << SLabel("L1", SLabel("L2", SBlock(<< SIf(EProbe(1), SBreak("L1")), SIf(EProbe(2), SBreak("L2")), P(3) >>))), P(4) >>}

(* a declaration followed by one use of the variable in each operand position *)
Inits == {EProbe(1), EMem(ERec), A, EBin("+", A, ELit(Num(1))), EGlob, ELit(Num(1)), EMem(A)}
UseForms(x) ==
  { SRet(EBin("+", x, EProbe(2))), SRet(EBin("+", EProbe(2), x)), SRet(ECond(EProbe(2), x, EProbe(3))),
    SRet(ECond(x, EProbe(2), EProbe(3))), SRet(ELog("&&", EProbe(2), x)), SRet(ELog("||", x, EProbe(2))),
    SExpr(EProbeA(2, <<x>>)), SExpr(EProbeA(2, <<EProbe(3), x>>)), SExpr(EProbeA(2, <<x, EProbe(3)>>)),
    SExpr(EAsg("=", EMem(ERec), x)), SExpr(EAsg("=", EIdx(ERec, EProbe(2)), x)), SExpr(EAsg("+=", EMem(ERec), x)),
    SRet(EComma(EProbe(2), x)), SIf(x, P(2)), SRet(EUn("typeof", x)), SRet(EUn("!", x)), SRet(EMem(x)), SRet(EOptMem(x)),
    SRet(EBin("+", EVar("b"), x)), SRet(EBin("+", EMem(ERec), x)), SRet(EBin("+", EGlob, x)),
    SRet(EBin("+", EMem(EVar("b")), x)), SRet(EAsg("=", EVar("y"), x)), SThrow(x), SRet(EBin("+", x, x)),
    SRet(EBin("+", EAsg("=", A, ELit(Num(5))), x)), SWhile(x, SBlock(<< P(2), SBreak("") >>)),
    SSwitch(x, << SCase(EProbe(2), << P(3) >>) >>), SRet(EIdx(ERec, x)), SRet(x) }
SkDecl(u_) ==
       {<< SDecl(kd, "x", i), u >> : kd \in {0, 1, 2}, i \in Inits, u \in UseForms(X)}
  \cup {<< SDecl(kd, "x", EProbe(1)), SDecl(kd, "y", EProbe(2)), SRet(EBin(op, EVar("y"), X)) >> : kd \in {1, 2}, op \in {"+", "-", "<"}}
  \cup {<< SDecl(kd, "x", EProbe(1)), SDecl(kd, "y", EProbe(2)), SRet(EBin(op, X, EVar("y"))) >> : kd \in {1, 2}, op \in {"+", "-", "<"}}
  \cup {<< SDecl(1, "x", i), P(2), SRet(X) >> : i \in Inits}
  \cup {<< SDecl(1, "x", EProbe(1)), SExpr(EAsg("=", X, EProbe(2))), SRet(X) >>,
        << SDecl(1, "x", None), SExpr(EAsg("=", X, EProbe(1))), SRet(X) >>,
        << SDecl(0, "x", EProbe(1)), SDecl(0, "x", EProbe(2)), SRet(X) >>}

UndefStr == ELit(Str(CU("undefined")))
TypeofG  == EUn("typeof", EGlob)
Guards   == {EBin(op, TypeofG, UndefStr) : op \in EqOps} \cup {EBin(op, UndefStr, TypeofG) : op \in {"===", "!=="}}
SkTypeof(u_) ==
       {<< SRet(ECond(g, x, y)) >> : g \in Guards, x \in {EGlob, EProbe(1)}, y \in {EGlob, EProbe(1)}}
  \cup {<< SRet(ELog(op, g, EGlob)) >> : g \in Guards, op \in {"&&", "||"}}
  \cup {<< SIf(g, SRet(EGlob)), SRet(EProbe(1)) >> : g \in Guards}
  \cup {<< SExpr(ECond(g, EGlob, EProbe(1))) >> : g \in Guards}
  \cup {<< SExpr(ELog(op, g, EGlob)) >> : g \in Guards, op \in {"&&", "||"}}
  \cup {<< SExpr(EGlob), P(1) >>, << SExpr(TypeofG), P(1) >>, << SRet(EBin("+", TypeofG, EProbe(1))) >>,
        << SExpr(EBin("===", TypeofG, UndefStr)), P(1) >>}

NullLits == {ELit(Null), ELit(Undef)}
SkChain(u_) ==
       {<< SRet(ECond(EBin(op, A, n), x, y)) >> : op \in EqOps, n \in NullLits,
            x \in {ELit(Undef), EMem(A), EProbe(1)}, y \in {ELit(Undef), EMem(A), EProbe(1)}}
  \cup {<< SRet(EOptMem(x)) >> : x \in NullLits \cup {A, EProbe(1), ERec}}
  \cup {<< SExpr(EOptMem(x)), P(2) >> : x \in NullLits \cup {A, EProbe(1), ERec}}
  \cup {<< SRet(EDel(EOptMem(x))) >> : x \in NullLits \cup {A, ERec}}
  \cup {<< SRet(ELog(op, A, EMem(A))) >> : op \in {"&&", "||", "??"}}
  \cup {<< SRet(ELog("??", EOptMem(A), EProbe(1))) >>, << SRet(ELog("&&", EBin("!=", A, ELit(Null)), EMem(A))) >>,
        << SRet(ECond(EBin("===", A, ELit(Null)), ELit(Undef), ECond(EBin("===", A, ELit(Undef)), ELit(Undef), EMem(A)))) >>,
        << SRet(ECond(ELog("||", EBin("===", A, ELit(Null)), EBin("===", A, ELit(Undef))), ELit(Undef), EMem(A))) >>,
        << SRet(ELog("??", A, EProbe(1))) >>, << SRet(ECond(EBin("!=", A, ELit(Null)), A, EProbe(1))) >>,
        << SRet(ECond(A, A, EProbe(1))) >>, << SRet(ECond(A, EProbe(1), A)) >>, << SRet(ECond(EUn("!", A), EProbe(1), A)) >>}


(* ------------------------------------------------------------------ *)
(* "cx": CONTEXT x OPERAND-KIND family.                                *)
(* The minifier's peephole rules are keyed on pairs (outer operator    *)
(* context, inner operator kind) through helper predicates (known      *)
(* primitive type / truthiness / nullishness of the operand, "can be   *)
(* removed if unused", "values look the same", ...).  Every such pair  *)
(* is inhabited here: NCtx contexts with one hole x every operator     *)
(* class of JsSem as the operand, with literal slots ranging over a    *)
(* typed literal table so that "type of the operand's literal equals / *)
(* differs from the type the context asks for" both occur; the         *)
(* environments (orthogonal array over CxGrid) make every target and   *)
(* operand value short-circuit and not short-circuit.                  *)
(* ------------------------------------------------------------------ *)
GC13 == << Undef, Null, True, False, PZero, NZero, Num(1), NaN, Str(<<>>), Str(<<97>>),
           Obj(2), Big(1, <<1>>), Obj(4) >>
GC23 == << Undef, Null, True, False, PZero, NZero, Num(1), Num(-1), Num(2), NaN, PInf, NInf,
           IntV(1, P2_31), IntV(1, NSub(P2_32, One)), Obj(4),
           Str(<<>>), Str(<<48>>), Str(<<97>>), Str(<<49, 48>>), Obj(1), Obj(2), Obj(3), Big(1, <<1>>) >>
CxGrid == IF Q = 13 THEN GC13 ELSE GC23
ASSUME Len(CxGrid) = Q /\ CxGrid[1] = Undef
EnvOfG(grid, i, j) ==
  LET r == RowIdx(i, j)
  IN [pv |-> [n \in 1..NProbes |-> grid[r.p[n]]], a |-> grid[r.a], b |-> grid[r.b],
      g  |-> IF r.g = 0 THEN Undecl ELSE grid[r.g],
      ok |-> IF r.ok = 0 THEN Absent ELSE grid[r.ok]]

(* typed literal table: one truthy and one falsy literal per primitive type, both nullish values *)
TL   == << Num(1), PZero, True, False, Str(<<97>>), Str(<<>>), Null, Undef >>
NTL  == 8
TyOf(i) == CASE i \in {1, 2} -> 1 [] i \in {3, 4} -> 2 [] i \in {5, 6} -> 3 [] i = 7 -> 4 [] i = 8 -> 5
Sib(i)  == IF i % 2 = 1 THEN i + 1 ELSE i - 1          \* same type, other truthiness (null <-> undefined)
WrapL(j) == ((j - 1) % NTL) + 1
DiffTy(i, h) ==                                         \* a seeded literal index of ANOTHER type than i
  LET j0 == WrapL(i + 1 + (h % 7))
      j1 == WrapL(j0 + 1)
  IN IF TyOf(j0) # TyOf(i) THEN j0 ELSE IF TyOf(j1) # TyOf(i) THEN j1 ELSE WrapL(j0 + 2)
ASSUME \A i \in 1..NTL, h \in 0..20 : TyOf(DiffTy(i, h)) # TyOf(i)
FlipTruth(i, h) == IF i <= 6 THEN Sib(i) ELSE 1 + 2 * (h % 3)     \* a literal of the other truthiness

SeqMap(F(_), sq) == [i \in 1..Len(sq) |-> F(sq[i])]

(* contexts: a program with one hole e; L = the context's literal (contexts 1-4, 24, 26 only) *)
NCtx == 30
CtxHasLit(c) == c \in {1, 2, 3, 4, 24, 26}
CtxProg(c, e, L) ==
  CASE c = 1  -> << SRet(EBin("===", e, L)) >>
    [] c = 2  -> << SRet(EBin("!==", e, L)) >>
    [] c = 3  -> << SRet(EBin("==", e, L)) >>
    [] c = 4  -> << SRet(EBin("!=", e, L)) >>
    [] c = 5  -> << SRet(EBin("+", ELit(Str(<<>>)), e)) >>
    [] c = 6  -> << SRet(EBin("+", e, ELit(Str(<<>>)))) >>
    [] c = 7  -> << SRet(ETpl("", e)) >>
    [] c = 8  -> << SRet(EUn("!", EUn("!", e))) >>
    [] c = 9  -> << SRet(EUn("!", e)) >>
    [] c = 10 -> << SRet(EUn("typeof", e)) >>
    [] c = 11 -> << SRet(ECond(e, EProbe(8), EProbe(9))) >>
    [] c = 12 -> << SIfElse(e, SExpr(EProbe(8)), SExpr(EProbe(9))) >>
    [] c = 13 -> << SRet(ELog("&&", e, EProbe(8))) >>
    [] c = 14 -> << SRet(ELog("||", e, EProbe(8))) >>
    [] c = 15 -> << SRet(ELog("??", e, EProbe(8))) >>
    [] c = 16 -> << SExpr(e), SRet(EProbe(8)) >>
    [] c = 17 -> << SRet(EUn("-", e)) >>
    [] c = 18 -> << SRet(EUn("+", e)) >>
    [] c = 19 -> << SRet(EUn("void", e)) >>
    [] c = 20 -> << SRet(EComma(e, EProbe(8))) >>
    [] c = 21 -> << SRet(e) >>
    [] c = 22 -> << SExpr(EProbeA(8, <<e>>)) >>
    [] c = 23 -> << SExpr(EProbeA(8, <<ESpread1(e)>>)) >>
    [] c = 24 -> << SSwitch(e, << SCase(L, << SExpr(EProbe(8)), SBreak("") >>), SDefault(<< SExpr(EProbe(9)) >>) >>) >>
    [] c = 25 -> << SExpr(ETpl("", e)), SRet(EProbe(8)) >>
    [] c = 26 -> << SRet(EBin("==", L, e)) >>
    [] c = 27 -> << SWhile(e, SBlock(<< SExpr(EProbe(8)), SBreak("") >>)), SRet(EProbe(9)) >>
    [] c = 28 -> << SDecl(2, "y", e), SRet(EProbeA(8, <<EVar("y")>>)) >>
    [] c = 29 -> << SRet(ECond(e, ELit(True), ELit(False))) >>
    [] c = 30 -> << SExpr(ELog("&&", e, EProbe(8))), SRet(EProbe(9)) >>
(* the literal type a context without a literal of its own "asks for" (0: none) *)
CtxNatTy(c) == CASE c \in {5, 6, 7, 25} -> 3
                 [] c \in {8, 9, 11, 12, 13, 14, 27, 29, 30} -> 2
                 [] c \in {17, 18} -> 1
                 [] c = 15 -> 4
                 [] OTHER -> 0

(* operand kinds.  full = every operator; ~full = one seeded operator per class (the classes of the
   minifier's type knowledge: string-or-number +, numeric, int32, uint32, relational, loose/strict equality) *)
BinClasses == << <<"+">>, <<"-", "*", "/", "%", "**">>, <<"&", "|", "^", "<<", ">>">>, <<">>>">>,
                 <<"<", ">", "<=", ">=">>, <<"==", "!=">>, <<"===", "!==">> >>
CmpClasses == << <<"+=">>, <<"-=", "*=", "/=", "%=", "**=">>, <<"&=", "|=", "^=", "<<=", ">>=">>, <<">>>=">> >>
PickPer(cls, sd) == [i \in 1..Len(cls) |-> cls[i][((sd + i) % Len(cls[i])) + 1]]
CxBinOps(full, sd) == IF full THEN BinOpSeq ELSE PickPer(BinClasses, sd)
CxCmpOps(full, sd) == IF full THEN << "+=", "-=", "*=", "/=", "%=", "**=", "<<=", ">>=", ">>>=", "&=", "|=", "^=" >>
                      ELSE PickPer(CmpClasses, sd)
CxUnA(full, sd)    == IF full THEN UnOpSeq ELSE << UnOpSeq[(sd % 6) + 1], UnOpSeq[((sd + 3) % 6) + 1] >>
LogAsgSeq == << "||=", "&&=", "??=" >>

CxShapes(full, sd, lk) ==
  LET L  == ELit(TL[lk])
      Ls == ELit(TL[Sib(lk)])
      Lo == ELit(TL[DiffTy(lk, sd)])
      P1 == EProbe(1)  P2 == EProbe(2)  P3 == EProbe(3)
      OK == EMem(ERec)
  IN    << L, P1, A, OK, EGlob, EUn("typeof", EGlob) >>
     \o SeqMap(LAMBDA op : EUn(op, P1), UnOpSeq)
     \o SeqMap(LAMBDA op : EUn(op, A), CxUnA(full, sd))
     \o << EUn("!", L), EUn("-", L), EUn("typeof", L), EUn("void", L) >>
     \o SeqMap(LAMBDA op : EBin(op, P1, P2), CxBinOps(full, sd))
     \o SeqMap(LAMBDA op : EBin(op, A, L), CxBinOps(full, sd))
     \o << EBin("+", L, A), EBin("===", L, A), EBin("==", L, A), EBin("<", L, A) >>
     \o SeqMap(LAMBDA op : ELog(op, P1, L), LogOpSeq)
     \o SeqMap(LAMBDA op : ELog(op, L, P1), LogOpSeq)
     \o SeqMap(LAMBDA op : ELog(op, P1, P2), LogOpSeq)
     \o (IF full THEN SeqMap(LAMBDA op : ELog(op, A, P2), LogOpSeq) \o SeqMap(LAMBDA op : ELog(op, OK, L), LogOpSeq) ELSE <<>>)
     \o << ECond(P1, L, L), ECond(P1, L, Ls), ECond(P1, L, Lo), ECond(P1, L, A), ECond(A, P2, P3), ECond(L, P2, P3) >>
     \o << EComma(P1, L), EComma(P1, A), EComma(L, P1), EComma(A, L) >>
     \o SeqMap(LAMBDA op : EAsg(op, OK, L), << "=" >> \o LogAsgSeq \o CxCmpOps(full, sd))
     \o SeqMap(LAMBDA op : EAsg(op, A, L), << "=" >> \o LogAsgSeq \o (IF full THEN CxCmpOps(full, sd) ELSE <<>>))
     \o SeqMap(LAMBDA op : EAsg(op, OK, P2), << "=" >> \o LogAsgSeq)
     \o SeqMap(LAMBDA op : EAsg(op, X, L), LogAsgSeq)
     \o << EMem(P1), EMem(A), EOptMem(A), EOptMem(P1), EIdx(ERec, P1), EIdx(ERec, L), EMem(L), EOptMem(L) >>
     \o << EDel(OK), EDel(EOptMem(A)), EDel(P1) >>
     \o << EProbeA(1, <<L>>), EHCall("f", <<P1>>), EHCall("f", <<L>>), EProbeA(1, <<ESpread1(L)>>) >>
     \o << ETpl("", P1), ETpl("", A), ETpl("", L), ETpl("a", A), ETpl("a", L) >>
     \o << EUn("!", EUn("!", A)), EUn("!", EBin("===", A, L)), EUn("!", EBin("<", P1, P2)) >>
     \* typeof comparisons and operands that "look the same"
     \o << EBin("===", EUn("typeof", A), ELit(Str(CU("number")))), EBin("!=", EUn("typeof", P1), ELit(Str(CU("undefined")))),
           EBin("==", EUn("typeof", A), ELit(Str(CU("object")))),
           EBin("===", A, A), EBin("!==", OK, OK), ELog("??", A, A), ECond(A, A, P2), ELog("||", OK, OK) >>

(* descriptor of one program of the family, packed in an integer: context, shape, the shape's
   literal (0: the shape has no literal slot), the context's literal (0: none) *)
CxEnc(c, s, lk, lc) == ((c * 200 + s) * 10 + lk) * 10 + lc
CxC(d)  == d \div 20000
CxS(d)  == (d \div 100) % 200
CxLk(d) == (d \div 10) % 10
CxLc(d) == d % 10
CxH(sd, c, s, n) == (RngOut(RngInit(sd + 101 * n, c * 200 + s)) % NTL) + 1      \* a seeded literal index

CxProgOf(full, sd, d) ==
  LET lk == IF CxLk(d) = 0 THEN 1 ELSE CxLk(d)
      lc == IF CxLc(d) = 0 THEN 1 ELSE CxLc(d)
  IN CtxProg(CxC(d), CxShapes(full, sd, lk)[CxS(d)], ELit(TL[lc]))

(* The COVERING sample (always included; all of the quick tier): every (context, shape) pair once
   with the literal types agreeing (the context's own literal, or the type the context asks for),
   and for a seeded third of the pairs once more with the types differing.
   The full product: every (context, shape, shape literal); the context literal = the shape's
   literal and one seeded literal of another type (shapes without a slot: every context literal).
   mod = 0: the covering sample only; mod >= 1: plus the seeded 1/mod of the full product. *)
CxTake(sd, mod, d) == mod # 0 /\ (mod = 1 \/ RngOut(RngInit(sd + 3, d)) % mod = 0)
CxDescs(full, sd, mod) ==
  LET s1 == CxShapes(full, sd, 1)
      s2 == CxShapes(full, sd, 2)
      NS == Len(s1)
      Slot(s) == s1[s] # s2[s]
      OneP(c, s) ==
        LET h1 == CxH(sd, c, s, 1)  h2 == CxH(sd, c, s, 2)
            nat == CtxNatTy(c)
            lkA == IF CtxHasLit(c) THEN (IF h2 % 2 = 0 THEN h1 ELSE Sib(h1))
                   ELSE IF nat = 4 THEN 7 + (h1 % 2) ELSE IF nat # 0 THEN 2 * nat - (h1 % 2) ELSE h1
            more == (c + s + sd) % 3 = 0
            cover == IF Slot(s) THEN IF CtxHasLit(c) THEN {CxEnc(c, s, lkA, h1)} \cup (IF more THEN {CxEnc(c, s, DiffTy(h1, h2), h1)} ELSE {})
                                     ELSE {CxEnc(c, s, lkA, 0)} \cup (IF more THEN {CxEnc(c, s, DiffTy(lkA, h2), 0)} ELSE {})
                     ELSE IF CtxHasLit(c) THEN {CxEnc(c, s, 0, h1)} ELSE {CxEnc(c, s, 0, 0)}
            all == IF Slot(s) THEN IF CtxHasLit(c) THEN UNION {{CxEnc(c, s, lk, lc) : lc \in {lk, DiffTy(lk, h1)}} : lk \in 1..NTL}
                                   ELSE {CxEnc(c, s, lk, 0) : lk \in 1..NTL}
                   ELSE IF CtxHasLit(c) THEN {CxEnc(c, s, 0, lc) : lc \in 1..NTL} ELSE {CxEnc(c, s, 0, 0)}
        IN cover \cup (IF mod = 0 THEN {} ELSE {d \in all : CxTake(sd, mod, d)})
  IN UNION {OneP(c, s) : c \in 1..NCtx, s \in 1..NS}
CxPairs(ds) == {<<CxC(d), CxS(d)>> : d \in ds}

(* ------------------------------------------------------------------ *)
(* "xc": OUTER-CONSTANT family.  The constants K* are bindings that    *)
(* live outside the function (ECConst): the harness realises them as   *)
(* `const` exports of ANOTHER module (bundled: cross-module inlining   *)
(* and print-time folding), as members of a TypeScript enum of another *)
(* file, and as `define` keys.  In every realisation the language (and *)
(* the definition of define) gives the reference the constant's value. *)
(* Each constant meets a side-effecting operand in every context.      *)
(* ------------------------------------------------------------------ *)
CNames == << "K1", "K0", "KT", "KF", "KA", "KE", "KN", "KU" >>
KC(i)  == ECConst(CNames[i], TL[i])
XcShapes(sd, ck) ==
  LET KK  == KC(ck)  KS == KC(Sib(ck))  KO == KC(DiffTy(ck, sd))
      P1 == EProbe(1)  P2 == EProbe(2)  P3 == EProbe(3)
      OK == EMem(ERec)
  IN << KK, EUn("!", KK), EUn("typeof", KK), EUn("-", KK), EUn("+", KK), EUn("void", KK),
        ELog("&&", P1, KK), ELog("||", P1, KK), ELog("??", P1, KK),
        ELog("&&", KK, P1), ELog("||", KK, P1), ELog("??", KK, P1),
        EUn("!", ELog("&&", P1, KK)), EUn("!", ELog("||", P1, KK)),
        EComma(P1, KK), EComma(KK, P1),
        ECond(KK, P1, P2), ECond(P1, KK, KS), ECond(P1, KK, KO), ECond(P1, KK, KK),
        EBin("+", KK, P1), EBin("+", P1, KK), EBin("===", KK, P1), EBin("==", P1, KK), EBin("<", KK, P1),
        EBin("===", A, KK), EBin("==", A, KK), EBin("+", A, KK),
        EBin("+", KK, KS), EBin("+", KK, KO), EBin("===", KK, KS), EBin("==", KK, KO), EBin("<", KK, KO), EBin("|", KK, KO),
        ELog("&&", KK, KO), ELog("||", KK, KO), ELog("??", KK, KO), ECond(KK, KS, P1),
        EAsg("=", OK, KK), EAsg("||=", OK, KK), EAsg("??=", A, KK), EAsg("+=", OK, KK),
        EMem(KK), EOptMem(KK), EIdx(ERec, KK),
        ETpl("", KK), ETpl("a", KK), EProbeA(1, <<KK>>), EHCall("f", <<KK>>),
        ELog("&&", ELog("||", P1, KK), P2), ECond(ELog("&&", P1, KK), KS, P2) >>
XcProgOf(sd, d) ==
  CtxProg(CxC(d), XcShapes(sd, CxLk(d))[CxS(d)], IF CxLc(d) = 0 THEN ELit(TL[1]) ELSE KC(CxLc(d)))
(* contexts inside one expression: there a substituted constant can enable a second rewrite *)
XcExprCtx == {1, 2, 3, 4, 8, 9, 11, 13, 14, 15, 29}
XcDescs(sd, mod) ==
  LET NS == Len(XcShapes(sd, 1))
      OneP(c, s) ==
        LET h1 == CxH(sd, c, s, 3)  h2 == CxH(sd, c, s, 4)
            lcs(ck) == IF CtxHasLit(c) THEN {ck, DiffTy(ck, h2)} ELSE {0}
            lc1(ck) == IF CtxHasLit(c) THEN (IF h2 % 2 = 0 THEN ck ELSE DiffTy(ck, h2)) ELSE 0
            cover == {CxEnc(c, s, h1, lc1(h1))}
                     \cup (IF c \in XcExprCtx THEN {CxEnc(c, s, FlipTruth(h1, h2), lc1(FlipTruth(h1, h2)))} ELSE {})
            all == UNION {{CxEnc(c, s, ck, lc) : lc \in lcs(ck)} : ck \in 1..NTL}
        IN cover \cup (IF mod = 0 THEN {} ELSE {d \in all : CxTake(sd, mod, d)})
  IN UNION {OneP(c, s) : c \in 1..NCtx, s \in 1..NS}

(* ------------------------------------------------------------------ *)
(* define / pure / drop / drop-labels                                  *)
(*   options of every program of this family:                          *)
(*     define DEF=<dv>, pure f, drop console + debugger, drop-labels DEV *)
(*   Reference(prog, dv, dropPure) is the program "after the requested  *)
(*   substitutions": what the output must behave like                  *)
(* ------------------------------------------------------------------ *)
ECallF(args)   == EHCall("f", args)
EConsole(args) == EHCall("console.log", args)
LDEF == EVar("DEF")                                      \* a local that shadows DEF

RECURSIVE CommaList(_)
CommaList(es) == IF Len(es) = 0 THEN ELit(Undef) ELSE IF Len(es) = 1 THEN es[1] ELSE EComma(es[1], CommaList(Tail(es)))

RECURSIVE Subst(_, _)          \* define + drop console + drop debugger + drop labels
Subst(n, dv) ==
  IF n.k = "gdef" THEN ELit(dv)
  ELSE IF n.k = "hcall" /\ n.op = "console.log" THEN ELit(Undef)       \* the whole call goes, arguments included
  ELSE IF n.k = "debugger" THEN SEmpty
  ELSE IF n.k = "label" /\ n.op = "DEV" THEN SEmpty
  ELSE [n EXCEPT !.a = [c \in 1..Len(n.a) |-> Subst(n.a[c], dv)]]

RECURSIVE DropUnused(_)        \* an expression whose value is not used: pure calls of f may go, their arguments stay
DropUnused(e) ==
  IF e.k = "hcall" /\ e.op = "f" THEN CommaList([c \in 1..Len(e.a) |-> DropUnused(e.a[c])])
  ELSE IF e.k = "comma" THEN EComma(DropUnused(e.a[1]), DropUnused(e.a[2]))
  ELSE IF e.k = "cond" THEN ECond(e.a[1], DropUnused(e.a[2]), DropUnused(e.a[3]))
  ELSE IF e.k = "log" THEN ELog(e.op, e.a[1], DropUnused(e.a[2]))
  ELSE e
RECURSIVE DropPure(_)
DropPure(n) ==
  IF n.k = "expr" THEN SExpr(DropUnused(n.a[1]))
  ELSE IF n.k = "comma" THEN EComma(DropUnused(n.a[1]), n.a[2])
  ELSE [n EXCEPT !.a = [c \in 1..Len(n.a) |-> DropPure(n.a[c])]]

Reference(pr, dv, dropPure) ==
  [c \in 1..Len(pr) |-> LET x == Subst(pr[c], dv) IN IF dropPure THEN DropPure(x) ELSE x]

DefVals == << True, False, Num(5) >>
OptProgs(u_) ==
  {   << SRet(EDef) >>,
      << SIfElse(EDef, P(1), P(2)) >>,
      << SIf(EUn("!", EDef), SRet(EProbe(1))), SRet(EProbe(2)) >>,
      << SDecl(1, "DEF", EProbe(1)), SRet(LDEF) >>,
      << SDecl(2, "DEF", EProbe(1)), SIfElse(LDEF, P(2), P(3)) >>,
      << SDecl(0, "DEF", EProbe(1)), SRet(EBin("+", LDEF, ELit(Num(1)))) >>,
      << SBlock(<< SDecl(1, "DEF", EProbe(1)), SExpr(EProbeA(2, <<LDEF>>)) >>), SRet(EDef) >>,
      << SExpr(EProbeA(2, <<EDef>>)), SBlock(<< SDecl(1, "DEF", EProbe(1)), SRet(LDEF) >>) >>,
      << STryP("DEF", SBlock(<< SThrow(EProbe(1)) >>), SBlock(<< SRet(LDEF) >>), None) >>,
      << STryP("DEF", SBlock(<< SThrow(EProbe(1)) >>), SBlock(<< SExpr(EProbeA(2, <<LDEF>>)) >>), None), SRet(EDef) >>,
      << SRet(EBin("+", EDef, EProbe(1))) >>,
      << SRet(EBin("===", EDef, ELit(Num(5)))) >>,
      << SRet(EBin("==", EDef, EProbe(1))) >>,
      << SRet(EUn("typeof", EDef)) >>,
      << SRet(EUn("!", EDef)) >>,
      << SRet(ECond(EDef, EProbe(1), EProbe(2))) >>,
      << SRet(ELog("&&", EDef, EProbe(1))) >>, << SRet(ELog("||", EDef, EProbe(1))) >>, << SRet(ELog("??", EDef, EProbe(1))) >>,
      << SRet(ELog("&&", EProbe(1), EDef)) >>,
      << SWhile(EDef, SBlock(<< P(1), SBreak("") >>)), P(2) >>,
      << SSwitch(EDef, << SCase(ELit(Num(5)), << P(1), SBreak("") >>), SCase(ELit(True), << P(2) >>), SDefault(<< P(3) >>) >>), P(4) >>,
      << SExpr(EDef), P(1) >>,
      << SExpr(EAsg("=", X, EDef)), SRet(X) >>,
      << SRet(EMem(EDef)) >>, << SRet(EOptMem(EDef)) >>,
      \* pure
      << SExpr(ECallF(<<EProbe(1)>>)), SRet(EProbe(2)) >>,
      << SRet(ECallF(<<EProbe(1)>>)) >>,
      << SDecl(1, "x", ECallF(<<EProbe(1)>>)), SRet(X) >>,
      << SExpr(EComma(ECallF(<<EProbe(1)>>), EProbe(2))) >>,
      << SRet(EComma(ECallF(<<EProbe(1)>>), EProbe(2))) >>,
      << SExpr(ECond(EProbe(1), ECallF(<<EProbe(2)>>), EProbe(3))) >>,
      << SExpr(ELog("&&", EProbe(1), ECallF(<<EProbe(2), EProbe(3)>>))) >>,
      << SExpr(ECallF(<<>>)), P(1) >>,
      << SExpr(ECallF(<<ECallF(<<EProbe(1)>>)>>)), P(2) >>,
      << SIf(ECallF(<<EProbe(1)>>), P(2)) >>,
      << SExpr(EProbeA(1, <<ECallF(<<EProbe(2)>>)>>)) >>,
      << SExpr(EBin("+", ECallF(<<EProbe(1)>>), EProbe(2))) >>,
      \* drop: console, debugger
      << SExpr(EConsole(<<EProbe(1)>>)), SRet(EProbe(2)) >>,
      << SRet(EConsole(<<EProbe(1)>>)) >>,
      << SIf(EProbe(1), SExpr(EConsole(<<EProbe(2)>>))), P(3) >>,
      << SIfElse(EProbe(1), SExpr(EConsole(<<EProbe(2)>>)), P(3)) >>,
      << SExpr(ELog("&&", EProbe(1), EConsole(<<EProbe(2)>>))) , P(3) >>,
      << SExpr(EProbeA(1, <<EConsole(<<EProbe(2)>>)>>)) >>,
      << SExpr(EConsole(<<EDef, ECallF(<<EProbe(1)>>)>>)), P(2) >>,
      << P(1), SDebugger, P(2) >>,
      << SIf(EProbe(1), SDebugger), P(2) >>,
      << SIfElse(EProbe(1), SDebugger, P(2)), P(3) >>,
      << SWhile(EProbe(1), SDebugger) >>,
      \* drop-labels
      << SLabel("DEV", SBlock(<< P(1) >>)), P(2) >>,
      << SLabel("DEV", P(1)), P(2) >>,
      << SLabel("L1", SBlock(<< P(1) >>)), P(2) >>,
      << SLabel("L1", SLabel("DEV", P(1))), P(2) >>,
      << SLabel("DEV", SLabel("L1", P(1))), P(2) >>,
      << SIf(EProbe(1), SLabel("DEV", P(2))), P(3) >>,
      << SIfElse(EProbe(1), SLabel("DEV", P(2)), P(3)), P(4) >>,
      << SLabel("DEV", SWhile(EProbe(1), SBlock(<< P(2), SBreak("DEV") >>))), P(3) >>,
      << SLabel("DEV", SBlock(<< SIf(EProbe(1), SBreak("DEV")), P(2) >>)), P(3) >>,
      << SWhile(EProbe(1), SLabel("DEV", SBlock(<< P(2), SBreak("") >>))), P(3) >>,
      << SLabel("DEV", SBlock(<< SRet(EProbe(1)) >>)), SRet(EProbe(2)) >>,
      << SLabel("DEV", SBlock(<< SExpr(EConsole(<<EProbe(1)>>)), SExpr(ECallF(<<EDef>>)) >>)), SDebugger, SRet(EDef) >> }


(* ------------------------------------------------------------------ *)
(* keep-names: function/class .name is observable and must survive     *)
(* identifier minification when keep-names is on (ECMA-262 8.4          *)
(* NamedEvaluation / SetFunctionName).  Functions are outside JsSem's   *)
(* fragment, so these few programs are given as source text with the    *)
(* value the language assigns (the body of function (a, b) { ... }).    *)
(* ------------------------------------------------------------------ *)
NameProgs == <<
  [body |-> "function foo() {} return foo.name;",                         name |-> "foo"],
  [body |-> "var foo = function() {}; return foo.name;",                  name |-> "foo"],
  [body |-> "let foo = () => {}; return foo.name;",                       name |-> "foo"],
  [body |-> "const foo = async () => {}; return foo.name;",               name |-> "foo"],
  [body |-> "class Foo {} return Foo.name;",                              name |-> "Foo"],
  [body |-> "const foo = class {}; return foo.name;",                     name |-> "foo"],
  [body |-> "var foo = function bar() {}; return foo.name;",              name |-> "bar"],
  [body |-> "var foo = class Bar {}; return foo.name;",                   name |-> "Bar"],
  [body |-> "function foo() { return foo.name; } return foo();",          name |-> "foo"],
  [body |-> "var foo; foo = function() {}; return foo.name;",             name |-> "foo"],
  [body |-> "var foo; foo ||= function() {}; return foo.name;",           name |-> "foo"],
  [body |-> "var foo; foo ??= () => {}; return foo.name;",                name |-> "foo"],
  [body |-> "let { foo = function() {} } = {}; return foo.name;",         name |-> "foo"],
  [body |-> "let [foo = () => {}] = []; return foo.name;",                name |-> "foo"],
  [body |-> "function* foo() {} return foo.name;",                        name |-> "foo"],
  [body |-> "function outer(foo = function() {}) { return foo.name; } return outer();", name |-> "foo"],
  [body |-> "var foo = function() {}, bar = foo; return bar.name;",       name |-> "foo"]
>>

SkelProgs == IF DoSkel THEN SkIf(0) \cup SkLoop(0) \cup SkSwitch(0) \cup SkTry(0) \cup SkLabel(0) \cup SkDecl(0) \cup SkTypeof(0) \cup SkChain(0) ELSE {}
=============================================================================
