---------------------------- MODULE JsSyntaxGen ----------------------------
(***************************************************************************)
(* Case generator over JsSyntax: enumerates trees (bounded depth), spines, *)
(* and statement skeletons; TLC checks on every case that the reference    *)
(* reader recovers the tree from the minimal rendering (RoundTrip) and     *)
(* from the fully parenthesised rendering (RoundTripFull), that every      *)
(* required hazard label is inhabited (ASSUME Inhabited), and exports one  *)
(* CASE record per tree for replay against the real esbuild.               *)
(***************************************************************************)
EXTENDS JsSyntax, Json, SequencesExt

CONSTANTS Family,   \* "expr" | "spine" | "mix" | "skel" | "rand"
          Size,     \* family-specific bound (depth / spine length)
          Keep,     \* 1 = every enumerated case; n > 1 = the fixed (covering) part and every n-th case of the bulk part
          Seed,     \* offset of the n-th-case slices (VERIF_SEED)
          NParts,   \* number of slices (parallelism of the export inside one TLC)
          Shard, NShards  \* this TLC process enumerates shard Shard of 0..NShards-1 (several JVMs in parallel)

VARIABLES cs, done
vars == <<cs, done>>

Y == <<"id", "y">>
Z == <<"id", "z">>
Id(n) == <<"id", n>>

SpecialLeaves == {<<"num", "1">>, <<"str">>, <<"re">>, <<"tpl">>, <<"fn">>, <<"afn">>, <<"cls">>, <<"obj0">>,
                  <<"id", "let">>, <<"id", "async">>}

(* one representative per precedence level and associativity class *)
BinRep == {"??", "||", "&&", "|", "^", "&", "==", "<", "in", "instanceof", "<<", "+", "-", "*", "/", "**"}
AsgRep == {"=", "+=", "??="}
UnRep  == {"-", "+", "!", "typeof", "void", "delete"}
Ocs == {"no", "start", "cont"}

Ops1(x) ==
  {<<"un", o, x>> : o \in UnRep}
  \cup {<<"upd", o, f, x>> : o \in UpdOps, f \in {"pre", "post"}}
  \cup {<<"await", x>>, <<"yield", x>>, <<"yield*", x>>, <<"new0", x>>, <<"new", x, Y>>, <<"new", Y, x>>,
        <<"call", Y, x, "no">>, <<"callsp", Y, x>>, <<"idx", Y, x, "no">>, <<"tag", x>>,
        <<"arrow", "-", x>>, <<"arrow", "a", x>>, <<"obj", x>>, <<"arr", x>>, <<"sparr", x>>}
  \cup {<<"call", x, Y, oc>> : oc \in Ocs}
  \cup {<<"dot", x, "m", oc>> : oc \in Ocs}
  \cup {<<"idx", x, Y, oc>> : oc \in Ocs}

Ops2(x, y) ==
  {<<"bin", o, x, y>> : o \in BinRep}
  \cup {<<"asg", o, x, y>> : o \in AsgRep}
  \cup {<<"seq", x, y>>, <<"call", x, y, "no">>, <<"idx", x, y, "no">>, <<"new", x, y>>,
        <<"cond", x, y, Z>>, <<"cond", Z, x, y>>, <<"cond", x, Z, y>>}

OK(t) == WellFormed(t) /\ FnKindOK(t, FALSE)

(* Seeded slices of the bulk sets (everything when Keep = 1).  The slice is cut by arithmetic on the POSITIONS of  *)
(* the components (tree, skeleton, operator) in their fixed orders, so the product is never built; the multipliers  *)
(* are primes larger than any Keep, so every component value occurs in the slice with the same frequency.            *)
Hit(i, j, k) == (i * 7919 + j * 104729 + k * 611953 + Seed) % Keep = 0

Mk1(X) == {t \in UNION {Ops1(x) : x \in X} : OK(t)}
Mk2(X, W) == {t \in UNION {Ops2(x, w) : x \in X, w \in W} : OK(t)}

T0(p) == {Id(p)}
(* depth <= 1 over identifier leaves *)
T1(p) == T0(p) \cup Mk1(T0(p)) \cup Mk2(T0(p \o "0"), T0(p \o "1"))
(* depth <= 1 with one special leaf anywhere *)
T1s(p) == Mk1(SpecialLeaves) \cup Mk2(SpecialLeaves, T0(p \o "1")) \cup Mk2(T0(p \o "0"), SpecialLeaves) \cup SpecialLeaves
(* a reduced child alphabet: one node per level class *)
Core(p) == {t \in T1(p) :
   \/ Kind(t) \in {"id", "seq", "await", "yield", "new0", "tag", "obj"}
   \/ (Kind(t) = "cond" /\ t[4] = Z)
   \/ (Kind(t) = "new" /\ t[3] = Y)
   \/ (Kind(t) = "arrow" /\ t[2] = "-")
   \/ (Kind(t) = "asg" /\ t[2] = "=")
   \/ (Kind(t) = "bin" /\ t[2] \in {"??", "||", "|", "in", "+", "**"})
   \/ (Kind(t) = "un" /\ t[2] \in {"-", "typeof"})
   \/ (Kind(t) = "upd" /\ t[2] = "++")
   \/ (Kind(t) = "dot" /\ t[4] \in {"no", "start"})
   \/ (Kind(t) = "call" /\ t[4] \in {"no", "start"} /\ t[3] = Y)}
(* depth <= 2: every operator over every pair of children *)
T2(p, full) ==
  LET A == IF full THEN T1(p \o "0") ELSE Core(p \o "0")
      B == IF full THEN T1(p \o "1") ELSE Core(p \o "1") IN
  LET AS == SetToSeq(A) BS == SetToSeq(B)
      Mine == {j \in 1..Len(AS) : j % NShards = Shard}
      As == {AS[i] : i \in Mine} IN
  IF Keep = 1 THEN Mk1(As) \cup Mk2(As, B)
  ELSE \* the seeded slice over (left child, right child, operator) positions
       {t \in UNION {LET O == SetToSeq(Ops2(AS[q[1]], BS[q[2]])) IN {O[k] : k \in {n \in 1..Len(O) : Hit(q[1], q[2], n)}}
                      : q \in Mine \X (1..Len(BS))} : OK(t)}
       \cup {t \in UNION {LET O == SetToSeq(Ops1(AS[i])) IN {O[k] : k \in {n \in 1..Len(O) : Hit(i, 0, n)}} : i \in Mine} : OK(t)}

(***************************************************************************)
(* Spines: a hazard leaf at the far left (right) end of a chain of          *)
(* operators that keep it on the left (right) edge.                        *)
(***************************************************************************)
LeftOps(x) ==
  {<<"dot", x, "m", "no">>, <<"call", x, Y, "no">>, <<"idx", x, Y, "no">>, <<"tag", x>>,
   <<"bin", "+", x, Y>>, <<"seq", x, Y>>, <<"cond", x, Y, Z>>, <<"asg", "=", x, Y>>, <<"dot", x, "m", "start">>}
RightOps(x) ==
  {<<"bin", "+", Y, x>>, <<"bin", "||", Y, x>>, <<"un", "!", x>>, <<"asg", "=", Y, x>>,
   <<"cond", Y, Z, x>>, <<"seq", Y, x>>, <<"arrow", "-", x>>, <<"new", Y, x>>, <<"idx", Y, x, "no">>}

(* every operator class that keeps its first operand at the left edge (the start restrictions travel down this edge) *)
LeftOpsX(x) ==
  LeftOps(x) \cup
  {<<"call", x, Y, "start">>, <<"idx", x, Y, "start">>, <<"callsp", x, Y>>, <<"upd", "++", "post", x>>,
   <<"bin", "**", x, Y>>, <<"bin", "??", x, Y>>, <<"bin", "||", x, Y>>, <<"bin", "in", x, Y>>, <<"bin", "instanceof", x, Y>>,
   <<"bin", "<", x, Y>>, <<"bin", "/", x, Y>>, <<"asg", "+=", x, Y>>, <<"asg", "??=", x, Y>>}

(* Forwarding operators: one per operator class and operand position through which a restriction of the    *)
(* enclosing position ([~In] of a for-init, the start restrictions, the level) can reach an operand, plus   *)
(* the bracketing ones that must stop it.  core = the classes used for the exhaustive two-level chains.      *)
FwdCore(x) ==
  {<<"seq", x, Y>>, <<"seq", Y, x>>, <<"asg", "=", Y, x>>, <<"cond", x, Y, Z>>, <<"cond", Y, x, Z>>, <<"cond", Y, Z, x>>,
   <<"bin", "+", x, Y>>, <<"bin", "+", Y, x>>, <<"bin", "||", Y, x>>, <<"bin", "<", x, Y>>, <<"un", "!", x>>,
   <<"arrow", "-", x>>, <<"call", Y, x, "no">>, <<"idx", x, Y, "no">>}
FwdOps(x) ==
  FwdCore(x) \cup
  {<<"asg", "??=", Y, x>>, <<"asg", "+=", Y, x>>,
   <<"bin", "||", x, Y>>, <<"bin", "&&", x, Y>>, <<"bin", "&&", Y, x>>, <<"bin", "??", x, Y>>, <<"bin", "??", Y, x>>,
   <<"bin", "**", x, Y>>, <<"bin", "**", Y, x>>, <<"bin", "<", Y, x>>, <<"bin", "in", x, Y>>, <<"bin", "in", Y, x>>,
   <<"bin", "==", x, Y>>, <<"bin", "|", Y, x>>,
   <<"un", "typeof", x>>, <<"un", "-", x>>, <<"un", "void", x>>, <<"await", x>>, <<"yield", x>>, <<"yield*", x>>,
   <<"arrow", "a", x>>, <<"new0", x>>, <<"new", x, Y>>, <<"new", Y, x>>,
   <<"call", x, Y, "no">>, <<"call", x, Y, "start">>, <<"callsp", Y, x>>,
   <<"dot", x, "m", "no">>, <<"dot", x, "m", "start">>, <<"idx", Y, x, "no">>, <<"idx", x, Y, "start">>, <<"idx", Y, x, "start">>,
   <<"tag", x>>, <<"obj", x>>, <<"arr", x>>, <<"sparr", x>>, <<"upd", "++", "post", x>>, <<"upd", "--", "pre", x>>}

RECURSIVE Mix(_, _, _)
Mix(X, core, k) == IF k = 0 THEN X ELSE
  LET S == Mix(X, core, k - 1) IN
  S \cup {t \in UNION {IF core THEN FwdCore(s) ELSE FwdOps(s) : s \in S} : OK(t)}
(* exactly k operators: the chains of Mix(X, core, k) that are not already in Mix(X, core, k - 1) *)
MixNew(X, core, k) == Mix(X, core, k) \ Mix(X, core, k - 1)

RECURSIVE LeftSpine(_, _), RightSpine(_, _), LeftSpineX(_, _)
LeftSpineX(X, k) == IF k = 0 THEN X ELSE
  LET S == LeftSpineX(X, k - 1) IN S \cup {t \in UNION {LeftOpsX(s) : s \in S} : OK(t)}
LeftSpine(X, k) == IF k = 0 THEN X ELSE
  LET S == LeftSpine(X, k - 1) IN S \cup {t \in UNION {LeftOps(s) : s \in S} : OK(t)}
RightSpine(X, k) == IF k = 0 THEN X ELSE
  LET S == RightSpine(X, k - 1) IN S \cup {t \in UNION {RightOps(s) : s \in S} : OK(t)}

(* random composition of the same node classes to depth 3 (thorough tier; TLC's RandomElement, seeded by -seed) *)
RECURSIVE RandTree(_, _)
RandTree(d, p) ==
  IF d = 0 THEN (IF RandomElement(1..6) = 1 THEN RandomElement(SpecialLeaves) ELSE Id(p))
  ELSE LET x == RandTree(RandomElement(0..(d - 1)), p \o "0")
           y == RandTree(RandomElement(0..(d - 1)), p \o "1")
       IN RandomElement(Ops1(x) \cup Ops2(x, y))
RandTrees(n) == {t \in {RandTree(3, "a") : i \in 1..n} : OK(t) /\ Depth(t) >= 2}

SkelCore == {Id("a"), <<"seq", Id("a0"), Id("a1")>>, <<"asg", "=", Id("a0"), Id("a1")>>, <<"arrow", "-", Id("a")>>,
             <<"bin", "in", Id("a0"), Id("a1")>>, <<"cond", Id("a0"), Id("a1"), Z>>, <<"bin", "+", Id("a0"), Id("a1")>>, <<"un", "!", Id("a")>>,
             <<"obj0">>, <<"fn">>, <<"cls">>, <<"id", "let">>, <<"id", "async">>, <<"yield", Id("a")>>}

(* hazard leaf -> the skeletons whose start restriction concerns it *)
StartPairs ==
  {<<x, n>> : x \in {<<"obj0">>, <<"obj", Id("a")>>}, n \in {"exprstmt", "arrowbody", "label"}}
  \cup {<<x, n>> : x \in {<<"fn">>, <<"afn">>, <<"cls">>}, n \in {"exprstmt", "exportdefault", "ifelse"}}
  \cup {<<x, n>> : x \in {<<"id", "let">>, <<"idx", <<"id", "let">>, Y, "no">>}, n \in {"exprstmt", "forinit", "forin_lhs", "forof_lhs"}}
  \cup {<<x, n>> : x \in {<<"id", "async">>}, n \in {"forof_lhs", "exprstmt"}}
  \cup {<<x, n>> : x \in {<<"num", "1">>, <<"re">>}, n \in {"exprstmt"}}
InLeaves == {<<"bin", "in", Id("a"), Id("b")>>}
MixStartPairs ==
  {<<x, n>> : x \in {<<"obj0">>}, n \in {"exprstmt", "arrowbody"}}
  \cup {<<x, n>> : x \in {<<"fn">>, <<"cls">>}, n \in {"exprstmt", "exportdefault"}}
  \cup {<<x, n>> : x \in {<<"idx", <<"id", "let">>, Y, "no">>}, n \in {"exprstmt", "forinit"}}
  \cup {<<<<"id", "async">>, "forof_lhs">>, <<<<"id", "let">>, "forof_lhs">>}

(* prefix chains for the +/- gluing hazards *)
PrefixOps(x) == {<<"un", "-", x>>, <<"un", "+", x>>, <<"un", "!", x>>, <<"un", "typeof", x>>,
                 <<"upd", "--", "pre", x>>, <<"upd", "++", "pre", x>>}
RECURSIVE PrefixChain(_, _)
PrefixChain(X, k) == IF k = 0 THEN X ELSE
  LET S == PrefixChain(X, k - 1) IN S \cup {t \in UNION {PrefixOps(s) : s \in S} : OK(t)}
GlueTrees(k) ==
  LET RR == PrefixChain({Id("b"), <<"re">>, <<"num", "1">>}, k)
      L == {Id("a"), <<"upd", "++", "post", Id("a")>>, <<"upd", "--", "post", Id("a")>>} IN
  RR \cup {<<"bin", o, l, r>> : o \in {"+", "-", "<", ">", "/"}, l \in L, r \in RR}
     \cup {<<"bin", o, l, Id("b")>> : o \in {"in", "instanceof", "/", ">"}, l \in L \cup {<<"re">>, <<"num", "1">>}}

(* optional-chain / new-callee spines: all link sequences *)
LinkOps(x) ==
  {<<"dot", x, "m", oc>> : oc \in Ocs} \cup {<<"call", x, Y, oc>> : oc \in Ocs} \cup {<<"idx", x, Y, oc>> : oc \in Ocs}
  \cup {<<"tag", x>>, <<"new0", x>>, <<"new", x, Y>>}
RECURSIVE LinkChain(_, _)
LinkChain(X, k) == IF k = 0 THEN X ELSE
  LET S == LinkChain(X, k - 1) IN S \cup {t \in UNION {LinkOps(s) : s \in S} : OK(t)}

(***************************************************************************)
(* Statement skeletons: tokens before/after the hole, the context of the   *)
(* hole, the S-expression around it, the goal.                             *)
(***************************************************************************)
Sk(pre, post, ctx, sa, sb, goal) == [pre |-> pre, post |-> post, ctx |-> ctx, sa |-> sa, sb |-> sb, goal |-> goal]
SkelNames == {"exprstmt", "if", "while", "dowhile", "switch", "case", "forinit", "forvarinit", "forletinit", "forconstinit", "forvarinit2", "fortest", "forupdate",
              "forin_lhs", "forin_rhs", "forof_lhs", "forof_rhs", "return", "throw", "var", "let", "const",
              "exportdefault", "exportconst", "classfield", "classcomputed", "classextends", "label", "tplhole",
              "computedkey", "defaultparam", "arrowdefault", "import", "with", "ifelse", "arrowbody"}
Skel(n) ==
  CASE n = "exprstmt" -> Sk(<<>>, <<";">>, TopCtx(LComma, FALSE, "stmt"), "(prog (expr ", "))", "any")
    [] n = "if" -> Sk(<<"if", "(">>, <<")", ";">>, InnerCtx(LComma), "(prog (if ", " (empty) -))", "any")
    [] n = "ifelse" -> Sk(<<"if", "(", "y", ")">>, <<";", "else", "z", ";">>, TopCtx(LComma, FALSE, "stmt"), "(prog (if (id y) (expr ", ") (expr (id z))))", "any")
    [] n = "while" -> Sk(<<"while", "(">>, <<")", "break", ";">>, InnerCtx(LComma), "(prog (while ", " (break -)))", "any")
    [] n = "dowhile" -> Sk(<<"do", "break", ";", "while", "(">>, <<")", ";">>, InnerCtx(LComma), "(prog (dowhile (break -) ", "))", "any")
    [] n = "switch" -> Sk(<<"switch", "(">>, <<")", "{", "}">>, InnerCtx(LComma), "(prog (switch ", "))", "any")
    [] n = "case" -> Sk(<<"switch", "(", "y", ")", "{", "case">>, <<":", "}">>, TopCtx(LComma, FALSE, "none"), "(prog (switch (id y) (case ", ")))", "any")
    [] n = "forinit" -> Sk(<<"for", "(">>, <<";", ";", ")", "break", ";">>, TopCtx(LComma, TRUE, "forinit"), "(prog (for ", " - - (break -)))", "any")
    [] n = "forvarinit" -> Sk(<<"for", "(", "var", "v", "=">>, <<";", ";", ")", "break", ";">>, TopCtx(LAssign, TRUE, "none"), "(prog (for (var (decl (id v) ", ")) - - (break -)))", "any")
    [] n = "forletinit" -> Sk(<<"for", "(", "let", "v", "=">>, <<";", ";", ")", "break", ";">>, TopCtx(LAssign, TRUE, "none"), "(prog (for (let (decl (id v) ", ")) - - (break -)))", "any")
    [] n = "forconstinit" -> Sk(<<"for", "(", "const", "v", "=">>, <<";", ";", ")", "break", ";">>, TopCtx(LAssign, TRUE, "none"), "(prog (for (const (decl (id v) ", ")) - - (break -)))", "any")
    [] n = "forvarinit2" -> Sk(<<"for", "(", "var", "u", "=", "1", ",", "v", "=">>, <<";", ";", ")", "break", ";">>, TopCtx(LAssign, TRUE, "none"), "(prog (for (var (decl (id u) (num 1)) (decl (id v) ", ")) - - (break -)))", "any")
    [] n = "fortest" -> Sk(<<"for", "(", ";">>, <<";", ")", "break", ";">>, InnerCtx(LComma), "(prog (for - ", " - (break -)))", "any")
    [] n = "forupdate" -> Sk(<<"for", "(", ";", ";">>, <<")", "break", ";">>, InnerCtx(LComma), "(prog (for - - ", " (break -)))", "any")
    [] n = "forin_lhs" -> Sk(<<"for", "(">>, <<"in", "y", ")", ";">>, TopCtx(LLhs, FALSE, "forin"), "(prog (forin ", " (id y) (empty)))", "any")
    [] n = "forin_rhs" -> Sk(<<"for", "(", "v", "in">>, <<")", ";">>, InnerCtx(LComma), "(prog (forin (id v) ", " (empty)))", "any")
    [] n = "forof_lhs" -> Sk(<<"for", "(">>, <<"of", "y", ")", ";">>, TopCtx(LLhs, FALSE, "forof"), "(prog (forof ", " (id y) (empty)))", "any")
    [] n = "forof_rhs" -> Sk(<<"for", "(", "v", "of">>, <<")", ";">>, InnerCtx(LAssign), "(prog (forof (id v) ", " (empty)))", "any")
    [] n = "return" -> Sk(<<"function", "w", "(", ")", "{", "return">>, <<";", "}">>, TopCtx(LComma, FALSE, "none"), "(prog (fndecl - w (params) (body (return ", "))))", "any")
    [] n = "throw" -> Sk(<<"throw">>, <<";">>, TopCtx(LComma, FALSE, "none"), "(prog (throw ", "))", "any")
    [] n = "var" -> Sk(<<"var", "v", "=">>, <<";">>, TopCtx(LAssign, FALSE, "none"), "(prog (var (decl (id v) ", ")))", "any")
    [] n = "let" -> Sk(<<"let", "v", "=">>, <<";">>, TopCtx(LAssign, FALSE, "none"), "(prog (let (decl (id v) ", ")))", "any")
    [] n = "const" -> Sk(<<"const", "v", "=">>, <<";">>, TopCtx(LAssign, FALSE, "none"), "(prog (const (decl (id v) ", ")))", "any")
    [] n = "exportdefault" -> Sk(<<"export", "default">>, <<";">>, TopCtx(LAssign, FALSE, "exportdefault"), "(prog (exportdefault ", "))", "module")
    [] n = "exportconst" -> Sk(<<"export", "const", "v", "=">>, <<";">>, TopCtx(LAssign, FALSE, "none"), "(prog (export (const (decl (id v) ", ")) -))", "module")
    [] n = "classfield" -> Sk(<<"class", "C", "{", "f", "=">>, <<";", "}">>, TopCtx(LAssign, FALSE, "none"), "(prog (classdecl C - (field - (key f) ", ")))", "any")
    [] n = "classcomputed" -> Sk(<<"class", "C", "{", "[">>, <<"]", ";", "}">>, InnerCtx(LAssign), "(prog (classdecl C - (field - (computed ", ") -)))", "any")
    [] n = "classextends" -> Sk(<<"class", "C", "extends">>, <<"{", "}">>, TopCtx(LLhs, FALSE, "none"), "(prog (classdecl C ", "))", "any")
    [] n = "label" -> Sk(<<"l", ":">>, <<";">>, TopCtx(LComma, FALSE, "stmt"), "(prog (label l (expr ", ")))", "any")
    [] n = "tplhole" -> Sk(<<"x", "=", "`a${">>, <<"}b`", ";">>, InnerCtx(LComma), "(prog (expr (asg = (id x) (tpl c:0061 c:0062 | ", "))))", "any")
    [] n = "computedkey" -> Sk(<<"x", "=", "{", "[">>, <<"]", ":", "1", "}", ";">>, InnerCtx(LAssign), "(prog (expr (asg = (id x) (obj (prop (computed ", ") (num 1))))))", "any")
    [] n = "defaultparam" -> Sk(<<"function", "w", "(", "a", "=">>, <<")", "{", "}">>, InnerCtx(LAssign), "(prog (fndecl - w (params (pdef (id a) ", ")) (body)))", "any")
    [] n = "arrowdefault" -> Sk(<<"x", "=", "(", "a", "=">>, <<")", "=>", "1", ";">>, InnerCtx(LAssign), "(prog (expr (asg = (id x) (arrow - (params (pdef (id a) ", ")) (num 1)))))", "any")
    [] n = "arrowbody" -> Sk(<<"x", "=", "(", ")", "=>">>, <<";">>, TopCtx(LAssign, FALSE, "arrowbody"), "(prog (expr (asg = (id x) (arrow - (params) ", "))))", "any")
    [] n = "import" -> Sk(<<"import", "(">>, <<")", ";">>, InnerCtx(LAssign), "(prog (expr (import() ", ")))", "any")
    [] n = "with" -> Sk(<<"with", "(">>, <<")", ";">>, InnerCtx(LComma), "(prog (with ", " (empty)))", "sloppy")

(* function wrapper demanded by yield / await inside the tree *)
WrapKind(t) ==
  LET y == Has(t, {"yield", "yield*", "yield0"})
      \* an await directly in the tree (not inside an async arrow, which provides its own context)
      RECURSIVE TopAwait(_)
      TopAwait(u) == IF Kind(u) = "arrow" THEN FALSE
                     ELSE Kind(u) = "await" \/ \E i \in 1..Len(Kids(u)) : TopAwait(Kids(u)[i])
      a == TopAwait(t) IN
  IF y /\ a THEN "ag" ELSE IF y THEN "g" ELSE IF a THEN "a" ELSE "-"

WrapPre(w) == CASE w = "-" -> <<>>
                [] w = "g" -> <<"function", "*", "w", "(", ")", "{">>
                [] w = "a" -> <<"async", "function", "w", "(", ")", "{">>
                [] w = "ag" -> <<"async", "function", "*", "w", "(", ")", "{">>
(* the wrapper is also invoked, so that the wrapped expression is executed by the probe runs *)
WrapPost(w) == CASE w = "-" -> <<>>
                 [] w = "g" -> <<"}", "[", "...", "w", "(", ")", "]", ";">>
                 [] w = "a" -> <<"}", "w", "(", ")", ";">>
                 [] w = "ag" -> <<"}", "w", "(", ")", ".", "next", "(", ")", ";">>
WrapSa(w) == IF w = "-" THEN "" ELSE "(fndecl " \o w \o " w (params) (body "
WrapSb(w) == CASE w = "-" -> ""
               [] w = "g" -> ")) (expr (arr (spread (call (id w)))))"
               [] w = "a" -> ")) (expr (call (id w)))"
               [] w = "ag" -> ")) (expr (call (dot (call (id w)) next)))"

(* skeletons that may be placed inside the generator / async function a yield / await in the tree demands *)
ForInitSkels == {"forinit", "forvarinit", "forletinit", "forconstinit", "forvarinit2"}
WrapSkels == {"exprstmt"} \cup ForInitSkels

(* trees admissible in a skeleton *)
Admissible(t, n) ==
  /\ (n \in {"forin_lhs", "forof_lhs"}) => IsSimpleTarget(t)
  /\ (n \notin WrapSkels) => WrapKind(t) = "-"
  /\ (n = "exprstmt") => Kind(t) # "str"          \* a bare string statement is a directive
  /\ (n = "label") => Kind(t) # "str"
  /\ (n = "ifelse") => Kind(t) # "str"
  /\ (n \in {"classfield", "classcomputed", "classextends", "exportdefault", "exportconst"}) => ~HasId(t, {"let"})  \* strict code

(***************************************************************************)
(* The case sets.                                                          *)
(***************************************************************************)
On(S, names) == {[t |-> t, sk |-> n] : t \in S, n \in names}
SampleOn(S, names) ==
  IF Keep = 1 THEN On(S, names)
  ELSE LET T == SetToSeq(S) N == SetToSeq(names) IN
       {[t |-> T[q[1]], sk |-> N[q[2]]] : q \in {x \in (1..Len(T)) \X (1..Len(N)) : Hit(x[1], x[2], 0)}}
Adm(C) == {c \in C : Admissible(c.t, c.sk)}

(* (an operator WITH a parameter: TLC evaluates zero-arity constant definitions eagerly *)
(* in a mode that does not cache operator arguments, which is far slower)               *)
CasesOf(Family_) ==
  CASE Family = "expr" ->
         \* Size 1: depth <= 1 incl. special leaves; 2: depth <= 2 reduced children; 3: depth <= 2 full children
         \* fixed: depth <= 1 (shard 0); bulk: depth 2
         Adm(On((IF Shard = 0 THEN T1("a") \cup T1s("a") ELSE {}) \cup (IF Size >= 2 THEN T2("a", Size >= 3) ELSE {}), {"exprstmt"}))
    [] Family = "spine" ->
         \* fixed: the start-restricted leaves under every single left-edge operator (and the classic ones to Size - 1), the gluing
         \* families one level shorter plus all prefix-operator chains and `a < !--b`, all link chains; bulk: everything at full length
         Adm(UNION {On(LeftSpine({pr[1]}, Size - 1) \cup LeftSpineX({pr[1]}, 1), {pr[2]}) : pr \in StartPairs}
             \cup On(GlueTrees(Size - 1) \cup PrefixChain({Id("b"), <<"re">>, <<"num", "1">>}, Size)
                     \cup {<<"bin", "<", Id("a"), <<"un", "!", <<"upd", "--", "pre", Id("b")>>>>>>}, {"exprstmt"})
             \cup On(LinkChain({Id("a")}, Size), {"exprstmt"})
             \cup UNION {SampleOn(LeftSpineX({pr[1]}, Size), {pr[2]}) : pr \in StartPairs}
             \cup SampleOn(GlueTrees(Size), {"exprstmt"}))
    [] Family = "mix" ->
         \* the `in` leaf under chains of forwarding operators in every kind of for-init (and as a plain statement: no
         \* parentheses may be lost or invented there); the start-restricted leaves under the same chains.
         \* fixed: every chain of <= 1 operator, every chain of 2 core operators; bulk: up to Size operators of all classes
         Adm(On(Mix(InLeaves, FALSE, 1), ForInitSkels \cup {"exprstmt"})
             \cup On(Mix(InLeaves, TRUE, 2), {"forinit", "forletinit"})
             \cup UNION {On(Mix({pr[1]}, FALSE, 1), {pr[2]}) : pr \in MixStartPairs}
             \cup SampleOn(Mix(InLeaves, FALSE, 2) \cup (IF Size >= 3 THEN Mix(InLeaves, TRUE, 3) ELSE {}), ForInitSkels \cup {"exprstmt", "forin_rhs", "arrowbody"})
             \cup UNION {SampleOn(Mix({pr[1]}, FALSE, 2), {pr[2]}) : pr \in MixStartPairs})
    [] Family = "rand" -> Adm(On(RandTrees(Size), {"exprstmt"}))
    [] Family = "skel" ->
         \* fixed: one tree per level class and restricted leaf in every skeleton; bulk: all depth <= 1 trees
         Adm(On(SkelCore, SkelNames)
             \cup SampleOn(T1("a") \cup SpecialLeaves \cup (IF Size >= 2 THEN Mk1(SpecialLeaves) ELSE {}), SkelNames))

ASSUME Family \in {"expr", "spine", "mix", "skel", "rand"}

CaseCtx(c) == Skel(c.sk).ctx
Toks(c, body) ==
  LET w == WrapKind(c.t) s == Skel(c.sk) IN WrapPre(w) \o s.pre \o body \o s.post \o WrapPost(w)
CaseSexp(c) ==
  LET w == WrapKind(c.t) s == Skel(c.sk) IN
  IF w = "-" THEN s.sa \o Sexp(c.t) \o s.sb
  ELSE IF c.sk = "exprstmt" THEN "(prog " \o WrapSa(w) \o "(expr " \o Sexp(c.t) \o ")" \o WrapSb(w) \o ")"
  \* s.sa = "(prog " \o statement prefix, s.sb = statement suffix \o ")": the statement moves into the wrapper's body
  ELSE "(prog " \o WrapSa(w) \o SubSeq(s.sa, 7, Len(s.sa)) \o Sexp(c.t) \o SubSeq(s.sb, 1, Len(s.sb) - 1) \o WrapSb(w) \o ")"

(* everything that is computed once per case: the two renderings and the labels *)
Prep(c) ==
  LET r == RM(c.t, CaseCtx(c)) IN
  [t |-> c.t, sk |-> c.sk, min |-> r.ts, full |-> RenderFullTop(c.t),
   labels |-> LabelsOf(c.t, r)
              \cup (IF Foldable(c.t) \/ (c.sk = "import" /\ (Kind(c.t) = "cond" \/ TypeKnown(c.t))) THEN {"foldable"} ELSE {})]
CaseLabels(c) == Prep(c).labels

CaseRec(p) ==
  [spec |-> "JsSyntax", family |-> Family, skel |-> p.sk,
   goal |-> IF HasId(p.t, {"let"}) \/ Skel(p.sk).goal = "sloppy" THEN "sloppy" ELSE Skel(p.sk).goal,
   full |-> Toks(p, p.full),
   min |-> Toks(p, p.min),
   sexp |-> CaseSexp(p),
   depth |-> Depth(p.t),
   labels |-> p.labels]

(***************************************************************************)
(* The behaviour.  The prepared cases are computed once at start-up (TLC   *)
(* caches operator arguments only at constant level and inside actions,    *)
(* not in Init or invariants) and parked in TLC register 1, which the main *)
(* thread publishes to every worker; Fan cuts them into NParts slices and  *)
(* Work checks the round trips on every case of a slice and exports it.    *)
(* done = "bad" iff a round trip failed (invariant AllRoundTrips).         *)
(***************************************************************************)
PrepSeq == TLCGet(1)
Slice(k) == LET S == PrepSeq IN {S[i] : i \in {j \in 1..Len(S) : j % NParts = k - 1}}

(* the tables validate each other: reading the minimal rendering gives the tree back *)
RoundTrip(p) == Read(p.min, CaseCtx(p)) = p.t
(* and so does reading the fully parenthesised rendering *)
RoundTripFull(p) == Read(p.full, TopCtx(LComma, FALSE, "none")) = p.t
(* sanity: the minimal rendering is not longer than the full one (+2 for `(let)` / `(async)`) *)
MinIsShorter(p) == Len(p.min) <= Len(p.full) + 2
CaseOK(p) ==
  IF RoundTrip(p) /\ RoundTripFull(p) /\ MinIsShorter(p) THEN TRUE
  ELSE Print(<<"ROUNDTRIP-FAIL", p, Read(p.min, CaseCtx(p)), Read(p.full, TopCtx(LComma, FALSE, "none"))>>, FALSE)

(* expr is sharded while it is built (T2); the other families by index *)
ShardSeq(S) == IF NShards = 1 \/ Family = "expr" THEN S
               ELSE LET I == SetToSeq({j \in 1..Len(S) : j % NShards = Shard}) IN [k \in 1..Len(I) |-> S[I[k]]]
ASSUME TLCSet(1, LET S == ShardSeq(SetToSeq(CasesOf(Family))) IN [i \in 1..Len(S) |-> Prep(S[i])])
ASSUME TLCSet(2, LET S == TLCGet(1) IN UNION {S[i].labels : i \in 1..Len(S)})
ASSUME PrintT(<<"NCASES", Len(TLCGet(1))>>)
ASSUME PrintT(<<"LABELS", ToJson(TLCGet(2))>>)
Init == cs = 0 /\ done = "no"
Fan == cs = 0 /\ cs' \in 1..NParts /\ done' = done
Work == /\ cs > 0 /\ done = "no"
        /\ cs' = cs
        /\ LET sl == Slice(cs) bad == {p \in sl : ~CaseOK(p)} IN
           /\ \A p \in sl : PrintT(<<"CASE", ToJson(CaseRec(p))>>)
           /\ done' = IF bad = {} THEN "ok" ELSE "bad"
Next == Fan \/ Work
Spec == Init /\ [][Next]_vars

AllRoundTrips == done # "bad"

(* non-vacuity: every hazard label the family is meant to exercise is inhabited *)
Required ==
  CASE Family = "expr" ->
         {"start-brace", "start-function", "start-async-function", "start-class",
          "glue-keyword-ident", "glue-ident-keyword", "glue-div-regexp", "glue-regexp-keyword", "glue-num-dot"}
         \cup (IF Size >= 2 /\ Keep = 1 THEN {"paren-comma", "paren-assign", "paren-arrow", "paren-yield", "paren-cond", "paren-binary",
                                  "paren-unary", "paren-update", "new-callee-call", "new-noargs-member", "optchain-paren",
                                  "paren-exp", "paren-nullish", "exp-unary-left", "nullish-mix", "new-callee-optchain",
                                  "optchain-tag", "glue-minus", "glue-plus"} ELSE {})
    [] Family = "spine" ->
         {"start-brace", "start-function", "start-async-function", "start-class", "start-let-bracket", "forof-let",
          "forof-async", "glue-minus", "glue-plus", "glue-div-regexp", "glue-regexp-keyword",
          "glue-lt-bang", "glue-dashdash-gt", "glue-html-comment-open", "new-callee-call", "new-callee-optchain",
          "optchain-paren", "optchain-tag", "new-noargs-member", "glue-num-dot"}
    [] Family = "rand" -> {}
    [] Family = "mix" ->
         {"paren-comma", "paren-assign", "paren-arrow", "paren-cond", "paren-binary", "paren-unary", "forinit-in",
          "start-brace", "start-function", "start-class", "start-let-bracket", "forof-let", "forof-async"}
    [] Family = "skel" ->
         {"paren-comma", "paren-assign", "paren-arrow", "forinit-in", "start-brace", "start-function", "start-class",
          "forof-async", "forof-let", "paren-cond", "paren-binary", "paren-unary"}
AllLabels == TLCGet(2)
Missing == Required \ AllLabels
(* with several shards (one TLC process each) the harness intersects the per-shard Missing sets *)
Inhabited == done \in STRING /\ (IF Missing = {} \/ NShards > 1 THEN TRUE ELSE Print(<<"MISSING-LABELS", Missing>>, FALSE))
ASSUME PrintT(<<"CASE", ToJson([is_missing |-> TRUE, family |-> Family, missing |-> Missing])>>)
=============================================================================
