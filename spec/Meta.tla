------------------------------- MODULE Meta -------------------------------
(***************************************************************************)
(* The byte accounting of the metafile (C19), as a piece algebra.          *)
(*                                                                         *)
(* Transcribed from internal/linker/linker.go: a chunk is printed with     *)
(* placeholders (unique keys, all of the same length KeyLen) where paths   *)
(* of other chunks / assets will go (breakOutputIntoPieces); the metafile  *)
(* entry of the chunk is produced by jsonMetadataChunkCallback AFTER the   *)
(* final paths are known:                                                  *)
(*   bytesInOutput(input) = SUM over the slices printed for that input of  *)
(*                          accurateFinalByteCount(slice)                  *)
(*                        = SUM |piece.data| + SUM |final path_i|          *)
(*   bytes(output)        = len(outputContents) measured after             *)
(*                          substituteFinalPaths and after the legal-      *)
(*                          comment link and the source-map comment were   *)
(*                          appended                                       *)
(*                                                                         *)
(* The output under construction is a sequence of slices; a slice belongs  *)
(* to an input (owner > 0) or is glue printed by the linker itself (owner  *)
(* 0: import statements, runtime, file comments); a slice is a sequence of *)
(* tokens: data of n bytes, or a key.  A key has a KIND - it stands for    *)
(* the path of an emitted asset (outputPieceAssetIndex: the number is the   *)
(* source index of the file-loader input) or of another chunk              *)
(* (outputPieceChunkIndex: the number is the chunk index) - and the two    *)
(* kinds number their referents independently: asset 2 and chunk 2 are     *)
(* different files with different final paths.  The final path lengths     *)
(* (alen, clen) are chosen arbitrarily per referent; one output may hold   *)
(* several keys of both kinds with equal numbers.  Bytes are modelled one  *)
(* by one (Flatten) so that "the length after substitution" is computed by *)
(* really concatenating, independently of the accounting rule it is        *)
(* compared with.                                                          *)
(***************************************************************************)
EXTENDS Integers, Sequences, FiniteSets, TLC

CONSTANTS KeyLen,      \* length of a unique key
          DataLens,    \* lengths of data pieces
          PathLens,    \* lengths of final (relative or public) paths
          AssetIdx,    \* numbers of the referenced assets (source indices)
          ChunkIdx,    \* numbers of the referenced chunks (chunk indices)
          MaxKeys,     \* placeholders per output
          MaxToks,     \* tokens per slice
          MaxSlices,   \* slices per output
          Inputs,      \* input ids (positive numbers)
          TrailerLens  \* lengths of the link comments appended after substitution

VARIABLES slices,  \* sequence of [owner, toks]
          trailer, \* bytes appended after substitution (legal link + sourceMappingURL)
          alen,    \* final path length of every asset
          clen     \* final path length of every chunk
vars == <<slices, trailer, alen, clen>>

Data(n) == [t |-> "data", n |-> n]
Key(k, x) == [t |-> k, n |-> x]   \* k: "asset" | "chunk"; x: the number of the referent within its kind

\* the length of the path a key is replaced by (substituteFinalPaths)
PathLen(tok, al, cl) == IF tok.t = "asset" THEN al[tok.n] ELSE cl[tok.n]

RECURSIVE Cells(_, _)
Cells(n, x) == IF n = 0 THEN <<>> ELSE <<x>> \o Cells(n - 1, x)

\* the real bytes of a token before / after substitution, tagged with the owner
InterTok(o, tok) == IF tok.t = "data" THEN Cells(tok.n, o) ELSE Cells(KeyLen, o)
FinalTok(o, tok) == IF tok.t = "data" THEN Cells(tok.n, o) ELSE Cells(PathLen(tok, alen, clen), o)

RECURSIVE FlattenToks(_, _, _)
FlattenToks(o, toks, final) ==
  IF toks = <<>> THEN <<>>
  ELSE (IF final THEN FinalTok(o, Head(toks)) ELSE InterTok(o, Head(toks))) \o FlattenToks(o, Tail(toks), final)
RECURSIVE Flatten(_, _)
Flatten(ss, final) == IF ss = <<>> THEN <<>> ELSE FlattenToks(Head(ss).owner, Head(ss).toks, final) \o Flatten(Tail(ss), final)

\* what is written to disk
FinalBytes == Flatten(slices, TRUE) \o Cells(trailer, 0)

\* accurateFinalByteCount of one slice: data lengths + the final path length of
\* every key, looked up by kind AND number
RECURSIVE Accurate(_, _, _)
Accurate(toks, al, cl) ==
  IF toks = <<>> THEN 0
  ELSE (IF Head(toks).t = "data" THEN Head(toks).n ELSE PathLen(Head(toks), al, cl)) + Accurate(Tail(toks), al, cl)
\* a tempting wrong rule: the length of the slice as printed (keys not yet substituted)
RECURSIVE Naive(_)
Naive(toks) == IF toks = <<>> THEN 0 ELSE (IF Head(toks).t = "data" THEN Head(toks).n ELSE KeyLen) + Naive(Tail(toks))
\* another one: path lengths remembered per NUMBER only (memo: number -> length,
\* 0 = not yet seen), so that asset x and chunk x share one entry
RECURSIVE ByNumberOnly(_, _, _, _)
ByNumberOnly(toks, memo, al, cl) ==
  IF toks = <<>> THEN 0
  ELSE LET tok == Head(toks) IN
       IF tok.t = "data" THEN tok.n + ByNumberOnly(Tail(toks), memo, al, cl)
       ELSE LET l == IF memo[tok.n] # 0 THEN memo[tok.n] ELSE PathLen(tok, al, cl)
            IN l + ByNumberOnly(Tail(toks), [memo EXCEPT ![tok.n] = l], al, cl)

RECURSIVE SumOwner(_, _)
SumOwner(ss, i) ==
  IF ss = <<>> THEN 0
  ELSE (IF Head(ss).owner = i THEN Accurate(Head(ss).toks, alen, clen) ELSE 0) + SumOwner(Tail(ss), i)

\* the metafile entry of the output
BytesInOutput(i) == SumOwner(slices, i)
MetaBytes == Len(FinalBytes)

RECURSIVE SumAll(_)
SumAll(S) == IF S = {} THEN 0 ELSE LET i == CHOOSE x \in S : TRUE IN BytesInOutput(i) + SumAll(S \ {i})

NumKeysIn(toks) == Cardinality({k \in 1..Len(toks) : toks[k].t # "data"})
RECURSIVE NumKeys(_)
NumKeys(ss) == IF ss = <<>> THEN 0 ELSE NumKeysIn(Head(ss).toks) + NumKeys(Tail(ss))

Init == /\ slices = <<>> /\ trailer = 0
        /\ alen \in [AssetIdx -> PathLens]
        /\ clen \in [ChunkIdx -> PathLens]
NewSlice(o) == /\ Len(slices) < MaxSlices
               /\ slices' = Append(slices, [owner |-> o, toks |-> <<>>])
               /\ UNCHANGED <<trailer, alen, clen>>
AddTok(tok) == /\ slices # <<>>
               /\ trailer = 0
               /\ Len(slices[Len(slices)].toks) < MaxToks
               /\ (tok.t # "data" => NumKeys(slices) < MaxKeys)
               /\ slices' = [slices EXCEPT ![Len(slices)].toks = Append(@, tok)]
               /\ UNCHANGED <<trailer, alen, clen>>
AddTrailer(n) == trailer = 0 /\ n > 0 /\ trailer' = n /\ UNCHANGED <<slices, alen, clen>>
Next == \/ \E o \in Inputs \cup {0} : trailer = 0 /\ NewSlice(o)
        \/ \E n \in DataLens : AddTok(Data(n))
        \/ \E x \in AssetIdx : AddTok(Key("asset", x))
        \/ \E x \in ChunkIdx : AddTok(Key("chunk", x))
        \/ \E n \in TrailerLens : AddTrailer(n)
Spec == Init /\ [][Next]_vars

(***************************************************************************)
(* Properties                                                              *)
(***************************************************************************)
\* the accounting rule equals the length after substitution: what is attributed
\* to the inputs + the glue (owner 0, by the same rule) + the trailer is the file
BytesExact == MetaBytes = SumOwner(slices, 0) + SumAll(Inputs) + trailer
\* the bytes attributed to an input are exactly the bytes of the final file that it owns
ContributionExact == \A i \in Inputs : BytesInOutput(i) = Cardinality({k \in 1..Len(FinalBytes) : FinalBytes[k] = i})
ContributionsBounded == SumAll(Inputs) <= MetaBytes
\* an input without a slice contributes nothing
ShakenContributeZero == \A i \in Inputs : (\A k \in 1..Len(slices) : slices[k].owner # i) => BytesInOutput(i) = 0

\* the wrong rules differ from the truth on outputs of this model, i.e. the
\* specification tells them apart (checked on the constants, see the cfg):
\* counting before substitution, as soon as one path has another length than
\* the key; remembering lengths per number only, as soon as an asset and a
\* chunk with the same number have paths of different lengths in one output
NaiveIsWrongFor(l) == Naive(<<Key("asset", 1)>>) # Accurate(<<Key("asset", 1)>>, [x \in {1} |-> l], [x \in {1} |-> l])
ASSUME \E l \in PathLens : NaiveIsWrongFor(l)
ASSUME MaxKeys >= 2 /\ AssetIdx \cap ChunkIdx # {} /\
       \E x \in AssetIdx \cap ChunkIdx : \E la, lc \in PathLens :
          LET al == [y \in AssetIdx |-> la]
              cl == [y \in ChunkIdx |-> lc]
              toks == <<Key("asset", x), Key("chunk", x)>>
          IN ByNumberOnly(toks, [y \in AssetIdx \cup ChunkIdx |-> 0], al, cl) # Accurate(toks, al, cl)
=============================================================================
