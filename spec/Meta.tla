------------------------------- MODULE Meta -------------------------------
(***************************************************************************)
(* The byte accounting of the metafile (C19), as a piece algebra.          *)
(*                                                                         *)
(* Transcribed from internal/linker/linker.go: a chunk is printed with     *)
(* placeholders (unique keys, all of the same length KeyLen) where paths   *)
(* of other chunks / assets will go (breakOutputIntoPieces); the metafile  *)
(* entry of the chunk is produced by jsonMetadataChunkCallback AFTER the   *)
(* final paths are known:                                                  *)
(*   bytesInOutput(input) = SUM over the slices printed for that input of  *)
(*                          accurateFinalByteCount(slice)                  *)
(*                        = SUM |piece.data| + SUM |final path_i|          *)
(*   bytes(output)        = len(outputContents) measured after             *)
(*                          substituteFinalPaths and after the legal-      *)
(*                          comment link and the source-map comment were   *)
(*                          appended                                       *)
(*                                                                         *)
(* The output under construction is a sequence of slices; a slice belongs  *)
(* to an input (owner > 0) or is glue printed by the linker itself (owner  *)
(* 0: import statements, runtime, file comments); a slice is a sequence of *)
(* tokens: data of n bytes, or a key standing for a path of final length   *)
(* L.  Bytes are modelled one by one (Flatten) so that "the length after   *)
(* substitution" is computed by really concatenating, independently of the *)
(* accounting rule it is compared with.                                    *)
(***************************************************************************)
EXTENDS Integers, Sequences, FiniteSets, TLC

CONSTANTS KeyLen,      \* length of a unique key
          DataLens,    \* lengths of data pieces
          PathLens,    \* lengths of final (relative or public) paths
          MaxKeys,     \* placeholders per output
          MaxToks,     \* tokens per slice
          MaxSlices,   \* slices per output
          Inputs,      \* input ids (positive numbers)
          TrailerLens  \* lengths of the link comments appended after substitution

VARIABLES slices,  \* sequence of [owner, toks]
          trailer  \* bytes appended after substitution (legal link + sourceMappingURL)
vars == <<slices, trailer>>

Data(n) == [t |-> "data", n |-> n]
Key(l) == [t |-> "key", n |-> l]

RECURSIVE Cells(_, _)
Cells(n, x) == IF n = 0 THEN <<>> ELSE <<x>> \o Cells(n - 1, x)

\* the real bytes of a token before / after substitution, tagged with the owner
InterTok(o, tok) == IF tok.t = "data" THEN Cells(tok.n, o) ELSE Cells(KeyLen, o)
FinalTok(o, tok) == Cells(tok.n, o)   \* data: n bytes; key: the final path of length n

RECURSIVE FlattenToks(_, _, _)
FlattenToks(o, toks, final) ==
  IF toks = <<>> THEN <<>>
  ELSE (IF final THEN FinalTok(o, Head(toks)) ELSE InterTok(o, Head(toks))) \o FlattenToks(o, Tail(toks), final)
RECURSIVE Flatten(_, _)
Flatten(ss, final) == IF ss = <<>> THEN <<>> ELSE FlattenToks(Head(ss).owner, Head(ss).toks, final) \o Flatten(Tail(ss), final)

\* what is written to disk
FinalBytes == Flatten(slices, TRUE) \o Cells(trailer, 0)

\* accurateFinalByteCount of one slice: data lengths + final path lengths
RECURSIVE Accurate(_)
Accurate(toks) == IF toks = <<>> THEN 0 ELSE Head(toks).n + Accurate(Tail(toks))
\* the tempting wrong rule: the length of the slice as printed (keys not yet substituted)
RECURSIVE Naive(_)
Naive(toks) == IF toks = <<>> THEN 0 ELSE (IF Head(toks).t = "data" THEN Head(toks).n ELSE KeyLen) + Naive(Tail(toks))

RECURSIVE SumOwner(_, _, _)
SumOwner(ss, i, naive) ==
  IF ss = <<>> THEN 0
  ELSE (IF Head(ss).owner = i THEN (IF naive THEN Naive(Head(ss).toks) ELSE Accurate(Head(ss).toks)) ELSE 0) + SumOwner(Tail(ss), i, naive)

\* the metafile entry of the output
BytesInOutput(i) == SumOwner(slices, i, FALSE)
MetaBytes == Len(FinalBytes)

RECURSIVE SumAll(_)
SumAll(S) == IF S = {} THEN 0 ELSE LET i == CHOOSE x \in S : TRUE IN BytesInOutput(i) + SumAll(S \ {i})

NumKeysIn(toks) == Cardinality({k \in 1..Len(toks) : toks[k].t = "key"})
RECURSIVE NumKeys(_)
NumKeys(ss) == IF ss = <<>> THEN 0 ELSE NumKeysIn(Head(ss).toks) + NumKeys(Tail(ss))

Init == slices = <<>> /\ trailer = 0
NewSlice(o) == /\ Len(slices) < MaxSlices
               /\ slices' = Append(slices, [owner |-> o, toks |-> <<>>])
               /\ UNCHANGED trailer
AddTok(tok) == /\ slices # <<>>
               /\ trailer = 0
               /\ Len(slices[Len(slices)].toks) < MaxToks
               /\ (tok.t = "key" => NumKeys(slices) < MaxKeys)
               /\ slices' = [slices EXCEPT ![Len(slices)].toks = Append(@, tok)]
               /\ UNCHANGED trailer
AddTrailer(n) == trailer = 0 /\ n > 0 /\ trailer' = n /\ UNCHANGED slices
Next == \/ \E o \in Inputs \cup {0} : trailer = 0 /\ NewSlice(o)
        \/ \E n \in DataLens : AddTok(Data(n))
        \/ \E l \in PathLens : AddTok(Key(l))
        \/ \E n \in TrailerLens : AddTrailer(n)
Spec == Init /\ [][Next]_vars

(***************************************************************************)
(* Properties                                                              *)
(***************************************************************************)
\* the accounting rule equals the length after substitution
BytesExact == MetaBytes = SumOwner(slices, 0, FALSE) + SumAll(Inputs) + trailer
\* the bytes attributed to an input are exactly the bytes of the final file that it owns
ContributionExact == \A i \in Inputs : BytesInOutput(i) = Cardinality({k \in 1..Len(FinalBytes) : FinalBytes[k] = i})
ContributionsBounded == SumAll(Inputs) <= MetaBytes
\* an input without a slice contributes nothing
ShakenContributeZero == \A i \in Inputs : (\A k \in 1..Len(slices) : slices[k].owner # i) => BytesInOutput(i) = 0

\* the wrong rule (counting before substitution) differs from the truth as
\* soon as one path has another length than the key: the specification tells
\* the two apart (checked as an assumption on the constants, see the cfg)
NaiveIsWrongFor(l) == Naive(<<Key(l)>>) # Accurate(<<Key(l)>>)
ASSUME \E l \in PathLens : NaiveIsWrongFor(l)
=============================================================================
