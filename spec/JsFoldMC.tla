------------------------------ MODULE JsFoldMC ------------------------------
(* Generator / totality check of the fold tables of JsFold over the boundary grid.
   One state per (operator, a, b); the single step exports the case. *)
EXTENDS JsFold, Json
CONSTANTS Emit          \* BOOLEAN: export CASE records

VARIABLES c, res, done

BinAll == BinValueOps \cup LogOps \cup {","}
N == Len(Grid)
Cases == {[ar |-> 2, op |-> op, i |-> i, j |-> j] : op \in BinAll, i \in 1..N, j \in 1..N}
         \cup {[ar |-> 1, op |-> op, i |-> i, j |-> 1] : op \in UnOps, i \in 1..N}

Result(cs) ==
  IF cs.ar = 1 THEN UnPrim(cs.op, Grid[cs.i])
  ELSE IF cs.op \in LogOps THEN LogPrim(cs.op, Grid[cs.i], Grid[cs.j])
  ELSE IF cs.op = "," THEN Grid[cs.j]
  ELSE BinPrim(cs.op, Grid[cs.i], Grid[cs.j])

Rec(cs, r) ==
              [spec |-> "JsFold", ar |-> cs.ar, op |-> cs.op, a |-> Grid[cs.i], b |-> Grid[cs.j],
               expect |-> r, exact |-> r.t # "unk"]

(* the result is computed in the step (worker threads), not in the initial state *)
Init == c \in Cases /\ done = FALSE /\ res = Undef
Next == /\ ~done
        /\ done' = TRUE
        /\ c' = c
        /\ res' = Result(c)
        /\ (Emit => PrintT(<<"CASE", ToJson(Rec(c, res'))>>))

(* the tables are total on the grid and closed in the algebra *)
Total == done => WellFormed(res)
(* grid operands never produce an error except through BigInt (absent from the grid) *)
NoErrOnGrid == done => res.t # "err"
(* sanity anchors transcribed from ECMA-262 examples, checked once *)
ASSUME /\ NumRem(Num(-1), Num(1)) = NZero
       /\ NumRem(Num(5), Num(-3)) = Num(2)
       /\ NumRem(Num(-5), Num(3)) = Num(-2)
       /\ ToInt32(IntV(1, P2_31)) = IntV(-1, P2_31)
       /\ ToUint32(Num(-1)) = IntV(1, NSub(P2_32, One))
       /\ NumPow(Num(1), PInf) = NaN /\ NumPow(Num(-1), NInf) = NaN /\ NumPow(Num(1), NaN) = NaN
       /\ NumPow(NaN, PZero) = Num(1) /\ NumPow(NZero, Num(-1)) = NInf
       /\ NumAdd(IntV(1, P2_53), Num(1)) = IntV(1, P2_53)          \* ties to even
       /\ StrToNum(<<48, 98, 49, 48>>) = Num(2)                    \* "0b10"
       /\ BinPrim("<", S("10"), S("9")) = True /\ BinPrim("<", S("10"), Num(9)) = False
=============================================================================
