------------------------------ MODULE Lowering ------------------------------
(***************************************************************************)
(* C05 / C14.  Two parts.                                                   *)
(*                                                                          *)
(* (a) The feature x position x target model.  Features is the set of       *)
(*     post-ES2015 syntax features esbuild can lower or must gate, Year the *)
(*     ECMAScript edition each one entered (transcribed from TC39's         *)
(*     finished-proposals table, NOT from esbuild's compat table; the       *)
(*     harness compares the two once), AllowedSyntax(target, overrides) the *)
(*     set of features an output for that target may contain.  TLC checks   *)
(*     monotonicity in the target year, that `supported` overrides win in   *)
(*     both directions, closure under the "requires" relation, and that     *)
(*     every (feature, position) cell of the generator is inhabited; the    *)
(*     matrix config exports every cell together with its allowed set.      *)
(*                                                                          *)
(* (b) A probe-trace semantics for the lowerable constructs (part 2 of the  *)
(*     file, after the line of dashes): every operand is a probe p(i) that  *)
(*     records its evaluation and returns the value the environment gives   *)
(*     it.  Ev computes the trace and the completion of a program; TLC      *)
(*     checks once-only evaluation and locality (determinism) of the rules  *)
(*     on the enumerated programs and exports each program (source text)    *)
(*     with the predicted trace per environment.                            *)
(***************************************************************************)
EXTENDS Integers, Sequences, FiniteSets, TLC, Json, SequencesExt

CONSTANTS Shard, Shards,   \* program generator: this TLC run exports programs with index % Shards = Shard
          Stride, Offset,  \* ... and, of those, only every Stride-th pair program (seeded by Offset)
          WithThrow        \* TRUE: environments in which one probe throws are included

-----------------------------------------------------------------------------
(* ------------------------------ part (a) ------------------------------- *)

NoEdition == 9999          \* not in any published edition up to ES2024 (stage 3 / later edition)
ESNext    == 9999          \* the target "esnext" allows everything esbuild can parse
Years     == 2015..2024
Targets   == Years \cup {ESNext}

\* name = the key of esbuild's `supported` option where one exists ("" = none)
\* year = ECMAScript edition (TC39 finished proposals); kind = where a snippet of it can stand
\* uses = the other features the minimal snippet necessarily contains
F(name, year, kind, snip, uses) == [name |-> name, year |-> year, kind |-> kind, snip |-> snip, uses |-> uses]

FeatureTable == <<
  F("exponent-operator",              2016, "expr",   "(a ** b)", {}),
  F("nested-rest-binding",            2016, "stmt",   "var [q1, ...[q2]] = a;", {}),
  F("async-await",                    2017, "stmt",   "async function q() { await a; }", {}),
  F("async-generator",                2018, "stmt",   "async function* q() { yield a; }", {"async-await"}),
  F("for-await",                      2018, "stmt",   "async function q() { for await (const x of a) b(x); }", {"async-await"}),
  F("object-rest-spread",             2018, "expr",   "({ ...a, b })", {}),
  F("regexp-dot-all-flag",            2018, "expr",   "/a./s", {}),
  F("regexp-lookbehind-assertions",   2018, "expr",   "/(?<=a)b/", {}),
  F("regexp-named-capture-groups",    2018, "expr",   "/(?<n>a)/", {}),
  F("regexp-unicode-property-escapes",2018, "expr",   "/\\p{L}/u", {}),
  F("optional-catch-binding",         2019, "stmt",   "try { a(); } catch { b(); }", {}),
  F("optional-chain",                 2020, "expr",   "a?.b.c(d)", {}),
  F("nullish-coalescing",             2020, "expr",   "(a ?? b)", {}),
  F("bigint",                         2020, "expr",   "123n", {}),
  F("dynamic-import",                 2020, "expr",   "import(\"./lib2.js\")", {}),
  F("import-meta",                    2020, "expr",   "import.meta.url", {}),
  F("export-star-as",                 2020, "module", "export * as ns from \"./lib2.js\";", {}),
  F("logical-assignment",             2021, "expr",   "(a.b ??= c)", {}),
  F("numeric-separators",             2021, "expr",   "1_000", {}),
  F("class-field",                    2022, "expr",   "(class { x = a; })", {}),
  F("class-static-field",             2022, "expr",   "(class { static x = a; })", {}),
  F("class-private-field",            2022, "expr",   "(class { #x = a; m() { return this.#x; } })", {}),
  F("class-private-static-field",     2022, "expr",   "(class Q { static #x = a; static m() { return Q.#x; } })", {}),
  F("class-private-method",           2022, "expr",   "(class { #m() { return a; } n() { return this.#m(); } })", {}),
  F("class-private-static-method",    2022, "expr",   "(class Q { static #m() { return a; } static n() { return Q.#m(); } })", {}),
  F("class-private-accessor",         2022, "expr",   "(class { get #g() { return a; } n() { return this.#g; } })", {}),
  F("class-private-static-accessor",  2022, "expr",   "(class Q { static get #g() { return a; } static n() { return Q.#g; } })", {}),
  F("class-private-brand-check",      2022, "expr",   "(class { #x = 1; static t(o) { return #x in o; } })", {"class-private-field"}),
  F("class-static-blocks",            2022, "expr",   "(class { static { a(); } })", {}),
  F("top-level-await",                2022, "module", "await a;", {}),
  F("regexp-match-indices",           2022, "expr",   "/a/d", {}),
  F("arbitrary-module-namespace-names",2022,"module", "var an1 = 1; export { an1 as \"x y\" };", {}),
  F("hashbang",                       2023, "module", "#!/usr/bin/env node", {}),
  F("regexp-set-notation",            2024, "expr",   "/[[a-z]--b]/v", {}),
  F("import-attributes",              2025, "module", "import j1 from \"./data.json\" with { type: \"json\" }; b(j1);", {}),
  F("using",                          NoEdition, "stmt", "{ using u1 = a(); b(u1); }", {}),
  F("decorators",                     NoEdition, "stmt", "@a class Q1 { @b m() {} }", {})
>>

FIdx      == 1..Len(FeatureTable)
Features  == {FeatureTable[i].name : i \in FIdx}
FeatMap   == [n \in Features |-> FeatureTable[CHOOSE i \in FIdx : FeatureTable[i].name = n]]  \* evaluated once
Feat(n)   == FeatMap[n]
Year(n)   == FeatMap[n].year
\* features esbuild has a `supported` key for (everything except numeric separators, which the
\* printer never emits)
Overridable == Features \ {"numeric-separators"}

\* f cannot be supported unless g is (semantic dependency, not an esbuild table):
\* async generators/for-await/top-level await are built on await; private members on their
\* public counterparts; a brand check needs a private name to test.
Requires(f) ==
  CASE f \in {"async-generator", "for-await", "top-level-await"} -> {"async-await"}
    [] f = "class-private-field"        -> {"class-field"}
    [] f = "class-private-static-field" -> {"class-static-field"}
    [] OTHER -> {}

\* What esbuild does with a feature that is not allowed (read off the code, js_parser_lower.go
\* markSyntaxFeature and the call sites; not guessed):
\*   lower   : rewritten into older syntax (helpers may be added)
\*   error   : an error is reported (top-level await, nested rest binding, arbitrary module
\*             namespace names, async when generators are missing, import attributes in import())
\*   warn    : a WARNING is reported and the construct is kept in a degraded form (bigint literal
\*             -> BigInt("..") call that "may crash at run-time", import.meta -> empty object)
\*   rewrite : silently rewritten to an equivalent constructor call (regexp literal -> new RegExp,
\*             reported at debug level only)
\*   drop    : silently dropped (import attributes on static imports)
\*   silent  : emitted unchanged without any diagnostic (hashbang: compat.Hashbang is consulted
\*             nowhere; dynamic import: the compat table claims ES2015)
Gate(f) ==
  CASE f \in {"top-level-await", "nested-rest-binding", "arbitrary-module-namespace-names"} -> "error"
    [] f \in {"bigint", "import-meta"} -> "warn"
    [] f \in {"regexp-dot-all-flag", "regexp-lookbehind-assertions", "regexp-named-capture-groups",
              "regexp-unicode-property-escapes", "regexp-match-indices", "regexp-set-notation"} -> "rewrite"
    [] f = "import-attributes" -> "drop"
    [] f \in {"hashbang", "dynamic-import"} -> "silent"
    [] OTHER -> "lower"

\* The documented pass-through set: a WARNING (instead of an error) is an acceptable answer
\* for these when they are newer than the target.
PassThrough == {f \in Features : Gate(f) = "warn"}

\* overrides: a function from a subset of Overridable to BOOLEAN
NoOverride == <<>>
Ov(f, b) == f :> b

ByYearMap == [t \in Targets \cup {2025} |-> {f \in Features : Year(f) <= t}]   \* evaluated once
ByYear(t) == ByYearMap[t]

AllowedSyntax(t, ov) ==
  LET on  == {f \in DOMAIN ov : ov[f]}
      off == {f \in DOMAIN ov : ~ov[f]}
      base == (ByYear(t) \cup on) \ off
  IN  \* switching a feature off switches off what cannot exist without it
      {f \in base : Requires(f) \cap off = {}}

\* A configuration that forces a feature on although something it cannot exist without is
\* missing (supported:{for-await:true} for a target without async functions) is contradictory;
\* such configurations are not part of the matrix (esbuild only repairs the opposite direction).
Consistent(allowed, ov) == \A f \in DOMAIN ov : ov[f] => Requires(f) \subseteq allowed

\* --- engine targets: what these engine versions really parse (node.green / MDN / V8 release
\* notes; chosen away from version boundaries).  Used only as an upper bound: an output for
\* the engine may not contain a feature outside this set.
ES2019plus == ByYear(2019) \cup {"bigint", "dynamic-import", "import-meta", "hashbang", "numeric-separators",
                                "class-field", "class-static-field", "class-private-field", "class-private-static-field"}
EngineSyntax(e) ==
  CASE e = "node12.22" -> ES2019plus \cup {"export-star-as"}
    [] e = "chrome80"  -> ByYear(2020) \cup {"hashbang", "numeric-separators", "class-field", "class-static-field",
                                             "class-private-field", "class-private-static-field"}
    [] e = "node14.21" -> ByYear(2020) \cup {"hashbang", "numeric-separators", "class-field", "class-static-field",
                                             "class-private-field", "class-private-static-field", "class-private-method",
                                             "class-private-static-method", "class-private-accessor",
                                             "class-private-static-accessor", "top-level-await"}
    [] e = "node16.20" -> ByYear(2022) \cup {"hashbang"}
    [] e = "node18.20" -> ByYear(2023) \cup {"import-attributes"}
Engines == {"node12.22", "chrome80", "node14.21", "node16.20", "node18.20"}
EngineLists == {<<"node12.22">>, <<"chrome80">>, <<"node14.21">>, <<"node16.20">>, <<"node18.20">>,
                <<"chrome80", "node12.22">>, <<"node16.20", "chrome80">>}
SeqSet(s) == {s[i] : i \in DOMAIN s}
AllowedEngines(es, ov) ==
  LET on  == {f \in DOMAIN ov : ov[f]}
      off == {f \in DOMAIN ov : ~ov[f]}
      I   == {f \in Features : \A e \in SeqSet(es) : f \in EngineSyntax(e)}
      base == (I \cup on) \ off
  IN {f \in base : Requires(f) \cap off = {}}

\* --- positions
Pos(name, kind, pre, post, uses) == [name |-> name, kind |-> kind, pre |-> pre, post |-> post, uses |-> uses]
\* kind "stmt": the hole takes statements; "expr": the hole takes an expression
PositionTable == <<
  Pos("top",            "stmt", "", "", {}),
  Pos("function",       "stmt", "function w1() { ", " }", {}),
  Pos("function-locals","stmt", "function w1(a, b, c, d) { ", " }", {}),
  Pos("arrow",          "stmt", "var w1 = () => { ", " };", {}),
  Pos("method",         "stmt", "class W1 { m() { ", " } }", {}),
  Pos("generator",      "stmt", "function* w1() { ", " }", {}),
  Pos("async-function", "stmt", "async function w1() { ", " }", {"async-await"}),
  Pos("async-arrow",    "stmt", "var w1 = async () => { ", " };", {"async-await"}),
  Pos("static-block",   "stmt", "class W1 { static { ", " } }", {"class-static-blocks"}),
  Pos("field-init",     "expr", "class W1 { f = ", "; }", {"class-field"}),
  Pos("static-field-init","expr","class W1 { static f = ", "; }", {"class-static-field"}),
  Pos("computed-key",   "expr", "var w1 = { [", "]: 1 };", {}),
  Pos("class-computed-key","expr","class W1 { [", "]() {} }", {}),
  Pos("default-arg",    "expr", "function w1(w2 = ", ") {}", {}),
  Pos("template-hole",  "expr", "var w1 = `x${", "}y`;", {}),
  Pos("loop-head",      "expr", "for (var w1 = ", "; w1 < 1; w1++) {}", {}),
  Pos("heritage",       "expr", "class W1 extends (", ") {}", {}),
  Pos("optional-call-arg","expr","w1?.(", ");", {"optional-chain"}),
  Pos("field-in-async-arrow","expr","var w1 = async () => class { f = ", "; };", {"async-await", "class-field"})
>>
PIdx      == 1..Len(PositionTable)
Positions == {PositionTable[i].name : i \in PIdx}
PosMap    == [n \in Positions |-> PositionTable[CHOOSE i \in PIdx : PositionTable[i].name = n]]
PosOf(n)  == PosMap[n]

ValidCell(f, p) ==
  LET ft == Feat(f) pt == PosOf(p) IN
  IF ft.kind = "module" THEN p = "top" ELSE TRUE

\* the source text of a cell
AsExpr(ft) == IF ft.kind = "expr" THEN ft.snip ELSE "(() => { " \o ft.snip \o " })"
AsStmt(ft) == IF ft.kind = "expr" THEN "b(" \o ft.snip \o ");" ELSE ft.snip
CellSrc(f, p) ==
  LET ft == Feat(f) pt == PosOf(p) IN
  pt.pre \o (IF pt.kind = "stmt" THEN AsStmt(ft) ELSE AsExpr(ft)) \o pt.post
CellUses(f, p) == {f} \cup Feat(f).uses \cup PosOf(p).uses
Cells == {<<f, p>> \in Features \X Positions : ValidCell(f, p)}

\* Minifier bait: inputs without the feature `tempts` that the minifier could shorten by
\* introducing it (a != null ? a : b  ->  a ?? b); it may do so only if the target has it.
Bait(name, snip, tempts, uses) == [name |-> name, snip |-> snip, tempts |-> tempts, uses |-> uses]
BaitTable == <<
  Bait("bait-nullish",          "function w3(a, b) { return a != null ? a : b; }", "nullish-coalescing", {}),
  Bait("bait-optional-chain",   "function w3(a) { return a == null ? void 0 : a.b.c(1); }", "optional-chain", {}),
  Bait("bait-optional-call",    "function w3(a) { a != null && a.b(); }", "optional-chain", {}),
  Bait("bait-logical-or-assign","function w3(a, b) { a || (a = b); return a; }", "logical-assignment", {}),
  Bait("bait-nullish-assign",   "function w3(a, b) { a ?? (a = b); return a; }", "logical-assignment", {"nullish-coalescing"}),
  Bait("bait-exponent",         "function w3(a, b) { return Math.pow(a, b); }", "exponent-operator", {}),
  Bait("bait-optional-catch",   "function w3() { try { a(); } catch (e) { b(); } }", "optional-catch-binding", {}),
  Bait("bait-object-spread",    "function w3(a, b) { return Object.assign({}, a, { b }); }", "object-rest-spread", {}),
  Bait("bait-bigint",           "function w3() { return BigInt(\"123\"); }", "bigint", {})
>>
BIdx      == 1..Len(BaitTable)
Baits     == {BaitTable[i].name : i \in BIdx}
BaitMap   == [n \in Baits |-> BaitTable[CHOOSE i \in BIdx : BaitTable[i].name = n]]
StmtPositions == {p \in Positions : PosOf(p).kind = "stmt"}
BaitCells == Baits \X StmtPositions
BaitSrc(b, p) == PosOf(p).pre \o BaitMap[b].snip \o PosOf(p).post
BaitUses(b, p) == BaitMap[b].uses \cup PosOf(p).uses

\* the stages of the pipeline that can add syntax of their own (harness-side product)
Stages == <<
  [name |-> "transform",            bundle |-> FALSE, format |-> "",     minify |-> FALSE],
  [name |-> "transform-minify",     bundle |-> FALSE, format |-> "",     minify |-> TRUE],
  [name |-> "transform-esm",        bundle |-> FALSE, format |-> "esm",  minify |-> FALSE],
  [name |-> "transform-cjs-minify", bundle |-> FALSE, format |-> "cjs",  minify |-> TRUE],
  [name |-> "transform-iife",       bundle |-> FALSE, format |-> "iife", minify |-> FALSE],
  [name |-> "bundle-esm",           bundle |-> TRUE,  format |-> "esm",  minify |-> FALSE],
  [name |-> "bundle-esm-minify",    bundle |-> TRUE,  format |-> "esm",  minify |-> TRUE],
  [name |-> "bundle-cjs",           bundle |-> TRUE,  format |-> "cjs",  minify |-> FALSE],
  [name |-> "bundle-iife-minify",   bundle |-> TRUE,  format |-> "iife", minify |-> TRUE]
>>

\* --- what TLC checks on the model (design config): one state per (target, feature)
\* (one variable for every config of this module; its shape depends on the INIT chosen)
VARIABLE u
tgt  == u[1]
feat == u[2]
DInit == u \in Targets \X Features
Stutter == UNCHANGED u

Monotone ==
  \A t2 \in Targets : tgt <= t2 => AllowedSyntax(tgt, NoOverride) \subseteq AllowedSyntax(t2, NoOverride)
MonotoneUnderOverride ==
  feat \in Overridable =>
    \A t2 \in Targets : \A b \in BOOLEAN :
      tgt <= t2 => AllowedSyntax(tgt, Ov(feat, b)) \subseteq AllowedSyntax(t2, Ov(feat, b))
OverrideWins ==
  feat \in Overridable =>
    /\ feat \in AllowedSyntax(tgt, Ov(feat, TRUE))
    /\ feat \notin AllowedSyntax(tgt, Ov(feat, FALSE))
    \* an override changes nothing but the feature and what depends on it
    /\ AllowedSyntax(tgt, Ov(feat, TRUE)) \ {feat} = AllowedSyntax(tgt, NoOverride) \ {feat}
    /\ AllowedSyntax(tgt, NoOverride) \ AllowedSyntax(tgt, Ov(feat, FALSE))
         \subseteq {feat} \cup {g \in Features : feat \in Requires(g)}
    /\ \A es \in EngineLists :
         /\ feat \in AllowedEngines(es, Ov(feat, TRUE))
         /\ feat \notin AllowedEngines(es, Ov(feat, FALSE))
RequiresClosed ==
  /\ \A f \in AllowedSyntax(tgt, NoOverride) : Requires(f) \subseteq AllowedSyntax(tgt, NoOverride)
  /\ feat \in Overridable =>
       \A f \in AllowedSyntax(tgt, Ov(feat, FALSE)) : Requires(f) \subseteq AllowedSyntax(tgt, Ov(feat, FALSE))
  /\ \A e \in Engines : \A f \in EngineSyntax(e) : Requires(f) \subseteq EngineSyntax(e)
  /\ (feat \in Overridable /\ Consistent(AllowedSyntax(tgt, Ov(feat, TRUE)), Ov(feat, TRUE))) =>
       \A f \in AllowedSyntax(tgt, Ov(feat, TRUE)) : Requires(f) \subseteq AllowedSyntax(tgt, Ov(feat, TRUE))
EdgesRight ==
  /\ AllowedSyntax(2015, NoOverride) = {}
  /\ AllowedSyntax(ESNext, NoOverride) = Features
  /\ \A f \in Features : Year(f) \in (2016..2025) \cup {NoEdition}
  /\ \A f \in Features : Feat(f).uses \subseteq Features /\ Requires(f) \subseteq Features
Inhabited ==
  /\ \A p \in Positions : \E f \in Features : <<f, p>> \in Cells
  /\ \A p \in Positions : PosOf(p).uses \subseteq Features
  /\ \E p \in Positions : <<feat, p>> \in Cells
  /\ \A p \in Positions : <<feat, p>> \in Cells => CellSrc(feat, p) # "" /\ feat \in CellUses(feat, p)
  /\ Feat(feat).kind # "module" => \A p \in Positions : <<feat, p>> \in Cells
  /\ Cardinality(Features) = Len(FeatureTable) /\ Cardinality(Positions) = Len(PositionTable)

\* --- the matrix generator (config Lowering.matrix.cfg): exports, as CASE records,
\*   kind "cell"   : one per inhabited (feature, position): source text and the features it uses
\*   kind "allow"  : one per (target | engine list) x override: the allowed set
\*   kind "header" : stages, pass-through set, gates, years
TargetName(t) == IF t = ESNext THEN "esnext" ELSE "es" \o ToString(t)
OvName(f, m) == IF m = "none" THEN "none" ELSE f \o (IF m = "on" THEN "=true" ELSE "=false")
OvOf(f, m) == IF m = "none" THEN NoOverride ELSE Ov(f, m = "on")
ExportHeader(dummy) ==
  PrintT(<<"CASE", ToJson([kind |-> "header", stages |-> Stages, passThrough |-> PassThrough,
     gates |-> [f \in Features |-> Gate(f)], years |-> [f \in Features |-> Year(f)],
     overridable |-> Overridable, engines |-> [e \in Engines |-> EngineSyntax(e)]])>>)
ExportAllow(dummy) ==
  /\ \A t \in Targets :
       /\ PrintT(<<"CASE", ToJson([kind |-> "allow", target |-> TargetName(t), engines |-> <<>>, year |-> t,
                                   override |-> "none", allowed |-> AllowedSyntax(t, NoOverride), consistent |-> TRUE])>>)
       /\ \A f \in Overridable : \A m \in {"on", "off"} :
            PrintT(<<"CASE", ToJson([kind |-> "allow", target |-> TargetName(t), engines |-> <<>>, year |-> t,
                                     override |-> OvName(f, m), allowed |-> AllowedSyntax(t, OvOf(f, m)),
                                     consistent |-> Consistent(AllowedSyntax(t, OvOf(f, m)), OvOf(f, m))])>>)
  /\ \A es \in EngineLists :
       /\ PrintT(<<"CASE", ToJson([kind |-> "allow", target |-> "", engines |-> es, year |-> 0,
                                   override |-> "none", allowed |-> AllowedEngines(es, NoOverride), consistent |-> TRUE])>>)
       /\ \A f \in Overridable : \A m \in {"on", "off"} :
            PrintT(<<"CASE", ToJson([kind |-> "allow", target |-> "", engines |-> es, year |-> 0,
                                     override |-> OvName(f, m), allowed |-> AllowedEngines(es, OvOf(f, m)),
                                     consistent |-> Consistent(AllowedEngines(es, OvOf(f, m)), OvOf(f, m))])>>)

\* matrix behaviour: one state per cell (so that the cell count is TLC's state count)
MInit == u \in Cells \cup BaitCells
FirstCell == CHOOSE c \in Cells : TRUE
CellOK ==
  /\ (u = FirstCell) => (ExportHeader(0) /\ ExportAllow(0))
  /\ IF u[1] \in Baits
     THEN /\ BaitMap[u[1]].tempts \in Features /\ BaitMap[u[1]].tempts \notin BaitUses(u[1], u[2])
          /\ PrintT(<<"CASE", ToJson([kind |-> "cell", feature |-> u[1], position |-> u[2], src |-> BaitSrc(u[1], u[2]),
                                       uses |-> BaitUses(u[1], u[2]), module |-> FALSE, tempts |-> BaitMap[u[1]].tempts])>>)
     ELSE /\ CellSrc(u[1], u[2]) # "" /\ u[1] \in CellUses(u[1], u[2])
          /\ PrintT(<<"CASE", ToJson([kind |-> "cell", feature |-> u[1], position |-> u[2], src |-> CellSrc(u[1], u[2]),
                                       uses |-> CellUses(u[1], u[2]), module |-> Feat(u[1]).kind = "module", tempts |-> ""])>>)

-----------------------------------------------------------------------------
(* ------------------------------ part (b) ------------------------------- *)
(* Probe-trace semantics.  Conventions shared with node/run_probes.js:      *)
(*  p(i)   logs "p<i>" and returns the value the environment gives probe i: *)
(*         U undefined, N null, Z 0, T 3, W 2, O the probe object "p<i>",   *)
(*         F the probe function "p<i>", S the string "t", Su the string     *)
(*         "u", G a getter object, X = the probe throws PErr<i>.            *)
(*  A probe object at path P logs "get:P.k" / "set:P.k=v" / "del:P.k" /     *)
(*  "has:P.k"; reading key u gives undefined, n null, z 0, t 3, o the probe *)
(*  object P.o, f the probe function P.f (returns 5), g the probe function  *)
(*  P.g (returns the probe object P.g()), anything else undefined; nothing  *)
(*  is stored.  A probe function logs "call:P this=<v> args=[..]".          *)
(*  k(v) logs "k:<v>" and returns v if it is a string, else "kk";           *)
(*  idt(v) logs "idt:<class of v>"; h(v) logs "h:<v>" and returns a base    *)
(*  class.  main is called with this = probe object "this" and one          *)
(*  argument, the probe object "arg0".                                      *)
(*  Object-model classes (section "object model" below): B0 BA BG BS BR BD  *)
(*  BF base classes, OP PX GX FZ copy sources, PA a prototype with setters, *)
(*  TH THS THX thenables, Sx Sp W1 the keys "x" "__proto__" 1; shape(o),    *)
(*  rd(o, k), timing(call) are the observers described there.               *)
(***************************************************************************)

\* ---- values
V(ty, n, s) == [ty |-> ty, n |-> n, s |-> s]
Undef   == V("undef", 0, "")
Null    == V("null", 0, "")
NaN     == V("nan", 0, "")
Num(n)  == V("num", n, "")
Str(s)  == V("str", 0, s)
Bool(b) == V("bool", IF b THEN 1 ELSE 0, "")
PObj(p) == V("obj", 0, p)
PFn(p, retobj) == V("fn", IF retobj THEN 1 ELSE 0, p)
Lit(s)  == V("lit", 0, s)          \* a fresh composite value, already formatted
ClassV  == V("class", 0, "")       \* the class being defined (static this)
PlainV  == V("plain", 0, "")       \* a fresh ordinary object (instance of a class without heritage)

Fmt(v) ==
  CASE v.ty = "undef" -> "undef"
    [] v.ty = "null"  -> "null"
    [] v.ty = "nan"   -> "num:NaN"
    [] v.ty = "num"   -> "num:" \o ToString(v.n)
    [] v.ty = "str"   -> "str:" \o v.s
    [] v.ty = "bool"  -> IF v.n = 1 THEN "bool:true" ELSE "bool:false"
    [] v.ty = "obj"   -> "obj:" \o v.s
    [] v.ty = "fn"    -> "fn:" \o v.s
    [] v.ty = "lit"   -> v.s
    [] v.ty = "class" -> "class"
    [] v.ty = "plain" -> "plain"
    [] v.ty = "disp"  -> "disp:" \o v.s
    [] v.ty = "gobj"  -> "gobj:" \o v.s
    [] v.ty = "base"  -> "base:" \o v.s
    [] v.ty = "mark"  -> "mark:" \o v.s
    [] v.ty = "src"   -> "src:" \o v.s
    [] v.ty = "then"  -> "then:" \o v.s
    [] OTHER          -> "?"
IdClass(v) == CASE v.ty \in {"obj", "fn"} -> Fmt(v) [] v.ty = "class" -> "class" [] v.ty = "plain" -> "plain"
                [] v.ty = "inst" -> (IF v.n = 1 THEN "class" ELSE "inst") [] OTHER -> Fmt(v)
Nullish(v) == v.ty \in {"undef", "null"}
Truthy(v)  == ~(Nullish(v) \/ v.ty = "nan" \/ (v.ty \in {"num", "bool"} /\ v.n = 0) \/ (v.ty = "str" /\ v.s = ""))
IsProbe(v) == v.ty \in {"obj", "fn"}
IsObject(v) == v.ty \in {"obj", "fn", "lit", "class", "plain", "inst", "gobj", "disp", "base", "mark", "src", "then"}

RECURSIVE JoinStr(_, _)
JoinStr(ss, sep) == IF ss = <<>> THEN "" ELSE IF Len(ss) = 1 THEN ss[1] ELSE ss[1] \o sep \o JoinStr(Tail(ss), sep)
FmtList(vs) == "[" \o JoinStr([i \in DOMAIN vs |-> Fmt(vs[i])], ",") \o "]"

\* environment classes of the object-model section (base classes, copy sources, thenables): the
\* class is kept in the value (field n) because the rules depend on it
ObjClasses == <<"B0", "BA", "BG", "BS", "BR", "BD", "BF", "OP", "PX", "GX", "FZ", "PA", "TH", "THX", "THS">>
ClassIdx(cl) == CHOOSE i \in DOMAIN ObjClasses : ObjClasses[i] = cl
ClassOf(v) == IF v.ty = "gobj" THEN "G" ELSE IF v.ty \in {"base", "src", "then"} THEN ObjClasses[v.n] ELSE ""
EnvVal(cl, i) ==
  LET path == "p" \o ToString(i) IN
  CASE cl = "U" -> Undef [] cl = "N" -> Null [] cl = "Z" -> Num(0) [] cl = "T" -> Num(3) [] cl = "W" -> Num(2)
    [] cl = "O" -> PObj(path) [] cl = "F" -> PFn(path, FALSE) [] cl = "S" -> Str("t") [] cl = "Su" -> Str("u")
    [] cl = "G" -> V("gobj", 0, path) [] cl = "Sa" -> Str("a")
    [] cl = "D" -> V("disp", 0, path) [] cl = "DX" -> V("disp", 1, path)
    [] cl = "AD" -> V("disp", 2, path) [] cl = "ADX" -> V("disp", 3, path)
    [] cl = "Sx" -> Str("x") [] cl = "Sp" -> Str("__proto__") [] cl = "W1" -> Num(1)
    [] cl \in {"B0", "BA", "BG", "BS", "BR", "BD", "BF"} -> V("base", ClassIdx(cl), path)
    [] cl \in {"OP", "PX", "GX", "FZ", "PA"} -> V("src", ClassIdx(cl), path)
    [] cl \in {"TH", "THX", "THS"} -> V("then", ClassIdx(cl), path)
    [] OTHER -> Undef
KeyVal(path, key) ==
  CASE key = "u" -> Undef [] key = "n" -> Null [] key = "z" -> Num(0) [] key = "t" -> Num(3)
    [] key = "o" -> PObj(path \o ".o") [] key = "f" -> PFn(path \o ".f", FALSE) [] key = "g" -> PFn(path \o ".g", TRUE)
    [] OTHER -> Undef

\* ---- results: trace, value, abrupt completion ("" = normal; otherwise the class of the
\* thrown error; "UNPRED" = the rules do not cover this evaluation), short-circuit flag of an
\* optional chain, the this-value a call through this reference would get, and the store
\* (local variable v, private field #f)
R(t, v, ab, sc, th, st) == [t |-> t, v |-> v, ab |-> ab, sc |-> sc, th |-> th, st |-> st]
Ok(t, v, st)      == R(t, v, "", FALSE, Undef, st)
Throw(t, cls, st) == R(t, Undef, cls, FALSE, Undef, st)
Unpred(t, st)     == R(t, Undef, "UNPRED", FALSE, Undef, st)

\* property read / write / delete on a value
GetEv(v, key) == IF IsProbe(v) THEN <<"get:" \o v.s \o "." \o key>> ELSE <<>>
GetVal(v, key) == IF IsProbe(v) THEN KeyVal(v.s, key) ELSE Undef
SetEv(v, key, w) == IF IsProbe(v) THEN <<"set:" \o v.s \o "." \o key \o "=" \o Fmt(w)>> ELSE <<>>

\* ---- syntax: nodes [k kind, s string, n number, a children]
N(k, s, n, a) == [k |-> k, s |-> s, n |-> n, a |-> a]
P(i, role)  == N("p", role, i, <<>>)
This        == N("this", "", 0, <<>>)
Arg0        == N("arg", "", 0, <<>>)
Var(name)   == N("var", name, 0, <<>>)
Mem(e, k)   == N("mem", k, 0, <<e>>)
OMem(e, k)  == N("omem", k, 0, <<e>>)
Sink(e)     == N("sink", "", 0, <<e>>)
Idx(e, ke)  == N("idx", "", 0, <<e, Sink(ke)>>)
OIdx(e, ke) == N("oidx", "", 0, <<e, Sink(ke)>>)
Call(c, args)  == N("call", "", 0, <<c>> \o args)
OCall(c, args) == N("ocall", "", 0, <<c>> \o args)
Par(e)      == N("par", "", 0, <<e>>)
Del(e)      == N("del", "", 0, <<e>>)
Nul(a, b)   == N("nul", "", 0, <<a, b>>)
Asg(op, t, v) == N("asg", op, 0, <<t, v>>)
Pow(a, b)   == N("pow", "", 0, <<a, b>>)
PMem(e)     == N("pmem", "", 0, <<e>>)          \* e.#f
PIn(e)      == N("pin", "", 0, <<e>>)           \* #f in e
PCall(e, args) == N("pcall", "", 0, <<e>> \o args)   \* e.#m(args)
PAcc(e)     == N("pacc", "", 0, <<e>>)          \* e.#a   (accessor pair logging through k)
Tag(c, holes) == N("tag", "", 0, <<c>> \o holes)    \* c`a${h1}b${h2}c`
SeqE(a, b)  == N("seq", "", 0, <<a, b>>)
Ctx(name, e) == N("ctx", name, 0, <<e>>)
Spread(e)   == N("spread", "", 0, <<e>>)
KV(k, e)    == N("kv", k, 0, <<e>>)
ObjL(props) == N("obj", "", 0, props)

ChainKinds   == {"mem", "omem", "idx", "oidx", "call", "ocall", "pmem", "pcall", "pacc", "tag"}
PrimaryKinds == ChainKinds \cup {"p", "this", "arg", "var", "par", "sink", "ctx", "obj", "opmem", "rest", "class", "using", "async", "seq", "dfn", "cpy", "tim", "thn", "pdestr"}

\* ---- rendering (the source text is part of the model: one definition for text and meaning)
RECURSIVE Src(_), RestSrc(_), ClassSrc(_), UsingSrc(_), AsyncSrc(_), DfnSrc(_), CpySrc(_), TimSrc(_), ThnSrc(_)
SrcP(x) == IF x.k \in PrimaryKinds THEN Src(x) ELSE "(" \o Src(x) \o ")"
SrcArgs(xs) == JoinStr([i \in DOMAIN xs |-> Src(xs[i])], ", ")
CtxPre(name) ==
  CASE name = "arrow"    -> "(() => (idt(this), "
    [] name = "aarrow"   -> "(await (async () => (idt(this), "
    [] name = "afn"      -> "(await (async function () { return (idt(this), "
    [] name = "gen"      -> "(function* () { yield (idt(this), "
    [] name = "agen"     -> "(await (async function* () { yield (idt(this), "
    [] name = "meth"     -> "({ m() { return (idt(this), "
    [] name = "field"    -> "(new (class { f = (idt(this), "
    [] name = "sfield"   -> "(class { static f = (idt(this), "
    [] name = "sblock"   -> "(() => { let r; (class { static { r = (idt(this), "
    [] name = "ckey"     -> "({ [k("
    [] name = "clskey"   -> "(class { [k("
    [] name = "clsskey"  -> "(class { static [k("
    [] name = "dflt"     -> "((a = "
    [] name = "ddflt"    -> "(({ u = "
    [] name = "heritage" -> "(class extends h("
    [] name = "forinit"  -> "(() => { for (let i = "
    [] name = "forof"    -> "(() => { for (const x of ["
    [] name = "while"    -> "(() => { while ("
    [] name = "catch"    -> "(() => { try { throw 0; } catch { return "
    [] name = "objval"   -> "({ x: "
    [] name = "await"    -> "(await ("
    [] name = "ret"      -> ""
    [] name \in {"privU", "privT"} ->
         "(new (class { #f" \o (IF name = "privT" THEN " = 3" ELSE "") \o
         "; #m(a) { k(a); return 7; } get #a() { k(\"geta\"); return this.#f; } set #a(v) { k(\"seta\"); this.#f = v; } run() { return [(idt(this), "
    [] name = "sprivT" ->
         "(class { static #f = 3; static #m(a) { k(a); return 7; } static get #a() { k(\"geta\"); return this.#f; } static set #a(v) { k(\"seta\"); this.#f = v; } static run() { return [(idt(this), "
    [] name \in {"varU", "varT", "varZ"} -> "((v) => ["
    [] name = "fprivT" ->
         "(new (class { #f = 3; #m(a) { k(a); return 7; } get #a() { k(\"geta\"); return this.#f; } set #a(v) { k(\"seta\"); this.#f = v; } g = [(idt(this), "
    [] name = "avarU" -> "(await (async (v) => ["
    [] name = "aprivT" ->
         "(await (new (class { #f = 3; #m(a) { k(a); return 7; } get #a() { k(\"geta\"); return this.#f; } set #a(v) { k(\"seta\"); this.#f = v; } async run() { return [(idt(this), "
CtxPost(name) ==
  CASE name = "arrow"    -> "))()"
    [] name = "aarrow"   -> "))())"
    [] name = "afn"      -> "); }).call(this, arguments[0]))"
    [] name = "gen"      -> "); }).call(this, arguments[0]).next().value"
    [] name = "agen"     -> "); }).call(this, arguments[0]).next()).value"
    [] name = "meth"     -> "); } }).m()"
    [] name = "field"    -> "); })).f"
    [] name = "sfield"   -> "); }).f"
    [] name = "sblock"   -> "); } }); return r; })()"
    [] name = "ckey"     -> ")]: 0 }, 0)"
    [] name = "clskey"   -> ")]() {} }, 0)"
    [] name = "clsskey"  -> ")] = 1; }, 0)"
    [] name = "dflt"     -> ") => a)()"
    [] name = "ddflt"    -> " }) => u)({})"
    [] name = "heritage" -> ") {}, 0)"
    [] name = "forinit"  -> "; ; ) return i; })()"
    [] name = "forof"    -> "]) return x; })()"
    [] name = "while"    -> ") return 1; return 0; })()"
    [] name = "catch"    -> "; } })()"
    [] name = "objval"   -> " }).x"
    [] name = "await"    -> "))"
    [] name = "ret"      -> ""
    [] name \in {"privU", "privT"} -> "), this.#f]; } })).run()"
    [] name = "sprivT"   -> "), this.#f]; } }).run()"
    [] name = "varU"     -> ", v])(undefined)"
    [] name = "varT"     -> ", v])(3)"
    [] name = "varZ"     -> ", v])(0)"
    [] name = "fprivT"   -> "), this.#f]; })).g"
    [] name = "avarU"    -> ", v])(undefined))"
    [] name = "aprivT"   -> "), this.#f]; } })).run())"
\* contexts whose body needs an async main
AsyncCtx == {"aarrow", "afn", "agen", "await", "avarU", "aprivT"}
\* contexts in which `arguments` is a syntax error or refers to another function
NoArgCtx == {"field", "sfield", "sblock", "meth", "gen", "agen", "afn"}
TplText(n) == JoinStr([i \in 1..(n + 1) |-> "s" \o ToString(i)], "")
Src(x) ==
  CASE x.k = "p"     -> "p(" \o ToString(x.n) \o ")"
    [] x.k = "this"  -> "this"
    [] x.k = "arg"   -> "arguments[0]"
    [] x.k = "var"   -> x.s
    [] x.k = "mem"   -> SrcP(x.a[1]) \o "." \o x.s
    [] x.k = "omem"  -> SrcP(x.a[1]) \o "?." \o x.s
    [] x.k = "idx"   -> SrcP(x.a[1]) \o "[" \o Src(x.a[2]) \o "]"
    [] x.k = "oidx"  -> SrcP(x.a[1]) \o "?.[" \o Src(x.a[2]) \o "]"
    [] x.k = "call"  -> SrcP(x.a[1]) \o "(" \o SrcArgs(Tail(x.a)) \o ")"
    [] x.k = "ocall" -> SrcP(x.a[1]) \o "?.(" \o SrcArgs(Tail(x.a)) \o ")"
    [] x.k = "par"   -> "(" \o Src(x.a[1]) \o ")"
    [] x.k = "del"   -> "delete " \o Src(x.a[1])
    [] x.k = "nul"   -> SrcP(x.a[1]) \o " ?? " \o SrcP(x.a[2])
    [] x.k = "asg"   -> Src(x.a[1]) \o " " \o x.s \o " " \o SrcP(x.a[2])
    [] x.k = "pow"   -> SrcP(x.a[1]) \o " ** " \o SrcP(x.a[2])
    [] x.k = "pmem"  -> SrcP(x.a[1]) \o ".#f"
    [] x.k = "opmem" -> SrcP(x.a[1]) \o "?.#f"
    [] x.k = "rest"  -> RestSrc(x)
    [] x.k = "class" -> ClassSrc(x)
    [] x.k = "using" -> UsingSrc(x)
    [] x.k = "async" -> AsyncSrc(x)
    [] x.k = "dfn"   -> DfnSrc(x)
    [] x.k = "cpy"   -> CpySrc(x)
    [] x.k = "tim"   -> TimSrc(x)
    [] x.k = "thn"   -> ThnSrc(x)
    [] x.k = "pinc"  -> SrcP(x.a[1]) \o ".#f++"
    [] x.k = "pdestr"-> "([" \o SrcP(x.a[1]) \o ".#f] = [" \o Src(x.a[2]) \o "])"
    [] x.k = "pacc"  -> SrcP(x.a[1]) \o ".#a"
    [] x.k = "pin"   -> "#f in " \o SrcP(x.a[1])
    [] x.k = "pcall" -> SrcP(x.a[1]) \o ".#m(" \o SrcArgs(Tail(x.a)) \o ")"
    [] x.k = "sink"  -> "k(" \o Src(x.a[1]) \o ")"
    [] x.k = "seq"   -> "(" \o Src(x.a[1]) \o ", " \o Src(x.a[2]) \o ")"
    [] x.k = "tag"   -> SrcP(x.a[1]) \o "`" \o
                        JoinStr([i \in 1..Len(x.a) |-> IF i = 1 THEN "s1" ELSE "${" \o Src(x.a[i]) \o "}s" \o ToString(i)], "") \o "`"
    [] x.k = "ctx"   -> CtxPre(x.s) \o Src(x.a[1]) \o CtxPost(x.s)
    [] x.k = "spread"-> "..." \o SrcP(x.a[1])
    [] x.k = "kv"    -> x.s \o ": " \o SrcP(x.a[1])
    [] x.k = "obj"   -> "({ " \o SrcArgs(x.a) \o " })"

\* ---- evaluation
\* c = [env, this, arg, strict, st]
RECURSIVE Ev(_, _), EvArgs(_, _, _), EvAsg(_, _), EvObj(_, _), EvCtx(_, _), EvRest(_, _), EvClass(_, _), EvUsing(_, _), EvAsync(_, _), EvDfn(_, _), EvCpy(_, _), EvTim(_, _), EvThn(_, _)
WithSt(c, st) == [c EXCEPT !.st = st]
\* evaluate xs left to right; returns [t, vs, ab, st]
EvArgs(xs, c, acc) ==
  IF xs = <<>> THEN acc
  ELSE LET r == Ev(Head(xs), WithSt(c, acc.st)) IN
       IF r.ab # "" THEN [t |-> acc.t \o r.t, vs |-> acc.vs, ab |-> r.ab, st |-> r.st]
       ELSE EvArgs(Tail(xs), c, [t |-> acc.t \o r.t, vs |-> Append(acc.vs, r.v), ab |-> "", st |-> r.st])
NoArgs(c) == [t |-> <<>>, vs |-> <<>>, ab |-> "", st |-> c.st]

\* calling value f with this = th and arguments vs, after trace t
DoCall(t, f, th, vs, st) ==
  IF f.ty = "fn"
  THEN Ok(t \o <<"call:" \o f.s \o " this=" \o Fmt(th) \o " args=" \o FmtList(vs)>>,
          IF f.n = 1 THEN PObj(f.s \o "()") ELSE Num(5), st)
  ELSE Throw(t, "TypeError", st)

ToNum(v) == CASE v.ty = "num" -> v [] v.ty = "undef" -> NaN [] v.ty = "null" -> Num(0) [] v.ty = "bool" -> Num(v.n)
              [] v.ty = "nan" -> NaN [] OTHER -> V("nonnum", 0, "")
PowV(a, b) ==
  IF b.ty = "num" /\ b.n = 0 THEN Num(1)
  ELSE IF a.ty = "nan" \/ b.ty = "nan" THEN NaN
  ELSE IF a.n < 0 \/ b.n < 0 \/ a.n > 30 \/ b.n > 6 THEN V("nonnum", 0, "")
  ELSE Num(a.n ^ b.n)

\* the object a member/index node is applied to, with chain short-circuit handling;
\* returns the base result or, if the chain is cut, a result with sc = TRUE
CutChain(r) == R(r.t, Undef, "", TRUE, Undef, r.st)

\* a private field read/write needs the instance: the value "inst"
InstV  == V("inst", 0, "")       \* an instance of the class under test (has its private names)
SClassV == V("inst", 1, "")      \* the class under test itself when its private names are static
IsInst(v) == v.ty = "inst"

Ev(x, c) ==
  CASE x.k = "p" ->
         LET cl == c.env[x.n] ev == <<"p" \o ToString(x.n)>> IN
         IF cl = "X" THEN Throw(ev, "PErr" \o ToString(x.n), c.st) ELSE Ok(ev, EnvVal(cl, x.n), c.st)
    [] x.k = "this" -> Ok(<<>>, c.this, c.st)
    [] x.k = "arg"  -> Ok(<<>>, c.arg, c.st)
    [] x.k = "var"  -> Ok(<<>>, c.st.v, c.st)
    [] x.k = "par"  -> LET r == Ev(x.a[1], c) IN [r EXCEPT !.sc = FALSE]
    [] x.k = "seq"  ->
         LET r1 == Ev(x.a[1], c) IN
         IF r1.ab # "" THEN [r1 EXCEPT !.sc = FALSE] ELSE
         LET r2 == Ev(x.a[2], WithSt(c, r1.st)) IN R(r1.t \o r2.t, r2.v, r2.ab, FALSE, Undef, r2.st)
    [] x.k = "sink" ->
         LET r == Ev(x.a[1], c) IN
         IF r.ab # "" THEN [r EXCEPT !.sc = FALSE]
         ELSE Ok(r.t \o <<"k:" \o Fmt(r.v)>>, IF r.v.ty = "str" THEN r.v ELSE Str("kk"), r.st)
    [] x.k \in {"mem", "omem", "idx", "oidx"} ->
         LET b == Ev(x.a[1], c) IN
         IF b.ab # "" THEN b
         ELSE IF b.sc THEN CutChain(b)
         ELSE IF x.k \in {"omem", "oidx"} /\ Nullish(b.v) THEN CutChain(b)
         ELSE IF x.k \in {"mem", "omem"} THEN
              IF Nullish(b.v) THEN Throw(b.t, "TypeError", b.st)
              ELSE R(b.t \o GetEv(b.v, x.s), GetVal(b.v, x.s), "", FALSE, b.v, b.st)
         ELSE \* computed key: base, then key expression, then the read
              LET kr == Ev(x.a[2], WithSt(c, b.st)) IN
              IF kr.ab # "" THEN R(b.t \o kr.t, Undef, kr.ab, FALSE, Undef, kr.st)
              ELSE IF Nullish(b.v) THEN Throw(b.t \o kr.t, "TypeError", kr.st)
              ELSE R(b.t \o kr.t \o GetEv(b.v, kr.v.s), GetVal(b.v, kr.v.s), "", FALSE, b.v, kr.st)
    [] x.k \in {"call", "ocall"} ->
         LET f == Ev(x.a[1], c) IN
         IF f.ab # "" THEN f
         ELSE IF f.sc THEN CutChain(f)
         ELSE IF x.k = "ocall" /\ Nullish(f.v) THEN CutChain(f)
         ELSE LET as == EvArgs(Tail(x.a), c, [t |-> f.t, vs |-> <<>>, ab |-> "", st |-> f.st]) IN
              IF as.ab # "" THEN Throw(as.t, as.ab, as.st)
              ELSE DoCall(as.t, f.v, f.th, as.vs, as.st)
    [] x.k = "tag" ->
         LET f == Ev(x.a[1], c) IN
         IF f.ab # "" THEN f ELSE
         LET as == EvArgs(Tail(x.a), c, [t |-> f.t, vs |-> <<>>, ab |-> "", st |-> f.st])
             strs == Lit("[" \o JoinStr([i \in 1..Len(x.a) |-> "str:s" \o ToString(i)], ",") \o "]") IN
         IF as.ab # "" THEN Throw(as.t, as.ab, as.st)
         ELSE DoCall(as.t, f.v, f.th, <<strs>> \o as.vs, as.st)
    [] x.k = "del" ->
         LET y == x.a[1] b == Ev(y.a[1], c) IN
         IF b.ab # "" THEN [b EXCEPT !.sc = FALSE]
         ELSE IF b.sc \/ (y.k \in {"omem", "oidx"} /\ Nullish(b.v)) THEN Ok(b.t, Bool(TRUE), b.st)
         ELSE IF y.k \in {"mem", "omem"} THEN
              IF Nullish(b.v) THEN Throw(b.t, "TypeError", b.st)
              ELSE Ok(b.t \o (IF IsProbe(b.v) THEN <<"del:" \o b.v.s \o "." \o y.s>> ELSE <<>>), Bool(TRUE), b.st)
         ELSE LET kr == Ev(y.a[2], WithSt(c, b.st)) IN
              IF kr.ab # "" THEN Throw(b.t \o kr.t, kr.ab, kr.st)
              ELSE IF Nullish(b.v) THEN Throw(b.t \o kr.t, "TypeError", kr.st)
              ELSE Ok(b.t \o kr.t \o (IF IsProbe(b.v) THEN <<"del:" \o b.v.s \o "." \o kr.v.s>> ELSE <<>>), Bool(TRUE), kr.st)
    [] x.k = "nul" ->
         LET l == Ev(x.a[1], c) IN
         IF l.ab # "" THEN [l EXCEPT !.sc = FALSE]
         ELSE IF ~Nullish(l.v) THEN Ok(l.t, l.v, l.st)
         ELSE LET r == Ev(x.a[2], WithSt(c, l.st)) IN R(l.t \o r.t, r.v, r.ab, FALSE, Undef, r.st)
    [] x.k = "pow" ->
         LET l == Ev(x.a[1], c) IN
         IF l.ab # "" THEN [l EXCEPT !.sc = FALSE] ELSE
         LET r == Ev(x.a[2], WithSt(c, l.st)) IN
         IF r.ab # "" THEN Throw(l.t \o r.t, r.ab, r.st) ELSE
         LET a == ToNum(l.v) b == ToNum(r.v) w == IF a.ty = "nonnum" \/ b.ty = "nonnum" THEN a ELSE PowV(a, b) IN
         IF a.ty = "nonnum" \/ b.ty = "nonnum" \/ w.ty = "nonnum" THEN Unpred(l.t \o r.t, r.st)
         ELSE Ok(l.t \o r.t, w, r.st)
    [] x.k = "asg" -> EvAsg(x, c)
    [] x.k = "pmem" ->
         LET b == Ev(x.a[1], c) IN
         IF b.ab # "" THEN [b EXCEPT !.sc = FALSE]
         ELSE IF b.sc THEN CutChain(b)
         ELSE IF ~IsInst(b.v) THEN Throw(b.t, "TypeError", b.st)
         ELSE R(b.t, b.st.f, "", FALSE, b.v, b.st)
    [] x.k = "pacc" ->
         LET b == Ev(x.a[1], c) IN
         IF b.ab # "" THEN [b EXCEPT !.sc = FALSE]
         ELSE IF b.sc THEN CutChain(b)
         ELSE IF ~IsInst(b.v) THEN Throw(b.t, "TypeError", b.st)
         ELSE R(b.t \o <<"k:str:geta">>, b.st.f, "", FALSE, b.v, b.st)
    [] x.k = "pin" ->
         LET b == Ev(x.a[1], c) IN
         IF b.ab # "" THEN [b EXCEPT !.sc = FALSE]
         ELSE IF IsInst(b.v) THEN Ok(b.t, Bool(TRUE), b.st)
         ELSE IF IsObject(b.v) THEN Ok(b.t, Bool(FALSE), b.st)
         ELSE Throw(b.t, "TypeError", b.st)
    [] x.k = "pcall" ->
         \* e.#m(args): the method logs k(<first argument>) and returns its this
         LET b == Ev(x.a[1], c) IN
         IF b.ab # "" THEN [b EXCEPT !.sc = FALSE]
         ELSE IF b.sc THEN CutChain(b)
         ELSE IF ~IsInst(b.v) THEN Throw(b.t, "TypeError", b.st)
         ELSE LET as == EvArgs(Tail(x.a), c, [t |-> b.t, vs |-> <<>>, ab |-> "", st |-> b.st]) IN
              IF as.ab # "" THEN Throw(as.t, as.ab, as.st)
              ELSE Ok(as.t \o <<"k:" \o (IF as.vs = <<>> THEN "undef" ELSE Fmt(as.vs[1]))>>, Num(7), as.st)
    [] x.k = "opmem" ->
         LET b == Ev(x.a[1], c) IN
         IF b.ab # "" THEN [b EXCEPT !.sc = FALSE]
         ELSE IF b.sc \/ Nullish(b.v) THEN CutChain(b)
         ELSE IF ~IsInst(b.v) THEN Throw(b.t, "TypeError", b.st)
         ELSE R(b.t, b.st.f, "", FALSE, b.v, b.st)
    [] x.k = "obj"   -> EvObj(x, c)
    [] x.k = "ctx"   -> EvCtx(x, c)
    [] x.k = "rest"  -> EvRest(x, c)
    [] x.k = "class" -> EvClass(x, c)
    [] x.k = "using" -> EvUsing(x, c)
    [] x.k = "async" -> EvAsync(x, c)
    [] x.k = "dfn"   -> EvDfn(x, c)
    [] x.k = "cpy"   -> EvCpy(x, c)
    [] x.k = "tim"   -> EvTim(x, c)
    [] x.k = "thn"   -> EvThn(x, c)
    [] x.k = "pinc" ->
         \* e.#f++ : old value converted to a number is the result, old + 1 is stored
         LET b == Ev(x.a[1], c) IN
         IF b.ab # "" THEN [b EXCEPT !.sc = FALSE]
         ELSE IF ~IsInst(b.v) THEN Throw(b.t, "TypeError", b.st)
         ELSE LET a == ToNum(b.st.f) IN
              IF a.ty = "nonnum" THEN Unpred(b.t, b.st)
              ELSE Ok(b.t, a, [b.st EXCEPT !.f = IF a.ty = "nan" THEN NaN ELSE Num(a.n + 1)])
    [] x.k = "pdestr" ->
         \* [e.#f] = [v] : the right-hand side is evaluated first, then the target object
         LET r == Ev(x.a[2], c) IN
         IF r.ab # "" THEN [r EXCEPT !.sc = FALSE] ELSE
         LET b == Ev(x.a[1], WithSt(c, r.st)) IN
         IF b.ab # "" THEN Throw(r.t \o b.t, b.ab, b.st)
         ELSE IF ~IsInst(b.v) THEN Throw(r.t \o b.t, "TypeError", b.st)
         ELSE Ok(r.t \o b.t, Lit(FmtList(<<r.v>>)), [b.st EXCEPT !.f = r.v])


\* ---- assignment (plain, exponent, logical) to a variable, a property, a computed
\* property, a private field or a private accessor
EvAsg(x, c) ==
  LET tg == x.a[1]
      op == x.s
      b  == IF tg.k = "var" THEN Ok(<<>>, Undef, c.st) ELSE Ev(tg.a[1], c)
  IN
  IF b.ab # "" THEN [b EXCEPT !.sc = FALSE]
  ELSE IF b.sc THEN Unpred(b.t, b.st)
  ELSE
  LET kr == IF tg.k = "idx" THEN Ev(tg.a[2], WithSt(c, b.st)) ELSE Ok(<<>>, Str(tg.s), b.st) IN
  IF kr.ab # "" THEN Throw(b.t \o kr.t, kr.ab, kr.st) ELSE
  LET t1  == b.t \o kr.t
      key == kr.v.s
      st1 == kr.st
      CanRead == CASE tg.k = "var" -> TRUE [] tg.k \in {"mem", "idx"} -> ~Nullish(b.v) [] OTHER -> IsInst(b.v)
      ReadEv  == CASE tg.k \in {"mem", "idx"} -> GetEv(b.v, key) [] tg.k = "pacc" -> <<"k:str:geta">> [] OTHER -> <<>>
      Old(st) == CASE tg.k = "var" -> st.v [] tg.k \in {"mem", "idx"} -> GetVal(b.v, key) [] OTHER -> st.f
      Write(t, w, st) ==
        CASE tg.k = "var" -> Ok(t, w, [st EXCEPT !.v = w])
          [] tg.k \in {"mem", "idx"} ->
               IF Nullish(b.v) THEN Throw(t, "TypeError", st)
               ELSE IF IsProbe(b.v) THEN Ok(t \o SetEv(b.v, key, w), w, st)
               ELSE IF IsObject(b.v) THEN Ok(t, w, st)
               ELSE IF c.strict THEN Throw(t, "TypeError", st) ELSE Ok(t, w, st)
          [] tg.k = "pmem" -> IF IsInst(b.v) THEN Ok(t, w, [st EXCEPT !.f = w]) ELSE Throw(t, "TypeError", st)
          [] tg.k = "pacc" -> IF IsInst(b.v) THEN Ok(t \o <<"k:str:seta">>, w, [st EXCEPT !.f = w]) ELSE Throw(t, "TypeError", st)
  IN
  IF op = "=" THEN
     LET r == Ev(x.a[2], WithSt(c, st1)) IN
     IF r.ab # "" THEN Throw(t1 \o r.t, r.ab, r.st) ELSE Write(t1 \o r.t, r.v, r.st)
  ELSE IF ~CanRead THEN Throw(t1, "TypeError", st1)
  ELSE
  LET old == Old(st1)
      t2  == t1 \o ReadEv IN
  IF op = "**=" THEN
     LET r == Ev(x.a[2], WithSt(c, st1)) IN
     IF r.ab # "" THEN Throw(t2 \o r.t, r.ab, r.st) ELSE
     LET a  == ToNum(old)
         bb == ToNum(r.v)
         w  == IF a.ty = "nonnum" \/ bb.ty = "nonnum" THEN a ELSE PowV(a, bb) IN
     IF a.ty = "nonnum" \/ bb.ty = "nonnum" \/ w.ty = "nonnum" THEN Unpred(t2 \o r.t, r.st)
     ELSE Write(t2 \o r.t, w, r.st)
  ELSE
     LET skip == CASE op = "??=" -> ~Nullish(old) [] op = "||=" -> Truthy(old) [] op = "&&=" -> ~Truthy(old) IN
     IF skip THEN Ok(t2, old, st1)
     ELSE LET r == Ev(x.a[2], WithSt(c, st1)) IN
          IF r.ab # "" THEN Throw(t2 \o r.t, r.ab, r.st) ELSE Write(t2 \o r.t, r.v, r.st)

\* ---- the getter object G (all accessors log "get:<path>.<key>"):
\* own enumerable: "b" -> undefined, "1" -> 1, "a" -> 7, symbol @s -> 8 (created in this order);
\* own non-enumerable "h" and symbol @hs, inherited enumerable "inh": must never be read by a copy.
\* OrdinaryOwnPropertyKeys: integer keys, then strings in creation order, then symbols.
GKeys == <<"1", "b", "a", "@s">>
GValOf(key) == CASE key = "1" -> Num(1) [] key = "b" -> Undef [] key = "a" -> Num(7) [] key = "@s" -> Num(8) [] OTHER -> Undef
IsIntKey(key) == key = "1"
IsSymKey(key) == key = "@s"
IsStrKey(key) == ~IsIntKey(key) /\ ~IsSymKey(key)
KeyOrder(ord) == SelectSeq(ord, IsIntKey) \o SelectSeq(ord, IsStrKey) \o SelectSeq(ord, IsSymKey)
FmtEntries(ord, val) == "{" \o JoinStr([i \in DOMAIN ord |-> ord[i] \o ":" \o val[ord[i]]], ",") \o "}"
GGetEvs(path, keys) == [i \in DOMAIN keys |-> "get:" \o path \o "." \o keys[i]]
GRestKeys(excl) == SelectSeq(GKeys, LAMBDA key : key \notin excl)
GRestFmt(excl) == LET ks == GRestKeys(excl) IN FmtEntries(ks, [key \in SeqSet(ks) |-> Fmt(GValOf(key))])

\* ---- object literal with spread
RECURSIVE ObjProps(_, _, _)
\* acc = [t, ab, st, ord, val]
ObjProps(props, c, acc) ==
  IF props = <<>> \/ acc.ab # "" THEN acc ELSE
  LET pr == Head(props)
      r  == Ev(pr.a[1], WithSt(c, acc.st))
      t2 == acc.t \o r.t
      Put(a, key, w) == [a EXCEPT !.ord = IF key \in SeqSet(@) THEN @ ELSE Append(@, key), !.val = (key :> w) @@ @]
  IN
  IF r.ab # "" THEN [acc EXCEPT !.t = t2, !.ab = r.ab, !.st = r.st]
  ELSE IF pr.k = "kv" THEN ObjProps(Tail(props), c, Put([acc EXCEPT !.t = t2, !.st = r.st], pr.s, Fmt(r.v)))
  ELSE \* spread
    IF r.v.ty = "gobj" THEN
       LET a1 == [acc EXCEPT !.t = t2 \o GGetEvs(r.v.s, GKeys), !.st = r.st]
           a2 == Put(Put(Put(Put(a1, "1", Fmt(GValOf("1"))), "b", Fmt(GValOf("b"))), "a", Fmt(GValOf("a"))), "@s", Fmt(GValOf("@s")))
       IN ObjProps(Tail(props), c, a2)
    ELSE IF Nullish(r.v) \/ r.v.ty \in {"num", "bool", "nan"} THEN ObjProps(Tail(props), c, [acc EXCEPT !.t = t2, !.st = r.st])
    ELSE [acc EXCEPT !.t = t2, !.ab = "UNPRED", !.st = r.st]
EvObj(x, c) ==
  LET a == ObjProps(x.a, c, [t |-> <<>>, ab |-> "", st |-> c.st, ord |-> <<>>, val |-> <<>>]) IN
  IF a.ab # "" THEN Throw(a.t, a.ab, a.st)
  ELSE Ok(a.t, Lit(FmtEntries(KeyOrder(a.ord), a.val)), a.st)

\* ---- contexts (positions)
CtxThis(name, c) ==
  CASE name = "meth" -> PlainV
    [] name \in {"field", "privU", "privT", "aprivT", "fprivT"} -> InstV
    [] name \in {"sfield", "sblock"} -> ClassV
    [] name = "sprivT" -> SClassV
    [] OTHER -> c.this
CtxStrict(name, c) == c.strict \/ name \in {"field", "sfield", "sblock", "clskey", "clsskey", "heritage", "privU", "privT", "sprivT", "aprivT", "fprivT"}
CtxLogsThis == {"arrow", "aarrow", "afn", "gen", "agen", "meth", "field", "sfield", "sblock", "privU", "privT", "sprivT", "aprivT", "fprivT"}
EvCtx(x, c) ==
  LET name == x.s
      th   == CtxThis(name, c)
      st0  == CASE name \in {"privU", "varU", "avarU"} -> [v |-> Undef, f |-> Undef]
                [] name \in {"privT", "sprivT", "varT", "aprivT", "fprivT"} -> [v |-> Num(3), f |-> Num(3)]
                [] name = "varZ" -> [v |-> Num(0), f |-> Undef]
                [] OTHER -> c.st
      c2   == [c EXCEPT !.this = th, !.strict = CtxStrict(name, c), !.st = st0,
                        !.arg = IF name = "meth" THEN Undef ELSE @]
      pre  == IF name \in CtxLogsThis THEN <<"idt:" \o IdClass(th)>> ELSE <<>>
      r    == Ev(x.a[1], c2)
      t    == pre \o r.t
      \* the local variable / private field of an inner context is not visible outside
      stOut == IF name \in {"privU", "privT", "sprivT", "aprivT", "fprivT", "varU", "varT", "varZ", "avarU"} THEN c.st ELSE r.st
  IN
  IF r.ab # "" THEN R(t, Undef, r.ab, FALSE, Undef, stOut)
  ELSE CASE name \in {"ckey", "clskey", "clsskey"} -> Ok(t \o <<"k:" \o Fmt(r.v)>>, Num(0), stOut)
         [] name = "heritage" -> Ok(t \o <<"h:" \o Fmt(r.v)>>, Num(0), stOut)
         [] name = "while" -> Ok(t, IF Truthy(r.v) THEN Num(1) ELSE Num(0), stOut)
         [] name \in {"privU", "privT", "sprivT", "aprivT", "fprivT"} -> Ok(t, Lit("[" \o Fmt(r.v) \o "," \o Fmt(r.st.f) \o "]"), stOut)
         [] name \in {"varU", "varT", "varZ", "avarU"} -> Ok(t, Lit("[" \o Fmt(r.v) \o "," \o Fmt(r.st.v) \o "]"), stOut)
         [] OTHER -> Ok(t, r.v, stOut)

\* ---- sequencing helper: steps are evaluated in order, each with its own this/strictness;
\* pre = events logged before the step, sink = "" or the name of the logging function the
\* value is passed to ("k", "h")
NoNode == N("none", "", 0, <<>>)
Step(pre, x, th, strict, sink) == [pre |-> pre, x |-> x, this |-> th, strict |-> strict, sink |-> sink]
Acc0(c) == [t |-> <<>>, vs |-> <<>>, ab |-> "", st |-> c.st]
RECURSIVE RunSteps(_, _, _)
RunSteps(steps, c, acc) ==
  IF steps = <<>> \/ acc.ab # "" THEN acc ELSE
  LET s == Head(steps) IN
  IF s.x.k = "none" THEN RunSteps(Tail(steps), c, [acc EXCEPT !.t = @ \o s.pre]) ELSE
  LET r  == Ev(s.x, [c EXCEPT !.this = s.this, !.strict = s.strict, !.st = acc.st])
      t2 == acc.t \o s.pre \o r.t IN
  IF r.ab # "" THEN [t |-> t2, vs |-> acc.vs, ab |-> r.ab, st |-> r.st]
  ELSE RunSteps(Tail(steps), c,
         [t |-> t2 \o (IF s.sink = "" THEN <<>> ELSE <<s.sink \o ":" \o Fmt(r.v)>>), vs |-> Append(acc.vs, r.v), ab |-> "", st |-> r.st])

\* ---- object rest (declaration, parameter, assignment, catch binding, for-of head, computed
\* key, nested), with a default value evaluated only for undefined
RestSrc(x) ==
  LET E == Src(x.a[1]) D == IF Len(x.a) > 1 THEN Src(x.a[2]) ELSE "" IN
  CASE x.s = "r_param"  -> "(({ a, ...r }) => [a, r])(" \o E \o ")"
    [] x.s = "r_decl"   -> "(() => { var { a, b = " \o D \o ", ...r } = " \o E \o "; return [a, b, r]; })()"
    [] x.s = "r_asg"    -> "(() => { var r; ({ a: " \o SrcP(x.a[2]) \o ".x, ...r } = " \o E \o "); return r; })()"
    [] x.s = "r_catch"  -> "(() => { try { throw " \o E \o "; } catch ({ a, ...r }) { return [a, r]; } })()"
    [] x.s = "r_forof"  -> "(() => { for (const { a, ...r } of [" \o E \o "]) return [a, r]; })()"
    [] x.s = "r_key"    -> "(() => { var { [k(" \o D \o ")]: x, ...r } = " \o E \o "; return [x, r]; })()"
    [] x.s = "r_nested" -> "(() => { var { o: { a, ...r } } = { o: " \o E \o " }; return [a, r]; })()"
    [] x.s = "r_arr"    -> "(() => { var [{ a, ...r }] = [" \o E \o "]; return [a, r]; })()"
EvRest(x, c) ==
  LET e == Ev(x.a[1], c) IN
  IF e.ab # "" THEN (IF x.s = "r_catch" THEN Unpred(e.t, e.st) ELSE Throw(e.t, e.ab, e.st)) ELSE
  LET v == e.v
      isG == v.ty = "gobj"
      prim == v.ty \in {"num", "bool", "nan"}
      \* value of own property key of the source
      Val(key) == IF isG THEN GValOf(key) ELSE Undef
      Evs(keys) == IF isG THEN GGetEvs(v.s, keys) ELSE <<>>
      RestOf(excl) == IF isG THEN GRestFmt(excl) ELSE "{}"
      RestEvs(excl) == IF isG THEN GGetEvs(v.s, GRestKeys(excl)) ELSE <<>>
  IN
  IF Nullish(v) THEN Throw(e.t, "TypeError", e.st)
  ELSE IF ~isG /\ ~prim THEN Unpred(e.t, e.st)
  ELSE
  CASE x.s \in {"r_param", "r_catch", "r_forof", "r_nested", "r_arr"} ->
         Ok(e.t \o Evs(<<"a">>) \o RestEvs({"a"}), Lit("[" \o Fmt(Val("a")) \o "," \o RestOf({"a"}) \o "]"), e.st)
    [] x.s = "r_decl" ->
         LET d == Ev(x.a[2], WithSt(c, e.st)) t1 == e.t \o Evs(<<"a", "b">>) \o d.t IN
         IF d.ab # "" THEN Throw(t1, d.ab, d.st)
         ELSE Ok(t1 \o RestEvs({"a", "b"}), Lit("[" \o Fmt(Val("a")) \o "," \o Fmt(d.v) \o "," \o RestOf({"a", "b"}) \o "]"), d.st)
    [] x.s = "r_asg" ->
         LET g == Ev(x.a[2], WithSt(c, e.st)) t1 == e.t \o g.t IN
         IF g.ab # "" THEN Throw(t1, g.ab, g.st)
         ELSE IF Nullish(g.v) THEN Unpred(t1, g.st)
         \* assigning to a property of a primitive: TypeError in strict code, ignored in sloppy code
         ELSE IF ~IsObject(g.v) /\ c.strict THEN Throw(t1 \o Evs(<<"a">>), "TypeError", g.st)
         ELSE Ok(t1 \o Evs(<<"a">>) \o SetEv(g.v, "x", Val("a")) \o RestEvs({"a"}), Lit(RestOf({"a"})), g.st)
    [] x.s = "r_key" ->
         LET d == Ev(Sink(x.a[2]), WithSt(c, e.st)) t1 == e.t \o d.t IN
         IF d.ab # "" THEN Throw(t1, d.ab, d.st)
         ELSE LET key == d.v.s
                  has == isG /\ key \in SeqSet(GKeys) IN
              Ok(t1 \o (IF has THEN Evs(<<key>>) ELSE <<>>) \o RestEvs({key}),
                 Lit("[" \o Fmt(IF has THEN Val(key) ELSE Undef) \o "," \o RestOf({key}) \o "]"), d.st)

\* ---- class definition and instantiation order
\* x.s = "h": x.a[1] is the heritage operand; the other children are the elements
ClassElems(x) == IF x.s = "h" THEN Tail(x.a) ELSE x.a
ElemKeyed(e) == e.k \in {"c_cfield", "c_csfield", "c_cmeth", "c_csmeth", "c_cacc"}
ElemStaticInit(e) == e.k \in {"c_sfield", "c_csfield", "c_sblock", "c_spfield"}
ElemInstInit(e) == e.k \in {"c_field", "c_cfield", "c_pfield"}
ElemInit(e) == IF e.k \in {"c_cfield", "c_csfield"} THEN e.a[2] ELSE e.a[1]
ElemSrc(e, i) ==
  LET n == ToString(i)
      init == "(idt(this), " \o Src(ElemInit(e)) \o ")"
      key == "[k(" \o Src(e.a[1]) \o ")]" IN
  CASE e.k = "c_field"   -> "f" \o n \o " = " \o init \o ";"
    [] e.k = "c_cfield"  -> key \o " = " \o init \o ";"
    [] e.k = "c_sfield"  -> "static s" \o n \o " = " \o init \o ";"
    [] e.k = "c_csfield" -> "static " \o key \o " = " \o init \o ";"
    [] e.k = "c_sblock"  -> "static { " \o init \o "; }"
    [] e.k = "c_pfield"  -> "#p" \o n \o " = " \o init \o ";"
    [] e.k = "c_spfield" -> "static #q" \o n \o " = " \o init \o ";"
    [] e.k = "c_cmeth"   -> key \o "() {}"
    [] e.k = "c_csmeth"  -> "static " \o key \o "() {}"
    [] e.k = "c_cacc"    -> "get " \o key \o "() { return 1; }"
ClassSrc(x) ==
  LET els == ClassElems(x) IN
  "(() => { class C" \o (IF x.s = "h" THEN " extends h(" \o Src(x.a[1]) \o ")" ELSE "") \o " { " \o
  JoinStr([i \in DOMAIN els |-> ElemSrc(els[i], i)], " ") \o " } new C(); return 0; })()"
EvClass(x, c) ==
  LET els  == ClassElems(x)
      keyd == SelectSeq(els, ElemKeyed)
      stat == SelectSeq(els, ElemStaticInit)
      inst == SelectSeq(els, ElemInstInit)
      sH   == IF x.s = "h" THEN <<Step(<<>>, x.a[1], c.this, TRUE, "h")>> ELSE <<>>
      sK   == [i \in DOMAIN keyd |-> Step(<<>>, keyd[i].a[1], c.this, TRUE, "k")]
      sS   == [i \in DOMAIN stat |-> Step(<<"idt:class">>, ElemInit(stat[i]), ClassV, TRUE, "")]
      sN   == <<Step(IF x.s = "h" THEN <<"B">> ELSE <<>>, NoNode, c.this, TRUE, "")>>
      sI   == [i \in DOMAIN inst |-> Step(<<"idt:inst">>, ElemInit(inst[i]), InstV, TRUE, "")]
      acc  == RunSteps(sH \o sK \o sS \o sN \o sI, c, Acc0(c))
  IN R(acc.t, Num(0), acc.ab, FALSE, Undef, acc.st)

\* ---- using / await using (explicit resource management proposal)
\* resources: values of type "disp" (n: 0 sync dispose, 1 sync dispose that throws, 2 async
\* dispose, 3 async dispose that rejects)
RECURSIVE DisposeAll(_, _, _)
DisposeAll(res, t, err) ==
  IF res = <<>> THEN [t |-> t, ab |-> err] ELSE
  LET v    == res[Len(res)]
      ev   == (IF v.n >= 2 THEN "adispose:" ELSE "dispose:") \o v.s
      e    == IF v.n \in {1, 3} THEN "DErr(" \o v.s \o ")" ELSE ""
      err2 == IF e = "" THEN err ELSE IF err = "" THEN e ELSE IF err = "UNPRED" THEN err
              ELSE "SuppressedError(" \o e \o "," \o err \o ")" IN
  DisposeAll(SubSeq(res, 1, Len(res) - 1), Append(t, ev), err2)
\* can v be acquired by a (sync | await) using declaration?  "" = yes with a resource,
\* "none" = yes without one (null/undefined), otherwise the error
Acquire(v, isAwait) ==
  IF Nullish(v) THEN "none"
  ELSE IF v.ty = "disp" THEN (IF v.n >= 2 /\ ~isAwait THEN "TypeError" ELSE "")
  ELSE "TypeError"
\* decls: sequence of [x |-> node, aw |-> BOOLEAN]; acc = [t, vs, ab, st, res]
RECURSIVE UsingDecls(_, _, _)
UsingDecls(decls, c, acc) ==
  IF decls = <<>> \/ acc.ab # "" THEN acc ELSE
  LET d == Head(decls)
      r == Ev(d.x, WithSt(c, acc.st))
      t2 == acc.t \o r.t IN
  IF r.ab # "" THEN [acc EXCEPT !.t = t2, !.ab = r.ab, !.st = r.st] ELSE
  LET a == Acquire(r.v, d.aw) IN
  IF a = "TypeError" THEN [acc EXCEPT !.t = t2, !.ab = "TypeError", !.st = r.st]
  ELSE UsingDecls(Tail(decls), c, [acc EXCEPT !.t = t2, !.st = r.st, !.res = IF a = "" THEN Append(@, r.v) ELSE @])
\* a block: declarations, then body steps, then disposal in reverse order
UsingBlock(decls, body, c, t0, st0) ==
  LET a1 == UsingDecls(decls, c, [t |-> t0, vs |-> <<>>, ab |-> "", st |-> st0, res |-> <<>>])
      a2 == IF a1.ab # "" THEN [t |-> a1.t, vs |-> <<>>, ab |-> a1.ab, st |-> a1.st]
            ELSE RunSteps(body, c, [t |-> a1.t, vs |-> <<>>, ab |-> "", st |-> a1.st])
      d  == DisposeAll(a1.res, a2.t, a2.ab)
  IN [t |-> d.t, vs |-> a2.vs, ab |-> d.ab, st |-> a2.st]
KStep(n, c) == Step(<<"k:num:" \o ToString(n)>>, NoNode, c.this, c.strict, "")
EStep(x, c) == Step(<<>>, x, c.this, c.strict, "")
UsingSrc(x) ==
  LET A(i) == Src(x.a[i]) IN
  CASE x.s = "u_block"  -> "(() => { k(0); { using a = " \o A(1) \o ", b = " \o A(2) \o "; k(1); " \o A(3) \o "; k(2); } k(3); return 0; })()"
    [] x.s = "u_fn"     -> "(() => { using a = " \o A(1) \o "; return " \o A(2) \o "; })()"
    [] x.s = "u_forof"  -> "(() => { for (using x of [" \o A(1) \o ", " \o A(2) \o "]) k(1); return 0; })()"
    [] x.s = "u_nested" -> "(() => { using a = " \o A(1) \o "; { using b = " \o A(2) \o "; " \o A(3) \o "; } k(1); return 0; })()"
    [] x.s = "u_await"  -> "(await (async () => { k(0); { await using a = " \o A(1) \o ", b = " \o A(2) \o "; k(1); " \o A(3) \o "; k(2); } k(3); return 0; })())"
    [] x.s = "u_mixed"  -> "(await (async () => { { using a = " \o A(1) \o "; await using b = " \o A(2) \o "; " \o A(3) \o "; } k(3); return 0; })())"
Decl(x, aw) == [x |-> x, aw |-> aw]
EvUsing(x, c) ==
  LET Fin(b, val) == R(b.t, val, b.ab, FALSE, Undef, b.st)
      After(b, steps, val) ==   \* continue after a block that completed normally
        IF b.ab # "" THEN Fin(b, Undef)
        ELSE LET a == RunSteps(steps, c, [t |-> b.t, vs |-> <<>>, ab |-> "", st |-> b.st]) IN R(a.t, val, a.ab, FALSE, Undef, a.st)
  IN
  CASE x.s \in {"u_block", "u_await"} ->
         LET aw == x.s = "u_await"
             b == UsingBlock(<<Decl(x.a[1], aw), Decl(x.a[2], aw)>>, <<KStep(1, c), EStep(x.a[3], c), KStep(2, c)>>, c, <<"k:num:0">>, c.st)
         IN After(b, <<KStep(3, c)>>, Num(0))
    [] x.s = "u_mixed" ->
         LET b == UsingBlock(<<Decl(x.a[1], FALSE), Decl(x.a[2], TRUE)>>, <<EStep(x.a[3], c)>>, c, <<>>, c.st)
         IN After(b, <<KStep(3, c)>>, Num(0))
    [] x.s = "u_fn" ->
         LET b == UsingBlock(<<Decl(x.a[1], FALSE)>>, <<EStep(x.a[2], c)>>, c, <<>>, c.st)
         IN IF b.ab # "" THEN Fin(b, Undef) ELSE Fin(b, b.vs[1])
    [] x.s = "u_forof" ->
         \* the array is built first; each iteration binds and disposes one element
         LET a0 == RunSteps(<<EStep(x.a[1], c), EStep(x.a[2], c)>>, c, Acc0(c)) IN
         IF a0.ab # "" THEN R(a0.t, Undef, a0.ab, FALSE, Undef, a0.st) ELSE
         LET It(v, t, st) ==
               LET a == Acquire(v, FALSE) IN
               IF a = "TypeError" THEN [t |-> t, ab |-> "TypeError", st |-> st]
               ELSE LET d == DisposeAll(IF a = "" THEN <<v>> ELSE <<>>, Append(t, "k:num:1"), "") IN [t |-> d.t, ab |-> d.ab, st |-> st]
             i1 == It(a0.vs[1], a0.t, a0.st)
             i2 == IF i1.ab # "" THEN i1 ELSE It(a0.vs[2], i1.t, i1.st)
         IN R(i2.t, Num(0), i2.ab, FALSE, Undef, i2.st)
    [] x.s = "u_nested" ->
         LET a1 == UsingDecls(<<Decl(x.a[1], FALSE)>>, c, [t |-> <<>>, vs |-> <<>>, ab |-> "", st |-> c.st, res |-> <<>>])
             inner == IF a1.ab # "" THEN [t |-> a1.t, vs |-> <<>>, ab |-> a1.ab, st |-> a1.st]
                      ELSE UsingBlock(<<Decl(x.a[2], FALSE)>>, <<EStep(x.a[3], c)>>, c, a1.t, a1.st)
             rest == IF inner.ab # "" THEN inner
                     ELSE RunSteps(<<KStep(1, c)>>, c, [t |-> inner.t, vs |-> <<>>, ab |-> "", st |-> inner.st])
             d == DisposeAll(a1.res, rest.t, rest.ab)
         IN R(d.t, Num(0), d.ab, FALSE, Undef, rest.st)

\* ---- async functions, async generators, for-await (events of one task sequence)
\* ai(n): async iterable over 0..n-1 logging ai.iter / ai.next / ai.return;
\* si(n): the same, synchronous (si.iter / si.next / si.return)
AsyncSrc(x) ==
  LET A(i) == Src(x.a[i]) IN
  CASE x.s = "a_order" ->
         "(await (async () => { const f = async (x) => { k(1); const v = await " \o SrcP(x.a[1]) \o "; k(2); return [v, x, " \o A(2) \o "]; }; const pr = f(4); k(3); return await pr; })())"
    [] x.s \in {"a_forawait_ai", "a_forawait_si"} ->
         "(await (async () => { for await (const x of " \o (IF x.s = "a_forawait_ai" THEN "ai" ELSE "si") \o "(2)) { k(x); if (" \o A(1) \o ") break; } return 0; })())"
    [] x.s = "a_gen" ->
         "(await (async () => { async function* g() { k(1); const x = yield " \o A(1) \o "; k(x); yield " \o A(2) \o "; k(3); } const it = g(); k(0); const r1 = await it.next(); const r2 = await it.next(8); const r3 = await it.next(); return [r1.value, r1.done, r2.value, r3.done]; })())"
    [] x.s = "a_genreturn" ->
         "(await (async () => { async function* g() { try { yield " \o A(1) \o "; k(1); } finally { k(2); } } const it = g(); await it.next(); const r = await it.return(9); return [r.value, r.done]; })())"
    [] x.s = "a_yieldstar" ->
         "(await (async () => { async function* g() { const r = yield* ai(2); k(r); return " \o A(1) \o "; } const out = []; for await (const x of g()) out.push(x); return out; })())"
    [] x.s = "a_genpromise" ->
         "(await (async () => { async function* g() { const y = yield pr(" \o A(1) \o "); return pr(y); } const it = g(); const r1 = await it.next(); const r2 = await it.next(6); return [r1.value, r2.value, r2.done]; })())"
EvAsync(x, c) ==
  LET Fin(a, val) == R(a.t, val, a.ab, FALSE, Undef, a.st) IN
  CASE x.s = "a_order" ->
         LET r1 == Ev(x.a[1], c) IN
         IF r1.ab # "" THEN Throw(<<"k:num:1">> \o r1.t \o <<"k:num:3">>, r1.ab, r1.st) ELSE
         LET r2 == Ev(x.a[2], WithSt(c, r1.st))
             t  == <<"k:num:1">> \o r1.t \o <<"k:num:3", "k:num:2">> \o r2.t IN
         IF r2.ab # "" THEN Throw(t, r2.ab, r2.st) ELSE Ok(t, Lit(FmtList(<<r1.v, Num(4), r2.v>>)), r2.st)
    [] x.s \in {"a_forawait_ai", "a_forawait_si"} ->
         LET pfx == IF x.s = "a_forawait_ai" THEN "ai." ELSE "si."
             r1 == Ev(x.a[1], c)
             t1 == <<pfx \o "iter", pfx \o "next", "k:num:0">> \o r1.t IN
         IF r1.ab # "" THEN Throw(Append(t1, pfx \o "return"), r1.ab, r1.st)
         ELSE IF Truthy(r1.v) THEN Ok(Append(t1, pfx \o "return"), Num(0), r1.st)
         ELSE \* second iteration evaluates the same operand again, then the iterator is exhausted
              Ok(t1 \o <<pfx \o "next", "k:num:1">> \o r1.t \o <<pfx \o "next">>, Num(0), r1.st)
    [] x.s = "a_gen" ->
         LET r1 == Ev(x.a[1], c) IN
         IF r1.ab # "" THEN Throw(<<"k:num:0", "k:num:1">> \o r1.t, r1.ab, r1.st) ELSE
         LET r2 == Ev(x.a[2], WithSt(c, r1.st))
             t  == <<"k:num:0", "k:num:1">> \o r1.t \o <<"k:num:8">> \o r2.t IN
         IF r2.ab # "" THEN Throw(t, r2.ab, r2.st)
         ELSE Ok(Append(t, "k:num:3"), Lit("[" \o Fmt(r1.v) \o ",bool:false," \o Fmt(r2.v) \o ",bool:true]"), r2.st)
    [] x.s = "a_genreturn" ->
         LET r1 == Ev(x.a[1], c) IN
         IF r1.ab # "" THEN Throw(Append(r1.t, "k:num:2"), r1.ab, r1.st)
         ELSE Ok(Append(r1.t, "k:num:2"), Lit("[num:9,bool:true]"), r1.st)
    [] x.s = "a_yieldstar" ->
         LET r1 == Ev(x.a[1], c)
             t  == <<"ai.iter", "ai.next", "ai.next", "ai.next", "k:undef">> \o r1.t IN
         IF r1.ab # "" THEN Throw(t, r1.ab, r1.st) ELSE Ok(t, Lit("[num:0,num:1]"), r1.st)
    [] x.s = "a_genpromise" ->
         LET r1 == Ev(x.a[1], c) IN
         IF r1.ab # "" THEN Throw(r1.t, r1.ab, r1.st)
         ELSE Ok(r1.t, Lit("[" \o Fmt(r1.v) \o ",num:6,bool:true]"), r1.st)


-----------------------------------------------------------------------------
(* ---------------- object model: [[DefineOwnProperty]] vs [[Set]], copies, ---------------- *)
(* ---------------- error timing of parameter initialisation, thenables    ---------------- *)
(* What a lowering helper may not confuse: a class field / a copied property is DEFINED      *)
(* (CreateDataPropertyOrThrow: never looks at the prototype chain, never calls a setter,     *)
(* fails on a non-extensible target) while `o.k = v` is a [[Set]] (finds k on the chain      *)
(* first: calls an inherited setter, fails on an inherited read-only property).  And an      *)
(* async function reports an error of its parameter initialisation through the returned      *)
(* promise (27.7.5.1 AsyncFunctionStart / 10.2.1.4 step "If declResult is an abrupt          *)
(* completion, reject"), a generator / async generator throws it at the call.                *)
(* Observations (node/run_probes_c05.js): shape(o) = "<proto|key=own:EWC:value,...>" lists    *)
(* every own property with its attributes (lower case = false), rd(o, k) reads through the   *)
(* chain; accessors of the shapes log bget:/bset:/pget:/pset:; timing(call) says whether the  *)
(* call threw ("sync:E"), or returned (logs k:ret) something that then rejected ("rej:E") or *)
(* fulfilled ("ok:v").                                                                       *)

Desc(kind, v, e, w, cf, g, s) == [kind |-> kind, v |-> v, e |-> e, w |-> w, c |-> cf, g |-> g, s |-> s]
DNone         == Desc("none", Undef, FALSE, FALSE, FALSE, FALSE, FALSE)
DData(v, e, w, cf) == Desc("data", v, e, w, cf, FALSE, FALSE)
DAcc(g, s)    == Desc("acc", Undef, FALSE, FALSE, TRUE, g, s)
FreshData(v)  == DData(v, TRUE, TRUE, TRUE)
FmtAttr(b, ch) == IF b THEN ch ELSE (CASE ch = "E" -> "e" [] ch = "W" -> "w" [] ch = "C" -> "c")
FmtDesc(d) ==
  CASE d.kind = "none" -> "absent"
    [] d.kind = "data" -> "own:" \o FmtAttr(d.e, "E") \o FmtAttr(d.w, "W") \o FmtAttr(d.c, "C") \o ":" \o Fmt(d.v)
    [] OTHER           -> "own:acc:" \o FmtAttr(d.e, "E") \o FmtAttr(d.c, "C")
\* the outcome of a write: the own descriptor afterwards, the events, the abrupt completion
WR(own, evs, ab) == [own |-> own, evs |-> evs, ab |-> ab]
\* CreateDataPropertyOrThrow / DefineField (ECMA-262 7.3.7, 7.3.34; 10.1.6.3
\* ValidateAndApplyPropertyDescriptor): own = the current own descriptor, ext = [[Extensible]]
DefineOwn(own, ext, v) ==
  IF own.kind = "none" THEN (IF ext THEN WR(FreshData(v), <<>>, "") ELSE WR(own, <<>>, "TypeError"))
  ELSE IF own.c THEN WR(FreshData(v), <<>>, "")
  ELSE WR(own, <<>>, "TypeError")
\* OrdinarySet with Receiver = the object (10.1.9.2): inh = the descriptor found on the prototype
\* chain, wh = the name accessors of the chain log, strict = the assignment is strict-mode code
SetProp(own, inh, ext, v, wh, strict) ==
  LET d    == IF own.kind # "none" THEN own ELSE inh
      fail == WR(own, <<>>, IF strict THEN "TypeError" ELSE "")
  IN CASE d.kind = "acc"  -> (IF d.s THEN WR(own, <<"bset:" \o wh \o "=" \o Fmt(v)>>, "") ELSE fail)
       [] d.kind = "data" /\ ~d.w -> fail
       [] own.kind = "data" -> WR([own EXCEPT !.v = v], <<>>, "")
       [] OTHER -> (IF ext THEN WR(FreshData(v), <<>>, "") ELSE fail)
GetProp(own, inh, wh) ==
  LET d == IF own.kind # "none" THEN own ELSE inh IN
  CASE d.kind = "acc"  -> (IF d.g THEN [v |-> Num(9), evs |-> <<"bget:" \o wh>>] ELSE [v |-> Undef, evs |-> <<>>])
    [] d.kind = "data" -> [v |-> d.v, evs |-> <<>>]
    [] OTHER           -> [v |-> Undef, evs |-> <<>>]
InChain(own, inh) == own.kind # "none" \/ inh.kind # "none"       \* `key in obj`

\* what a base class of class cl puts on its prototype (and, as statics, on itself) under the
\* keys "x" and "1"; BF: nothing, but the constructor returns a frozen object
BaseInh(cl) ==
  CASE cl = "BA" -> DAcc(TRUE, TRUE) [] cl = "BG" -> DAcc(TRUE, FALSE) [] cl = "BS" -> DAcc(FALSE, TRUE)
    [] cl = "BR" -> DData(Num(9), TRUE, FALSE, TRUE) [] cl = "BD" -> DData(Num(9), TRUE, TRUE, TRUE) [] OTHER -> DNone
BaseExt(cl) == cl # "BF"
ChainShapes == {DNone, DAcc(TRUE, TRUE), DAcc(TRUE, FALSE), DAcc(FALSE, TRUE), DData(Num(9), TRUE, FALSE, TRUE), DData(Num(9), TRUE, TRUE, TRUE)}
OwnShapes   == ChainShapes \cup {DData(Num(9), FALSE, FALSE, FALSE), DData(Num(9), TRUE, TRUE, FALSE)}
\* TLC checks (design config): a definition never depends on the chain and never runs an
\* accessor; an assignment is the same as a definition exactly when the key is nowhere on the
\* chain and the target is extensible (the only case in which a helper may assign instead)
ObjModelOK ==
  \A own \in OwnShapes : \A inh \in ChainShapes : \A ext \in BOOLEAN : \A strict \in BOOLEAN :
    LET d == DefineOwn(own, ext, Num(3)) s == SetProp(own, inh, ext, Num(3), "w", strict) IN
    /\ d = DefineOwn(own, ext, Num(3)) /\ d.evs = <<>>
    /\ d.ab = "" => d.own = FreshData(Num(3))
    /\ (~InChain(own, inh) /\ ext) => s = d
    /\ (own.kind = "none" /\ inh.kind = "acc") => (s.own = DNone /\ (ext => s # d))
    /\ (own.kind = "none" /\ inh.kind = "data" /\ ~inh.w /\ ext) => (s.own = DNone /\ s.ab = (IF strict THEN "TypeError" ELSE "") /\ d.ab = "")
    /\ (own.kind = "none" /\ ~ext) => (d.ab = "TypeError" /\ s.own = DNone /\ (s.ab = "" => (~strict \/ (inh.kind = "acc" /\ inh.s))))
ObjModelHolds == (u = u) /\ ObjModelOK      \* (an invariant must mention a variable)

\* ---- class fields and assignments over a base class (node "dfn")
\* slots: 1 base class, 2 value, 3 computed key (variants d_cfield / d_csfield only)
DfnStatic == {"d_sfield", "d_sprotofield", "d_csfield", "d_sblockset"}
DfnSet    == {"d_ctorset", "d_sblockset", "d_superset"}
DfnKeyText(vr) == CASE vr \in {"d_numfield"} -> "1" [] vr \in {"d_protofield", "d_sprotofield"} -> "__proto__" [] OTHER -> "x"
DfnSrc(x) ==
  LET B == SrcP(x.a[1])
      Vv == Src(x.a[2])
      key == DfnKeyText(x.s)
      st == IF x.s \in DfnStatic THEN "static " ELSE ""
      member ==
        CASE x.s \in {"d_cfield", "d_csfield"} -> st \o "[" \o Src(x.a[3]) \o "] = " \o Vv \o ";"
          [] x.s = "d_ctorset"   -> "constructor() { super(); this.x = " \o Vv \o "; }"
          [] x.s = "d_sblockset" -> "static { this.x = " \o Vv \o "; }"
          [] x.s = "d_superget"  -> "async m() { await 0; return super.x; }"
          [] x.s = "d_superset"  -> "async m() { await 0; super.x = " \o Vv \o "; return 0; }"
          [] OTHER -> st \o key \o " = " \o Vv \o ";"
      kexp == IF x.s \in {"d_cfield", "d_csfield"} THEN "kk" ELSE "\"" \o key \o "\""
      head == "class C extends " \o B \o " { " \o member \o " }"
  IN CASE x.s \in {"d_cfield", "d_csfield"} ->
            "(() => { let kk; const K = (v) => (kk = v); " \o
            "class C extends " \o B \o " { " \o st \o "[K(" \o Src(x.a[3]) \o ")] = " \o Vv \o "; } " \o
            (IF x.s = "d_csfield" THEN "return [shape(C), rd(C, kk)]; })()" ELSE "const o = new C(); return [shape(o), rd(o, kk)]; })()")
       [] x.s = "d_superget" -> "(await (async () => { " \o head \o " const o = new C(); const v = await o.m(); return [shape(o), fmtv(v)]; })())"
       [] x.s = "d_superset" -> "(await (async () => { " \o head \o " const o = new C(); await o.m(); return [shape(o), rd(o, \"x\")]; })())"
       [] x.s \in DfnStatic  -> "(() => { " \o head \o " return [shape(C), rd(C, " \o kexp \o ")]; })()"
       [] OTHER              -> "(() => { " \o head \o " const o = new C(); return [shape(o), rd(o, " \o kexp \o ")]; })()"
PropKeyOf(v) == CASE v.ty = "str" -> v.s [] v.ty = "num" -> ToString(v.n) [] OTHER -> "?"
EvDfn(x, c) ==
  LET b == Ev(x.a[1], c) IN
  IF b.ab # "" THEN Throw(b.t, b.ab, b.st)
  ELSE IF b.v.ty # "base" THEN Unpred(b.t, b.st) ELSE
  LET cl     == ClassOf(b.v)
      static == x.s \in DfnStatic
      \* a computed key is evaluated when the class is defined
      kr     == IF x.s \in {"d_cfield", "d_csfield"} THEN Ev(x.a[3], WithSt(c, b.st)) ELSE Ok(<<>>, Str(DfnKeyText(x.s)), b.st)
  IN IF kr.ab # "" THEN Throw(b.t \o kr.t, kr.ab, kr.st)
  ELSE IF PropKeyOf(kr.v) = "?" THEN Unpred(b.t \o kr.t, kr.st) ELSE
  LET key  == PropKeyOf(kr.v)
      wh   == b.v.s \o (IF static THEN ".static." ELSE ".") \o key
      \* instance members run after the base constructor; field initialisers / the statements
      \* of the templates are strict code (class bodies)
      vr   == IF x.s = "d_superget" THEN Ok(<<>>, Undef, kr.st) ELSE Ev(x.a[2], [c EXCEPT !.st = kr.st, !.strict = TRUE, !.this = IF static THEN ClassV ELSE InstV])
      t1   == b.t \o kr.t \o (IF static THEN <<>> ELSE <<"B">>) \o vr.t
  IN IF vr.ab # "" THEN Throw(t1, vr.ab, vr.st) ELSE
  LET inh  == IF key = "__proto__" THEN DAcc(TRUE, TRUE) ELSE BaseInh(cl)
      ext  == static \/ BaseExt(cl)
      w    == CASE x.s = "d_superget" -> WR(DNone, <<>>, "")
                [] x.s \in DfnSet     -> SetProp(DNone, inh, ext, vr.v, wh, TRUE)
                [] OTHER              -> DefineOwn(DNone, ext, vr.v)
      t2   == t1 \o w.evs
  IN IF w.ab # "" THEN Throw(t2, w.ab, vr.st) ELSE
  LET g    == GetProp(w.own, inh, wh)
      sh   == "<" \o (IF static THEN "base:" \o b.v.s ELSE "other") \o "|" \o
              (IF w.own.kind = "none" THEN "" ELSE key \o "=" \o FmtDesc(w.own)) \o ">"
  IN Ok(t2 \o g.evs, Lit("[str:" \o sh \o ",str:" \o Fmt(g.v) \o "]"), vr.st)

\* ---- copies: object spread and object rest over adversarial sources (node "cpy")
\* own properties of a source in creation order: key, enumerable, value, acc = reading logs
\* "get:", thr = the getter throws GErr.  PX is a Proxy: it also logs ownKeys / gopd.
SK(key, e, v, acc, thr) == [key |-> key, e |-> e, v |-> v, acc |-> acc, thr |-> thr]
Mark == V("mark", 0, "m")
SrcProps(cl) ==
  CASE cl = "G"  -> <<SK("b", TRUE, Undef, TRUE, FALSE), SK("1", TRUE, Num(1), TRUE, FALSE), SK("a", TRUE, Num(7), TRUE, FALSE),
                      SK("h", FALSE, Num(6), TRUE, FALSE), SK("@s", TRUE, Num(8), TRUE, FALSE), SK("@hs", FALSE, Num(5), TRUE, FALSE)>>
    [] cl = "OP" -> <<SK("a", TRUE, Num(1), FALSE, FALSE), SK("__proto__", TRUE, Mark, FALSE, FALSE)>>
    [] cl = "PX" -> <<SK("b", TRUE, Num(2), TRUE, FALSE), SK("a", TRUE, Num(1), TRUE, FALSE), SK("h", FALSE, Num(6), TRUE, FALSE),
                      SK("@s", TRUE, Num(8), TRUE, FALSE)>>
    [] cl = "GX" -> <<SK("a", TRUE, Undef, TRUE, TRUE), SK("c", TRUE, Num(2), TRUE, FALSE)>>
    [] cl = "FZ" -> <<SK("a", TRUE, Num(1), FALSE, FALSE)>>
    [] OTHER     -> <<>>
IsIntK(r) == r.key = "1"
IsSymK(r) == r.key \in {"@s", "@hs"}
IsStrK(r) == ~IsIntK(r) /\ ~IsSymK(r)
OwnKeyOrder(props) == SelectSeq(props, IsIntK) \o SelectSeq(props, IsStrK) \o SelectSeq(props, IsSymK)   \* 10.1.11.1
IsSymKey2(key) == key \in {"@s", "@hs"}
KeyOrder2(ord) == SelectSeq(ord, IsIntKey) \o SelectSeq(ord, LAMBDA k : ~IsIntKey(k) /\ ~IsSymKey2(k)) \o SelectSeq(ord, IsSymKey2)
\* reading property key of a value (destructuring `{ a }`): [evs, err, v]
GetOf(v, key) ==
  LET cl == ClassOf(v) IN
  IF Nullish(v) THEN [evs |-> <<>>, err |-> "TypeError", v |-> Undef]
  ELSE IF cl \in {"G", "OP", "PX", "GX", "FZ"} THEN
       LET ps == SelectSeq(SrcProps(cl), LAMBDA r : r.key = key) IN
       IF ps = <<>> THEN [evs |-> IF cl = "PX" THEN <<"get:" \o v.s \o "." \o key>> ELSE <<>>, err |-> "", v |-> Undef]
       ELSE [evs |-> IF ps[1].acc THEN <<"get:" \o v.s \o "." \o key>> ELSE <<>>,
             err |-> IF ps[1].thr THEN "GErr(" \o v.s \o ")" ELSE "", v |-> ps[1].v]
  ELSE IF v.ty \in {"num", "bool", "nan", "str"} THEN [evs |-> <<>>, err |-> "", v |-> Undef]
  ELSE [evs |-> <<>>, err |-> "UNPRED", v |-> Undef]
\* CopyDataProperties (7.3.26): acc = [t, ab, ord, val]
PutD(a, key, w) == [a EXCEPT !.ord = IF key \in SeqSet(@) THEN @ ELSE Append(@, key), !.val = (key :> w) @@ @]
RECURSIVE CopyKeys(_, _, _, _, _)
CopyKeys(keys, cl, path, excl, acc) ==
  IF keys = <<>> \/ acc.ab # "" THEN acc ELSE
  LET r == Head(keys) IN
  IF r.key \in excl THEN CopyKeys(Tail(keys), cl, path, excl, acc) ELSE
  LET gopd == IF cl = "PX" THEN <<"gopd:" \o path \o "." \o r.key>> ELSE <<>>
      get  == IF r.acc THEN <<"get:" \o path \o "." \o r.key>> ELSE <<>> IN
  IF ~r.e THEN CopyKeys(Tail(keys), cl, path, excl, [acc EXCEPT !.t = @ \o gopd])
  ELSE IF r.thr THEN [acc EXCEPT !.t = @ \o gopd \o get, !.ab = "GErr(" \o path \o ")"]
  ELSE CopyKeys(Tail(keys), cl, path, excl, PutD([acc EXCEPT !.t = @ \o gopd \o get], r.key, FmtDesc(FreshData(r.v))))
CopyFrom(v, excl, acc) ==
  LET cl == ClassOf(v) IN
  IF Nullish(v) \/ v.ty \in {"num", "bool", "nan"} THEN acc
  ELSE IF cl \notin {"G", "OP", "PX", "GX", "FZ"} THEN [acc EXCEPT !.ab = "UNPRED"]
  ELSE CopyKeys(OwnKeyOrder(SrcProps(cl)), cl, v.s, excl, [acc EXCEPT !.t = @ \o (IF cl = "PX" THEN <<"ownKeys:" \o v.s>> ELSE <<>>)])
ShapeOf(proto, a) == "<" \o proto \o "|" \o JoinStr([i \in DOMAIN KeyOrder2(a.ord) |-> KeyOrder2(a.ord)[i] \o "=" \o a.val[KeyOrder2(a.ord)[i]]], ",") \o ">"
CpySrc(x) ==
  CASE x.s = "s_spread"       -> "(() => { const o = { x: 1, ..." \o SrcP(x.a[1]) \o " }; return shape(o); })()"
    [] x.s = "s_spread_proto" -> "(() => { const o = { __proto__: " \o SrcP(x.a[1]) \o ", ..." \o SrcP(x.a[2]) \o ", b: 2 }; return shape(o); })()"
    [] x.s = "s_rest"         -> "(() => { const { a, ...r } = " \o Src(x.a[1]) \o "; return [a, shape(r)]; })()"
    [] x.s = "s_rest_asg"     -> "(() => { let a, r; ({ a, ...r } = " \o Src(x.a[1]) \o "); return [a, shape(r)]; })()"
EvCpy(x, c) ==
  LET A0 == [t |-> <<>>, ab |-> "", ord |-> <<>>, val |-> <<>>] IN
  CASE x.s = "s_spread" ->
         LET r == Ev(x.a[1], c) IN
         IF r.ab # "" THEN Throw(r.t, r.ab, r.st) ELSE
         LET a == CopyFrom(r.v, {}, PutD([A0 EXCEPT !.t = r.t], "x", FmtDesc(FreshData(Num(1))))) IN
         IF a.ab # "" THEN Throw(a.t, a.ab, r.st) ELSE Ok(a.t, Str(ShapeOf("Object", a)), r.st)
    [] x.s = "s_spread_proto" ->
         LET pr == Ev(x.a[1], c) IN
         IF pr.ab # "" THEN Throw(pr.t, pr.ab, pr.st) ELSE
         LET r == Ev(x.a[2], WithSt(c, pr.st)) IN
         IF r.ab # "" THEN Throw(pr.t \o r.t, r.ab, r.st)
         ELSE IF ~(pr.v.ty = "null" \/ ClassOf(pr.v) = "PA") THEN Unpred(pr.t \o r.t, r.st) ELSE
         LET a  == CopyFrom(r.v, {}, [A0 EXCEPT !.t = pr.t \o r.t])
             a2 == PutD(a, "b", FmtDesc(FreshData(Num(2)))) IN
         IF a.ab # "" THEN Throw(a.t, a.ab, r.st)
         ELSE Ok(a.t, Str(ShapeOf(IF pr.v.ty = "null" THEN "null" ELSE "pa:" \o pr.v.s, a2)), r.st)
    [] x.s \in {"s_rest", "s_rest_asg"} ->
         LET r == Ev(x.a[1], c) IN
         IF r.ab # "" THEN Throw(r.t, r.ab, r.st) ELSE
         LET g == GetOf(r.v, "a") IN
         IF g.err # "" THEN Throw(r.t \o g.evs, g.err, r.st) ELSE
         LET a == CopyFrom(r.v, {"a"}, [A0 EXCEPT !.t = r.t \o g.evs]) IN
         IF a.ab # "" THEN Throw(a.t, a.ab, r.st)
         ELSE Ok(a.t, Lit("[" \o Fmt(g.v) \o ",str:" \o ShapeOf("Object", a) \o "]"), r.st)

\* ---- error timing of parameter initialisation (node "tim": x.n = form, x.s = cause)
TimForms == <<"fn", "arrow", "meth", "cmeth", "smeth", "gen", "genmeth">>
TimTdz   == {"tdz_let", "tdz_const", "tdz_class", "tdzargs"}
TypeOf(v) == CASE v.ty = "undef" -> "undefined" [] v.ty \in {"num", "nan"} -> "number" [] v.ty = "str" -> "string"
               [] v.ty = "bool" -> "boolean" [] v.ty \in {"fn", "class", "base"} -> "function" [] OTHER -> "object"
TimSrc(x) ==
  LET form   == TimForms[x.n]
      isGen  == form \in {"gen", "genmeth"}
      A(i)   == Src(x.a[i])
      params == CASE x.s \in TimTdz -> "a = L" [] x.s \in {"dflt", "args"} -> "a = " \o A(1) [] x.s = "destr" -> "{ a }"
                  [] x.s = "ddflt" -> "{ b: a = " \o A(2) \o " }" [] x.s = "body" -> "a"
      args   == CASE x.s \in {"destr", "ddflt"} -> A(1) [] x.s = "body" -> "2" [] OTHER -> ""
      k2     == IF x.s \in {"args", "tdzargs"} THEN "k(arguments.length)" ELSE "k(2)"
      body   == "k(1); " \o (IF x.s = "body" THEN A(1) \o "; " ELSE "") \o "await 0; " \o k2 \o "; " \o
                (IF isGen THEN "yield " ELSE "return ") \o "typeof a;"
      sig    == "(" \o params \o ") { " \o body \o " }"
      decl   == CASE form = "fn"      -> "async function f" \o sig
                  [] form = "gen"     -> "async function* f" \o sig
                  [] form = "arrow"   -> "const f = async (" \o params \o ") => { " \o body \o " };"
                  [] form = "meth"    -> "const o = { async f" \o sig \o " };"
                  [] form = "genmeth" -> "const o = { async *f" \o sig \o " };"
                  [] form = "cmeth"   -> "class K { async f" \o sig \o " } const o = new K();"
                  [] form = "smeth"   -> "class o { static async f" \o sig \o " }"
      callee == IF form \in {"fn", "gen", "arrow"} THEN "f" ELSE "o.f"
      call   == "await timing(() => " \o callee \o "(" \o args \o ")" \o (IF isGen THEN ", true" ELSE "") \o ")"
      ldecl  == CASE x.s = "tdz_const" -> "const L = 5;" [] x.s = "tdz_class" -> "class L {}" [] OTHER -> "let L = 5;"
  IN IF x.s \in TimTdz
     THEN "(await (async () => { " \o decl \o " const e = " \o A(1) \o "; let r; if (e) r = " \o call \o "; " \o ldecl \o
          " if (!e) r = " \o call \o "; return r; })())"
     ELSE "(await (async () => { " \o decl \o " return " \o call \o "; })())"
EvTim(x, c) ==
  LET form  == TimForms[x.n]
      isGen == form \in {"gen", "genmeth"}
      first == IF x.s = "body" THEN Ok(<<>>, Undef, c.st) ELSE Ev(x.a[1], c)
  IN
  \* the early flag is evaluated by the surrounding code; an argument inside the observed call
  IF first.ab # "" /\ x.s \in TimTdz THEN Throw(first.t, first.ab, first.st)
  ELSE IF first.ab # "" /\ x.s \in {"destr", "ddflt"} THEN Ok(first.t, Str("sync:" \o first.ab), first.st)
  ELSE
  LET \* parameter initialisation: [evs, err, a]
      init ==
        CASE x.s \in TimTdz -> [evs |-> <<>>, err |-> IF Truthy(first.v) THEN "ReferenceError" ELSE "",
                                a |-> IF x.s = "tdz_class" THEN ClassV ELSE Num(5)]
          [] x.s \in {"dflt", "args"} -> [evs |-> <<>>, err |-> first.ab, a |-> first.v]
          [] x.s = "destr" -> LET g == GetOf(first.v, "a") IN [evs |-> g.evs, err |-> g.err, a |-> g.v]
          [] x.s = "ddflt" ->
               LET g == GetOf(first.v, "b") IN
               IF g.err # "" THEN [evs |-> g.evs, err |-> g.err, a |-> Undef]
               ELSE IF g.v.ty # "undef" THEN [evs |-> g.evs, err |-> "", a |-> g.v]
               ELSE LET d == Ev(x.a[2], WithSt(c, first.st)) IN [evs |-> g.evs \o d.t, err |-> d.ab, a |-> d.v]
          [] OTHER -> [evs |-> <<>>, err |-> "", a |-> Num(2)]
      pre   == IF x.s \in {"dflt", "args"} THEN first.t ELSE IF x.s = "body" THEN <<>> ELSE first.t
      bodyR == IF x.s = "body" THEN Ev(x.a[1], c) ELSE Ok(<<>>, Undef, c.st)
      \* `arguments` of an arrow function are those of the enclosing function (one argument in
      \* every position of the generator); the other forms are called without arguments
      argc  == IF form = "arrow" THEN 1 ELSE 0
      k2    == IF x.s \in {"args", "tdzargs"} THEN "k:num:" \o ToString(argc) ELSE "k:num:2"
      okv   == "ok:str:" \o TypeOf(init.a)
      stE   == first.st
  IN
  IF init.err = "UNPRED" THEN Unpred(pre \o init.evs, stE)
  ELSE IF ~isGen THEN
       IF init.err # "" THEN Ok(pre \o init.evs \o <<"k:ret">>, Str("rej:" \o init.err), stE)
       ELSE IF bodyR.ab # "" THEN Ok(pre \o init.evs \o <<"k:num:1">> \o bodyR.t \o <<"k:ret">>, Str("rej:" \o bodyR.ab), stE)
       ELSE Ok(pre \o init.evs \o <<"k:num:1">> \o bodyR.t \o <<"k:ret", k2>>, Str(okv), stE)
  ELSE
       IF init.err # "" THEN Ok(pre \o init.evs, Str("sync:" \o init.err), stE)
       ELSE IF bodyR.ab # "" THEN Ok(pre \o init.evs \o <<"k:ret", "k:num:1">> \o bodyR.t, Str("rej:" \o bodyR.ab), stE)
       ELSE Ok(pre \o init.evs \o <<"k:ret", "k:num:1">> \o bodyR.t \o <<k2>>, Str(okv), stE)

\* ---- awaiting / returning / iterating custom thenables (node "thn")
\* TH fulfils with 4, THS calls resolve twice (4, then 6: ignored), THX rejects with TErr
ThnSrc(x) ==
  LET A(i) == Src(x.a[i]) IN
  CASE x.s = "a_then" ->
         "(await (async () => { const f = async () => { k(1); const v = await " \o SrcP(x.a[1]) \o "; k(2); return v; }; const pr = f(); k(3); return await timing(() => pr); })())"
    [] x.s = "a_retthen" ->
         "(await (async () => { const f = async () => { k(1); return " \o A(1) \o "; }; const pr = f(); k(3); return await timing(() => pr); })())"
    [] x.s = "a_forawait_then" ->
         "(await (async () => { const out = []; for await (const x of [" \o A(1) \o ", " \o A(2) \o "]) out.push(x); return out; })())"
ThenEvs(v) == IF v.ty = "then" THEN <<"then:" \o v.s \o " this=self">> ELSE <<>>
ThenGet(v) == IF v.ty = "then" THEN <<"get:" \o v.s \o ".then">> ELSE <<>>
ThenErr(v) == IF v.ty = "then" /\ ClassOf(v) = "THX" THEN "TErr(" \o v.s \o ")" ELSE ""
ThenVal(v) == IF v.ty = "then" THEN Num(4) ELSE v
EvThn(x, c) ==
  CASE x.s \in {"a_then", "a_retthen"} ->
         LET r == Ev(x.a[1], c) IN
         IF r.ab # "" THEN Ok(<<"k:num:1">> \o r.t \o <<"k:num:3", "k:ret">>, Str("rej:" \o r.ab), r.st) ELSE
         LET t == <<"k:num:1">> \o r.t \o ThenGet(r.v) \o <<"k:num:3", "k:ret">> \o ThenEvs(r.v) IN
         IF ThenErr(r.v) # "" THEN Ok(t, Str("rej:" \o ThenErr(r.v)), r.st)
         ELSE Ok(t \o (IF x.s = "a_then" THEN <<"k:num:2">> ELSE <<>>), Str("ok:" \o Fmt(ThenVal(r.v))), r.st)
    [] x.s = "a_forawait_then" ->
         LET r1 == Ev(x.a[1], c) IN
         IF r1.ab # "" THEN Throw(r1.t, r1.ab, r1.st) ELSE
         LET r2 == Ev(x.a[2], WithSt(c, r1.st)) IN
         IF r2.ab # "" THEN Throw(r1.t \o r2.t, r2.ab, r2.st) ELSE
         LET t1 == r1.t \o r2.t \o ThenGet(r1.v) \o ThenEvs(r1.v) IN
         IF ThenErr(r1.v) # "" THEN Throw(t1, ThenErr(r1.v), r2.st) ELSE
         LET t2 == t1 \o ThenGet(r2.v) \o ThenEvs(r2.v) IN
         IF ThenErr(r2.v) # "" THEN Throw(t2, ThenErr(r2.v), r2.st)
         ELSE Ok(t2, Lit(FmtList(<<ThenVal(r1.v), ThenVal(r2.v)>>)), r2.st)


-----------------------------------------------------------------------------
(* ---------------- programs: constructs x positions (x nesting) ---------------- *)

RoleSet(role) ==
  CASE role = "r"  -> {"U", "N", "O"}      \* receiver
    [] role = "ro" -> {"O"}                \* receiver that must be an object
    [] role = "v"  -> {"U", "Z", "T"}      \* value
    [] role = "n"  -> {"Z", "T", "W"}      \* number
    [] role = "k"  -> {"S", "Su"}          \* property key ("t" / "u")
    [] role = "ka" -> {"Sa", "S"}          \* property key ("a" / "t")
    [] role = "g"  -> {"G", "U", "T"}      \* spread source
    [] role = "gs" -> {"G", "N", "T"}      \* destructuring source
    [] role = "gt" -> {"G", "T"}           \* ... of a destructuring assignment (V8 evaluates the targets before it
                                           \*     rejects a null source; ECMA-262 says the opposite: not generated)
    [] role = "f"  -> {"F", "U"}           \* callee
    [] role = "i"  -> {"O", "U", "T"}      \* operand of a private brand check / access
    [] role = "d"  -> {"D", "DX", "N", "T"}      \* operand of using
    [] role = "da" -> {"AD", "ADX", "D", "N"}    \* operand of await using
    [] role = "b"  -> {"Z", "T"}           \* loop exit condition
    [] role = "c"  -> {"T"}                \* operand whose value does not matter (order only)
    [] role = "kc" -> {"S"}
    [] role = "bs" -> {"B0", "BA", "BG", "BS", "BR", "BD", "BF"}   \* base class: what the chain has under the key
    [] role = "vd" -> {"T", "O", "N"}      \* value written by a definition
    [] role = "kd" -> {"Sx", "Sp", "W1"}   \* computed key of a definition: "x", "__proto__", 1
    [] role = "sg" -> {"G", "OP", "PX", "GX", "FZ", "U"}    \* source of a copy (spread)
    [] role = "sr" -> {"G", "OP", "PX", "GX", "FZ", "N"}    \* source of a copy (rest)
    [] role = "tp" -> {"PA", "N"}          \* prototype given to an object literal
    [] role = "ds" -> {"U", "N", "G", "GX", "T"}   \* argument destructured by a parameter
    [] role = "th" -> {"TH", "THX", "THS", "T"}    \* awaited value: thenables

\* construct descriptors: fam = family, op/key = parameters, roles = roles of the operand slots,
\* req = "" | "priv" (needs the private names of the priv contexts) | "var" (needs the local v)
\*       | "arg" (uses arguments) ; aw = contains await
CD(name, fam, op, key, roles, req) == [name |-> name, fam |-> fam, op |-> op, key |-> key, roles |-> roles, req |-> req]
LogOps == <<"??=", "||=", "&&=">>
OpTag(op) == CASE op = "??=" -> "nn" [] op = "||=" -> "or" [] op = "&&=" -> "and" [] op = "**=" -> "pow" [] op = "=" -> "set"
ExprConstructs ==
  <<CD("oc_mem", "oc_mem", "", "", <<"r">>, ""),
    CD("oc_deep", "oc_deep", "", "", <<"r">>, ""),
    CD("oc_call", "oc_call", "", "", <<"r", "v">>, ""),
    CD("oc_callhead", "oc_callhead", "", "", <<"r", "v">>, ""),
    CD("oc_ocall_missing", "oc_ocall", "", "q", <<"ro", "v">>, ""),
    CD("oc_ocall", "oc_ocall", "", "f", <<"ro", "v">>, ""),
    CD("oc_idx", "oc_idx", "", "", <<"r", "k">>, ""),
    CD("oc_idxdeep", "oc_idxdeep", "", "", <<"r", "k">>, ""),
    CD("oc_paren", "oc_paren", "", "", <<"r">>, ""),
    CD("oc_parencall", "oc_parencall", "", "", <<"r", "v">>, ""),
    CD("oc_delete", "oc_delete", "", "", <<"r">>, ""),
    CD("oc_deleteidx", "oc_deleteidx", "", "", <<"r", "k">>, ""),
    CD("oc_two", "oc_two", "", "", <<"r", "v">>, ""),
    CD("oc_undef", "oc_undef", "", "", <<"r">>, ""),
    CD("oc_this", "oc_this", "", "", <<"v">>, ""),
    CD("oc_arg", "oc_arg", "", "", <<"v">>, "arg"),
    CD("nul", "nul", "", "", <<"v", "v">>, ""),
    CD("nul3", "nul3", "", "", <<"v", "v", "v">>, ""),
    CD("pow", "pow", "", "", <<"n", "n">>, ""),
    CD("pow3", "pow3", "", "", <<"n", "n", "n">>, ""),
    CD("powasg_mem", "asg_mem", "**=", "t", <<"ro", "n">>, ""),
    CD("powasg_idx", "asg_idx", "**=", "", <<"ro", "k", "n">>, ""),
    CD("powasg_var", "asg_var", "**=", "", <<"n">>, "var"),
    CD("powasg_priv", "asg_priv", "**=", "", <<"n">>, "priv"),
    CD("powasg_pacc", "asg_pacc", "**=", "", <<"n">>, "priv"),
    CD("spread1", "spread1", "", "", <<"g">>, ""),
    CD("spread2", "spread2", "", "", <<"v", "g", "v">>, ""),
    CD("spread3", "spread3", "", "", <<"g", "g">>, ""),
    CD("tag_mem", "tag_mem", "", "", <<"ro", "v">>, ""),
    CD("tag_fn", "tag_fn", "", "", <<"f", "v">>, ""),
    CD("priv_get", "priv_get", "", "", <<"i">>, "priv"),
    CD("priv_getthis", "priv_getthis", "", "", <<>>, "priv"),
    CD("priv_optget", "priv_optget", "", "", <<"r">>, "priv"),
    CD("priv_in", "priv_in", "", "", <<"i">>, "priv"),
    CD("priv_inthis", "priv_inthis", "", "", <<>>, "priv"),
    CD("priv_call", "priv_call", "", "", <<"v">>, "priv"),
    CD("priv_acc", "priv_acc", "", "", <<>>, "priv"),
    CD("priv_set", "asg_priv", "=", "", <<"v">>, "priv"),
    CD("priv_accset", "asg_pacc", "=", "", <<"v">>, "priv"),
    CD("priv_inc", "priv_inc", "", "", <<>>, "priv"),
    CD("priv_destr", "priv_destr", "", "", <<"v">>, "priv")>>
  \o [i \in 1..3 |-> CD("la_" \o OpTag(LogOps[i]) \o "_mem_u", "asg_mem", LogOps[i], "u", <<"ro", "v">>, "")]
  \o [i \in 1..3 |-> CD("la_" \o OpTag(LogOps[i]) \o "_mem_t", "asg_mem", LogOps[i], "t", <<"ro", "v">>, "")]
  \o [i \in 1..3 |-> CD("la_" \o OpTag(LogOps[i]) \o "_mem_z", "asg_mem", LogOps[i], "z", <<"ro", "v">>, "")]
  \o [i \in 1..3 |-> CD("la_" \o OpTag(LogOps[i]) \o "_idx", "asg_idx", LogOps[i], "", <<"ro", "k", "v">>, "")]
  \o [i \in 1..3 |-> CD("la_" \o OpTag(LogOps[i]) \o "_deep", "asg_deep", LogOps[i], "n", <<"ro", "v">>, "")]
  \o [i \in 1..3 |-> CD("la_" \o OpTag(LogOps[i]) \o "_var", "asg_var", LogOps[i], "", <<"v">>, "var")]
  \o [i \in 1..3 |-> CD("la_" \o OpTag(LogOps[i]) \o "_priv", "asg_priv", LogOps[i], "", <<"v">>, "priv")]
  \o [i \in 1..3 |-> CD("la_" \o OpTag(LogOps[i]) \o "_pacc", "asg_pacc", LogOps[i], "", <<"v">>, "priv")]

ClassShapes ==   \* element kind sequences (heritage flag, kinds)
  LET kinds == <<"c_field", "c_cfield", "c_sfield", "c_csfield", "c_sblock", "c_pfield", "c_spfield", "c_cmeth", "c_csmeth", "c_cacc">> IN
  [i \in 1..10 |-> [h |-> FALSE, ks |-> <<kinds[i]>>]]
  \o <<[h |-> TRUE,  ks |-> <<"c_csfield", "c_cfield", "c_sblock", "c_pfield", "c_spfield", "c_cmeth", "c_csmeth">>],
       [h |-> FALSE, ks |-> <<"c_sblock", "c_csfield", "c_sblock", "c_sfield">>],
       [h |-> TRUE,  ks |-> <<"c_field", "c_pfield", "c_cfield">>],
       [h |-> FALSE, ks |-> <<"c_cacc", "c_csmeth", "c_cfield", "c_sfield">>],
       [h |-> TRUE,  ks |-> <<"c_spfield", "c_sblock", "c_field">>]>>
PairShapes ==
  LET kinds == <<"c_field", "c_cfield", "c_sfield", "c_csfield", "c_sblock", "c_pfield", "c_spfield", "c_cmeth">> IN
  {[h |-> hh, ks |-> <<kinds[i], kinds[j]>>] : i \in 1..8, j \in 1..8, hh \in BOOLEAN}
ShapeName(sh) == "class_" \o (IF sh.h THEN "h_" ELSE "") \o JoinStr([i \in DOMAIN sh.ks |-> sh.ks[i]], "_")
\* slots of a class shape: heritage (if any), then per element its key and/or init operand
ElemSlotRoles(kind) ==
  CASE kind \in {"c_cfield", "c_csfield"} -> <<"kc", "c">>
    [] kind \in {"c_cmeth", "c_csmeth", "c_cacc"} -> <<"kc">>
    [] OTHER -> <<"c">>
RECURSIVE FlatRoles(_)
FlatRoles(ks) == IF ks = <<>> THEN <<>> ELSE ElemSlotRoles(Head(ks)) \o FlatRoles(Tail(ks))
ClassCD(sh) == [name |-> ShapeName(sh), fam |-> "class", op |-> "", key |-> "", roles |-> (IF sh.h THEN <<"c">> ELSE <<>>) \o FlatRoles(sh.ks),
                req |-> "", shape |-> sh]

StmtConstructs ==
  <<CD("r_param", "rest", "r_param", "", <<"gs">>, ""),
    CD("r_decl", "rest", "r_decl", "", <<"gs", "v">>, ""),
    CD("r_asg", "rest", "r_asg", "", <<"gt", "ro">>, ""),
    CD("r_catch", "rest", "r_catch", "", <<"gs">>, ""),
    CD("r_forof", "rest", "r_forof", "", <<"gs">>, ""),
    CD("r_key", "rest", "r_key", "", <<"gs", "ka">>, ""),
    CD("r_nested", "rest", "r_nested", "", <<"gs">>, ""),
    CD("r_arr", "rest", "r_arr", "", <<"gs">>, ""),
    CD("u_block", "using", "u_block", "", <<"d", "d", "v">>, ""),
    CD("u_fn", "using", "u_fn", "", <<"d", "v">>, ""),
    CD("u_forof", "using", "u_forof", "", <<"d", "d">>, ""),
    CD("u_nested", "using", "u_nested", "", <<"d", "d", "v">>, ""),
    CD("u_await", "using", "u_await", "", <<"da", "da", "v">>, ""),
    CD("u_mixed", "using", "u_mixed", "", <<"d", "da", "v">>, ""),
    CD("a_order", "async", "a_order", "", <<"v", "v">>, ""),
    CD("a_forawait_ai", "async", "a_forawait_ai", "", <<"b">>, ""),
    CD("a_forawait_si", "async", "a_forawait_si", "", <<"b">>, ""),
    CD("a_gen", "async", "a_gen", "", <<"v", "v">>, ""),
    CD("a_genreturn", "async", "a_genreturn", "", <<"v">>, ""),
    CD("a_yieldstar", "async", "a_yieldstar", "", <<"v">>, ""),
    CD("a_genpromise", "async", "a_genpromise", "", <<"v">>, "")>>

\* the object-model families: definitions over base classes, copies, error timing (every cause x
\* every form of async function), thenables
TimCauses == <<"tdz_let", "tdz_const", "tdz_class", "tdzargs", "dflt", "args", "destr", "ddflt", "body">>
TimRoles(cause) == CASE cause \in TimTdz -> <<"b">> [] cause = "destr" -> <<"ds">> [] cause = "ddflt" -> <<"ds", "v">> [] OTHER -> <<"v">>
FormIdx(f) == CHOOSE i \in DOMAIN TimForms : TimForms[i] = f
ObjConstructs ==
  <<CD("d_field", "dfn", "d_field", "", <<"bs", "vd">>, ""),
    CD("d_sfield", "dfn", "d_sfield", "", <<"bs", "vd">>, ""),
    CD("d_numfield", "dfn", "d_numfield", "", <<"bs", "vd">>, ""),
    CD("d_protofield", "dfn", "d_protofield", "", <<"bs", "vd">>, ""),
    CD("d_sprotofield", "dfn", "d_sprotofield", "", <<"bs", "vd">>, ""),
    CD("d_cfield", "dfn", "d_cfield", "", <<"bs", "vd", "kd">>, ""),
    CD("d_csfield", "dfn", "d_csfield", "", <<"bs", "vd", "kd">>, ""),
    CD("d_ctorset", "dfn", "d_ctorset", "", <<"bs", "vd">>, ""),
    CD("d_sblockset", "dfn", "d_sblockset", "", <<"bs", "vd">>, ""),
    CD("d_superget", "dfn", "d_superget", "", <<"bs">>, ""),
    CD("d_superset", "dfn", "d_superset", "", <<"bs", "vd">>, ""),
    CD("s_spread", "cpy", "s_spread", "", <<"sg">>, ""),
    CD("s_spread_proto", "cpy", "s_spread_proto", "", <<"tp", "sg">>, ""),
    CD("s_rest", "cpy", "s_rest", "", <<"sr">>, ""),
    CD("s_rest_asg", "cpy", "s_rest_asg", "", <<"sr">>, ""),
    CD("a_then", "thn", "a_then", "", <<"th">>, ""),
    CD("a_retthen", "thn", "a_retthen", "", <<"th">>, ""),
    CD("a_forawait_then", "thn", "a_forawait_then", "", <<"th", "th">>, "")>>
  \o [n \in 1..(Len(TimCauses) * Len(TimForms)) |->
       LET ci == ((n - 1) % Len(TimCauses)) + 1 fi == ((n - 1) \div Len(TimCauses)) + 1 IN
       CD("t_" \o TimCauses[ci] \o "_" \o TimForms[fi], "tim", TimCauses[ci], TimForms[fi], TimRoles(TimCauses[ci]), "")]

\* an operand that is an optional chain is parenthesised where extending the chain would be a
\* syntax error (assignment target, tagged template)
ParIfChain(e) == IF e.k \in ChainKinds THEN Par(e) ELSE e
RECURSIVE BuildElems(_, _, _)
BuildElems(ks, s, i) ==   \* consumes slots of s from index i
  IF ks = <<>> THEN <<>> ELSE
  LET kind == Head(ks) n == Len(ElemSlotRoles(kind)) IN
  <<N(kind, "", 0, SubSeq(s, i, i + n - 1))>> \o BuildElems(Tail(ks), s, i + n)
Build(cd, s) ==
  CASE cd.fam = "oc_mem"       -> OMem(s[1], "t")
    [] cd.fam = "oc_deep"      -> Mem(OMem(s[1], "o"), "t")
    [] cd.fam = "oc_call"      -> Call(Mem(OMem(s[1], "o"), "f"), <<s[2]>>)
    [] cd.fam = "oc_callhead"  -> Call(OMem(s[1], "f"), <<s[2]>>)
    [] cd.fam = "oc_ocall"     -> OCall(Mem(s[1], cd.key), <<s[2]>>)
    [] cd.fam = "oc_idx"       -> OIdx(s[1], s[2])
    [] cd.fam = "oc_idxdeep"   -> Mem(Idx(OMem(s[1], "o"), s[2]), "t")
    [] cd.fam = "oc_paren"     -> Mem(Par(OMem(s[1], "o")), "t")
    [] cd.fam = "oc_parencall" -> Call(Par(OMem(s[1], "f")), <<s[2]>>)
    [] cd.fam = "oc_delete"    -> Del(Mem(OMem(s[1], "o"), "t"))
    [] cd.fam = "oc_deleteidx" -> Del(OIdx(s[1], s[2]))
    [] cd.fam = "oc_two"       -> OMem(Call(Mem(OMem(s[1], "o"), "g"), <<s[2]>>), "t")
    [] cd.fam = "oc_undef"     -> OMem(OMem(OMem(s[1], "o"), "u"), "t")
    [] cd.fam = "oc_this"      -> Call(Mem(OMem(This, "o"), "f"), <<s[1]>>)
    [] cd.fam = "oc_arg"       -> Call(OMem(Arg0, "f"), <<s[1]>>)
    [] cd.fam = "nul"          -> Nul(s[1], s[2])
    [] cd.fam = "nul3"         -> Nul(Nul(s[1], s[2]), s[3])
    [] cd.fam = "pow"          -> Pow(s[1], s[2])
    [] cd.fam = "pow3"         -> Pow(s[1], Pow(s[2], s[3]))
    [] cd.fam = "asg_mem"      -> Asg(cd.op, Mem(ParIfChain(s[1]), cd.key), s[2])
    [] cd.fam = "asg_deep"     -> Asg(cd.op, Mem(Mem(ParIfChain(s[1]), "o"), cd.key), s[2])
    [] cd.fam = "asg_idx"      -> Asg(cd.op, Idx(ParIfChain(s[1]), s[2]), s[3])
    [] cd.fam = "asg_var"      -> Asg(cd.op, Var("v"), s[1])
    [] cd.fam = "asg_priv"     -> Asg(cd.op, PMem(This), s[1])
    [] cd.fam = "asg_pacc"     -> Asg(cd.op, PAcc(This), s[1])
    [] cd.fam = "spread1"      -> ObjL(<<Spread(s[1])>>)
    [] cd.fam = "spread2"      -> ObjL(<<KV("x", s[1]), Spread(s[2]), KV("a", s[3])>>)
    [] cd.fam = "spread3"      -> ObjL(<<Spread(s[1]), Spread(s[2])>>)
    [] cd.fam = "tag_mem"      -> Tag(Mem(ParIfChain(s[1]), "f"), <<s[2]>>)
    [] cd.fam = "tag_fn"       -> Tag(ParIfChain(s[1]), <<s[2]>>)
    [] cd.fam = "priv_get"     -> PMem(s[1])
    [] cd.fam = "priv_getthis" -> PMem(This)
    [] cd.fam = "priv_optget"  -> N("opmem", "", 0, <<s[1]>>)
    [] cd.fam = "priv_in"      -> PIn(s[1])
    [] cd.fam = "priv_inthis"  -> PIn(This)
    [] cd.fam = "priv_call"    -> PCall(This, <<s[1]>>)
    [] cd.fam = "priv_acc"     -> PAcc(This)
    [] cd.fam = "priv_inc"     -> N("pinc", "", 0, <<This>>)
    [] cd.fam = "priv_destr"   -> N("pdestr", "", 0, <<This, s[1]>>)
    [] cd.fam \in {"dfn", "cpy", "thn"} -> N(cd.fam, cd.op, 0, s)
    [] cd.fam = "tim"          -> N("tim", cd.op, FormIdx(cd.key), s)
    [] cd.fam = "rest"         -> N("rest", cd.op, 0, [j \in DOMAIN s |-> IF j = 2 /\ cd.op = "r_asg" THEN ParIfChain(s[j]) ELSE s[j]])
    [] cd.fam = "using"        -> N("using", cd.op, 0, s)
    [] cd.fam = "async"        -> N("async", cd.op, 0, s)
    [] cd.fam = "class"        -> IF cd.shape.h THEN N("class", "h", 0, <<s[1]>> \o BuildElems(cd.shape.ks, s, 2))
                                  ELSE N("class", "", 0, BuildElems(cd.shape.ks, s, 1))

DefaultSlots(cd, off) == [j \in DOMAIN cd.roles |-> P(off + j, cd.roles[j])]

\* ---- positions.  Probes 21 and 22 belong to the position.
ExprPositions == <<"ret", "arrow", "aarrow", "afn", "gen", "agen", "meth", "field", "sfield", "sblock", "ckey", "clskey",
                   "clsskey", "dflt", "ddflt", "heritage", "forinit", "forof", "while", "catch", "objval",
                   "recv", "callee", "arg", "asgval", "asgtgt", "taghole", "nulrhs", "nullhs">>
PrivPositions == <<"privU", "privT", "sprivT", "privT_arrow", "privT_aarrow", "privT_field">>
VarPositions  == <<"varU", "varT", "varZ", "varT_arrow", "varU_aarrow">>
Wrap(pos, e) ==
  CASE pos = "ret"     -> e
    [] pos = "recv"    -> Mem(e, "t")
    [] pos = "callee"  -> Call(e, <<P(21, "v")>>)
    [] pos = "arg"     -> Call(Mem(P(22, "ro"), "f"), <<e>>)
    [] pos = "asgval"  -> Asg("=", Mem(P(22, "ro"), "x"), e)
    [] pos = "asgtgt"  -> Asg("=", Mem(Par(e), "x"), P(21, "v"))
    [] pos = "taghole" -> Tag(Mem(P(22, "ro"), "f"), <<e>>)
    [] pos = "nulrhs"  -> Nul(P(21, "v"), e)
    [] pos = "nullhs"  -> Nul(e, P(21, "v"))
    [] pos = "privT_arrow"  -> Ctx("privT", Ctx("arrow", e))
    [] pos = "privT_aarrow" -> Ctx("aprivT", Ctx("aarrow", e))
    [] pos = "privT_field"  -> Ctx("fprivT", e)
    [] pos = "varT_arrow"   -> Ctx("varT", Ctx("arrow", e))
    [] pos = "varU_aarrow"  -> Ctx("avarU", Ctx("aarrow", e))
    [] OTHER -> Ctx(pos, e)

RECURSIVE HasKind(_, _), HasCtx(_, _), ProbesOf(_)
HasKind(x, ks) == x.k \in ks \/ \E i \in DOMAIN x.a : HasKind(x.a[i], ks)
HasCtx(x, names) == (x.k = "ctx" /\ x.s \in names) \/ \E i \in DOMAIN x.a : HasCtx(x.a[i], names)
RECURSIVE HasUsingAwait(_)
HasUsingAwait(x) == (x.k = "using" /\ x.s \in {"u_await", "u_mixed"}) \/ \E i \in DOMAIN x.a : HasUsingAwait(x.a[i])
RECURSIVE HasAwaitDfn(_)
HasAwaitDfn(x) == (x.k = "dfn" /\ x.s \in {"d_superget", "d_superset"}) \/ \E i \in DOMAIN x.a : HasAwaitDfn(x.a[i])
NeedsAsync(x) == HasCtx(x, AsyncCtx) \/ HasKind(x, {"async", "tim", "thn"}) \/ HasUsingAwait(x) \/ HasAwaitDfn(x)
ProbesOf(x) == (IF x.k = "p" THEN {<<x.n, x.s>>} ELSE {}) \cup UNION {ProbesOf(x.a[i]) : i \in DOMAIN x.a}

\* positions in which an expression containing await cannot stand (a non-async function or a
\* class field initialiser lies in between)
NoAwaitPos == {"arrow", "gen", "meth", "field", "sfield", "sblock", "dflt", "ddflt", "forinit", "forof", "while", "catch",
               "privU", "privT", "sprivT", "privT_arrow", "privT_field", "varU", "varT", "varZ", "varT_arrow"}
NoArgPos == {"field", "sfield", "sblock", "meth", "privU", "privT", "sprivT", "privT_arrow", "privT_aarrow", "privT_field"}
ObjFams == {"dfn", "cpy", "tim", "thn"}
ObjFamPositions == {"ret", "arrow", "aarrow", "afn", "agen", "gen", "meth", "field", "sfield", "sblock", "dflt", "objval", "arg", "catch", "forof"}
PosOK(cd, e, pos) ==
  /\ (cd.req = "priv") <=> (pos \in SeqSet(PrivPositions))
  /\ (cd.req = "var") <=> (pos \in SeqSet(VarPositions))
  /\ (cd.req = "arg") => pos \notin NoArgPos
  /\ NeedsAsync(e) => pos \notin NoAwaitPos
  \* an assignment target / callee / receiver position only makes sense for expression constructs
  /\ cd.fam \in {"rest", "using", "async", "class"} => pos \notin {"asgtgt", "callee", "recv", "taghole"}
  \* the object-model families are self-contained statements: a covering set of positions
  /\ cd.fam \in ObjFams => pos \in ObjFamPositions

Prog(name, x) == [name |-> name, x |-> x]
AllPositions == ExprPositions \o PrivPositions \o VarPositions
\* (idx: the indices of cds this TLC run is responsible for)
SingleProgs(cds, idx) ==
  {Prog(pos \o "/" \o cds[i].name, Wrap(pos, Build(cds[i], DefaultSlots(cds[i], 0)))) :
     <<i, pos>> \in {<<j, q>> \in idx \X SeqSet(AllPositions) : PosOK(cds[j], Build(cds[j], DefaultSlots(cds[j], 0)), q)}}

\* label-first covering sample of the single programs: every construct keeps every stride-th
\* position (rotated by the construct index and the offset), so that every construct label and
\* every position label stays in the sample; stride 1 = everything
SingleProgsS(cds, idx, stride, offset) ==
  UNION {LET e  == Build(cds[j], DefaultSlots(cds[j], 0))
             ok == SelectSeq(AllPositions, LAMBDA q : PosOK(cds[j], e, q))
         IN {Prog(ok[m] \o "/" \o cds[j].name, Wrap(ok[m], e)) : m \in {m2 \in DOMAIN ok : (m2 + j + offset) % stride = 0}} : j \in idx}

\* pairs: one operand slot of the outer construct holds the inner construct (probes 11..)
Nestable(cd) == cd.req = "" /\ cd.fam \notin {"class"}
PairExpr(c1, j, c2) == Build(c1, [DefaultSlots(c1, 0) EXCEPT ![j] = Build(c2, DefaultSlots(c2, 10))])
\* slots whose value is consumed in a way the rules cover for any operand
NestSlots(cd) == {j \in DOMAIN cd.roles : cd.roles[j] \in {"r", "ro", "v", "n", "c", "g", "gs", "i", "b"}}
PairPositions == <<"ret", "arrow", "aarrow", "gen", "field", "sfield", "sblock", "clskey", "dflt", "heritage", "arg">>
\* (idx: this run's share of the outer constructs; only every stride-th combination, seeded by
\* offset, is built)
PairProgs(outer, inner, idx, stride, offset) ==
  LET pp == PairPositions IN
  {Prog(pp[q] \o "/" \o outer[i].name \o "/" \o ToString(j) \o "/" \o inner[m].name, Wrap(pp[q], PairExpr(outer[i], j, inner[m]))) :
     <<i, j, m, q>> \in {<<i2, j2, m2, q2>> \in idx \X (1..3) \X (DOMAIN inner) \X (DOMAIN pp) :
         /\ (i2 * 7 + j2 * 3 + m2 * 5 + q2 + offset) % stride = 0
         /\ j2 \in NestSlots(outer[i2]) /\ Nestable(inner[m2])
         /\ outer[i2].req = "" /\ outer[i2].fam \notin ObjFams
         \* an operand that awaits cannot stand inside the synchronous function / class body of a template
         /\ NeedsAsync(Build(inner[m2], DefaultSlots(inner[m2], 10))) =>
              \* (nor inside an async template: its rules take the operand as one synchronous step)
              (outer[i2].fam \notin {"class", "rest", "async"} /\ (outer[i2].fam = "using" => outer[i2].op \in {"u_await", "u_mixed"}))
         /\ PosOK(outer[i2], PairExpr(outer[i2], j2, inner[m2]), pp[q2])}}
\* the inner constructs of the nestings: one or two of every family
InnerNames == {"oc_call", "oc_ocall", "oc_idx", "oc_paren", "oc_delete", "nul", "la_nn_mem_u", "la_or_idx", "pow", "powasg_mem",
               "spread2", "tag_mem", "r_decl", "u_block", "a_order", "a_gen"}

\* ---- environments of a program
\* nestings: two classes per operand (the product over up to six operands stays small)
RoleSetSmall(role) ==
  CASE role = "r"  -> {"U", "O"} [] role = "v"  -> {"U", "T"} [] role = "n"  -> {"T", "W"} [] role = "k"  -> {"S"}
    [] role = "ka" -> {"Sa"} [] role = "g"  -> {"G", "U"} [] role = "gs" -> {"G", "T"} [] role = "gt" -> {"G"}
    [] role = "f"  -> {"F"} [] role = "i"  -> {"O", "U"} [] role = "d"  -> {"D", "DX"} [] role = "da" -> {"AD", "D"}
    [] role = "bs" -> {"B0", "BA"} [] role = "vd" -> {"T"} [] role = "kd" -> {"Sx"} [] role = "sg" -> {"G", "OP"}
    [] role = "sr" -> {"G", "OP"} [] role = "ds" -> {"N", "G"} [] role = "th" -> {"TH", "T"}
    [] OTHER -> RoleSet(role)
RECURSIVE EnvsOver(_, _)
EnvsOver(ps, small) ==   \* ps: set of <<id, role>>
  IF ps = {} THEN {<<>>} ELSE
  LET q == CHOOSE q \in ps : TRUE IN
  {(q[1] :> cl) @@ e : cl \in (IF small THEN RoleSetSmall(q[2]) ELSE RoleSet(q[2])), e \in EnvsOver(ps \ {q}, small)}
ThrowEnvs(ps, base) ==   \* one probe throws; the others take their first class
  LET e0 == CHOOSE e \in base : TRUE IN {[e0 EXCEPT ![q[1]] = "X"] : q \in ps}
EnvsOf(x, withThrow, small) ==
  LET ps == ProbesOf(x) base == EnvsOver(ps, small) IN
  IF withThrow /\ ps # {} THEN base \cup ThrowEnvs(ps, base) ELSE base

\* ---- running a program
Ctx0(env) == [env |-> env, this |-> PObj("this"), arg |-> PObj("arg0"), strict |-> FALSE, st |-> [v |-> Undef, f |-> Undef]]
Run(x, env) ==
  LET r == Ev(x, Ctx0(env)) IN
  [t |-> r.t, c |-> IF r.ab = "" THEN "ret:" \o Fmt(r.v) ELSE IF r.ab = "UNPRED" THEN "UNPRED" ELSE "throw:" \o r.ab]
ProgSrc(x) == "__run(" \o (IF NeedsAsync(x) THEN "async " ELSE "") \o "function () { return " \o Src(x) \o "; });"

\* ---- what TLC checks on every program (state = one program)
HasLoop(x) == HasKind(x, {"async"})     \* the for-await shapes evaluate their operand once per iteration
ProbeEv(i) == "p" \o ToString(i)
Count(t, ev) == Cardinality({j \in DOMAIN t : t[j] = ev})
\* runs = [e \in envs |-> Run(x, e)]
OnceOnly(x, envs, runs) ==
  HasLoop(x) \/ \A e \in envs : \A q \in ProbesOf(x) : Count(runs[e].t, ProbeEv(q[1])) <= 1
\* locality: the observation depends only on the values of the operands that were evaluated.
\* Checked flip by flip (changing one operand that was not evaluated changes nothing), which
\* implies the statement for any two environments of the product by induction on the flips.
Local(x, envs, runs) ==
  LET ps == ProbesOf(x)
      evald(e) == {q \in ps : \E j \in DOMAIN runs[e].t : runs[e].t[j] = ProbeEv(q[1])} IN
  \A e \in envs : \A q \in ps \ evald(e) : \A cl \in RoleSet(q[2]) \cup {"X"} :   \* (a superset of the classes in use)
     LET e2 == [e EXCEPT ![q[1]] = cl] IN e2 \in envs => runs[e2] = runs[e]
=============================================================================
