------------------------------ MODULE TsRuntime ------------------------------
(***************************************************************************)
(* C06, part 2b: TypeScript-only runtime constructs other than enums.      *)
(* Three scenario families; for each the module defines, from the          *)
(* TypeScript language definition (handbook: Classes / parameter           *)
(* properties, "useDefineForClassFields", Decorators / "Decorator          *)
(* Evaluation" and "Decorator Composition", Namespaces / "Merging          *)
(* Namespaces", "import q = x.y.z" aliases), the observation a program of  *)
(* the family must produce:                                                *)
(*  cls   construction of `new C(10, 20)`: a small step machine (super     *)
(*        call, declaration of parameter-property fields, field            *)
(*        initialisers, parameter-property assignments, body) whose order  *)
(*        and [[Define]]-vs-[[Set]] semantics depend on                    *)
(*        useDefineForClassFields; observation = event log (initialiser    *)
(*        evaluations, inherited setter calls, body), own keys, values;    *)
(*  deco  experimental decorators: evaluation of the decorator factories   *)
(*        and application order over instance members, static members,     *)
(*        constructor parameters and the class;                            *)
(*  ns    namespaces: blocks (merged declarations, nested namespaces,      *)
(*        exported and local members, aliases `import a = N.b`) evaluated  *)
(*        in order; observation = the namespace object tree.               *)
(* One behaviour = one scenario: Init chooses it, the single step computes *)
(* and exports the expected observation; the invariants are checked on the *)
(* result.  Nothing here is transcribed from esbuild.                      *)
(***************************************************************************)
EXTENDS Integers, Sequences, FiniteSets, TLC, Json, SequencesExt

CONSTANTS Fam,      \* "cls" | "deco" | "ns"
          Size      \* family-specific bound

VARIABLES sc, obs, done
vars == <<sc, obs, done>>

(* ===================================================================== cls *)
Bases == {"none", "plain", "setter"}             \* "setter": the base class has get/set accessors for p and x that log
PPKinds == {"plain", "public", "readonly", "private"}  \* constructor parameters p, q: "plain" = ordinary parameter
FieldShapes == {<<>>, <<[name |-> "x", init |-> TRUE, static |-> FALSE]>>, <<[name |-> "x", init |-> FALSE, static |-> FALSE]>>,
                <<[name |-> "y", init |-> TRUE, static |-> FALSE], [name |-> "x", init |-> TRUE, static |-> FALSE]>>,
                <<[name |-> "x", init |-> FALSE, static |-> FALSE], [name |-> "s", init |-> TRUE, static |-> TRUE]>>,
                <<[name |-> "s", init |-> TRUE, static |-> TRUE], [name |-> "y", init |-> FALSE, static |-> FALSE], [name |-> "x", init |-> TRUE, static |-> FALSE]>>}
ClsScenarios == {[fam |-> "cls", base |-> b, pp |-> <<k1, k2>>, fields |-> f, define |-> d] :
                   b \in Bases, k1 \in PPKinds, k2 \in {"plain", "public"}, f \in FieldShapes, d \in BOOLEAN}

ParamNames == <<"p", "q">>
ArgOf(n) == IF n = "p" THEN "10" ELSE "20"
InitOf(n) == IF n = "x" THEN "1" ELSE IF n = "y" THEN "2" ELSE "3"
Accessors == {"p", "x"}                            \* names for which the "setter" base has accessors

(* the object under construction: own = sequence of own keys, val = function on own keys, log = events *)
Obj(own, val, log) == [own |-> own, val |-> val, log |-> log]
HasOwn(o, k) == \E i \in 1..Len(o.own) : o.own[i] = k
SetVal(o, k, v) == IF HasOwn(o, k) THEN Obj(o.own, [o.val EXCEPT ![k] = v], o.log)
                   ELSE Obj(Append(o.own, k), [x \in DOMAIN o.val \cup {k} |-> IF x = k THEN v ELSE o.val[x]], o.log)
Log(o, e) == Obj(o.own, o.val, Append(o.log, e))
(* [[DefineOwnProperty]]: never looks at the prototype chain *)
Define(o, k, v) == SetVal(o, k, v)
(* [[Set]]: an inherited setter is called instead of creating an own property (it stores into the own key _k) *)
Put(o, k, v, base) == IF ~HasOwn(o, k) /\ base = "setter" /\ k \in Accessors
                      THEN SetVal(Log(o, <<"set", k, v>>), "_" \o k, v)
                      ELSE SetVal(o, k, v)

IsPP(kind) == kind # "plain"
PPNames(c) == SelectSeq(ParamNames, LAMBDA n : IsPP(c.pp[IF n = "p" THEN 1 ELSE 2]))
InstFields(c) == SelectSeq(c.fields, LAMBDA f : ~f.static)
StatFields(c) == SelectSeq(c.fields, LAMBDA f : f.static)

FoldL(Op(_, _), acc, seq) == FoldLeft(Op, acc, seq)

(* class definition time: static fields with initialisers are evaluated once *)
ClassDefLog(c) == [i \in 1..Len(StatFields(c)) |-> <<"init", StatFields(c)[i].name>>]

Construct(c) ==
  LET o0 == Obj(<<>>, [x \in {} |-> ""], <<>>)
      o1 == IF c.base = "none" THEN o0 ELSE Log(o0, <<"B.ctor">>)
      DeclPP(o, n) == Define(o, n, "undefined")
      InitF(o, f) == IF f.init THEN (IF c.define THEN Define(Log(o, <<"init", f.name>>), f.name, InitOf(f.name))
                                               ELSE Put(Log(o, <<"init", f.name>>), f.name, InitOf(f.name), c.base))
                     ELSE (IF c.define THEN Define(o, f.name, "undefined") ELSE o)
      AssignPP(o, n) == Put(o, n, ArgOf(n), c.base)
      o5 == IF c.define
            THEN (* fields are part of the class: parameter-property declarations first, then the declared fields, all with
                    [[Define]] right after super() returns; the assignments this.p = p open the constructor body *)
                 FoldL(AssignPP, FoldL(InitF, FoldL(DeclPP, o1, PPNames(c)), InstFields(c)), PPNames(c))
            ELSE (* assignments in the constructor: parameter properties first, then field initialisers, all with [[Set]] *)
                 FoldL(InitF, FoldL(AssignPP, o1, PPNames(c)), InstFields(c))
  IN Log(o5, <<"body">>)

ReadBack(c, o, n) ==       \* what o.n evaluates to after construction
  IF HasOwn(o, n) THEN o.val[n]
  ELSE IF c.base = "setter" /\ n \in Accessors THEN (IF HasOwn(o, "_" \o n) THEN o.val["_" \o n] ELSE "undefined")
  ELSE "undefined"

ClsObs(c) == LET o == Construct(c) IN
  [log |-> ClassDefLog(c) \o <<<<"new">>>> \o o.log, own |-> o.own,
   vals |-> [n \in {"p", "q", "x", "y"} |-> ReadBack(c, o, n)]]

ClsOK(c, ob) ==
  (* define semantics never runs an inherited setter; a parameter property always reads back its argument;
     an ordinary parameter never becomes a property; a declared field without initialiser exists iff define semantics *)
  /\ c.define => \A i \in 1..Len(ob.log) : ob.log[i][1] # "set"
  /\ \A i \in 1..2 : IF IsPP(c.pp[i]) THEN ob.vals[ParamNames[i]] = ArgOf(ParamNames[i])
                     ELSE \A k \in 1..Len(ob.own) : ob.own[k] # ParamNames[i]
  /\ \A f \in 1..Len(c.fields) : LET fd == c.fields[f] IN
        (~fd.static /\ ~fd.init) => ((\E k \in 1..Len(ob.own) : ob.own[k] = fd.name) <=> c.define)
  /\ ob.log[Len(ob.log)] = <<"body">>

(* ==================================================================== deco *)
(* a member: static?, kind, number of decorators, number of decorated parameters (methods only) *)
Mem(st, k, nd, np) == [static |-> st, kind |-> k, nd |-> nd, np |-> np]
MemberShapes == {Mem(st, "method", nd, np) : st \in BOOLEAN, nd \in 0..2, np \in 0..1}
                \cup {Mem(st, "field", nd, 0) : st \in BOOLEAN, nd \in 1..2}
                \cup {Mem(FALSE, "accessor", 1, 0)}
DecoScenarios == {[fam |-> "deco", mems |-> <<a, b>>, cd |-> cd, cpd |-> cpd] :
                    a \in MemberShapes, b \in {m \in MemberShapes : m.nd + m.np > 0}, cd \in 0..2, cpd \in 0..1}
                 \cup {[fam |-> "deco", mems |-> <<a, b, c>>, cd |-> 1, cpd |-> 1] :
                    a \in {Mem(TRUE, "method", 1, 1)}, b \in {Mem(FALSE, "field", 2, 0), Mem(FALSE, "method", 1, 1)}, c \in {Mem(TRUE, "field", 1, 0), Mem(FALSE, "method", 2, 0)}}

Digit(i) == CASE i = 0 -> "0" [] i = 1 -> "1" [] i = 2 -> "2" [] i = 3 -> "3"
(* the decorator list of member i as TypeScript passes it to __decorate: member decorators in source order, then parameter decorators *)
MemberDecos(i, m) == [k \in 1..m.nd |-> "m" \o Digit(i) \o "d" \o Digit(k)] \o [k \in 1..m.np |-> "m" \o Digit(i) \o "p" \o Digit(k)]
ClassDecos(c) == [k \in 1..c.cd |-> "c" \o Digit(k)] \o [k \in 1..c.cpd |-> "cp" \o Digit(k)]
Rev(s) == [i \in 1..Len(s) |-> s[Len(s) + 1 - i]]
(* "Decorator Composition": the expressions are evaluated top to bottom, the results are called bottom to top *)
Apply(list) == [i \in 1..Len(list) |-> <<"eval", list[i]>>] \o [i \in 1..Len(list) |-> <<"apply", Rev(list)[i]>>]
RECURSIVE Concat(_)
Concat(ss) == IF ss = <<>> THEN <<>> ELSE Head(ss) \o Concat(Tail(ss))
(* "Decorator Evaluation": instance members, then static members, then constructor parameters and the class *)
DecoObs(c) ==
  LET idx(st) == SelectSeq([i \in 1..Len(c.mems) |-> i], LAMBDA i : c.mems[i].static = st)
      part(st) == Concat([k \in 1..Len(idx(st)) |-> Apply(MemberDecos(idx(st)[k], c.mems[idx(st)[k]]))])
  IN [log |-> part(FALSE) \o part(TRUE) \o Apply(ClassDecos(c))]

DecoOK(c, ob) ==
  LET evals == SelectSeq(ob.log, LAMBDA e : e[1] = "eval")  applies == SelectSeq(ob.log, LAMBDA e : e[1] = "apply") IN
  (* every decorator is evaluated once and applied once, evaluation before application *)
  /\ Len(evals) = Len(applies)
  /\ \A i \in 1..Len(evals) : \E j \in 1..Len(applies) : applies[j][2] = evals[i][2]
  /\ \A i, j \in 1..Len(ob.log) : (ob.log[i][2] = ob.log[j][2] /\ ob.log[i][1] = "eval" /\ ob.log[j][1] = "apply") => i < j
  (* class decorators come last *)
  /\ c.cd > 0 => ob.log[Len(ob.log)] = <<"apply", "c1">>

(* ====================================================================== ns *)
(* a block: path of the namespace, host (what the outer name is merged with), members.
   member: name, exported?, kind: "const" | "fn" | "alias", value: <<"lit", n>> | <<"ref", name>> | <<"qref", path>> | <<"sum", name, n>> *)
M(n, ex, k, v) == [name |-> n, exported |-> ex, kind |-> k, v |-> v]
B(path, ms) == [path |-> path, mem |-> ms]
NsPrograms == <<
  [host |-> "none", blocks |-> <<B(<<"N">>, <<M("a", TRUE, "const", <<"lit", 1>>), M("h", FALSE, "const", <<"lit", 2>>), M("b", TRUE, "const", <<"sum", "h", 5>>)>>)>>],
  [host |-> "none", blocks |-> <<B(<<"N">>, <<M("a", TRUE, "const", <<"lit", 1>>)>>), B(<<"N">>, <<M("b", TRUE, "const", <<"sum", "a", 10>>), M("a2", TRUE, "const", <<"qref", <<"N", "a">> >>)>>)>>],
  [host |-> "none", blocks |-> <<B(<<"N">>, <<M("a", TRUE, "const", <<"lit", 1>>)>>), B(<<"N", "M">>, <<M("b", TRUE, "const", <<"sum", "a", 1>>), M("c", FALSE, "const", <<"lit", 7>>)>>), B(<<"N">>, <<M("d", TRUE, "const", <<"qref", <<"N", "M", "b">> >>)>>)>>],
  [host |-> "function", blocks |-> <<B(<<"N">>, <<M("a", TRUE, "const", <<"lit", 1>>), M("f", TRUE, "fn", <<"sum", "a", 2>>)>>)>>],
  [host |-> "class", blocks |-> <<B(<<"N">>, <<M("a", TRUE, "const", <<"lit", 4>>)>>), B(<<"N">>, <<M("b", TRUE, "fn", <<"ref", "a">>)>>)>>],
  [host |-> "enum", blocks |-> <<B(<<"N">>, <<M("a", TRUE, "const", <<"lit", 4>>), M("z", TRUE, "alias", <<"qref", <<"N", "a">> >>)>>)>>],
  [host |-> "none", blocks |-> <<B(<<"N", "M">>, <<M("b", TRUE, "const", <<"lit", 3>>)>>), B(<<"N">>, <<M("al", TRUE, "alias", <<"qref", <<"N", "M", "b">> >>), M("g", TRUE, "fn", <<"sum", "al", 1>>)>>)>>],
  [host |-> "none", blocks |-> <<B(<<"N">>, <<M("a", FALSE, "const", <<"lit", 1>>), M("M", TRUE, "const", <<"lit", 9>>)>>), B(<<"N", "O">>, <<M("a", TRUE, "const", <<"lit", 5>>), M("b", TRUE, "const", <<"sum", "a", 1>>)>>)>>],
  [host |-> "none", blocks |-> <<B(<<"N", "M", "O">>, <<M("deep", TRUE, "const", <<"lit", 6>>)>>), B(<<"N", "M">>, <<M("up", TRUE, "const", <<"qref", <<"N", "M", "O", "deep">> >>)>>)>>] >>
NsScenarios == {[fam |-> "ns", ix |-> i, host |-> NsPrograms[i].host, blocks |-> NsPrograms[i].blocks] : i \in 1..Len(NsPrograms)}

(* the object tree: a set of <<path, value>> leaves; exported members only *)

Int2Str(n) == CASE n = 0 -> "0" [] n = 1 -> "1" [] n = 2 -> "2" [] n = 3 -> "3" [] n = 4 -> "4" [] n = 5 -> "5" [] n = 6 -> "6" [] n = 7 -> "7"
                [] n = 8 -> "8" [] n = 9 -> "9" [] n = 10 -> "10" [] n = 11 -> "11" [] n = 12 -> "12" [] OTHER -> "big"
(* scope lookup of a bare name inside a block at `path`: the block's own members so far (exported or not), then the
   exported members of the enclosing namespaces from the innermost outwards (all their blocks evaluated so far) *)
RECURSIVE LookupOuter(_, _, _)
LookupOuter(tree, path, name) ==
  IF path = <<>> THEN -1
  ELSE IF \E l \in tree : l[1] = path \o <<name>> THEN (CHOOSE l \in tree : l[1] = path \o <<name>>)[2]
  ELSE LookupOuter(tree, SubSeq(path, 1, Len(path) - 1), name)
Lookup(tree, locals, path, name) ==
  IF name \in DOMAIN locals THEN locals[name] ELSE LookupOuter(tree, path, name)
ValueOfM(tree, locals, path, v) ==
  CASE v[1] = "lit" -> v[2]
    [] v[1] = "ref" -> Lookup(tree, locals, path, v[2])
    [] v[1] = "sum" -> Lookup(tree, locals, path, v[2]) + v[3]
    [] v[1] = "qref" -> (CHOOSE l \in tree : l[1] = v[2])[2]
RECURSIVE EvalMembers(_, _, _, _)
EvalMembers(tree, locals, path, ms) ==
  IF ms = <<>> THEN tree
  ELSE LET m == Head(ms)
           val == ValueOfM(tree, locals, path, m.v)
           t2 == IF m.exported THEN {l \in tree : l[1] # path \o <<m.name>>} \cup {<<path \o <<m.name>>, val>>} ELSE tree
           (* an exported member is reached through the namespace object; a local one through the block scope *)
           l2 == IF m.exported THEN locals ELSE [x \in DOMAIN locals \cup {m.name} |-> IF x = m.name THEN val ELSE locals[x]]
       IN EvalMembers(t2, l2, path, Tail(ms))
RECURSIVE EvalBlocks(_, _)
EvalBlocks(tree, bs) == IF bs = <<>> THEN tree ELSE EvalBlocks(EvalMembers(tree, [x \in {} |-> 0], Head(bs).path, Head(bs).mem), Tail(bs))
NsObs(c) == LET tree == EvalBlocks({}, c.blocks) IN
  [leaves |-> {[path |-> l[1], val |-> Int2Str(l[2])] : l \in tree}]
NsOK(c, ob) ==
  (* every exported member is a leaf, no local member is, every value was resolved *)
  /\ \A i \in 1..Len(c.blocks) : \A k \in 1..Len(c.blocks[i].mem) :
        LET m == c.blocks[i].mem[k] p == c.blocks[i].path \o <<m.name>> IN
        m.exported => \E l \in ob.leaves : l.path = p
  /\ \A l \in ob.leaves : l.val # "big"
  /\ \A l \in ob.leaves : \E i \in 1..Len(c.blocks) : \E k \in 1..Len(c.blocks[i].mem) :
        c.blocks[i].mem[k].exported /\ c.blocks[i].path \o <<c.blocks[i].mem[k].name>> = l.path

(* ================================================================ machine *)
Scenarios == CASE Fam = "cls" -> ClsScenarios [] Fam = "deco" -> DecoScenarios [] Fam = "ns" -> NsScenarios
Observe(c) == CASE c.fam = "cls" -> ClsObs(c) [] c.fam = "deco" -> DecoObs(c) [] c.fam = "ns" -> NsObs(c)
NoObs == [none |-> TRUE]

Init == sc \in Scenarios /\ obs = NoObs /\ done = FALSE
Next == /\ ~done /\ done' = TRUE /\ sc' = sc
        /\ obs' = Observe(sc)
        /\ PrintT(<<"CASE", ToJson([spec |-> "TsRuntime", sc |-> sc, expect |-> obs'])>>)
Spec == Init /\ [][Next]_vars

ObsOK == done => CASE sc.fam = "cls" -> ClsOK(sc, obs) [] sc.fam = "deco" -> DecoOK(sc, obs) [] sc.fam = "ns" -> NsOK(sc, obs)
=============================================================================
