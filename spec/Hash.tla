------------------------------- MODULE Hash -------------------------------
(***************************************************************************)
(* How the names of emitted files depend on their content (C18).           *)
(*                                                                         *)
(* Transcribed from internal/linker/linker.go:                             *)
(*   generateIsolatedHash                    -> Iso                        *)
(*   appendIsolatedHashesForImportedChunks   -> Visit / Final              *)
(*   generateChunksInParallel (final paths,  -> CName, Files               *)
(*     companion files, link comments)                                      *)
(*   breakOutputIntoPieces/substituteFinalPaths -> Inter / Subst           *)
(* and from internal/bundler/bundler.go (asset names = hash of the bytes). *)
(*                                                                         *)
(* A world w is one build: a chunk graph (imports, static or dynamic, so   *)
(* cycles are allowed), asset references, options and a valuation of the   *)
(* determinant ATOMS.  Hash functions are idealised as injective: the hash *)
(* of some data IS that data (a tuple), so two hashes are equal iff what   *)
(* was mixed in is equal.  A second world differs by an edit (a set of     *)
(* atoms; the design configurations use single atoms).                     *)
(*                                                                         *)
(* Every ingredient of the two hashes is one ATOM (or one option) of the   *)
(* world, and w.drop names the ingredients a (mutated) implementation      *)
(* leaves out: the design is w.drop = {}; HashMC checks that every         *)
(* ingredient is necessary (dropping it falsifies a property for some      *)
(* world and single-atom edit), so an edit that changes ONLY that atom is  *)
(* what a replay needs in order to see such a defect.                      *)
(*                                                                         *)
(* w.lih: external legal comments are mixed into the isolated hash (TRUE   *)
(* since fix 917a158).  w.mih: the source map mode and the legal comment   *)
(* mode (which decide the link comments appended AFTER hashing) are mixed  *)
(* into the isolated hash; FALSE is the transcription of the code before   *)
(* the repair found by this check.                                         *)
(***************************************************************************)
EXTENDS Integers, Sequences, FiniteSets, TLC

None == -1
Templates == {"entry", "chunk", "asset"}

(***************************************************************************)
(* Worlds                                                                  *)
(*  chunks  : 1..n          assets : set of asset ids (strings)            *)
(*  imp     : [chunks -> SUBSET chunks]   cross-chunk imports              *)
(*  aref    : [chunks -> SUBSET assets]   file-loader / url() references   *)
(*  The three name templates "entry", "chunk", "asset":                    *)
(*  th      : [Templates -> BOOLEAN]      the template contains [hash]     *)
(*  tplC    : [chunks -> {"entry","chunk"}]  the template that names the   *)
(*            chunk (user entry points: entry; shared chunks and the entry *)
(*            chunks of dynamic imports: chunk)                            *)
(*  tplA    : [assets -> {"entry","asset"}]  file / copy-loader outputs    *)
(*            are named by the asset template, except a copied file that   *)
(*            is an entry point itself (entry template); such an asset is  *)
(*            emitted even if no chunk refers to it                        *)
(*  Every output is subject to the properties according to ITS OWN         *)
(*  template (HashedC / HashedA).                                          *)
(*  pp      : BOOLEAN                     a public path is configured      *)
(*  sm      : "none" | "linked" | "external" | "inline" | "both"           *)
(*  legal   : "none" | "inline" | "eof" | "linked" | "external"            *)
(*  lih,mih : BOOLEAN  (see above)     drop : set of ingredient names      *)
(*  css     : [chunks -> BOOLEAN]  a CSS chunk (its part ranges are not    *)
(*            hashed)                                                      *)
(*  fake    : [chunks -> BOOLEAN]  the input text contains a string of the *)
(*            placeholder shape (with a foreign prefix)                    *)
(* atoms: code, parts, tmpl, legalv : [chunks -> Nat], ppv : Nat,          *)
(*        smP, smM, smS : [chunks -> Nat]  the three source map pieces     *)
(*          (prefix = sources, sourceRoot, sourcesContent; mappings;       *)
(*          suffix = names), abytes : [assets -> Nat], atpl : Nat (the     *)
(*          name template of an asset, per asset) (legalv = 0: no legal    *)
(*          comment)                                                       *)
(***************************************************************************)

RECURSIVE SortedSeq(_)
SortedSeq(S) == IF S = {} THEN <<>>
                ELSE LET m == CHOOSE x \in S : \A y \in S : x <= y
                     IN <<m>> \o SortedSeq(S \ {m})

RECURSIVE SeqOfStrSet(_)
SeqOfStrSet(S) == IF S = {} THEN <<>>
                  ELSE LET m == CHOOSE x \in S : TRUE IN <<m>> \o SeqOfStrSet(S \ {m})

\* legal comment text that goes into the code pieces (inline / end of file)
InlineLegal(w, c) == IF w.legal \in {"inline", "eof"} /\ w.legalv[c] # 0 THEN <<w.legal, w.legalv[c]>> ELSE <<>>
\* chunk.externalLegalComments (linked / external), 0 = empty
ExtLegal(w, c) == IF w.legal \in {"linked", "external"} THEN w.legalv[c] ELSE 0
HasMap(w) == w.sm \in {"linked", "external", "both"}
InlineMap(w) == w.sm \in {"inline", "both"}

Ingredients == {"parts", "tmpl", "pp", "pieces", "legal", "smP", "smM", "smS", "modes", "imports", "assetpath", "owntpl"}
Kept(w, d) == d \notin w.drop

\* does the name of the output contain [hash]: decided by its own template
HashedC(w, c) == w.th[w.tplC[c]]
HashedA(w, a) == w.th[w.tplA[a]]
\* is the hash computed: the code asks the template of the output
\* (config.HasPlaceholder(template, HashPlaceholder) after the template was
\* chosen); the mutant "owntpl" asks the default template of the kind of
\* output instead (assets: asset template, chunks: chunk template), so that
\* the empty string is substituted for [hash] when the two disagree
ComputedC(w, c) == IF Kept(w, "owntpl") THEN HashedC(w, c) ELSE w.th["chunk"]
ComputedA(w, a) == IF Kept(w, "owntpl") THEN HashedA(w, a) ELSE w.th["asset"]
\* the hash part of a name: "none" (no [hash] in the template), "hash", or
\* "empty" ([hash] in the template but nothing was computed)
HPart(hashed, computed) == IF ~hashed THEN "none" ELSE IF computed THEN "hash" ELSE "empty"

\* the data between the placeholders: the printed code (with inline legal
\* comments); the number of pieces is the number of placeholders + 1
Pieces(w, c) == <<w.code[c], InlineLegal(w, c), Cardinality(w.imp[c]) + Cardinality(w.aref[c]), w.fake[c]>>

\* the link comments appended to the chunk after hashing: which ones there
\* are is decided by the source map mode and the legal comment mode
SmLinkKind(w) == CASE w.sm = "linked" -> "L" [] w.sm = "inline" -> "I" [] w.sm = "both" -> "B" [] OTHER -> "-"
LegalLinkKind(w, c) == IF w.legal = "linked" /\ ExtLegal(w, c) # 0 THEN "C" ELSE "-"

\* generateIsolatedHash: part ranges (JS chunks only), final template, public
\* path (if set), pieces, external legal comments, the three source map
\* pieces (empty without source maps)
Iso(w, c) ==
  [ parts  |-> IF Kept(w, "parts") /\ ~w.css[c] THEN w.parts[c] ELSE None,
    tmpl   |-> IF Kept(w, "tmpl") THEN <<c, w.tmpl[c]>> ELSE <<c, None>>,
    pp     |-> IF w.pp /\ Kept(w, "pp") THEN w.ppv ELSE None,
    pieces |-> IF Kept(w, "pieces") THEN Pieces(w, c) ELSE <<>>,
    smP    |-> IF w.sm # "none" /\ Kept(w, "smP") THEN w.smP[c] ELSE None,
    smM    |-> IF w.sm # "none" /\ Kept(w, "smM") THEN w.smM[c] ELSE None,
    smS    |-> IF w.sm # "none" /\ Kept(w, "smS") THEN w.smS[c] ELSE None,
    legal  |-> IF w.lih /\ Kept(w, "legal") /\ ExtLegal(w, c) # 0 THEN ExtLegal(w, c) ELSE None,
    modes  |-> IF w.mih /\ Kept(w, "modes") THEN <<SmLinkKind(w), LegalLinkKind(w, c)>> ELSE <<>> ]

\* A path is a record of one shape for all kinds of files, so that paths of
\* different kinds can be compared: kind, owner (chunk number or asset id as a
\* string), template atom, final hash (a sequence, <<>> without [hash]) and
\* asset hash.
\* (the field names are chosen so that the cheap, discriminating fields come
\* first in TLC's field order: comparisons settle before the nested hash)
Path(kind, owner, tmpl, final, ah, hp) == [a_kind |-> kind, b_owner |-> owner, c_tmpl |-> tmpl, d_ah |-> ah, d_hp |-> hp, e_final |-> final]

\* names of assets: the hash of the bytes only (bundler.go)
AName(w, a) == Path("asset", a, <<w.tplA[a], w.atpl[a]>>, <<>>, IF HashedA(w, a) /\ ComputedA(w, a) THEN w.abytes[a] ELSE None,
                    HPart(HashedA(w, a), ComputedA(w, a)))

\* one element of what is written into the final hash: a relative asset path or an isolated hash
HA(p) == [a |-> <<p>>, i |-> <<>>]
HI(x) == [a |-> <<>>, i |-> <<x>>]
RECURSIVE AssetPathSeq(_, _)
AssetPathSeq(w, as) == IF as = <<>> THEN <<>> ELSE <<HA(AName(w, Head(as)))>> \o AssetPathSeq(w, Tail(as))

\* appendIsolatedHashesForImportedChunks: depth-first, each chunk once
\* (cycle-safe), imported chunks first, then the relative paths of the
\* referenced assets, then the chunk's own isolated hash
RECURSIVE Visit(_, _, _), VisitAll(_, _, _)
Visit(w, c, acc) ==
  IF c \in acc.seen THEN acc
  ELSE LET a1 == VisitAll(w, IF Kept(w, "imports") THEN SortedSeq(w.imp[c]) ELSE <<>>, [seen |-> acc.seen \cup {c}, out |-> acc.out])
       IN [seen |-> a1.seen,
           out  |-> a1.out \o (IF Kept(w, "assetpath") THEN AssetPathSeq(w, SeqOfStrSet(w.aref[c])) ELSE <<>>) \o <<HI(Iso(w, c))>>]
VisitAll(w, cs, acc) == IF cs = <<>> THEN acc ELSE VisitAll(w, Tail(cs), Visit(w, Head(cs), acc))

Final(w, c) == Visit(w, c, [seen |-> {}, out |-> <<>>]).out

CName(w, c) == Path("chunk", ToString(c), <<w.tplC[c], w.tmpl[c]>>, IF HashedC(w, c) /\ ComputedC(w, c) THEN Final(w, c) ELSE <<>>, None,
                    HPart(HashedC(w, c), ComputedC(w, c)))
\* The names of all chunks are computed once per world and kept in the field
\* `names` (a sequence indexed by chunk number); the operators below take such
\* a "named" world v.
RECURSIVE NamesSeq(_, _)
NamesSeq(w, k) == IF k = 0 THEN <<>> ELSE Append(NamesSeq(w, k - 1), CName(w, k))
Named(w) == [w EXCEPT !.names = NamesSeq(w, Cardinality(w.chunks))]
NameOf(v, c) == v.names[c]
MapName(v, c) == [NameOf(v, c) EXCEPT !.a_kind = "map"]
LegalName(v, c) == [NameOf(v, c) EXCEPT !.a_kind = "legal"]

(***************************************************************************)
(* Two-phase generation: intermediate output with placeholders, then       *)
(* substitution of the final paths.  A token [t, v] is data, a key (own    *)
(* prefix), a fake key (foreign prefix, part of the user's text: stays     *)
(* data) or, after substitution, a reference.                              *)
(***************************************************************************)
RECURSIVE KeysC(_), KeysA(_)
KeysC(cs) == IF cs = <<>> THEN <<>> ELSE <<[t |-> "key", v |-> <<"C", ToString(Head(cs))>>]>> \o KeysC(Tail(cs))
KeysA(as) == IF as = <<>> THEN <<>> ELSE <<[t |-> "key", v |-> <<"A", Head(as)>>]>> \o KeysA(Tail(as))
Inter(w, c) ==
  <<[t |-> "data", v |-> <<w.code[c], InlineLegal(w, c)>>]>>
  \o KeysC(SortedSeq(w.imp[c])) \o KeysA(SeqOfStrSet(w.aref[c]))
  \o (IF w.fake[c] THEN <<[t |-> "fake", v |-> <<>>]>> ELSE <<>>)

\* pathBetweenChunks: the public path (if any) joined with the final path
Ref(w, name) == [pp |-> IF w.pp THEN w.ppv ELSE None, to |-> name]

ChunkByStr(w, str) == CHOOSE c \in w.chunks : ToString(c) = str
SubstTok(w, tok) ==
  IF tok.t # "key" THEN tok
  ELSE IF tok.v[1] = "C" THEN [t |-> "ref", v |-> <<Ref(w, NameOf(w, ChunkByStr(w, tok.v[2])))>>]
  ELSE [t |-> "ref", v |-> <<Ref(w, AName(w, tok.v[2]))>>]
RECURSIVE Subst(_, _)
Subst(w, toks) == IF toks = <<>> THEN <<>> ELSE <<SubstTok(w, Head(toks))>> \o Subst(w, Tail(toks))

\* the finalised source map: the mappings shifted by the substituted paths
FinalMap(w, c) == [smap |-> <<w.smP[c], w.smM[c], w.smS[c]>>, shifts |-> {Ref(w, NameOf(w, d)) : d \in w.imp[c]} \cup {Ref(w, AName(w, a)) : a \in w.aref[c]}]

\* Bytes have one shape for all kinds of files as well
Bytes(body, legal, smlink, sminl, raw) == [body |-> body, legal |-> legal, smlink |-> smlink, sminl |-> sminl, raw |-> raw]
ChunkBytes(w, c) ==
  Bytes(Subst(w, Inter(w, c)),
        IF w.legal = "linked" /\ ExtLegal(w, c) # 0 THEN <<Ref(w, LegalName(w, c))>> ELSE <<>>,
        IF w.sm = "linked" THEN <<Ref(w, MapName(w, c))>> ELSE <<>>,
        IF InlineMap(w) THEN <<FinalMap(w, c)>> ELSE <<>>,
        None)

UsedAssets(w) == UNION {w.aref[c] : c \in w.chunks}
\* a copied entry point is emitted whether or not a chunk refers to it
EmittedAssets(w) == UsedAssets(w) \cup {a \in w.assets : w.tplA[a] = "entry"}

\* references written into a chunk (as paths)
RECURSIVE RefsOfBody(_)
RefsOfBody(toks) == IF toks = <<>> THEN {} ELSE (IF Head(toks).t = "ref" THEN {Head(toks).v[1].to} ELSE {}) \cup RefsOfBody(Tail(toks))
RefsOfBytes(b) ==
  RefsOfBody(b.body) \cup {b.legal[k].to : k \in 1..Len(b.legal)} \cup {b.smlink[k].to : k \in 1..Len(b.smlink)}

\* the emitted files: [path, bytes, hashed, kind, owner, refs]
File(path, bytes, hashed, kind, owner) == [a_kind |-> kind, b_owner |-> owner, c_hashed |-> hashed, path |-> path, q_bytes |-> bytes, refs |-> RefsOfBytes(bytes)]
FilesN(v) ==
  {File(NameOf(v, c), ChunkBytes(v, c), HashedC(v, c), "chunk", ToString(c)) : c \in v.chunks}
  \cup {File(MapName(v, c), Bytes(<<>>, <<>>, <<>>, <<FinalMap(v, c)>>, None), HashedC(v, c), "map", ToString(c)) : c \in {d \in v.chunks : HasMap(v)}}
  \cup {File(LegalName(v, c), Bytes(<<>>, <<>>, <<>>, <<>>, ExtLegal(v, c)), HashedC(v, c), "legal", ToString(c)) : c \in {d \in v.chunks : ExtLegal(v, d) # 0}}
  \cup {File(AName(v, a), Bytes(<<>>, <<>>, <<>>, <<>>, v.abytes[a]), HashedA(v, a), "asset", a) : a \in EmittedAssets(v)}
Files(w) == FilesN(Named(w))

Paths(w) == {f.path : f \in Files(w)}
RefsOf(f) == f.refs

\* chunks reachable from c through imports (reflexive)
RECURSIVE ReachFrom(_, _, _)
ReachFrom(w, todo, seen) ==
  IF todo = {} THEN seen
  ELSE LET c == CHOOSE x \in todo : TRUE
       IN ReachFrom(w, (todo \cup w.imp[c]) \ (seen \cup {c}), seen \cup {c})
Reach(w, c) == ReachFrom(w, {c}, {})

(***************************************************************************)
(* Edits                                                                   *)
(***************************************************************************)
Bump(f, x) == [f EXCEPT ![x] = @ + 1]
Apply1(w, e) ==
  CASE e.k = "code"   -> [w EXCEPT !.code = Bump(@, e.c)]
    [] e.k = "parts"  -> [w EXCEPT !.parts = Bump(@, e.c)]
    [] e.k = "tmpl"   -> [w EXCEPT !.tmpl = Bump(@, e.c)]
    [] e.k = "smP"    -> [w EXCEPT !.smP = Bump(@, e.c)]
    [] e.k = "smM"    -> [w EXCEPT !.smM = Bump(@, e.c)]
    [] e.k = "smS"    -> [w EXCEPT !.smS = Bump(@, e.c)]
    [] e.k = "legal"  -> [w EXCEPT !.legalv = Bump(@, e.c)]
    [] e.k = "pp"     -> [w EXCEPT !.ppv = @ + 1]
    [] e.k = "ppon"   -> [w EXCEPT !.pp = TRUE]
    [] e.k = "asset"  -> [w EXCEPT !.abytes = Bump(@, e.a)]
    [] e.k = "atpl"   -> [w EXCEPT !.atpl = Bump(@, e.a)]
    [] e.k = "smmode" -> [w EXCEPT !.sm = e.to]
    [] e.k = "legalmode" -> [w EXCEPT !.legal = e.to]
    [] e.k = "import" -> [w EXCEPT !.imp = [@ EXCEPT ![e.c] = @ \cup {e.d}], !.code = Bump(@, e.c)]
RECURSIVE ApplySeq(_, _)
ApplySeq(w, es) == IF es = <<>> THEN w ELSE ApplySeq(Apply1(w, Head(es)), Tail(es))

(***************************************************************************)
(* The properties, over a pair of worlds                                   *)
(***************************************************************************)
SamePathSameBytesF(F1, F2) ==
  \A f1 \in F1, f2 \in F2 : (f1.path = f2.path /\ f1.c_hashed) => f1.q_bytes = f2.q_bytes
SamePathSameBytes(w1, w2) == SamePathSameBytesF(Files(w1), Files(w2))

\* the files of a chunk (itself and its companions); the chunk changed if a
\* file of the same kind is emitted by both builds with different bytes
OwnFiles(F, c) == {[k |-> f.a_kind, b |-> f.q_bytes] : f \in {g \in F : g.b_owner = ToString(c) /\ g.a_kind # "asset"}}

ChangePropagatesF(w1, w2, F1, F2) ==
  LET n1 == NamesSeq(w1, Cardinality(w1.chunks))
      n2 == NamesSeq(w2, Cardinality(w2.chunks))
      reach == [d \in w1.chunks |-> Reach(w1, d)]
  IN
  /\ \A c \in w1.chunks : (\E f1 \in OwnFiles(F1, c), f2 \in OwnFiles(F2, c) : f1.k = f2.k /\ f1.b # f2.b) =>
        \A d \in w1.chunks : (c \in reach[d] /\ HashedC(w1, d)) => n1[d] # n2[d]
  \* an asset whose own template has no [hash] opts out: its path is all that its importers contain
  /\ \A a \in EmittedAssets(w1) : (HashedA(w1, a) /\ w1.abytes[a] # w2.abytes[a]) =>
        /\ AName(w1, a) # AName(w2, a)
        /\ \A d \in w1.chunks : (HashedC(w1, d) /\ \E c \in reach[d] : a \in w1.aref[c]) => n1[d] # n2[d]
ChangePropagates(w1, w2) == ChangePropagatesF(w1, w2, Files(w1), Files(w2))

RefsResolveF(F) == \A f \in F : \A r \in f.refs : \E g \in F : g.path = r
RefsResolve(w) == RefsResolveF(Files(w))

RECURSIVE NoKey(_)
NoKey(toks) == IF toks = <<>> THEN TRUE ELSE (Head(toks).t # "key" /\ NoKey(Tail(toks)))
\* no placeholder survives, and placeholder-like user text is left alone
NoPlaceholderSurvivesF(w, F) ==
  \A f \in F : f.a_kind = "chunk" =>
     LET body == f.q_bytes.body
     IN /\ NoKey(body)
        /\ (w.fake[ChunkByStr(w, f.b_owner)] => \E k \in 1..Len(body) : body[k].t = "fake")
NoPlaceholderSurvives(w) == NoPlaceholderSurvivesF(w, Files(w))

\* a template with [hash] never yields a name with an empty hash part
NoEmptyHashF(F) == \A f \in F : f.path.d_hp # "empty"
NoEmptyHash(w) == NoEmptyHashF(Files(w))

Failing(w1, w2) ==
  LET F1 == Files(w1)
      F2 == Files(w2)
  IN
  (IF SamePathSameBytesF(F1, F2) THEN {} ELSE {"SamePathSameBytes"}) \cup
  (IF ChangePropagatesF(w1, w2, F1, F2) THEN {} ELSE {"ChangePropagates"}) \cup
  (IF RefsResolveF(F1) /\ RefsResolveF(F2) THEN {} ELSE {"RefsResolve"}) \cup
  (IF NoPlaceholderSurvivesF(w1, F1) /\ NoPlaceholderSurvivesF(w2, F2) THEN {} ELSE {"NoPlaceholderSurvives"}) \cup
  (IF NoEmptyHashF(F1) /\ NoEmptyHashF(F2) THEN {} ELSE {"NoEmptyHash"})
=============================================================================
