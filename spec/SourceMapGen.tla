---------------------------- MODULE SourceMapGen ----------------------------
(***************************************************************************)
(* The replay scenario family of C07, enumerated by TLC.                   *)
(*                                                                         *)
(* A scenario = a tuple of <= 3 files, each in one LAYOUT class, built      *)
(* under one CONFIGURATION.  TLC exports both factors (records tagged       *)
(* kind = "layout" / "config"); the harness pairs them (every configuration *)
(* meets every layout class; the tier decides how many pairs are built).    *)
(* Predicted observables that the harness must find in the real result are  *)
(* part of the configuration record (how many maps, whether a shift can     *)
(* occur, whether the re-basing relation of SourceMap.tla is applicable).   *)
(***************************************************************************)
EXTENDS Integers, Sequences, FiniteSets, TLC, Json

\* layout class of one input file
Layouts == {"plain",    \* LF, two-space indentation
            "banner",   \* leading comment lines before the first token
            "tabs",     \* tab indentation and tabs between tokens
            "crlf",     \* CR LF line endings
            "ls",       \* U+2028 / U+2029 inside a string before tokens of the same statement
            "astral",   \* astral characters (2 UTF-16 units) before tokens on the same line
            "long"}     \* a line of more than 300 columns with tokens at its end

LayoutTuples == UNION {[1..n -> Layouts] : n \in 1..3}

Configs ==
  [ mode     : {"transform", "bundle", "split"},
    format   : {"esm", "iife", "cjs"},
    minify   : {"none", "ws", "all"},
    banner   : BOOLEAN,               \* banner and footer text (the banner has two lines)
    root     : BOOLEAN,               \* sourceRoot set
    content  : BOOLEAN,               \* sourcesContent on/off
    sm       : {"inline", "linked", "external", "both"},
    names    : {"short", "long"},     \* entry/chunk name templates: two different final path lengths
    compose  : BOOLEAN ]              \* one input file is itself the output of a first esbuild run (with its map)

Sensible(c) ==
  /\ c.mode = "transform" => c.sm # "linked"            \* the transform API refuses linked maps
  /\ c.mode = "split" => c.format = "esm"               \* splitting needs ESM output
  /\ c.mode # "split" => c.names = "short"              \* templates only matter with hashed chunk paths
  /\ c.mode = "transform" => c.format = "esm"

\* predictions the harness checks against the real result
\* a final-path substitution can move mappings only when a path and a mapping share a line
CanShift(c) == c.mode = "split"
\* the re-basing relation (bundle mappings of a file = its stand-alone mappings
\* moved by the file's start offset) is applicable when the stand-alone build
\* prints the file identically: no identifier minification, no composition
Rebasable(c) == c.mode = "bundle" /\ c.minify # "all" /\ ~c.compose
\* everything lands on one generated line (plus the banner line): the column
\* carry of Join (prevColumnOffset) is exercised
OneLine(c) == c.minify # "none"

VARIABLE x
Init == x = 0
Next == x' = x
Spec == Init /\ [][Next]_x

SeqOf(f) == [i \in 1..Len(f) |-> f[i]]

Export ==
  /\ \A c \in Configs : Sensible(c) =>
        PrintT(<<"CASE", ToJson(c @@ [kind |-> "config", canShift |-> CanShift(c),
                                       rebasable |-> Rebasable(c), oneLine |-> OneLine(c)])>>)
  /\ \A t \in LayoutTuples :
        PrintT(<<"CASE", ToJson([kind |-> "layout", files |-> SeqOf(t)])>>)

ASSUME \E c \in Configs : Sensible(c) /\ Rebasable(c) /\ OneLine(c)
ASSUME \E c \in Configs : Sensible(c) /\ CanShift(c) /\ c.names = "long" /\ c.minify = "all"
ASSUME \E c \in Configs : Sensible(c) /\ c.compose /\ c.mode = "bundle"
ASSUME Cardinality(LayoutTuples) = 7 + 49 + 343
ASSUME Export
=============================================================================
