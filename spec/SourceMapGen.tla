---------------------------- MODULE SourceMapGen ----------------------------
(***************************************************************************)
(* The replay scenario family of C07, enumerated by TLC.                   *)
(*                                                                         *)
(* A scenario = a tuple of <= 3 files, each in one LAYOUT class, built      *)
(* under one CONFIGURATION.  TLC exports both factors (records tagged       *)
(* kind = "layout" / "config"); the harness pairs them (every configuration *)
(* meets every layout class; the tier decides how many pairs are built).    *)
(* Predicted observables that the harness must find in the real result are  *)
(* part of the configuration record (how many maps, whether a shift can     *)
(* occur, whether the re-basing relation of SourceMap.tla is applicable).   *)
(***************************************************************************)
EXTENDS Integers, Sequences, FiniteSets, TLC, Json

\* layout class of one input file
Layouts == {"plain",    \* LF, two-space indentation
            "banner",   \* leading comment lines before the first token
            "tabs",     \* tab indentation and tabs between tokens
            "crlf",     \* CR LF line endings
            "ls",       \* U+2028 / U+2029 inside a string before tokens of the same statement
            "astral",   \* astral characters (2 UTF-16 units) before tokens on the same line
            "long"}     \* a line of more than 300 columns with tokens at its end

LayoutTuples == UNION {[1..n -> Layouts] : n \in 1..3}

Configs ==
  [ mode     : {"transform", "bundle", "split"},
    format   : {"esm", "iife", "cjs"},
    minify   : {"none", "ws", "all"},
    banner   : BOOLEAN,               \* banner and footer text (the banner has two lines)
    root     : BOOLEAN,               \* sourceRoot set
    content  : BOOLEAN,               \* sourcesContent on/off
    sm       : {"inline", "linked", "external", "both"},
    names    : {"short", "long"},     \* entry/chunk name templates: two different final path lengths
    compose  : BOOLEAN ]              \* one input file is itself the output of a first esbuild run (with its map)

Sensible(c) ==
  /\ c.mode = "transform" => c.sm # "linked"            \* the transform API refuses linked maps
  /\ c.mode = "split" => c.format = "esm"               \* splitting needs ESM output
  /\ c.mode # "split" => c.names = "short"              \* templates only matter with hashed chunk paths
  /\ c.mode = "transform" => c.format = "esm"

\* predictions the harness checks against the real result
\* a final-path substitution can move mappings only when a path and a mapping share a line
CanShift(c) == c.mode = "split"
\* the re-basing relation (bundle mappings of a file = its stand-alone mappings
\* moved by the file's start offset) is applicable when the stand-alone build
\* prints the file identically: no identifier minification, no composition
Rebasable(c) == c.mode = "bundle" /\ c.minify # "all" /\ ~c.compose
\* input-map family: a file with an input map is printed identically alone and in
\* the bundle as well (its own sources then start at index 0)
RebasableIn(c) == c.mode = "bundle" /\ c.minify # "all" /\ c.compose
\* everything lands on one generated line (plus the banner line): the column
\* carry of Join (prevColumnOffset) is exercised
OneLine(c) == c.minify # "none"

(***************************************************************************)
(* Input source maps (composition), the second replay family.              *)
(* A scenario = one bundle configuration (compose = TRUE, mode = bundle)   *)
(* x one POSITION PATTERN (which files of the bundle, in output order       *)
(* dep1, dep2, ..., entry, carry an input source map) x one input-map       *)
(* descriptor per marked position.  TLC exports patterns and descriptors;   *)
(* the harness pairs them (seeded).                                         *)
(***************************************************************************)
Origins == {"transform",   \* the file is the output of esbuild's transform of ONE original file
            "bundle2",     \* the file is an esbuild bundle of 2 original files (a multi-source map)
            "bundle3",     \* ... of 3 original files
            "hand2",       \* hand-built: statements of 2 original files interleaved, re-indented
            "hand3"}       \* ... of 3 original files
InMaps ==
  [ origin  : Origins,
    carrier : {"inline", "external"},            \* data: URL comment / .map file next to the file
    content : {"embedded", "disk", "missing"},   \* sourcesContent in the input map / absent, originals on disk / absent, originals not on disk
    root    : BOOLEAN,                           \* the input map has a sourceRoot
    names   : BOOLEAN,                           \* the input map has names (first stage renames identifiers / hand-built names)
    sparse  : {"full", "coarse", "holes"} ]      \* every token mapped / one mapping per line / 1-field segments and unmapped lines
HandBuilt(d) == d.origin \in {"hand2", "hand3"}
SensibleIn(d) == ~HandBuilt(d) => d.sparse = "full"     \* esbuild-made maps are as esbuild makes them
\* how many entries the file contributes to the bundle's "sources" (the source
\* index base of the NEXT file moves by this: SourceMap.tla PassStep)
Nsrc(d) == IF d.origin = "transform" THEN 1 ELSE IF d.origin \in {"bundle2", "hand2"} THEN 2 ELSE 3
\* every marker token of the intermediate text starts a mapping of the input map:
\* the composed map must then be true marker by marker; otherwise the composed
\* original position is the one of the covering mapping (SourceMap.tla RefFind)
TokenExact(d) == d.sparse = "full"
Slots == {"P", "I"}     \* plain file / file with an input map
Patterns == {t \in UNION {[1..n -> Slots] : n \in 2..4} : \E i \in DOMAIN t : t[i] = "I"}
\* the bundle's "sources" has sum of Nsrc entries (1 for a plain file)
NumSources(t, ds) == LET RECURSIVE Sum(_) Sum(i) == IF i = 0 THEN 0 ELSE Sum(i - 1) + (IF t[i] = "I" THEN Nsrc(ds[i]) ELSE 1) IN Sum(Len(t))

(***************************************************************************)
(* CSS and TypeScript/JSX families (basic)                                 *)
(***************************************************************************)
\* a CSS bundle: entry a.css imports b.css and c.css; dup: b.css is imported twice
\* under different conditions (one file, two results, ONE slot in "sources":
\* SourceMap.tla WithRepeat); inmap: which dependency carries a hand-built
\* two-source input map (first: files after it are shifted by 2 in "sources")
CssConfigs == [minify : {"none", "all"}, content : BOOLEAN, dup : BOOLEAN, inmap : {"none", "first", "middle"}]
CssNumSources(c) == 3 + (IF c.inmap = "none" THEN 0 ELSE 1)
\* TypeScript: type-erased code keeps the columns of what remains
TsConfigs == [mode : {"transform", "bundle"}, minify : {"none", "ws", "all"}, content : BOOLEAN, jsx : BOOLEAN]

VARIABLE x
Init == x = 0
Next == x' = x
Spec == Init /\ [][Next]_x

SeqOf(f) == [i \in 1..Len(f) |-> f[i]]

Export ==
  /\ \A c \in Configs : Sensible(c) =>
        PrintT(<<"CASE", ToJson(c @@ [kind |-> "config", canShift |-> CanShift(c),
                                       rebasable |-> Rebasable(c), rebasableIn |-> RebasableIn(c), oneLine |-> OneLine(c)])>>)
  /\ \A t \in LayoutTuples :
        PrintT(<<"CASE", ToJson([kind |-> "layout", files |-> SeqOf(t)])>>)
  /\ \A d \in InMaps : SensibleIn(d) =>
        PrintT(<<"CASE", ToJson(d @@ [kind |-> "inmap", nsrc |-> Nsrc(d), tokenExact |-> TokenExact(d)])>>)
  /\ \A c \in CssConfigs : PrintT(<<"CASE", ToJson(c @@ [kind |-> "css", nsources |-> CssNumSources(c)])>>)
  /\ \A c \in TsConfigs : PrintT(<<"CASE", ToJson(c @@ [kind |-> "ts"])>>)
  /\ \A t \in Patterns :
        PrintT(<<"CASE", ToJson([kind |-> "pattern", files |-> SeqOf(t)])>>)

ASSUME \E c \in Configs : Sensible(c) /\ Rebasable(c) /\ OneLine(c)
ASSUME \E c \in Configs : Sensible(c) /\ CanShift(c) /\ c.names = "long" /\ c.minify = "all"
ASSUME \E c \in Configs : Sensible(c) /\ c.compose /\ c.mode = "bundle"
ASSUME Cardinality(LayoutTuples) = 7 + 49 + 343
ASSUME Cardinality(Patterns) = 3 + 7 + 15
ASSUME Cardinality({d \in InMaps : SensibleIn(d)}) = 3 * 24 + 2 * 72
ASSUME \E d \in InMaps : SensibleIn(d) /\ Nsrc(d) = 3 /\ ~TokenExact(d)
ASSUME Export
=============================================================================
