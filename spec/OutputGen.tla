----------------------------- MODULE OutputGen -----------------------------
(***************************************************************************)
(* The scenario space of C17 (output locations that can coincide with       *)
(* inputs x write x allowOverwrite x failure stage x rebuild history),      *)
(* enumerated by TLC and replayed against real directories.  Collides is    *)
(* the specification's prediction that a planned output lands on an input   *)
(* (over canonical paths, so a symlinked output directory counts).          *)
(***************************************************************************)
EXTENDS Integers, Sequences, FiniteSets, TLC, Json

Scenarios ==
  [ outdir  : {"separate", "same", "inside", "symlink"},
    entry   : {"js", "ts"},
    outExt  : {"default", "equal-input"},
    names   : {"name", "name-hash", "dir-name", "parent"},
    asset   : {"none", "file", "copy"},
    write   : BOOLEAN,
    allow   : BOOLEAN,
    fail    : {"none", "scan", "cancel"},
    history : {"single", "rebuild-same", "remove-chunk", "fail-then-ok"} ]

\* the abstract plan: does an output path coincide with an input path?
SameDir(s) == s.outdir \in {"same", "symlink"}
EntryCollides(s) ==
  /\ SameDir(s) /\ s.names \in {"name", "dir-name"}
  /\ (s.entry = "js" /\ s.outExt = "default") \/ (s.entry = "ts" /\ s.outExt = "equal-input")
AssetCollides(s) == SameDir(s) /\ s.asset \in {"file", "copy"}
Collides(s) == EntryCollides(s) \/ AssetCollides(s)

\* what the property allows the build to do
Expect(s) ==
  IF ~s.write THEN "nothing"
  ELSE IF s.fail # "none" /\ s.history = "single" THEN "nothing"
  ELSE IF Collides(s) /\ ~s.allow THEN "refuse"
  ELSE "write"

\* scenarios that make no sense are not generated
Sensible(s) ==
  /\ (s.history # "single") => s.fail = "none"          \* histories have their own failure steps
  /\ (s.outExt = "equal-input") => s.names # "parent"

VARIABLE x
Init == x = 0
Next == x' = x
Spec == Init /\ [][Next]_x

Export ==
  \A s \in Scenarios :
     Sensible(s) => PrintT(<<"CASE", ToJson([s EXCEPT !.outdir = s.outdir] @@ [collides |-> Collides(s), expect |-> Expect(s)])>>)

\* sanity of the scenario space itself (checked by TLC as assumptions)
ASSUME \E s \in Scenarios : Sensible(s) /\ Expect(s) = "refuse"
ASSUME \E s \in Scenarios : Sensible(s) /\ Collides(s) /\ s.allow
ASSUME Export
=============================================================================
