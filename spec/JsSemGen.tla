------------------------------ MODULE JsSemGen ------------------------------
(***************************************************************************)
(* C03 scenario generator: one TLC state per program of JsSemProgs; the    *)
(* single step evaluates the program with JsSem in the chosen environment  *)
(* rows and exports the case.  TLC checks Total on every evaluation.       *)
(***************************************************************************)
EXTENDS JsSemProgs

CONSTANTS NRand,    \* number of random programs
          K,        \* seeded environment rows evaluated per program (+ row (0, 0))
          DoReq,    \* BOOLEAN: evaluate the (program, rows) requests of c03_eval.ndjson (on-demand oracle)
          Emit      \* BOOLEAN: export CASE records

(* ------------------------------------------------------------------ *)
(* the model-checked generator                                        *)
(* ------------------------------------------------------------------ *)
Reqs == IF DoReq THEN ndJsonDeserialize("c03_eval.ndjson") ELSE <<>>

CONSTANT DoOpt    \* BOOLEAN: include the define / pure / drop / drop-labels family
CONSTANT D1All    \* BOOLEAN: every depth-1 expression in all three contexts (FALSE: in one context chosen by Seed)
CONSTANTS DoCx,   \* BOOLEAN: include the context x operand-kind family
          CxFull, \* BOOLEAN: operand kinds over every operator (FALSE: one seeded operator per class)
          CxMod,  \* 0: the covering sample of the cx / xc families only; n >= 1: plus the seeded 1/n of the full product
          DoXc,   \* BOOLEAN: include the outer-constant family (cross-module const / enum / define)
          D1Mod,  \* take the depth-1 expressions whose hash is 0 modulo D1Mod (1: all), rotated by Seed
          SkelMod \* the same for the statement skeletons

VARIABLES kind,   \* "d1" | "skel" | "rnd" | "req" | "opt"
          idx,    \* index of a random program / request; the context number for "d1"; 0 for "skel"; index into DefVals for "opt"
          prog,   \* the program (exhaustive families: chosen in Init; others: built in the step)
          done, out

(* a structural hash of a program: seeds the choice of the environment rows the spec evaluates *)
AllStrs == << "lit", "probe", "var", "glob", "rec", "un", "bin", "log", "cond", "comma", "asg", "mem", "optmem", "idx", "del",
              "expr", "ret", "throw", "decl", "if", "block", "while", "dowhile", "for", "break", "continue", "label",
              "switch", "case", "default", "try", "empty", "none",
              "a", "b", "x", "y", "i", "e", "G", "o", "k", "L1", "L2", "hcall", "gdef", "debugger", "f", "console.log", "DEF", "DEV",
              "-", "+", "!", "~", "typeof", "void", "*", "/", "%", "**", "<<", ">>", ">>>", "&", "|", "^",
              "==", "!=", "===", "!==", "<", ">", "<=", ">=", "&&", "||", "??",
              "=", "+=", "-=", "*=", "/=", "%=", "**=", "<<=", ">>=", ">>>=", "&=", "|=", "^=", "&&=", "||=", "??=",
              "undef", "null", "bool", "int", "nzero", "nan", "pinf", "ninf", "str", "big", "obj",
              "tpl", "sprd", "cconst", "K1", "K0", "KT", "KF", "KA", "KE", "KN", "KU" >>
Code(str) == IF \E c \in 1..Len(AllStrs) : AllStrs[c] = str THEN CHOOSE c \in 1..Len(AllStrs) : AllStrs[c] = str ELSE 0
RECURSIVE HashN(_)
RECURSIVE HashL(_, _)
HashL(ns, c) == IF c > Len(ns) THEN 0 ELSE ((c + 1) * HashN(ns[c]) + HashL(ns, c + 1)) % 30011
HashN(n) == (Code(n.k) * 7 + Code(n.op) * 13 + n.n * 17
             + (IF n.k \in {"lit", "cconst"} THEN Code(n.v.t) * 5 + n.v.sg + Len(n.v.m) + 3 * Len(n.v.s) ELSE 0)
             + 3 * HashL(n.a, 1)) % 30011

KindNo(kd) == CASE kd = "d1" -> 1 [] kd = "skel" -> 2 [] kd = "rnd" -> 3 [] kd = "req" -> 4 [] kd = "opt" -> 5 [] kd = "cx" -> 6 [] kd = "xc" -> 7
RECURSIVE Rows(_, _)
Rows(g, n) == IF n = 0 THEN <<>>
              ELSE LET ri == Draw(g, Q) rj == Draw(ri.g, Q) IN << <<ri.i - 1, rj.i - 1>> >> \o Rows(rj.g, n - 1)
\* row (0, 0) (every factor undefined, G undeclared, o.k absent) + K seeded rows
RowsOf(kd, ix, pr) ==
  IF kd = "req" THEN Reqs[ix].rows
  ELSE << <<0, 0>> >> \o Rows([r |-> RngInit(Seed + 7919 * KindNo(kd), IF kd = "rnd" THEN ix ELSE HashL(pr, 1)), np |-> 0], K)

RECURSIVE Export(_)
Export(n) == IF n.k = "lit" THEN [k |-> "lit", v |-> n.v]
             ELSE IF n.k = "cconst" THEN [k |-> "cconst", op |-> n.op, v |-> n.v]
             ELSE [k |-> n.k, op |-> n.op, n |-> n.n, a |-> [c \in 1..Len(n.a) |-> Export(n.a[c])]]

Outcome(pr, rows) == [r \in 1..Len(rows) |-> Run(pr, EnvOf(rows[r][1], rows[r][2]))]
OutcomeG(grid, pr, rows) == [r \in 1..Len(rows) |-> Run(pr, EnvOfG(grid, rows[r][1], rows[r][2]))]
\* the cx / xc families (and requests about their programs) run over CxGrid
GridOf(kd, ix) == IF kd \in {"cx", "xc"} \/ (kd = "req" /\ Reqs[ix].grid = 1) THEN CxGrid ELSE EnvGrid

Init == /\ \/ DoD1 /\ kind = "d1" /\ idx \in {1, 2, 3} /\ \E e \in D1Set : prog = << e >>
              /\ (D1All \/ idx = ((HashN(prog[1]) + Seed) % 3) + 1)
              /\ (D1Mod = 1 \/ ((HashN(prog[1]) \div 3) + Seed) % D1Mod = 0)
           \/ DoSkel /\ kind = "skel" /\ prog \in SkelProgs /\ idx = 0
              /\ (SkelMod = 1 \/ (HashL(prog, 1) + Seed) % SkelMod = 0)
           \/ DoCx /\ kind = "cx" /\ idx \in CxDescs(CxFull, Seed, CxMod) /\ prog = <<>>
           \/ DoXc /\ kind = "xc" /\ idx \in XcDescs(Seed, CxMod) /\ prog = <<>>
           \/ kind = "rnd" /\ idx \in 1..NRand /\ prog = <<>>
           \/ kind = "req" /\ idx \in 1..Len(Reqs) /\ prog = <<>>
           \/ DoOpt /\ kind = "opt" /\ idx \in 1..Len(DefVals) /\ prog \in OptProgs(0)
        /\ done = FALSE
        /\ out = <<>>

Next == /\ ~done
        /\ done' = TRUE
        /\ UNCHANGED <<kind, idx>>
        /\ prog' = CASE kind = "rnd" -> RandProg(idx) [] kind = "req" -> Reqs[idx].prog
                      [] kind = "d1" -> InContext(idx, prog[1])
                      [] kind = "cx" -> CxProgOf(CxFull, Seed, idx) [] kind = "xc" -> XcProgOf(Seed, idx)
                      [] OTHER -> prog
        /\ LET rows == RowsOf(kind, idx, prog')
               keep == IF kind = "opt" THEN Reference(prog', DefVals[idx], FALSE) ELSE prog'
               drop == IF kind = "opt" THEN Reference(prog', DefVals[idx], TRUE) ELSE prog'
           IN /\ out' = IF kind = "opt" THEN Outcome(keep, rows) \o Outcome(drop, rows)
                         ELSE OutcomeG(GridOf(kind, idx), prog', rows)
              /\ (Emit => IF kind = "opt"
                           THEN PrintT(<<"CASE", ToJson([spec |-> "JsSemOpt", idx |-> idx, dv |-> DefVals[idx],
                                                    prog |-> [c \in 1..Len(prog') |-> Export(prog'[c])],
                                                    keep |-> [c \in 1..Len(keep) |-> Export(keep[c])],
                                                    drop |-> [c \in 1..Len(drop) |-> Export(drop[c])],
                                                    rows |-> rows, expect |-> out'])>>)
                           ELSE IF kind = "req"
                           THEN PrintT(<<"CASE", ToJson([spec |-> "JsSemReq", idx |-> idx, rows |-> rows, expect |-> out'])>>)
                           ELSE PrintT(<<"CASE", ToJson([spec |-> "JsSem", kind |-> kind, idx |-> idx,
                                                    prog |-> [c \in 1..Len(prog') |-> Export(prog'[c])],
                                                    labels |-> Labels(prog'), rows |-> rows, expect |-> out'])>>))

(* header record: the environment table, exported once *)
EnvTable == [spec |-> "JsSemEnvs", q |-> Q, grid |-> EnvGrid, gridc |-> CxGrid,
             rows |-> [n \in 1..(Q * Q) |-> RowIdx((n - 1) \div Q, (n - 1) % Q)],
             objs |-> [id \in ObjIds |-> ObjDef(id)], maxcalls |-> MaxCalls]
ASSUME Emit => PrintT(<<"CASE", ToJson(EnvTable)>>)
ASSUME (Emit /\ DoOpt) => PrintT(<<"CASE", ToJson([spec |-> "JsSemNames", cases |-> NameProgs])>>)

(* ---- properties of the model ---- *)
(* evaluation is total and deterministic: Run is a function of (program, environment), every
   run ends in exactly one completion, the probe budget is respected *)
Total == done => \A r \in 1..Len(out) :
                    /\ out[r].c \in {"ret", "throw", "unk"}
                    /\ Len(out[r].tr) <= 3 * MaxCalls + 40
                    /\ Cardinality({n \in 1..Len(out[r].tr) : out[r].tr[n].e = "p"}) <= MaxCalls
(* the orthogonal array has strength 2 *)
ASSUME \A c1, c2 \in 0..10 : c1 # c2 =>
          Cardinality({<<Cell(i, j, c1), Cell(i, j, c2)>> : i \in 0..(Q - 1), j \in 0..(Q - 1)}) = Q * Q
(* the cx family inhabits EVERY (context, operand kind) pair, in the covering sample as well *)
ASSUME DoCx => CxPairs(CxDescs(CxFull, Seed, CxMod)) = (1..NCtx) \X (1..Len(CxShapes(CxFull, Seed, 1)))
ASSUME DoXc => CxPairs(XcDescs(Seed, CxMod)) = (1..NCtx) \X (1..Len(XcShapes(Seed, 1)))
(* every pattern class named by the property is inhabited by the exhaustive families *)
Inhabited(progs) == \A c \in RequiredClasses : \E pr \in progs : c \in Labels(pr)
=============================================================================
