------------------------- MODULE BuildContextTrace -------------------------
(***************************************************************************)
(* Trace validation of real executions of one build context against        *)
(* BuildContext.tla.  The harness records the hook events of one context   *)
(* (api_impl.go, build tag verif) together with its own call/return/edit   *)
(* and plugin-callback events, renames pointers and goroutine ids to build *)
(* numbers and caller names (pure renaming), and writes them as NDJSON.    *)
(* Many traces are concatenated, separated by {"ev":"reset"}.              *)
(*                                                                         *)
(* Each event is matched by the action of BuildContext that the hook       *)
(* reports, with the logged fields bound; unlogged steps (the watcher's    *)
(* shutdown inside Dispose) are silent actions.  All invariants of         *)
(* BuildContext are evaluated on every state of the matched behaviour.     *)
(***************************************************************************)
EXTENDS BuildContext, Json

TraceLog == ndJsonDeserialize("bctrace.ndjson")

VARIABLE l   \* index of the next event to consume

tvars == <<vars, l>>

Ev == TraceLog[l]
IsEv(name) == l <= Len(TraceLog) /\ TraceLog[l].ev = name
Consume == l' = l + 1

TraceInit == Init /\ l = 1 /\ TLCSet(1, 1)

\* a new trace starts: re-install the initial state
TraceReset ==
  /\ IsEv("reset") /\ Consume
  /\ fsLo' = 0 /\ fsHi' = 0
  /\ disposed' = FALSE /\ active' = None /\ recent' = None /\ nbuilds' = 0
  /\ build' = [b \in Builds |-> NoBuild]
  /\ call' = [c \in AllCallers |-> IdleCall]
  /\ left' = [c \in Callers |-> MaxOps]
  /\ watching' = FALSE /\ wstopped' = "no"

TrEditBegin == IsEv("edit.begin") /\ Consume /\ EditBegin
TrEditEnd == IsEv("edit.end") /\ Consume /\ EditEnd

\* (goroutines that esbuild starts itself -- the watcher loop, the initial
\* watch build -- appear as additional callers x1, x2, ...)
TrIssue == IsEv("issue") /\ Consume /\ Issue(Ev.c, Ev.op)

TrCbStartBegin == IsEv("cb.onstart.begin") /\ Consume /\ active # None /\ CbStartBegin(active)
TrCbStartEnd == IsEv("cb.onstart.end") /\ Consume /\ active # None /\ CbStartEnd(active)
TrCbResolve == IsEv("cb.resolve") /\ Consume /\ active # None /\ CbResolve(active) /\ Ev.stamp = active
TrCbLoad == IsEv("cb.load") /\ Consume /\ active # None /\ CbLoad(active, Ev.m) /\ Ev.stamp = active

TrCtxEnter ==
  /\ IsEv("ctx.enter") /\ Consume
  /\ \/ Ev.branch = "disposed" /\ RebuildEnterDisposed(Ev.c)
     \/ Ev.branch = "join" /\ RebuildEnterJoin(Ev.c) /\ call'[Ev.c].saw = Ev.b
     \/ Ev.branch = "start" /\ RebuildEnterStart(Ev.c) /\ call'[Ev.c].saw = Ev.b

TrScanDone ==
  /\ IsEv("build.scan.done") /\ Consume
  /\ active # None /\ ScanDone(active, Ev.errors)

\* The cancel flag is read without a lock some time before the hook logs
\* the outcome: the read is a silent step (CompileSample, see Silent) between
\* build.scan.done and this event.
TrCompileDone ==
  /\ IsEv("build.compile.done") /\ Consume
  /\ active # None /\ build[active].phase = "sampled"
  /\ \E le \in BOOLEAN : CompileDone(active, le)
  /\ build'[active].outcome = (IF Ev.cancelled THEN "cancelled" ELSE IF Ev.errors THEN "errors" ELSE "ok")

\* A file is written: only in the write phase of a build without errors
TrOutWrite ==
  /\ (IsEv("out.write") \/ IsEv("out.skip")) /\ Consume
  /\ active # None /\ build[active].phase = "compiled" /\ build[active].outcome = "ok"
  /\ UNCHANGED vars

\* A stale file is deleted: only in the write phase (also of a failed build)
TrOutDelete ==
  /\ IsEv("out.delete") /\ Consume
  /\ active # None /\ build[active].phase \in {"scanned", "sampled", "compiled"}
  /\ UNCHANGED vars

\* End of the write phase.  After a scan with errors there is no separate
\* compile event: CompileDone and WriteDone are composed.
TrWriteDone ==
  /\ IsEv("build.write.done") /\ Consume
  /\ active # None
  /\ IF build[active].phase \in {"scanned", "sampled"}
       THEN /\ build[active].scanErr
            /\ build' = [build EXCEPT ![active].phase = IF NOnEnd = 0 THEN "ended" ELSE "written",
                                      ![active].outcome = "errors"]
            /\ UNCHANGED <<fsLo, fsHi, disposed, active, recent, nbuilds, call, left, watching, wstopped>>
       ELSE WriteDone(active)
  /\ Ev.errors = (build'[active].outcome # "ok")

\* An on-end callback runs (event logged by the harness's callback itself):
\* stamp is the build the callback believes it belongs to, exists says
\* whether every reported output file was on disk when it ran.
TrOnEnd ==
  /\ IsEv("cb.onend") /\ Consume
  /\ active # None /\ OnEnd(active, Ev.i, Ev.fail)
  /\ Ev.stamp = active
  /\ Ev.exists

TrPublish ==
  /\ IsEv("build.publish") /\ Consume
  /\ Ev.b = active
  \* rebuildImpl returned (BuildEnd) and the second critical section ran (Publish)
  /\ build[active].phase \in {"written", "onend", "ended"}
  /\ build[active].phase # "ended" => (build[active].onEndFailed \/ build[active].onEndDone = NOnEnd)
  /\ active' = None
  /\ recent' = IF TrackRecent THEN active ELSE None
  /\ build' = [build EXCEPT ![active].phase = "published"]
  /\ UNCHANGED <<fsLo, fsHi, disposed, nbuilds, call, left, watching, wstopped>>

TrWgDone == IsEv("build.wgdone") /\ Consume /\ WgDone(Ev.b)

\* Rebuild() returned to the harness.  res/stamp/ver are read from the
\* returned BuildResult: the build number stamped into every output file,
\* the tree version it was built from.
TrRetRebuild ==
  /\ IsEv("ret") /\ Ev.op = "rebuild" /\ Consume
  /\ RebuildReturn(Ev.c)
  /\ LET b == call[Ev.c].saw IN
       /\ Ev.res = ResultOf(b)
       /\ (Ev.res = "ok") =>
             /\ Ev.stamp = b                                           \* exactly that build, all files
             /\ Ev.ver >= build[b].readLo /\ Ev.ver <= build[b].readHi \* a tree that existed while it ran
       /\ (Ev.res = "ok" /\ call[Ev.c].branch = "start") => Ev.ver >= call[Ev.c].enterLo

TrCancelEnter ==
  /\ IsEv("cancel.enter") /\ Consume
  /\ CancelEnter(Ev.c)
  /\ call'[Ev.c].branch = Ev.branch
  /\ Ev.branch = "active" => call'[Ev.c].saw = Ev.b

\* The cancel flag is an atomic that is set outside of any lock; the hook
\* logs after the store.  The store itself is a silent step (see Silent)
\* somewhere between cancel.enter and this event.
TrCancelFlag ==
  /\ IsEv("cancel.flag") /\ Consume
  /\ IF call[Ev.c].pc = "flagging" THEN CancelFlag(Ev.c) ELSE UNCHANGED vars

TrRetCancel == IsEv("ret") /\ Ev.op = "cancel" /\ Consume /\ CancelReturn(Ev.c)

TrDisposeEnter ==
  /\ IsEv("dispose.enter") /\ Consume
  /\ DisposeEnter(Ev.c)
  /\ call'[Ev.c].branch = Ev.branch
  /\ Ev.branch = "active" => call'[Ev.c].saw = Ev.b

TrRetDispose == IsEv("ret") /\ Ev.op = "dispose" /\ Consume /\ DisposeReturn(Ev.c)

TrWatchEnter == IsEv("watch.enter") /\ Consume /\ WatchEnter(Ev.c) /\ call'[Ev.c].branch = "ok"
TrRetWatch ==
  /\ IsEv("ret") /\ Ev.op = "watch" /\ Consume
  /\ \/ call[Ev.c].op = "done-watch" /\ UNCHANGED vars                 \* watch.enter was logged
     \/ call[Ev.c].op = "watch" /\ WatchEnter(Ev.c) /\ call'[Ev.c].branch = Ev.res  \* error branches log nothing

\* the return of rebuild() to a goroutine that esbuild started itself
TrRetInternal == IsEv("ret.internal") /\ Consume /\ RebuildReturn(Ev.c)

\* silent steps (no event): the watcher shutdown inside Dispose()
Silent ==
  /\ l' = l
  /\ \/ \E c \in Callers : DisposeStopWatcher(c) \/ DisposeWatcherStopped(c) \/ CancelFlag(c)
     \/ WatcherExit
     \/ RecentExpire
     \/ (active # None /\ CompileSample(active))

TraceNext ==
  \/ TraceReset
  \/ TrEditBegin \/ TrEditEnd \/ TrIssue \/ TrCtxEnter
  \/ TrScanDone \/ TrCompileDone \/ TrOutWrite \/ TrOutDelete \/ TrWriteDone \/ TrOnEnd
  \/ TrPublish \/ TrWgDone \/ TrRetRebuild
  \/ TrCancelEnter \/ TrCancelFlag \/ TrRetCancel
  \/ TrDisposeEnter \/ TrRetDispose
  \/ TrWatchEnter \/ TrRetWatch \/ TrRetInternal
  \/ TrCbStartBegin \/ TrCbStartEnd \/ TrCbResolve \/ TrCbLoad
  \/ Silent

TraceSpec == TraceInit /\ [][TraceNext]_tvars

\* the action properties of BuildContext, exempting the reset between traces
TrNoStartAfterDispose == [][IsEv("reset") \/ (disposed => nbuilds' = nbuilds)]_tvars
TrDisposedIsForever == [][IsEv("reset") \/ (disposed => disposed')]_tvars

\* high-water mark of consumed events (register 1), -workers 1
HighWater == IF l > TLCGet(1) THEN TLCSet(1, l) ELSE TRUE
TraceAccepted == PrintT(<<"HIGHWATER", TLCGet(1)>>) /\ TLCGet(1) = Len(TraceLog) + 1
=============================================================================
