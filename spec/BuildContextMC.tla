--------------------------- MODULE BuildContextMC ---------------------------
(* Model-checking wrapper of BuildContext: symmetry set for the callers.     *)
(* (Kept out of BuildContext.tla because TLC evaluates constant definitions  *)
(* eagerly and the trace specification uses many callers.)                   *)
EXTENDS BuildContext
Symm == Permutations(Callers)
=============================================================================
