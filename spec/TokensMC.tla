------------------------------ MODULE TokensMC ------------------------------
(* Plans (model constants) for Tokens.tla; see spec/cfg/Tokens.*.cfg *)
EXTENDS Tokens

E(l, fr, sp, ln, k) == [lang |-> l, frames |-> fr, seps |-> sp, len |-> ln, tail |-> k]

(* the same strings three ways (tail 0, 1, 2): the harness checks on every run that its expansion of the
   stems of the last two entries equals the states TLC itself enumerates for the first *)
Cross == << E("json", {1, 2}, {"+"}, 2, 0), E("json", {1, 2}, {"+"}, 2, 1), E("json", {1, 2}, {"+"}, 2, 2) >>

(* quick: every string of <= 3 tokens of every alphabet (empty frame; jscore also unseparated, where gluing
   tokens makes new tokens), every string of <= 2 tokens inside every frame *)
PlanQuick == Cross \o <<
  E("jscore", {1}, {" ", ""}, 3, 2),
  E("jslit",  {1}, {" "}, 3, 2),
  E("jsdecl", {1}, {" "}, 3, 2),
  E("ts",     {1}, {" "}, 3, 2),
  E("jsx",    {1, 2, 3}, {" "}, 3, 2),
  E("cssa",   {1}, {" "}, 3, 2),
  E("cssb",   {1}, {" "}, 3, 2),
  E("json",   {1, 2, 3}, {" "}, 3, 1),
  E("smap",   {1, 2, 3, 4}, {" "}, 2, 1),
  E("cfg",    {1, 2, 3, 4, 5, 6, 7, 8}, {" "}, 2, 1),
  E("jscore", {2, 3, 4, 5, 6, 7, 8}, {" "}, 2, 1),
  E("jsdecl", {2, 3, 4, 5, 6, 7, 8}, {" "}, 2, 1),
  E("jsdecl", {2, 3}, {" "}, 3, 2),
  E("jslit",  {2, 3, 6}, {" "}, 2, 1),
  E("ts",     {2, 3, 4, 5, 6}, {" "}, 2, 1),
  E("cssa",   {2, 3, 4, 5}, {" "}, 2, 1),
  E("cssb",   {2, 3, 4, 5}, {" "}, 2, 1) >>

(* thorough: <= 4 tokens of the six large alphabets (empty frame), <= 3 tokens inside every frame and
   unseparated *)
PlanThorough == Cross \o <<
  E("jscore", {1}, {" "}, 4, 2),
  E("jscore", {1}, {""}, 3, 2),
  E("jsdecl", {1}, {" "}, 4, 2),
  E("ts",     {1}, {" "}, 4, 2),
  E("cssa",   {1}, {" "}, 4, 2),
  E("jslit",  {1}, {" ", ""}, 3, 2),
  E("cssb",   {1}, {" ", ""}, 3, 2),
  E("cssa",   {1}, {""}, 3, 2),
  E("jsx",    {1, 2, 3, 4}, {" "}, 4, 2),
  E("jsx",    {1, 2, 3}, {""}, 3, 2),
  E("json",   {1, 2, 3}, {" "}, 4, 2),
  E("smap",   {1, 2, 3, 4}, {" "}, 3, 1),
  E("cfg",    {1, 2, 3, 4, 5, 6, 7, 8}, {" "}, 2, 1),
  E("cfg",    {2, 5}, {" "}, 3, 1),
  E("jscore", {2, 3, 4, 5, 6, 7, 8}, {" "}, 3, 1),
  E("jsdecl", {2, 3, 4, 5, 6, 7, 8}, {" "}, 3, 1),
  E("jslit",  {2, 3, 6}, {" "}, 3, 1),
  E("ts",     {2, 3, 4, 5, 6}, {" "}, 3, 1),
  E("cssa",   {2, 3, 4, 5}, {" "}, 3, 1),
  E("cssb",   {2, 3, 4, 5}, {" "}, 3, 1) >>

ASSUME ExpandOK(3, 3) /\ ExpandOK(2, 4)
=============================================================================
