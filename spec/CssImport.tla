----------------------------- MODULE CssImport -----------------------------
(***************************************************************************)
(* C12 - bundling.  A file is a sequence of items; besides rules and layer *)
(* statements an item may be an import [k = "import", file, wrap] where    *)
(* wrap is the path prefix the import puts around the imported sheet       *)
(* (outermost first: @media, @supports, @layer - `layer` without a name is *)
(* given a reserved name that is unique for the import).                   *)
(* Inline(files, entry) is the reference: every import is replaced, where  *)
(* it appears, by the imported file's items with wrap in front of their    *)
(* paths; an import of a file that is already on the chain of imports is   *)
(* ignored (cycles).  The cascade of a bundle must be that of              *)
(* Inline(files, entry) (Css!WinTable).                                    *)
(* TLC checks on a bounded-exhaustive family of graphs (cycles, diamonds,  *)
(* conditional and layered imports): Inline terminates and yields a well   *)
(* formed sheet in which no chain repeats a file, and - the law bundlers   *)
(* rely on - without layers it is enough to keep the LAST unconditional    *)
(* occurrence of a file: dropping every earlier occurrence of a file whose *)
(* last occurrence is unconditional does not change any winner.            *)
(***************************************************************************)
EXTENDS CssGen

CONSTANTS IParts, MaxA

FileIdx(files, name) == CHOOSE i \in 1..Len(files) : files[i].name = name
FileNames(files) == {files[i].name : i \in 1..Len(files)}

\* items of the inlined sheet carry the chain of files they came through (src) for the laws below
RECURSIVE InlineItems(_, _, _, _, _)
InlineItems(files, f, k, chain, pre) ==
  IF k > Len(files[f].items) THEN <<>>
  ELSE LET it == files[f].items[k] IN
       (IF it.k = "import"
        THEN IF it.file \in {chain[j] : j \in 1..Len(chain)} \/ it.file \notin FileNames(files) THEN <<>>
             ELSE InlineItems(files, FileIdx(files, it.file), 1, Append(chain, it.file), pre \o it.wrap)
        ELSE <<[k |-> it.k, path |-> pre \o it.path, decls |-> it.decls, names |-> it.names, src |-> chain, pre |-> pre]>>)
       \o InlineItems(files, f, k + 1, chain, pre)
InlineSrc(files, entry) == InlineItems(files, FileIdx(files, entry), 1, <<entry>>, <<>>)
Strip(items) == [i \in 1..Len(items) |-> [k |-> items[i].k, path |-> items[i].path, decls |-> items[i].decls, names |-> items[i].names]]
Inline(files, entry) == Strip(InlineSrc(files, entry))

NoRepeat(s) == \A a, b \in 1..Len(s) : a # b => s[a] # s[b]

\* keep, of every file, only the occurrences that are not followed by an unconditional occurrence of the same file
DropEarlier(items) ==
  Bind(SelectSeq([i \in 1..Len(items) |-> [it |-> items[i], keep |-> ~\E j \in (i + 1)..Len(items) :
                                        /\ Last(items[j].src) = Last(items[i].src) /\ items[j].pre = <<>>
                                        /\ items[j].src # items[i].src]],
                 LAMBDA x : x.keep),
       LAMBDA s : [i \in 1..Len(s) |-> s[i].it])
HasLayers(items) == \E i \in 1..Len(items) : items[i].k = "layer" \/ \E k \in 1..Len(items[i].path) : IsLayerEl(items[i].path[k])

\* ---- bounded-exhaustive family of graphs: entry a; files a, b, c
PSelI(s) == [t |-> "sel", s |-> s, c |-> NoCond, n |-> <<>>]
RuleI(sel, v) == [k |-> "rule", path |-> <<PSelI(sel)>>, decls |-> <<[p |-> "color", v |-> <<v>>, sp |-> <<1>>, i |-> FALSE]>>, names |-> <<>>]
WrapsI == << <<>>, <<[t |-> "media", s |-> "", c |-> [r |-> "media", qs |-> <<[neg |-> FALSE, atoms |-> <<[a |-> "print", sp |-> 1]>>]>>], n |-> <<>>]>>,
             <<[t |-> "layer", s |-> "", c |-> NoCond, n |-> <<"x">>]>> >>
Imp(f, w) == [k |-> "import", file |-> f, wrap |-> WrapsI[w]]
ImportLists(targets, maxLen) ==
  {<<>>} \cup {<<Imp(f, w)>> : f \in targets, w \in 1..Len(WrapsI)}
         \cup (IF maxLen >= 2 THEN {<<Imp(f, w), Imp(g, v)>> : f \in targets, g \in targets, w \in 1..Len(WrapsI), v \in 1..Len(WrapsI)} ELSE {})
Graphs == {<< [name |-> "a", items |-> ia \o <<RuleI(".a", "red")>>],
              [name |-> "b", items |-> ib \o <<RuleI(".a", "blue")>>],
              [name |-> "c", items |-> ic \o <<RuleI("p.a", "tan"), RuleI(".a", "gray")>>] >> :
             ia \in ImportLists({"b", "c"}, MaxA), ib \in ImportLists({"a", "c"}, 1), ic \in ImportLists({"a", "b", "c"}, 1)}
GraphSeq == SetToSeq(Graphs)

GraphCheck(g) ==
  Bind(InlineSrc(g, "a"), LAMBDA src :
  Bind(Strip(src), LAMBDA sh :
    /\ WFSheet(sh)
    /\ \A i \in 1..Len(src) : NoRepeat(src[i].src)
    /\ Len(sh) >= 1
    /\ ~HasLayers(src) =>
         Bind(Strip(DropEarlier(src)), LAMBDA sh2 :
         Bind(SheetInfo(sh), LAMBDA info :
         Bind(SheetInfo(sh2), LAMBDA info2 :
           \A env \in EnvsOf(sh) : WinTable(sh, info, env) = WinTable(sh2, info2, env))))))

VARIABLES gi, gok
ivars == <<gi, gok, gen_i, gen_out>>
\* first step: a part (negative), second step: a graph of that part (so that the workers share the family)
IInit == gi \in {0 - p : p \in 1..IParts} /\ gok = TRUE /\ gen_i = 0 /\ gen_out = FALSE
INext == /\ gi < 0 /\ gi' \in {k \in 1..Len(GraphSeq) : (k % IParts) + 1 = 0 - gi}
         /\ gok' = GraphCheck(GraphSeq[gi']) /\ UNCHANGED <<gen_i, gen_out>>
ISpec == IInit /\ [][INext]_ivars
GraphsOK == gok

\* ---- cases for the harness: graphs drawn by seed -> inlined sheet -> winners
GInput == ndJsonDeserialize("cssimp_in.ndjson")
GCase(k) == Bind(Inline(GInput[k].files, GInput[k].entry), LAMBDA sh : CaseOf(GInput[k].id, sh) @@ [items |-> sh])
\* one run does both: the family above (gi < 0 -> 1..) and the harness's graphs (gi = 100000 + k)
BInit == IInit \/ (gi \in {100000 + k : k \in 1..Len(GInput)} /\ gok = TRUE /\ gen_i = 0 /\ gen_out = FALSE)
BNext == \/ INext
         \/ /\ gi > 100000 /\ ~gen_out /\ gen_out' = TRUE /\ UNCHANGED <<gi, gok, gen_i>>
            /\ PrintT(<<"CASE", ToJson(GCase(gi - 100000))>>)
BSpec == BInit /\ [][BNext]_ivars
=============================================================================
