------------------------------ MODULE HashMC ------------------------------
(***************************************************************************)
(* Design check of Hash.tla: every world over N chunks (all import graphs, *)
(* cycles included) and one asset, every option combination, and every     *)
(* single-atom edit.  One state = one (world, edit) pair.                  *)
(***************************************************************************)
EXTENDS Hash, Json

CONSTANTS N,                  \* number of chunks
          SMs, Legals,        \* option values explored
          HEs, HAs, PPs, LVs, \* entry/asset template has [hash], public path set, legal comment present
          LIHs                \* FALSE = the code as it is, TRUE = the candidate repair

Chunks == 1..N
Assets == {"x"}

Opts == [hE : HEs, hK : (IF N > 2 THEN BOOLEAN ELSE {TRUE}), hA : HAs, pp : PPs, sm : SMs, legal : Legals, lv : LVs, lih : LIHs]

Graphs == {f \in [Chunks -> SUBSET Chunks] : \A c \in Chunks : c \notin f[c]}

World(o, imp, aref) ==
  [ chunks |-> Chunks, assets |-> Assets, names |-> <<>>, imp |-> imp, aref |-> aref,
    hashedC |-> [c \in Chunks |-> IF c <= 2 THEN o.hE ELSE o.hK], hashedA |-> o.hA,
    pp |-> o.pp, sm |-> o.sm, legal |-> o.legal, lih |-> o.lih,
    fake |-> [c \in Chunks |-> c = 1],
    code |-> [c \in Chunks |-> 0], parts |-> [c \in Chunks |-> 0], tmpl |-> [c \in Chunks |-> 0],
    smap |-> [c \in Chunks |-> 0], legalv |-> [c \in Chunks |-> o.lv], ppv |-> 0,
    abytes |-> [a \in Assets |-> 0] ]

Edits(w) ==
  {[k |-> kk, c |-> c] : kk \in {"code", "parts", "tmpl", "smap", "legal"}, c \in w.chunks}
  \cup (IF w.pp THEN {[k |-> "pp"]} ELSE {})
  \cup {[k |-> "asset", a |-> a] : a \in UsedAssets(w)}
  \cup UNION {{[k |-> "import", c |-> c, d |-> d] : d \in {x \in w.chunks : x # c /\ x \notin w.imp[c]}} : c \in w.chunks}

\* the options are chosen in the initial state, the graph and the edit in one
\* step (so that TLC's workers share the work)
VARIABLES o, w, e
vars == <<o, w, e>>
NoWorld == [chunks |-> {}]
Init == o \in Opts /\ w = NoWorld /\ e = [k |-> "none"]
Next == /\ w = NoWorld
        /\ \E imp \in Graphs, aref \in [Chunks -> SUBSET Assets] :
              /\ w' = World(o, imp, aref)
              /\ e' \in Edits(w')
        /\ o' = o
Spec == Init /\ [][Next]_vars
Chosen == w # NoWorld

W2 == Apply1(w, e)

\* all four properties in one pass (the files of both worlds are computed once)
\* (for the design with the candidate repair; the code as it is is reported below)
AllHold == (Chosen /\ w.lih) => Failing(w, W2) = {}
InvSamePathSameBytes == Chosen => SamePathSameBytes(w, W2)
InvChangePropagates == Chosen => ChangePropagates(w, W2)
InvRefsResolve == Chosen => (RefsResolve(w) /\ RefsResolve(W2))
InvNoPlaceholderSurvives == Chosen => (NoPlaceholderSurvives(w) /\ NoPlaceholderSurvives(W2))

\* the edit really changes some emitted bytes in at least some worlds (the checks are not vacuous)
Effective == {[p |-> f.path, b |-> f.q_bytes] : f \in Files(w)} # {[p |-> f.path, b |-> f.q_bytes] : f \in Files(W2)}

\* candidate export for the transcription of the code as it is: which classes
\* of (edit, options) falsify which invariant on the model (guard 3: these are
\* candidates to be reproduced on the real code, not verdicts)
Report ==
  LET F == IF Chosen /\ ~w.lih THEN Failing(w, W2) ELSE {}
  IN F = {} \/ PrintT(<<"CASE", ToJson([edit |-> e.k, legal |-> w.legal, sm |-> w.sm, lv |-> w.legalv[1], failing |-> F])>>)
=============================================================================
