------------------------------ MODULE HashMC ------------------------------
(***************************************************************************)
(* Design check of Hash.tla: every world over N chunks (all import graphs, *)
(* cycles included) and one asset, every option combination, and every     *)
(* single-atom edit and single-option edit (public path switched on, asset *)
(* name template, source map mode, legal comment mode).  One state = one   *)
(* (world, edit) pair.                                                     *)
(*                                                                         *)
(* The three name templates (entry, chunk, asset) contain [hash] or not    *)
(* independently (hE, hK, hA); the asset is named by the asset template or *)
(* (ae: a copied entry point) by the entry template.                       *)
(*                                                                         *)
(* drop = {} and lih = mih = TRUE is the design: all five properties must  *)
(* hold (AllHold).  Every other variant is a MUTANT of the naming          *)
(* function (one ingredient left out of the hashes): its failing classes   *)
(* are exported, which shows that each ingredient is necessary and which   *)
(* single-atom edit reveals that it is missing.                            *)
(***************************************************************************)
EXTENDS Hash, Json

CONSTANTS N,                  \* number of chunks
          SMs, Legals,        \* option values explored
          HEs, HKs, HAs,      \* the entry / chunk / asset template has [hash]
          PPs, LVs,           \* public path set, legal comment present
          LIHs, MIHs,         \* repairs (see Hash.tla)
          DROPs,              \* the sets of ingredients left out (design: {})
          CSSs,               \* is chunk 1 a CSS chunk
          AEs                 \* is the asset a copied entry point (named by the entry template, always emitted)

Chunks == 1..N
Assets == {"x"}

Opts == [hE : HEs, hK : HKs, hA : HAs, pp : PPs, sm : SMs, legal : Legals, lv : LVs, lih : LIHs, mih : MIHs,
         drop : DROPs, css : CSSs, ae : AEs]

Graphs == {f \in [Chunks -> SUBSET Chunks] : \A c \in Chunks : c \notin f[c]}

World(o, imp, aref) ==
  [ chunks |-> Chunks, assets |-> Assets, names |-> <<>>, imp |-> imp, aref |-> aref,
    th |-> [t \in Templates |-> CASE t = "entry" -> o.hE [] t = "chunk" -> o.hK [] OTHER -> o.hA],
    tplC |-> [c \in Chunks |-> IF c <= 2 THEN "entry" ELSE "chunk"],
    tplA |-> [a \in Assets |-> IF o.ae THEN "entry" ELSE "asset"],
    pp |-> o.pp, sm |-> o.sm, legal |-> o.legal, lih |-> o.lih, mih |-> o.mih, drop |-> o.drop,
    css |-> [c \in Chunks |-> o.css /\ c = 1],
    fake |-> [c \in Chunks |-> c = 1],
    code |-> [c \in Chunks |-> 0], parts |-> [c \in Chunks |-> 0], tmpl |-> [c \in Chunks |-> 0],
    smP |-> [c \in Chunks |-> 0], smM |-> [c \in Chunks |-> 0], smS |-> [c \in Chunks |-> 0],
    legalv |-> [c \in Chunks |-> o.lv], ppv |-> 0, atpl |-> [a \in Assets |-> 0],
    abytes |-> [a \in Assets |-> 0] ]

Edits(w) ==
  {[k |-> kk, c |-> c] : kk \in {"code", "parts", "tmpl", "smP", "smM", "smS", "legal"}, c \in w.chunks}
  \cup (IF w.pp THEN {[k |-> "pp"]} ELSE {[k |-> "ppon"]})
  \cup {[k |-> "asset", a |-> a] : a \in EmittedAssets(w)}
  \cup {[k |-> "atpl", a |-> a] : a \in EmittedAssets(w)}
  \cup {[k |-> "smmode", to |-> t] : t \in SMs \ {w.sm}}
  \cup {[k |-> "legalmode", to |-> t] : t \in Legals \ {w.legal}}
  \cup UNION {{[k |-> "import", c |-> c, d |-> d] : d \in {x \in w.chunks : x # c /\ x \notin w.imp[c]}} : c \in w.chunks}

\* the options are chosen in the initial state, the graph and the edit in one
\* step (so that TLC's workers share the work)
VARIABLES o, w, e
vars == <<o, w, e>>
NoWorld == [chunks |-> {}]
Init == o \in Opts /\ w = NoWorld /\ e = [k |-> "none"]
Next == /\ w = NoWorld
        /\ \E imp \in Graphs, aref \in [Chunks -> SUBSET Assets] :
              /\ w' = World(o, imp, aref)
              /\ e' \in Edits(w')
        /\ o' = o
Spec == Init /\ [][Next]_vars
Chosen == w # NoWorld

W2 == Apply1(w, e)
Design == w.lih /\ w.mih /\ w.drop = {}

\* all four properties in one pass (the files of both worlds are computed once)
AllHold == (Chosen /\ Design) => Failing(w, W2) = {}
InvSamePathSameBytes == Chosen => SamePathSameBytes(w, W2)
InvChangePropagates == Chosen => ChangePropagates(w, W2)
InvRefsResolve == Chosen => (RefsResolve(w) /\ RefsResolve(W2))
InvNoPlaceholderSurvives == Chosen => (NoPlaceholderSurvives(w) /\ NoPlaceholderSurvives(W2))
InvNoEmptyHash == Chosen => (NoEmptyHash(w) /\ NoEmptyHash(W2))

\* the edit really changes some emitted bytes in at least some worlds (the checks are not vacuous)
Effective == {[p |-> f.path, b |-> f.q_bytes] : f \in Files(w)} # {[p |-> f.path, b |-> f.q_bytes] : f \in Files(W2)}

\* export for the mutants (and for the transcription of the code before a
\* repair): which classes of (edit, options) falsify which property on the
\* model (guard 3: candidates to be reproduced on the real code, not verdicts)
Variant == IF w.drop # {} THEN w.drop ELSE (IF ~w.lih THEN {"lih"} ELSE {}) \cup (IF ~w.mih THEN {"mih"} ELSE {})
Report ==
  LET F == IF Chosen /\ ~Design THEN Failing(w, W2) ELSE {}
  IN F = {} \/ PrintT(<<"CASE", ToJson([edit |-> e.k, legal |-> w.legal, sm |-> w.sm, lv |-> w.legalv[1], failing |-> F, variant |-> Variant])>>)
=============================================================================
