-------------------------------- MODULE JsSem --------------------------------
(***************************************************************************)
(* C03 reference semantics: big-step evaluation of an expression and       *)
(* statement fragment of ECMAScript whose observable behaviour is a PROBE  *)
(* TRACE plus a completion.                                                *)
(*                                                                         *)
(* Host interface (the same objects exist in node/run_probes.js):          *)
(*   p(i, args...)  probe: appends <p, i, args> to the trace and returns   *)
(*                  the environment's value pv[i]; the MaxCalls-th call    *)
(*                  throws a Budget error (this bounds every loop)         *)
(*   o              recorder object: get/set/delete of its properties are  *)
(*                  trace events (a Proxy in Node)                         *)
(*   a, b           function parameters (values of the environment)        *)
(*   G              a global that the environment declares or not          *)
(*   objects        Obj(1) plain {}, Obj(2) valueOf -> 0, Obj(3) valueOf   *)
(*                  -> "a"; a valueOf call is a trace event; Obj(4) has    *)
(*                  an own toString -> "b" (a trace event) and the         *)
(*                  inherited valueOf                                      *)
(*                                                                         *)
(* Transcribed from ECMA-262 (13.x expression evaluation, 14.x statement   *)
(* completion records, 7.1.1 ToPrimitive, 7.3.x property access), not from *)
(* esbuild.  Value-level operators come from JsFold; a result that JsFold  *)
(* does not define exactly makes the whole evaluation "unk" (the case is   *)
(* then judged by V8 only).                                                *)
(***************************************************************************)
EXTENDS JsFold

CONSTANT MaxCalls          \* probe budget per run

(* ------------------------------------------------------------------ *)
(* abstract syntax: one record shape for every node                   *)
(* ------------------------------------------------------------------ *)
Node(k, op, n, v, a) == [k |-> k, op |-> op, n |-> n, v |-> v, a |-> a]
None         == Node("none", "", 0, Undef, <<>>)
\* expressions
ELit(v)      == Node("lit", "", 0, v, <<>>)
EProbe(i)    == Node("probe", "", i, Undef, <<>>)          \* p(i)
EProbeA(i, args) == Node("probe", "", i, Undef, args)      \* p(i, args...)
EVar(nm)     == Node("var", nm, 0, Undef, <<>>)            \* parameter a, b or local x, y, i, e
EGlob        == Node("glob", "G", 0, Undef, <<>>)          \* the maybe-undeclared global G
ERec         == Node("rec", "o", 0, Undef, <<>>)           \* the recorder object o
EUn(op, e)   == Node("un", op, 0, Undef, <<e>>)
EBin(op, l, r) == Node("bin", op, 0, Undef, <<l, r>>)
ELog(op, l, r) == Node("log", op, 0, Undef, <<l, r>>)
ECond(c, t, f) == Node("cond", "", 0, Undef, <<c, t, f>>)
EComma(l, r) == Node("comma", "", 0, Undef, <<l, r>>)
EAsg(op, t, e) == Node("asg", op, 0, Undef, <<t, e>>)      \* t: var | mem | idx
EMem(b)      == Node("mem", "k", 0, Undef, <<b>>)          \* b.k
EOptMem(b)   == Node("optmem", "k", 0, Undef, <<b>>)       \* b?.k
EIdx(b, k)   == Node("idx", "", 0, Undef, <<b, k>>)        \* b[k]
EDel(t)      == Node("del", "", 0, Undef, <<t>>)           \* delete t
EHCall(f, args) == Node("hcall", f, 0, Undef, args)        \* host function call: f(args) | console.log(args)
EDef         == Node("gdef", "DEF", 0, Undef, <<>>)        \* the global DEF (the subject of a `define`; undeclared in the host)
ETpl(h, e)   == Node("tpl", h, 0, Undef, <<e>>)            \* template literal `h${e}`, h = "" | "a"
ESpread1(e)  == Node("sprd", "", 0, Undef, <<e>>)          \* ...[e] in argument position (one-element array literal spread)
ECConst(nm, v) == Node("cconst", nm, 0, v, <<>>)           \* a constant binding nm = v that lives OUTSIDE the function: a const of
                                                           \* another module / an enum member / a define key (13.1: evaluates to v)
\* statements
SExpr(e)     == Node("expr", "", 0, Undef, <<e>>)
SRet(e)      == Node("ret", "", 0, Undef, <<e>>)
SRet0        == Node("ret", "", 0, Undef, <<>>)
SThrow(e)    == Node("throw", "", 0, Undef, <<e>>)
SDecl(kind, nm, e) == Node("decl", nm, kind, Undef, <<e>>) \* kind 0 var, 1 let, 2 const
SIf(c, t)    == Node("if", "", 0, Undef, <<c, t>>)
SIfElse(c, t, f) == Node("if", "", 0, Undef, <<c, t, f>>)
SBlock(ss)   == Node("block", "", 0, Undef, ss)
SWhile(c, b) == Node("while", "", 0, Undef, <<c, b>>)
SDoWhile(b, c) == Node("dowhile", "", 0, Undef, <<b, c>>)
SFor(i, c, u, b) == Node("for", "", 0, Undef, <<i, c, u, b>>)   \* i: statement or None; c, u: expression or None
SBreak(l)    == Node("break", l, 0, Undef, <<>>)
SContinue(l) == Node("continue", l, 0, Undef, <<>>)
SLabel(l, s) == Node("label", l, 0, Undef, <<s>>)
SSwitch(d, cs) == Node("switch", "", 0, Undef, <<d>> \o cs)
SCase(t, ss) == Node("case", "", 0, Undef, <<t>> \o ss)
SDefault(ss) == Node("default", "", 0, Undef, ss)
STry(b, c, f) == Node("try", "e", 0, Undef, <<b, c, f>>)   \* c, f: block or None; catch parameter e
SEmpty       == Node("empty", "", 0, Undef, <<>>)
SDebugger    == Node("debugger", "", 0, Undef, <<>>)
STryP(nm, b, c, f) == Node("try", nm, 0, Undef, <<b, c, f>>)   \* catch parameter nm

(* ------------------------------------------------------------------ *)
(* host objects, environments, machine state                          *)
(* ------------------------------------------------------------------ *)
Undecl == Val("undecl", 0, <<>>, <<>>)       \* G is not declared
Absent == Val("absent", 0, <<>>, <<>>)       \* o.k does not exist
RecId  == 9
RecV   == Obj(RecId)
ObjDef(id) == CASE id = 1 -> [kind |-> "plain", v |-> Undef]
                [] id = 2 -> [kind |-> "valueOf", v |-> PZero]
                [] id = 3 -> [kind |-> "valueOf", v |-> Str(<<97>>)]
                [] id = 4 -> [kind |-> "toString", v |-> Str(<<98>>)]   \* own toString (recorded), inherited valueOf
ObjIds == {1, 2, 3, 4}
KeyK   == CU("k")
VarNames == {"a", "b", "x", "y", "i", "e", "DEF"}     \* DEF: a LOCAL that shadows the global DEF
NProbes  == 9                                 \* pv has NProbes entries

Event(e, i, k, v) == [e |-> e, i |-> i, k |-> k, v |-> v]

\* env = [pv |-> <<value per probe>>, a |-> v, b |-> v, g |-> v | Undecl, ok |-> v | Absent]
InitState(env) ==
  [tr |-> <<>>, calls |-> 0, pv |-> env.pv, g |-> env.g,
   vars |-> [nm \in VarNames |-> IF nm = "a" THEN env.a ELSE IF nm = "b" THEN env.b ELSE Undef],
   os |-> IF env.ok.t = "absent" THEN <<>> ELSE << <<KeyK, env.ok>> >>]

Push(st, ev) == [st EXCEPT !.tr = Append(@, ev)]

RECURSIVE OsGet(_, _)
OsGet(os, k) == IF os = <<>> THEN Undef ELSE IF os[1][1] = k THEN os[1][2] ELSE OsGet(Tail(os), k)
RECURSIVE OsDel(_, _)
OsDel(os, k) == IF os = <<>> THEN <<>> ELSE IF os[1][1] = k THEN Tail(os) ELSE <<os[1]>> \o OsDel(Tail(os), k)
OsPut(os, k, v) == OsDel(os, k) \o << <<k, v>> >>

(* ------------------------------------------------------------------ *)
(* expression evaluation: R(c, v, st), c in {"val", "throw", "unk"}   *)
(* ------------------------------------------------------------------ *)
R(c, v, st) == [c |-> c, v |-> v, st |-> st]
FromV(v, st) == IF v.t = "unk" THEN R("unk", Unk, st)
                ELSE IF v.t = "err" THEN R("throw", v, st)
                ELSE R("val", v, st)

(* 7.1.1 ToPrimitive: grid objects have no Symbol.toPrimitive; hint "string" tries
   toString first (inherited: "[object Object]"), otherwise valueOf first *)
ToPrimR(v, hint, st) ==
  IF v.t # "obj" THEN R("val", v, st)
  ELSE IF v.sg \notin ObjIds THEN R("unk", Unk, st)          \* the recorder object: outside the fragment
  ELSE LET d == ObjDef(v.sg)
       IN IF d.kind = "toString"      \* OrdinaryToPrimitive: toString first (hint string), or after the inherited valueOf returned the object
          THEN R("val", d.v, Push(st, Event("toString", v.sg, <<>>, <<>>)))
          ELSE IF d.kind = "valueOf" /\ hint # "string"
          THEN R("val", d.v, Push(st, Event("valueOf", v.sg, <<>>, <<>>)))
          ELSE R("val", Str(CU("[object Object]")), st)

BaseOp(op) == CASE op = "+=" -> "+" [] op = "-=" -> "-" [] op = "*=" -> "*" [] op = "/=" -> "/"
                [] op = "%=" -> "%" [] op = "**=" -> "**" [] op = "<<=" -> "<<" [] op = ">>=" -> ">>"
                [] op = ">>>=" -> ">>>" [] op = "&=" -> "&" [] op = "|=" -> "|" [] op = "^=" -> "^"
CompoundOps == {"+=", "-=", "*=", "/=", "%=", "**=", "<<=", ">>=", ">>>=", "&=", "|=", "^="}
LogAsgOps   == {"&&=", "||=", "??="}
AsgOps      == {"="} \cup CompoundOps \cup LogAsgOps

(* a binary value operator applied to two evaluated operands *)
BinR(op, lv, rv, st) ==
  IF op \in {"===", "!=="} THEN FromV(BinPrim(op, lv, rv), st)
  ELSE IF op \in {"==", "!="} /\ lv.t = "obj" /\ rv.t = "obj"
       THEN FromV(BinPrim(IF op = "==" THEN "===" ELSE "!==", lv, rv), st)
  ELSE IF op \in {"==", "!="} /\ ((lv.t = "obj" /\ Nullish(rv)) \/ (rv.t = "obj" /\ Nullish(lv)))
       THEN R("val", Bool(op = "!="), st)
  ELSE LET hint == IF op \in {"+", "==", "!="} THEN "default" ELSE "number"
           lp == ToPrimR(lv, hint, st)
       IN IF lp.c # "val" THEN lp
          ELSE LET rp == ToPrimR(rv, hint, lp.st)
               IN IF rp.c # "val" THEN rp
                  ELSE FromV(BinPrim(op, lp.v, rp.v), rp.st)

NoRef == [rk |-> "none", nm |-> "", base |-> Undef, key |-> <<>>]
RR(c, v, ref, st) == [c |-> c, v |-> v, ref |-> ref, st |-> st]

(* GetValue / PutValue on a resolved reference *)
GetRef(ref, st) ==
  IF ref.rk = "var" THEN R("val", st.vars[ref.nm], st)
  ELSE IF ref.rk # "prop" THEN R("unk", Unk, st)
  ELSE IF Nullish(ref.base) THEN R("throw", TypeErr, st)
  ELSE IF ref.base = RecV THEN R("val", OsGet(st.os, ref.key), Push(st, Event("get", 0, ref.key, <<>>)))
  ELSE IF ref.key = KeyK /\ ref.base.t \notin {"unk", "err"} THEN R("val", Undef, st)   \* no value of the grid has a property "k"
  ELSE R("unk", Unk, st)

PutRef(ref, v, st) ==
  IF ref.rk = "var" THEN R("val", v, [st EXCEPT !.vars[ref.nm] = v])
  ELSE IF ref.rk = "prop" /\ ref.base = RecV
       THEN R("val", v, [Push(st, Event("set", 0, ref.key, <<v>>)) EXCEPT !.os = OsPut(@, ref.key, v)])
  ELSE R("unk", Unk, st)     \* assignment to a property of a primitive (strict/sloppy differ): not generated

PropKeyOf(v) == IF v.t = "obj" THEN (IF v.sg \in {1, 2, 3} THEN Str(CU("[object Object]")) ELSE Unk)
                ELSE ToStr(v)

RECURSIVE Ev(_, _)
RECURSIVE EvList(_, _)
RECURSIVE EvRef(_, _)

EvList(es, st) ==
  IF es = <<>> THEN [c |-> "val", v |-> Undef, vs |-> <<>>, st |-> st]
  ELSE LET h == Ev(Head(es), st)
       IN IF h.c # "val" THEN [c |-> h.c, v |-> h.v, vs |-> <<>>, st |-> h.st]
          ELSE LET t == EvList(Tail(es), h.st)
               IN [c |-> t.c, v |-> t.v, vs |-> <<h.v>> \o t.vs, st |-> t.st]

EvRef(t, st) ==
  CASE t.k = "var" -> RR("val", Undef, [rk |-> "var", nm |-> t.op, base |-> Undef, key |-> <<>>], st)
    [] t.k \in {"mem", "optmem"} ->
         LET b == Ev(t.a[1], st)
         IN RR(b.c, b.v, [rk |-> "prop", nm |-> "", base |-> b.v, key |-> KeyK], b.st)
    [] t.k = "idx" ->
         LET b == Ev(t.a[1], st)
         IN IF b.c # "val" THEN RR(b.c, b.v, NoRef, b.st)
            ELSE LET kx == Ev(t.a[2], b.st)
                 IN IF kx.c # "val" THEN RR(kx.c, kx.v, NoRef, kx.st)
                    ELSE LET ks == PropKeyOf(kx.v)
                         IN IF ks.t # "str" THEN RR("unk", Unk, NoRef, kx.st)
                            ELSE RR("val", Undef, [rk |-> "prop", nm |-> "", base |-> b.v, key |-> ks.s], kx.st)
    [] OTHER -> RR("unk", Unk, NoRef, st)

Ev(e, st) ==
  CASE e.k = "lit"  -> R("val", e.v, st)
    [] e.k = "var"  -> R("val", st.vars[e.op], st)
    [] e.k = "rec"  -> R("val", RecV, st)
    [] e.k = "glob" -> IF st.g.t = "undecl" THEN R("throw", RefErr, st) ELSE R("val", st.g, st)
    [] e.k = "probe" ->
         LET as == EvList(e.a, st)
         IN IF as.c # "val" THEN R(as.c, as.v, as.st)
            ELSE LET st1 == [as.st EXCEPT !.tr = Append(@, Event("p", e.n, <<>>, as.vs)), !.calls = @ + 1]
                 IN IF st1.calls >= MaxCalls THEN R("throw", Err(3), st1)
                    ELSE R("val", st1.pv[e.n], st1)
    [] e.k = "gdef" -> R("throw", RefErr, st)             \* DEF is not declared by the host
    [] e.k = "hcall" ->                                    \* host functions: f returns its first argument, console.log undefined
         LET as == EvList(e.a, st)
         IN IF as.c # "val" THEN R(as.c, as.v, as.st)
            ELSE R("val", IF e.op = "f" /\ as.vs # <<>> THEN as.vs[1] ELSE Undef,
                   [as.st EXCEPT !.tr = Append(@, Event(e.op, 0, <<>>, as.vs))])
    [] e.k = "un" ->
         IF e.op = "typeof" /\ e.a[1].k = "gdef" THEN R("val", Str(CU("undefined")), st)
         ELSE IF e.op = "typeof" /\ e.a[1].k = "glob" /\ st.g.t = "undecl"
         THEN R("val", Str(CU("undefined")), st)          \* typeof of an unresolvable reference
         ELSE LET r == Ev(e.a[1], st)
              IN IF r.c # "val" THEN r
                 ELSE IF e.op \in {"typeof", "!", "void"} THEN FromV(UnPrim(e.op, r.v), r.st)
                 ELSE LET p == ToPrimR(r.v, "number", r.st)
                      IN IF p.c # "val" THEN p ELSE FromV(UnPrim(e.op, p.v), p.st)
    [] e.k = "bin" ->
         LET l == Ev(e.a[1], st)
         IN IF l.c # "val" THEN l
            ELSE LET r == Ev(e.a[2], l.st)
                 IN IF r.c # "val" THEN r ELSE BinR(e.op, l.v, r.v, r.st)
    [] e.k = "log" ->
         LET l == Ev(e.a[1], st)
         IN IF l.c # "val" THEN l
            ELSE LET short == CASE e.op = "&&" -> ~Truthy(l.v)
                                [] e.op = "||" -> Truthy(l.v)
                                [] e.op = "??" -> ~Nullish(l.v)
                 IN IF short THEN l ELSE Ev(e.a[2], l.st)
    [] e.k = "cond" ->
         LET c == Ev(e.a[1], st)
         IN IF c.c # "val" THEN c
            ELSE IF Truthy(c.v) THEN Ev(e.a[2], c.st) ELSE Ev(e.a[3], c.st)
    [] e.k = "comma" ->
         LET l == Ev(e.a[1], st)
         IN IF l.c # "val" THEN l ELSE Ev(e.a[2], l.st)
    [] e.k = "mem" ->
         LET rr == EvRef(e, st)
         IN IF rr.c # "val" THEN R(rr.c, rr.v, rr.st) ELSE GetRef(rr.ref, rr.st)
    [] e.k = "idx" ->
         LET rr == EvRef(e, st)
         IN IF rr.c # "val" THEN R(rr.c, rr.v, rr.st) ELSE GetRef(rr.ref, rr.st)
    [] e.k = "optmem" ->
         LET rr == EvRef(e, st)
         IN IF rr.c # "val" THEN R(rr.c, rr.v, rr.st)
            ELSE IF Nullish(rr.ref.base) THEN R("val", Undef, rr.st)     \* the chain short-circuits
            ELSE GetRef(rr.ref, rr.st)
    [] e.k = "del" ->
         LET t == e.a[1]
         IN IF t.k \in {"mem", "idx", "optmem"}
            THEN LET rr == EvRef(t, st)
                 IN IF rr.c # "val" THEN R(rr.c, rr.v, rr.st)
                    ELSE IF Nullish(rr.ref.base)
                         THEN (IF t.k = "optmem" THEN R("val", True, rr.st) ELSE R("throw", TypeErr, rr.st))
                    ELSE IF rr.ref.base = RecV
                         THEN R("val", True, [Push(rr.st, Event("del", 0, rr.ref.key, <<>>)) EXCEPT !.os = OsDel(@, rr.ref.key)])
                    ELSE IF rr.ref.key = KeyK THEN R("val", True, rr.st)
                    ELSE R("unk", Unk, rr.st)
            ELSE LET r == Ev(t, st)                       \* delete of a non-reference: evaluate, true
                 IN IF r.c # "val" THEN r ELSE R("val", True, r.st)
    [] e.k = "asg" ->
         LET rr == EvRef(e.a[1], st)
         IN IF rr.c # "val" THEN R(rr.c, rr.v, rr.st)
            ELSE IF e.op = "="
            THEN LET r == Ev(e.a[2], rr.st)
                 IN IF r.c # "val" THEN r ELSE PutRef(rr.ref, r.v, r.st)
            ELSE LET old == GetRef(rr.ref, rr.st)
                 IN IF old.c # "val" THEN old
                    ELSE IF e.op \in LogAsgOps
                    THEN LET short == CASE e.op = "&&=" -> ~Truthy(old.v)
                                        [] e.op = "||=" -> Truthy(old.v)
                                        [] e.op = "??=" -> ~Nullish(old.v)
                         IN IF short THEN old
                            ELSE LET r == Ev(e.a[2], old.st)
                                 IN IF r.c # "val" THEN r ELSE PutRef(rr.ref, r.v, r.st)
                    ELSE LET r == Ev(e.a[2], old.st)
                         IN IF r.c # "val" THEN r
                            ELSE LET x == BinR(BaseOp(e.op), old.v, r.v, r.st)
                                 IN IF x.c # "val" THEN x ELSE PutRef(rr.ref, x.v, x.st)
    [] e.k = "tpl" ->                                      \* 13.2.8.6: ToString(value), hint string for objects
         LET r == Ev(e.a[1], st)
         IN IF r.c # "val" THEN r
            ELSE LET p == ToPrimR(r.v, "string", r.st)
                 IN IF p.c # "val" THEN p
                    ELSE LET s == ToStr(p.v)
                         IN IF s.t # "str" THEN R("unk", Unk, p.st)
                            ELSE R("val", Str((IF e.op = "a" THEN <<97>> ELSE <<>>) \o s.s), p.st)
    [] e.k = "sprd"   -> Ev(e.a[1], st)                    \* f(...[x]) passes x
    [] e.k = "cconst" -> R("val", e.v, st)
    [] OTHER -> R("unk", Unk, st)

(* ------------------------------------------------------------------ *)
(* statements: completion records C(c, v, l, st)                      *)
(*   c in {"normal", "return", "throw", "break", "continue", "unk"}   *)
(* ------------------------------------------------------------------ *)
C(c, v, l, st) == [c |-> c, v |-> v, l |-> l, st |-> st]
OfExpr(r) == C(IF r.c = "val" THEN "normal" ELSE r.c, r.v, "", r.st)   \* abrupt expression result as a completion

RECURSIVE Ex(_, _, _)
RECURSIVE ExSeq(_, _, _)
RECURSIVE Loop(_, _, _, _, _, _)
RECURSIVE SwFind(_, _, _, _)
RECURSIVE SwRun(_, _, _)

ExSeq(ss, i, st) ==
  IF i > Len(ss) THEN C("normal", Undef, "", st)
  ELSE LET r == Ex(ss[i], st, {})
       IN IF r.c # "normal" THEN r ELSE ExSeq(ss, i + 1, r.st)

(* while / do-while / for share one loop: test (None = true), body, update (None);
   L = the label set of the loop statement (targets of "continue L") *)
Loop(test, body, upd, st, L, skipTest) ==
  LET t == IF skipTest \/ test.k = "none" THEN R("val", True, st) ELSE Ev(test, st)
  IN IF t.c # "val" THEN OfExpr(t)
     ELSE IF ~Truthy(t.v) THEN C("normal", Undef, "", t.st)
     ELSE LET b == Ex(body, t.st, {})
          IN IF b.c = "break" /\ b.l = "" THEN C("normal", Undef, "", b.st)
             ELSE IF b.c = "normal" \/ (b.c = "continue" /\ (b.l = "" \/ b.l \in L))
             THEN LET u == IF upd.k = "none" THEN R("val", Undef, b.st) ELSE Ev(upd, b.st)
                  IN IF u.c # "val" THEN OfExpr(u)
                     ELSE Loop(test, body, upd, u.st, L, FALSE)
             ELSE b

(* switch: clauses cs (after the discriminant); first pass finds the first
   case (in source order, default skipped) whose test is strictly equal *)
SwFind(cs, i, dv, st) ==
  IF i > Len(cs) THEN [c |-> "val", v |-> Undef, idx |-> 0, st |-> st]
  ELSE IF cs[i].k = "default" THEN SwFind(cs, i + 1, dv, st)
  ELSE LET t == Ev(cs[i].a[1], st)
       IN IF t.c # "val" THEN [c |-> t.c, v |-> t.v, idx |-> 0, st |-> t.st]
          ELSE LET q == StrictEq(dv, t.v)
               IN IF q = "unk" THEN [c |-> "unk", v |-> Unk, idx |-> 0, st |-> t.st]
                  ELSE IF q = "t" THEN [c |-> "val", v |-> Undef, idx |-> i, st |-> t.st]
                  ELSE SwFind(cs, i + 1, dv, t.st)
ClauseBody(cl) == IF cl.k = "default" THEN cl.a ELSE Tail(cl.a)
SwRun(cs, i, st) ==
  IF i > Len(cs) THEN C("normal", Undef, "", st)
  ELSE LET r == ExSeq(ClauseBody(cs[i]), 1, st)
       IN IF r.c # "normal" THEN r ELSE SwRun(cs, i + 1, r.st)

Ex(s, st, L) ==
  CASE s.k = "expr"  -> LET r == Ev(s.a[1], st) IN C(IF r.c = "val" THEN "normal" ELSE r.c, IF r.c = "val" THEN Undef ELSE r.v, "", r.st)
    [] s.k \in {"empty", "debugger"} -> C("normal", Undef, "", st)
    [] s.k = "ret"   -> IF s.a = <<>> THEN C("return", Undef, "", st)
                        ELSE LET r == Ev(s.a[1], st) IN C(IF r.c = "val" THEN "return" ELSE r.c, r.v, "", r.st)
    [] s.k = "throw" -> LET r == Ev(s.a[1], st) IN C(IF r.c = "val" THEN "throw" ELSE r.c, r.v, "", r.st)
    [] s.k = "decl"  -> IF s.a[1].k = "none" THEN C("normal", Undef, "", st)
                        ELSE LET r == Ev(s.a[1], st)
                             IN IF r.c # "val" THEN OfExpr(r)
                                ELSE C("normal", Undef, "", [r.st EXCEPT !.vars[s.op] = r.v])
    [] s.k = "if"    -> LET t == Ev(s.a[1], st)
                        IN IF t.c # "val" THEN OfExpr(t)
                           ELSE IF Truthy(t.v) THEN Ex(s.a[2], t.st, {})
                           ELSE IF Len(s.a) = 3 THEN Ex(s.a[3], t.st, {})
                           ELSE C("normal", Undef, "", t.st)
    [] s.k = "block" -> ExSeq(s.a, 1, st)
    [] s.k = "while" -> Loop(s.a[1], s.a[2], None, st, L, FALSE)
    [] s.k = "dowhile" -> Loop(s.a[2], s.a[1], None, st, L, TRUE)
    [] s.k = "for"   -> LET i == IF s.a[1].k = "none" THEN C("normal", Undef, "", st) ELSE Ex(s.a[1], st, {})
                        IN IF i.c # "normal" THEN i ELSE Loop(s.a[2], s.a[4], s.a[3], i.st, L, FALSE)
    [] s.k = "break"    -> C("break", Undef, s.op, st)
    [] s.k = "continue" -> C("continue", Undef, s.op, st)
    [] s.k = "label" -> LET r == Ex(s.a[1], st, L \cup {s.op})
                        IN IF r.c = "break" /\ r.l = s.op THEN C("normal", Undef, "", r.st) ELSE r
    [] s.k = "switch" ->
         LET d == Ev(s.a[1], st)
         IN IF d.c # "val" THEN OfExpr(d)
            ELSE LET cs == Tail(s.a)
                     f  == SwFind(cs, 1, d.v, d.st)
                 IN IF f.c # "val" THEN C(f.c, f.v, "", f.st)
                    ELSE LET dflt  == {i \in 1..Len(cs) : cs[i].k = "default"}
                             start == IF f.idx # 0 THEN f.idx
                                      ELSE IF dflt # {} THEN CHOOSE i \in dflt : TRUE ELSE 0
                             r == IF start = 0 THEN C("normal", Undef, "", f.st) ELSE SwRun(cs, start, f.st)
                         IN IF r.c = "break" /\ r.l = "" THEN C("normal", Undef, "", r.st) ELSE r
    [] s.k = "try" ->
         LET b  == Ex(s.a[1], st, {})
             b2 == IF b.c = "throw" /\ s.a[2].k # "none"
                   THEN Ex(s.a[2], [b.st EXCEPT !.vars[s.op] = b.v], {})
                   ELSE b
         IN IF s.a[3].k = "none" \/ b2.c = "unk" THEN b2
            ELSE LET f == Ex(s.a[3], b2.st, {})
                 IN IF f.c # "normal" THEN f ELSE C(b2.c, b2.v, b2.l, f.st)
    [] OTHER -> C("unk", Unk, "", st)

(* a program is the body of  function (a, b) { ... } *)
Run(prog, env) ==
  LET r == ExSeq(prog, 1, InitState(env))
  IN [c  |-> IF r.c \in {"normal", "return"} THEN "ret" ELSE IF r.c = "throw" THEN "throw" ELSE "unk",
      v  |-> IF r.c = "normal" THEN Undef ELSE r.v,
      tr |-> r.st.tr]

(* ------------------------------------------------------------------ *)
(* peephole pattern classes: labelled predicates on programs          *)
(* ------------------------------------------------------------------ *)
RECURSIVE Sub(_)
Sub(n) == {n} \cup UNION {Sub(n.a[i]) : i \in 1..Len(n.a)}
SubP(prog) == UNION {Sub(prog[i]) : i \in 1..Len(prog)}

IsJump(s) == s.k \in {"ret", "throw", "break", "continue"}
EndsInJump(s) == IsJump(s) \/ (s.k = "block" /\ Len(s.a) > 0 /\ IsJump(s.a[Len(s.a)]))
KnownLit(x) == x.k = "lit" \/ (x.k = "un" /\ x.op \in {"!", "void", "-", "+"} /\ x.a[1].k = "lit")
IsNullishLit(x) == x.k = "lit" /\ Nullish(x.v)
Uses(n, nm) == Cardinality({m \in Sub(n) : m.k = "var" /\ m.op = nm})     \* distinct occurrences are equal records: 0 or 1
HasEffect(n) == \E m \in Sub(n) : m.k \in {"probe", "asg", "mem", "idx", "optmem", "del", "glob"}
Stmts(n) == IF n.k \in {"block", "default"} THEN n.a ELSE IF n.k = "case" THEN Tail(n.a) ELSE <<>>
StmtLists(prog) == {prog} \cup {Stmts(n) : n \in SubP(prog)}
TestOf(n) == IF n.k \in {"if", "while", "cond"} THEN n.a[1] ELSE IF n.k = "dowhile" THEN n.a[2]
             ELSE IF n.k = "for" THEN n.a[2] ELSE None

ClassNames == {"not-over-comparison", "known-truthiness", "if-with-jump", "single-use-substitution",
               "unused-expression", "typeof-guard", "optional-chain-nullish", "constant-fold",
               "compound-assignment", "logical-assignment", "boolean-context", "if-to-conditional",
               "dead-code-after-jump", "switch", "try", "loop", "label", "delete", "comma",
               "equality-with-literal", "nullish-compare", "double-negation", "property-access",
               "template", "outer-constant", "assignment-as-operand"}

Labels(prog) ==
  LET ns == SubP(prog)
      ls == StmtLists(prog)
  IN {c \in ClassNames :
        CASE c = "not-over-comparison" ->
               \E m \in ns : m.k = "un" /\ m.op = "!" /\ m.a[1].k = "bin" /\ m.a[1].op \in RelOps \cup EqOps
          [] c = "known-truthiness" ->
               \E m \in ns : m.k \in {"cond", "log", "if", "while"} /\ KnownLit(m.a[1])
          [] c = "if-with-jump" ->
               \E m \in ns : m.k = "if" /\ (EndsInJump(m.a[2]) \/ (Len(m.a) = 3 /\ EndsInJump(m.a[3])))
          [] c = "single-use-substitution" ->
               \E l \in ls : \E i \in 1..(Len(l) - 1) :
                  l[i].k = "decl" /\ l[i].a[1].k # "none" /\ Uses(l[i + 1], l[i].op) = 1
          [] c = "unused-expression" ->
               \/ \E m \in ns : m.k = "expr" /\ m.a[1].k \notin {"probe", "asg"}
               \/ \E m \in ns : m.k = "comma" /\ m.a[1].k \notin {"probe", "asg"}
          [] c = "typeof-guard" ->
               \E m \in ns : m.k = "bin" /\ m.op \in EqOps /\
                  \E i \in {1, 2} : m.a[i].k = "un" /\ m.a[i].op = "typeof" /\ m.a[i].a[1].k = "glob"
          [] c = "optional-chain-nullish" ->
               \/ \E m \in ns : m.k = "optmem" /\ IsNullishLit(m.a[1])
               \/ \E m \in ns : m.k = "cond" /\ m.a[1].k = "bin" /\ m.a[1].op \in EqOps
                                /\ (IsNullishLit(m.a[1].a[1]) \/ IsNullishLit(m.a[1].a[2]))
                                /\ (m.a[2].k = "mem" \/ m.a[3].k = "mem")
          [] c = "constant-fold" ->
               \E m \in ns : m.k \in {"bin", "un", "log"} /\ \A i \in 1..Len(m.a) : KnownLit(m.a[i])
          [] c = "compound-assignment" -> \E m \in ns : m.k = "asg" /\ m.op \in CompoundOps
          [] c = "logical-assignment"  -> \E m \in ns : m.k = "asg" /\ m.op \in LogAsgOps
          [] c = "boolean-context" ->
               \E m \in ns : TestOf(m).k \in {"log", "cond"} \/ (TestOf(m).k = "un" /\ TestOf(m).op = "!")
          [] c = "if-to-conditional" ->
               \E m \in ns : m.k = "if" /\ Len(m.a) = 3 /\ m.a[2].k \in {"expr", "ret"} /\ m.a[3].k = m.a[2].k
          [] c = "dead-code-after-jump" ->
               \E l \in ls : \E i \in 1..(Len(l) - 1) : IsJump(l[i])
          [] c = "switch" -> \E m \in ns : m.k = "switch"
          [] c = "try"    -> \E m \in ns : m.k = "try"
          [] c = "loop"   -> \E m \in ns : m.k \in {"while", "dowhile", "for"}
          [] c = "label"  -> \E m \in ns : m.k = "label"
          [] c = "delete" -> \E m \in ns : m.k = "del"
          [] c = "comma"  -> \E m \in ns : m.k = "comma"
          [] c = "equality-with-literal" ->
               \E m \in ns : m.k = "bin" /\ m.op \in EqOps /\ (m.a[1].k = "lit" \/ m.a[2].k = "lit")
          [] c = "nullish-compare" ->
               \E m \in ns : m.k = "bin" /\ m.op \in EqOps /\ (IsNullishLit(m.a[1]) \/ IsNullishLit(m.a[2]))
          [] c = "double-negation" ->
               \E m \in ns : m.k = "un" /\ m.op = "!" /\ m.a[1].k = "un" /\ m.a[1].op = "!"
          [] c = "property-access" -> \E m \in ns : m.k \in {"mem", "idx", "optmem"}
          [] c = "template" -> \E m \in ns : m.k = "tpl"
          [] c = "outer-constant" -> \E m \in ns : m.k = "cconst"
          [] c = "assignment-as-operand" ->
               \E m \in ns : m.k \in {"un", "bin", "log", "cond", "tpl", "if", "switch", "while"} /\ m.a[1].k = "asg"
     }

(* the classes the task statement names; each must be inhabited by the enumerated programs *)
RequiredClasses == {"not-over-comparison", "known-truthiness", "if-with-jump", "single-use-substitution",
                    "unused-expression", "typeof-guard", "optional-chain-nullish"}
=============================================================================
