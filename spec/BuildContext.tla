--------------------------- MODULE BuildContext ---------------------------
(***************************************************************************)
(* One esbuild build context (pkg/api/api_impl.go: internalContext) used   *)
(* by several concurrent callers.  One action per critical section of      *)
(* rebuild(), Cancel(), Dispose(), Watch() and per phase of rebuildImpl(). *)
(*                                                                         *)
(* The file system is abstracted to a version counter with a begin/end     *)
(* window (an edit is visible to a reader at the earliest when it began    *)
(* and at the latest when it ended).                                       *)
(*                                                                         *)
(* Properties (C20, part of C17/C09): see the INVARIANTS section.          *)
(***************************************************************************)
EXTENDS Integers, Sequences, FiniteSets, TLC

CONSTANTS Callers,      \* set of API callers (goroutines / clients)
          MaxOps,       \* number of API calls each caller makes
          MaxBuilds,    \* bound on the number of builds (state constraint)
          MaxEdits,     \* number of file-system edits by the environment
          NOnEnd,       \* number of registered on-end callbacks
          NOnStart,     \* number of registered on-start callbacks
          Modules,      \* module identities an on-load callback can be asked for
          Watcher,      \* a model value: the watch-mode goroutine as a caller
          Ops,          \* subset of {"rebuild", "cancel", "dispose", "watch"} the callers may issue
          TrackRecent   \* BOOLEAN: model ctx.recentBuild (only the dev server reads it)

None == 0
Builds == 1..MaxBuilds
AllCallers == Callers \cup {Watcher}

VARIABLES
  fsLo,      \* number of edits that have completed
  fsHi,      \* number of edits that have begun (fsLo <= fsHi <= fsLo + 1)
  disposed,  \* ctx.didDispose
  active,    \* ctx.activeBuild (None or a build id)
  recent,    \* ctx.recentBuild (None or a build id)
  nbuilds,   \* builds created so far
  build,     \* [Builds -> build record]
  call,      \* [AllCallers -> call record]
  left,      \* [Callers -> remaining API calls]
  watching,  \* ctx.watcher # nil
  wstopped   \* "no" | "requested" (watcher.shouldStop = 1) | "exited" (watcher goroutine gone)

vars == <<fsLo, fsHi, disposed, active, recent, nbuilds, build, call, left, watching, wstopped>>

Phases == {"new", "started", "scanned", "sampled", "compiled", "written", "onend", "ended", "published", "wgdone"}
Running == {"started", "scanned", "sampled", "compiled", "written", "onend", "ended"}
Outcomes == {"none", "ok", "errors", "cancelled"}

NoBuild == [phase |-> "new", cancel |-> FALSE, readLo |-> 0, readHi |-> 0, scanErr |-> FALSE,
            outcome |-> "none", onEndDone |-> 0, onEndFailed |-> FALSE, starter |-> Watcher, watch |-> FALSE,
            startBegun |-> 0, startEnded |-> 0, loaded |-> {}, sawCancel |-> FALSE]

IdleCall == [op |-> "none", pc |-> "idle", saw |-> None, enterLo |-> 0, ret |-> None, branch |-> "none"]

Init ==
  /\ fsLo = 0 /\ fsHi = 0
  /\ disposed = FALSE /\ active = None /\ recent = None /\ nbuilds = 0
  /\ build = [b \in Builds |-> NoBuild]
  /\ call = [c \in AllCallers |-> IdleCall]
  /\ left = [c \in Callers |-> MaxOps]
  /\ watching = FALSE /\ wstopped = "no"

(***************************************************************************)
(* Environment: edits of the project tree                                  *)
(***************************************************************************)
EditBegin ==
  /\ fsHi = fsLo /\ fsHi < MaxEdits
  /\ fsHi' = fsHi + 1
  /\ UNCHANGED <<fsLo, disposed, active, recent, nbuilds, build, call, left, watching, wstopped>>

EditEnd ==
  /\ fsHi = fsLo + 1
  /\ fsLo' = fsHi
  /\ UNCHANGED <<fsHi, disposed, active, recent, nbuilds, build, call, left, watching, wstopped>>

(***************************************************************************)
(* A caller issues an API call (before it reaches the mutex)               *)
(***************************************************************************)
Issue(c, op) ==
  /\ c \in Callers
  /\ call[c].pc = "idle" /\ left[c] > 0
  /\ op \in Ops
  /\ left' = [left EXCEPT ![c] = @ - 1]
  /\ call' = [call EXCEPT ![c] = [IdleCall EXCEPT !.op = op, !.pc = "called", !.enterLo = fsLo]]
  /\ UNCHANGED <<fsLo, fsHi, disposed, active, recent, nbuilds, build, watching, wstopped>>

\* The watcher goroutine calls ctx.rebuild() when it believes the tree is dirty
\* (or for the initial watch-mode build)
\* (the guard on nbuilds only keeps the bounded model from starving the
\* callers of build ids; it has no counterpart in the code)
PendingBudget == LET RECURSIVE Sum(_)
                     Sum(S) == IF S = {} THEN 0 ELSE LET x == CHOOSE x \in S : TRUE IN left[x] + Sum(S \ {x})
                 IN Sum(Callers) + Cardinality({c \in Callers : call[c].pc = "called"})
WatcherIssue ==
  /\ watching /\ wstopped = "no"
  /\ call[Watcher].pc = "idle"
  /\ nbuilds + PendingBudget < MaxBuilds
  /\ call' = [call EXCEPT ![Watcher] = [IdleCall EXCEPT !.op = "rebuild", !.pc = "called", !.enterLo = fsLo]]
  /\ UNCHANGED <<fsLo, fsHi, disposed, active, recent, nbuilds, build, left, watching, wstopped>>

(***************************************************************************)
(* rebuild(): first critical section (three-way branch)                    *)
(***************************************************************************)
RebuildEnterDisposed(c) ==
  /\ call[c].op = "rebuild" /\ call[c].pc = "called"
  /\ disposed
  /\ call' = [call EXCEPT ![c].pc = "returning", ![c].branch = "disposed"]
  /\ UNCHANGED <<fsLo, fsHi, disposed, active, recent, nbuilds, build, left, watching, wstopped>>

RebuildEnterJoin(c) ==
  /\ call[c].op = "rebuild" /\ call[c].pc = "called"
  /\ ~disposed /\ active # None
  /\ call' = [call EXCEPT ![c].pc = "waiting", ![c].saw = active, ![c].branch = "join"]
  /\ UNCHANGED <<fsLo, fsHi, disposed, active, recent, nbuilds, build, left, watching, wstopped>>

RebuildEnterStart(c) ==
  /\ call[c].op = "rebuild" /\ call[c].pc = "called"
  /\ ~disposed /\ active = None
  /\ nbuilds < MaxBuilds
  /\ LET b == nbuilds + 1 IN
       /\ nbuilds' = b
       /\ active' = b
       /\ build' = [build EXCEPT ![b] = [NoBuild EXCEPT !.phase = "started", !.readLo = fsLo,
                                                        !.starter = c, !.watch = watching]]
       /\ call' = [call EXCEPT ![c].pc = "building", ![c].saw = b, ![c].branch = "start"]
  /\ UNCHANGED <<fsLo, fsHi, disposed, recent, left, watching, wstopped>>

(***************************************************************************)
(* rebuildImpl(): the phases of one build, run by the starter              *)
(***************************************************************************)
\* Plugin callbacks during the scan.  ScanBundle starts every on-start
\* callback on its own goroutine and waits for all of them (also when the
\* build is cancelled) before anything is resolved or loaded; every module
\* identity is loaded at most once per build.
CbStartBegin(b) ==
  /\ build[b].phase = "started" /\ build[b].startBegun < NOnStart
  /\ build' = [build EXCEPT ![b].startBegun = @ + 1]
  /\ UNCHANGED <<fsLo, fsHi, disposed, active, recent, nbuilds, call, left, watching, wstopped>>

CbStartEnd(b) ==
  /\ build[b].phase = "started" /\ build[b].startEnded < build[b].startBegun
  /\ build' = [build EXCEPT ![b].startEnded = @ + 1]
  /\ UNCHANGED <<fsLo, fsHi, disposed, active, recent, nbuilds, call, left, watching, wstopped>>

CbResolve(b) ==
  /\ build[b].phase = "started" /\ build[b].startEnded = NOnStart
  /\ UNCHANGED vars

CbLoad(b, m) ==
  /\ build[b].phase = "started" /\ build[b].startEnded = NOnStart
  /\ m \notin build[b].loaded
  /\ build' = [build EXCEPT ![b].loaded = @ \cup {m}]
  /\ UNCHANGED <<fsLo, fsHi, disposed, active, recent, nbuilds, call, left, watching, wstopped>>

\* ScanBundle returned.  The tree the scan read is some version in
\* [readLo, readHi]; err says whether the log has errors after the scan.
ScanDone(b, err) ==
  /\ build[b].phase = "started"
  /\ build[b].startEnded = NOnStart
  /\ build' = [build EXCEPT ![b].phase = "scanned", ![b].readHi = fsHi, ![b].scanErr = err]
  /\ UNCHANGED <<fsLo, fsHi, disposed, active, recent, nbuilds, call, left, watching, wstopped>>

\* bundle.Compile returned and the (lock-free) cancel flag is sampled ...
CompileSample(b) ==
  /\ build[b].phase = "scanned"
  /\ build' = [build EXCEPT ![b].phase = "sampled", ![b].sawCancel = build[b].cancel]
  /\ UNCHANGED <<fsLo, fsHi, disposed, active, recent, nbuilds, call, left, watching, wstopped>>

\* ... and the outcome is decided from the sample (linkErr: the linker logged
\* errors).  After a scan with errors nothing is compiled.
CompileDone(b, linkErr) ==
  /\ build[b].phase = "sampled"
  /\ build[b].scanErr => ~linkErr
  /\ build' = [build EXCEPT ![b].phase = "compiled",
                            ![b].outcome = IF build[b].scanErr THEN "errors"
                                           ELSE IF build[b].sawCancel THEN "cancelled"
                                           ELSE IF linkErr THEN "errors" ELSE "ok"]
  /\ UNCHANGED <<fsLo, fsHi, disposed, active, recent, nbuilds, call, left, watching, wstopped>>

\* The write phase: files are written iff the outcome is "ok"
WriteDone(b) ==
  /\ build[b].phase = "compiled"
  /\ build' = [build EXCEPT ![b].phase = IF NOnEnd = 0 THEN "ended" ELSE "written"]
  /\ UNCHANGED <<fsLo, fsHi, disposed, active, recent, nbuilds, call, left, watching, wstopped>>

\* One on-end callback; fails says whether it returned errors
OnEnd(b, i, fails) ==
  /\ build[b].phase \in {"written", "onend"}
  /\ ~build[b].onEndFailed
  /\ i = build[b].onEndDone + 1 /\ i <= NOnEnd
  /\ build' = [build EXCEPT ![b].phase = "onend", ![b].onEndDone = i, ![b].onEndFailed = fails]
  /\ UNCHANGED <<fsLo, fsHi, disposed, active, recent, nbuilds, call, left, watching, wstopped>>

\* rebuildImpl returns
BuildEnd(b) ==
  /\ build[b].phase \in {"written", "onend"}
  /\ build[b].onEndFailed \/ build[b].onEndDone = NOnEnd
  /\ build' = [build EXCEPT ![b].phase = "ended"]
  /\ UNCHANGED <<fsLo, fsHi, disposed, active, recent, nbuilds, call, left, watching, wstopped>>

\* second critical section of rebuild()
Publish(b) ==
  /\ build[b].phase = "ended"
  /\ active' = None
  /\ recent' = IF TrackRecent THEN b ELSE None
  /\ build' = [build EXCEPT ![b].phase = "published"]
  /\ UNCHANGED <<fsLo, fsHi, disposed, nbuilds, call, left, watching, wstopped>>

\* The 250ms goroutine that forgets the recent build
RecentExpire ==
  /\ recent # None
  /\ recent' = None
  /\ UNCHANGED <<fsLo, fsHi, disposed, active, nbuilds, build, call, left, watching, wstopped>>

WgDone(b) ==
  /\ build[b].phase = "published"
  /\ build' = [build EXCEPT ![b].phase = "wgdone"]
  /\ UNCHANGED <<fsLo, fsHi, disposed, active, recent, nbuilds, call, left, watching, wstopped>>

\* The result a Rebuild() call hands to its caller
ResultOf(b) == IF b = None THEN "empty"
               ELSE IF build[b].outcome = "ok" /\ build[b].onEndFailed THEN "errors"
               ELSE build[b].outcome

RebuildReturn(c) ==
  /\ call[c].op = "rebuild"
  /\ \/ call[c].pc = "returning"                                        \* disposed branch
     \/ call[c].pc = "waiting" /\ build[call[c].saw].phase = "wgdone"   \* joiner: Wait() returned
     \/ call[c].pc = "building" /\ build[call[c].saw].phase = "wgdone"  \* starter
  /\ call' = [call EXCEPT ![c].pc = "idle", ![c].ret = call[c].saw, ![c].op = "done-rebuild"]
  /\ UNCHANGED <<fsLo, fsHi, disposed, active, recent, nbuilds, build, left, watching, wstopped>>

(***************************************************************************)
(* Cancel()                                                                *)
(***************************************************************************)
CancelEnter(c) ==
  /\ call[c].op = "cancel" /\ call[c].pc = "called"
  /\ IF disposed \/ active = None
       THEN call' = [call EXCEPT ![c].pc = "returning",
                                 ![c].branch = IF disposed THEN "disposed" ELSE "idle"]
       ELSE call' = [call EXCEPT ![c].pc = "flagging", ![c].saw = active, ![c].branch = "active"]
  /\ UNCHANGED <<fsLo, fsHi, disposed, active, recent, nbuilds, build, left, watching, wstopped>>

CancelFlag(c) ==
  /\ call[c].op = "cancel" /\ call[c].pc = "flagging"
  /\ build' = [build EXCEPT ![call[c].saw].cancel = TRUE]
  /\ call' = [call EXCEPT ![c].pc = "waiting"]
  /\ UNCHANGED <<fsLo, fsHi, disposed, active, recent, nbuilds, left, watching, wstopped>>

CancelReturn(c) ==
  /\ call[c].op = "cancel"
  /\ \/ call[c].pc = "returning"
     \/ call[c].pc = "waiting" /\ build[call[c].saw].phase = "wgdone"
  /\ call' = [call EXCEPT ![c].pc = "idle", ![c].op = "done-cancel"]
  /\ UNCHANGED <<fsLo, fsHi, disposed, active, recent, nbuilds, build, left, watching, wstopped>>

(***************************************************************************)
(* Dispose()                                                               *)
(***************************************************************************)
DisposeEnter(c) ==
  /\ call[c].op = "dispose" /\ call[c].pc = "called"
  /\ IF disposed
       THEN /\ call' = [call EXCEPT ![c].pc = "returning", ![c].branch = "disposed"]
            /\ UNCHANGED <<disposed, recent>>
       ELSE /\ disposed' = TRUE
            /\ recent' = None
            /\ call' = [call EXCEPT ![c].pc = "stopwatch", ![c].saw = active,
                                    ![c].branch = IF active = None THEN "idle" ELSE "active"]
  /\ UNCHANGED <<fsLo, fsHi, active, nbuilds, build, left, watching, wstopped>>

\* watcher.stop(): set shouldStop ...
DisposeStopWatcher(c) ==
  /\ call[c].op = "dispose" /\ call[c].pc = "stopwatch"
  /\ wstopped' = IF watching /\ wstopped = "no" THEN "requested" ELSE wstopped
  /\ call' = [call EXCEPT ![c].pc = "stopwait"]
  /\ UNCHANGED <<fsLo, fsHi, disposed, active, recent, nbuilds, build, left, watching>>

\* ... the watcher goroutine notices it at the top of its loop (i.e. when it
\* is not inside a rebuild) and exits ...
WatcherExit ==
  /\ wstopped = "requested" /\ call[Watcher].pc = "idle"
  /\ wstopped' = "exited"
  /\ UNCHANGED <<fsLo, fsHi, disposed, active, recent, nbuilds, build, call, left, watching>>

\* ... and stop() returns once stopWaitGroup is done
DisposeWatcherStopped(c) ==
  /\ call[c].op = "dispose" /\ call[c].pc = "stopwait"
  /\ watching => wstopped = "exited"
  /\ call' = [call EXCEPT ![c].pc = "waiting"]
  /\ UNCHANGED <<fsLo, fsHi, disposed, active, recent, nbuilds, build, left, watching, wstopped>>

DisposeReturn(c) ==
  /\ call[c].op = "dispose"
  /\ \/ call[c].pc = "returning"
     \/ call[c].pc = "waiting" /\ (IF call[c].saw = None THEN TRUE ELSE build[call[c].saw].phase = "wgdone")
  /\ call' = [call EXCEPT ![c].pc = "idle",
                          ![c].op = IF call[c].pc = "waiting" THEN "done-dispose" ELSE "done-dispose-noop"]
  /\ UNCHANGED <<fsLo, fsHi, disposed, active, recent, nbuilds, build, left, watching, wstopped>>

(***************************************************************************)
(* Watch()                                                                 *)
(***************************************************************************)
WatchEnter(c) ==
  /\ call[c].op = "watch" /\ call[c].pc = "called"
  /\ IF disposed \/ watching
       THEN UNCHANGED watching
       ELSE watching' = TRUE
  /\ call' = [call EXCEPT ![c].pc = "idle", ![c].op = "done-watch",
                          ![c].branch = IF disposed THEN "disposed" ELSE IF watching THEN "already" ELSE "ok"]
  /\ UNCHANGED <<fsLo, fsHi, disposed, active, recent, nbuilds, build, left, wstopped>>

(***************************************************************************)
Next ==
  \/ EditBegin \/ EditEnd
  \/ \E c \in Callers, op \in Ops : Issue(c, op)
  \/ WatcherIssue
  \/ \E c \in AllCallers : RebuildEnterDisposed(c) \/ RebuildEnterJoin(c) \/ RebuildEnterStart(c) \/ RebuildReturn(c)
  \/ \E b \in Builds : \/ \E err \in BOOLEAN : ScanDone(b, err)
                       \/ CbStartBegin(b) \/ CbStartEnd(b) \/ (\E m \in Modules : CbLoad(b, m))
                       \/ CompileSample(b) \/ (\E le \in BOOLEAN : CompileDone(b, le)) \/ WriteDone(b)
                       \/ \E i \in 1..NOnEnd, f \in BOOLEAN : OnEnd(b, i, f)
                       \/ BuildEnd(b) \/ Publish(b) \/ WgDone(b)
  \/ RecentExpire \/ WatcherExit
  \/ \E c \in Callers : \/ CancelEnter(c) \/ CancelFlag(c) \/ CancelReturn(c)
                        \/ DisposeEnter(c) \/ DisposeStopWatcher(c) \/ DisposeWatcherStopped(c) \/ DisposeReturn(c)
                        \/ WatchEnter(c)

\* Everything the implementation does by itself is weakly fair, per goroutine;
\* issuing API calls, edits and the watcher deciding to rebuild are not.
CallerStep(c) ==
  \/ RebuildEnterDisposed(c) \/ RebuildEnterJoin(c) \/ RebuildEnterStart(c) \/ RebuildReturn(c)
  \/ (c \in Callers /\ (\/ CancelEnter(c) \/ CancelFlag(c) \/ CancelReturn(c)
                        \/ DisposeEnter(c) \/ DisposeStopWatcher(c) \/ DisposeWatcherStopped(c) \/ DisposeReturn(c)
                        \/ WatchEnter(c)))
BuildStep(b) ==
  \/ \E err \in BOOLEAN : ScanDone(b, err)
  \/ CbStartBegin(b) \/ CbStartEnd(b)
  \/ CompileSample(b) \/ (\E le \in BOOLEAN : CompileDone(b, le)) \/ WriteDone(b)
  \/ \E i \in 1..NOnEnd, f \in BOOLEAN : OnEnd(b, i, f)
  \/ BuildEnd(b) \/ Publish(b) \/ WgDone(b)

Spec == Init /\ [][Next]_vars
FairSpec == /\ Spec
            /\ \A c \in AllCallers : WF_vars(CallerStep(c))
            /\ \A b \in Builds : WF_vars(BuildStep(b))
            /\ WF_vars(WatcherExit) /\ WF_vars(EditEnd)

(***************************************************************************)
(* Properties                                                              *)
(***************************************************************************)
TypeOK ==
  /\ fsLo \in 0..MaxEdits /\ fsHi \in 0..MaxEdits /\ fsLo <= fsHi /\ fsHi <= fsLo + 1
  /\ disposed \in BOOLEAN /\ watching \in BOOLEAN /\ wstopped \in {"no", "requested", "exited"}
  /\ active \in {None} \cup Builds /\ recent \in {None} \cup Builds
  /\ nbuilds \in 0..MaxBuilds
  /\ \A b \in Builds : build[b].phase \in Phases /\ build[b].outcome \in Outcomes

\* at most one build is between "started" and the second critical section
OneBuildAtATime ==
  /\ Cardinality({b \in Builds : build[b].phase \in Running}) <= 1
  /\ active # None <=> \E b \in Builds : build[b].phase \in Running
  /\ active # None => build[active].phase \in Running

\* builds are created in order, one after the other has been published
BuildsSequential ==
  \A b \in Builds : (b > 1 /\ build[b].phase # "new") => build[b - 1].phase \in {"published", "wgdone"}

\* A Rebuild() that has returned handed out the build that was active at, or
\* started by, the call, and that build was complete.  (ret is a single build
\* id, so "a mixture of two builds" is unrepresentable in the model; the
\* trace specification checks that the real result carries exactly that id.)
RebuildReturnsOneBuild ==
  \A c \in AllCallers :
    call[c].op = "done-rebuild" =>
      \/ call[c].branch = "disposed" /\ call[c].ret = None
      \/ /\ call[c].branch \in {"join", "start"}
         /\ call[c].ret = call[c].saw /\ call[c].ret # None
         /\ build[call[c].ret].phase = "wgdone"
         /\ build[call[c].ret].outcome # "none"

\* A build started by a call reflects every edit that completed before the call
FreshWhenIdle ==
  \A c \in AllCallers :
    (call[c].branch = "start" /\ call[c].saw # None) => build[call[c].saw].readLo >= call[c].enterLo

\* What a build read lies within the window of versions that existed while it scanned
ReadWindow ==
  \A b \in Builds : build[b].phase \notin {"new", "started"} => build[b].readLo <= build[b].readHi

CancelWaits ==
  \A c \in Callers :
    (call[c].op = "done-cancel" /\ call[c].branch = "active") => build[call[c].saw].phase = "wgdone"

DisposeWaits ==
  \A c \in Callers :
    (call[c].op = "done-dispose" /\ call[c].saw # None) => build[call[c].saw].phase = "wgdone"

\* After Dispose() has returned, the context does no work: no build is between
\* its start and the end of its second critical section (a build that was
\* already published may still have to call waitGroup.Done()), and the watcher
\* goroutine is gone
NoWorkAfterDispose ==
  (\E c \in Callers : call[c].op = "done-dispose") =>
     /\ \A b \in Builds : build[b].phase \notin Running
     /\ active = None
     /\ watching => wstopped = "exited"

\* A cancelled build is one whose cancel flag was set, and it reports errors
CancelledHasFlag ==
  \A b \in Builds : build[b].outcome = "cancelled" => (build[b].cancel /\ build[b].sawCancel)

\* on-end callbacks: after the write phase, in order, each at most once, all unless one failed
OnEndDiscipline ==
  \A b \in Builds :
    /\ build[b].onEndDone > 0 => build[b].phase \notin {"new", "started", "scanned", "sampled", "compiled"}
    /\ build[b].phase \in {"ended", "published", "wgdone"} =>
         (build[b].onEndFailed \/ build[b].onEndDone = NOnEnd)

\* start callbacks finish before any load callback; nothing is loaded twice
\* (CbLoad is only enabled for a module that is not yet in loaded)
StartBeforeLoad ==
  \A b \in Builds :
     /\ (build[b].loaded # {}) => (build[b].startEnded = NOnStart)
     /\ (build[b].phase \notin {"new", "started"}) => (build[b].startEnded = NOnStart)
     /\ build[b].startEnded <= build[b].startBegun
     /\ build[b].startBegun <= NOnStart

\* action properties
NoStartAfterDispose == [][disposed => nbuilds' = nbuilds]_vars
DisposedIsForever == [][disposed => disposed']_vars
PhaseMonotone ==
  [][\A b \in Builds : build[b].phase = "wgdone" =>
        /\ build'[b].phase = "wgdone" /\ build'[b].outcome = build[b].outcome
        /\ build'[b].readLo = build[b].readLo /\ build'[b].readHi = build[b].readHi]_vars

\* liveness (FairSpec): every issued call returns
Termination == \A c \in AllCallers : (call[c].pc # "idle") ~> (call[c].pc = "idle")

\* state constraint for the bounded safety run
Bound == nbuilds <= MaxBuilds
=============================================================================
