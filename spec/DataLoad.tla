------------------------------ MODULE DataLoad ------------------------------
(***************************************************************************)
(* The data-loader clause of property C02: "the value obtained by          *)
(* importing a non-JavaScript file is exactly the file's bytes, text or    *)
(* JSON value", for every byte string as a loaded asset.                   *)
(*                                                                         *)
(* A file content is a sequence of atoms.  The atom alphabet is chosen by  *)
(* what a bundler has to do with the content: it embeds it in a JavaScript *)
(* string or template literal (text, json, dataurl, base64, file) or in a  *)
(* base64 literal (binary), so the alphabet holds every class of byte      *)
(* sequence that interacts with string escaping and embedding:             *)
(*   nul (followed by an octal digit d1 / a non-octal digit d8), backslash *)
(*   (followed by u), both quotes, back quote, "$" "{" (template           *)
(*   substitution), CR, LF, CR LF, U+2028/U+2029, "<" "/script", a BOM (at *)
(*   the start and inside), DEL, an astral character, a two-byte character *)
(*   (charset ascii/utf8), bytes that are not UTF-8 (0x80, 0xFF, encoded   *)
(*   surrogates), "%" "#" " " (data URLs), and plain letters.              *)
(* Every atom has its bytes b, the UTF-16 code units u a UTF-8 decoder     *)
(* yields for them, and (when it can occur inside a JSON string) the bytes *)
(* jb of its JSON source form and the code units ju that form denotes.     *)
(*                                                                         *)
(* The module states the reference values:                                 *)
(*   bytes loaders (binary, base64, dataurl, file): Bytes(content);        *)
(*   text loader: Text(content) = UTF-8 decoding (WHATWG: every byte that  *)
(*     cannot continue a sequence becomes U+FFFD) without a leading BOM;   *)
(*   json loader: a string with the code units JText(content), read off    *)
(*     the JSON source by the string grammar of ECMA-404.                  *)
(* Utf8 and JStr are executable definitions of the two decoders; TLC       *)
(* checks on every enumerated content that they agree with the atom table  *)
(* (the decoders are homomorphic on the alphabet: no atom boundary merges  *)
(* into a longer sequence), that JSON sources are well formed, and the BOM *)
(* rule.  The same run exports every content with its reference values     *)
(* (CASE records); the harness cross-validates them with the platform's    *)
(* decoders (TextDecoder, JSON.parse: a disagreement is SPEC-DRIFT) and    *)
(* compares what a bundle's import yields with them.                       *)
(*                                                                         *)
(* Family: all contents of at most L2 atoms over Atoms, and all contents   *)
(* of at most L atoms over the escape-sensitive Core.                      *)
(***************************************************************************)
EXTENDS Integers, Sequences, FiniteSets, TLC, Json

CONSTANTS L2,     \* maximal length over the full alphabet
          L,      \* maximal length over Core
          Atoms,  \* subset of AllAtoms
          Emit    \* BOOLEAN: print a CASE record per content

AllAtoms == {"nul", "d1", "d8", "A", "u", "bs", "dq", "sq", "bt", "dol", "lb", "cr", "lf", "ls", "ps", "lt", "scr", "bom", "del", "ast", "e9", "x80", "xff", "hs", "lo", "pct", "hash", "sp"}
Core == {"nul", "d1", "d8", "bs", "dq", "bt", "dol", "lb", "cr", "lf", "ls"}

ASSUME L2 \in 0..4 /\ L \in 0..5 /\ Atoms \subseteq AllAtoms

Tab ==
  "nul" :> [b |-> <<0>>, u |-> <<0>>, inJson |-> TRUE, jb |-> <<92, 117, 48, 48, 48, 48>>, ju |-> <<0>>] @@
  "d1" :> [b |-> <<49>>, u |-> <<49>>, inJson |-> TRUE, jb |-> <<49>>, ju |-> <<49>>] @@
  "d8" :> [b |-> <<56>>, u |-> <<56>>, inJson |-> TRUE, jb |-> <<56>>, ju |-> <<56>>] @@
  "A" :> [b |-> <<65>>, u |-> <<65>>, inJson |-> TRUE, jb |-> <<65>>, ju |-> <<65>>] @@
  "u" :> [b |-> <<117>>, u |-> <<117>>, inJson |-> TRUE, jb |-> <<117>>, ju |-> <<117>>] @@
  "bs" :> [b |-> <<92>>, u |-> <<92>>, inJson |-> TRUE, jb |-> <<92, 92>>, ju |-> <<92>>] @@
  "dq" :> [b |-> <<34>>, u |-> <<34>>, inJson |-> TRUE, jb |-> <<92, 34>>, ju |-> <<34>>] @@
  "sq" :> [b |-> <<39>>, u |-> <<39>>, inJson |-> TRUE, jb |-> <<39>>, ju |-> <<39>>] @@
  "bt" :> [b |-> <<96>>, u |-> <<96>>, inJson |-> TRUE, jb |-> <<96>>, ju |-> <<96>>] @@
  "dol" :> [b |-> <<36>>, u |-> <<36>>, inJson |-> TRUE, jb |-> <<36>>, ju |-> <<36>>] @@
  "lb" :> [b |-> <<123>>, u |-> <<123>>, inJson |-> TRUE, jb |-> <<123>>, ju |-> <<123>>] @@
  "cr" :> [b |-> <<13>>, u |-> <<13>>, inJson |-> TRUE, jb |-> <<92, 114>>, ju |-> <<13>>] @@
  "lf" :> [b |-> <<10>>, u |-> <<10>>, inJson |-> TRUE, jb |-> <<92, 110>>, ju |-> <<10>>] @@
  "ls" :> [b |-> <<226, 128, 168>>, u |-> <<8232>>, inJson |-> TRUE, jb |-> <<226, 128, 168>>, ju |-> <<8232>>] @@
  "ps" :> [b |-> <<226, 128, 169>>, u |-> <<8233>>, inJson |-> TRUE, jb |-> <<92, 117, 50, 48, 50, 57>>, ju |-> <<8233>>] @@
  "lt" :> [b |-> <<60>>, u |-> <<60>>, inJson |-> TRUE, jb |-> <<60>>, ju |-> <<60>>] @@
  "scr" :> [b |-> <<47, 115, 99, 114, 105, 112, 116>>, u |-> <<47, 115, 99, 114, 105, 112, 116>>, inJson |-> TRUE, jb |-> <<92, 47, 115, 99, 114, 105, 112, 116>>, ju |-> <<47, 115, 99, 114, 105, 112, 116>>] @@
  "bom" :> [b |-> <<239, 187, 191>>, u |-> <<65279>>, inJson |-> TRUE, jb |-> <<239, 187, 191>>, ju |-> <<65279>>] @@
  "del" :> [b |-> <<127>>, u |-> <<127>>, inJson |-> TRUE, jb |-> <<127>>, ju |-> <<127>>] @@
  "ast" :> [b |-> <<240, 159, 152, 128>>, u |-> <<55357, 56832>>, inJson |-> TRUE, jb |-> <<240, 159, 152, 128>>, ju |-> <<55357, 56832>>] @@
  "e9" :> [b |-> <<195, 169>>, u |-> <<233>>, inJson |-> TRUE, jb |-> <<195, 169>>, ju |-> <<233>>] @@
  "x80" :> [b |-> <<128>>, u |-> <<65533>>, inJson |-> FALSE, jb |-> <<>>, ju |-> <<>>] @@
  "xff" :> [b |-> <<255>>, u |-> <<65533>>, inJson |-> FALSE, jb |-> <<>>, ju |-> <<>>] @@
  "hs" :> [b |-> <<237, 160, 128>>, u |-> <<65533, 65533, 65533>>, inJson |-> TRUE, jb |-> <<92, 117, 100, 56, 48, 48>>, ju |-> <<55296>>] @@
  "lo" :> [b |-> <<237, 176, 128>>, u |-> <<65533, 65533, 65533>>, inJson |-> TRUE, jb |-> <<92, 117, 68, 67, 48, 48>>, ju |-> <<56320>>] @@
  "pct" :> [b |-> <<37>>, u |-> <<37>>, inJson |-> TRUE, jb |-> <<37>>, ju |-> <<37>>] @@
  "hash" :> [b |-> <<35>>, u |-> <<35>>, inJson |-> TRUE, jb |-> <<35>>, ju |-> <<35>>] @@
  "sp" :> [b |-> <<32>>, u |-> <<32>>, inJson |-> TRUE, jb |-> <<32>>, ju |-> <<32>>]

VARIABLES content, phase
vars == <<content, phase>>

RECURSIVE Flat(_, _)
\* concatenation of field f of the atoms of c
Flat(c, f) == IF c = <<>> THEN <<>> ELSE Tab[Head(c)][f] \o Flat(Tail(c), f)

Bytes(c) == Flat(c, "b")
InJson(c) == \A i \in DOMAIN c : Tab[c[i]].inJson

(***************************************************************************)
(* UTF-8 decoding (WHATWG Encoding, "UTF-8 decoder") to UTF-16 code units  *)
(***************************************************************************)
FFFD == 65533
IsCont(b, lo, hi) == b >= lo /\ b <= hi
\* code units of the code point cp
UnitsOf(cp) == IF cp < 65536 THEN <<cp>>
               ELSE <<55296 + ((cp - 65536) \div 1024), 56320 + ((cp - 65536) % 1024)>>
RECURSIVE Utf8(_, _)
Utf8(bs, i) ==
  IF i > Len(bs) THEN <<>>
  ELSE LET b == bs[i]
           has(k) == i + k <= Len(bs)
           lo2 == IF b = 224 THEN 160 ELSE IF b = 240 THEN 144 ELSE 128     \* E0: A0..BF, F0: 90..BF
           hi2 == IF b = 237 THEN 159 ELSE IF b = 244 THEN 143 ELSE 191     \* ED: 80..9F, F4: 80..8F
       IN IF b < 128 THEN <<b>> \o Utf8(bs, i + 1)
          ELSE IF b >= 194 /\ b <= 223
               THEN IF has(1) /\ IsCont(bs[i + 1], 128, 191)
                    THEN <<(b - 192) * 64 + (bs[i + 1] - 128)>> \o Utf8(bs, i + 2)
                    ELSE <<FFFD>> \o Utf8(bs, i + 1)
          ELSE IF b >= 224 /\ b <= 239
               THEN IF has(1) /\ IsCont(bs[i + 1], lo2, hi2)
                    THEN IF has(2) /\ IsCont(bs[i + 2], 128, 191)
                         THEN <<(b - 224) * 4096 + (bs[i + 1] - 128) * 64 + (bs[i + 2] - 128)>> \o Utf8(bs, i + 3)
                         ELSE <<FFFD>> \o Utf8(bs, i + 2)
                    ELSE <<FFFD>> \o Utf8(bs, i + 1)
          ELSE IF b >= 240 /\ b <= 244
               THEN IF has(1) /\ IsCont(bs[i + 1], lo2, hi2)
                    THEN IF has(2) /\ IsCont(bs[i + 2], 128, 191)
                         THEN IF has(3) /\ IsCont(bs[i + 3], 128, 191)
                              THEN UnitsOf((b - 240) * 262144 + (bs[i + 1] - 128) * 4096 + (bs[i + 2] - 128) * 64 + (bs[i + 3] - 128)) \o Utf8(bs, i + 4)
                              ELSE <<FFFD>> \o Utf8(bs, i + 3)
                         ELSE <<FFFD>> \o Utf8(bs, i + 2)
                    ELSE <<FFFD>> \o Utf8(bs, i + 1)
          ELSE <<FFFD>> \o Utf8(bs, i + 1)

\* the text loader's value: the decoded text without a leading byte order mark
StripBOM(us) == IF us # <<>> /\ us[1] = 65279 THEN Tail(us) ELSE us
Text(c) == StripBOM(Utf8(Bytes(c), 1))

(***************************************************************************)
(* JSON string bodies (ECMA-404): escapes and raw UTF-8                     *)
(***************************************************************************)
Hex(b) == IF b >= 48 /\ b <= 57 THEN b - 48
          ELSE IF b >= 65 /\ b <= 70 THEN b - 55
          ELSE IF b >= 97 /\ b <= 102 THEN b - 87 ELSE -1
Simple == (34 :> 34) @@ (92 :> 92) @@ (47 :> 47) @@ (98 :> 8) @@ (102 :> 12) @@ (110 :> 10) @@ (114 :> 13) @@ (116 :> 9)
\* the maximal run of bytes from i that holds no backslash
RECURSIVE RawEnd(_, _)
RawEnd(bs, i) == IF i > Len(bs) \/ bs[i] = 92 THEN i ELSE RawEnd(bs, i + 1)
\* JStr(bs, i): <<ok, units>> of the string body bs from position i
RECURSIVE JStr(_, _)
JStr(bs, i) ==
  IF i > Len(bs) THEN [ok |-> TRUE, u |-> <<>>]
  ELSE IF bs[i] = 92
       THEN IF i + 1 <= Len(bs) /\ bs[i + 1] \in DOMAIN Simple
            THEN LET r == JStr(bs, i + 2) IN [ok |-> r.ok, u |-> <<Simple[bs[i + 1]]>> \o r.u]
            ELSE IF i + 5 <= Len(bs) /\ bs[i + 1] = 117 /\ \A k \in 2..5 : Hex(bs[i + k]) >= 0
                 THEN LET r == JStr(bs, i + 6) IN
                      [ok |-> r.ok, u |-> <<Hex(bs[i + 2]) * 4096 + Hex(bs[i + 3]) * 256 + Hex(bs[i + 4]) * 16 + Hex(bs[i + 5])>> \o r.u]
                 ELSE [ok |-> FALSE, u |-> <<>>]
       ELSE LET e == RawEnd(bs, i)
                raw == SubSeq(bs, i, e - 1)
                r == JStr(bs, e) IN
            [ok |-> r.ok /\ \A k \in DOMAIN raw : raw[k] >= 32 /\ raw[k] # 34, u |-> Utf8(raw, 1) \o r.u]
JSrc(c) == Flat(c, "jb")
JText(c) == JStr(JSrc(c), 1).u

(***************************************************************************)
(* Enumeration                                                             *)
(***************************************************************************)
Init == content = <<>> /\ phase = "gen"

Add ==
  /\ phase = "gen"
  /\ \E a \in Atoms :
       /\ \/ Len(content) < L2
          \/ Len(content) < L /\ a \in Core /\ \A i \in DOMAIN content : content[i] \in Core
       /\ content' = Append(content, a)
  /\ UNCHANGED phase

CaseRec ==
  [spec |-> "DataLoad", atoms |-> content, bytes |-> Bytes(content), text |-> Text(content),
   injson |-> InJson(content),
   jsrc |-> IF InJson(content) THEN JSrc(content) ELSE <<>>,
   jtext |-> IF InJson(content) THEN JText(content) ELSE <<>>]

Close ==
  /\ phase = "gen"
  /\ phase' = "done"
  /\ Emit => PrintT(<<"CASE", ToJson(CaseRec)>>)
  /\ UNCHANGED content

Next == Add \/ Close
Spec == Init /\ [][Next]_vars

(***************************************************************************)
(* Checked on every content                                                *)
(***************************************************************************)
TypeOK == phase \in {"gen", "done"} /\ content \in Seq(Atoms) /\ Len(content) <= (IF L2 > L THEN L2 ELSE L)

\* the atom table is what the decoder says (and so the decoder is homomorphic
\* on the alphabet: an atom boundary never merges into a longer sequence)
Utf8Table == Utf8(Bytes(content), 1) = Flat(content, "u")

\* bytes -> units never lengthens; every unit is a 16-bit value
UnitsOK == LET t == Utf8(Bytes(content), 1) IN
             /\ Len(t) <= Len(Bytes(content))
             /\ \A i \in DOMAIN t : t[i] >= 0 /\ t[i] <= 65535

\* a byte order mark is removed at most once and only in front
BOMRule == LET t == Utf8(Bytes(content), 1) IN
             /\ Len(Text(content)) \in {Len(t), Len(t) - 1}
             /\ (Len(Text(content)) < Len(t)) <=> (content # <<>> /\ content[1] = "bom")

\* JSON sources are well formed string bodies and denote what the table says
JsonTable == InJson(content) =>
               /\ JStr(JSrc(content), 1).ok
               /\ JText(content) = Flat(content, "ju")

\* the bytes a content denotes are bytes
BytesOK == \A i \in DOMAIN Bytes(content) : Bytes(content)[i] \in 0..255
=============================================================================
