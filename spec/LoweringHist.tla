---------------------------- MODULE LoweringHist ----------------------------
(***************************************************************************)
(* C14, history dimension: the syntax level of what a build emits depends   *)
(* only on that build's own options, whatever was built before in the same  *)
(* process.                                                                  *)
(*                                                                          *)
(* Lowering.tla part (a) decides what ONE build may emit.  A long-lived     *)
(* process (Go API, service, watch/serve, a test runner) runs many builds,  *)
(* and esbuild keeps process-global caches between them.  What they hold    *)
(* that reaches the output (read off the code):                             *)
(*                                                                          *)
(*  runtime  internal/bundler/bundler.go  globalRuntimeCache.parseRuntime:  *)
(*           the parsed AND LOWERED AST of the runtime library (all helper  *)
(*           bodies: __spreadValues, __async, __decoratorStart ...), a map  *)
(*           from runtimeCacheKey{unsupportedJSFeatures, minifySyntax,      *)
(*           minifyIdentifiers} to the AST.  The AST is computed from       *)
(*           exactly these three options (js_parser.OptionsFromConfig of a  *)
(*           config that holds nothing else), so these are the RELEVANT     *)
(*           options; the key is the COMPARED projection (constant          *)
(*           RuntimeKey, as ComparedFields in Cache.tla).                   *)
(*  globals  internal/config/globals.go processedGlobals: the processed     *)
(*           table of known globals for builds without `define`; no key,    *)
(*           depends on no option.                                          *)
(*  (cache.CacheSet - JSCache/CSSCache/JSONCache - is not process-global:   *)
(*   api_impl.go makes one per Transform/HBuild/Context, and the options of  *)
(*   a context never change, so an entry can only be served to a build with *)
(*   the options that filled it; the replay still exercises it with a       *)
(*   Context that is rebuilt: step kind "rebuild".  compat tables are       *)
(*   immutable.)                                                            *)
(*                                                                          *)
(* A cache is harmless iff relevant \subseteq compared.  The model makes    *)
(* the consequence checkable on histories: HBuild(step) looks every cache up *)
(* under the compared projection of the step's options, fills it on a miss  *)
(* with the value computed from the RELEVANT projection, and is served what *)
(* the entry holds.  TLC checks over all histories of <= MaxBuilds builds   *)
(*   HistoryIndependent      : every cache serves what a fresh process      *)
(*                             would compute from the build's own options   *)
(*   HelperSyntaxWithinTarget: the helper bodies emitted (the features of   *)
(*                             the runtime source that the served AST was   *)
(*                             NOT lowered for) are within AllowedSyntax of *)
(*                             the build's own target/overrides             *)
(* for the as-implemented key, and must FIND a counterexample for coarser   *)
(* keys (negative controls: LoweringHist.coarse*.cfg).                      *)
(*                                                                          *)
(* The generator configuration exports histories (CASE records) that the    *)
(* harness replays inside ONE process each, and the helper programs: for    *)
(* every helper of internal/runtime/runtime.go a program that pulls it in   *)
(* (helper bodies are where syntax leaks), with an inhabitation check.      *)
(***************************************************************************)
EXTENDS Lowering

CONSTANTS
  RuntimeKey,   \* subset of HOptFields: what runtimeCacheKey compares
  MaxBuilds,    \* length of the histories
  HTargets,     \* the target names of the model / skeleton ("es2015".."esnext", "chrome80+node12.22" ...)
  HMinify,      \* subset of {"off", "syntax", "all"}
  HOverrides,   \* subset of override names ("none", "logical-assignment=false" ...)
  HApis,        \* subset of {"transform", "build", "rebuild"} (replay dimension; the model ignores it)
  Gen,          \* FALSE: explore every history (design); TRUE: the seeded generator below, with export
  Fan3,         \* generator: one of Fan3 triples is kept (seeded)
  Seed

-----------------------------------------------------------------------------
(* targets by name (TLC cannot mix integers and sequences in one set)       *)

RECURSIVE HJoin(_)
HJoin(es) == IF Len(es) = 1 THEN es[1] ELSE es[1] \o "+" \o HJoin(Tail(es))
HESNames  == {TargetName(t) : t \in Targets}
HEngNames == {HJoin(es) : es \in EngineLists}
HAllTargetNames == HESNames \cup HEngNames
HYearOfName(n) == CHOOSE t \in Targets : TargetName(t) = n
HEnginesOfName(n) == CHOOSE es \in EngineLists : HJoin(es) = n

\* override names of the matrix ("none", "<feature>=true|false")
HOvNames == {"none"} \cup {OvName(f, m) : f \in Overridable, m \in {"on", "off"}}
HOvByName(n) ==
  IF n = "none" THEN NoOverride
  ELSE LET fm == CHOOSE fm \in Overridable \X {"on", "off"} : OvName(fm[1], fm[2]) = n IN OvOf(fm[1], fm[2])

HAllowedOf(t, ovn) ==
  IF t \in HESNames THEN AllowedSyntax(HYearOfName(t), HOvByName(ovn)) ELSE AllowedEngines(HEnginesOfName(t), HOvByName(ovn))
\* tabulated once
HAllowedTab == [t \in HTargets |-> [o \in HOverrides |-> HAllowedOf(t, o)]]

\* a step of a history = one build: its configuration and (for the replay) the API it goes through
HSteps == [t : HTargets, mi : HMinify, ov : HOverrides, api : HApis]
HAllowed(s) == HAllowedTab[s.t][s.ov]
HIsConsistent(s) == Consistent(HAllowed(s), HOvByName(s.ov))

-----------------------------------------------------------------------------
(* options, caches                                                           *)

HOptFields == {"unsupported", "minifySyntax", "minifyIdents"}
\* config.Options as far as the caches are concerned (validateFeatures + the minify flags)
HUnsupTab == [t \in HTargets |-> [o \in HOverrides |-> Features \ HAllowedTab[t][o]]]      \* tabulated once
HOpt(s) == [unsupported  |-> HUnsupTab[s.t][s.ov],
           minifySyntax |-> s.mi # "off",
           minifyIdents |-> s.mi = "all"]
HProj(s, fields) == [f \in fields |-> HOpt(s)[f]]

HCacheNames == {"runtime", "globals"}
HRelevant(c) == IF c = "runtime" THEN HOptFields ELSE {}
HCompared(c) == IF c = "runtime" THEN RuntimeKey ELSE {}

\* static form of the design rule
HKeysSufficient == \A c \in HCacheNames : HRelevant(c) \subseteq HCompared(c)

-----------------------------------------------------------------------------
(* the runtime library: helpers, the newer syntax their SOURCE uses, and a   *)
(* program that pulls each one in.  Transcribed from internal/runtime/       *)
(* runtime.go (the harness compares the helper list with the `export var`    *)
(* lines of that file, and the uses with what a build for esnext that only   *)
(* switches the trigger off really emits: "helper census").                  *)

HRuntimeHelpers == {
  "__pow", "__spreadValues", "__spreadProps", "__name", "__require", "__glob", "__restKey", "__objRest",
  "__esm", "__esmMin", "__commonJS", "__commonJSMin", "__export", "__reExport", "__toESM", "__toCommonJS",
  "__decorateClass", "__decorateParam", "__decoratorStart", "__decoratorMetadata", "__runInitializers",
  "__decorateElement", "__publicField", "__privateIn", "__privateGet", "__privateAdd", "__privateSet",
  "__privateMethod", "__earlyAccess", "__privateWrapper", "__superGet", "__superSet", "__superWrapper",
  "__template", "__async", "__await", "__asyncGenerator", "__yieldStar", "__forAwait", "__toBinaryNode",
  "__toBinary", "__using", "__callDispose"}

\* post-ES2015 features in the source text of a helper (including the internal helpers it calls)
HelperUses(h) ==
  CASE h = "__spreadValues"   -> {"logical-assignment"}                      \* for (var prop in b ||= {})
    [] h = "__decoratorStart" -> {"optional-chain", "nullish-coalescing"}    \* base?.[..] ?? null
    [] OTHER -> {}
HRuntimeUses == UNION {HelperUses(h) : h \in HRuntimeHelpers}
HUsingHelpers == {h \in HRuntimeHelpers : HelperUses(h) # {}}

\* name; loader; source; trigger = the features to switch off (at esnext) so that exactly this
\* lowering happens; extraOff = pre-ES2015 `supported` keys to switch off in every build of the
\* program (they select other variants of the runtime source text: runtime.Source switches on
\* for-of / const-and-let / object-accessors / object-extensions); opts = build options;
\* bundle = needs api.Build with bundling; needs = the helpers it pulls in (when the trigger is
\* not allowed by the target); minNeeds = pulled in only with minified identifiers (not visible
\* by name); uses = post-ES2015 features the program keeps when only the trigger is off
HP(name, loader, src, trigger, extraOff, opts, bundle, needs, minNeeds, uses) ==
  [name |-> name, loader |-> loader, src |-> src, trigger |-> trigger, extraOff |-> extraOff, opts |-> opts,
   bundle |-> bundle, needs |-> needs, minNeeds |-> minNeeds, uses |-> uses]

HelperProgs == <<
  HP("pow", "js", "b(a ** c);", {"exponent-operator"}, {}, {}, FALSE, {"__pow"}, {}, {}),
  HP("spread", "js", "b({ ...a, c: 1, ...d });", {"object-rest-spread"}, {}, {}, FALSE, {"__spreadValues", "__spreadProps"}, {}, {}),
  HP("spread-noforof", "js", "b({ ...a, c: 1 });", {"object-rest-spread"}, {"for-of"}, {}, FALSE, {"__spreadValues", "__spreadProps"}, {}, {}),
  HP("rest", "js", "var { q1, [a]: q2, ...q3 } = b; b(q3);", {"object-rest-spread"}, {}, {}, FALSE, {"__objRest", "__restKey"}, {}, {}),
  HP("rest-noforof", "js", "var { q1, ...q3 } = b; b(q3);", {"object-rest-spread"}, {"for-of", "const-and-let"}, {}, FALSE, {"__objRest"}, {}, {}),
  HP("async", "js", "async function q(x) { await x; } b(q);", {"async-await"}, {}, {}, FALSE, {"__async"}, {}, {}),
  HP("asyncgen", "js", "async function* q(x) { yield x; yield* x; await x; } b(q);", {"async-generator"}, {}, {}, FALSE,
     {"__asyncGenerator", "__await", "__yieldStar"}, {}, {"async-await"}),
  HP("forawait", "js", "async function q(x) { for await (const y of x) b(y); } b(q);", {"for-await"}, {}, {}, FALSE, {"__forAwait"}, {}, {"async-await"}),
  HP("classfield", "js", "class Q { x = a; static y = b; } b(Q);", {"class-field", "class-static-field"}, {}, {}, FALSE, {"__publicField"}, {}, {}),
  HP("private", "js",
     "class Q { #x = a; #m() { return this.#x; } static t(o) { return #x in o; } n(v) { this.#x = v; return this.#m(); } } b(Q);",
     {"class-private-field", "class-private-method", "class-private-brand-check"}, {}, {}, FALSE,
     {"__privateAdd", "__privateGet", "__privateSet", "__privateMethod", "__privateIn"}, {}, {}),
  HP("privwrap", "js", "class Q { #x = 1; m() { this.#x++; [this.#x] = [2]; } } b(Q);", {"class-private-field"}, {}, {}, FALSE,
     {"__privateWrapper", "__privateAdd", "__privateGet", "__privateSet"}, {}, {}),
  HP("privwrap-noacc", "js", "class Q { #x = 1; m() { this.#x++; } } b(Q);", {"class-private-field"}, {"object-accessors"}, {}, FALSE,
     {"__privateWrapper"}, {}, {}),
  HP("super", "js", "class Q extends a { async m() { return super.x; } async n() { super.y = 1; } async o() { super.z++; } } b(Q);",
     {"async-await"}, {}, {}, FALSE, {"__async", "__superGet", "__superSet", "__superWrapper"}, {}, {}),
  HP("template", "js", "b((a?.c)`x${d}`);", {"optional-chain"}, {}, {}, FALSE, {"__template"}, {}, {}),
  HP("using", "js", "{ using u1 = a(); b(u1); } async function q() { await using u2 = a(); b(u2); } b(q);", {"using"}, {}, {}, FALSE,
     {"__using", "__callDispose"}, {}, {"async-await"}),
  HP("decorators", "js", "@a class Q1 { @b m() {} @b accessor x = 1; @b static y = 2; } b(Q1);", {"decorators"}, {}, {}, FALSE,
     {"__decoratorStart", "__decoratorMetadata", "__runInitializers", "__decorateElement"}, {}, {"class-static-blocks", "class-private-field", "class-field", "class-static-field"}),
  HP("early", "js", "@a class Q2 { static [Q2.k] = 1; } b(Q2);", {"decorators"}, {}, {}, FALSE, {"__earlyAccess", "__decoratorStart"}, {},
     {"class-static-blocks", "class-static-field"}),
  HP("tsdec", "ts", "@a class Q3 { @b m(@c p) {} } b(Q3);", {}, {}, {"tsExperimentalDecorators"}, FALSE, {"__decorateClass", "__decorateParam"}, {}, {}),
  HP("keepnames", "js", "function q() {} b(q, class {}, () => {});", {}, {}, {"keepNames"}, FALSE, {"__name"}, {}, {}),
  HP("importcjs", "js", "import lib from \"./lib.cjs\"; b(lib);", {}, {}, {}, TRUE, {"__commonJS", "__toESM"}, {"__commonJSMin"}, {}),
  HP("importcjs-nolet", "js", "import * as lib from \"./lib.cjs\"; b(lib);", {}, {"const-and-let", "for-of"}, {}, TRUE, {"__commonJS", "__toESM"}, {"__commonJSMin"}, {}),
  HP("requireesm", "js", "b(require(\"./lib2.js\"));", {}, {}, {}, TRUE, {"__esm", "__export", "__toCommonJS"}, {"__esmMin"}, {}),
  HP("reexport", "js", "export * from \"./lib.cjs\"; export * from \"x\";", {}, {}, {"formatCJS"}, TRUE, {"__reExport", "__toCommonJS", "__commonJS"}, {}, {}),
  HP("requireext", "js", "b(require(\"x\"));", {}, {}, {"formatESM"}, TRUE, {"__require"}, {}, {}),
  HP("glob", "js", "b(require(\"./lib\" + a + \".js\"));", {}, {}, {}, TRUE, {"__glob", "__esm", "__toCommonJS"}, {"__esmMin"}, {}),
  HP("binary", "js", "import d from \"./data.bin\"; b(d);", {}, {"from-base64"}, {}, TRUE, {"__toBinary"}, {}, {}),
  HP("binarynode", "js", "import d from \"./data.bin\"; b(d);", {}, {"from-base64"}, {"platformNode"}, TRUE, {"__toBinaryNode"}, {}, {})
>>
HPIdxH == 1..Len(HelperProgs)
HPullsIn(h) == {i \in HPIdxH : h \in HelperProgs[i].needs \cup HelperProgs[i].minNeeds}

\* every helper is pulled in by some program; triggers and uses are features of the model
HelpersInhabited ==
  /\ \A h \in HRuntimeHelpers : HPullsIn(h) # {}
  /\ \A i \in HPIdxH : /\ HelperProgs[i].needs \cup HelperProgs[i].minNeeds \subseteq HRuntimeHelpers
                      /\ HelperProgs[i].needs # {}
                      /\ HelperProgs[i].trigger \subseteq Overridable
                      /\ HelperProgs[i].uses \subseteq Features
                      /\ HelperProgs[i].src # ""
                      /\ \A j \in HPIdxH : HelperProgs[i].name = HelperProgs[j].name => i = j
  /\ HRuntimeUses \subseteq Overridable

\* is helper h needed under this step's configuration? (feature-triggered helpers: when some
\* trigger feature is not allowed; the others always)
HNeeded(i, s) == HelperProgs[i].trigger = {} \/ ~(HelperProgs[i].trigger \subseteq HAllowed(s))

-----------------------------------------------------------------------------
(* state: u = [rt, last, hist]                                               *)
(*   rt[c]  : the entries of cache c, each [k |-> compared projection,       *)
(*                                          v |-> relevant projection of the *)
(*                                                build that filled it]      *)
(*   last   : <<>> or [s |-> the last step, served |-> [c |-> v]]            *)
(*   hist   : the steps so far (only kept by the generator; the design run   *)
(*            merges histories that lead to the same caches)                 *)

HNoLast == [s |-> <<>>, served |-> <<>>]
HInit == u = [rt |-> [c \in HCacheNames |-> {}], last |-> HNoLast, hist |-> <<>>, n |-> 0]

HLookup(c, s) == {e \in u.rt[c] : e.k = HProj(s, HCompared(c))}
HServed(c, s) == IF HLookup(c, s) # {} THEN (CHOOSE e \in HLookup(c, s) : TRUE).v ELSE HProj(s, HRelevant(c))
HFilled(c, s) == IF HLookup(c, s) # {} THEN u.rt[c] ELSE u.rt[c] \cup {[k |-> HProj(s, HCompared(c)), v |-> HProj(s, HRelevant(c))]}

\* ---- the seeded generator: which step may follow a history
Hash(s) == LET tn == CHOOSE i \in 1..Cardinality(HTargets) : SetToSeq(HTargets)[i] = s.t
               mn == CHOOSE i \in 1..Cardinality(HMinify) : SetToSeq(HMinify)[i] = s.mi
               on == CHOOSE i \in 1..Cardinality(HOverrides) : SetToSeq(HOverrides)[i] = s.ov
           IN tn * 31 + mn * 7 + on * 131
HMiSeq == SetToSeq(HMinify)
HOvSeq == SetToSeq(HOverrides)
HApSeq == SetToSeq(HApis)
HTIdx(t) == CHOOSE i \in 1..Cardinality(HTargets) : SetToSeq(HTargets)[i] = t
\* the skeleton: one step per target, all with the minify mode of this seed (so that they
\* collide on everything but the target), no override, the APIs alternate
HSkelMi == HMiSeq[(Seed % Len(HMiSeq)) + 1]
HSkel(t) == [t |-> t, mi |-> HSkelMi, ov |-> "none", api |-> HApSeq[((HTIdx(t) + Seed) % Len(HApSeq)) + 1]]
HSkelSet == {HSkel(t) : t \in HTargets}
\* single-dimension neighbours of a skeleton step: another minify mode, an override
HVariants(s) == {[s EXCEPT !.mi = m] : m \in HMinify \ {s.mi}} \cup
               {x \in {[s EXCEPT !.ov = o] : o \in HOverrides \ {s.ov}} : HIsConsistent(x)}
\* per seed only some skeleton steps get their variants (every override and minify mode is used)
HVarBase == {s \in HSkelSet : (HTIdx(s.t) + Seed) % 4 = 0}
HVarSet == UNION {HVariants(b) : b \in HVarBase}
\* the steps that may follow history h (a small set: the action does not scan HSteps)
HGenCand(h) ==
  CASE Len(h) = 0 -> HSkelSet \cup HVarSet
    [] Len(h) = 1 -> IF h[1] \in HSkelSet
                     THEN HSkelSet \cup (IF h[1] \in HVarBase THEN HVariants(h[1]) ELSE {})
                     ELSE {b \in HVarBase : h[1] \in HVariants(b)}
    [] OTHER      -> IF h[1] \in HSkelSet /\ h[2] \in HSkelSet
                     THEN {x \in HSkelSet : (Seed * 7919 + Hash(h[1]) * 31 + Hash(h[2]) * 17 + Hash(x)) % Fan3 = 0}
                     ELSE {}

HBuild(s) ==
  /\ u.n < MaxBuilds
  /\ HIsConsistent(s)
  /\ u' = [rt   |-> [c \in HCacheNames |-> HFilled(c, s)],
           last |-> [s |-> s, served |-> [c \in HCacheNames |-> HServed(c, s)]],
           hist |-> IF Gen THEN Append(u.hist, s) ELSE <<>>,
           n    |-> u.n + 1]
HNext == \E s \in (IF Gen THEN HGenCand(u.hist) ELSE HSteps) : HBuild(s)

-----------------------------------------------------------------------------
(* what TLC checks                                                           *)

HTypeOK ==
  /\ u.n \in 0..MaxBuilds
  /\ \A c \in HCacheNames : \A e \in u.rt[c] : DOMAIN e.k = HCompared(c) /\ DOMAIN e.v = HRelevant(c)
  /\ u.n > 0 => u.last.s.t \in HTargets /\ u.last.s.mi \in HMinify /\ u.last.s.ov \in HOverrides

\* every cache serves what a fresh process computes from the build's own options
HistoryIndependent ==
  u.n > 0 => \A c \in HCacheNames : u.last.served[c] = HProj(u.last.s, HRelevant(c))

\* the C14 consequence: the helper bodies a build emits are lowered for its own target
HEmittedHelperSyntax(h, served) == HelperUses(h) \ served["runtime"].unsupported
HelperSyntaxWithinTarget ==
  u.n > 0 => \A h \in HUsingHelpers : HEmittedHelperSyntax(h, u.last.served) \subseteq HAllowed(u.last.s)

\* as-implemented key (design configuration only)
HDesignKey == u.n \in Nat /\ HKeysSufficient
HelpersInhabitedInv == u.n \in Nat /\ HelpersInhabited

-----------------------------------------------------------------------------
(* export (generator configuration)                                          *)

HStepJson(s) == [target  |-> IF s.t \in HESNames THEN s.t ELSE "",
                engines |-> IF s.t \in HESNames THEN <<>> ELSE HEnginesOfName(s.t),
                override |-> s.ov, minify |-> s.mi, api |-> s.api]
\* non-trivial history: an earlier build allows a feature of the runtime source that the last
\* build does not (a cache that forgot the target would leak it), or differs in a minify flag
HLeaky(h) == \E i \in 1..(Len(h) - 1) : (HRuntimeUses \cap HAllowed(h[i])) \ HAllowed(h[Len(h)]) # {}
HDiffers(h) == \E i \in 1..(Len(h) - 1) : HOpt(h[i]) # HOpt(h[Len(h)])
HExportProgs(dummy) ==
  /\ PrintT(<<"CASE", ToJson([kind |-> "helpers", helpers |-> HRuntimeHelpers,
                              uses |-> [h \in HRuntimeHelpers |-> HelperUses(h)]])>>)
  /\ \A i \in HPIdxH : PrintT(<<"CASE", ToJson([kind |-> "prog"] @@ HelperProgs[i])>>)
HExported ==
  IF ~Gen THEN TRUE
  ELSE /\ (u.n = 0) => HExportProgs(0)
       /\ (u.n >= 2) => PrintT(<<"CASE", ToJson([kind |-> "hist", steps |-> [i \in DOMAIN u.hist |-> HStepJson(u.hist[i])],
                                                  leaky |-> HLeaky(u.hist), differs |-> HDiffers(u.hist)])>>)
HExportOK == u.n \in Nat /\ HExported
=============================================================================
