------------------------------ MODULE ShakeMC ------------------------------
(***************************************************************************)
(* The bounded graph family on which TLC checks the design of Shake.tla,    *)
(* and the constant definitions of its configurations.                      *)
(***************************************************************************)
EXTENDS Shake, Json

-----------------------------------------------------------------------------
(* The bounded graph family checked by TLC.  Files 1..N, file 1 is the      *)
(* entry point.  Between files f < g (and, with Back, from N to 2) one edge *)
(* of a kind in EdgeKinds.  Every file has a declaration part (declares and *)
(* exports "x" if ownX) and a statement part that may use "x" or the        *)
(* imported bindings.  (effect, removable) ranges over Cells.               *)

CONSTANTS N, EdgeKinds, Cells, DeclCells, Back, AnnotateSets, Owns, UseKinds, DropKinds, CjsSets

\* an edge kind = a statement-level component and / or a lazy component: the
\* combined kinds (`export {x} from` / `export *` / `import {x}` of a file that
\* is ALSO the target of import() or require(), hence lazily wrapped) are the
\* ones where the importing statement carries an initialiser obligation
StmtOf(k) == CASE k \in {"bare", "named", "reexp", "star"} -> k
               [] k \in {"reexp_dynamic", "reexp_require"} -> "reexp"
               [] k \in {"star_dynamic"} -> "star"
               [] k \in {"named_require", "named_dynamic"} -> "named"
               [] OTHER -> ""
LazyOf(k) == CASE k \in {"require", "dynamic"} -> k
               [] k \in {"reexp_dynamic", "star_dynamic", "named_dynamic"} -> "dynamic"
               [] k \in {"reexp_require", "named_require"} -> "require"
               [] OTHER -> ""

ImpName(g) == <<"i1", "i2", "i3", "i4">>[g]
Pairs == {<<f, g>> \in (1..N) \X (1..N) : f < g} \cup (IF Back /\ N > 2 THEN {<<N, 2>>} ELSE {})

MkPart(d, u, c, recs) == [declares |-> d, uses |-> u, effect |-> c[1], removable |-> c[2], force |-> FALSE, recs |-> recs, probe |-> "", entryExp |-> FALSE]
\* the dummy part of an entry point (step 6): never removable, depends on all exports
EntryExpPart == [MkPart({}, {}, <<FALSE, FALSE>>, {}) EXCEPT !.entryExp = TRUE]
ImportCell == <<FALSE, TRUE>>     \* an import statement alone has no effect and is removable

\* the import/re-export statements of file f, in target order (hoisted to the top)
EdgeTargets(edge, f) == {g \in 1..N : <<f, g>> \in Pairs /\ StmtOf(edge[<<f, g>>]) # ""}
RECURSIVE SeqOfSet(_)
SeqOfSet(S) == IF S = {} THEN <<>> ELSE LET m == CHOOSE m \in S : \A k \in S : m <= k IN <<m>> \o SeqOfSet(S \ {m})

FileParts(edge, f, own, c1, c2, u2) ==
  LET tg == SeqOfSet(EdgeTargets(edge, f))
      imps == [k \in 1..Len(tg) |-> MkPart({}, {}, ImportCell, {[kind |-> "stmt", to |-> tg[k]]})]
      lazy == {[kind |-> LazyOf(edge[<<f, g>>]), to |-> g] : g \in {h \in 1..N : <<f, h>> \in Pairs /\ LazyOf(edge[<<f, h>>]) # ""}}
      imported == {ImpName(g) : g \in {h \in 1..N : <<f, h>> \in Pairs /\ StmtOf(edge[<<f, h>>]) = "named"}}
      uses == CASE u2 = "none" -> {} [] u2 = "own" -> (IF own THEN {"x"} ELSE {}) [] OTHER -> imported
  IN imps \o << MkPart(IF own THEN {"x"} ELSE {}, {}, c1, {}),
                MkPart({}, uses, IF lazy # {} /\ c2[2] THEN <<c2[1], FALSE>> ELSE c2, lazy) >>
          \o (IF f = 1 THEN << EntryExpPart >> ELSE << >>)

FileImp(edge, f) == {[local |-> ImpName(g), from |-> g, name |-> "x"] : g \in {h \in 1..N : <<f, h>> \in Pairs /\ StmtOf(edge[<<f, h>>]) = "named"}}
FileExp(edge, f, own) ==
  LET tg == SeqOfSet(EdgeTargets(edge, f))
      idx(g) == CHOOSE k \in 1..Len(tg) : tg[k] = g
      named == {h \in 1..N : <<f, h>> \in Pairs /\ StmtOf(edge[<<f, h>>]) = "named"}
  IN (IF own THEN {[kind |-> "local", name |-> "x", local |-> "x", from |-> 0, fromName |-> "", part |-> 0]} ELSE {})
     \* the entry point exports what it imports by name: import {x as i2} from; export {i2 as x}
     \cup (IF f = 1 /\ ~own /\ named # {}
          THEN {[kind |-> "local", name |-> "x", local |-> ImpName(CHOOSE g \in named : \A h \in named : g <= h), from |-> 0, fromName |-> "", part |-> 0]}
          ELSE {})
     \cup {[kind |-> "from", name |-> "x", local |-> "", from |-> g, fromName |-> "x", part |-> idx(g)] :
              g \in {h \in 1..N : <<f, h>> \in Pairs /\ StmtOf(edge[<<f, h>>]) = "reexp" /\ ~own}}
     \cup {[kind |-> "star", name |-> "", local |-> "", from |-> g, fromName |-> "", part |-> idx(g)] :
              g \in {h \in 1..N : <<f, h>> \in Pairs /\ StmtOf(edge[<<f, h>>]) = "star"}}

VARIABLES phase, edges, ch, G, DG, LV, NEC
vars == <<phase, edges, ch, G, DG, LV, NEC>>

Empty == [files |-> {}, entry |-> {}, seFalse |-> {}, cjs |-> {}, ts |-> TRUE, ignoreAnn |-> FALSE, part |-> <<>>, imp |-> <<>>, exp |-> <<>>]

Init == phase = 0 /\ edges = <<>> /\ ch = <<>> /\ G = Empty /\ DG = <<>> /\ LV = <<>> /\ NEC = {}

\* step 0: the import graph; steps 1..N: the statements of one file each;
\* step N+1: annotations and flags (hierarchical so that simulation mode has
\* small branching)
\* the pairs in a fixed order, one edge per step
PairKey(pr) == pr[1] * 10 + pr[2]
RECURSIVE PairSeqOf(_)
PairSeqOf(S) == IF S = {} THEN <<>> ELSE LET m == CHOOSE m \in S : \A k \in S : PairKey(m) <= PairKey(k) IN <<m>> \o PairSeqOf(S \ {m})
PairSeq == PairSeqOf(Pairs)
NP == Cardinality(Pairs)

PickEdge ==
  /\ phase = 0
  /\ Len(edges) < NP
  /\ \E k \in EdgeKinds : edges' = Append(edges, k)
  /\ UNCHANGED <<phase, ch, G, DG, LV, NEC>>
EdgesDone ==
  /\ phase = 0
  /\ Len(edges) = NP
  /\ phase' = 1 /\ UNCHANGED <<edges, ch, G, DG, LV, NEC>>
EdgeFn == [pr \in Pairs |-> edges[CHOOSE k \in 1..NP : PairSeq[k] = pr]]

FileChoice == [own : Owns, c1 : DeclCells, c2 : Cells, u2 : UseKinds]

PickFile ==
  /\ phase \in 1..N
  /\ \E c \in FileChoice : ch' = Append(ch, c)
  /\ phase' = phase + 1 /\ UNCHANGED <<edges, G, DG, LV, NEC>>

PickFlags ==
  /\ phase = N + 1
  /\ \E se \in AnnotateSets, ts \in BOOLEAN, cj \in CjsSets :
       G' = [files |-> 1..N, entry |-> {1}, seFalse |-> se, cjs |-> cj, ts |-> ts, ignoreAnn |-> FALSE,
             part |-> [f \in 1..N |-> FileParts(EdgeFn, f, ch[f].own, ch[f].c1, ch[f].c2, ch[f].u2)],
             imp |-> [f \in 1..N |-> FileImp(EdgeFn, f)],
             exp |-> [f \in 1..N |-> FileExp(EdgeFn, f, ch[f].own)]]
  /\ phase' = N + 2 /\ UNCHANGED <<edges, ch, DG, LV, NEC>>

\* what the property needs of a liveness assignment (no design-only strictness)
SemanticOK(g, l) ==
  /\ (ClassifierSound(g) => EffectsKeptOn(g, l))
  /\ NoDanglingUseOn(g, l)
  /\ ExportsInitialisedOn(g, l)
  /\ (ClassifierSound(g) => MustKeepParts(g) \subseteq l.parts)

\* the linker's work, computed once per graph: the invariants below share it
Compute ==
  /\ phase = N + 2
  /\ DG' = DepGraph(G)
  /\ LV' = Live(DG')
  \* NECESSITY of every edge kind of step 6: the mutant that leaves kind k out
  \* breaks a semantic invariant on this graph
  /\ NEC' = {k \in DropKinds : ~SemanticOK(G, Live(DepGraphM(G, {k})))}
  /\ phase' = N + 3 /\ UNCHANGED <<edges, ch, G>>

Next == PickEdge \/ EdgesDone \/ PickFile \/ PickFlags \/ Compute
Spec == Init /\ [][Next]_vars

Done == phase = N + 3

InvLiveClosed == Done => DesignLiveClosedOn(DG, LV)
InvEffectsKept == (Done /\ ClassifierSound(G)) => EffectsKeptOn(G, LV)
\* the same claim WITHOUT the soundness premise: must be violated as soon as
\* Cells contains the unsound cell <<TRUE, TRUE>> (non-vacuity config)
InvEffectsKeptUnconditional == Done => EffectsKeptOn(G, LV)
InvNoDanglingUse == Done => NoDanglingUseOn(G, LV)
InvPassStmtsLive == Done => (PassStmtsLiveOn(G, LV) /\ ExportPassStmtsLiveOn(G, LV))
\* a live binding exported by the entry point is initialised
InvExportsInitialised == Done => ExportsInitialisedOn(G, LV)
\* necessity report (drop configuration): one CASE line per graph on which some mutant fails
NecessityReport ==
  Done => (NEC = {} \/ PrintT(<<"CASE", ToJson([rec |-> "nec", kinds |-> NEC, edges |-> edges, se |-> G.seFalse, cjs |-> G.cjs, ts |-> G.ts])>>))
InvAnnotationMonotone == Done => (AnnotationMonotoneOn(DG, LV) /\ ModeMonotoneOn(DG, LV))
\* what must be kept is kept by the real classifier whenever it is sound
InvMustKeepLive == (Done /\ ClassifierSound(G)) => MustKeepParts(G) \subseteq LV.parts

\* (effect, removable): a sound classifier never calls an effectful statement removable
CellsSound == {<<FALSE, TRUE>>, <<TRUE, FALSE>>, <<FALSE, FALSE>>}
CellsUnsound == CellsSound \cup {<<TRUE, TRUE>>}
AllKinds == {"none", "bare", "named", "reexp", "star", "require", "dynamic",
             "reexp_dynamic", "reexp_require", "star_dynamic", "named_require", "named_dynamic"}
StaticKinds == {"none", "bare", "named", "reexp"}
QuickKinds == {"none", "bare", "named", "reexp", "dynamic", "reexp_dynamic", "named_require", "star_dynamic"}
NoDrop == {}
\* CommonJS files (wrapped in __commonJS, no static exports): none, or the last file
CjsNone == {{}}
CjsLast == {{}, {N}}
\* the chain family of the 3-file necessity configuration
ChainKinds == {"none", "reexp", "reexp_dynamic"}
\* the kinds that make each edge kind of step 6 the only keeper in a 2-file graph (quick tier)
DropQKinds == {"none", "named", "reexp", "dynamic", "reexp_dynamic"}
PureOnly == {<<FALSE, TRUE>>}
NoUses == {"none"}
AllDrops == EdgeKindNames
TinyKinds == {"none", "bare", "named"}
AnnotNonEntry == SUBSET (2..N)
AnnotNone == {{}}
AllUses == {"none", "own", "imports"}
OwnOrImports == {"own", "imports"}   \* "own" degenerates to no use in a file without a declaration
NoneOrImports == {"none", "imports"}
\* the declaration part: a pure declaration, or one with an effectful initialiser
DeclPure == {<<FALSE, TRUE>>}
DeclAny == {<<FALSE, TRUE>>, <<TRUE, FALSE>>}
DeclUnsound == {<<FALSE, TRUE>>, <<TRUE, FALSE>>, <<TRUE, TRUE>>}
=============================================================================
