------------------------- MODULE BuildContextSched -------------------------
(***************************************************************************)
(* Schedule generator for the replay binding (R) of C20: the behaviours of  *)
(* BuildContext with a history variable recording which action was taken.  *)
(* TLC -simulate produces complete behaviours (every issued call returned); *)
(* each is exported and imposed on a real api.Context through the blocking   *)
(* gates at the entry of rebuild/Cancel/Dispose, at the start of a build,    *)
(* before the second critical section and before waitGroup.Done().          *)
(***************************************************************************)
EXTENDS BuildContext, Json

VARIABLE sched
svars == <<vars, sched>>

L(name, a, b) == sched' = Append(sched, <<name, a, b>>)

SchedInit == Init /\ sched = <<>>

SchedNext ==
  \/ EditBegin /\ L("EditBegin", "", "")
  \/ EditEnd /\ L("EditEnd", "", "")
  \/ \E c \in Callers, op \in Ops : Issue(c, op) /\ L("Issue", c, op)
  \/ \E c \in Callers :
       \/ RebuildEnterDisposed(c) /\ L("Enter", c, "disposed")
       \/ RebuildEnterJoin(c) /\ L("Enter", c, "join")
       \/ RebuildEnterStart(c) /\ L("Enter", c, "start")
       \/ RebuildReturn(c) /\ L("Return", c, "rebuild")
       \/ CancelEnter(c) /\ L("Enter", c, "cancel")
       \/ CancelFlag(c) /\ L("CancelFlag", c, "")
       \/ CancelReturn(c) /\ L("Return", c, "cancel")
       \/ DisposeEnter(c) /\ L("Enter", c, "dispose")
       \/ DisposeStopWatcher(c) /\ L("Silent", c, "")
       \/ DisposeWatcherStopped(c) /\ L("Silent", c, "")
       \/ DisposeReturn(c) /\ L("Return", c, "dispose")
  \/ \E b \in Builds :
       \/ \E err \in BOOLEAN : ScanDone(b, err) /\ L("ScanDone", b, err)
       \/ CompileSample(b) /\ L("CompileSample", b, "")
       \/ CompileDone(b, FALSE) /\ L("CompileDone", b, "")
       \/ WriteDone(b) /\ L("WriteDone", b, "")
       \/ \E i \in 1..NOnEnd, f \in BOOLEAN : OnEnd(b, i, f) /\ L("OnEnd", b, <<i, f>>)
       \/ BuildEnd(b) /\ L("BuildEnd", b, "")
       \/ Publish(b) /\ L("Publish", b, "")
       \/ WgDone(b) /\ L("WgDone", b, "")

SchedSpec == SchedInit /\ [][SchedNext]_svars

Terminal ==
  /\ \A c \in Callers : left[c] = 0 /\ call[c].pc = "idle"
  /\ \A b \in Builds : build[b].phase \in {"new", "wgdone"}
  /\ fsHi = fsLo

Export == Terminal => PrintT(<<"CASE", ToJson([sched |-> sched])>>)
=============================================================================
