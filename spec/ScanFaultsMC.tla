---------------------------- MODULE ScanFaultsMC ----------------------------
(* The graph family of ScanFaults.tla (model constants).  The harness receives the graphs from TLC
   (header record) and materialises them as real projects. *)
EXTENDS ScanFaults

Gr(n, ms, imp, es, inj) == [name |-> n, modules |-> ms, imports |-> imp, entries |-> es, injected |-> inj]
Imp(ms, f(_)) == [m \in ms |-> f(m)]

ChainI(m) == CASE m = "a" -> <<"b">> [] m = "b" -> <<"c">> [] OTHER -> <<>>
DiamondI(m) == CASE m = "a" -> <<"b", "c">> [] m = "b" -> <<"d">> [] m = "c" -> <<"d">> [] OTHER -> <<>>
CycleI(m) == CASE m = "a" -> <<"b">> [] m = "b" -> <<"c">> [] m = "c" -> <<"a">> [] OTHER -> <<>>
TwoI(m) == CASE m = "a" -> <<"c">> [] m = "b" -> <<"c", "d">> [] OTHER -> <<>>
InjectI(m) == CASE m = "a" -> <<"b">> [] m = "i" -> <<"c">> [] OTHER -> <<>>
PairI(m) == CASE m = "a" -> <<"c">> [] m = "b" -> <<"c">> [] OTHER -> <<>>
InjSmallI(m) == CASE m = "i" -> <<"b">> [] OTHER -> <<>>

GraphsAll == <<
  Gr("chain", {"a", "b", "c"}, Imp({"a", "b", "c"}, ChainI), <<"a">>, <<>>),
  Gr("diamond", {"a", "b", "c", "d"}, Imp({"a", "b", "c", "d"}, DiamondI), <<"a">>, <<>>),
  Gr("cycle", {"a", "b", "c"}, Imp({"a", "b", "c"}, CycleI), <<"a">>, <<>>),
  Gr("two-entries", {"a", "b", "c", "d"}, Imp({"a", "b", "c", "d"}, TwoI), <<"a", "b">>, <<>>),
  Gr("inject", {"a", "b", "c", "i"}, Imp({"a", "b", "c", "i"}, InjectI), <<"a">>, <<"i">>) >>
GraphsQuick == <<
  Gr("chain", {"a", "b", "c"}, Imp({"a", "b", "c"}, ChainI), <<"a">>, <<>>),
  Gr("pair", {"a", "b", "c"}, Imp({"a", "b", "c"}, PairI), <<"a", "b">>, <<>>),
  Gr("inject-small", {"a", "b", "i"}, Imp({"a", "b", "i"}, InjSmallI), <<"a">>, <<"i">>) >>

AllFaults == {"none", "parse-panic", "print-panic", "chunk-panic", "load-error", "start-error", "cancel"}

ASSUME PrintT(<<"CASE", ToJson([graphs |-> [i \in 1..Len(Graphs) |->
          [name |-> Graphs[i].name, modules |-> Graphs[i].modules, imports |-> Graphs[i].imports,
           entries |-> Graphs[i].entries, injected |-> Graphs[i].injected]]])>>)
=============================================================================
