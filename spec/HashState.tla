----------------------------- MODULE HashState -----------------------------
(***************************************************************************)
(* State validation for C18: every record is a PAIR of real builds (the    *)
(* same scenario before and after one edit), each projected to its emitted *)
(* files: path (relative to the working directory), digest of the bytes,   *)
(* role (a name for "the same logical file" in both builds: entry point,   *)
(* chunk with a given set of inputs, asset of a given input, companion of  *)
(* a role), the name template that names the file (tpl: entry, chunk or    *)
(* asset, decided per output) and whether THAT template contains [hash]    *)
(* (hashed), the text found at the position of [hash] in the path (hp:      *)
(* none / ok = 8 base32 characters / empty / bad:<text>; located with a    *)
(* regular expression derived from the template), the                      *)
(* references parsed out of the emitted text (import specifiers, url(),    *)
(* asset URLs, sourceMappingURL, legal-comment link; resolved against the  *)
(* file's directory / the public path) and the number of occurrences of    *)
(* the build's unique-key prefix.  The invariants are those of Hash.tla,   *)
(* stated over the recorded data.                                           *)
(***************************************************************************)
EXTENDS Integers, Sequences, FiniteSets, TLC, Json

Records == ndJsonDeserialize("c18records.ndjson")

VARIABLE i
Init == i = 1
Next == i < Len(Records) /\ i' = i + 1
Spec == Init /\ [][Next]_i

Rec == Records[i]
ToSet(s) == {s[k] : k \in 1..Len(s)}
B1 == ToSet(Rec.b1)
B2 == ToSet(Rec.b2)
PathsOf(B) == {f.path : f \in B}

\* if two builds emit a file under the same (hashed) path then the bytes are identical
Collisions == {f1.path : f1 \in {f \in B1 : f.hashed /\ \E f2 \in B2 : f2.path = f.path /\ f2.dig # f.dig}}
SamePathSameBytes == Collisions = {}

\* roles whose bytes differ between the two builds
Changed == {f1.role : f1 \in {f \in B1 : \E f2 \in B2 : f2.role = f.role /\ f2.dig # f.dig}}
\* ... and whose change has to show in the names of the files that refer to
\* them: every chunk (hashed name or not: its isolated hash is part of its
\* importers' names) and every asset whose own template contains [hash] (an
\* asset template without [hash] opts out: importers contain only its path;
\* Hash.tla, ChangePropagatesF)
Propagating == {f1.role : f1 \in {f \in B1 : f.role \in Changed /\ (f.kind = "asset" => f.hashed)}}
\* f refers to g: by a parsed reference, or g is a companion named after f
Edge(B, f, g) == g.path \in ToSet(f.refs) \/ g.parent = f.role
RECURSIVE ReachFrom(_, _, _)
ReachFrom(B, todo, seen) ==
  IF todo = {} THEN seen
  ELSE LET f == CHOOSE x \in todo : TRUE
           nxt == {g \in B : Edge(B, f, g)}
       IN ReachFrom(B, (todo \cup nxt) \ (seen \cup {f}), seen \cup {f})
Reach(B, f) == ReachFrom(B, {f}, {})
\* a change to a file changes the name of every (hashed) file that refers to it, transitively
Stuck == {f1.role : f1 \in {f \in B1 : /\ f.hashed
                                        /\ \E g \in Reach(B1, f) : g.role \in Propagating
                                        /\ \E f2 \in B2 : f2.role = f.role /\ f2.path = f.path}}
ChangePropagates == Stuck = {}

\* every reference written into an output names a file of the same build
Unresolved(B) == UNION {{[from |-> f.path, to |-> r] : r \in {x \in ToSet(f.refs) : x \notin PathsOf(B)}} : f \in B}
RefsResolve == Unresolved(B1) = {} /\ Unresolved(B2) = {}

\* no output contains the unique-key prefix of its build
WithKeys(B) == {f.path : f \in {g \in B : g.keyhits > 0}}
NoPlaceholderSurvives == WithKeys(B1) = {} /\ WithKeys(B2) = {} /\ Rec.metakeys = 0

\* a name whose template contains [hash] carries 8 characters of the base32
\* alphabet at that position (never the empty string)
BadHash(B) == {f.path : f \in {g \in B : g.hashed /\ g.hp # "ok"}}
NoEmptyHash == BadHash(B1) = {} /\ BadHash(B2) = {}

\* roles are names: unique inside one build (otherwise the projection is wrong)
RolesUnique(B) == \A f, g \in B : f.role = g.role => f.path = g.path
WellFormed == RolesUnique(B1) /\ RolesUnique(B2)

Failing ==
  (IF SamePathSameBytes THEN {} ELSE {"SamePathSameBytes"}) \cup
  (IF ChangePropagates THEN {} ELSE {"ChangePropagates"}) \cup
  (IF RefsResolve THEN {} ELSE {"RefsResolve"}) \cup
  (IF NoPlaceholderSurvives THEN {} ELSE {"NoPlaceholderSurvives"}) \cup
  (IF NoEmptyHash THEN {} ELSE {"NoEmptyHash"}) \cup
  (IF WellFormed THEN {} ELSE {"WellFormed"})
Report == PrintT(<<"CASE", ToJson([i |-> i, failing |-> Failing, collisions |-> Collisions, stuck |-> Stuck, changed |-> Changed,
                                    unresolved |-> Unresolved(B1) \cup Unresolved(B2), withkeys |-> WithKeys(B1) \cup WithKeys(B2),
                                    badhash |-> BadHash(B1) \cup BadHash(B2)])>>)
=============================================================================
