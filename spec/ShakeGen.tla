------------------------------ MODULE ShakeGen ------------------------------
(***************************************************************************)
(* C04 scenario space, as specification data:                               *)
(*  - the FORM TABLE: statement / expression forms that hide (or do not     *)
(*    hide) an effect in each syntactic position esbuild's purity analysis  *)
(*    inspects (js_ast_helpers.go ExprCanBeRemovedIfUnused, ClassCanBe-     *)
(*    RemovedIfUnused, StmtsCanBeRemovedIfUnused, the known-global tables,  *)
(*    the pure-constructor and IIFE rules of the parser).  `P()` is the     *)
(*    hole for a probe call, `A()` the hole for a probe call whose removal  *)
(*    an annotation licenses.  GX is a global that does not exist, GP a     *)
(*    global callable Proxy every trap of which fires the probe.            *)
(*    truth = the GROUND TRUTH class "the probe fires (or something         *)
(*    throws) when the top-level statement runs": yes / no / ann (only      *)
(*    annotated probes fire).  thr = evaluation throws.                     *)
(*  - neutral CONTEXTS (<= 2 levels): outer (expression -> statement) and   *)
(*    inner (expression -> expression); xfer "same" keeps the truth of the  *)
(*    form, "never" means the wrapped code is not run by the statement.     *)
(*  - graph SHAPES: concrete module texts with the slot @S@ plus the        *)
(*    abstract Shake graph of the same modules, from which the spec         *)
(*    computes the probe events that MUST survive bundling (MustKeepParts)  *)
(*    and those that MAY vanish because an annotation licenses it.          *)
(* Exported records (PrintT CASE lines): stmt, shape, graph.                *)
(***************************************************************************)
EXTENDS Shake, Json

VO == "{ valueOf() { P(); return 1 } }"
TS == "{ toString() { P(); return 's' } }"
IT == "{ [Symbol.iterator]() { P(); return [][Symbol.iterator]() } }"
\* both conversions present: which one runs (and only that one) is observable
BOTH == "{ toString() { P('F:ts'); return 's' }, valueOf() { P('F:vo'); return 1 } }"

\* <<id, syntax, truth, throws, position label, text>>
ExprForms == <<
  \* ---- object literals
  <<"obj_getter",        "no",  FALSE, "object", "{ get g() { return P() } }">>,
  <<"obj_setter",        "no",  FALSE, "object", "{ set g(v) { P() } }">>,
  <<"obj_method",        "no",  FALSE, "object", "{ m() { P() }, n: function () { P() }, o: () => P() }">>,
  <<"obj_value",         "yes", FALSE, "object", "{ a: 1, b: P() }">>,
  <<"obj_computed_key",  "yes", FALSE, "object", "{ [P()]: 1 }">>,
  <<"obj_computed_coerce", "yes", FALSE, "object", "{ [" \o TS \o "]: 1 }">>,
  <<"obj_computed_both", "yes", FALSE, "object", "{ [" \o BOTH \o "]: 1 }">>,
  <<"obj_computed_lit",  "no",  FALSE, "object", "{ ['k']: 1, [1]: 2, [Symbol.iterator]: 3 }">>,
  <<"obj_computed_method", "yes", FALSE, "object", "{ [P()]() {} }">>,
  <<"obj_computed_getter", "yes", FALSE, "object", "{ get [P()]() { return 1 } }">>,
  <<"obj_spread_getter", "yes", FALSE, "spread", "{ ...{ get g() { return P() } } }">>,
  <<"obj_spread_plain",  "no",  FALSE, "spread", "{ ...{ a: 1 } }">>,
  <<"obj_spread_proxy",  "yes", FALSE, "spread", "{ ...GP }">>,
  <<"obj_proto_proxy",   "no",  FALSE, "object", "{ __proto__: GP }">>,
  \* ---- arrays
  <<"arr_elem",          "yes", FALSE, "array", "[1, P()]">>,
  <<"arr_plain",         "no",  FALSE, "array", "[1, 's', null, [2], { a: 3 }]">>,
  <<"arr_spread_arr",    "yes", FALSE, "spread", "[...[1, P()]]">>,
  <<"arr_spread_lit",    "no",  FALSE, "spread", "[...[1, 2]]">>,
  <<"arr_spread_iter",   "yes", FALSE, "spread", "[..." \o IT \o "]">>,
  <<"arr_spread_str",    "no",  FALSE, "spread", "[...'ab']">>,
  <<"arr_spread_num",    "yes", TRUE,  "spread", "[...1]">>,
  \* ---- template literals
  <<"tpl_hole_call",     "yes", FALSE, "template", "`a${P()}b`">>,
  <<"tpl_hole_tostring", "yes", FALSE, "template", "`a${" \o TS \o "}`">>,
  <<"tpl_hole_both",     "yes", FALSE, "template", "`a${" \o BOTH \o "}`">>,
  <<"tpl_hole_valueof",  "no",  FALSE, "template", "`a${{ valueOf() { P(); return 1 } }}`">>,
  <<"tpl_hole_prim",     "no",  FALSE, "template", "`a${1}${'s'}${null}${1n}${true}${void 0}`">>,
  <<"tpl_hole_typeof",   "no",  FALSE, "template", "`${typeof GX}${!0}${1 === 2}`">>,
  <<"tpl_hole_symbol",   "yes", TRUE,  "template", "`${Symbol.iterator}`">>,
  <<"tpl_hole_obj",      "no",  FALSE, "template", "`${{}}${[]}`">>,
  <<"tpl_plain",         "no",  FALSE, "template", "`abc`">>,
  <<"tagged_fn",         "yes", FALSE, "tagged", "(function (s) { P() })`x${1}`">>,
  <<"tagged_raw_hole",   "yes", FALSE, "tagged", "String.raw`a${P()}`">>,
  <<"tagged_raw_plain",  "no",  FALSE, "tagged", "String.raw`a${1}`">>,
  <<"tagged_proxy",      "yes", FALSE, "tagged", "GP`x`">>,
  \* ---- coercions (valueOf / toString) by operator class
  <<"co_plus",           "yes", FALSE, "coercion", VO \o " + 1">>,
  <<"co_plus_str",       "yes", FALSE, "coercion", "'' + " \o TS>>,
  <<"co_plus_both",      "yes", FALSE, "coercion", BOTH \o " + ''">>,
  <<"co_minus",          "yes", FALSE, "coercion", VO \o " - 1">>,
  <<"co_mul",            "yes", FALSE, "coercion", "2 * " \o VO>>,
  <<"co_exp",            "yes", FALSE, "coercion", VO \o " ** 2">>,
  <<"co_bitor",          "yes", FALSE, "coercion", VO \o " | 0">>,
  <<"co_shift",          "yes", FALSE, "coercion", "1 << " \o VO>>,
  <<"co_unary_minus",    "yes", FALSE, "coercion", "-" \o VO>>,
  <<"co_unary_plus",     "yes", FALSE, "coercion", "+" \o VO>>,
  <<"co_bitnot",         "yes", FALSE, "coercion", "~" \o VO>>,
  <<"co_loose_eq",       "yes", FALSE, "coercion", VO \o " == 1">>,
  <<"co_loose_ne",       "yes", FALSE, "coercion", "'s' != " \o TS>>,
  <<"co_loose_eq_null",  "no",  FALSE, "coercion", VO \o " == null">>,
  <<"co_strict_eq",      "no",  FALSE, "coercion", VO \o " === 1">>,
  <<"co_strict_ne",      "no",  FALSE, "coercion", VO \o " !== 1">>,
  <<"co_lt",             "yes", FALSE, "coercion", VO \o " < 1">>,
  <<"co_ge",             "yes", FALSE, "coercion", "'a' >= " \o TS>>,
  <<"co_not",            "no",  FALSE, "coercion", "!" \o VO>>,
  <<"co_void",           "no",  FALSE, "coercion", "void " \o VO>>,
  <<"co_typeof",         "no",  FALSE, "coercion", "typeof " \o VO>>,
  <<"co_prims_lt",       "no",  FALSE, "coercion", "[1 < 2, 'a' < 'b', 1n < 2n, 1 < '2']">>,
  <<"co_prims_plus",     "no",  FALSE, "coercion", "[1 + 's', 1 == 1, 's' != 't', -1n, +1, ~2]">>,
  <<"co_bigint_mix",     "yes", TRUE,  "coercion", "1n + 1">>,
  <<"co_bigint_unary",   "yes", TRUE,  "coercion", "+1n">>,
  <<"co_comma",          "no",  FALSE, "coercion", "(1, " \o VO \o ")">>,
  \* ---- in / instanceof
  <<"in_proxy",          "yes", FALSE, "in", "'k' in GP">>,
  <<"in_plain",          "no",  FALSE, "in", "'k' in { k: 1 }">>,
  <<"in_prim",           "yes", TRUE,  "in", "'k' in 1">>,
  <<"in_key_coerce",     "yes", FALSE, "in", TS \o " in {}">>,
  <<"instanceof_hook",   "yes", FALSE, "instanceof", "{} instanceof { [Symbol.hasInstance]() { P(); return true } }">>,
  <<"instanceof_plain",  "no",  FALSE, "instanceof", "{} instanceof Object">>,
  <<"instanceof_nonfn",  "yes", TRUE,  "instanceof", "{} instanceof {}">>,
  <<"instanceof_proxy",  "yes", FALSE, "instanceof", "{} instanceof GP">>,
  \* ---- short circuits and conditionals
  <<"nullish_live",      "yes", FALSE, "logical", "null ?? P()">>,
  <<"nullish_dead",      "no",  FALSE, "logical", "1 ?? P()">>,
  <<"or_live",           "yes", FALSE, "logical", "0 || P()">>,
  <<"or_dead",           "no",  FALSE, "logical", "1 || P()">>,
  <<"and_live",          "yes", FALSE, "logical", "1 && P()">>,
  <<"and_dead",          "no",  FALSE, "logical", "0 && P()">>,
  <<"cond_live",         "yes", FALSE, "logical", "true ? P() : 0">>,
  <<"cond_dead",         "no",  FALSE, "logical", "false ? P() : 0">>,
  \* ---- unbound globals and typeof guards
  <<"unbound_read",      "yes", TRUE,  "global", "GX">>,
  <<"unbound_typeof",    "no",  FALSE, "global", "typeof GX">>,
  <<"unbound_assign",    "yes", TRUE,  "global", "GX = 1">>,
  <<"unbound_call",      "yes", TRUE,  "global", "GX()">>,
  <<"guard_and",         "no",  FALSE, "guard", "typeof GX !== 'undefined' && GX">>,
  <<"guard_and_wrong",   "yes", TRUE,  "guard", "typeof GX === 'undefined' && GX">>,
  <<"guard_or",          "no",  FALSE, "guard", "typeof GX === 'undefined' || GX">>,
  <<"guard_or_wrong",    "yes", TRUE,  "guard", "typeof GX !== 'undefined' || GX">>,
  <<"guard_cond",        "no",  FALSE, "guard", "typeof GX === 'undefined' ? 0 : GX">>,
  <<"guard_cond_wrong",  "yes", TRUE,  "guard", "typeof GX === 'undefined' ? GX : 0">>,
  <<"guard_cond_object", "no",  FALSE, "guard", "typeof GX === 'object' ? GX : 0">>,
  <<"guard_cond_notobj", "yes", TRUE,  "guard", "typeof GX !== 'object' ? GX : 0">>,
  <<"guard_lt",          "no",  FALSE, "guard", "typeof GX < 'u' ? GX : 0">>,
  <<"guard_lt_wrong",    "yes", TRUE,  "guard", "typeof GX > 'u' ? GX : 0">>,
  <<"guard_lt_swapped",  "no",  FALSE, "guard", "'u' > typeof GX ? GX : 0">>,
  <<"guard_other_name",  "yes", TRUE,  "guard", "typeof GP !== 'undefined' && GX">>,
  <<"guard_proxy",       "no",  FALSE, "guard", "typeof GP !== 'undefined' && GP">>,
  <<"known_globals",     "no",  FALSE, "global", "[Math, Object, undefined, NaN, Infinity, JSON, Symbol, Array, Reflect]">>,
  \* ---- property access
  <<"known_props",       "no",  FALSE, "property", "[Math.PI, Object.keys, JSON.parse, Symbol.iterator, Array.isArray, Number.MAX_SAFE_INTEGER]">>,
  <<"known_obj_unknown_prop", "no", FALSE, "property", "Math.nope">>,
  <<"known_obj_deep",    "yes", TRUE,  "property", "Math.nope.deeper">>,
  <<"proxy_prop",        "yes", FALSE, "property", "GP.k">>,
  <<"proxy_index",       "yes", FALSE, "property", "GP['k' + 1]">>,
  <<"proxy_optional",    "yes", FALSE, "optional", "GP?.k">>,
  <<"proxy_optional_call", "yes", FALSE, "optional", "GP?.()">>,
  <<"optional_null",     "no",  FALSE, "optional", "null?.k">>,
  <<"optional_null_call", "no", FALSE, "optional", "(void 0)?.[P()]">>,
  <<"optional_getter",   "yes", FALSE, "optional", "({ get k() { return P() } })?.k">>,
  <<"literal_getter_read", "yes", FALSE, "property", "({ get k() { return P() } }).k">>,
  <<"null_prop",         "yes", TRUE,  "property", "null.k">>,
  <<"delete_proxy",      "yes", FALSE, "delete", "delete GP.k">>,
  <<"delete_plain",      "no",  FALSE, "delete", "delete ({ k: 1 }).k">>,
  <<"delete_frozen",     "yes", TRUE,  "delete", "delete Object.freeze({ k: 1 }).k">>,
  <<"void_call",         "yes", FALSE, "void", "void P()">>,
  <<"void_zero",         "no",  FALSE, "void", "void 0">>,
  <<"typeof_call",       "yes", FALSE, "void", "typeof P()">>,
  \* ---- new / known constructors and calls
  <<"new_set_empty",     "no",  FALSE, "new", "new Set()">>,
  <<"new_set_arr",       "no",  FALSE, "new", "new Set([1, 2])">>,
  <<"new_set_arr_call",  "yes", FALSE, "new", "new Set([P()])">>,
  <<"new_set_iter",      "yes", FALSE, "new", "new Set(" \o IT \o ")">>,
  <<"new_set_num",       "yes", TRUE,  "new", "new Set(1)">>,
  <<"new_map_pairs",     "no",  FALSE, "new", "new Map([[1, 2], [3, 4]])">>,
  <<"new_map_nonpair",   "yes", TRUE,  "new", "new Map([1])">>,
  <<"new_map_getter_entry", "yes", FALSE, "new", "new Map([{ get 0() { P(); return 1 } }])">>,
  <<"new_map_null",      "no",  FALSE, "new", "new Map(null)">>,
  <<"new_weakmap",       "no",  FALSE, "new", "new WeakMap()">>,
  <<"new_weakset_empty", "no",  FALSE, "new", "new WeakSet([])">>,
  <<"new_weakset_prim",  "yes", TRUE,  "new", "new WeakSet([1])">>,
  <<"new_weakmap_prim",  "yes", TRUE,  "new", "new WeakMap([[1, 2]])">>,
  <<"new_date",          "no",  FALSE, "new", "[new Date(), new Date(0), new Date('x'), new Date(null)]">>,
  <<"new_date_coerce",   "yes", FALSE, "new", "new Date(" \o VO \o ")">>,
  <<"new_date_tpl",      "yes", FALSE, "new", "new Date(`${" \o TS \o "}`)">>,
  <<"new_proxy",         "yes", FALSE, "new", "new GP()">>,
  <<"new_local_class",   "yes", FALSE, "new", "new (class { constructor() { P() } })()">>,
  <<"new_array",         "yes", TRUE,  "new", "new Array(-1)">>,
  <<"symbol_call",       "no",  FALSE, "call", "[Symbol(), Symbol('d'), Symbol(1)]">>,
  <<"symbol_coerce",     "yes", FALSE, "call", "Symbol(" \o TS \o ")">>,
  <<"symbol_for",        "no",  FALSE, "call", "Symbol.for('k')">>,
  <<"symbol_for_coerce", "yes", FALSE, "call", "Symbol.for(" \o TS \o ")">>,
  <<"object_create",     "no",  FALSE, "call", "[Object.create(null), Object.create({})]">>,
  <<"object_create_desc", "yes", FALSE, "call", "Object.create(null, { k: { get value() { return P() } } })">>,
  <<"object_create_prim", "yes", TRUE, "call", "Object.create(1)">>,
  <<"object_create_nulldesc", "yes", TRUE, "call", "Object.create(null, null)">>,
  <<"iife_empty",        "no",  FALSE, "iife", "(() => {})()">>,
  <<"iife_pure_body",    "no",  FALSE, "iife", "(function () { const t = 1; return t })()">>,
  <<"iife_call",         "yes", FALSE, "iife", "(() => { P() })()">>,
  <<"iife_expr_body",    "yes", FALSE, "iife", "(() => P())()">>,
  <<"iife_default_param", "yes", FALSE, "iife", "((a = P()) => {})()">>,
  <<"iife_destructure",  "yes", TRUE,  "iife", "(({ a }) => {})()">>,
  <<"iife_async",        "yes", FALSE, "iife", "(async () => { P() })()">>,
  <<"iife_arg",          "yes", FALSE, "iife", "(() => {})(P())">>,
  <<"class_expr_static", "yes", FALSE, "class", "class { static f = P() }">>,
  <<"class_expr_block",  "yes", FALSE, "class", "class { static { P() } }">>,
  <<"class_expr_plain",  "no",  FALSE, "class", "class { f = P(); m() { P() } static s() { P() } }">>,
  <<"class_expr_key",    "yes", FALSE, "class", "class { [P()]() {} }">>,
  <<"fn_expr",           "no",  FALSE, "function", "function (a = P()) { P() }">>,
  <<"regexp",            "no",  FALSE, "literal", "/a+/g">>,
  <<"this_read",         "no",  FALSE, "literal", "this">>,
  <<"literals",          "no",  FALSE, "literal", "[1, 's', 1n, null, true]">>,
  \* ---- annotated calls
  <<"pure_call",         "ann", FALSE, "annotation", "/* @__PURE__ */ A()">>,
  <<"pure_call_hash",    "ann", FALSE, "annotation", "/* #__PURE__ */ A()">>,
  <<"pure_call_arg",     "yes", FALSE, "annotation", "/* @__PURE__ */ A(P())">>,
  <<"pure_call_arg_pure", "ann", FALSE, "annotation", "/* @__PURE__ */ A(1, [2], { k: 3 })">>,
  <<"pure_new",          "ann", FALSE, "annotation", "/* @__PURE__ */ new (function () { A() })()">>,
  <<"pure_iife",         "ann", FALSE, "annotation", "/* @__PURE__ */ (() => { A() })()">>,
  <<"pure_in_seq",       "ann", FALSE, "annotation", "(/* @__PURE__ */ A(), 1)">>,
  <<"pure_member_call",  "ann", FALSE, "annotation", "/* @__PURE__ */ ({ m() { A() } }).m()">>,
  <<"pure_not_on_callee", "yes", FALSE, "annotation", "(/* @__PURE__ */ (() => () => P()))()()">>,
  <<"pure_option",       "ann", FALSE, "annotation", "PU()">>,
  <<"pure_option_arg",   "yes", FALSE, "annotation", "PU(P())">>
>>

\* statements (declarations, classes, destructuring, control flow); `top` = may only appear at the top level
StmtForms == <<
  <<"cls_static_block",   "yes", FALSE, "class", FALSE, "class K { static { P() } }">>,
  <<"cls_static_block_pure", "no", FALSE, "class", FALSE, "class K { static { const t = 1 } }">>,
  <<"cls_static_field",   "yes", FALSE, "class", FALSE, "class K { static f = P() }">>,
  <<"cls_static_private", "yes", FALSE, "class", FALSE, "class K { static #p = P() }">>,
  <<"cls_instance_field", "no",  FALSE, "class", FALSE, "class K { f = P(); #g = P() }">>,
  <<"cls_methods",        "no",  FALSE, "class", FALSE, "class K { m() { P() } static s() { P() } get g() { return P() } static get h() { return P() } constructor() { P() } }">>,
  <<"cls_computed_method", "yes", FALSE, "class", FALSE, "class K { [P()]() {} }">>,
  <<"cls_computed_static_field", "yes", FALSE, "class", FALSE, "class K { static [P()] = 1 }">>,
  <<"cls_computed_instance_field", "yes", FALSE, "class", FALSE, "class K { [P()] = 1 }">>,
  <<"cls_computed_coerce", "yes", FALSE, "class", FALSE, "class K { [" \o TS \o "]() {} }">>,
  <<"cls_computed_both",  "yes", FALSE, "class", FALSE, "class K { [" \o BOTH \o "]() {} }">>,
  <<"cls_computed_lit",   "no",  FALSE, "class", FALSE, "class K { ['m']() {} static [1] = 2; [Symbol.iterator]() {} }">>,
  <<"cls_extends_call",   "yes", FALSE, "extends", FALSE, "class K extends (P(), Object) {}">>,
  <<"cls_extends_local",  "no",  FALSE, "extends", FALSE, "class B {}\nclass K extends B {}">>,
  <<"cls_extends_null",   "no",  FALSE, "extends", FALSE, "class K extends null {}">>,
  <<"cls_extends_proxy",  "yes", FALSE, "extends", FALSE, "class K extends GP {}">>,
  <<"cls_extends_unbound", "yes", TRUE,  "extends", FALSE, "class K extends GX {}">>,
  <<"cls_extends_arrow",  "yes", TRUE,  "extends-nonconstructor", FALSE, "class K extends (() => {}) {}">>,
  <<"cls_extends_undefined", "yes", TRUE, "extends-nonconstructor", FALSE, "class K extends undefined {}">>,
  <<"cls_static_this",    "no",  FALSE, "class", FALSE, "class K { static f = this.name; static g = 1 }">>,
  <<"cls_static_getter_read", "yes", FALSE, "class", FALSE, "class K { static get g() { return P() } static f = K.g }">>,
  <<"fn_default_param",   "no",  FALSE, "function", FALSE, "function f(a = P(), { b = P() } = {}) { P() }">>,
  <<"fn_default_called",  "yes", FALSE, "function", FALSE, "function f(a = P()) {}\nf()">>,
  <<"fn_empty_arg",       "yes", FALSE, "function", FALSE, "function f() {}\nf(P())">>,
  <<"fn_empty_spread",    "yes", FALSE, "function", FALSE, "function f() {}\nf(..." \o IT \o ")">>,
  <<"fn_empty_destr",     "yes", TRUE,  "function", FALSE, "function f({ a }) {}\nf()">>,
  <<"fn_empty_new",       "yes", FALSE, "function", FALSE, "function f(a = P()) {}\nnew f()">>,
  <<"fn_identity_arg",    "yes", FALSE, "function", FALSE, "function id(x) { return x }\nid(P())">>,
  <<"fn_identity_default", "yes", FALSE, "function", FALSE, "function id(x = P()) { return x }\nid()">>,
  <<"fn_generator",       "no",  FALSE, "function", FALSE, "function* f(a = P()) { yield P() }">>,
  <<"fn_async",           "no",  FALSE, "function", FALSE, "async function f(a = P()) { await P() }">>,
  <<"destr_obj_default",  "yes", FALSE, "destructuring", FALSE, "const { a = P() } = {}">>,
  <<"destr_obj_getter",   "yes", FALSE, "destructuring", FALSE, "const { a } = { get a() { return P() } }">>,
  <<"destr_obj_plain",    "no",  FALSE, "destructuring", FALSE, "const { a } = { a: 1 }">>,
  <<"destr_obj_computed", "yes", FALSE, "destructuring", FALSE, "const { [P()]: a } = {}">>,
  <<"destr_obj_null",     "yes", TRUE,  "destructuring", FALSE, "const { a } = null">>,
  <<"destr_obj_rest_proxy", "yes", FALSE, "destructuring", FALSE, "const { ...a } = GP">>,
  <<"destr_arr_default_fires", "yes", FALSE, "destructuring", FALSE, "const [a = P()] = []">>,
  <<"destr_arr_default_silent", "no", FALSE, "destructuring", FALSE, "const [a = P()] = [1]">>,
  <<"destr_arr_plain",    "no",  FALSE, "destructuring", FALSE, "const [a, , b] = [1, 2, 3]">>,
  <<"destr_arr_iter",     "yes", FALSE, "destructuring", FALSE, "const [a] = " \o IT>>,
  <<"destr_arr_elem",     "yes", FALSE, "destructuring", FALSE, "const [a] = [P()]">>,
  <<"destr_arr_nested",   "yes", TRUE,  "destructuring", FALSE, "const [[a]] = [null]">>,
  <<"destr_arr_num",      "yes", TRUE,  "destructuring", FALSE, "const [a] = 1">>,
  <<"let_multi",          "yes", FALSE, "declaration", FALSE, "let a = 1, b = P(), c = 2">>,
  <<"var_plain",          "no",  FALSE, "declaration", FALSE, "var a = 1, b = 's', c">>,
  <<"const_fn",           "no",  FALSE, "declaration", FALSE, "const a = () => P(), b = function () { P() }">>,
  <<"const_probe_ref",    "no",  FALSE, "declaration", FALSE, "const a = P">>,
  <<"try_block",          "yes", FALSE, "control", FALSE, "try { P() } catch {}">>,
  <<"try_caught_throw",   "no",  FALSE, "control", FALSE, "try { GX } catch {}">>,
  <<"try_finally",        "yes", FALSE, "control", FALSE, "try {} finally { P() }">>,
  <<"if_test",            "yes", FALSE, "control", FALSE, "if (P()) {}">>,
  <<"if_dead",            "no",  FALSE, "control", FALSE, "if (false) { P() }">>,
  <<"for_of",             "yes", FALSE, "control", FALSE, "for (const v of [1]) P()">>,
  <<"for_in_getter",      "no",  FALSE, "control", FALSE, "for (const k in { get a() { return P() } }) {}">>,
  <<"label_block",        "yes", FALSE, "control", FALSE, "L: { P() }">>,
  <<"throw_stmt",         "yes", TRUE,  "control", FALSE, "throw new TypeError('t')">>,
  <<"nse_fn_call",        "ann", FALSE, "annotation", FALSE, "/* @__NO_SIDE_EFFECTS__ */ function nse() { A() }\nnse()">>,
  <<"nse_fn_arg",         "yes", FALSE, "annotation", FALSE, "/* @__NO_SIDE_EFFECTS__ */ function nse(x) {}\nnse(P())">>,
  <<"nse_arrow_call",     "ann", FALSE, "annotation", FALSE, "/* @__NO_SIDE_EFFECTS__ */ const nse = () => { A() }\nnse()">>,
  <<"nse_not_annotated_fn", "yes", FALSE, "annotation", FALSE, "/* @__NO_SIDE_EFFECTS__ */ function nse() {}\nfunction other() { P() }\nother()">>,
  <<"export_default_expr", "yes", FALSE, "export", TRUE, "export default (P(), 1)">>,
  <<"export_default_class", "yes", FALSE, "export", TRUE, "export default class { static { P() } }">>,
  <<"export_default_fn",  "no",  FALSE, "export", TRUE, "export default function (a = P()) { P() }">>,
  <<"export_const",       "yes", FALSE, "export", TRUE, "export const a = P()">>,
  <<"export_class",       "yes", FALSE, "export", TRUE, "export class K { static f = P() }">>
>>

\* outer contexts: expression -> statement   <<id, pre, post, xfer>>
Outer == <<
  <<"stmt",        "(", ");", "same">>,
  <<"const",       "const u = (", ");", "same">>,
  <<"export",      "export const u = (", ");", "same">>,
  <<"staticfield", "class U { static f = (", ") }", "same">>,
  <<"instfield",   "class U { f = (", ") }", "never">>,
  <<"defparam",    "function unusedFn(a = (", ")) {}", "never">>,
  <<"method",      "const u = { m() { return (", ") } };", "never">>,
  <<"destr",       "const [u = (", ")] = [];", "same">>
>>
\* inner contexts: expression -> expression
Inner == <<
  <<"arr",      "[0, (", ")]", "same">>,
  <<"seq",      "(0, (", "))", "same">>,
  <<"seqfirst", "((", "), 0)", "same">>,
  <<"objval",   "{ k: (", ") }", "same">>,
  <<"not",      "!(", ")", "same">>,
  <<"void",     "void (", ")", "same">>,
  <<"strict",   "(", ") === 0", "same">>,
  <<"nullish",  "(", ") ?? 0", "same">>,
  <<"cond",     "(", ") ? 1 : 2", "same">>,
  <<"andlive",  "1 && (", ")", "same">>,
  <<"ordead",   "1 || (", ")", "never">>,
  <<"arrow",    "() => (", ")", "never">>,
  <<"tplstr",   "`${typeof (0, (", "))}`", "same">>
>>
\* statement contexts: statement -> statement
StmtCtx == <<
  <<"plain",  "", "", "same">>,
  <<"block",  "{ ", " }", "same">>,
  <<"iftrue", "if (true) { ", " }", "same">>,
  <<"fnbody", "function unusedFn() { ", " }", "never">>,
  <<"arrowbody", "const u = () => { ", " };", "never">>
>>

Truth(t, xs) == IF "never" \in xs THEN "no" ELSE t

\* one statement = form k in outer context o (and inner context i, 0 = none)
ExprStmt(k, o, i) ==
  [rec |-> "stmt", form |-> ExprForms[k][1], syn |-> "expr", label |-> ExprForms[k][4],
   outer |-> Outer[o][1], inner |-> IF i = 0 THEN "" ELSE Inner[i][1],
   text |-> IF i = 0 THEN Outer[o][2] \o ExprForms[k][5] \o Outer[o][3]
            ELSE Outer[o][2] \o Inner[i][2] \o ExprForms[k][5] \o Inner[i][3] \o Outer[o][3],
   truth |-> Truth(ExprForms[k][2], {Outer[o][4]} \cup (IF i = 0 THEN {} ELSE {Inner[i][4]})),
   thr |-> ExprForms[k][3] /\ Outer[o][4] = "same" /\ (i = 0 \/ Inner[i][4] = "same"),
   formTruth |-> ExprForms[k][2]]
StmtStmt(k, o) ==
  [rec |-> "stmt", form |-> StmtForms[k][1], syn |-> "stmt", label |-> StmtForms[k][4],
   outer |-> StmtCtx[o][1], inner |-> "",
   text |-> StmtCtx[o][2] \o StmtForms[k][6] \o StmtCtx[o][3],
   truth |-> Truth(StmtForms[k][2], {StmtCtx[o][4]}),
   thr |-> StmtForms[k][3] /\ StmtCtx[o][4] = "same",
   formTruth |-> StmtForms[k][2]]
\* `top`-only statement forms (export ...) appear in the plain context only
StmtCtxOf(k) == {j \in 1..Len(StmtCtx) : ~StmtForms[k][5] \/ j = 1}

-----------------------------------------------------------------------------
(* Graph shapes: concrete texts and the abstract Shake graph                *)

Part0 == [declares |-> {}, uses |-> {}, effect |-> FALSE, removable |-> TRUE, force |-> FALSE, recs |-> {}, probe |-> "", entryExp |-> FALSE]
Eff(pr) == [Part0 EXCEPT !.effect = TRUE, !.removable = FALSE, !.probe = pr]
EffU(pr, us) == [Eff(pr) EXCEPT !.uses = us]
Dcl(n) == [Part0 EXCEPT !.declares = {n}]
DclU(n, us) == [Part0 EXCEPT !.declares = {n}, !.uses = us]
Imp(g) == [Part0 EXCEPT !.recs = {[kind |-> "stmt", to |-> g]}]
Dyn(pr, g) == [Eff(pr) EXCEPT !.recs = {[kind |-> "dynamic", to |-> g]}]
SlotPart == [Part0 EXCEPT !.probe = "F"]

ExpLocal(n) == [kind |-> "local", name |-> n, local |-> n, from |-> 0, fromName |-> "", part |-> 0]
ExpFrom(n, g, p) == [kind |-> "from", name |-> n, local |-> "", from |-> g, fromName |-> n, part |-> p]
ExpStar(g, p) == [kind |-> "star", name |-> "", local |-> "", from |-> g, fromName |-> "", part |-> p]
Bind(n, g) == [local |-> n, from |-> g, name |-> n]

\* the module that carries the slot: sentinels `before` / `after` delimit the statement under test
ModBody == "P('m.pre');\nexport const before = 'b';\n@S@\nexport const after = 'a';\nP('m.post');\n"
ModParts == << Eff("m.pre"), Dcl("before"), SlotPart, Dcl("after"), Eff("m.post") >>
ModExp == {ExpLocal("before"), ExpLocal("after")}
SlotIdx == 3

PkgJson(name, se) == "{ \"name\": \"" \o name \o "\", \"version\": \"1.0.0\", \"type\": \"module\", \"main\": \"index.js\"" \o se \o " }\n"
SeFalseField == ", \"sideEffects\": false"

EntryUsed(spec) == "import { before } from '" \o spec \o "';\nP('e.pre');\nP('e.use:' + before);\n"
EntryUnused(spec) == "import { before } from '" \o spec \o "';\nP('e.pre');\n"
EntryBare(spec) == "import '" \o spec \o "';\nP('e.pre');\n"
EntryUsedParts(g) == << Imp(g), Eff("e.pre"), EffU("e.use", {"before"}) >>
EntryUnusedParts(g) == << Imp(g), Eff("e.pre") >>

\* a shape: id, files (path, text), slot file id, abstract graph pieces, annotated files
\* abstract file ids: 1 entry, 2 the slot module (unless the slot is in the entry), 3/4 others
Sh(id, files, slotFile, paths, parts, imp, exp, seFalse) ==
  [id |-> id, files |-> files, slotFile |-> slotFile, paths |-> paths,
   parts |-> parts, imp |-> imp, exp |-> exp, seFalse |-> seFalse,
   \* CommonJS files; does the entry point export anything (then the harness reads every export after loading); the dimensions of the re-export family
   cjs |-> {}, cjsPaths |-> {}, readExports |-> FALSE, dims |-> [rk |-> "", se |-> "", wrap |-> "", use |-> FALSE]]

NoImp == {}
Shapes == <<
  Sh("direct_used",
     << <<"entry.js", EntryUsed("./m.js")>>, <<"m.js", ModBody>> >>, 2, <<"entry.js", "m.js">>,
     << EntryUsedParts(2), ModParts >>, << {Bind("before", 2)}, {} >>, << {}, ModExp >>, {}),
  Sh("direct_unused",
     << <<"entry.js", EntryUnused("./m.js")>>, <<"m.js", ModBody>> >>, 2, <<"entry.js", "m.js">>,
     << EntryUnusedParts(2), ModParts >>, << {Bind("before", 2)}, {} >>, << {}, ModExp >>, {}),
  Sh("bare",
     << <<"entry.js", EntryBare("./m.js")>>, <<"m.js", ModBody>> >>, 2, <<"entry.js", "m.js">>,
     << EntryUnusedParts(2), ModParts >>, << {}, {} >>, << {}, ModExp >>, {}),
  Sh("reexport",
     << <<"entry.js", EntryUsed("./r.js")>>, <<"m.js", ModBody>>,
        <<"r.js", "export { before, after } from './m.js';\nP('r.side');\n">> >>, 2, <<"entry.js", "m.js", "r.js">>,
     << EntryUsedParts(3), ModParts, << Imp(2), Eff("r.side") >> >>,
     << {Bind("before", 3)}, {}, {} >>, << {}, ModExp, {ExpFrom("before", 2, 1), ExpFrom("after", 2, 1)} >>, {}),
  Sh("star",
     << <<"entry.js", EntryUsed("./r.js")>>, <<"m.js", ModBody>>,
        <<"r.js", "export * from './m.js';\nP('r.side');\n">> >>, 2, <<"entry.js", "m.js", "r.js">>,
     << EntryUsedParts(3), ModParts, << Imp(2), Eff("r.side") >> >>,
     << {Bind("before", 3)}, {}, {} >>, << {}, ModExp, {ExpStar(2, 1)} >>, {}),
  Sh("chain",
     << <<"entry.js", EntryBare("./r.js")>>, <<"m.js", ModBody>>,
        <<"r.js", "import { before } from './m.js';\nexport const viaR = before;\nP('r.side');\n">> >>, 2, <<"entry.js", "m.js", "r.js">>,
     << EntryUnusedParts(3), ModParts, << Imp(2), DclU("viaR", {"before"}), Eff("r.side") >> >>,
     << {}, {}, {Bind("before", 2)} >>, << {}, ModExp, {ExpLocal("viaR")} >>, {}),
  Sh("dynamic",
     << <<"entry.js", "P('e.pre');\nimport('./m.js').then((ns) => P('e.then:' + ns.before), (err) => P('e.catch:' + err.name));\n">>,
        <<"m.js", ModBody>> >>, 2, <<"entry.js", "m.js">>,
     << << Eff("e.pre"), Dyn("e.then", 2) >>, ModParts >>, << {}, {} >>, << {}, ModExp >>, {}),
  Sh("inentry",
     << <<"entry.js", "P('m.pre');\nconst before = 'b';\n@S@\nconst after = 'a';\nP('m.post');\n">> >>, 1, <<"entry.js">>,
     << ModParts >>, << {} >>, << {} >>, {}),
  Sh("pkg_used",
     << <<"entry.js", EntryUsed("pkg")>>, <<"node_modules/pkg/index.js", ModBody>>,
        <<"node_modules/pkg/package.json", PkgJson("pkg", SeFalseField)>> >>, 2, <<"entry.js", "node_modules/pkg/index.js">>,
     << EntryUsedParts(2), ModParts >>, << {Bind("before", 2)}, {} >>, << {}, ModExp >>, {2}),
  Sh("pkg_unused",
     << <<"entry.js", EntryUnused("pkg")>>, <<"node_modules/pkg/index.js", ModBody>>,
        <<"node_modules/pkg/package.json", PkgJson("pkg", SeFalseField)>> >>, 2, <<"entry.js", "node_modules/pkg/index.js">>,
     << EntryUnusedParts(2), ModParts >>, << {Bind("before", 2)}, {} >>, << {}, ModExp >>, {2}),
  Sh("pkg_bare",
     << <<"entry.js", EntryBare("pkg")>>, <<"node_modules/pkg/index.js", ModBody>>,
        <<"node_modules/pkg/package.json", PkgJson("pkg", SeFalseField)>> >>, 2, <<"entry.js", "node_modules/pkg/index.js">>,
     << EntryUnusedParts(2), ModParts >>, << {}, {} >>, << {}, ModExp >>, {2}),
  Sh("pkg_reexport",
     << <<"entry.js", EntryUsed("pkg")>>, <<"node_modules/pkg/m.js", ModBody>>,
        <<"node_modules/pkg/index.js", "export { before, after } from './m.js';\nP('r.side');\n">>,
        <<"node_modules/pkg/package.json", PkgJson("pkg", SeFalseField)>> >>, 2,
     <<"entry.js", "node_modules/pkg/m.js", "node_modules/pkg/index.js">>,
     << EntryUsedParts(3), ModParts, << Imp(2), Eff("r.side") >> >>,
     << {Bind("before", 3)}, {}, {} >>, << {}, ModExp, {ExpFrom("before", 2, 1), ExpFrom("after", 2, 1)} >>, {2, 3}),
  Sh("sibling",
     << <<"entry.js", "import 'pa';\nimport { before } from 'pb';\nP('e.pre');\n">>,
        <<"package.json", PkgJson("root", SeFalseField)>>,
        <<"node_modules/pb/index.js", ModBody>>, <<"node_modules/pb/package.json", PkgJson("pb", "")>>,
        <<"node_modules/pa/index.js", "P('a.side');\nexport const pa = 1;\n">>,
        <<"node_modules/pa/package.json", PkgJson("pa", SeFalseField)>> >>, 2,
     <<"entry.js", "node_modules/pb/index.js", "node_modules/pa/index.js">>,
     << << Imp(3), Imp(2), Eff("e.pre") >>, ModParts, << Eff("a.side"), Dcl("pa") >> >>,
     << {Bind("before", 2)}, {}, {} >>, << {}, ModExp, {ExpLocal("pa")} >>, {1, 3}),
  Sh("sidearray",
     << <<"entry.js", "import 'pkg/fx.js';\nimport 'pkg/index.js';\nP('e.pre');\n">>,
        <<"node_modules/pkg/fx.js", ModBody>>,
        <<"node_modules/pkg/index.js", "P('r.side');\nexport const idx = 1;\n">>,
        <<"node_modules/pkg/package.json", PkgJson("pkg", ", \"sideEffects\": [\"./fx.js\"]")>> >>, 2,
     <<"entry.js", "node_modules/pkg/fx.js", "node_modules/pkg/index.js">>,
     << << Imp(2), Imp(3), Eff("e.pre") >>, ModParts, << Eff("r.side"), Dcl("idx") >> >>,
     << {}, {}, {} >>, << {}, ModExp, {ExpLocal("idx")} >>, {3})
>>

-----------------------------------------------------------------------------
(* The entry point RE-EXPORT family: the cross product                       *)
(*   {re-export kind: export {..} from | export * from | import-then-export}  *)
(* x {sideEffects of the target package: true (no field) | false | array     *)
(*    pattern that does not match the file}                                   *)
(* x {wrap of the target: none | esm wrapped lazily because it is ALSO the    *)
(*    target of import() | ... of require() | a CommonJS file}                *)
(* x {the entry point uses the binding itself or not}.                        *)
(* The entry point exports bindings it does not declare: after loading the    *)
(* bundle every export is read (value, typeof, exported functions called)     *)
(* and compared with the native module graph.                                 *)

TgtBody == "P('m.pre');\nexport const before = 'b';\n@S@\nexport const after = 'a';\nexport function describe() { return 'd:' + before + after; }\nP('m.post');\n"
TgtParts == << Eff("m.pre"), Dcl("before"), SlotPart, Dcl("after"), DclU("describe", {"before", "after"}), Eff("m.post") >>
TgtExp == {ExpLocal("before"), ExpLocal("after"), ExpLocal("describe")}
TgtCjsBody == "P('m.pre');\nexports.before = 'b';\nexports.after = 'a';\nexports.describe = function () { return 'd:' + exports.before + exports.after; };\nP('m.post');\n"
TgtCjsParts == << Eff("m.pre"), Eff("m.post") >>
PkgJsonCjs(name, se) == "{ \"name\": \"" \o name \o "\", \"version\": \"1.0.0\", \"main\": \"index.js\"" \o se \o " }\n"

RKs == <<"from", "star", "impexp">>
SEs == <<"true", "false", "array">>
WRs == <<"none", "dyn", "req", "cjs">>
SeField(se) == CASE se = "true" -> "" [] se = "false" -> SeFalseField [] OTHER -> ", \"sideEffects\": [\"./fx.js\"]"

ExNames == "before, after, describe"
ExHead(rk) == CASE rk = "from" -> "export { " \o ExNames \o " } from 'pkg';\n"
                [] rk = "star" -> "export * from 'pkg';\n"
                [] OTHER -> "import { " \o ExNames \o " } from 'pkg';\nexport { " \o ExNames \o " };\n"
ExUseImport(rk, use) == IF use /\ rk # "impexp" THEN "import { before as ub } from 'pkg';\n" ELSE ""
ExWrapText(wr) == CASE wr = "dyn" -> "import('pkg').then((ns) => P('e.then:' + ns.before), (err) => P('e.catch:' + err.name));\n"
                    [] wr = "req" -> "P('e.req:' + require('pkg').after);\n"
                    [] OTHER -> ""
ExUseText(rk, use) == IF ~use THEN "" ELSE IF rk = "impexp" THEN "P('e.use:' + before);\n" ELSE "P('e.use:' + ub);\n"
ExEntryText(rk, wr, use) == ExHead(rk) \o ExUseImport(rk, use) \o "P('e.pre');\n" \o ExWrapText(wr) \o ExUseText(rk, use)

EntryExpPart == [Part0 EXCEPT !.removable = FALSE, !.entryExp = TRUE]
ExWrapParts(wr) == CASE wr = "dyn" -> << Dyn("e.then", 2) >>
                     [] wr = "req" -> << [Eff("e.req") EXCEPT !.recs = {[kind |-> "require", to |-> 2]}] >>
                     [] OTHER -> << >>
\* part 1 is always the re-export / import statement (ExpFrom / ExpStar name it)
ExEntryParts(rk, wr, use) ==
  << Imp(2) >> \o (IF use /\ rk # "impexp" THEN << Imp(2) >> ELSE << >>) \o << Eff("e.pre") >> \o ExWrapParts(wr)
  \o (IF use THEN << EffU("e.use", {IF rk = "impexp" THEN "before" ELSE "ub"}) >> ELSE << >>) \o << EntryExpPart >>
ExEntryImp(rk, use) ==
  (IF rk = "impexp" THEN {Bind("before", 2), Bind("after", 2), Bind("describe", 2)} ELSE {})
  \cup (IF use /\ rk # "impexp" THEN {[local |-> "ub", from |-> 2, name |-> "before"]} ELSE {})
ExEntryExp(rk) == CASE rk = "from" -> {ExpFrom("before", 2, 1), ExpFrom("after", 2, 1), ExpFrom("describe", 2, 1)}
                    [] rk = "star" -> {ExpStar(2, 1)}
                    [] OTHER -> {ExpLocal("before"), ExpLocal("after"), ExpLocal("describe")}

ExShape(rk, se, wr, use) ==
  LET cjs == wr = "cjs"
      idx == "node_modules/pkg/index.js"
  IN [Sh("ex_" \o rk \o "_" \o se \o "_" \o wr \o "_" \o (IF use THEN "u" ELSE "n"),
         << <<"entry.js", ExEntryText(rk, wr, use)>>,
            <<idx, IF cjs THEN TgtCjsBody ELSE TgtBody>>,
            <<"node_modules/pkg/package.json", IF cjs THEN PkgJsonCjs("pkg", SeField(se)) ELSE PkgJson("pkg", SeField(se))>> >>,
         IF cjs THEN 0 ELSE 2, <<"entry.js", idx>>,
         << ExEntryParts(rk, wr, use), IF cjs THEN TgtCjsParts ELSE TgtParts >>,
         << ExEntryImp(rk, use), {} >>, << ExEntryExp(rk), IF cjs THEN {} ELSE TgtExp >>,
         IF se = "true" THEN {} ELSE {2})
      EXCEPT !.cjs = IF cjs THEN {2} ELSE {}, !.cjsPaths = IF cjs THEN {idx} ELSE {}, !.readExports = TRUE,
             !.dims = [rk |-> rk, se |-> se, wrap |-> wr, use |-> use]]

\* `export *` of a CommonJS file is resolved at run time (__reExport): the entry point's export names are not static; left out
ExCombos == {c \in (1..3) \X (1..3) \X (1..4) \X BOOLEAN : ~(RKs[c[1]] = "star" /\ WRs[c[3]] = "cjs")}
RECURSIVE SeqOfCombos(_)
ComboKey(c) == c[1] * 1000 + c[2] * 100 + c[3] * 10 + (IF c[4] THEN 1 ELSE 0)
SeqOfCombos(S) == IF S = {} THEN << >> ELSE LET m == CHOOSE m \in S : \A k \in S : ComboKey(m) <= ComboKey(k) IN << m >> \o SeqOfCombos(S \ {m})
ExShapes == LET cs == SeqOfCombos(ExCombos) IN [k \in 1..Len(cs) |-> ExShape(RKs[cs[k][1]], SEs[cs[k][2]], WRs[cs[k][3]], cs[k][4])]
AllShapes == Shapes \o ExShapes

\* the abstract graph of shape s when the slot statement has ground truth t
ShapeGraph(s, slotEffect, ignoreAnn) ==
  LET n == Len(s.parts) IN
  [files |-> 1..n, entry |-> {1}, seFalse |-> s.seFalse, cjs |-> s.cjs, ts |-> TRUE, ignoreAnn |-> ignoreAnn,
   part |-> [f \in 1..n |-> IF f = s.slotFile
                THEN [s.parts[f] EXCEPT ![SlotIdx] = [@ EXCEPT !.effect = slotEffect, !.removable = ~slotEffect]]
                ELSE s.parts[f]],
   imp |-> [f \in 1..n |-> s.imp[f]],
   exp |-> [f \in 1..n |-> s.exp[f]]]

ProbesOf(Gr, refs) == {Gr.part[r[1]][r[2]].probe : r \in refs} \ {""}

GraphRecord(s, t, ign) ==
  LET eff == (t = "yes") \/ (t = "ann" /\ ign)
      Gr == ShapeGraph(s, eff, ign)
      GrE == ShapeGraph(s, TRUE, ign)
      keep == MustKeepParts(Gr)
      keepE == IF eff THEN keep ELSE MustKeepParts(GrE)
      all == {r \in EffectParts(Gr) : r[1] \in NativeFiles(Gr)}
      fname == IF t = "ann" THEN "F.ann" ELSE "F"
      ren(S) == {IF x = "F" THEN fname ELSE x : x \in S}
  IN [rec |-> "graph", shape |-> s.id, truth |-> t, ignoreAnn |-> ign,
      mustKeep |-> ren(ProbesOf(Gr, keep)),
      mayVanish |-> ren(ProbesOf(Gr, all \ keep)) \cup (IF t = "ann" /\ ~ign THEN {"F.ann"} ELSE {}),
      \* (a shape without a slot -- CommonJS target -- does not contain the statement at all)
      native |-> ren(ProbesOf(Gr, all)) \cup (IF t = "ann" /\ s.slotFile # 0 THEN {"F.ann"} ELSE {}),
      \* may an ANNOTATED probe inside a statement that otherwise must stay vanish?
      annKeep |-> ign /\ <<s.slotFile, SlotIdx>> \in keepE,
      \* is the slot statement one that the bundle must execute if it has an effect?
      slotKept |-> <<s.slotFile, SlotIdx>> \in keepE,
      \* the design keeps the exported bindings initialised on this graph (checked here, on the model)
      exportsInit |-> ExportsInitialisedOn(Gr, LiveOf(Gr)),
      \* wrap kind per file and the entry point's exported names, as the model derives them (cross-checked against link.done)
      wrap |-> [f \in 1..Len(s.parts) |-> WrapOf(Gr, f)],
      exportNames |-> ExportNames(Gr, 1)]

ShapeRecord(s) ==
  [rec |-> "shape", id |-> s.id, slotFile |-> IF s.slotFile = 0 THEN "" ELSE s.paths[s.slotFile], paths |-> s.paths,
   files |-> [k \in 1..Len(s.files) |-> [path |-> s.files[k][1], text |-> s.files[k][2]]],
   annotated |-> {s.paths[f] : f \in s.seFalse},
   cjs |-> s.cjsPaths, readExports |-> s.readExports, dims |-> s.dims]

VARIABLE x
Init0 == x = 0
Next0 == x' = x
GenSpec == Init0 /\ [][Next0]_x

Export ==
  /\ \A k \in 1..Len(ExprForms) : \A o \in 1..Len(Outer) : \A i \in 0..Len(Inner) : PrintT(<<"CASE", ToJson(ExprStmt(k, o, i))>>)
  /\ \A k \in 1..Len(StmtForms) : \A o \in StmtCtxOf(k) : PrintT(<<"CASE", ToJson(StmtStmt(k, o))>>)
  /\ \A k \in 1..Len(AllShapes) : PrintT(<<"CASE", ToJson(ShapeRecord(AllShapes[k]))>>)
  /\ \A k \in 1..Len(AllShapes) : \A t \in {"yes", "no", "ann"} : \A ign \in BOOLEAN :
        PrintT(<<"CASE", ToJson(GraphRecord(AllShapes[k], t, ign))>>)

\* sanity of the table itself
FormIds == {ExprForms[k][1] : k \in 1..Len(ExprForms)} \cup {StmtForms[k][1] : k \in 1..Len(StmtForms)}
ASSUME Cardinality(FormIds) = Len(ExprForms) + Len(StmtForms)
ASSUME \A k \in 1..Len(ExprForms) : ExprForms[k][2] \in {"yes", "no", "ann"}
ASSUME \A k \in 1..Len(StmtForms) : StmtForms[k][2] \in {"yes", "no", "ann"}
\* throwing is an effect
ASSUME \A k \in 1..Len(ExprForms) : ExprForms[k][3] => ExprForms[k][2] = "yes"
\* (the harness checks on the exported graph records that in the un-annotated
\* family, and whenever annotations are ignored, nothing may vanish)
ASSUME Export
=============================================================================
