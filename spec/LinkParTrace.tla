---------------------------- MODULE LinkParTrace ----------------------------
(***************************************************************************)
(* Trace validation of the compile phase: the link.excl.run /              *)
(* link.excl.leave hook events of real builds (one block per build,        *)
(* separated by reset events) must be behaviours of LinkPar.  The steps    *)
(* that leave no event (Start, PreRun, Arrive, Post, PostRun) are taken    *)
(* lazily, only for the linker the next event is about (they commute with  *)
(* the steps of the other linkers), which keeps the search linear.         *)
(***************************************************************************)
EXTENDS LinkParMC, TLCExt

TraceLog == ndJsonDeserialize("linktrace.ndjson")
VARIABLE l
tvars == <<vars, l>>
Ev == TraceLog[l]
IsEv(n) == l <= Len(TraceLog) /\ TraceLog[l].ev = n
Consume == l' = l + 1
TraceInit == Init /\ l = 1 /\ TLCSet(1, 1)

TrReset ==
  /\ IsEv("reset") /\ Consume
  /\ pc' = [i \in I |-> "idle"] /\ left' = calls /\ flag' = [i \in I |-> 1]
  /\ token' = 0 /\ queue' = <<>> /\ used' = {} /\ log' = <<>>
  /\ cache' = [p \in AllProps |-> NoName]
  /\ out' = [i \in I |-> EmptyOut] /\ exec' = <<>> /\ hist' = <<>>
  /\ UNCHANGED inputs

TrRun   == IsEv("run") /\ Ev.i \in I /\ Consume /\ Enter(Ev.i)
TrLeave == IsEv("leave") /\ Ev.i \in I /\ Consume /\ Leave(Ev.i)
\* api.Build returned: every linker is done
TrDone  == IsEv("done") /\ Consume /\ AllDone /\ UNCHANGED vars

Silent ==
  /\ l' = l
  /\ \/ /\ IsEv("run") /\ Ev.i \in I
        /\ Start(Ev.i) \/ PreRun(Ev.i) \/ Arrive(Ev.i)
     \/ /\ IsEv("done")
        /\ \E j \in I : /\ \A k \in I : k < j => pc[k] = "done"
                        /\ Post(j) \/ PostRun(j)

TraceNext == TrReset \/ TrRun \/ TrLeave \/ TrDone \/ Silent
TraceSpec == TraceInit /\ [][TraceNext]_tvars
HighWater == IF l > TLCGet(1) THEN TLCSet(1, l) ELSE TRUE
TraceAccepted == PrintT(<<"HIGHWATER", TLCGet(1)>>) /\ TLCGet(1) = Len(TraceLog) + 1
=============================================================================
