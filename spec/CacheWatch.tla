----------------------------- MODULE CacheWatch -----------------------------
(***************************************************************************)
(* C09, watch data by observation kind (internal/fs/fs_real.go).           *)
(*                                                                         *)
(* Cache.tla models the watch predicates of files and of individually      *)
(* probed directory entries.  This module models the per-path watch record *)
(* of fs_real.go as the state machine it is:                               *)
(*                                                                         *)
(*   st   none | entries | unreadable | needmk | hasmk | missing           *)
(*   all  has the complete listing been taken (DirEntries.SortedKeys():    *)
(*        accessedEntries.allEntries != nil, possibly EMPTY)               *)
(*   ls   that listing           pr  the names probed individually         *)
(*   mk   the mod key            c   the contents                          *)
(*                                                                         *)
(* and the four operations that write it: ReadDirectory (RD, overwrites    *)
(* the record), SortedKeys (SK), ModKey (MKop), ReadFile (RF).  ONE path   *)
(* can be observed by several operations of different kinds in one build   *)
(* (node_modules/foo.js is first listed as a directory by the resolver's   *)
(* dirInfoCached and then read as a file); which record survives depends   *)
(* on the order and on whether the FS cache hits (a hit skips RF).         *)
(*                                                                         *)
(* Tree (harness/props/c09/enum.go materialises exactly this):             *)
(*   entry  entry.js   imports "foo.js", "virtual:list", has a glob import *)
(*                     import("./pages/" + n + ".mjs") and a glob require  *)
(*                     require("./parts/" + n + ".js")                     *)
(*   foo    node_modules/foo.js       a single FILE in node_modules        *)
(*   pages  pages/     pa pages/a.mjs (matches)  pb pages/b.txt (does not) *)
(*   parts  parts/     pp parts/p.js                                       *)
(*   wd     wd/        wdf wd/f.txt   a plugin returns WatchDirs = [wd]    *)
(*   wf     wf.txt     the same plugin returns WatchFiles = [wf.txt]       *)
(* A directory is missing | file | dir (dir: its listing is the set of its *)
(* children that exist; it can be EMPTY).                                  *)
(***************************************************************************)
EXTENDS Integers, Sequences, FiniteSets, TLC, Json

CONSTANTS
  MaxEdits,        \* length of the edit histories
  ModKeyUpgrades,  \* BOOLEAN: does ModKey() replace an "unreadable" record of an existing file? (design: TRUE)
  Inits,           \* subset of {"full", "empty", "none"}: the initial trees
  Export           \* BOOLEAN: print a CASE record for every complete history

VARIABLES
  dk,     \* [Dirs -> {"missing", "file", "dir"}]
  fl,     \* [Files -> [k, c, m]]
  now,    \* clock (every edit advances it beyond the mod-key gap: mod keys are usable)
  fsc,    \* FSCache [Files -> [has, mk, c]]
  watch,  \* watch records of the last build [WKeys -> record]
  fres,   \* result of a fresh build of the current tree
  init,   \* name of the initial tree
  hist, exp, phase, last

vars == <<dk, fl, now, fsc, watch, fres, init, hist, exp, phase, last>>

Files == {"entry", "foo", "pa", "pb", "pp", "wdf", "wf"}
Dirs  == {"pages", "parts", "wd"}
WKeys == Files \cup Dirs
Parent(f) == CASE f \in {"pa", "pb"} -> "pages" [] f = "pp" -> "parts" [] f = "wdf" -> "wd" [] OTHER -> "root"
Children(d) == {f \in Files : Parent(f) = d}
Listing(f, d) == {x \in Children(d) : f[x].k = "file"}

NoFile == [k |-> "missing", c |-> 0, m |-> 0]
NoW == [st |-> "none", all |-> FALSE, ls |-> {}, pr |-> {}, mk |-> -1, c |-> 0]
EmptyFsc == [p \in Files |-> [has |-> FALSE, mk |-> -1, c |-> 0]]

----------------------------------------------------------------------------
(* The operations of realFS that write watch data                          *)

\* ReadDirectory: fs.watchData[dir] = privateWatchData{accessedEntries, state} (a fresh record)
RD(W, p, isdir) == [W EXCEPT ![p] = [NoW EXCEPT !.st = IF isdir THEN "entries" ELSE "unreadable"]]
\* DirEntries.SortedKeys(): allEntries = the sorted listing (non-nil also when empty); the
\* glob walk then calls Get(key) for every key
SK(W, p, ls) == [W EXCEPT ![p].all = TRUE, ![p].ls = ls, ![p].pr = ls]
\* ModKey
MKop(W, p, f) ==
  LET st == W[p].st
      st2 == IF st = "none" THEN (IF f.k = "file" THEN "hasmk" ELSE "missing")
             ELSE IF st = "needmk" THEN "hasmk"
             ELSE IF ModKeyUpgrades /\ st = "unreadable" /\ f.k = "file" THEN "hasmk"
             ELSE st
  IN [W EXCEPT ![p].st = st2, ![p].mk = IF f.k = "file" THEN f.m ELSE -1]
\* ReadFile
RF(W, p, f) ==
  LET st == W[p].st
      st2 == IF f.k # "file" THEN "missing" ELSE IF st \in {"none", "unreadable"} THEN "needmk" ELSE st
  IN [W EXCEPT ![p].st = st2, ![p].c = f.c]
\* WatchData(): needmk -> hasmk (mod keys are usable in this model)
Final(W, f) == [p \in WKeys |-> IF W[p].st = "needmk" THEN [W[p] EXCEPT !.st = "hasmk", !.mk = f[p].m] ELSE W[p]]

\* cache.FSCache.ReadFile: ModKey first; on a hit the file is not read
ReadCached(W, fc, p, f) ==
  LET W1 == MKop(W, p, f[p])
      hit == f[p].k = "file" /\ fc[p].has /\ fc[p].mk = f[p].m
  IN IF hit THEN [W |-> W1, fc |-> fc, c |-> fc[p].c, hit |-> {p}]
     ELSE IF f[p].k = "file"
          THEN [W |-> RF(W1, p, f[p]), fc |-> [fc EXCEPT ![p] = [has |-> TRUE, mk |-> f[p].m, c |-> f[p].c]], c |-> f[p].c, hit |-> {}]
          ELSE [W |-> RF(W1, p, f[p]), fc |-> fc, c |-> 0, hit |-> {}]

\* dirInfoCached(dir) [+ SortedKeys() when it is a directory]: glob import/require, WatchDirs
DirEnum(W, p, d, f) == IF d[p] = "dir" THEN SK(RD(W, p, TRUE), p, Listing(f, p)) ELSE RD(W, p, FALSE)

----------------------------------------------------------------------------
(* One build of the tree (d, f) through the FS cache fc0                   *)

Build(d, f, fc0) ==
  LET W0 == [p \in WKeys |-> NoW]
      r1 == ReadCached(W0, fc0, "entry", f)
      \* import "foo.js": dirInfoCached(node_modules/foo.js) lists the FILE as a directory, then it is read
      r2 == ReadCached(RD(r1.W, "foo", FALSE), r1.fc, "foo", f)
      \* plugin result: WatchFiles = [wf.txt] (fsCache.ReadFile), WatchDirs = [wd] (ReadDirectory + SortedKeys)
      r3 == ReadCached(r2.W, r2.fc, "wf", f)
      w4 == DirEnum(r3.W, "wd", d, f)
      \* glob import over pages/, matching files are loaded
      w5 == DirEnum(w4, "pages", d, f)
      r5 == IF d["pages"] = "dir" /\ f["pa"].k = "file" THEN ReadCached(w5, r3.fc, "pa", f)
            ELSE [W |-> w5, fc |-> r3.fc, c |-> 0, hit |-> {}]
      \* glob require over parts/
      w6 == DirEnum(r5.W, "parts", d, f)
      r6 == IF d["parts"] = "dir" /\ f["pp"].k = "file" THEN ReadCached(w6, r5.fc, "pp", f)
            ELSE [W |-> w6, fc |-> r5.fc, c |-> 0, hit |-> {}]
      W == Final(r6.W, f)
  IN [watch |-> W, fc |-> r6.fc,
      hits |-> r1.hit \cup r2.hit \cup r3.hit \cup r5.hit \cup r6.hit,
      \* a glob whose directory is missing (or is a file) is an error ("Could not resolve import(...)"):
      \* the build fails and only its diagnostics remain observable; a directory without a
      \* matching file is a warning
      res |-> IF d["pages"] = "dir" /\ d["parts"] = "dir"
              THEN [entry |-> r1.c, foo |-> r2.c, wf |-> r3.c,
                    wd |-> IF d["wd"] = "dir" THEN Listing(f, "wd") ELSE {"<nodir>"},
                    pages |-> <<"dir", r5.c>>, parts |-> <<"dir", r6.c>>]
              ELSE [entry |-> 0, foo |-> 0, wf |-> 0, wd |-> {},
                    pages |-> <<IF d["pages"] # "dir" THEN "nodir" ELSE IF r5.c = 0 THEN "warn" ELSE "dir", 0>>,
                    parts |-> <<IF d["parts"] # "dir" THEN "nodir" ELSE IF r6.c = 0 THEN "warn" ELSE "dir", 0>>]]

Fresh(d, f) == Build(d, f, EmptyFsc).res

\* does the predicate of record w for path p still hold on the tree (d, f)?
Holds(w, p, d, f) ==
  CASE w.st = "unreadable" -> ~(p \in Dirs /\ d[p] = "dir")            \* "readdir still fails"
    [] w.st = "entries"    -> /\ p \in Dirs /\ d[p] = "dir"
                              /\ IF w.all THEN Listing(f, p) = w.ls     \* compare the complete listing
                                 ELSE w.pr \subseteq Listing(f, p)      \* compare the probed names only
    [] w.st = "missing"    -> f[p].k # "file"
    [] w.st = "hasmk"      -> f[p].k = "file" /\ f[p].m = w.mk
    [] OTHER               -> TRUE

DirtyOf(W, d, f) == {p \in WKeys : ~Holds(W[p], p, d, f)}

----------------------------------------------------------------------------
(* The edit alphabet                                                       *)

E(op, p) == [op |-> op, p |-> p]
Edits ==
  {E("write", p) : p \in {q \in {"entry", "foo", "pa", "pp", "wf"} : fl[q].k = "file"}}
  \cup {E("create", p) : p \in {q \in {"pa", "pb", "pp", "wdf"} : fl[q].k = "missing" /\ dk[Parent(q)] = "dir"}}
  \cup {E("create", p) : p \in {q \in {"wf"} : fl[q].k = "missing"}}
  \cup {E("delete", p) : p \in {q \in {"pa", "pb", "pp", "wdf", "wf"} : fl[q].k = "file"}}
  \cup {E("mkdir", p) : p \in {q \in Dirs : dk[q] = "missing"}}
  \cup {E("rmdir", p) : p \in {q \in Dirs : dk[q] = "dir"}}
  \cup {E("tofile", p) : p \in {q \in {"pages"} : dk[q] = "dir"}}
  \cup {E("todir", p) : p \in {q \in {"pages"} : dk[q] = "file"}}

ApplyF(e) ==
  CASE e.op = "write"  -> [fl EXCEPT ![e.p] = [@ EXCEPT !.c = 3 - @, !.m = now]]
    [] e.op = "create" -> [fl EXCEPT ![e.p] = [k |-> "file", c |-> 1, m |-> now]]
    [] e.op = "delete" -> [fl EXCEPT ![e.p] = NoFile]
    [] e.op \in {"rmdir", "tofile"} -> [x \in Files |-> IF Parent(x) = e.p THEN NoFile ELSE fl[x]]
    [] OTHER -> fl
ApplyD(e) ==
  CASE e.op \in {"mkdir", "todir"} -> [dk EXCEPT ![e.p] = "dir"]
    [] e.op = "rmdir"  -> [dk EXCEPT ![e.p] = "missing"]
    [] e.op = "tofile" -> [dk EXCEPT ![e.p] = "file"]
    [] OTHER -> dk

InitTree(n) ==
  CASE n = "full"  -> [d |-> [x \in Dirs |-> "dir"], f |-> [x \in Files |-> [k |-> "file", c |-> 1, m |-> 0]]]
    [] n = "empty" -> [d |-> [x \in Dirs |-> "dir"],
                       f |-> [x \in Files |-> IF x \in {"entry", "foo", "wf"} THEN [k |-> "file", c |-> 1, m |-> 0] ELSE NoFile]]
    [] n = "none"  -> [d |-> [x \in Dirs |-> "missing"],
                       f |-> [x \in Files |-> IF x \in {"entry", "foo"} THEN [k |-> "file", c |-> 1, m |-> 0] ELSE NoFile]]

NoFlags == [stale |-> FALSE, changed |-> FALSE, missed |-> FALSE, dirty |-> {}, wellformed |-> TRUE, weaker |-> {}]

Init ==
  /\ init \in Inits
  /\ dk = InitTree(init).d /\ fl = InitTree(init).f
  /\ now = 10
  /\ fsc = EmptyFsc
  /\ watch = [p \in WKeys |-> NoW]
  /\ fres = Fresh(dk, fl)
  /\ hist = <<>> /\ exp = <<>>
  /\ phase = "build"
  /\ last = NoFlags

DoBuild ==
  /\ phase = "build"
  /\ LET b == Build(dk, fl, fsc)
         \* paths read as a FILE by this build whose surviving record is the weaker "unreadable"
         weaker == {p \in Files : fl[p].k = "file" /\ b.watch[p].st = "unreadable"}
         exp2 == IF hist = <<>> THEN exp
                 ELSE Append(exp, [changed |-> last.changed, dirty |-> last.dirty, missed |-> last.missed,
                                   weaker |-> last.weaker, hits |-> b.hits])
     IN /\ fsc' = b.fc /\ watch' = b.watch /\ exp' = exp2
        /\ last' = [last EXCEPT !.stale = (b.res # fres), !.weaker = weaker,
                                !.wellformed = (DirtyOf(b.watch, dk, fl) = {})]
        /\ IF Export /\ Len(hist) = MaxEdits
           THEN PrintT(<<"CASE", ToJson([init |-> init, edits |-> hist, expect |-> exp2])>>) ELSE TRUE
  /\ phase' = "edit"
  /\ UNCHANGED <<dk, fl, now, fres, init, hist>>

DoEdit ==
  /\ phase = "edit"
  /\ Len(hist) < MaxEdits
  /\ \E e \in Edits :
       LET f2 == ApplyF(e)
           d2 == ApplyD(e)
           after == Fresh(d2, f2)
           dirty == DirtyOf(watch, d2, f2)
       IN /\ fl' = f2 /\ dk' = d2 /\ now' = now + 10 /\ fres' = after
          /\ hist' = Append(hist, e)
          /\ last' = [last EXCEPT !.changed = (fres # after), !.dirty = dirty, !.missed = (fres # after /\ dirty = {})]
  /\ phase' = "build"
  /\ UNCHANGED <<fsc, watch, init, exp>>

Done == phase = "edit" /\ Len(hist) = MaxEdits /\ UNCHANGED vars
Next == DoBuild \/ DoEdit \/ Done
Spec == Init /\ [][Next]_vars

----------------------------------------------------------------------------
(* Properties                                                              *)

TypeOK == phase \in {"build", "edit"} /\ Len(hist) <= MaxEdits
\* any single edit that changes the fresh result makes some predicate dirty
WatchComplete == ~last.missed
\* no predicate is dirty right after the build that recorded it
WatchStateWellFormed == last.wellformed
RebuildEqualsFresh == ~last.stale
\* an observation of a weaker kind never replaces a stronger one of the same path: a path
\* that a build read as a file is not left with the predicate "listing it still fails"
StrongestObservationSurvives == last.weaker = {}
\* a directory that a build enumerated is watched by its complete listing, also when
\* that listing is empty
EnumeratedDirsComparedByListing ==
  phase = "edit" => \A p \in Dirs : dk[p] = "dir" => (watch[p].st = "entries" /\ watch[p].all /\ watch[p].ls = Listing(fl, p))

\* reporting variants (generator run on the transcription of the code)
Cand(name, bad) == bad => PrintT(<<"CASE", ToJson([cand |-> name, init |-> init, edits |-> hist])>>)
CandWatch  == Cand("WatchComplete", phase = "build" /\ last.missed)
CandWeaker == Cand("StrongestObservationSurvives", phase = "edit" /\ last.weaker # {})
=============================================================================
