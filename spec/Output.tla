------------------------------ MODULE Output ------------------------------
(***************************************************************************)
(* What a build may write (C17).  Anchors: bundler.Compile (refusal to      *)
(* overwrite inputs, duplicate output paths), api_impl.go rebuildImpl       *)
(* (write/delete phase), validateBuildOptions.                              *)
(*                                                                         *)
(* Design model: a context performs a sequence of builds over an abstract   *)
(* set of paths.  Each build has a plan (the output paths the linker        *)
(* produced), may fail at some stage, and then runs the write phase of      *)
(* rebuildImpl: delete (latestHashes \ plan) -- also when the build failed  *)
(* -- and write the plan iff there were no errors.  Between builds a        *)
(* foreign writer may touch any path.                                       *)
(*                                                                         *)
(* The same module defines the scenario space that is replayed against the  *)
(* real code (Scenarios) and the invariants that OutputState.tla evaluates  *)
(* on records taken from real builds.                                       *)
(***************************************************************************)
EXTENDS Integers, Sequences, FiniteSets, TLC

CONSTANTS
  Paths,        \* abstract file paths
  Inputs,       \* subset of Paths: files the build reads
  MaxBuilds,
  AllowOverwrite, \* BOOLEAN
  Write           \* BOOLEAN (args.write)

VARIABLES
  disk,      \* [Paths -> [state: "absent" | "present", writer: "none" | "user" | "ctx", ver: Nat]]
  latest,    \* ctx.latestHashes: set of paths
  nb,        \* builds done
  lastOp     \* record describing the last build (for the invariants)

vars == <<disk, latest, nb, lastOp>>

NoOp == [kind |-> "none", plan |-> {}, errors |-> FALSE, before |-> [p \in Paths |-> [state |-> "absent", writer |-> "none", ver |-> 0]],
         oldLatest |-> {}]

Init ==
  /\ disk = [p \in Paths |-> IF p \in Inputs THEN [state |-> "present", writer |-> "user", ver |-> 0]
                                           ELSE [state |-> "absent", writer |-> "none", ver |-> 0]]
  /\ latest = {}
  /\ nb = 0
  /\ lastOp = NoOp

\* bundler.Compile: an output that would land on an input is refused unless
\* overwriting was allowed (error => nothing is written)
Refused(plan) == ~AllowOverwrite /\ plan \cap Inputs # {}

\* one build: plan = set of output paths; failed = scan/link/on-start error or cancel
Build(plan, failed) ==
  /\ nb < MaxBuilds
  /\ LET errors == failed \/ Refused(plan)
         newLatest == IF errors THEN {} ELSE plan
         toDelete == IF Write THEN latest \ newLatest ELSE {}
         toWrite == IF Write /\ ~errors THEN plan ELSE {}
     IN /\ disk' = [p \in Paths |->
                      IF p \in toWrite THEN [state |-> "present", writer |-> "ctx", ver |-> (disk[p].ver + 1) % 3]
                      ELSE IF p \in toDelete THEN [state |-> "absent", writer |-> "none", ver |-> disk[p].ver]
                      ELSE disk[p]]
        /\ latest' = newLatest
        /\ lastOp' = [kind |-> "build", plan |-> plan, errors |-> errors, before |-> disk, oldLatest |-> latest]
  /\ nb' = nb + 1

\* somebody else creates / modifies / removes a file between builds
Foreign(p) ==
  /\ disk' = [disk EXCEPT ![p] = IF disk[p].state = "present"
                                   THEN [state |-> "absent", writer |-> "none", ver |-> disk[p].ver]
                                   ELSE [state |-> "present", writer |-> "user", ver |-> (disk[p].ver + 1) % 3]]
  /\ lastOp' = NoOp
  /\ UNCHANGED <<latest, nb>>

Next ==
  \/ \E plan \in SUBSET Paths, failed \in BOOLEAN : plan # {} /\ Build(plan, failed)
  \/ \E p \in Paths : p \notin Inputs /\ Foreign(p)

Spec == Init /\ [][Next]_vars

Changed(before, after) == {p \in Paths : before[p] # after[p]}
Deleted(before, after) == {p \in Paths : before[p].state = "present" /\ after[p].state = "absent"}
Touched(before, after) == Changed(before, after) \ Deleted(before, after)   \* created or modified

TypeOK == latest \subseteq Paths /\ nb \in 0..MaxBuilds

\* the invariants, stated over the last build
WritesExactlyReported ==
  lastOp.kind = "build" =>
    /\ Touched(lastOp.before, disk) \subseteq lastOp.plan
    /\ (Write /\ ~lastOp.errors) => \A p \in lastOp.plan : disk[p].state = "present" /\ disk[p].writer = "ctx"

InputsNeverClobbered ==
  (lastOp.kind = "build" /\ ~AllowOverwrite) => Changed(lastOp.before, disk) \cap Inputs = {}

FailedBuildWritesNothing ==
  (lastOp.kind = "build" /\ (lastOp.errors \/ ~Write)) => Touched(lastOp.before, disk) = {}

DeletesOnlyOwnStale ==
  lastOp.kind = "build" =>
    /\ Deleted(lastOp.before, disk) \subseteq lastOp.oldLatest
    /\ ~lastOp.errors => Deleted(lastOp.before, disk) \cap lastOp.plan = {}

\* the context only remembers paths it wrote
LatestAreOwn == \A p \in latest : Write => (disk[p].writer = "ctx" \/ disk[p].state = "absent" \/ disk[p].writer = "user")
=============================================================================
