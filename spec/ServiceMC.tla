----------------------------- MODULE ServiceMC -----------------------------
(* Model-checking wrapper of Service.tla (kept separate because the trace   *)
(* specification extends Service with other constants).                     *)
EXTENDS Service
\* state constraint of the design configurations: bounded callback traffic
Bounded == ncb <= 6
=============================================================================
