------------------------------ MODULE SourceMap ------------------------------
(***************************************************************************)
(* C07: the delta-state algebra of source-map chunks.                      *)
(*                                                                         *)
(* esbuild prints every file in parallel into a chunk of mappings that is  *)
(* delta-encoded from the ZERO state (internal/sourcemap ChunkBuilder),    *)
(* joins the chunks of an output file by rewriting the first segment of    *)
(* each chunk relative to the end state of the previous one                *)
(* (AppendSourceMapChunk, driven by linker.go generateSourceMapForChunk    *)
(* with text offsets kept in LineColumnOffset values), and finally moves   *)
(* generated columns when unique keys are replaced by final paths of a     *)
(* different length (substituteFinalPaths + SourceMapPieces.Finalize).      *)
(*                                                                         *)
(* This module states those algorithms over small integers, next to the    *)
(* reference meaning they must have:                                       *)
(*   text machine  : LineColumnOffset.Advance/Add against the definition   *)
(*                   "number of ECMAScript line terminators (CR LF is one) *)
(*                   and UTF-16 width after the last one";                 *)
(*   link machine  : Decode(Joined) = the absolute mappings of every chunk *)
(*                   re-based by the text position where the chunk starts; *)
(*   shift machine : Decode(Finalize(stream, shifts)) = the mappings with  *)
(*                   the columns after a substituted path moved, on the    *)
(*                   line of the path only.                                *)
(* One variable s carries the state of whichever machine a config selects. *)
(***************************************************************************)
EXTENDS Integers, Sequences, FiniteSets, TLC

CONSTANTS MaxText,     \* text machine: texts of up to MaxText characters
          MaxChunks,   \* link machine: chunks joined per behaviour
          MaxMaps,     \* link machine: mappings per chunk
          MaxLine,     \* link machine: line breaks inside one chunk (0..MaxLine)
          Cols,        \* columns and offsets, e.g. {0, 1, 5}
          WithNull,    \* link machine: also chunks without mappings ("null entries")
          SrcCounts,   \* link machine: how many sources one file contributes to "sources"
                       \* (1 = a plain file, k > 1 = a file that carries an input source
                       \* map listing k sources), e.g. {1} or {1, 2, 3}
          WithRepeat   \* link machine: a file may occur twice among the results of one
                       \* output file (CSS: one file imported twice) and then shares its slot

VARIABLE s

Max(S) == CHOOSE x \in S : \A y \in S : y <= x
Min(S) == CHOOSE x \in S : \A y \in S : x <= y

(***************************************************************************)
(* 1. Text offsets: sourcemap.LineColumnOffset                             *)
(***************************************************************************)
\* character classes: c = BMP character that is no line terminator (1 column),
\* A = astral character (2 UTF-16 units), LF, CR, LS = U+2028, PS = U+2029
Chars == {"c", "A", "LF", "CR", "LS", "PS"}
Off(l, c) == [lines |-> l, cols |-> c]
Zero == Off(0, 0)

\* LineColumnOffset.Add
Add(a, b) == IF b.lines = 0 THEN Off(a.lines, a.cols + b.cols) ELSE Off(a.lines + b.lines, b.cols)
\* LineColumnOffset.ComesBefore
Before(a, b) == a.lines < b.lines \/ (a.lines = b.lines /\ a.cols < b.cols)

\* one iteration of AdvanceString/AdvanceBytes: character ch, nxt = the next
\* character OF THE SAME CALL ("" at the end of the call's text)
AdvChar(o, ch, nxt) ==
  IF ch \in {"LF", "LS", "PS"} THEN Off(o.lines + 1, 0)
  ELSE IF ch = "CR" THEN (IF nxt = "LF" THEN Off(o.lines, o.cols + 1) ELSE Off(o.lines + 1, 0))
  ELSE IF ch = "A" THEN Off(o.lines, o.cols + 2)
  ELSE Off(o.lines, o.cols + 1)

RECURSIVE Advance(_, _)
Advance(o, t) ==
  IF t = <<>> THEN o
  ELSE Advance(AdvChar(o, Head(t), IF Len(t) > 1 THEN t[2] ELSE ""), Tail(t))

\* the reference meaning of a text position
IsTermAt(t, i) == t[i] \in {"LF", "LS", "PS"} \/ (t[i] = "CR" /\ (i = Len(t) \/ t[i + 1] # "LF"))
Terms(t) == {i \in 1..Len(t) : IsTermAt(t, i)}
Width(ch) == IF ch = "A" THEN 2 ELSE 1
RECURSIVE WidthFrom(_, _)
WidthFrom(t, i) == IF i > Len(t) THEN 0 ELSE Width(t[i]) + WidthFrom(t, i + 1)
RefPos(t) == Off(Cardinality(Terms(t)), WidthFrom(t, IF Terms(t) = {} THEN 1 ELSE Max(Terms(t)) + 1))

\* the text machine grows a text one character at a time
TextInit == s = <<>>
TextNext == Len(s) < MaxText /\ \E ch \in Chars : s' = Append(s, ch)

\* Advance from the zero offset is the reference position
AdvanceIsRef == Advance(Zero, s) = RefPos(s)
\* Advance from any offset is Add of the zero-based result
AdvanceIsAdd == \A l \in {0, 2}, c \in Cols : Advance(Off(l, c), s) = Add(Off(l, c), Advance(Zero, s))
\* advancing piecewise (as linker.go does for banner, "\n", file comment, ...)
\* equals advancing over the concatenation, EXCEPT when a piece ends in CR and
\* the next one starts with LF
SplitsCRLF(t, k) == k >= 1 /\ k < Len(t) /\ t[k] = "CR" /\ t[k + 1] = "LF"
PiecewiseOK ==
  \A k \in 0..Len(s) : ~SplitsCRLF(s, k) =>
     Advance(Advance(Zero, SubSeq(s, 1, k)), SubSeq(s, k + 1, Len(s))) = Advance(Zero, s)
\* the exception is real on the model: a CR LF pair split over two calls counts
\* two lines (expected to be violated; the counterexample is replayed against
\* the real linker with a banner that ends in CR, see c07.go)
PiecewiseAlways ==
  \A k \in 0..Len(s) :
     Advance(Advance(Zero, SubSeq(s, 1, k)), SubSeq(s, k + 1, Len(s))) = Advance(Zero, s)
\* U+2028/U+2029 are line terminators, astral characters are two columns
Classes ==
  /\ Advance(Zero, <<"c", "LS", "c">>) = Off(1, 1)
  /\ Advance(Zero, <<"c", "PS", "A">>) = Off(1, 2)
  /\ Advance(Zero, <<"A", "c">>) = Off(0, 3)
  /\ Advance(Zero, <<"c", "CR", "LF", "c">>) = Off(1, 1)
  /\ Advance(Zero, <<"c", "CR", "c">>) = Off(1, 1)

(***************************************************************************)
(* 2. Mappings, states, delta streams                                      *)
(***************************************************************************)
\* an absolute mapping; src = -1: no source (1-field segment); nm = -1: no name
Mp(gl, gc, src, ol, oc, nm) == [gl |-> gl, gc |-> gc, src |-> src, ol |-> ol, oc |-> oc, nm |-> nm]
\* sourcemap.SourceMapState (HasOriginalName is implied by the segment arity here)
St(gl, gc, src, ol, oc, nm) == [gl |-> gl, gc |-> gc, src |-> src, ol |-> ol, oc |-> oc, nm |-> nm]
St0 == St(0, 0, 0, 0, 0, 0)

\* a delta stream is a sequence of items: SEMI (a line break) or a segment of
\* 1, 4 or 5 integers
SEMI == <<>>
RECURSIVE Semis(_)
Semis(n) == IF n <= 0 THEN <<>> ELSE <<SEMI>> \o Semis(n - 1)

\* appendMappingToBuffer: the segment for mapping m after state st
Seg(st, m) ==
  IF m.src < 0 THEN <<m.gc - st.gc>>
  ELSE <<m.gc - st.gc, m.src - st.src, m.ol - st.ol, m.oc - st.oc>> \o
       (IF m.nm >= 0 THEN <<m.nm - st.nm>> ELSE <<>>)
\* appendMappingWithoutRemapping: the state after m (the name is kept when m has none)
After(st, m) ==
  St(m.gl, m.gc, IF m.src < 0 THEN st.src ELSE m.src, IF m.src < 0 THEN st.ol ELSE m.ol,
     IF m.src < 0 THEN st.oc ELSE m.oc, IF m.nm >= 0 THEN m.nm ELSE st.nm)

\* ChunkBuilder: a chunk = mappings relative to the start of the chunk's text
\* (line 0, column 0), the number of line breaks in its text, and the width of
\* its last line.  Build yields the buffer (delta-encoded from the zero state,
\* one SEMI per line break) and the end state.
RECURSIVE Build(_, _, _, _, _)
Build(ms, st, line, lines, acc) ==
  IF ms # <<>> /\ Head(ms).gl = line
  THEN Build(Tail(ms), After(st, Head(ms)), line, lines, Append(acc, Seg(st, Head(ms))))
  ELSE IF line < lines
  THEN Build(ms, [st EXCEPT !.gl = line + 1, !.gc = 0], line + 1, lines, Append(acc, SEMI))
  ELSE [buf |-> acc, end |-> st]
ChunkOf(c) == Build(c.maps, St0, 0, c.lines, <<>>)
\* a chunk together with its buffer and end state (computed once)
WithBuf(c) == LET b == ChunkOf(c) IN
  [maps |-> c.maps, lines |-> c.lines, fcol |-> c.fcol, nsrc |-> c.nsrc, buf |-> b.buf, end |-> b.end]

HasNames(c) == \E i \in 1..Len(c.maps) : c.maps[i].nm >= 0
NumNames(c) == IF HasNames(c) THEN Max({c.maps[i].nm : i \in 1..Len(c.maps)}) + 1 ELSE 0

\* decoding a stream from decoder state st
RECURSIVE Dec(_, _, _)
Dec(stream, st, acc) ==
  IF stream = <<>> THEN [maps |-> acc, st |-> st]
  ELSE LET x == Head(stream) IN
    IF x = SEMI THEN Dec(Tail(stream), [st EXCEPT !.gl = @ + 1, !.gc = 0], acc)
    ELSE LET full == Len(x) >= 4
             st1 == St(st.gl, st.gc + x[1],
                       IF full THEN st.src + x[2] ELSE st.src,
                       IF full THEN st.ol + x[3] ELSE st.ol,
                       IF full THEN st.oc + x[4] ELSE st.oc,
                       IF Len(x) = 5 THEN st.nm + x[5] ELSE st.nm)
             m == Mp(st1.gl, st1.gc, IF full THEN st1.src ELSE -1, IF full THEN st1.ol ELSE -1,
                     IF full THEN st1.oc ELSE -1, IF Len(x) = 5 THEN st1.nm ELSE -1)
         IN Dec(Tail(stream), st1, Append(acc, m))
Decode(stream) == Dec(stream, St0, <<>>).maps

WellFormedStream(stream) == \A i \in 1..Len(stream) : Len(stream[i]) \in {0, 1, 4, 5}

(***************************************************************************)
(* 3. Join = sourcemap.AppendSourceMapChunk                                *)
(***************************************************************************)
LeadSemis(buf) == IF \A i \in 1..Len(buf) : buf[i] = SEMI THEN Len(buf)
                  ELSE Min({i \in 1..Len(buf) : buf[i] # SEMI}) - 1
\* MappingsBuffer.FirstNameOffset: the first segment that carries a name
FirstName(buf) == IF \E i \in 1..Len(buf) : Len(buf[i]) = 5
                  THEN Min({i \in 1..Len(buf) : Len(buf[i]) = 5}) ELSE 0

\* prevEnd: end state of what was joined so far; start: the start state of this
\* chunk (line/column offset of its text, its source index, its name base);
\* buf: the chunk's buffer (never only SEMIs: such chunks are ignored).
Join(prevEnd, start, buf) ==
  LET pe1 == IF start.gl # 0 THEN [prevEnd EXCEPT !.gc = 0] ELSE prevEnd
      k == LeadSemis(buf)
      pe2 == IF k > 0 THEN [pe1 EXCEPT !.gc = 0] ELSE pe1
      st2 == IF k > 0 THEN [start EXCEPT !.gc = 0] ELSE start
      f == buf[k + 1]
      g == st2.gc + f[1]
      rew == IF Len(f) = 1 THEN <<g - pe2.gc>>
             ELSE <<g - pe2.gc, st2.src + f[2] - pe2.src, st2.ol + f[3] - pe2.ol, st2.oc + f[4] - pe2.oc>>
      first == IF Len(f) = 5 THEN Append(rew, f[5]) ELSE rew
      body == <<first>> \o SubSeq(buf, k + 2, Len(buf))
      fn == FirstName(body)
      body2 == IF fn = 0 THEN body
               ELSE [body EXCEPT ![fn] = [@ EXCEPT ![5] = @ + start.nm - prevEnd.nm]]
  IN Semis(start.gl) \o Semis(k) \o body2

(***************************************************************************)
(* 4. The loop of linker.go generateSourceMapForChunk                      *)
(***************************************************************************)
\* --- first loop: the "sources" array and the per-file source index base -----
\* A result is r = [file, nsrc, null]: the file it was printed from, the number
\* of sources the file contributes (1 without an input source map, otherwise
\* len(InputSourceMap.Sources)), and whether it is a null entry (no mappings).
\* The loop keeps P = [idx: sourceIndexToSourcesIndex, items, next: nextSourcesIndex];
\* an item is <<file, j>> = "source number j of the file's own map".
Pass0 == [idx |-> << >>, items |-> << >>, next |-> 0]
PassStep(P, r) ==
  IF r.null \/ r.file \in DOMAIN P.idx THEN P
  ELSE [idx |-> P.idx @@ (r.file :> P.next),
        items |-> P.items \o [j \in 1..r.nsrc |-> <<r.file, j - 1>>],
        next |-> P.next + r.nsrc]
RECURSIVE SourcesPass(_, _)
SourcesPass(rs, P) == IF rs = <<>> THEN P ELSE SourcesPass(Tail(rs), PassStep(P, Head(rs)))
\* Reference meaning: the files in the order of their first non-null result; the
\* base of a file is the number of sources contributed by the files before it,
\* "sources" is the concatenation of the files' own source lists
FirstAt(rs, f) == Min({i \in 1..Len(rs) : ~rs[i].null /\ rs[i].file = f})
FilesOf(rs) == {rs[i].file : i \in {i \in 1..Len(rs) : ~rs[i].null}}
NsrcOf(rs, f) == rs[FirstAt(rs, f)].nsrc
RECURSIVE SumNsrc(_, _)
SumNsrc(rs, F) == IF F = {} THEN 0 ELSE LET f == CHOOSE f \in F : TRUE IN NsrcOf(rs, f) + SumNsrc(rs, F \ {f})
RefBase(rs, f) == SumNsrc(rs, {g \in FilesOf(rs) : FirstAt(rs, g) < FirstAt(rs, f)})
\* sources[k] (0-based) names source j of file f iff RefBase(f) + j = k
RefSourceAt(rs, k) ==
  CHOOSE fj \in {<<f, j>> : f \in FilesOf(rs), j \in 0..(Max({rs[i].nsrc : i \in 1..Len(rs)}) - 1)} :
     fj[2] < NsrcOf(rs, fj[1]) /\ RefBase(rs, fj[1]) + fj[2] = k
RefNumSources(rs) == SumNsrc(rs, FilesOf(rs))

\* L: [pe: prevEndState, pco: prevColumnOffset, tn: totalQuotedNameLen]
\* r: [chunk (WithBuf), off: text offset from the end of the previous mapped chunk
\*     (the zero offset for a null entry: linker.go leaves generatedOffset unset),
\*     src: sources index, null: BOOLEAN]
Link0 == [pe |-> St0, pco |-> 0, tn |-> 0]
LinkStart(L, r) ==
  St(r.off.lines, r.off.cols + (IF r.off.lines = 0 THEN L.pco ELSE 0), r.src, 0, 0, L.tn)
LinkPiece(L, r) ==
  Join(L.pe, LinkStart(L, r), IF r.null THEN << <<0>> >> ELSE r.chunk.buf)
LinkAfter(L, r) ==
  LET start == LinkStart(L, r)
      c == r.chunk
      end == c.end
      pe1 == IF r.null THEN [L.pe EXCEPT !.gl = start.gl, !.gc = start.gc]
             ELSE [end EXCEPT !.src = @ + r.src,
                              !.nm = IF HasNames(c) THEN end.nm + L.tn ELSE L.pe.nm]
      pco1 == IF r.null THEN L.pco ELSE c.fcol
      tn1 == IF r.null THEN L.tn ELSE L.tn + NumNames(c)
  IN IF pe1.gl = 0
     THEN [pe |-> [pe1 EXCEPT !.gc = @ + start.gc], pco |-> pco1 + start.gc, tn |-> tn1]
     ELSE [pe |-> pe1, pco |-> pco1, tn |-> tn1]

\* the whole loop over a list of results (used by the state validation too)
RECURSIVE LinkAll(_, _, _)
LinkAll(rs, L, acc) ==
  IF rs = <<>> THEN acc ELSE LinkAll(Tail(rs), LinkAfter(L, Head(rs)), acc \o LinkPiece(L, Head(rs)))

\* Reference: a chunk whose text starts at text position p (absolute) with source
\* index src and name base nb contributes these absolute mappings
\* (src = the file's base in "sources"; m.src = the source within the file's own map)
Rebase(m, p, src, nb) ==
  Mp(p.lines + m.gl, (IF m.gl = 0 THEN p.cols ELSE 0) + m.gc, src + m.src, m.ol, m.oc,
     IF m.nm >= 0 THEN nb + m.nm ELSE -1)
Rebased(c, p, src, nb) == [i \in 1..Len(c.maps) |-> Rebase(c.maps[i], p, src, nb)]
\* text position after the chunk's text
ChunkEnd(c, p) == Add(p, Off(c.lines, c.fcol))

(***************************************************************************)
(* 5. The link machine                                                     *)
(*    s = [n, L, d, e, pend, afterNull, rs, ok, sorted, inrange, named]     *)
(*    d    : decoder state after everything joined so far                  *)
(*    e    : text position of the end of the last mapped chunk             *)
(*    pend : text offset (from e) up to which ignored chunks reach         *)
(*    rs   : the results so far as [file, nsrc, null] (input of the first  *)
(*           loop: per-file source index base and the "sources" array)     *)
(***************************************************************************)
Origs == {<<0, 0>>, <<1, 4>>}
NameVals == {-1, 0, 1}
\* (smaller value sets that a config may substitute: Origs <- OneOrig, NameVals <- FewNames)
OneOrig == {<<1, 4>>}
FewNames == {-1, 0}
MaxSrc == Max(SrcCounts)
\* a mapping of a chunk names a source of the file's OWN map (0 for a plain file)
MapSet == {Mp(gl, gc, sr, o[1], o[2], nm) : gl \in 0..MaxLine, gc \in Cols, sr \in 0..(MaxSrc - 1), o \in Origs, nm \in NameVals}
PosLess(a, b) == a.gl < b.gl \/ (a.gl = b.gl /\ a.gc < b.gc)
\* names are numbered in the order of their first use
NamesInOrder(ms) ==
  \A i \in 1..Len(ms) : ms[i].nm >= 1 => \E j \in 1..(i - 1) : ms[j].nm = ms[i].nm - 1
MapSeqs == {ms \in UNION {[1..n -> MapSet] : n \in 1..MaxMaps} :
              /\ \A i \in 1..(Len(ms) - 1) : PosLess(ms[i], ms[i + 1])
              /\ NamesInOrder(ms)}
ChunkSet == {[maps |-> ms, lines |-> l, fcol |-> f, nsrc |-> k] : ms \in MapSeqs, l \in 0..MaxLine, f \in Cols, k \in SrcCounts}
Chunks == {WithBuf(c) : c \in {c \in ChunkSet :
             /\ c.maps[Len(c.maps)].gl <= c.lines
             /\ c.maps[Len(c.maps)].gl = c.lines => c.maps[Len(c.maps)].gc <= c.fcol
             /\ \A i \in 1..Len(c.maps) : c.maps[i].src < c.nsrc}}
Offsets == {Off(l, c) : l \in 0..1, c \in Cols}
\* (a smaller set that a config may substitute: Offsets <- FewOffsets)
FewOffsets == {Off(0, 0), Off(1, Max(Cols))}

LinkInit == s = [n |-> 0, L |-> Link0, d |-> St0, e |-> Zero, pend |-> Zero, afterNull |-> FALSE,
                 rs |-> << >>, ok |-> TRUE, sorted |-> TRUE, inrange |-> TRUE, named |-> TRUE]

SortedMaps(ms, before) ==
  /\ \A i \in 1..(Len(ms) - 1) : ~PosLess(ms[i + 1], ms[i])
  /\ ms # <<>> => ~PosLess(ms[1], before)

\* the files a new result may come from: a file not seen yet, or (WithRepeat) one
\* that already has a slot and contributes the same number of sources
NewFile == Cardinality(FilesOf(s.rs)) + 1
FileChoices(c) == {NewFile} \cup (IF WithRepeat THEN {f \in FilesOf(s.rs) : NsrcOf(s.rs, f) = c.nsrc} ELSE {})

\* a chunk with mappings, printed from file f, is appended at offset off after the
\* pending ignored text
LinkChunk(c, f, off) ==
  \* (singleton quantifiers make TLC evaluate each intermediate value once)
  \E rs1 \in {Append(s.rs, [file |-> f, nsrc |-> c.nsrc, null |-> FALSE])} :
  \E P \in {SourcesPass(rs1, Pass0)} :           \* the first loop over all results so far
  \E o \in {Add(s.pend, off)} :                  \* prevOffset in linker.go: not reset by ignored chunks
  \E r \in {[chunk |-> c, off |-> o, src |-> P.idx[f], null |-> FALSE]} :
  \E p \in {Add(s.e, o)} :                       \* where the chunk's text starts
  \E piece \in {LinkPiece(s.L, r)} :
  \E dec \in {Dec(piece, s.d, <<>>)} :
     s' = [n |-> s.n + 1, L |-> LinkAfter(s.L, r), d |-> dec.st, e |-> ChunkEnd(c, p), pend |-> Zero,
           afterNull |-> FALSE, rs |-> rs1,
           ok |-> dec.maps = Rebased(c, p, RefBase(rs1, f), s.L.tn) /\ WellFormedStream(piece),
           sorted |-> SortedMaps(dec.maps, Mp(s.d.gl, s.d.gc, 0, 0, 0, 0)),
           inrange |-> \A i \in 1..Len(dec.maps) :
                          /\ dec.maps[i].src \in 0..(Len(P.items) - 1)
                          /\ dec.maps[i].nm < s.L.tn + NumNames(c)
                          /\ dec.maps[i].gc >= 0 /\ dec.maps[i].ol >= 0 /\ dec.maps[i].oc >= 0,
           \* WHICH source a decoded mapping names: entry dec.src of the "sources"
           \* array is source number c.maps[i].src of the map of file f
           named |-> /\ Len(dec.maps) = Len(c.maps)
                     /\ \A i \in 1..Len(c.maps) :
                          /\ dec.maps[i].src \in 0..(Len(P.items) - 1)
                          /\ P.items[dec.maps[i].src + 1] = <<f, c.maps[i].src>>]

\* a chunk without mappings but with text of extent len: the linker emits one
\* 1-field "null" mapping AT THE END OF THE PREVIOUS MAPPED CHUNK (the entry's
\* generatedOffset is left zero), unless the previous entry is a null entry too
\* or nothing was mapped yet; the text itself only advances prevOffset.  A null
\* entry contributes nothing to "sources" (the first loop skips it).
NullChunk == [maps |-> <<>>, lines |-> 0, fcol |-> 0, nsrc |-> 0, buf |-> <<>>, end |-> St0]
LinkNull(len) ==
  LET r == [chunk |-> NullChunk, off |-> Zero, src |-> 0, null |-> TRUE]
      emit == s.n > 0 /\ ~s.afterNull
      piece == IF emit THEN LinkPiece(s.L, r) ELSE <<>>
      dec == Dec(piece, s.d, <<>>)
  IN s' = [s EXCEPT !.L = IF emit THEN LinkAfter(s.L, r) ELSE s.L,
                    !.d = dec.st,
                    !.pend = Add(s.pend, len),
                    !.afterNull = emit \/ s.afterNull,
                    !.rs = Append(s.rs, [file |-> 0, nsrc |-> 0, null |-> TRUE]),
                    !.ok = IF emit THEN dec.maps = <<Mp(s.e.lines, s.e.cols, -1, -1, -1, -1)>> ELSE TRUE,
                    !.sorted = SortedMaps(dec.maps, Mp(s.d.gl, s.d.gc, 0, 0, 0, 0)),
                    !.inrange = TRUE]

LinkNext ==
  /\ s.n < MaxChunks
  /\ s.ok
  /\ \/ \E c \in Chunks, off \in Offsets : \E f \in FileChoices(c) : LinkChunk(c, f, off)
     \/ /\ WithNull
        /\ s.pend = Zero           \* one ignored text between two mapped chunks (more only add to pend)
        /\ \E len \in (Offsets \ {Zero}) : LinkNull(len)

\* THE property: decoding the joined delta stream yields exactly the chunks'
\* own mappings re-based by the text position where each chunk starts, with the
\* source index moved by the number of sources of the files before it
DecodeJoinedIsRebased == s.ok
GeneratedSorted == s.sorted
IndicesInRange == s.inrange
\* every decoded mapping names, through "sources", the source its chunk meant
MappingNamesItsSource == s.named
\* the first loop yields the concatenation of the files' source lists and the
\* reference bases (null entries and repeated files contribute nothing)
SourcesAreConcatenation ==
  LET P == SourcesPass(s.rs, Pass0) IN
    /\ P.next = RefNumSources(s.rs) /\ Len(P.items) = P.next
    /\ DOMAIN P.idx = FilesOf(s.rs)
    /\ \A f \in FilesOf(s.rs) : P.idx[f] = RefBase(s.rs, f)
    /\ \A k \in 0..(P.next - 1) : P.items[k + 1] = RefSourceAt(s.rs, k)
\* the decoder state is the absolute end state: same source/original position/name
\* as prevEndState (what the next Join relies on)
EndStateAgrees ==
  /\ s.L.pe.src = s.d.src /\ s.L.pe.ol = s.d.ol /\ s.L.pe.oc = s.d.oc
  /\ s.n > 0 => s.L.pe.nm = s.d.nm

(***************************************************************************)
(* 6. Shifts: linker.go substituteFinalPaths + SourceMapPieces.Finalize     *)
(***************************************************************************)
\* pieces: sequence of [data: Off (text before the key), key: width of the unique
\* key, path: width of the final path]; the result is the shift list (the first
\* entry is the zero shift)
RECURSIVE ShiftsOf(_, _, _)
ShiftsOf(pieces, sh, acc) ==
  IF pieces = <<>> THEN acc
  ELSE LET pc == Head(pieces)
           b == Add(Add(sh.before, pc.data), Off(0, pc.key))
           a == Add(Add(sh.after, pc.data), Off(0, pc.path))
       IN ShiftsOf(Tail(pieces), [before |-> b, after |-> a], Append(acc, [before |-> b, after |-> a]))
Shifts(pieces) == ShiftsOf(pieces, [before |-> Zero, after |-> Zero], << [before |-> Zero, after |-> Zero] >>)

\* Finalize over a delta stream.  st = [gen: position so far (pre-shift),
\* prev: prevShiftColumnDelta, sh: remaining shifts]
RECURSIVE PopShifts(_, _)
PopShifts(sh, gen) == IF Len(sh) > 1 /\ Before(sh[2].before, gen) THEN PopShifts(Tail(sh), gen) ELSE sh
RECURSIVE Fin(_, _, _, _, _)
Fin(stream, gen, prev, sh, acc) ==
  IF stream = <<>> THEN acc
  ELSE LET x == Head(stream) IN
    IF x = SEMI THEN Fin(Tail(stream), Off(gen.lines + 1, 0), 0, sh, Append(acc, x))
    ELSE LET g == Off(gen.lines, gen.cols + x[1])
             sh2 == PopShifts(sh, g)
             crossed == Len(sh2) < Len(sh)
             cur == sh2[1]
         IN IF ~crossed \/ cur.after.lines # g.lines
            THEN Fin(Tail(stream), g, prev, sh2, Append(acc, x))
            ELSE LET delta == cur.after.cols - cur.before.cols
                 IN Fin(Tail(stream), g, delta, sh2, Append(acc, [x EXCEPT ![1] = @ + delta - prev]))
Finalize(stream, shifts) == IF Len(shifts) = 1 THEN stream ELSE Fin(stream, Zero, 0, shifts, <<>>)

\* Reference: where a pre-substitution position lands after the substitution.
\* The intermediate text is data1 KEY1 data2 KEY2 ...; a mapping lies in one of
\* the data pieces (never inside a key).  Position q in the intermediate text
\* moves by the difference of the widths of all paths/keys that precede it on
\* ITS OWN LINE.
RECURSIVE KeyEnds(_, _, _)
KeyEnds(pieces, at, acc) ==   \* pre-substitution end positions of the keys, with their width change
  IF pieces = <<>> THEN acc
  ELSE LET pc == Head(pieces)
           e == Add(Add(at, pc.data), Off(0, pc.key))
       IN KeyEnds(Tail(pieces), e, Append(acc, [at |-> e, d |-> pc.path - pc.key]))
RECURSIVE SumD(_, _)
SumD(ks, q) == IF ks = <<>> THEN 0
               ELSE (IF Head(ks).at.lines = q.lines /\ Head(ks).at.cols <= q.cols THEN Head(ks).d ELSE 0) + SumD(Tail(ks), q)
ShiftedRef(m, pieces) == [m EXCEPT !.gc = @ + SumD(KeyEnds(pieces, Zero, <<>>), Off(m.gl, m.gc))]

\* the shift machine: every instance is one initial state
ShiftLines == 0..1
ShiftCols == Cols \cup {c + 6 : c \in Cols}
ShiftMaps == {ms \in UNION {[1..n -> {Mp(gl, gc, 0, 0, gc, -1) : gl \in ShiftLines, gc \in ShiftCols}] : n \in 1..MaxMaps} :
                \A i \in 1..(Len(ms) - 1) : PosLess(ms[i], ms[i + 1])}
PieceSet == {[data |-> Off(l, c), key |-> 3, path |-> w] : l \in 0..1, c \in Cols, w \in {1, 8}}
PieceSeqs == UNION {[1..n -> PieceSet] : n \in 0..2}
\* precondition of Finalize (paths are inside string literals): no mapping sits
\* inside a key or exactly at its end
InsideKey(m, ke) ==
  \E k \in 1..Len(ke) : m.gl = ke[k].at.lines /\ m.gc >= ke[k].at.cols - 3 /\ m.gc <= ke[k].at.cols
\* s = [stage, maps, pieces, ke: key ends, dec: the finalized stream decoded];
\* stage 0 fixes the mappings, stage 1 adds the substituted paths (two levels so
\* that TLC's workers share the enumeration)
ShiftInit == \E ms \in ShiftMaps : s = [stage |-> 0, maps |-> ms, pieces |-> <<>>, ke |-> <<>>, dec |-> ms]
ShiftNext == /\ s.stage = 0
             /\ \E ps \in PieceSeqs :
                \E ke \in {KeyEnds(ps, Zero, <<>>)} :
                  /\ \A i \in 1..Len(s.maps) : ~InsideKey(s.maps[i], ke)
                  /\ s' = [stage |-> 1, maps |-> s.maps, pieces |-> ps, ke |-> ke,
                           dec |-> Decode(Finalize(Build(s.maps, St0, 0, 1, <<>>).buf, Shifts(ps)))]

\* decoding the finalized stream yields the reference positions
FinalizeIsShifted == s.dec = [i \in 1..Len(s.maps) |-> [s.maps[i] EXCEPT !.gc = @ + SumD(s.ke, Off(s.maps[i].gl, s.maps[i].gc))]]
\* a shift moves columns on its own line only, and only after the path
ShiftsOnlyOwnLine ==
  \A i \in 1..Len(s.maps) :
     LET m == s.maps[i]  d == s.dec[i] IN
       /\ d.gl = m.gl /\ d.src = m.src /\ d.ol = m.ol /\ d.oc = m.oc
       /\ (\A k \in 1..Len(s.ke) : s.ke[k].at.lines # m.gl \/ s.ke[k].at.cols > m.gc) => d.gc = m.gc
\* substitution keeps the order of generated positions
ShiftKeepsOrder ==
  \A i \in 1..(Len(s.maps) - 1) : ~PosLess(s.dec[i + 1], s.dec[i])

(***************************************************************************)
(* 7. Composition through an input source map: SourceMap.Find and          *)
(*    ChunkBuilder.appendMapping (internal/sourcemap/sourcemap.go)         *)
(***************************************************************************)
\* An input map is a sequence of segments [gl, gc, one, id] sorted by (gl, gc)
\* (not strictly: several segments may stand at one generated position).  one =
\* a 1-field segment ("the text from here on has no origin"); id stands for the
\* segment's (source, original line, original column, name).
\* SourceMap.Find: binary search for the last segment at or before (line, col);
\* it only counts when it is on the same line
RECURSIVE FindLoop(_, _, _, _, _)
FindLoop(ms, line, col, index, count) ==
  IF count <= 0 THEN index
  ELSE LET step == count \div 2
           i == index + step
       IN IF ms[i + 1].gl < line \/ (ms[i + 1].gl = line /\ ms[i + 1].gc <= col)
          THEN FindLoop(ms, line, col, i + 1, count - step - 1)
          ELSE FindLoop(ms, line, col, index, step)
Find(ms, line, col) ==       \* index of the segment found, 0 = none
  LET index == FindLoop(ms, line, col, 0, Len(ms))
  IN IF index > 0 /\ ms[index].gl = line THEN index ELSE 0
\* Reference meaning of a lookup: the LAST segment of that line that does not
\* start after the column covers the position
RefFind(ms, line, col) ==
  LET S == {i \in 1..Len(ms) : ms[i].gl = line /\ ms[i].gc <= col}
  IN IF S = {} THEN 0 ELSE Max(S)
\* what esbuild's parser keeps of an input map: 1-field segments are dropped
RECURSIVE Kept(_)
Kept(ms) == IF ms = <<>> THEN <<>> ELSE (IF Head(ms).one THEN <<>> ELSE <<Head(ms)>>) \o Kept(Tail(ms))
\* appendMapping: a printer mapping that points at (line, col) of the intermediate
\* text is replaced by the segment found there, or dropped (0)
ComposeId(ms, line, col) == LET k == Find(Kept(ms), line, col) IN IF k = 0 THEN 0 ELSE Kept(ms)[k].id
RefComposeId(ms, line, col) == LET k == RefFind(ms, line, col) IN IF k = 0 \/ ms[k].one THEN 0 ELSE ms[k].id

\* the find machine: every small input map is one initial state
FindSegs(n, ones) == {ms \in [1..n -> [gl : 0..1, gc : Cols, one : ones, id : 1..n]] :
                        /\ \A i \in 1..n : ms[i].id = i
                        /\ \A i \in 1..(n - 1) : ~PosLess(ms[i + 1], ms[i])}
FindInit == \E n \in 0..MaxMaps : \E ms \in FindSegs(n, {FALSE}) : s = ms
FindInit1 == \E n \in 0..MaxMaps : \E ms \in FindSegs(n, BOOLEAN) : s = ms
FindNext == FALSE /\ s' = s
QueryCols == Cols \cup {c + 1 : c \in Cols}
\* the binary search is the reference lookup (no 1-field segments)
FindIsCovering == \A line \in 0..2, col \in QueryCols : Find(s, line, col) = RefFind(s, line, col)
\* with 1-field segments kept out by the parser, the composition still honours
\* them -- expected to be VIOLATED on the model (config SourceMap.find1.cfg): text
\* after a 1-field segment inherits the segment before it; the counterexample is
\* replayed against the real bundler by the "holes" input maps (c07/inmap.go)
ComposeHonoursUnmapped == \A line \in 0..2, col \in QueryCols : ComposeId(s, line, col) = RefComposeId(s, line, col)
=============================================================================
