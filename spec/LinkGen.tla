------------------------------ MODULE LinkGen ------------------------------
(***************************************************************************)
(* The bounded graph family of C10 and the load machine.                    *)
(*                                                                          *)
(* Family, five parts (the last two: WrapFamily, LoaderFamily, see there):  *)
(*  - incidence: bipartite incidence patterns of k entry points over n      *)
(*    shared modules (module j is imported by the entry points in the       *)
(*    non-empty set masks[j], a bit mask; patterns up to the order of the   *)
(*    modules), each decorated by a feature variant: side-effect-only       *)
(*    shared modules, module -> module imports and re-exports across the    *)
(*    future chunk boundary, re-export-only entry points, dynamic import()  *)
(*    of a non-entry module, of a module nobody imports statically, of an   *)
(*    entry point (from a shared module and from an entry point), entry     *)
(*    points importing / re-exporting entry points; and by a naming: every  *)
(*    module declares the top-level names id, helper, v, c, bump, each      *)
(*    module with the suffix "", "2" or "3" (equal names meet in every      *)
(*    chunk, and names that look like the collision renamers' own output).  *)
(*  - re-export chains (ChainFamily): an entry point re-exports (or its     *)
(*    code import()s a barrel that re-exports) the bindings of an origin    *)
(*    module through 1..3 re-export statements of every kind (export *,     *)
(*    export {x} from, export {x as y} from, import + export, export * as   *)
(*    ns), the origin living in a shared chunk, in the entry point's own    *)
(*    chunk or being the other entry point, with and without a default      *)
(*    export, used or not by the entry point's own code.                    *)
(*  - name collisions (NameFamily): all modules in one shared chunk that    *)
(*    exports every binding, in every naming.                               *)
(*  - wrap kinds (WrapFamily): k entry points reach a shared module, written *)
(*    as an ES module or in CommonJS syntax, each in its own way (import     *)
(*    statement, require(), import(), through wrapped / requiring            *)
(*    intermediates): the wrap kind of every file and the chunk of every     *)
(*    wrapper symbol (init_x / require_x) follow.                            *)
(*  - loaders and CSS (LoaderFamily): an import() target parsed by the js,   *)
(*    ts, tsx or jsx loader that reaches style sheets or not (a JS entry     *)
(*    point with CSS has a JS chunk and a CSS chunk), also imported by       *)
(*    statement or not, with a shared JSON module or not.                    *)
(*                                                                          *)
(* Init chooses a graph G; Setup computes L == Compute(G) (Link.tla) and,   *)
(* when Export is TRUE, prints the CASE record: the graph, the resolved     *)
(* export table (namespace) of every file, the expected chunking with the   *)
(* alias tables and the expected observations.  The machine then loads the  *)
(* user entry points in any subset and order into one registry (LoadEntry)  *)
(* and fires pending dynamic imports in any order (FireDyn), in two         *)
(* semantics in lock step: the ES semantics of the source graph and the     *)
(* evaluation of the computed chunk graph.                                  *)
(***************************************************************************)
EXTENDS Link, Json

CONSTANTS Shapes,    \* set of <<k, n>>
          Variants,  \* set of variant names
          Export,    \* print CASE records
          Pick,      \* 0 = every variant of every pattern; n > 0 = a slice of one or two variants per pattern chosen by n
          PickTwo,   \* two variants per pattern in the slice
          Half,      \* 0 = every pattern; 1, 2 = one half of the patterns (to spread a shape over two TLC runs)
          ChainPick, \* the re-export chain family: 9999 = none, 0 = all of it, n > 0 = the slice (1 of ChainDiv) chosen by n
          ChainDiv,
          NamePick,  \* the name-collision family: 9999 = none, 0 = all of it, n > 0 = k = 2 over 3 modules in every
                     \* naming and a slice (1 of 8) of the rest chosen by n
          WrapPick,  \* the wrap-kind family: 9999 = none, 0 = all of it, n > 0 = the label-first slice chosen by n
          LoaderPick \* the loader / CSS family: 9999 = none, 0 = all of it, n > 0 = the label-first slice chosen by n

VARIABLES label, g, meta, phase, L, designFailing,
          loaded,   \* sequence of user entry points loaded so far
          fired,    \* dynamic import targets already loaded
          evSrc,    \* modules evaluated, ES semantics of the source graph
          evCh,     \* chunks evaluated
          runs,     \* file -> number of times its body ran (chunk semantics)
          bad       \* a body read a binding of a file whose body had not run
vars == <<label, g, meta, phase, L, designFailing, loaded, fired, evSrc, evCh, runs, bad>>

ShapesTiny     == {<<2, 1>>, <<2, 2>>}
ShapesQuick    == {<<2, 1>>, <<2, 2>>, <<2, 3>>, <<2, 4>>, <<3, 1>>, <<3, 2>>, <<3, 3>>}
ShapesThorough == ShapesQuick \cup {<<3, 4>>}
\* slices of the family, one TLC run each (initial states are computed by one thread)
ShapesNone == {}
ShapesQuickA == {<<3, 3>>}
ShapesQuickB == ShapesQuick \ ShapesQuickA
S21 == {<<2, 1>>}
S22 == {<<2, 2>>}
S23 == {<<2, 3>>}
S24 == {<<2, 4>>}
S31 == {<<3, 1>>}
S32 == {<<3, 2>>}
S33 == {<<3, 3>>}
S34 == {<<3, 4>>}
AllVariants == {"plain", "side1", "sideall", "bindless", "chain", "chainre", "entryre",
                "dynmod", "dynfresh", "dynentry", "dynentry2", "entent", "ententre",
                "combo1", "combo2"}

-----------------------------------------------------------------------------
(* the family *)
Bit(mask, i) == (mask \div (2 ^ (i - 1))) % 2 = 1
Masks(k, n) == {s \in [1..n -> 1..(2 ^ k - 1)] : \A i \in 1..(n - 1) : s[i] <= s[i + 1]}
EntryName(i) == "e" \o ToString(i)
ModName(j) == "m" \o ToString(j)
MkFile(name, imports, reexp, dyn, exports) ==
  [name |-> name, imports |-> imports, reexp |-> reexp, dyn |-> dyn, exports |-> exports,
   sfx |-> "", dflt |-> FALSE, rx |-> <<>>, req |-> <<>>, cjs |-> FALSE, ldr |-> "js"]
Bind(t) == [to |-> t, bind |-> TRUE]

Base(k, n, masks) ==
  LET importsOf(i) == LET idx == SelectSeq([j \in 1..n |-> j], LAMBDA j : Bit(masks[j], i))
                      IN [p \in 1..Len(idx) |-> Bind(k + idx[p])]
  IN [ files |-> [f \in 1..(k + n) |->
                    IF f <= k THEN MkFile(EntryName(f), importsOf(f), <<>>, <<>>, TRUE)
                    ELSE MkFile(ModName(f - k), <<>>, <<>>, <<>>, TRUE)],
       entries |-> [i \in 1..k |-> i],
       splitting |-> TRUE ]

Side1(G, k, n)    == [G EXCEPT !.files[k + 1].exports = FALSE]
SideAll(G, k, n)  == [G EXCEPT !.files = [f \in DOMAIN G.files |-> IF f > k THEN [G.files[f] EXCEPT !.exports = FALSE] ELSE G.files[f]]]
Bindless(G, k, n) == [G EXCEPT !.files = [f \in DOMAIN G.files |->
                        [G.files[f] EXCEPT !.imports = [i \in DOMAIN G.files[f].imports |-> [G.files[f].imports[i] EXCEPT !.bind = FALSE]]]]]
Chain(G, k, n)    == [G EXCEPT !.files[k + 1].imports = <<Bind(k + n)>>]
ChainRe(G, k, n)  == [G EXCEPT !.files[k + 1].reexp = <<k + n>>]
EntryRe(G, k, n)  == [G EXCEPT !.files = [f \in DOMAIN G.files |->
                        IF f <= k /\ Len(G.files[f].imports) >= 1
                        THEN [G.files[f] EXCEPT !.imports = Tail(@), !.reexp = <<G.files[f].imports[1].to>>]
                        ELSE G.files[f]]]
DynMod(G, k, n)   == [G EXCEPT !.files[1].dyn = <<k + n>>]
DynFresh(G, k, n) == [G EXCEPT !.files = Append([@ EXCEPT ![1].dyn = <<k + n + 1>>],
                                                  MkFile("d1", <<Bind(k + 1)>>, <<>>, <<>>, TRUE))]
DynEntry(G, k, n)  == [G EXCEPT !.files[k + 1].dyn = <<k>>]
DynEntry2(G, k, n) == [G EXCEPT !.files[1].dyn = <<k>>]
EntEnt(G, k, n)    == [G EXCEPT !.files[k].imports = <<Bind(1)>> \o @]
EntEntRe(G, k, n)  == [G EXCEPT !.files[k].reexp = <<1>>]

NeedsTwo == {"chain", "chainre", "combo2"}
Apply(v, G, k, n) ==
  CASE v = "plain"     -> G
    [] v = "side1"     -> Side1(G, k, n)
    [] v = "sideall"   -> SideAll(G, k, n)
    [] v = "bindless"  -> Bindless(G, k, n)
    [] v = "chain"     -> Chain(G, k, n)
    [] v = "chainre"   -> ChainRe(G, k, n)
    [] v = "entryre"   -> EntryRe(G, k, n)
    [] v = "dynmod"    -> DynMod(G, k, n)
    [] v = "dynfresh"  -> DynFresh(G, k, n)
    [] v = "dynentry"  -> DynEntry(G, k, n)
    [] v = "dynentry2" -> DynEntry2(G, k, n)
    [] v = "entent"    -> EntEnt(G, k, n)
    [] v = "ententre"  -> EntEntRe(G, k, n)
    [] v = "combo1"    -> EntryRe(DynFresh(Side1(G, k, n), k, n), k, n)
    [] v = "combo2"    -> EntEnt(DynMod(ChainRe(G, k, n), k, n), k, n)

-----------------------------------------------------------------------------
(* top-level name families: the names of module j get the suffix chosen by   *)
(* digit j of `code` in base 3: "" (equal names in every module), "2", "3"   *)
(* (names of the form the collision renamers generate themselves)            *)
SfxOf(d) == CASE d = 0 -> "" [] d = 1 -> "2" [] OTHER -> "3"
Styled(G, k, code) ==
  [G EXCEPT !.files = [f \in DOMAIN G.files |->
      IF f <= k THEN G.files[f] ELSE [G.files[f] EXCEPT !.sfx = SfxOf((code \div (3 ^ (f - k - 1))) % 3)]]]

-----------------------------------------------------------------------------
(* the re-export chain family: e1 re-exports the bindings of an origin       *)
(* module through a chain of 1..3 re-export statements (0..2 intermediate    *)
(* barrel files r1, r2), every statement of any kind.  The origin lives in   *)
(* a shared chunk (e2 uses it too), in e1's own chunk, or is the other entry *)
(* point; e1's own code uses the bindings or not; the barrels are private to *)
(* e1 or also reached by e2; the origin has suffixed names and a default     *)
(* export or not; e1 declares bindings of its own (which shadow `export *`)  *)
(* or not.  m2 is a bystander both entry points use.                         *)
ChainKinds == {"star", "named", "rename", "imex", "ns"}
Main3 == {"star", "named", "imex"}
KindSeqs ==
  {<<a>> : a \in ChainKinds} \cup {<<a, b>> : a \in ChainKinds, b \in ChainKinds} \cup
  {<<a, b, c>> : a \in Main3, b \in Main3, c \in Main3} \cup
  UNION {{<<x, "star", "star">>, <<"star", x, "star">>, <<"star", "star", x>>, <<x, "named", "imex">>, <<"imex", x, "named">>}
           : x \in {"ns", "rename"}}
Places == {"shared", "own", "entry"}
\* origin variants: a = plain names, no default, e1 declares nothing; b = suffix 2, default export, e1 declares
\* v, c, bump; c = plain names, default export, e1 declares v, c, bump (legal only under star / ns / rename)
OVariants == {"a", "b", "c"}
\* dyn: e1 does not re-export the chain but import()s its first barrel (ks[1] is not used: star only), which
\* makes the barrel an entry point whose exports arrive through the rest of the chain
ChainParams ==
  {p \in [ks : KindSeqs, place : Places, used : BOOLEAN, mid : BOOLEAN, ov : OVariants, dyn : BOOLEAN] :
     /\ (p.mid => Len(p.ks) >= 2 /\ p.place # "entry")
     /\ (p.ov = "c" => p.ks[1] \in {"star", "ns", "rename"} /\ ~p.used)
     /\ (p.dyn => Len(p.ks) >= 2 /\ p.ks[1] = "star" /\ ~p.used /\ ~p.mid /\ p.ov # "c")}
ChainGraph(p) ==
  LET d      == Len(p.ks) - 1                     \* barrels
      origin == IF p.place = "entry" THEN 2 ELSE 3
      m2     == 4
      bar(i) == 4 + i
      hop(i) == IF i > d THEN origin ELSE bar(i)  \* the file the i-th barrel is (i = d + 1: the origin)
      e1     == [MkFile("e1", (IF p.used THEN <<Bind(hop(1))>> ELSE <<>>) \o <<Bind(m2)>>, <<>>, <<>>, p.ov # "a")
                   EXCEPT !.rx = IF p.dyn THEN <<>> ELSE <<[to |-> hop(1), kind |-> p.ks[1]]>>,
                          !.dyn = IF p.dyn THEN <<hop(1)>> ELSE <<>>]
      e2     == MkFile("e2", (IF p.place = "shared" THEN <<Bind(3)>> ELSE <<>>) \o <<Bind(m2)>> \o
                             (IF p.mid THEN <<[to |-> bar(1), bind |-> FALSE]>> ELSE <<>>), <<>>, <<>>, TRUE)
      o      == [MkFile("m1", <<>>, <<>>, <<>>, TRUE) EXCEPT !.sfx = IF p.ov = "b" THEN "2" ELSE "", !.dflt = p.ov # "a"]
      e2o    == IF p.place = "entry" THEN [e2 EXCEPT !.sfx = IF p.ov = "b" THEN "2" ELSE "", !.dflt = p.ov # "a"] ELSE e2
      base   == <<e1, e2o, o, MkFile("m2", <<>>, <<>>, <<>>, TRUE)>>
      bars   == [i \in 1..d |-> [MkFile("r" \o ToString(i), <<>>, <<>>, <<>>, FALSE)
                                    EXCEPT !.rx = <<[to |-> hop(i + 1), kind |-> p.ks[i + 1]]>>]]
  IN [files |-> base \o bars, entries |-> <<1, 2>>, splitting |-> TRUE]
RECURSIVE JoinStrs(_, _)
JoinStrs(s, i) == IF i > Len(s) THEN "" ELSE (IF i > 1 THEN "-" ELSE "") \o s[i] \o JoinStrs(s, i + 1)
ChainLabel(p) == "rx:" \o p.place \o ":" \o JoinStrs(p.ks, 1) \o ":" \o p.ov \o
                 (IF p.used THEN ":used" ELSE ":unused") \o (IF p.mid THEN ":mid" ELSE "") \o (IF p.dyn THEN ":dyn" ELSE "")
KindIx(x) == CASE x = "star" -> 1 [] x = "named" -> 2 [] x = "rename" -> 3 [] x = "imex" -> 4 [] OTHER -> 5
RECURSIVE KsHash(_, _)
KsHash(ks, i) == IF i > Len(ks) THEN 0 ELSE (2 * i + 1) * KindIx(ks[i]) + KsHash(ks, i + 1)
ChainHash(p) == KsHash(p.ks, 1) + (CASE p.place = "shared" -> 0 [] p.place = "own" -> 5 [] OTHER -> 11) +
                (IF p.used THEN 3 ELSE 0) + (IF p.mid THEN 7 ELSE 0) + (IF p.dyn THEN 9 ELSE 0) + (CASE p.ov = "a" -> 0 [] p.ov = "b" -> 13 [] OTHER -> 17)
ChainFamily ==
  IF ChainPick = 9999 THEN {}
  ELSE {[label |-> ChainLabel(p), k |-> 2, masks |-> <<>>, variant |-> "rxchain", graph |-> ChainGraph(p)]
          : p \in {q \in ChainParams : /\ (ChainPick = 0 \/ (ChainHash(q) + ChainPick) % ChainDiv = 0)
                                       /\ (Half = 0 \/ ((ChainHash(q) \div ChainDiv) % 2) + 1 = Half)}}

(* the name-collision family: k entry points that all use all of n modules   *)
(* (one shared chunk exporting every binding), in every naming               *)
NameShapes == {<<2, 3>>, <<2, 4>>, <<3, 3>>}
NameFamily ==
  IF NamePick = 9999 THEN {}
  ELSE UNION {{[label |-> "names:k" \o ToString(sh[1]) \o "n" \o ToString(sh[2]) \o ":" \o ToString(code), k |-> sh[1],
                 masks |-> [j \in 1..sh[2] |-> 2 ^ sh[1] - 1], variant |-> "names",
                 graph |-> Styled(Base(sh[1], sh[2], [j \in 1..sh[2] |-> 2 ^ sh[1] - 1]), sh[1], code)]
                  : code \in {c \in 1..(3 ^ sh[2] - 1) :
                                /\ (NamePick = 0 \/ sh = <<2, 3>> \/ (c + NamePick) % 8 = 0)
                                /\ (Half = 0 \/ (c % 2) + 1 = Half)}}
                : sh \in NameShapes}


(* the wrap-kind family: k entry points reach a shared module s (m1), each   *)
(* in its own way: not at all, by an import statement, by require(), by      *)
(* import(), by require() of an intermediate ES module w1 that imports s by  *)
(* statement (w1 and therefore s are wrapped lazily), by an import statement *)
(* of an intermediate w2 that require()s s, by an import statement of w1     *)
(* (wrapped or not, depending on what the other entry points do).  s is      *)
(* written as an ES module or in CommonJS syntax.  The wrap kind of every    *)
(* file follows (Link!WrapOf); where s and the intermediates live (a shared  *)
(* chunk, an entry point's own chunk, the entry chunk of s itself under      *)
(* import()) follows from the pattern.  m2 is a bystander every entry uses.  *)
ReachKinds == {"none", "static", "req", "dyn", "viareq", "viastat", "viaw"}
RIx(x) == CASE x = "none" -> 0 [] x = "static" -> 1 [] x = "req" -> 2 [] x = "dyn" -> 3 [] x = "viareq" -> 4 [] x = "viastat" -> 5 [] OTHER -> 6
SrcKinds == {"esm", "cjs"}
WrapParams ==
  {p \in [sk : SrcKinds, r : UNION {[1..k -> ReachKinds] : k \in {2, 3}}] :
     /\ \E i \in DOMAIN p.r : p.r[i] # "none"
     \* (import() of a CommonJS module yields only `default` with splitting and the full namespace without: outside the family)
     /\ (p.sk = "cjs" => \A i \in DOMAIN p.r : p.r[i] # "dyn")
     \* three entry points: up to their order
     /\ (Len(p.r) = 3 => RIx(p.r[1]) <= RIx(p.r[2]) /\ RIx(p.r[2]) <= RIx(p.r[3]))}
WrapGraph(p) ==
  LET k  == Len(p.r)
      sF == k + 1
      w1 == k + 2
      w2 == k + 3
      m2 == k + 4
      ent(i) ==
        LET x == p.r[i]
            base == MkFile(EntryName(i),
                      (CASE x = "static" -> <<Bind(sF)>> [] x = "viastat" -> <<Bind(w2)>> [] x = "viaw" -> <<Bind(w1)>> [] OTHER -> <<>>) \o <<Bind(m2)>>,
                      <<>>, IF x = "dyn" THEN <<sF>> ELSE <<>>, TRUE)
        IN [base EXCEPT !.req = CASE x = "req" -> <<sF>> [] x = "viareq" -> <<w1>> [] OTHER -> <<>>]
  IN [files |-> [i \in 1..k |-> ent(i)] \o
                <<[MkFile("m1", <<>>, <<>>, <<>>, TRUE) EXCEPT !.cjs = (p.sk = "cjs")],
                  MkFile("w1", <<Bind(sF)>>, <<>>, <<>>, TRUE),
                  [MkFile("w2", <<>>, <<>>, <<>>, TRUE) EXCEPT !.req = <<sF>>],
                  MkFile("m2", <<>>, <<>>, <<>>, TRUE)>>,
      entries |-> [i \in 1..k |-> i], splitting |-> TRUE]
WrapLabel(p) == "wrap:" \o p.sk \o ":" \o JoinStrs(p.r, 1)
RECURSIVE RHash(_, _)
RHash(r, i) == IF i > Len(r) THEN 0 ELSE (2 * i + 1) * RIx(r[i]) + RHash(r, i + 1)
WrapHash(p) == RHash(p.r, 1) + (IF p.sk = "cjs" THEN 4 ELSE 0)
\* label-first: the patterns every quick run contains, whatever the seed (one per way a wrapper crosses a chunk
\* boundary: statement import / require() of a lazily wrapped ES module and of a CommonJS module in another chunk,
\* directly and through wrapped / requiring intermediates, an import() target that is also wrapped)
WrapCore == {<<"esm", <<"static", "req">>>>, <<"esm", <<"req", "req">>>>, <<"esm", <<"viaw", "viareq">>>>, <<"esm", <<"static", "viastat">>>>,
             <<"esm", <<"dyn", "req">>>>, <<"cjs", <<"static", "static">>>>, <<"cjs", <<"req", "viaw">>>>}
WrapFamily ==
  IF WrapPick = 9999 THEN {}
  ELSE {[label |-> WrapLabel(p), k |-> Len(p.r), masks |-> <<>>, variant |-> "wrap", graph |-> WrapGraph(p)]
          : p \in {q \in WrapParams : /\ (WrapPick = 0 \/ <<q.sk, q.r>> \in WrapCore \/ (Len(q.r) = 2 /\ (WrapHash(q) + WrapPick) % 6 = 0))
                                      /\ (Half = 0 \/ (WrapHash(q) % 2) + 1 = Half)}}

(* the loader / CSS family: e1 import()s the page module p1, which is parsed *)
(* by the js, ts, tsx or jsx loader and imports a style sheet itself, through *)
(* a dependency q1, both ways, or not at all; e2 does not know p1, imports it *)
(* by statement as well, or import()s it too; e2 (parsed by the same loader)  *)
(* imports a style sheet of its own or not; p1 and e2 share a JSON module or  *)
(* not.  A JS entry point (user or import() target) that reaches CSS gets a   *)
(* CSS chunk next to its JS chunk; import() and the entry point metadata      *)
(* name the JS one.                                                           *)
PageLoaders == {"js", "ts", "tsx", "jsx"}
CssModes == {"none", "direct", "dep", "both"}
AlsoModes == {"no", "static", "dyn2"}
LoaderParams == [ldr : PageLoaders, css : CssModes, also : AlsoModes, ecss : BOOLEAN, json : BOOLEAN]
LoaderGraph(p) ==
  LET p1 == 3  q1 == 4  m2 == 5  pc == 6  qc == 7  ec == 8  data == 9
      side(t) == [to |-> t, bind |-> FALSE]
      opt(c, x) == IF c THEN <<x>> ELSE <<>>
      e1 == MkFile("e1", <<Bind(m2)>>, <<>>, <<p1>>, TRUE)
      e2 == [MkFile("e2", <<Bind(m2)>> \o opt(p.also = "static", Bind(p1)) \o opt(p.ecss, side(ec)) \o opt(p.json, Bind(data)),
                    <<>>, IF p.also = "dyn2" THEN <<p1>> ELSE <<>>, TRUE)
               EXCEPT !.ldr = IF p.ecss THEN p.ldr ELSE "js"]
      pg == [MkFile("p1", <<Bind(m2)>> \o opt(p.css \in {"dep", "both"}, Bind(q1)) \o opt(p.css \in {"direct", "both"}, side(pc)) \o opt(p.json, Bind(data)),
                    <<>>, <<>>, TRUE) EXCEPT !.ldr = p.ldr]
      q  == MkFile("q1", opt(p.css \in {"dep", "both"}, side(qc)), <<>>, <<>>, TRUE)
      sheet(n) == [MkFile(n, <<>>, <<>>, <<>>, FALSE) EXCEPT !.ldr = "css"]
      dt == [MkFile("data", <<>>, <<>>, <<>>, FALSE) EXCEPT !.ldr = "json", !.dflt = TRUE]
  IN [files |-> <<e1, e2, pg, q, MkFile("m2", <<>>, <<>>, <<>>, TRUE), sheet("pc"), sheet("qc"), sheet("ec"), dt>>,
      entries |-> <<1, 2>>, splitting |-> TRUE]
LoaderLabel(p) == "ldr:" \o p.ldr \o ":css-" \o p.css \o ":also-" \o p.also \o (IF p.ecss THEN ":ecss" ELSE "") \o (IF p.json THEN ":json" ELSE "")
LIx(x) == CASE x = "js" -> 0 [] x = "ts" -> 1 [] x = "tsx" -> 2 [] OTHER -> 3
CIx(x) == CASE x = "none" -> 0 [] x = "direct" -> 1 [] x = "dep" -> 2 [] OTHER -> 3
LoaderHash(p) == LIx(p.ldr) + 5 * CIx(p.css) + (CASE p.also = "no" -> 0 [] p.also = "static" -> 7 [] OTHER -> 11) + (IF p.ecss THEN 3 ELSE 0) + (IF p.json THEN 13 ELSE 0)
\* label-first: every quick run has, for every loader kind, an import() target with a CSS sibling chunk (which of the
\* three CSS modes rotates with the seed) and one where the target is also imported by statement
LoaderCoreP(p) == /\ ~p.ecss /\ ~p.json
                  /\ \/ (p.also = "no" /\ CIx(p.css) = 1 + ((LIx(p.ldr) + LoaderPick) % 3))
                     \/ (p.also = "static" /\ CIx(p.css) = 1 + ((LIx(p.ldr) + LoaderPick + 1) % 3) /\ (LIx(p.ldr) + LoaderPick) % 2 = 0)
LoaderFamily ==
  IF LoaderPick = 9999 THEN {}
  ELSE {[label |-> LoaderLabel(p), k |-> 2, masks |-> <<>>, variant |-> "loader", graph |-> LoaderGraph(p)]
          : p \in {q \in LoaderParams : /\ (LoaderPick = 0 \/ LoaderCoreP(q) \/ (LoaderHash(q) + LoaderPick) % 12 = 0)
                                        /\ (Half = 0 \/ (LoaderHash(q) % 2) + 1 = Half)}}

RECURSIVE JoinInts(_, _)
JoinInts(s, i) == IF i > Len(s) THEN "" ELSE (IF i > 1 THEN "." ELSE "") \o ToString(s[i]) \o JoinInts(s, i + 1)
LabelOf(k, masks, v) == "k" \o ToString(k) \o ":" \o JoinInts(masks, 1) \o ":" \o v

VariantSeq == <<"plain", "side1", "sideall", "bindless", "chain", "chainre", "entryre", "dynmod",
                "dynfresh", "dynentry", "dynentry2", "entent", "ententre", "combo1", "combo2">>
VIndex(v) == CHOOSE i \in 1..Len(VariantSeq) : VariantSeq[i] = v
RECURSIVE MaskHash(_, _)
MaskHash(m, i) == IF i > Len(m) THEN 0 ELSE i * m[i] + MaskHash(m, i + 1)
Selected(k, m, v) ==
  \/ Pick = 0
  \/ LET h == 5 * k + MaskHash(m, 1) + Pick
         nv == Len(VariantSeq)
     IN (VIndex(v) - 1) \in ({h % nv} \cup (IF PickTwo THEN {(3 * h + 7) % nv} ELSE {}))

InHalf(m) == Half = 0 \/ (MaskHash(m, 1) % 2) + 1 = Half

\* every graph of the incidence family gets one naming: equal names for a third of them
StyleCode(k, n, m, v) ==
  LET h == 7 * MaskHash(m, 1) + 13 * VIndex(v) + 3 * k + Pick
  IN IF h % 3 = 0 THEN 0 ELSE (h \div 3) % (3 ^ n)
StyleLabel(c) == IF c = 0 THEN "" ELSE ":s" \o ToString(c)
IncFamily ==
  UNION {UNION {{[label |-> LabelOf(sh[1], m, v) \o StyleLabel(StyleCode(sh[1], sh[2], m, v)), k |-> sh[1], masks |-> m, variant |-> v,
                  graph |-> Styled(Apply(v, Base(sh[1], sh[2], m), sh[1], sh[2]), sh[1], StyleCode(sh[1], sh[2], m, v))]
                   : v \in {w \in Variants : (sh[2] >= 2 \/ w \notin NeedsTwo) /\ Selected(sh[1], m, w)}}
                 : m \in {m2 \in Masks(sh[1], sh[2]) : InHalf(m2)}}
           : sh \in Shapes}
Family == IncFamily \cup ChainFamily \cup NameFamily \cup WrapFamily \cup LoaderFamily

-----------------------------------------------------------------------------
(* the observations the specification predicts for a graph *)
\* What the body of f reads through its binding imports, in source order: for every import with bind, the
\* binding triples of the target's export table (by declaring file), then its default exports, then its
\* namespace exports.  A read is [via, kind, file, alias, calias, balias]: the names are those the target exports.
TripleReads(G, t) ==
  LET T  == TLCEval(TableOf(G, t))
      vs == {x \in T : x.kind = "v"}
      \* the c and bump entries that travel with a v entry: same file, same tail
      mate(x, k) == CHOOSE y \in T : y.kind = k /\ y.file = x.file /\ y.tail = x.tail
      one(x) == [via |-> t, kind |-> "triple", file |-> x.file, alias |-> x.alias, calias |-> mate(x, "c").alias, balias |-> mate(x, "bump").alias]
      RECURSIVE ByFile(_)
      ByFile(fs) == IF fs = <<>> THEN <<>> ELSE [i \in 1..Cardinality({x \in vs : x.file = Head(fs)}) |->
                                                    one(AnySeq({x \in vs : x.file = Head(fs)})[i])] \o ByFile(Tail(fs))
  IN ByFile(SortInts({x.file : x \in vs}))
SingleReads(G, t, k) ==
  LET xs == AnySeq({x \in TableOf(G, t) : x.kind = k})
  IN [i \in 1..Len(xs) |-> [via |-> t, kind |-> k, file |-> xs[i].file, alias |-> xs[i].alias, calias |-> "", balias |-> ""]]
RECURSIVE ReadsFrom(_, _, _)
ReadsFrom(G, f, i) ==
  IF i > Len(G.files[f].imports) THEN <<>>
  ELSE LET imp == G.files[f].imports[i]
       IN (IF imp.bind THEN TripleReads(G, imp.to) \o SingleReads(G, imp.to, "default") \o SingleReads(G, imp.to, "ns") ELSE <<>>)
          \o ReadsFrom(G, f, i + 1)
Reads(G, f) == ReadsFrom(G, f, 1)
\* the files whose bindings f reads and bumps at top level, in source order
BindTargets(G, f) == LET r == SelectSeq(Reads(G, f), LAMBDA x : x.kind = "triple") IN [i \in 1..Len(r) |-> r[i].file]

\* value of `v` of a file: its id plus twice the own `v` of the bound imports (static imports are acyclic)
RECURSIVE Val(_, _), SumVals(_, _, _)
SumVals(G, f, i) ==
  IF i > Len(G.files[f].imports) THEN 0
  ELSE LET imp == G.files[f].imports[i]
       IN (IF imp.bind /\ G.files[imp.to].exports THEN Val(G, imp.to) ELSE 0) + SumVals(G, f, i + 1)
Val(G, f) == f + 2 * SumVals(G, f, 1)
\* value of the default export of a file
DVal(G, f) == 1000 * f
\* number of names in the namespace of a file
NKeys(G, f) == Cardinality({x.alias : x \in TableOf(G, f)})

Ev(G, kind, t, val) == <<kind, G.files[t].name, val>>
RECURSIVE ReadEffects(_, _)
ReadEffects(G, rs) ==
  IF rs = <<>> THEN <<>>
  ELSE LET r == Head(rs)
       IN (CASE r.kind = "triple"  -> <<Ev(G, "read", r.file, Val(G, r.file)), Ev(G, "bump", r.file, 1)>>
             [] r.kind = "default" -> <<Ev(G, "dflt", r.file, DVal(G, r.file))>>
             [] OTHER              -> <<Ev(G, "ns", r.file, NKeys(G, r.file))>>) \o ReadEffects(G, Tail(rs))
\* the synchronous effects of the body of f, in order
\* the body require()s its targets after its helper ran and reports `v` of what it gets
ReqEffects(G, f) == [i \in 1..Len(G.files[f].req) |->
                       LET t == G.files[f].req[i] IN Ev(G, "req", t, IF G.files[t].exports THEN Val(G, t) ELSE 0 - 1)]
EffectsWith(G, f, rs) ==
  <<Ev(G, "start", f, 0), Ev(G, "helper", f, f)>> \o ReqEffects(G, f) \o
  (IF G.files[f].exports THEN <<Ev(G, "own", f, Val(G, f))>> ELSE <<>>) \o
  ReadEffects(G, rs) \o
  <<Ev(G, "end", f, 0)>>
Effects(G, f) == EffectsWith(G, f, Reads(G, f))
\* the effects of its dynamic imports (after the body, in any order)
\* (the importer reads `v` \o sfx of the namespace it receives, if there is such a name, and counts its names)
DynVal(G, d) ==
  LET xs == {x \in TableOf(G, d) : x.kind = "v" /\ x.alias = "v" \o G.files[d].sfx}
  IN IF xs = {} THEN 0 - 1 ELSE Val(G, (CHOOSE x \in xs : TRUE).file)
RECURSIVE AsyncFrom(_, _, _)
AsyncFrom(G, f, i) ==
  IF i > Len(G.files[f].dyn) THEN <<>>
  ELSE LET d == G.files[f].dyn[i]
       IN <<Ev(G, "dyn", d, DynVal(G, d)), Ev(G, "dynkeys", d, NKeys(G, d))>> \o AsyncFrom(G, f, i + 1)
AsyncEffects(G, f) == AsyncFrom(G, f, 1)

Names(G, S) == {G.files[f].name : f \in S}
IdOf(G, nm) == CHOOSE f \in FileIds(G) : G.files[f].name = nm
\* loading a set of user entry points to quiescence (all dynamic imports fired)
LoadedBy(G, S) == {f \in Reach(AllChildren(G), SortInts(S)) : IsJS(G, f)}
\* value of `c` of t: every loaded module bumps it once per binding path at top level
CounterWith(bt, ld, t) == Cardinality({p \in UNION {{<<m, i>> : i \in 1..Len(bt[m])} : m \in ld} : bt[p[1]][p[2]] = t})
Counter(G, ld, t) == CounterWith([m \in FileIds(G) |-> BindTargets(G, m)], ld, t)

\* feature labels of a graph (what the quick slice is balanced over, and what the evidence counts)
Features(G, LL) ==
  LET live == LiveFiles(LL)
      xw(kind, how) == \E u \in LL.uses : /\ u.name = "wrapper" /\ LL.files[u.file].wrap = kind
                                            /\ ChunkOfFile(LL, u.by) # ChunkOfFile(LL, u.file)
                                            /\ (how = "req") = (u.file \in ReqTargets(G, u.by))
  IN (IF \E f \in live : LL.files[f].wrap = "esm" THEN {"wrap-esm"} ELSE {}) \cup
     (IF \E f \in live : LL.files[f].wrap = "cjs" THEN {"wrap-cjs"} ELSE {}) \cup
     (IF xw("esm", "stmt") THEN {"xchunk-init-by-import-statement"} ELSE {}) \cup
     (IF xw("esm", "req") THEN {"xchunk-init-by-require"} ELSE {}) \cup
     (IF xw("cjs", "stmt") THEN {"xchunk-require-by-import-statement"} ELSE {}) \cup
     (IF xw("cjs", "req") THEN {"xchunk-require-by-require"} ELSE {}) \cup
     (IF \E f \in live : LL.files[f].wrap # "none" /\ LL.files[f].isEntry THEN {"wrapped-entry"} ELSE {}) \cup
     (IF CSSChunkIds(LL) # {} THEN {"css-chunk"} ELSE {}) \cup
     {"dyn-target-" \o G.files[t].ldr \o (IF CssOf(G, t) # {} THEN "-css" ELSE "") : t \in DynEntries(G) \ UserEntries(G)} \cup
     (IF \E e \in UserEntries(G) : CssOf(G, e) # {} /\ \E f \in CssOf(G, e) : e \in LL.files[f].bits THEN {"user-entry-css"} ELSE {}) \cup
     (IF \E f \in live : G.files[f].ldr = "json" THEN {"json"} ELSE {})

CaseRec(lab, k, masks, variant, G, LL) ==
  LET ids == FileIds(G)
      nms == Names(G, {f \in ids : HasBody(G, f)})
      Obs(S) == {f \in S : HasBody(G, f)}
      nm(f) == G.files[f].name
      rd  == TLCEval([f \in ids |-> Reads(G, f)])
      bt  == TLCEval([f \in ids |-> LET r == SelectSeq(rd[f], LAMBDA x : x.kind = "triple") IN [i \in 1..Len(r) |-> r[i].file]])
      tab == TLCEval([f \in ids |-> TableOf(G, f)])
  IN [ spec    |-> "LinkGen",
       label   |-> lab, k |-> k, masks |-> masks, variant |-> variant,
       files   |-> [f \in ids |->
                      [ name |-> G.files[f].name, base |-> f, exports |-> G.files[f].exports,
                        sfx |-> G.files[f].sfx, dflt |-> G.files[f].dflt, cjs |-> G.files[f].cjs, ldr |-> G.files[f].ldr,
                        req |-> [i \in DOMAIN G.files[f].req |-> nm(G.files[f].req[i])],
                        imports |-> [i \in DOMAIN G.files[f].imports |->
                                       [to |-> G.files[G.files[f].imports[i].to].name, bind |-> G.files[f].imports[i].bind]],
                        reexp |-> [i \in DOMAIN G.files[f].reexp |-> G.files[G.files[f].reexp[i]].name],
                        rx    |-> [i \in DOMAIN G.files[f].rx |-> [to |-> nm(G.files[f].rx[i].to), kind |-> G.files[f].rx[i].kind]],
                        dyn   |-> [i \in DOMAIN G.files[f].dyn |-> G.files[G.files[f].dyn[i]].name] ]],
       entries |-> [i \in DOMAIN G.entries |-> G.files[G.entries[i]].name],
       expect  |->
         [ allEntries |-> Names(G, LL.entries),
           live    |-> Names(G, LiveFiles(LL)),
           wrap    |-> [n \in Names(G, LiveFiles(LL)) |-> LL.files[IdOf(G, n)].wrap],
           \* the symbols the rendered bodies really read (an importer of an entry point imports its observers peek_e /
           \* poke_e but does not read them: the bundler may drop that import)
           uses    |-> {[by |-> nm(u.by), file |-> nm(u.file), name |-> u.name]
                          : u \in {u2 \in LL.uses : \A q \in {"peek", "poke"} : u2.name # ObserverName(G, u2.file, q)}},
           features |-> Features(G, LL),
           chunks  |-> {[ bits  |-> Names(G, LL.chunks[c].bits),
                          kind  |-> LL.chunks[c].kind,
                          files |-> Names(G, LL.chunks[c].files),
                          entry |-> IF LL.chunks[c].isEntry THEN G.files[LL.chunks[c].entry].name ELSE "",
                          static  |-> {Names(G, LL.chunks[d].bits) : d \in StaticImports(LL, c)},
                          dynamic |-> {Names(G, LL.chunks[d].bits) : d \in DynamicImports(LL, c)},
                          exports |-> {[alias |-> x.alias, file |-> nm(x.file), name |-> x.name] : x \in LL.chunks[c].exports} ]
                         : c \in ChunkIds(LL)},
           shared  |-> Cardinality({c \in ChunkIds(LL) : ~LL.chunks[c].isEntry}),
           val     |-> [n \in Names(G, ids) |-> Val(G, IdOf(G, n))],
           dval    |-> [n \in Names(G, ids) |-> DVal(G, IdOf(G, n))],
           effects |-> [n \in nms |-> EffectsWith(G, IdOf(G, n), rd[IdOf(G, n)])],
           async   |-> [n \in nms |-> AsyncEffects(G, IdOf(G, n))],
           reads   |-> [n \in nms |-> LET r == rd[IdOf(G, n)]
                                       IN [i \in DOMAIN r |-> [via |-> nm(r[i].via), kind |-> r[i].kind, file |-> nm(r[i].file),
                                                                alias |-> r[i].alias, calias |-> r[i].calias, balias |-> r[i].balias]]],
           \* the resolved export table (the namespace) of every live file
           tables  |-> [n \in Names(G, LiveFiles(LL)) |->
                          {[alias |-> x.alias, file |-> nm(x.file), name |-> x.name, kind |-> x.kind] : x \in tab[IdOf(G, n)]}],
           \* what loading an entry point (user or dynamic) evaluates at once: its static closure
           closure |-> [n \in Names(G, LL.entries) |-> Names(G, Obs(Reach(SrcChildren(G), <<IdOf(G, n)>>)))],
           subsets |-> {[ entries |-> Names(G, S),
                          loaded  |-> Names(G, Obs(LoadedBy(G, S))),
                          c |-> [n \in Names(G, Obs(LoadedBy(G, S))) |-> CounterWith(bt, LoadedBy(G, S), IdOf(G, n))] ]
                          : S \in (SUBSET UserEntries(G)) \ {{}}} ] ]

-----------------------------------------------------------------------------
(* the load machine *)
\* Init only chooses the graph; Setup links it (Compute) and exports the CASE record.  (TLC evaluates Init with one
\* thread and without caching LET values; actions are evaluated by every worker, with caching.)
Init ==
  \E x \in Family :
     /\ label = x.label
     /\ g = x.graph
     /\ meta = [k |-> x.k, masks |-> x.masks, variant |-> x.variant]
     /\ phase = "new"
     /\ L = <<>>
     /\ designFailing = {}
     /\ loaded = <<>> /\ fired = {} /\ evSrc = {} /\ evCh = {}
     /\ runs = [f \in FileIds(x.graph) |-> 0]
     /\ bad = FALSE

Setup ==
  /\ phase = "new"
  /\ phase' = "linked"
  /\ LET LL == Compute(g)
     IN /\ L' = LL
        /\ designFailing' = Failing(LL) \cup (IF UsesAreImportedAndInitialised(LL) THEN {} ELSE {"UsesAreImportedAndInitialised"})
                                       \cup (IF \A f \in FileIds(g) : WellFormedFile(g, f) THEN {} ELSE {"WellFormedGraph"})
        /\ (Export => PrintT(<<"CASE", ToJson(CaseRec(label, meta.k, meta.masks, meta.variant, g, LL))>>))
  /\ UNCHANGED <<label, g, meta, loaded, fired, evSrc, evCh, runs, bad>>

Count(s, x) == Cardinality({i \in 1..Len(s) : s[i] = x})
\* load the entry chunk of e (a user entry point or a dynamic import target) in both semantics
\* Evaluating chunks runs the bodies of their files in chunk order, except that the body of a wrapped file (init_x /
\* require_x) runs when it is first called: by the body of a file that imports it by statement or require()s it.
\* wch: file -> the wrapped files its body calls, in order; acc = [seen, order]: bodies that ran.
RECURSIVE RunFiles(_, _, _, _)
RunFiles(wch, Wall, fs, acc) ==
  IF fs = <<>> THEN acc
  ELSE LET f == Head(fs)
       IN IF f \in Wall THEN RunFiles(wch, Wall, Tail(fs), acc)
          ELSE LET a1 == POSeq(wch, wch[f], acc)
               IN RunFiles(wch, Wall, Tail(fs), [a1 EXCEPT !.order = Append(@, f)])
\* the entry chunk of a wrapped entry point calls the wrapper of the entry point after the bodies of its files
RECURSIVE RunChunks(_, _, _, _, _)
RunChunks(LL, wch, Wall, cs, acc) ==
  IF cs = <<>> THEN acc
  ELSE LET ch == LL.chunks[Head(cs)]
           a1 == RunFiles(wch, Wall, ch.order, acc)
           a2 == IF ch.isEntry /\ ch.entry \in Wall THEN PO(wch, ch.entry, a1) ELSE a1
       IN RunChunks(LL, wch, Wall, Tail(cs), a2)
LoadStep(e) ==
  LET ord    == SrcEvalOrder(g, e, evSrc)
      cs     == ChunkEvalOrder(L, e, evCh)
      Wall   == {f \in FileIds(g) : L.files[f].wrap # "none"}
      wch    == [f \in FileIds(g) |-> SelectSeq(SrcChildren(g)[f], LAMBDA t : t \in Wall)]
      bodies == RunChunks(L, wch, Wall, cs, [seen |-> {f \in DOMAIN runs : runs[f] > 0}, order |-> <<>>]).order
  IN /\ evSrc' = evSrc \cup SeqToSet(ord)
     /\ evCh' = evCh \cup SeqToSet(cs)
     /\ runs' = [f \in DOMAIN runs |-> runs[f] + Count(bodies, f)]
     /\ bad' = (\/ bad
                \/ \E i \in 1..Len(bodies) : \E u \in L.uses :
                         /\ u.by = bodies[i] /\ u.file # bodies[i] /\ u.name # "wrapper"
                         /\ runs[u.file] = 0 /\ \A j \in 1..(i - 1) : bodies[j] # u.file
                \* a wrapper that is called is defined: its chunk is evaluated
                \/ \E i \in 1..Len(bodies) : \E u \in L.uses :
                         /\ u.by = bodies[i] /\ u.name = "wrapper"
                         /\ ChunkOfFile(L, u.file) \notin (evCh \cup SeqToSet(cs)))

LoadEntry(e) ==
  /\ phase = "linked"
  /\ e \in UserEntries(g) \ SeqToSet(loaded)
  /\ loaded' = Append(loaded, e)
  /\ LoadStep(e)
  /\ UNCHANGED <<label, g, meta, phase, L, designFailing, fired>>

Pending == (UNION {DynTargets(g, f) : f \in evSrc}) \ fired
FireDyn(t) ==
  /\ phase = "linked"
  /\ t \in Pending
  /\ fired' = fired \cup {t}
  /\ LoadStep(t)
  /\ UNCHANGED <<label, g, meta, phase, L, designFailing, loaded>>

Next == Setup \/ (\E e \in UserEntries(g) : LoadEntry(e)) \/ (\E t \in FileIds(g) : FireDyn(t))
Spec == Init /\ [][Next]_vars

-----------------------------------------------------------------------------
(* checked on every graph of the family *)
DesignHolds == designFailing = {}
BodiesAtMostOnce == \A f \in DOMAIN runs : runs[f] <= 1
\* the split program evaluates exactly the modules the unsplit program evaluates
SameModulesAsSource == {f \in DOMAIN runs : runs[f] > 0} = evSrc
NoReadBeforeInit == ~bad
\* at quiescence the evaluated modules are those predicted for the loaded subset
QuiescentAsPredicted ==
  (Pending = {} /\ loaded # <<>>) => evSrc = LoadedBy(g, SeqToSet(loaded))

\* sanity of the family itself
FamilyHasSharedChunks == \E x \in Family : \E c \in ChunkIds(Compute(x.graph)) : ~Compute(x.graph).chunks[c].isEntry
=============================================================================
