------------------------------ MODULE LinkGen ------------------------------
(***************************************************************************)
(* The bounded graph family of C10 and the load machine.                    *)
(*                                                                          *)
(* Family: bipartite incidence patterns of k entry points over n shared     *)
(* modules (module j is imported by the entry points in the non-empty set   *)
(* masks[j], a bit mask; patterns up to the order of the modules), each     *)
(* decorated by a feature variant: side-effect-only shared modules, module  *)
(* -> module imports and re-exports across the future chunk boundary,       *)
(* re-export-only entry points, dynamic import() of a non-entry module, of  *)
(* a module nobody imports statically, of an entry point (from a shared     *)
(* module and from an entry point), entry points importing / re-exporting   *)
(* entry points.  Every module declares the same top-level names (id,       *)
(* helper, v, c, bump): equal names meet in every chunk.                    *)
(*                                                                          *)
(* Init chooses a graph G, computes L == Compute(G) (Link.tla) and, when    *)
(* Export is TRUE, prints the CASE record: the graph, the expected chunking *)
(* and the expected observations.  The machine then loads the user entry    *)
(* points in any subset and order into one registry (LoadEntry) and fires   *)
(* pending dynamic imports in any order (FireDyn), in two semantics in lock *)
(* step: the ES semantics of the source graph and the evaluation of the     *)
(* computed chunk graph.                                                    *)
(***************************************************************************)
EXTENDS Link, Json

CONSTANTS Shapes,    \* set of <<k, n>>
          Variants,  \* set of variant names
          Export,    \* print CASE records
          Pick,      \* 0 = every variant of every pattern; n > 0 = a slice of two variants per pattern chosen by n
          Half       \* 0 = every pattern; 1, 2 = one half of the patterns (to spread a shape over two TLC runs)

VARIABLES label, g, L, designFailing,
          loaded,   \* sequence of user entry points loaded so far
          fired,    \* dynamic import targets already loaded
          evSrc,    \* modules evaluated, ES semantics of the source graph
          evCh,     \* chunks evaluated
          runs,     \* file -> number of times its body ran (chunk semantics)
          bad       \* a body read a binding of a file whose body had not run
vars == <<label, g, L, designFailing, loaded, fired, evSrc, evCh, runs, bad>>

ShapesTiny     == {<<2, 1>>, <<2, 2>>}
ShapesQuick    == {<<2, 1>>, <<2, 2>>, <<2, 3>>, <<2, 4>>, <<3, 1>>, <<3, 2>>, <<3, 3>>}
ShapesThorough == ShapesQuick \cup {<<3, 4>>}
\* slices of the family, one TLC run each (initial states are computed by one thread)
ShapesQuickA == {<<3, 3>>}
ShapesQuickB == ShapesQuick \ ShapesQuickA
S21 == {<<2, 1>>}
S22 == {<<2, 2>>}
S23 == {<<2, 3>>}
S24 == {<<2, 4>>}
S31 == {<<3, 1>>}
S32 == {<<3, 2>>}
S33 == {<<3, 3>>}
S34 == {<<3, 4>>}
AllVariants == {"plain", "side1", "sideall", "bindless", "chain", "chainre", "entryre",
                "dynmod", "dynfresh", "dynentry", "dynentry2", "entent", "ententre",
                "combo1", "combo2"}

-----------------------------------------------------------------------------
(* the family *)
Bit(mask, i) == (mask \div (2 ^ (i - 1))) % 2 = 1
Masks(k, n) == {s \in [1..n -> 1..(2 ^ k - 1)] : \A i \in 1..(n - 1) : s[i] <= s[i + 1]}
EntryName(i) == "e" \o ToString(i)
ModName(j) == "m" \o ToString(j)
MkFile(name, imports, reexp, dyn, exports) ==
  [name |-> name, imports |-> imports, reexp |-> reexp, dyn |-> dyn, exports |-> exports]
Bind(t) == [to |-> t, bind |-> TRUE]

Base(k, n, masks) ==
  LET importsOf(i) == LET idx == SelectSeq([j \in 1..n |-> j], LAMBDA j : Bit(masks[j], i))
                      IN [p \in 1..Len(idx) |-> Bind(k + idx[p])]
  IN [ files |-> [f \in 1..(k + n) |->
                    IF f <= k THEN MkFile(EntryName(f), importsOf(f), <<>>, <<>>, TRUE)
                    ELSE MkFile(ModName(f - k), <<>>, <<>>, <<>>, TRUE)],
       entries |-> [i \in 1..k |-> i],
       splitting |-> TRUE ]

Side1(G, k, n)    == [G EXCEPT !.files[k + 1].exports = FALSE]
SideAll(G, k, n)  == [G EXCEPT !.files = [f \in DOMAIN G.files |-> IF f > k THEN [G.files[f] EXCEPT !.exports = FALSE] ELSE G.files[f]]]
Bindless(G, k, n) == [G EXCEPT !.files = [f \in DOMAIN G.files |->
                        [G.files[f] EXCEPT !.imports = [i \in DOMAIN G.files[f].imports |-> [G.files[f].imports[i] EXCEPT !.bind = FALSE]]]]]
Chain(G, k, n)    == [G EXCEPT !.files[k + 1].imports = <<Bind(k + n)>>]
ChainRe(G, k, n)  == [G EXCEPT !.files[k + 1].reexp = <<k + n>>]
EntryRe(G, k, n)  == [G EXCEPT !.files = [f \in DOMAIN G.files |->
                        IF f <= k /\ Len(G.files[f].imports) >= 1
                        THEN [G.files[f] EXCEPT !.imports = Tail(@), !.reexp = <<G.files[f].imports[1].to>>]
                        ELSE G.files[f]]]
DynMod(G, k, n)   == [G EXCEPT !.files[1].dyn = <<k + n>>]
DynFresh(G, k, n) == [G EXCEPT !.files = Append([@ EXCEPT ![1].dyn = <<k + n + 1>>],
                                                  MkFile("d1", <<Bind(k + 1)>>, <<>>, <<>>, TRUE))]
DynEntry(G, k, n)  == [G EXCEPT !.files[k + 1].dyn = <<k>>]
DynEntry2(G, k, n) == [G EXCEPT !.files[1].dyn = <<k>>]
EntEnt(G, k, n)    == [G EXCEPT !.files[k].imports = <<Bind(1)>> \o @]
EntEntRe(G, k, n)  == [G EXCEPT !.files[k].reexp = <<1>>]

NeedsTwo == {"chain", "chainre", "combo2"}
Apply(v, G, k, n) ==
  CASE v = "plain"     -> G
    [] v = "side1"     -> Side1(G, k, n)
    [] v = "sideall"   -> SideAll(G, k, n)
    [] v = "bindless"  -> Bindless(G, k, n)
    [] v = "chain"     -> Chain(G, k, n)
    [] v = "chainre"   -> ChainRe(G, k, n)
    [] v = "entryre"   -> EntryRe(G, k, n)
    [] v = "dynmod"    -> DynMod(G, k, n)
    [] v = "dynfresh"  -> DynFresh(G, k, n)
    [] v = "dynentry"  -> DynEntry(G, k, n)
    [] v = "dynentry2" -> DynEntry2(G, k, n)
    [] v = "entent"    -> EntEnt(G, k, n)
    [] v = "ententre"  -> EntEntRe(G, k, n)
    [] v = "combo1"    -> EntryRe(DynFresh(Side1(G, k, n), k, n), k, n)
    [] v = "combo2"    -> EntEnt(DynMod(ChainRe(G, k, n), k, n), k, n)

RECURSIVE JoinInts(_, _)
JoinInts(s, i) == IF i > Len(s) THEN "" ELSE (IF i > 1 THEN "." ELSE "") \o ToString(s[i]) \o JoinInts(s, i + 1)
LabelOf(k, masks, v) == "k" \o ToString(k) \o ":" \o JoinInts(masks, 1) \o ":" \o v

VariantSeq == <<"plain", "side1", "sideall", "bindless", "chain", "chainre", "entryre", "dynmod",
                "dynfresh", "dynentry", "dynentry2", "entent", "ententre", "combo1", "combo2">>
VIndex(v) == CHOOSE i \in 1..Len(VariantSeq) : VariantSeq[i] = v
RECURSIVE MaskHash(_, _)
MaskHash(m, i) == IF i > Len(m) THEN 0 ELSE i * m[i] + MaskHash(m, i + 1)
Selected(k, m, v) ==
  \/ Pick = 0
  \/ LET h == 5 * k + MaskHash(m, 1) + Pick
         nv == Len(VariantSeq)
     IN (VIndex(v) - 1) \in {h % nv, (3 * h + 7) % nv}

InHalf(m) == Half = 0 \/ (MaskHash(m, 1) % 2) + 1 = Half

Family ==
  UNION {UNION {{[label |-> LabelOf(sh[1], m, v), k |-> sh[1], masks |-> m, variant |-> v,
                  graph |-> Apply(v, Base(sh[1], sh[2], m), sh[1], sh[2])]
                   : v \in {w \in Variants : (sh[2] >= 2 \/ w \notin NeedsTwo) /\ Selected(sh[1], m, w)}}
                 : m \in {m2 \in Masks(sh[1], sh[2]) : InHalf(m2)}}
           : sh \in Shapes}

-----------------------------------------------------------------------------
(* the observations the specification predicts for a graph *)
RECURSIVE BindTargetsFrom(_, _, _)
\* the files whose bindings f reads and bumps at top level, in source order
BindTargetsFrom(G, f, i) ==
  IF i > Len(G.files[f].imports) THEN <<>>
  ELSE LET imp == G.files[f].imports[i]
           here == IF imp.bind
                   THEN (IF G.files[imp.to].exports THEN <<imp.to>> ELSE <<>>) \o
                        SelectSeq(G.files[imp.to].reexp, LAMBDA t : G.files[t].exports)
                   ELSE <<>>
       IN here \o BindTargetsFrom(G, f, i + 1)
BindTargets(G, f) == BindTargetsFrom(G, f, 1)

\* value of `v` of a file: its id plus twice the own `v` of the bound imports (static imports are acyclic)
RECURSIVE Val(_, _), SumVals(_, _, _)
SumVals(G, f, i) ==
  IF i > Len(G.files[f].imports) THEN 0
  ELSE LET imp == G.files[f].imports[i]
       IN (IF imp.bind /\ G.files[imp.to].exports THEN Val(G, imp.to) ELSE 0) + SumVals(G, f, i + 1)
Val(G, f) == f + 2 * SumVals(G, f, 1)

Ev(G, kind, t, val) == <<kind, G.files[t].name, val>>
RECURSIVE ReadBumps(_, _)
ReadBumps(G, ts) == IF ts = <<>> THEN <<>>
                    ELSE <<Ev(G, "read", Head(ts), Val(G, Head(ts))), Ev(G, "bump", Head(ts), 1)>> \o ReadBumps(G, Tail(ts))
\* the synchronous effects of the body of f, in order
Effects(G, f) ==
  <<Ev(G, "start", f, 0), Ev(G, "helper", f, f)>> \o
  (IF G.files[f].exports THEN <<Ev(G, "own", f, Val(G, f))>> ELSE <<>>) \o
  ReadBumps(G, BindTargets(G, f)) \o
  <<Ev(G, "end", f, 0)>>
\* the effects of its dynamic imports (after the body, in any order)
AsyncEffects(G, f) ==
  [i \in 1..Len(G.files[f].dyn) |->
     LET d == G.files[f].dyn[i] IN Ev(G, "dyn", d, IF G.files[d].exports THEN Val(G, d) ELSE 0 - 1)]

Names(G, S) == {G.files[f].name : f \in S}
IdOf(G, nm) == CHOOSE f \in FileIds(G) : G.files[f].name = nm
\* loading a set of user entry points to quiescence (all dynamic imports fired)
LoadedBy(G, S) == Reach(AllChildren(G), SortInts(S))
\* value of `c` of t: every loaded module bumps it once per binding path at top level
Counter(G, ld, t) == Cardinality({p \in UNION {{<<m, i>> : i \in 1..Len(BindTargets(G, m))} : m \in ld} : BindTargets(G, p[1])[p[2]] = t})

CaseRec(lab, k, masks, variant, G, LL) ==
  LET ids == FileIds(G)
      nms == Names(G, ids)
  IN [ spec    |-> "LinkGen",
       label   |-> lab, k |-> k, masks |-> masks, variant |-> variant,
       files   |-> [f \in ids |->
                      [ name |-> G.files[f].name, base |-> f, exports |-> G.files[f].exports,
                        imports |-> [i \in DOMAIN G.files[f].imports |->
                                       [to |-> G.files[G.files[f].imports[i].to].name, bind |-> G.files[f].imports[i].bind]],
                        reexp |-> [i \in DOMAIN G.files[f].reexp |-> G.files[G.files[f].reexp[i]].name],
                        dyn   |-> [i \in DOMAIN G.files[f].dyn |-> G.files[G.files[f].dyn[i]].name] ]],
       entries |-> [i \in DOMAIN G.entries |-> G.files[G.entries[i]].name],
       expect  |->
         [ allEntries |-> Names(G, LL.entries),
           live    |-> Names(G, LiveFiles(LL)),
           chunks  |-> {[ bits  |-> Names(G, LL.chunks[c].bits),
                          files |-> Names(G, LL.chunks[c].files),
                          entry |-> IF LL.chunks[c].isEntry THEN G.files[LL.chunks[c].entry].name ELSE "",
                          static  |-> {Names(G, LL.chunks[d].bits) : d \in StaticImports(LL, c)},
                          dynamic |-> {Names(G, LL.chunks[d].bits) : d \in DynamicImports(LL, c)} ]
                         : c \in ChunkIds(LL)},
           shared  |-> Cardinality({c \in ChunkIds(LL) : ~LL.chunks[c].isEntry}),
           val     |-> [nm \in nms |-> Val(G, IdOf(G, nm))],
           effects |-> [nm \in nms |-> Effects(G, IdOf(G, nm))],
           async   |-> [nm \in nms |-> AsyncEffects(G, IdOf(G, nm))],
           binds   |-> [nm \in nms |-> [i \in DOMAIN BindTargets(G, IdOf(G, nm)) |-> G.files[BindTargets(G, IdOf(G, nm))[i]].name]],
           exports |-> [nm \in Names(G, UserEntries(G)) |->
                          {[alias |-> x.alias, file |-> G.files[x.file].name, name |-> x.name] : x \in ExportsOf(G, IdOf(G, nm))}],
           \* what loading an entry point (user or dynamic) evaluates at once: its static closure
           closure |-> [nm \in Names(G, LL.entries) |-> Names(G, Reach(SrcChildren(G), <<IdOf(G, nm)>>))],
           subsets |-> {[ entries |-> Names(G, S),
                          loaded  |-> Names(G, LoadedBy(G, S)),
                          c |-> [nm \in Names(G, LoadedBy(G, S)) |-> Counter(G, LoadedBy(G, S), IdOf(G, nm))] ]
                          : S \in (SUBSET UserEntries(G)) \ {{}}} ] ]

-----------------------------------------------------------------------------
(* the load machine *)
Init ==
  \E x \in Family :
     /\ label = x.label
     /\ g = x.graph
     /\ L = Compute(x.graph)
     /\ designFailing = Failing(L) \cup (IF UsesAreImportedAndInitialised(L) THEN {} ELSE {"UsesAreImportedAndInitialised"})
     /\ loaded = <<>> /\ fired = {} /\ evSrc = {} /\ evCh = {}
     /\ runs = [f \in FileIds(x.graph) |-> 0]
     /\ bad = FALSE
     /\ (Export => PrintT(<<"CASE", ToJson(CaseRec(x.label, x.k, x.masks, x.variant, x.graph, L))>>))

Count(s, x) == Cardinality({i \in 1..Len(s) : s[i] = x})
\* load the entry chunk of e (a user entry point or a dynamic import target) in both semantics
LoadStep(e) ==
  LET ord    == SrcEvalOrder(g, e, evSrc)
      cs     == ChunkEvalOrder(L, e, evCh)
      bodies == Flatten(L, cs)
  IN /\ evSrc' = evSrc \cup SeqToSet(ord)
     /\ evCh' = evCh \cup SeqToSet(cs)
     /\ runs' = [f \in DOMAIN runs |-> runs[f] + Count(bodies, f)]
     /\ bad' = (bad \/ \E i \in 1..Len(bodies) : \E u \in L.uses :
                         /\ u.by = bodies[i] /\ u.file # bodies[i]
                         /\ runs[u.file] = 0 /\ \A j \in 1..(i - 1) : bodies[j] # u.file)

LoadEntry(e) ==
  /\ e \in UserEntries(g) \ SeqToSet(loaded)
  /\ loaded' = Append(loaded, e)
  /\ LoadStep(e)
  /\ UNCHANGED <<label, g, L, designFailing, fired>>

Pending == (UNION {DynTargets(g, f) : f \in evSrc}) \ fired
FireDyn(t) ==
  /\ t \in Pending
  /\ fired' = fired \cup {t}
  /\ LoadStep(t)
  /\ UNCHANGED <<label, g, L, designFailing, loaded>>

Next == (\E e \in UserEntries(g) : LoadEntry(e)) \/ (\E t \in FileIds(g) : FireDyn(t))
Spec == Init /\ [][Next]_vars

-----------------------------------------------------------------------------
(* checked on every graph of the family *)
DesignHolds == designFailing = {}
BodiesAtMostOnce == \A f \in DOMAIN runs : runs[f] <= 1
\* the split program evaluates exactly the modules the unsplit program evaluates
SameModulesAsSource == {f \in DOMAIN runs : runs[f] > 0} = evSrc
NoReadBeforeInit == ~bad
\* at quiescence the evaluated modules are those predicted for the loaded subset
QuiescentAsPredicted ==
  (Pending = {} /\ loaded # <<>>) => evSrc = LoadedBy(g, SeqToSet(loaded))

\* sanity of the family itself
FamilyHasSharedChunks == \E x \in Family : \E c \in ChunkIds(Compute(x.graph)) : ~Compute(x.graph).chunks[c].isEntry
=============================================================================
