----------------------------- MODULE ResolveMC -----------------------------
(***************************************************************************)
(* Generator and model-level checks for Resolve.tla (property C11).         *)
(*                                                                         *)
(* The bounded family: package trees (a fixed directory skeleton whose     *)
(* package.json fields are the varying part) x importing file x specifier  *)
(* x kind x extra conditions.  One behaviour per question:                 *)
(*     tree --EmitTree--> ask --Ask(i)--> done                             *)
(* EmitTree exports the tree, Ask exports the question with the answer the *)
(* transcription of Node's algorithm predicts (file | error class) and the *)
(* branch labels it went through.  The invariants are checked by TLC on    *)
(* every answer.                                                           *)
(***************************************************************************)
EXTENDS Resolve, Json, SequencesExt

CONSTANTS
  Families,   \* subset of {"E1","E2","E3","E4","E5","I","L","A"}
  Level       \* 1 = quick family, 2 = thorough family (larger value sets)

VARIABLES ti, phase, qi, res
vars == << ti, phase, qi, res >>

-----------------------------------------------------------------------------
(* helpers *)

S(x) == JStr(x)
\* injective sequences of length k over set X ("every key order")
OrdSeqs(X, k) == { f \in [1..k -> X] : \A i, j \in 1..k : i # j => f[i] # f[j] }
Obj1(k1, v1) == JObj(<< k1 >>, << v1 >>)
Obj2(k1, v1, k2, v2) == JObj(<< k1, k2 >>, << v1, v2 >>)

RECURSIVE Mentions(_, _)
Mentions(j, key) ==
  \/ j.k = "obj" /\ \E i \in 1..Len(j.ks) : j.ks[i] = key \/ Mentions(j.vs[i], key)
  \/ j.k = "arr" /\ \E i \in 1..Len(j.vs) : Mentions(j.vs[i], key)

RECURSIVE AncestorSet(_)
AncestorSet(d) == IF d = "" THEN {""} ELSE {d} \cup AncestorSet(Dirname(d))
DirsOf(files) == UNION { AncestorSet(Dirname(f)) : f \in files }

PJ(name, main, type, exports, imports) ==
  [exists |-> TRUE, name |-> name, main |-> main, type |-> type, exports |-> exports, imports |-> imports]

-----------------------------------------------------------------------------
(* the directory skeleton *)

P  == "/node_modules/p"
Under(d, names) == { d \o "/" \o n : n \in names }

\* what a pattern target directory contains
PatFiles == {"x", "x.js", "bx", "bx.js", "b/x", "b/x.js", "f.js"}

SrcFiles == Under("/src", {"main.js", "f.js", "g.json", "h.mjs", "both.js", "both.json", "both/index.js",
                           "onlyjson.json", "dir/index.js", "dirj/index.json", "dirm/lib/m.js",
                           "dirx/index.js", "dire/x.js", "x.js", "common.js",
                           "addon.node", "dirn/index.node"})
PCore == Under(P, {"f.js", "e.mjs", "c.cjs", "g.json", "a.js", "lib/u.js", "lib/index.js",
                   "d/x.js", "d/y.js", "d/index.js", "d/x/z.js", "a/x.js", "x.js"})
PPat == UNION { Under(P \o "/" \o d, PatFiles) : d \in {"d1", "d2", "d3", "d4", "d5", "d6"} }
QNested  == Under(P \o "/node_modules/q", {"nested.js", "common.js", "x.js"})
QHoisted == Under("/node_modules/q", {"hoisted.js", "common.js", "x.js", "f.js"})
              \cup {"/node_modules/x.js"}    \* what p's invalid target "../x.js" would escape to
Others == {"/node_modules/r/index.js", "/node_modules/s.js",
           "/node_modules/@s/p/i.js", "/node_modules/@s/p/s.js", "/node_modules/@s/p/pat/k.js",
           "/node_modules/@s/p/other.js", "/node_modules/@s/n/m.js",
           "/linked/l/m.js", "/linked/l/sub/n.js", "/linked/node_modules/k/index.js",
           "/node_modules/k/index.js", "/node_modules/app/index.js",
           "/linked/le/m.js", "/linked/le/sub/n.js", "/linked/le/other.js"}

PJNested  == PJ("q", S("nested.js"), "", JUndef, JUndef)
PJHoisted == PJ("q", S("hoisted.js"), "", JUndef, JUndef)
PJScoped  == PJ("@s/p", JUndef, "",
                JObj(<< ".", "./sub", "./pat/*" >>, << S("./i.js"), S("./s.js"), S("./pat/*.js") >>), JUndef)
\* the exports p has when the question is about something else
PExportsDefault == JObj(<< ".", "./a", "./b/*" >>, << S("./f.js"), S("./e.mjs"), S("./d/*.js") >>)

\* params: [fam, exp, pmain, ptype, pidx, pimp, aexp, aimp]
Params(fam, exp, pmain, ptype, pidx, pimp, aexp, aimp) ==
  [fam |-> fam, exp |-> exp, pmain |-> pmain, ptype |-> ptype, pidx |-> pidx,
   pimp |-> pimp, aexp |-> aexp, aimp |-> aimp]

PjDirs(full) == {"", P, P \o "/node_modules/q", "/node_modules/q"}
                  \cup (IF full THEN {"/src/dirm", "/src/dirx", "/node_modules/@s/p", "/node_modules/@s/n",
                                      "/linked/l", "/linked/le"} ELSE {})
MkFiles(pat, full, idx) ==
  SrcFiles \cup PCore \cup QNested \cup QHoisted
    \cup (IF idx THEN {P \o "/index.js"} ELSE {})
    \cup (IF pat THEN PPat ELSE {})
    \cup (IF full THEN Others ELSE {})
    \cup { d \o "/package.json" : d \in PjDirs(full) }
\* the four skeletons that occur (zero-arity definitions: evaluated once by TLC)
FilesPlain     == MkFiles(FALSE, FALSE, TRUE)
FilesPat       == MkFiles(TRUE, FALSE, TRUE)
FilesFull      == MkFiles(FALSE, TRUE, TRUE)
FilesFullNoIdx == MkFiles(FALSE, TRUE, FALSE)
DirsPlain      == DirsOf(FilesPlain)
DirsPat        == DirsOf(FilesPat)
DirsFull       == DirsOf(FilesFull)
DirsFullNoIdx  == DirsOf(FilesFullNoIdx)
LinksFull == [l \in {"/node_modules/l", "/node_modules/le"} |->
                IF l = "/node_modules/l" THEN "/linked/l" ELSE "/linked/le"]
LinksNone == [l \in {} |-> ""]

TreeOf(pr) ==
  LET full == pr.fam \in {"L", "A"}
      pat == pr.fam \in {"E4", "E5", "I"}
      pj == [d \in PjDirs(full) |->
               CASE d = "" -> PJ("app", JUndef, "", pr.aexp, pr.aimp)
                 [] d = P  -> PJ("p", pr.pmain, pr.ptype, pr.exp, pr.pimp)
                 [] d = P \o "/node_modules/q" -> PJNested
                 [] d = "/node_modules/q" -> PJHoisted
                 [] d = "/src/dirm" -> PJ("", S("lib/m.js"), "", JUndef, JUndef)
                 [] d = "/src/dirx" -> PJ("", S("missing"), "", JUndef, JUndef)
                 [] d = "/node_modules/@s/p" -> PJScoped
                 [] d = "/node_modules/@s/n" -> PJ("@s/n", S("m.js"), "", JUndef, JUndef)
                 [] d = "/linked/l" -> PJ("l", S("m.js"), "", JUndef, JUndef)
                 [] d = "/linked/le" -> PJ("le", JUndef, "",
                                           Obj2(".", S("./m.js"), "./sub/*", S("./sub/*.js")), JUndef)]
  IN [files |-> IF pat THEN FilesPat ELSE IF ~full THEN FilesPlain ELSE IF pr.pidx THEN FilesFull ELSE FilesFullNoIdx,
      dirs  |-> IF pat THEN DirsPat ELSE IF ~full THEN DirsPlain ELSE IF pr.pidx THEN DirsFull ELSE DirsFullNoIdx,
      pj |-> pj, links |-> IF full THEN LinksFull ELSE LinksNone]

-----------------------------------------------------------------------------
(* value families *)

Conds == {"import", "require", "node", "default", "browser"}

Leaf == { S("./f.js"), S("./e.mjs"), S("./d/x.js"), S("./g.json"), S("./missing.js"), S("./d"), S("./f"),
          S("../x.js"), S("/abs.js"), S("q/common.js"), S("./node_modules/q/common.js"),
          S("./d/../f.js"), S("./d/./x.js"), S("f.js"), S("."), JNull, JNum }

ArrFirst == { S("../x.js"), JNull, S("./missing.js"), JNum, S("./e.mjs"), S("q/common.js"),
              Obj1("browser", S("./c.cjs")), Obj1("node", S("./c.cjs")), JArr(<< >>), JArr(<< S("/abs.js") >>) }
ArrSecond == { S("./f.js"), JNull, S("/abs.js"), Obj1("import", S("./e.mjs")) }
Arrays == { JArr(<< a, b >>) : a \in ArrFirst, b \in ArrSecond }
            \cup { JArr(<< >>), JArr(<< S("../x.js"), JNull, S("./f.js") >>), JArr(<< JNull, JNull >>),
                   JArr(<< S("./f.js") >>), JArr(<< JNum, S("../x.js") >>) }

\* E1: a leaf or an array, as main sugar and below "./a"
E1 == UNION { { v, Obj1("./a", v), Obj2(".", S("./g.json"), "./a", v) } : v \in Leaf \cup Arrays }

\* E2: one condition object (depth 1), every order of 1..3 conditions
CondVals == { S("./f.js"), S("./e.mjs"), JNull, S("../x.js") }
CondObjs(k, vals) == UNION { { JObj(ks, vs) : vs \in [1..k -> vals] } : ks \in OrdSeqs(Conds, k) }
Distinct3 == { JObj(ks, << S("./f.js"), S("./e.mjs"), S("./c.cjs") >>) : ks \in OrdSeqs(Conds, 3) }
E2 == CondObjs(1, CondVals) \cup CondObjs(2, CondVals)
        \cup (IF Level >= 2 THEN CondObjs(3, { S("./f.js"), S("./e.mjs"), JNull }) ELSE Distinct3)
        \cup { Obj1("./a", o) : o \in Distinct3 }

\* E3: nested condition objects (depth 2): {k1: {k2: v2, k3: v3} [, default: w]}
InnerVals == { S("./f.js"), S("./e.mjs"), JNull }
Inner == UNION { { JObj(ks, vs) : vs \in [1..2 -> InnerVals] } : ks \in OrdSeqs({"import", "require", "default", "browser"}, 2) }
E3 == UNION { { Obj1(k1, in), Obj2(k1, in, "default", S("./c.cjs")), Obj2("default", S("./c.cjs"), k1, in) }
              : k1 \in (IF Level >= 2 THEN {"node", "import", "browser"} ELSE {"node", "browser"}), in \in Inner }
        \cup { Obj1(".", Obj2("node", in, "default", S("./c.cjs"))) : in \in Inner }
        \cup (IF Level >= 2
              THEN UNION { { Obj1("./a", Obj2(k1, in, "default", S("./c.cjs"))),
                             JArr(<< Obj1(k1, in), S("./c.cjs") >>) }
                           : k1 \in {"node", "import"}, in \in Inner }
              ELSE {})

\* E4: subpath patterns with overlapping prefixes, every key order; each key
\* has its own target directory so the answer names the key that won
PatKeys == {"./a/*", "./a/*.js", "./*", "./a/b/*", "./a/b*", "./*.js"}
OwnTarget(key) ==
  CASE key = "./a/*" -> S("./d1/*") [] key = "./a/*.js" -> S("./d2/*.js") [] key = "./*" -> S("./d3/*")
    [] key = "./a/b/*" -> S("./d4/*") [] key = "./a/b*" -> S("./d5/b*") [] key = "./*.js" -> S("./d6/*.js")
    [] key = "./a" -> S("./e.mjs") [] key = "./a/x.js" -> S("./c.cjs") [] key = "." -> S("./f.js")
\* the key sequence ks with its own targets, except the keys in nulls -> null
PatObj(ks, nulls) == JObj(ks, [i \in 1..Len(ks) |-> IF ks[i] \in nulls THEN JNull ELSE OwnTarget(ks[i])])
E4 == { PatObj(ks, {}) : ks \in OrdSeqs(PatKeys, 1) \cup OrdSeqs(PatKeys, 2) \cup OrdSeqs(PatKeys, 3) }
        \cup UNION { { PatObj(ks, {ks[i]}) : i \in 1..2 } : ks \in OrdSeqs(PatKeys, 2) }
        \cup (IF Level >= 2
              THEN UNION { { PatObj(ks, {ks[i]}) : i \in 1..3 } : ks \in OrdSeqs(PatKeys, 3) }
                   \cup { PatObj(ks, {}) : ks \in OrdSeqs(PatKeys, 4) }
              ELSE {})
        \cup UNION { { PatObj(ks, {}), PatObj(ks, {"./a"}), PatObj(ks, {"./a/x.js"}) }
                     : ks \in { f \in OrdSeqs({"./a", "./a/x.js", "./a/*", "./*"}, 3) : TRUE } }
        \cup { PatObj(<< ".", "./a/*", "./a/*.js", "./*", "./a/b/*", "./a/b*", "./*.js" >>, {}),
               PatObj(<< "./*.js", "./a/b*", "./a/b/*", "./*", "./a/*.js", "./a/*", "." >>, {}) }

\* E5: what a pattern may map to
PatLeaf == { S("./d1/*"), S("./d1/*.js"), S("./*"), S("./d1/*/x.js"), S("./d1/*/*.js"), S("./d1/x.js"),
             S("../*"), S("/abs/*"), S("q/*"), S("./node_modules/*"), S("./d1/../*"), S("*"), JNull, JNum,
             JArr(<< S("../*"), S("./d1/*.js") >>), JArr(<< JNull, S("./d1/*") >>),
             Obj2("import", S("./d1/*.js"), "default", S("./d2/*.js")),
             Obj2("browser", S("./d1/*.js"), "require", S("./d2/*")),
             Obj1("node", Obj2("require", S("./d1/*"), "import", JNull)) }
E5 == UNION { { Obj1("./a/*", v), Obj2("./a/*.js", v, "./a/*", S("./d3/*")) } : v \in PatLeaf }
        \cup { Obj2(".", S("./f.js"), "import", S("./e.mjs")),        \* mixed keys
               Obj2("import", S("./e.mjs"), "./a", S("./f.js")),
               JObj(<< >>, << >>), JNum, JNull }

\* I: imports maps of the application package (scope of /src/main.js)
ImpKeys == {"#x/*", "#x/*.js", "#*", "#x/b/*"}
ImpOwn(key) ==
  CASE key = "#x/*" -> S("./node_modules/p/d1/*") [] key = "#x/*.js" -> S("./src/*.js") [] key = "#*" -> S("q/*")
    [] key = "#x/b/*" -> S("p/b/*") [] key = "#x" -> S("./src/f.js")
ImpObj(ks, nulls) == JObj(ks, [i \in 1..Len(ks) |-> IF ks[i] \in nulls THEN JNull ELSE ImpOwn(ks[i])])
ImpLeaf == { S("./src/f.js"), S("./src/missing.js"), S("./src/dir"), S("q"), S("q/common.js"), S("q/missing.js"),
             S("p"), S("p/a"), S("p/zz"), S("p/b/x"), S("@s/p/sub"), S("nopkg"), S("#x"), S("../x.js"), S("/abs.js"),
             S("./node_modules/q/common.js"), JNull, JNum,
             Obj2("import", S("./src/h.mjs"), "require", S("./src/f.js")),
             Obj2("require", S("q"), "default", S("p")),
             Obj2("browser", S("./src/g.json"), "default", S("./src/f.js")),
             Obj1("browser", S("./src/g.json")),
             JArr(<< S("../x.js"), S("q/common.js") >>), JArr(<< JNull, S("./src/f.js") >>),
             JArr(<< S("nopkg"), S("./src/f.js") >>), JArr(<< >>) }
ImpMaps == { Obj1("#x", v) : v \in ImpLeaf }
        \cup { ImpObj(ks, {}) : ks \in OrdSeqs(ImpKeys, 1) \cup OrdSeqs(ImpKeys, 2) \cup OrdSeqs(ImpKeys, 3) }
        \cup UNION { { ImpObj(ks, {ks[i]}) : i \in 1..2 } : ks \in OrdSeqs(ImpKeys, 2) }
        \cup (IF Level >= 2
              THEN UNION { { ImpObj(ks, {ks[i]}) : i \in 1..3 } : ks \in OrdSeqs(ImpKeys, 3) }
                   \cup { ImpObj(ks, {}) : ks \in OrdSeqs(ImpKeys, 4) }
              ELSE {})
        \cup { ImpObj(<< "#x", "#x/*" >>, {}), ImpObj(<< "#x/*", "#x" >>, {"#x"}),
               JObj(<< >>, << >>), JNull, JUndef, JNum, S("./src/f.js") }

PMains == { JUndef, S("f.js"), S("./f.js"), S("f"), S("d"), S("./lib"), S("./lib/"), S("missing"), S("e.mjs"),
            S("g"), JNum, S("") }

AExps == { JUndef, JNull, S("./src/f.js"),
           JObj(<< ".", "./sub", "./pat/*" >>, << S("./src/f.js"), S("./src/h.mjs"), S("./src/*.js") >>),
           Obj1("./sub", Obj2("import", S("./src/h.mjs"), "require", S("./src/f.js"))) }

ParamSet ==
     (IF "E1" \in Families THEN { Params("E1", e, S("a.js"), "", TRUE, JUndef, JUndef, JUndef) : e \in E1 } ELSE {})
  \cup (IF "E2" \in Families THEN { Params("E2", e, S("a.js"), "", TRUE, JUndef, JUndef, JUndef) : e \in E2 } ELSE {})
  \cup (IF "E3" \in Families THEN { Params("E3", e, S("a.js"), "", TRUE, JUndef, JUndef, JUndef) : e \in E3 } ELSE {})
  \cup (IF "E4" \in Families THEN { Params("E4", e, S("a.js"), "", TRUE, JUndef, JUndef, JUndef) : e \in E4 } ELSE {})
  \cup (IF "E5" \in Families THEN { Params("E5", e, S("a.js"), "", TRUE, JUndef, JUndef, JUndef) : e \in E5 } ELSE {})
  \cup (IF "I" \in Families
        THEN { Params("I", PExportsDefault, JUndef, "", TRUE, JUndef, JUndef, m) : m \in ImpMaps }
             \cup { Params("I", PExportsDefault, JUndef, "", TRUE, m, JUndef, JUndef)
                    : m \in { Obj1("#x", S("./f.js")), Obj1("#x", S("q")), Obj1("#x/*", S("./d1/*.js")), JNull } }
        ELSE {})
  \cup (IF "L" \in Families
        THEN { Params("L", JUndef, m, "", idx, JUndef, JUndef, JUndef) : m \in PMains, idx \in BOOLEAN }
             \cup { Params("L", JUndef, S("f.js"), t, TRUE, JUndef, JUndef, JUndef) : t \in {"module", "commonjs"} }
             \cup { Params("L", PExportsDefault, S("a.js"), t, TRUE, JUndef, JUndef, JUndef) : t \in {"", "module"} }
        ELSE {})
  \cup (IF "A" \in Families
        THEN { Params("A", PExportsDefault, JUndef, "", TRUE, JUndef, a, JUndef) : a \in AExps }
        ELSE {})

ParamSeq == SetToSeq(ParamSet)
NT == Len(ParamSeq)
Trees == [i \in 1..NT |-> TreeOf(ParamSeq[i])]

-----------------------------------------------------------------------------
(* questions *)

MAIN == "/src/main.js"
U    == P \o "/lib/u.js"
LM   == "/linked/l/m.js"
LEM  == "/linked/le/m.js"
SJ   == "/node_modules/s.js"     \* an importer outside every package scope

Q(imp, spec, kind, conds) == [imp |-> imp, spec |-> spec, kind |-> kind, conds |-> conds]
Kinds == {"import", "require"}
QSet(imp, specs, condSets) == { Q(imp, s, k, c) : s \in specs, k \in Kinds, c \in condSets }

CondSetsFor(j) == IF Mentions(j, "browser") THEN { {}, {"browser"} } ELSE { {} }

SpecsMainOnly == {"p", "p/a", "p/f.js"}
SpecsSubpath == {"p", "p/a", "p/a/x", "p/a/x.js", "p/a/b/x", "p/a/b/x.js", "p/a/bx", "p/a/bx.js",
                 "p/x", "p/x.js", "p/f.js", "p/package.json", "p/a/x%2ejs", "p/a/b%2fx"}
SpecsBadMatch == {"p/a/x", "p/a/x.js", "p/a/b/x", "p/a/../f.js", "p/a/node_modules/q", "p/a/./x"}

RelSpecs == {"./f.js", "./f", "./g", "./g.json", "./h", "./h.mjs", "./both", "./both.js", "./both.json",
             "./onlyjson", "./dir", "./dir/index", "./dir/index.js", "./dirj", "./dirm", "./dirm/lib/m", "./dirx",
             "./dire", "./missing", "./missing.js", "../src/f.js", "./dir/../f.js", "./dir/./index.js", "/src/f.js",
             "/src/f", "/src/dir", "./f.js?q=1", "./f.js#frag", "./f?q=1", "../src/dir",
             "./%66.js", "./f%2ejs", "./dir%2findex.js", "./addon", "./addon.node", "./dirn"}
BareSpecs == {"p", "p/f", "p/f.js", "p/d", "p/d/x", "p/d/x.js", "p/d/x/z", "p/lib", "p/lib/index", "p/g", "p/c.cjs",
              "p/package.json", "p/missing", "p/a", "p/b/x",
              "q", "q/common", "q/common.js", "q/nested.js", "q/hoisted.js", "r", "r/index.js", "r/index", "s", "s.js",
              "@s/p", "@s/p/sub", "@s/p/pat/k", "@s/p/other.js", "@s/p/i.js", "@s/n", "@s/n/m.js", "@s/n/m", "@s",
              "l", "l/m.js", "l/sub/n.js", "l/sub/n", "l/sub", "k", "missing", "missing/sub", "app", "app/index.js",
              "#x", "node_modules/q", ".p", "p%2ff.js", "p/f%2ejs", "p/d%2fx.js",
              "le", "le/sub/n", "le/sub/n.js", "le/m.js", "le/other.js"}

Questions(pr) ==
  CASE pr.fam \in {"E1", "E2", "E3"} ->
         QSet(MAIN, IF pr.exp.k = "obj" /\ DotKeys(pr.exp) # {} THEN {"p", "p/a", "p/a/x", "p/f.js"} ELSE SpecsMainOnly,
              CondSetsFor(pr.exp))
         \cup QSet(U, {"p", "p/a"}, { {} })
    [] pr.fam = "E4" -> QSet(MAIN, SpecsSubpath, { {} }) \cup QSet(U, {"p/a/x.js", "p/a/b/x"}, { {} })
    [] pr.fam = "E5" -> QSet(MAIN, SpecsBadMatch \cup {"p", "p/a"}, CondSetsFor(pr.exp)) \cup QSet(U, {"p/a/x"}, { {} })
    [] pr.fam = "I" ->
         IF pr.aimp = JUndef /\ pr.pimp # JUndef
         THEN QSet(U, {"#x", "#x/x", "#y"}, { {} }) \cup QSet(MAIN, {"#x"}, { {} })
         ELSE QSet(MAIN, {"#x", "#x/f", "#x/f.js", "#x/x", "#x/x.js", "#x/common.js", "#x/b/x", "#y", "#", "#/x",
                          "#x/../f"}, CondSetsFor(pr.aimp))
              \cup QSet(U, {"#x"}, { {} })
    [] pr.fam = "L" ->
         QSet(MAIN, RelSpecs \cup BareSpecs, { {} })
         \cup QSet(U, {"q", "q/common.js", "q/nested.js", "q/hoisted.js", "r", "../f.js", "../f", "../d", "../lib",
                       "./index.js", "p", "p/f.js", "s", "k", "#x"}, { {} })
         \cup QSet(LM, {"k", "./sub/n.js", "./sub/n", "l", "l/sub/n.js", "q", "p"}, { {} })
         \cup QSet(LEM, {"le", "le/sub/n", "le/other.js", "k", "./sub/n.js"}, { {} })
         \cup QSet(SJ, {"#x", "p", "q", "r", "./s.js", "./q"}, { {} })
    [] pr.fam = "A" ->
         QSet(MAIN, {"app", "app/sub", "app/pat/f", "app/pat/h", "app/src/f.js", "app/index.js", "appx", "p"},
              { {} })
         \cup QSet(U, {"app", "app/sub"}, { {} })

QuestionSeqs == [i \in 1..NT |-> SetToSeq(Questions(ParamSeq[i]))]

-----------------------------------------------------------------------------
(* export *)

\* set of <<from, to>> pairs of a function (ToJson prints an empty function as [])
Pairs(f) == { << x, f[x] >> : x \in DOMAIN f }

TreeRec(i) ==
  [rec |-> "tree", ti |-> i, fam |-> ParamSeq[i].fam,
   files |-> Trees[i].files, links |-> Pairs(Trees[i].links),
   pj |-> Pairs(Trees[i].pj)]

CaseRec(i, n, q, r) ==
  [rec |-> "q", ti |-> i, qi |-> n, imp |-> q.imp, spec |-> q.spec, kind |-> q.kind, conds |-> q.conds,
   t |-> r.t, v |-> r.v, b |-> r.b, scope |-> r.scope, key |-> r.key]

ASSUME PrintT(<< "CASE", ToJson([rec |-> "labels", all |-> AllLabels]) >>)

-----------------------------------------------------------------------------
(* behaviour *)

Init == ti \in 1..NT /\ phase = "tree" /\ qi = 0 /\ res = UndefR

EmitTree ==
  /\ phase = "tree"
  /\ PrintT(<< "CASE", ToJson(TreeRec(ti)) >>)
  /\ phase' = "ask"
  /\ UNCHANGED << ti, qi, res >>

Ask ==
  /\ phase = "ask"
  /\ \E n \in 1..Len(QuestionSeqs[ti]) :
       /\ qi' = n
       /\ res' = Resolve(Trees[ti], QuestionSeqs[ti][n])
       /\ PrintT(<< "CASE", ToJson(CaseRec(ti, n, QuestionSeqs[ti][n], res')) >>)
  /\ phase' = "done"
  /\ UNCHANGED ti

Next == EmitTree \/ Ask
Spec == Init /\ [][Next]_vars

-----------------------------------------------------------------------------
(* what TLC checks on the model *)

Answered == phase = "done"
TheTree == Trees[ti]
TheQuestion == QuestionSeqs[ti][qi]

\* totality / well-formedness: every question gets exactly one answer which is
\* an existing file of the tree (a real path) or one error class
AnswerWellFormed ==
  Answered =>
    /\ res.t \in {"file", "err"}
    /\ res.t = "file" => res.v \in TheTree.files /\ RealPath(TheTree, res.v) = res.v
    /\ res.t = "err" => res.v \in ErrorClasses
    /\ res.b \subseteq AllLabels
    /\ (TheQuestion.kind = "require") => ~(res.t = "err" /\ res.v = "dir-import")

\* a relative ("./") target of an exports/imports map never leaves its package
NoEscape ==
  (Answered /\ res.t = "file" /\ res.scope # "<none>") => IsUnder(res.v, RealPath(TheTree, res.scope))

\* exports maps accept only relative targets: a file answer that came out of a
\* subpath of an exports map was produced by a "./" target
ExportsTargetsAreRelative ==
  (Answered /\ res.t = "file" /\ "EXPORTS.subpath" \in res.b /\ res.key # "" /\ ~StartsWith(res.key, "#"))
     => res.scope # "<none>"

\* null always blocks: a question whose matched key maps to a literal null is never a file
NullBlocks ==
  (Answered /\ "TARGET.null" \in res.b /\ ~("TARGET.arr.null-continue" \in res.b)
            /\ ~("TARGET.obj.condition-undefined-continue" \in res.b)
            /\ ~("TARGET.arr.invalid-target-continue" \in res.b))
     => res.t = "err"

\* PATTERN_KEY_COMPARE is a strict total order on the keys that can match the
\* same subpath: antisymmetric, transitive, and 0 only for keys that never
\* match a common string of the family
AllPatternKeys == PatKeys \cup ImpKeys \cup {"./a/*", "./b/*", "./pat/*"}
MatchUniverse == { "." \o DropFirst(s, 1) : s \in SpecsSubpath \cup SpecsBadMatch }
                   \cup {"#x", "#x/f", "#x/f.js", "#x/x", "#x/x.js", "#x/common.js", "#x/b/x", "#y"}
CompareIsOrder ==
  /\ \A a, b \in AllPatternKeys : PATTERN_KEY_COMPARE(a, b) = 0 - PATTERN_KEY_COMPARE(b, a)
  /\ \A a, b, c \in AllPatternKeys :
       (PATTERN_KEY_COMPARE(a, b) < 0 /\ PATTERN_KEY_COMPARE(b, c) < 0) => PATTERN_KEY_COMPARE(a, c) < 0
  /\ \A a, b \in AllPatternKeys :
       (a # b /\ PATTERN_KEY_COMPARE(a, b) = 0) =>
          ~\E m \in MatchUniverse : PatternMatches(a, m) /\ PatternMatches(b, m)
ASSUME CompareIsOrder

\* the first matching key of the sorted expansion keys is the most specific
\* matching key (longest base, then longest key), whatever the insertion order
MapOf(pr) == IF pr.fam = "I" THEN pr.aimp ELSE pr.exp
\* (evaluated on the "ask" states, which the TLC workers generate in parallel;
\* initial states are generated and checked by one thread)
MostSpecificWins ==
  phase = "ask" =>
    LET m == MapOf(ParamSeq[ti]) IN
    (m.k = "obj") =>
      LET sorted == ExpansionKeys(m) IN
      \A s \in MatchUniverse :
        LET hits == SelectSeq(sorted, LAMBDA key : PatternMatches(key, s))
        IN \A i, j \in 1..Len(hits) : i < j =>
             /\ PATTERN_KEY_COMPARE(hits[i], hits[j]) < 0
             /\ IndexOf(hits[i], "*") >= IndexOf(hits[j], "*")

=============================================================================
