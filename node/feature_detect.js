// Feature detector for C14 (Node 20, run with --expose-internals).
// stdin: {items:[{id, code, year, module}]}  year = ECMAScript year of the target (0 = do not
// restrict), module = "module" | "script" | "auto".
// For every item: (1) parse with acorn at ecmaVersion = year (must parse), (2) parse at
// ecmaVersion "latest" and walk the AST reporting which post-ES2015 features occur (named by
// the keys of esbuild's `supported` option, as in spec/Lowering.tla).
'use strict';
const acorn = require('internal/deps/acorn/acorn/dist/acorn');

function tryParse(code, ecmaVersion, mode) {
  const modes = mode === 'auto' ? ['script', 'module'] : [mode];
  let firstErr = null;
  for (const m of modes) {
    try { return { ast: acorn.parse(code, { ecmaVersion, sourceType: m }), mode: m }; }
    catch (e) { if (!firstErr || m === 'module') firstErr = e; }
  }
  return { err: String(firstErr && firstErr.message || firstErr) };
}

function detect(ast, code) {
  const found = new Set();
  if (code.startsWith('#!')) found.add('hashbang');
  const isFn = n => n.type === 'FunctionDeclaration' || n.type === 'FunctionExpression' || n.type === 'ArrowFunctionExpression';
  // binding = we are inside a binding pattern (declaration, parameter, catch parameter)
  function walk(n, fnDepth, binding) {
    if (!n || typeof n.type !== 'string') return;
    switch (n.type) {
      case 'BinaryExpression':
        if (n.operator === '**') found.add('exponent-operator');
        if (n.operator === 'in' && n.left.type === 'PrivateIdentifier') found.add('class-private-brand-check');
        break;
      case 'AssignmentExpression':
        if (n.operator === '**=') found.add('exponent-operator');
        if (n.operator === '||=' || n.operator === '&&=' || n.operator === '??=') found.add('logical-assignment');
        break;
      case 'LogicalExpression': if (n.operator === '??') found.add('nullish-coalescing'); break;
      case 'ChainExpression': found.add('optional-chain'); break;
      case 'AwaitExpression': found.add(fnDepth === 0 ? 'top-level-await' : 'async-await'); break;
      case 'ForOfStatement': if (n.await) { found.add('for-await'); if (fnDepth === 0) found.add('top-level-await'); } break;
      case 'CatchClause': if (!n.param) found.add('optional-catch-binding'); break;
      case 'ImportExpression': found.add('dynamic-import'); if (n.options) found.add('import-attributes'); break;
      case 'MetaProperty': if (n.meta.name === 'import') found.add('import-meta'); break;
      case 'ExportAllDeclaration':
        if (n.exported) { found.add('export-star-as'); if (n.exported.type === 'Literal') found.add('arbitrary-module-namespace-names'); }
        if (n.attributes && n.attributes.length) found.add('import-attributes');
        break;
      case 'ImportDeclaration': case 'ExportNamedDeclaration':
        if (n.attributes && n.attributes.length) found.add('import-attributes');
        break;
      case 'ImportSpecifier': if (n.imported.type === 'Literal') found.add('arbitrary-module-namespace-names'); break;
      case 'ExportSpecifier':
        if (n.exported.type === 'Literal' || n.local.type === 'Literal') found.add('arbitrary-module-namespace-names');
        break;
      case 'Literal':
        if (n.bigint !== undefined) found.add('bigint');
        else if (typeof n.value === 'number' && typeof n.raw === 'string' && n.raw.includes('_')) found.add('numeric-separators');
        if (n.regex) {
          const { pattern, flags } = n.regex;
          if (flags.includes('s')) found.add('regexp-dot-all-flag');
          if (flags.includes('d')) found.add('regexp-match-indices');
          if (flags.includes('v')) found.add('regexp-set-notation');
          if (/\(\?<[=!]/.test(pattern)) found.add('regexp-lookbehind-assertions');
          if (/\(\?<[A-Za-z_$]/.test(pattern)) found.add('regexp-named-capture-groups');
          if (/\\[pP]\{/.test(pattern) && /[uv]/.test(flags)) found.add('regexp-unicode-property-escapes');
        }
        break;
      case 'PropertyDefinition': {
        const priv = n.key.type === 'PrivateIdentifier';
        found.add(priv ? (n.static ? 'class-private-static-field' : 'class-private-field') : (n.static ? 'class-static-field' : 'class-field'));
        break;
      }
      case 'MethodDefinition':
        if (n.key.type === 'PrivateIdentifier') {
          if (n.kind === 'get' || n.kind === 'set') found.add(n.static ? 'class-private-static-accessor' : 'class-private-accessor');
          else found.add(n.static ? 'class-private-static-method' : 'class-private-method');
        }
        break;
      case 'StaticBlock': found.add('class-static-blocks'); break;
      case 'VariableDeclaration':
        if (n.kind === 'using' || n.kind === 'await using') { found.add('using'); if (n.kind === 'await using' && fnDepth === 0) found.add('top-level-await'); }
        break;
      case 'SpreadElement': break;
      case 'ObjectExpression': if (n.properties.some(p => p.type === 'SpreadElement')) found.add('object-rest-spread'); break;
      case 'ObjectPattern': if (n.properties.some(p => p.type === 'RestElement')) found.add('object-rest-spread'); break;
      case 'ArrayPattern':
        if (binding && n.elements.some(e => e && e.type === 'RestElement' && e.argument.type !== 'Identifier')) found.add('nested-rest-binding');
        break;
    }
    if (isFn(n)) {
      if (n.async && n.generator) found.add('async-generator');
      if (n.async) found.add('async-await');
      for (const p of n.params) walk(p, fnDepth + 1, true);
      walk(n.body, fnDepth + 1, false);
      if (n.id) walk(n.id, fnDepth, false);
      return;
    }
    if (n.type === 'VariableDeclarator') { walk(n.id, fnDepth, true); walk(n.init, fnDepth, false); return; }
    if (n.type === 'CatchClause') { walk(n.param, fnDepth, true); walk(n.body, fnDepth, false); return; }
    if (n.type === 'AssignmentPattern') { walk(n.left, fnDepth, binding); walk(n.right, fnDepth, false); return; }
    if (n.type === 'Property' && binding) { if (n.computed) walk(n.key, fnDepth, false); walk(n.value, fnDepth, true); return; }
    // class field initialisers and static blocks are function boundaries for await
    if (n.type === 'PropertyDefinition') { if (n.computed) walk(n.key, fnDepth, false); walk(n.value, fnDepth + 1, false); return; }
    if (n.type === 'StaticBlock') { for (const s of n.body) walk(s, fnDepth + 1, false); return; }
    for (const key of Object.keys(n)) {
      if (key === 'type' || key === 'start' || key === 'end' || key === 'loc' || key === 'range') continue;
      const v = n[key];
      if (Array.isArray(v)) { for (const c of v) if (c && typeof c.type === 'string') walk(c, fnDepth, binding); }
      else if (v && typeof v.type === 'string') walk(v, fnDepth, binding);
    }
  }
  walk(ast, 0, false);
  return [...found].sort();
}

async function main() {
  const chunks = [];
  for await (const c of process.stdin) chunks.push(c);
  const input = JSON.parse(Buffer.concat(chunks).toString('utf8'));
  const results = [];
  for (const it of input.items) {
    const res = { id: it.id, parsed: true, parseErr: '', parsedLatest: true, latestErr: '', features: [], decoratorLike: false };
    const latest = tryParse(it.code, 'latest', it.module);
    if (latest.err) {
      res.parsedLatest = false; res.latestErr = latest.err;
      res.decoratorLike = /(^|[\s;{}(,=])@[A-Za-z_$(]/.test(it.code) || /\baccessor\s+[#\w\[]/.test(it.code);
    } else {
      res.features = detect(latest.ast, it.code);
    }
    if (it.year) {
      const y = tryParse(it.code, it.year, latest.mode || it.module);
      if (y.err) { res.parsed = false; res.parseErr = y.err; }
    }
    results.push(res);
  }
  process.stdout.write(JSON.stringify({ results }));
}
main().catch(e => { process.stderr.write(String(e && e.stack || e)); process.exit(1); });
