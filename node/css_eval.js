// css_eval.js — independent CSS cascade oracle (tokenizer + parser + selector matcher + cascade evaluator).
// Written from the CSS specs (Syntax 3, Selectors 4, Cascade 5, Nesting 1, Color 4 legacy sRGB, Values 4 calc);
// shares no code with any bundler. Accepts pretty-printed and minified CSS.
//
// stdin : { "dom":[{"id":"e1","tag":"div","idattr":"r","classes":["a"],"attrs":{"k":"v"},"parent":null|"e0"},...],
//           "jobs":[{ "id":"..", "css":"text"  |  "files":{"/a.css":".."},"entry":"/a.css",  "dom":[..]?,
//                     "universe":["margin-top",...]?  (extra longhands added to the set `all:<kw>` expands over),
//                     "envs":[{"conds":{"media:(min-width:100px)":true,...},"feats":["nesting","is","where",
//                              "not-list","inset","hex-alpha","rgb-space","media-range","math-fn"]},...] }] }
// stdout: { "results":[{ "id", "error":null|"msg (evaluator crash on this job only)",
//             "winners":[ per env: {"e1":{"<longhand>":"<canonical value>",...},...} ],
//             "features":[sorted features used in the sheet(s)], "atoms":[sorted condition atoms seen],
//             "layers":[ per env: layer names, lowest priority first, i.e. sublayers BEFORE their parent
//                        ("a.b","a","<anon1>") — for normal declarations a parent's own rules outrank its sublayers ],
//             "props":[sorted longhands the sheet(s) mention after expansion = the sheet's own `all` universe
//                      (no custom properties, direction, unicode-bidi; job.universe extras not included)],
//             "notes":[short deduped strings: unknown at-rule, invalid selector, unknown atom <key>, decl-after-nested,...] }] }
// Cascade key per (element, longhand): !important > layer order (reversed for important; unlayered highest for
// normal) > specificity (max over matching complex selectors of the rule's list) > order of appearance.
// Atom keys: "<media|supports|container>:<lower-cased text without whitespace, numbers normalised>"; range syntax is
// canonicalised to min-/max- atoms; truth = env.conds[key] (missing -> false + note); media:all = true.
// Values: colours -> rgba(R,G,B,A) | currentcolor | <system colour> | unsupported-color:<text>; lengths -> shortest
// decimals, zero lengths -> 0, calc() reduced (calc(100%+-10px)); font-family -> n:<name>/g:<generic>; custom
// properties -> whitespace-collapsed raw text; everything else -> generic token text. Shorthands expanded to longhands
// (margin padding inset border-radius font background border[-side] border-color/-width/-style outline overflow gap all);
// var() in a shorthand -> pending:<text> on every longhand. anonymous layers are numbered <anonN> per environment in
// order of declaration.
'use strict';

// ───────────────────────────── numbers ─────────────────────────────
function fmtNum(x) {
  if (!isFinite(x)) return x > 0 ? 'infinity' : x < 0 ? '-infinity' : 'nan';
  let s;
  if (Math.abs(x) >= 1e21) s = BigInt(Math.round(x)).toString();
  else s = x.toFixed(6);
  if (s.indexOf('.') >= 0) s = s.replace(/0+$/, '').replace(/\.$/, '');
  if (s === '-0' || s === '') s = '0';
  return s;
}
const LENGTH_UNITS = new Set(['px', 'em', 'rem', 'ex', 'ch', 'vw', 'vh', 'vmin', 'vmax', 'cm', 'mm', 'q', 'in', 'pt', 'pc',
  'vi', 'vb', 'lh', 'rlh', 'cap', 'ic', 'svw', 'svh', 'lvw', 'lvh', 'dvw', 'dvh', 'cqw', 'cqh', 'cqi', 'cqb', 'cqmin', 'cqmax']);

// ───────────────────────────── tokenizer (CSS Syntax 3 §4) ─────────────────────────────
function isDigit(c) { return c >= 48 && c <= 57; }
function isHex(c) { return (c >= 48 && c <= 57) || (c >= 65 && c <= 70) || (c >= 97 && c <= 102); }
function isNameStart(c) { return (c >= 65 && c <= 90) || (c >= 97 && c <= 122) || c === 95 || c >= 0x80; }
function isName(c) { return isNameStart(c) || isDigit(c) || c === 45; }
function isWs(c) { return c === 32 || c === 10 || c === 9; }

function tokenize(input) {
  const s = input.replace(/\r\n?|\f/g, '\n').replace(/\u0000/g, '�');
  const n = s.length;
  const toks = [];
  let i = 0;
  const cc = (k) => (k < n ? s.charCodeAt(k) : -1);
  function wouldStartIdent(k) {
    const c = cc(k);
    if (c === 45) { const d = cc(k + 1); return isNameStart(d) || d === 45 || (d === 92 && cc(k + 2) !== 10 && k + 2 <= n); }
    if (isNameStart(c)) return true;
    if (c === 92) return cc(k + 1) !== 10 && k + 1 < n;
    return false;
  }
  function startsNumber(k) {
    let c = cc(k);
    if (c === 43 || c === 45) { c = cc(k + 1); if (isDigit(c)) return true; return c === 46 && isDigit(cc(k + 2)); }
    if (c === 46) return isDigit(cc(k + 1));
    return isDigit(c);
  }
  function consumeEscape() { // i is just after the backslash
    if (i >= n) return '�';
    const c = cc(i);
    if (isHex(c)) {
      let j = i, h = '';
      while (j < n && j - i < 6 && isHex(cc(j))) { h += s[j]; j++; }
      if (j < n && isWs(cc(j))) j++;
      i = j;
      const cp = parseInt(h, 16);
      if (cp === 0 || (cp >= 0xD800 && cp <= 0xDFFF) || cp > 0x10FFFF) return '�';
      return String.fromCodePoint(cp);
    }
    const cp = s.codePointAt(i);
    const ch = String.fromCodePoint(cp);
    i += ch.length;
    return ch;
  }
  function consumeName() {
    let out = '';
    for (;;) {
      const c = cc(i);
      if (c !== -1 && isName(c)) { out += s[i]; i++; }
      else if (c === 92 && cc(i + 1) !== 10 && i + 1 <= n) { i++; out += consumeEscape(); }
      else return out;
    }
  }
  function consumeNumber() {
    const st = i;
    let isInt = true;
    if (cc(i) === 43 || cc(i) === 45) i++;
    while (isDigit(cc(i))) i++;
    if (cc(i) === 46 && isDigit(cc(i + 1))) { isInt = false; i += 2; while (isDigit(cc(i))) i++; }
    const e = cc(i);
    if (e === 69 || e === 101) {
      const d = cc(i + 1);
      if (isDigit(d) || ((d === 43 || d === 45) && isDigit(cc(i + 2)))) { isInt = false; i += 2; while (isDigit(cc(i))) i++; }
    }
    const repr = s.slice(st, i);
    return { n: Number(repr), isInt, sign: repr[0] === '+' || repr[0] === '-' };
  }
  function consumeString(q) {
    let out = '';
    for (;;) {
      if (i >= n) return { t: 'str', v: out };
      const c = cc(i);
      if (c === q) { i++; return { t: 'str', v: out }; }
      if (c === 10) return { t: 'badstr', v: out };
      if (c === 92) {
        if (i + 1 >= n) { i++; continue; }
        if (cc(i + 1) === 10) { i += 2; continue; }
        i++; out += consumeEscape(); continue;
      }
      out += s[i]; i++;
    }
  }
  function consumeBadUrl() {
    for (;;) {
      if (i >= n) return;
      const c = cc(i);
      if (c === 41) { i++; return; }
      if (c === 92 && cc(i + 1) !== 10 && i + 1 < n) { i++; consumeEscape(); continue; }
      i++;
    }
  }
  function consumeUrl() {
    while (isWs(cc(i))) i++;
    let out = '';
    for (;;) {
      if (i >= n) return { t: 'url', v: out };
      const c = cc(i);
      if (c === 41) { i++; return { t: 'url', v: out }; }
      if (isWs(c)) {
        while (isWs(cc(i))) i++;
        if (i >= n) return { t: 'url', v: out };
        if (cc(i) === 41) { i++; return { t: 'url', v: out }; }
        consumeBadUrl(); return { t: 'badurl', v: out };
      }
      if (c === 34 || c === 39 || c === 40 || (c >= 0 && c <= 8) || c === 11 || (c >= 14 && c <= 31) || c === 127) { consumeBadUrl(); return { t: 'badurl', v: out }; }
      if (c === 92) {
        if (cc(i + 1) !== 10 && i + 1 < n) { i++; out += consumeEscape(); continue; }
        consumeBadUrl(); return { t: 'badurl', v: out };
      }
      out += s[i]; i++;
    }
  }
  function identLike() {
    const name = consumeName();
    if (cc(i) === 40) {
      if (name.toLowerCase() === 'url') {
        i++;
        let j = i;
        while (isWs(cc(j))) j++;
        const q = cc(j);
        if (q === 34 || q === 39) return { t: 'fn', v: name };
        return consumeUrl();
      }
      i++;
      return { t: 'fn', v: name };
    }
    return { t: 'ident', v: name };
  }
  function numeric() {
    const num = consumeNumber();
    if (wouldStartIdent(i)) { const u = consumeName(); return { t: 'dim', n: num.n, isInt: num.isInt, sign: num.sign, unit: u.toLowerCase(), unitRaw: u }; }
    if (cc(i) === 37) { i++; return { t: 'pct', n: num.n, sign: num.sign }; }
    return { t: 'num', n: num.n, isInt: num.isInt, sign: num.sign };
  }
  while (i < n) {
    const st = i;
    const c = cc(i);
    let tk;
    if (c === 47 && cc(i + 1) === 42) { const e = s.indexOf('*/', i + 2); i = e < 0 ? n : e + 2; continue; }
    if (isWs(c)) { while (isWs(cc(i))) i++; tk = { t: 'ws' }; }
    else if (c === 34 || c === 39) { i++; tk = consumeString(c); }
    else if (c === 35) {
      if ((cc(i + 1) !== -1 && isName(cc(i + 1))) || (cc(i + 1) === 92 && cc(i + 2) !== 10 && i + 2 <= n && i + 1 < n)) {
        i++;
        const isId = wouldStartIdent(i);
        tk = { t: 'hash', v: consumeName(), isId };
      } else { i++; tk = { t: 'delim', v: '#' }; }
    }
    else if (c === 40 || c === 41 || c === 44 || c === 58 || c === 59 || c === 91 || c === 93 || c === 123 || c === 125) { i++; tk = { t: s[st] }; }
    else if (c === 43 || c === 46) { if (startsNumber(i)) tk = numeric(); else { i++; tk = { t: 'delim', v: s[st] }; } }
    else if (c === 45) {
      if (startsNumber(i)) tk = numeric();
      else if (cc(i + 1) === 45 && cc(i + 2) === 62) { i += 3; tk = { t: 'cdc' }; }
      else if (wouldStartIdent(i)) tk = identLike();
      else { i++; tk = { t: 'delim', v: '-' }; }
    }
    else if (c === 60) { if (s.startsWith('<!--', i)) { i += 4; tk = { t: 'cdo' }; } else { i++; tk = { t: 'delim', v: '<' }; } }
    else if (c === 64) { i++; if (wouldStartIdent(i)) tk = { t: 'at', v: consumeName() }; else tk = { t: 'delim', v: '@' }; }
    else if (c === 92) { if (cc(i + 1) !== 10 && i + 1 < n) tk = identLike(); else { i++; tk = { t: 'delim', v: '\\' }; } }
    else if (isDigit(c)) tk = numeric();
    else if (isNameStart(c)) tk = identLike();
    else { const ch = String.fromCodePoint(s.codePointAt(i)); i += ch.length; tk = { t: 'delim', v: ch }; }
    tk.raw = s.slice(st, i);
    toks.push(tk);
  }
  return toks;
}

// ───────────────────────────── generic parser (CSS Syntax 3 §5, with nesting) ─────────────────────────────
function isOpen(t) { return t === '{' || t === '[' || t === '(' || t === 'fn'; }
// toks[i] is an opener; returns the index of its matching closer (toks.length when closed by EOF)
function skipBlock(toks, i) {
  const o = toks[i].t, close = o === '{' ? '}' : o === '[' ? ']' : ')';
  let j = i + 1;
  while (j < toks.length) {
    const t = toks[j].t;
    if (t === close) return j;
    if (isOpen(t)) j = skipBlock(toks, j) + 1; else j++;
  }
  return toks.length;
}
function trimWs(toks) {
  let a = 0, b = toks.length;
  while (a < b && toks[a].t === 'ws') a++;
  while (b > a && toks[b - 1].t === 'ws') b--;
  return a === 0 && b === toks.length ? toks : toks.slice(a, b);
}
function noWs(toks) { return toks.filter((t) => t.t !== 'ws'); }
function rawOf(toks) { let s = ''; for (const t of toks) s += t.t === 'ws' ? ' ' : t.raw; return s.trim(); }
function lc(s) { return s.toLowerCase(); }

function consumeAtRule(toks, i) {
  const name = lc(toks[i].v);
  let j = i + 1;
  while (j < toks.length) {
    const t = toks[j].t;
    if (t === ';') return [{ type: 'at', name, prelude: toks.slice(i + 1, j), block: null }, j + 1];
    if (t === '{') { const e = skipBlock(toks, j); return [{ type: 'at', name, prelude: toks.slice(i + 1, j), block: toks.slice(j + 1, e) }, e + 1]; }
    if (isOpen(t)) j = skipBlock(toks, j) + 1; else j++;
  }
  return [{ type: 'at', name, prelude: toks.slice(i + 1), block: null }, toks.length];
}
function consumeQualRule(toks, i, nested) {
  let j = i;
  while (j < toks.length) {
    const t = toks[j].t;
    if (t === '{') { const e = skipBlock(toks, j); return [{ type: 'qual', prelude: toks.slice(i, j), block: toks.slice(j + 1, e) }, e + 1]; }
    if (nested && t === ';') return [null, j + 1];
    if (isOpen(t)) j = skipBlock(toks, j) + 1; else j++;
  }
  return [null, toks.length];
}
function parseRuleList(toks, topLevel, notes) {
  const rules = [];
  let i = 0;
  while (i < toks.length) {
    const t = toks[i].t;
    if (t === 'ws' || (topLevel && (t === 'cdo' || t === 'cdc'))) { i++; continue; }
    let r;
    if (t === 'at') [r, i] = consumeAtRule(toks, i);
    else { [r, i] = consumeQualRule(toks, i, false); if (!r) notes.add('unterminated rule dropped'); }
    if (r) rules.push(r);
  }
  return rules;
}
function splitImportant(toks) {
  let b = toks.length;
  while (b > 0 && toks[b - 1].t === 'ws') b--;
  if (b > 0 && toks[b - 1].t === 'ident' && lc(toks[b - 1].v) === 'important') {
    let c = b - 1;
    while (c > 0 && toks[c - 1].t === 'ws') c--;
    if (c > 0 && toks[c - 1].t === 'delim' && toks[c - 1].v === '!') return [trimWs(toks.slice(0, c - 1)), true];
  }
  return [trimWs(toks), false];
}
// contents of a style rule's block (or of a group rule nested in a style rule): declarations, nested rules, at-rules
function parseStyleBlock(toks, notes) {
  const items = [];
  let i = 0;
  while (i < toks.length) {
    const tk = toks[i], t = tk.t;
    if (t === 'ws' || t === ';') { i++; continue; }
    if (t === 'at') { let r; [r, i] = consumeAtRule(toks, i); items.push(r); continue; }
    if (t === 'ident') {
      let j = i + 1;
      while (j < toks.length && toks[j].t === 'ws') j++;
      if (j < toks.length && toks[j].t === ':') {
        let k = j + 1, curly = false, other = false;
        while (k < toks.length && toks[k].t !== ';') {
          const u = toks[k].t;
          if (u === '{') curly = true; else if (u !== 'ws') other = true;
          if (isOpen(u)) k = skipBlock(toks, k) + 1; else k++;
        }
        const custom = tk.v.startsWith('--');
        if (custom || !(curly && other)) {
          const [val, important] = splitImportant(toks.slice(j + 1, Math.min(k, toks.length)));
          items.push({ type: 'decl', name: custom ? tk.v : lc(tk.v), custom, value: val, important });
          i = k + 1;
          continue;
        }
      }
    }
    let r;
    [r, i] = consumeQualRule(toks, i, true);
    if (r) items.push(r); else notes.add('malformed declaration dropped');
  }
  return items;
}

// ───────────────────────────── selector parser (Selectors 4 + Nesting 1) ─────────────────────────────
const PC_STRUCT = new Set(['root', 'first-child', 'last-child', 'only-child', 'first-of-type', 'last-of-type', 'only-of-type', 'empty']);
const PC_NEVER = new Set(['hover', 'focus', 'active', 'visited', 'link', 'focus-within', 'focus-visible', 'checked', 'disabled', 'enabled', 'target',
  'any-link', 'indeterminate', 'required', 'optional', 'read-only', 'read-write', 'placeholder-shown', 'default', 'valid', 'invalid', 'in-range', 'out-of-range']);
const PE_LEGACY = new Set(['before', 'after', 'first-line', 'first-letter']);
const PE_KNOWN = new Set(['before', 'after', 'first-line', 'first-letter', 'placeholder', 'selection', 'marker', 'backdrop', 'file-selector-button', 'cue']);
const PE_FN = new Set(['part', 'slotted', 'cue']);

class SelError extends Error {}
function selFail(msg) { throw new SelError(msg); }

function splitCommas(toks) {
  const parts = [];
  let st = 0, i = 0;
  while (i < toks.length) {
    const t = toks[i].t;
    if (t === ',') { parts.push(toks.slice(st, i)); st = i + 1; i++; }
    else if (isOpen(t)) i = skipBlock(toks, i) + 1; else i++;
  }
  parts.push(toks.slice(st));
  return parts;
}
function parseNth(args) {
  for (const t of args) if (t.t === 'ident' && lc(t.v) === 'of') selFail('nth-child of S unsupported');
  const s = lc(args.map((t) => (t.t === 'ws' ? '' : t.raw)).join(''));
  if (s === 'odd') return [2, 1];
  if (s === 'even') return [2, 0];
  let m = /^([+-]?\d*)n([+-]\d+)?$/.exec(s);
  if (m) { const a = m[1] === '' || m[1] === '+' ? 1 : m[1] === '-' ? -1 : parseInt(m[1], 10); return [a, m[2] ? parseInt(m[2], 10) : 0]; }
  m = /^[+-]?\d+$/.exec(s);
  if (m) return [0, parseInt(s, 10)];
  selFail('bad an+b');
}
function parseAttrSel(inner) {
  const t = noWs(inner);
  let i = 0;
  if (!t.length || t[0].t !== 'ident') selFail('bad attribute selector');
  const name = lc(t[i++].v);
  if (i === t.length) return { k: 'attr', name, op: '' };
  let op;
  if (t[i].t === 'delim' && t[i].v === '=') { op = '='; i++; }
  else if (t[i].t === 'delim' && '~|^$*'.includes(t[i].v) && t[i + 1] && t[i + 1].t === 'delim' && t[i + 1].v === '=') { op = t[i].v + '='; i += 2; }
  else selFail('bad attribute selector');
  if (i >= t.length || (t[i].t !== 'ident' && t[i].t !== 'str')) selFail('bad attribute selector');
  const val = t[i++].v;
  let ci = false;
  if (i < t.length && t[i].t === 'ident' && /^[is]$/i.test(t[i].v)) { ci = lc(t[i].v) === 'i'; i++; }
  if (i !== t.length) selFail('bad attribute selector');
  return { k: 'attr', name, op, val, ci };
}
// o: {rel: allow leading combinator, inner: inside a pseudo-class argument}
function parseComplex(toksIn, o) {
  const toks = trimWs(toksIn);
  if (!toks.length) selFail('empty selector');
  const cx = { compounds: [], combs: [], lead: null, pe: false, feats: new Set(), hasNest: false };
  let i = 0;
  const isComb = (t) => t && t.t === 'delim' && (t.v === '>' || t.v === '+' || t.v === '~');
  if (isComb(toks[0])) {
    if (!o.rel) selFail('leading combinator');
    cx.lead = toks[0].v; i = 1;
    while (i < toks.length && toks[i].t === 'ws') i++;
  }
  for (;;) {
    const simples = [];
    let sawPe = false;
    for (; i < toks.length;) {
      const tk = toks[i], t = tk.t;
      if (t === 'ident' || (t === 'delim' && tk.v === '*')) {
        if (toks[i + 1] && toks[i + 1].t === 'delim' && toks[i + 1].v === '|' && !(toks[i + 2] && toks[i + 2].t === 'delim' && toks[i + 2].v === '=')) selFail('namespace prefix unsupported');
        if (simples.some((s) => s.k !== 'nest') || sawPe) selFail('type selector not first');
        simples.push(t === 'ident' ? { k: 'type', name: lc(tk.v) } : { k: 'univ' });
        i++;
      } else if (t === 'hash') {
        if (!tk.isId || sawPe) selFail('bad id selector');
        simples.push({ k: 'id', name: tk.v }); i++;
      } else if (t === 'delim' && tk.v === '.') {
        if (!toks[i + 1] || toks[i + 1].t !== 'ident' || sawPe) selFail('bad class selector');
        simples.push({ k: 'class', name: toks[i + 1].v }); i += 2;
      } else if (t === 'delim' && tk.v === '&') {
        if (sawPe) selFail('& after pseudo-element');
        simples.push({ k: 'nest' }); cx.feats.add('nesting'); cx.hasNest = true; i++;
      } else if (t === '[') {
        if (sawPe) selFail('attribute after pseudo-element');
        const e = skipBlock(toks, i);
        if (e >= toks.length) selFail('unclosed [');
        simples.push(parseAttrSel(toks.slice(i + 1, e))); i = e + 1;
      } else if (t === ':') {
        let n1 = toks[i + 1];
        if (n1 && n1.t === ':') {
          const n2 = toks[i + 2];
          if (o.inner) selFail('pseudo-element in pseudo-class argument');
          if (n2 && n2.t === 'ident') { if (!PE_KNOWN.has(lc(n2.v)) && !/^-webkit-/i.test(n2.v)) selFail('unknown pseudo-element ::' + lc(n2.v)); i += 3; }
          else if (n2 && n2.t === 'fn') { if (!PE_FN.has(lc(n2.v))) selFail('unknown pseudo-element ::' + lc(n2.v) + '()'); const e = skipBlock(toks, i + 2); if (e >= toks.length) selFail('unclosed ('); i = e + 1; }
          else selFail('bad pseudo-element');
          simples.push({ k: 'pe' }); sawPe = true; cx.pe = true;
        } else if (n1 && n1.t === 'ident') {
          const nm = lc(n1.v);
          if (PE_LEGACY.has(nm)) { if (o.inner) selFail('pseudo-element in pseudo-class argument'); simples.push({ k: 'pe' }); sawPe = true; cx.pe = true; }
          else if (PC_STRUCT.has(nm)) { if (sawPe) selFail('structural pseudo-class after pseudo-element'); simples.push({ k: 'pc', name: nm }); }
          else if (PC_NEVER.has(nm)) simples.push({ k: 'never' });
          else selFail('unknown pseudo-class :' + nm);
          i += 2;
        } else if (n1 && n1.t === 'fn') {
          const nm = lc(n1.v);
          const e = skipBlock(toks, i + 1);
          const args = toks.slice(i + 2, e);
          if (sawPe) selFail('functional pseudo-class after pseudo-element');
          if (nm === 'is' || nm === 'where') {
            cx.feats.add(nm);
            const list = [];
            if (trimWs(args).length) for (const part of splitCommas(args)) {
              try { const a = parseComplex(part, { rel: false, inner: true }); list.push(a); } catch (err) { if (!(err instanceof SelError)) throw err; }
            }
            for (const a of list) { for (const f of a.feats) cx.feats.add(f); if (a.hasNest) cx.hasNest = true; }
            simples.push({ k: nm, args: list });
          } else if (nm === 'not' || nm === 'has') {
            if (!trimWs(args).length) selFail('empty :' + nm + '()');
            if (nm === 'has' && o.inHas) selFail('nested :has()');
            const list = splitCommas(args).map((p) => parseComplex(p, { rel: nm === 'has', inner: true, inHas: o.inHas || nm === 'has' }));
            if (nm === 'not' && (list.length > 1 || list[0].compounds.length > 1)) cx.feats.add('not-list');
            for (const a of list) { for (const f of a.feats) cx.feats.add(f); if (a.hasNest) cx.hasNest = true; }
            if (nm === 'has') for (const a of list) { a.compounds.unshift({ simples: [{ k: 'anchor' }] }); a.combs.unshift(a.lead || ' '); a.lead = null; }
            simples.push({ k: nm, args: list });
          } else if (nm === 'nth-child' || nm === 'nth-last-child' || nm === 'nth-of-type' || nm === 'nth-last-of-type') {
            const [a, b] = parseNth(args);
            simples.push({ k: 'nth', a, b, last: nm.includes('last'), ofType: nm.includes('of-type') });
          } else if (nm === 'lang' || nm === 'dir') simples.push({ k: 'never' });
          else selFail('unknown pseudo-class :' + nm + '()');
          i = e + 1;
        } else selFail('bad pseudo');
      } else break;
    }
    if (!simples.length) selFail('empty compound selector');
    cx.compounds.push({ simples });
    let ws = false;
    while (i < toks.length && toks[i].t === 'ws') { ws = true; i++; }
    if (i >= toks.length) break;
    if (isComb(toks[i])) {
      cx.combs.push(toks[i].v); i++;
      while (i < toks.length && toks[i].t === 'ws') i++;
      if (i >= toks.length) selFail('trailing combinator');
    } else if (ws) cx.combs.push(' ');
    else selFail('unexpected token in selector: ' + (toks[i].raw || toks[i].t));
  }
  return cx;
}
// returns {list, feats} or throws SelError
function parseSelectorList(toks, nested) {
  if (!trimWs(toks).length) selFail('empty selector');
  const list = splitCommas(toks).map((p) => parseComplex(p, { rel: nested, inner: false }));
  const feats = new Set();
  for (const cx of list) {
    if (nested && (cx.lead || !cx.hasNest)) { // relative selector: implied "&"
      cx.compounds.unshift({ simples: [{ k: 'nest' }] }); cx.combs.unshift(cx.lead || ' '); cx.lead = null;
    }
    for (const f of cx.feats) feats.add(f);
  }
  return { list, feats };
}
function subsetOf(a, b) { for (const x of a) if (!b.has(x)) return false; return true; }
// environment-dependent validity: returns a (possibly filtered) list or null when the selector is invalid in this env
function resolveList(list, feats, forgiving) {
  const out = [];
  for (const cx of list) {
    const r = subsetOf(cx.feats, feats) ? cx : resolveComplex(cx, feats);
    if (r) out.push(r); else if (!forgiving) return null;
  }
  return out;
}
function resolveComplex(cx, feats) {
  const compounds = [];
  for (const cp of cx.compounds) {
    const simples = [];
    for (const s of cp.simples) {
      if (s.k === 'nest') { if (!feats.has('nesting')) return null; simples.push(s); }
      else if (s.k === 'is' || s.k === 'where') { if (!feats.has(s.k)) return null; simples.push({ k: s.k, args: resolveList(s.args, feats, true) }); }
      else if (s.k === 'not') {
        if ((s.args.length > 1 || s.args[0].compounds.length > 1) && !feats.has('not-list')) return null;
        const a = resolveList(s.args, feats, false); if (!a) return null; simples.push({ k: 'not', args: a });
      } else if (s.k === 'has') { const a = resolveList(s.args, feats, false); if (!a) return null; simples.push({ k: 'has', args: a }); }
      else simples.push(s);
    }
    compounds.push({ simples });
  }
  return { compounds, combs: cx.combs, lead: null, pe: cx.pe, feats: cx.feats, hasNest: cx.hasNest };
}

// ───────────────────────────── DOM + selector matching ─────────────────────────────
function buildDom(list) {
  const els = [], byId = new Map(), roots = [];
  for (const d of list || []) {
    const el = { i: els.length, id: String(d.id), tag: lc(String(d.tag || 'div')), idattr: d.idattr == null ? null : String(d.idattr),
      classes: new Set(d.classes || []), classList: d.classes || [], attrs: d.attrs || {}, parent: null, children: [], idx: 0, sibs: null };
    els.push(el); byId.set(el.id, el);
  }
  (list || []).forEach((d, k) => {
    const el = els[k];
    const p = d.parent == null ? null : byId.get(String(d.parent));
    if (p && p !== el) { el.parent = p; el.idx = p.children.length; p.children.push(el); el.sibs = p.children; }
    else { el.idx = roots.length; roots.push(el); el.sibs = roots; }
  });
  return { els, roots };
}
function getAttr(el, name) {
  if (Object.prototype.hasOwnProperty.call(el.attrs, name)) return String(el.attrs[name]);
  if (name === 'id') return el.idattr;
  if (name === 'class') return el.classList.length ? el.classList.join(' ') : null;
  return null;
}
function matchAttr(s, el) {
  let v = getAttr(el, s.name);
  if (v == null) return false;
  if (s.op === '') return true;
  let w = s.val;
  if (s.ci) { v = v.toLowerCase(); w = w.toLowerCase(); }
  switch (s.op) {
    case '=': return v === w;
    case '~=': return w !== '' && !/\s/.test(w) && v.split(/\s+/).includes(w);
    case '|=': return v === w || v.startsWith(w + '-');
    case '^=': return w !== '' && v.startsWith(w);
    case '$=': return w !== '' && v.endsWith(w);
    case '*=': return w !== '' && v.includes(w);
  }
  return false;
}
function nthOk(a, b, idx) { // exists n >= 0 with a*n+b === idx
  if (a === 0) return idx === b;
  const d = idx - b;
  return d % a === 0 && d / a >= 0;
}
function matchSimple(s, el, ctx) {
  switch (s.k) {
    case 'type': return el.tag === s.name;
    case 'univ': return true;
    case 'class': return el.classes.has(s.name);
    case 'id': return el.idattr === s.name;
    case 'attr': return matchAttr(s, el);
    case 'never': case 'pe': return false;
    case 'nest': return ctx.parentRes ? ctx.parentRes.mm.has(el.i) : el.parent === null;
    case 'anchor': return el === ctx.anchor;
    case 'pc': {
      const sb = el.sibs;
      switch (s.name) {
        case 'root': return el.parent === null;
        case 'first-child': return el.idx === 0;
        case 'last-child': return el.idx === sb.length - 1;
        case 'only-child': return sb.length === 1;
        case 'empty': return el.children.length === 0;
        case 'first-of-type': for (let k = 0; k < el.idx; k++) if (sb[k].tag === el.tag) return false; return true;
        case 'last-of-type': for (let k = el.idx + 1; k < sb.length; k++) if (sb[k].tag === el.tag) return false; return true;
        case 'only-of-type': for (let k = 0; k < sb.length; k++) if (k !== el.idx && sb[k].tag === el.tag) return false; return true;
      }
      return false;
    }
    case 'nth': {
      const sb = el.sibs;
      let idx = 0;
      if (!s.last) { for (let k = 0; k <= el.idx; k++) if (!s.ofType || sb[k].tag === el.tag) idx++; }
      else { for (let k = sb.length - 1; k >= el.idx; k--) if (!s.ofType || sb[k].tag === el.tag) idx++; }
      return nthOk(s.a, s.b, idx);
    }
    case 'is': case 'where':
      for (const a of s.args) if (!a.pe && matchFrom(a, a.compounds.length - 1, el, ctx)) return true;
      return false;
    case 'not':
      for (const a of s.args) if (!a.pe && matchFrom(a, a.compounds.length - 1, el, ctx)) return false;
      return true;
    case 'has': {
      const saved = ctx.anchor;
      ctx.anchor = el;
      let ok = false;
      outer: for (const a of s.args) for (const x of ctx.dom.els) if (x !== el && matchFrom(a, a.compounds.length - 1, x, ctx)) { ok = true; break outer; }
      ctx.anchor = saved;
      return ok;
    }
  }
  return false;
}
function matchFrom(cx, i, el, ctx) {
  const sm = cx.compounds[i].simples;
  for (let k = 0; k < sm.length; k++) if (!matchSimple(sm[k], el, ctx)) return false;
  if (i === 0) return true;
  switch (cx.combs[i - 1]) {
    case ' ': for (let p = el.parent; p; p = p.parent) if (matchFrom(cx, i - 1, p, ctx)) return true; return false;
    case '>': return el.parent !== null && matchFrom(cx, i - 1, el.parent, ctx);
    case '+': return el.idx > 0 && matchFrom(cx, i - 1, el.sibs[el.idx - 1], ctx);
    case '~': for (let k = el.idx - 1; k >= 0; k--) if (matchFrom(cx, i - 1, el.sibs[k], ctx)) return true; return false;
  }
  return false;
}
const SP_A = 1e8, SP_B = 1e4;
function specOf(cx, ctx) {
  let sp = 0;
  for (const cp of cx.compounds) for (const s of cp.simples) {
    switch (s.k) {
      case 'id': sp += SP_A; break;
      case 'class': case 'attr': case 'pc': case 'never': case 'nth': sp += SP_B; break;
      case 'type': case 'pe': sp += 1; break;
      case 'is': case 'not': case 'has': { let m = 0; for (const a of s.args) { const x = specOf(a, ctx); if (x > m) m = x; } sp += m; break; }
      case 'nest': sp += ctx.parentRes ? ctx.parentRes.maxSpec : 0; break;
    }
  }
  return sp;
}
// resolved form of a style rule in an environment: null (invalid) or {mm: Map(elIndex -> specificity), maxSpec}
function styleKey(node, env) {
  let k = '';
  for (let n = node; n; n = n.parent) if (n.sel) for (const f of n.sel.feats) if (!env.feats.has(f)) k += f + ';';
  return k;
}
function resolveStyle(node, env, dom) {
  const key = node.plain ? '' : styleKey(node, env);
  let r = node.cache.get(key);
  if (r !== undefined) return r;
  r = null;
  if (node.sel) {
    const list = subsetOf(node.sel.feats, env.feats) ? node.sel.list : resolveList(node.sel.list, env.feats, false);
    const parentRes = node.parent ? resolveStyle(node.parent, env, dom) : null;
    if (list && (!node.parent || parentRes)) {
      const ctx = { parentRes, anchor: null, dom };
      const mm = new Map();
      let maxSpec = 0;
      for (const cx of list) {
        const sp = specOf(cx, ctx);
        if (sp > maxSpec) maxSpec = sp;
        if (cx.pe) continue;
        const last = cx.compounds.length - 1;
        for (const el of dom.els) if (matchFrom(cx, last, el, ctx)) { const o = mm.get(el.i); if (o === undefined || o < sp) mm.set(el.i, sp); }
      }
      const els = [], sps = [];
      for (const [ei, sp] of mm) { els.push(ei); sps.push(sp); }
      r = { mm, maxSpec, els, sps };
    }
  }
  node.cache.set(key, r);
  return r;
}

// ───────────────────────────── conditions (@media / @supports / @container) ─────────────────────────────
function serAtomToks(toks) {
  let s = '';
  for (let i = 0; i < toks.length; i++) {
    const t = toks[i];
    switch (t.t) {
      case 'ws': break;
      case 'ident': s += lc(t.v); break;
      case 'fn': s += lc(t.v) + '('; break;
      case 'num': s += fmtNum(t.n); break;
      case 'dim': s += fmtNum(t.n) + t.unit; break;
      case 'pct': s += fmtNum(t.n) + '%'; break;
      case 'str': s += '"' + t.v + '"'; break;
      case 'url': s += 'url(' + t.v + ')'; break;
      case 'hash': s += '#' + lc(t.v); break;
      case 'delim': s += t.v; break;
      case 'at': s += '@' + lc(t.v); break;
      default: s += t.t.length === 1 ? t.t : '';
    }
  }
  return s;
}
function toUnits(toks) {
  const u = [];
  let i = 0;
  while (i < toks.length) {
    const t = toks[i];
    if (t.t === 'ws') { i++; continue; }
    if (t.t === '(' || t.t === 'fn' || t.t === '[' || t.t === '{') {
      const e = skipBlock(toks, i);
      u.push({ k: t.t === 'fn' ? 'fn' : t.t === '(' ? 'paren' : 'other', name: t.t === 'fn' ? lc(t.v) : null, inner: toks.slice(i + 1, e), tok: t });
      i = e + 1;
    } else { u.push(t.t === 'ident' ? { k: 'ident', name: lc(t.v), tok: t } : { k: 'other', tok: t }); i++; }
  }
  return u;
}
class CondError extends Error {}
function condFail(m) { throw new CondError(m); }
const C_TRUE = { op: 'const', v: true }, C_FALSE = { op: 'const', v: false };

function mkAtom(st, kind, text) { const key = kind + ':' + text; st.atoms.add(key); return { op: 'atom', key }; }
function rangeAtom(st, kind, op, name, val) {
  const mn = () => mkAtom(st, kind, '(min-' + name + ':' + val + ')'), mx = () => mkAtom(st, kind, '(max-' + name + ':' + val + ')');
  switch (op) {
    case '>=': return mn();
    case '<=': return mx();
    case '<': return { op: 'not', x: mn() };
    case '>': return { op: 'not', x: mx() };
    case '=': return { op: 'and', xs: [mn(), mx()] };
  }
  condFail('bad range operator');
}
const FLIP = { '<': '>', '>': '<', '<=': '>=', '>=': '<=', '=': '=' };
function parseFeature(st, kind, inner) {
  const t = noWs(inner);
  if (!t.length) condFail('empty feature');
  const segs = [[]], ops = [];
  for (let i = 0; i < t.length; i++) {
    const x = t[i];
    if (x.t === 'delim' && (x.v === '<' || x.v === '>' || x.v === '=')) {
      let op = x.v;
      if (op !== '=' && t[i + 1] && t[i + 1].t === 'delim' && t[i + 1].v === '=') { op += '='; i++; }
      ops.push(op); segs.push([]);
    } else { segs[segs.length - 1].push(x); if (isOpen(x.t)) { const e = skipBlock(t, i); for (let k = i + 1; k <= e && k < t.length; k++) segs[segs.length - 1].push(t[k]); i = e; } }
  }
  if (ops.length === 0) {
    if (t[0].t !== 'ident') condFail('bad feature');
    if (t.length === 1) return mkAtom(st, kind, '(' + lc(t[0].v) + ')');
    if (t[1].t !== ':' || t.length < 3) condFail('bad feature');
    return mkAtom(st, kind, '(' + lc(t[0].v) + ':' + serAtomToks(t.slice(2)) + ')');
  }
  st.range = true;
  const single = (s) => s.length === 1 && s[0].t === 'ident';
  if (segs.some((s) => !s.length)) condFail('bad range');
  if (ops.length === 1) {
    if (single(segs[0]) && !single(segs[1]) || (single(segs[0]) && single(segs[1]))) return rangeAtom(st, kind, ops[0], lc(segs[0][0].v), serAtomToks(segs[1]));
    if (single(segs[1])) return rangeAtom(st, kind, FLIP[ops[0]], lc(segs[1][0].v), serAtomToks(segs[0]));
    condFail('bad range');
  }
  if (ops.length === 2 && single(segs[1])) {
    const name = lc(segs[1][0].v);
    return { op: 'and', xs: [rangeAtom(st, kind, FLIP[ops[0]], name, serAtomToks(segs[0])), rangeAtom(st, kind, ops[1], name, serAtomToks(segs[2]))] };
  }
  condFail('bad range');
}
function parseInParens(st, kind, u) {
  if (u.k === 'paren') {
    const iu = toUnits(u.inner);
    if (!iu.length) condFail('empty ()');
    const nested = iu[0].k === 'paren' || (iu[0].k === 'fn' && iu[0].name !== 'calc' && iu[0].name !== 'var' && iu[0].name !== 'env') ||
      (iu[0].k === 'ident' && iu[0].name === 'not' && iu.length === 2 && (iu[1].k === 'paren' || iu[1].k === 'fn'));
    if (nested) return parseCondUnits(st, kind, iu);
    if (kind === 'supports') return mkAtom(st, kind, '(' + serAtomToks(u.inner) + ')');
    return parseFeature(st, kind, u.inner);
  }
  if (u.k === 'fn') {
    if (u.name === 'not') return { op: 'not', x: parseInParens(st, kind, { k: 'paren', inner: u.inner }) };
    if (kind === 'supports' && u.name === 'selector') return mkAtom(st, kind, 'selector(' + lc(u.inner.map((t) => (t.t === 'ws' ? '' : t.raw)).join('')) + ')');
    if (kind === 'supports' || (kind === 'container' && u.name === 'style')) return mkAtom(st, kind, u.name + '(' + serAtomToks(u.inner) + ')');
    condFail('unknown function ' + u.name + '()');
  }
  condFail('bad condition');
}
function parseCondUnits(st, kind, us) {
  if (!us.length) condFail('empty condition');
  if (us[0].k === 'ident' && us[0].name === 'not') {
    if (us.length !== 2) condFail('bad not');
    return { op: 'not', x: parseInParens(st, kind, us[1]) };
  }
  const xs = [parseInParens(st, kind, us[0])];
  let op = null, i = 1;
  while (i < us.length) {
    const u = us[i];
    let o, operand;
    if (u.k === 'ident' && (u.name === 'and' || u.name === 'or')) { o = u.name; operand = us[i + 1]; i += 2; }
    else if (u.k === 'fn' && (u.name === 'and' || u.name === 'or')) { o = u.name; operand = { k: 'paren', inner: u.inner }; i += 1; }
    else condFail('bad condition');
    if (!operand) condFail('missing operand');
    if (op && op !== o) condFail('mixed and/or');
    op = o;
    xs.push(parseInParens(st, kind, operand));
  }
  return xs.length === 1 ? xs[0] : { op, xs };
}
function parseMediaQuery(st, toks) {
  const us = toUnits(toks);
  if (!us.length) condFail('empty media query');
  let i = 0, neg = false;
  if (us[0].k === 'ident' && (us[0].name === 'not' || us[0].name === 'only') && us[1] && us[1].k === 'ident') { neg = us[0].name === 'not'; i = 1; }
  if (us[i].k === 'ident' && !(us[i].name === 'not' && i === 0)) {
    const ty = us[i].name;
    if (ty === 'and' || ty === 'or' || ty === 'not' || ty === 'only' || ty === 'layer') condFail('bad media type');
    const xs = [ty === 'all' ? C_TRUE : mkAtom(st, 'media', ty)];
    i++;
    while (i < us.length) {
      const u = us[i];
      let operand;
      if (u.k === 'ident' && u.name === 'and') { operand = us[i + 1]; i += 2; }
      else if (u.k === 'fn' && u.name === 'and') { operand = { k: 'paren', inner: u.inner }; i++; }
      else condFail('bad media query');
      if (!operand) condFail('missing operand');
      if (operand.k === 'ident' && operand.name === 'not' && us[i]) { xs.push({ op: 'not', x: parseInParens(st, 'media', us[i]) }); i++; }
      else xs.push(parseInParens(st, 'media', operand));
    }
    const q = xs.length === 1 ? xs[0] : { op: 'and', xs };
    return neg ? { op: 'not', x: q } : q;
  }
  return parseCondUnits(st, 'media', us);
}
// st: {atoms:Set, feats:Set, notes:Set}
function parseMediaList(st, toks) {
  if (!trimWs(toks).length) return C_TRUE;
  const xs = [];
  for (const part of splitCommas(toks)) {
    const st2 = { atoms: st.atoms, range: false };
    let q;
    try { q = parseMediaQuery(st2, part); } catch (e) { if (!(e instanceof CondError)) throw e; st.notes.add('bad media query: ' + rawOf(part).slice(0, 60)); q = C_FALSE; }
    if (st2.range) { st.feats.add('media-range'); q = { op: 'mq', x: q }; }
    xs.push(q);
  }
  return xs.length === 1 ? xs[0] : { op: 'or', xs };
}
function parseSupports(st, toks) {
  try { return parseCondUnits({ atoms: st.atoms }, 'supports', toUnits(toks)); }
  catch (e) { if (!(e instanceof CondError)) throw e; st.notes.add('bad @supports condition: ' + rawOf(toks).slice(0, 60)); return C_FALSE; }
}
function parseContainer(st, toks) {
  try {
    let us = toUnits(toks);
    if (us.length && us[0].k === 'ident' && us[0].name !== 'not') us = us.slice(1);
    return parseCondUnits({ atoms: st.atoms }, 'container', us);
  } catch (e) { if (!(e instanceof CondError)) throw e; st.notes.add('bad @container condition: ' + rawOf(toks).slice(0, 60)); return C_FALSE; }
}
function evalCond(c, env, notes) {
  switch (c.op) {
    case 'const': return c.v;
    case 'atom': {
      if (c.key === 'media:all') return true;
      const v = env.conds[c.key];
      if (v === undefined) { notes.add('unknown atom ' + c.key); return false; }
      return !!v;
    }
    case 'not': return !evalCond(c.x, env, notes);
    case 'and': for (const x of c.xs) if (!evalCond(x, env, notes)) return false; return true;
    case 'or': for (const x of c.xs) if (evalCond(x, env, notes)) return true; return false;
    case 'mq': return env.feats.has('media-range') ? evalCond(c.x, env, notes) : false;
  }
  return false;
}

// ───────────────────────────── values: component trees, generic text, colours, lengths, calc ─────────────────────────────
function toComps(toks) {
  const out = [];
  let i = 0;
  while (i < toks.length) {
    const t = toks[i];
    if (t.t === 'ws') { i++; continue; }
    if (isOpen(t.t)) {
      const e = skipBlock(toks, i);
      const inner = toComps(toks.slice(i + 1, e));
      out.push(t.t === 'fn' ? { t: 'func', name: lc(t.v), args: inner } : { t: 'blk', open: t.t, items: inner });
      i = e + 1;
    } else { out.push(t); i++; }
  }
  return out;
}
function hasFunc(comps, name) {
  for (const c of comps) {
    if (c.t === 'func') { if (c.name === name || hasFunc(c.args, name)) return true; }
    else if (c.t === 'blk' && hasFunc(c.items, name)) return true;
  }
  return false;
}
function quoteStr(v) { return '"' + v.replace(/\\/g, '\\\\').replace(/"/g, '\\"').replace(/\n/g, '\\a ') + '"'; }
function serComp(c, hook) {
  if (hook) { const h = hook(c); if (h != null) return h; }
  switch (c.t) {
    case 'ident': return c.v.startsWith('--') ? c.v : lc(c.v);
    case 'num': return fmtNum(c.n);
    case 'dim': return fmtNum(c.n) + c.unit;
    case 'pct': return fmtNum(c.n) + '%';
    case 'str': case 'badstr': return quoteStr(c.v);
    case 'url': case 'badurl': return 'url(' + c.v + ')';
    case 'hash': return '#' + lc(c.v);
    case 'delim': return c.v;
    case 'at': return '@' + lc(c.v);
    case 'func':
      if (c.name === 'url' && c.args.length === 1 && c.args[0].t === 'str') return 'url(' + c.args[0].v + ')';
      return c.name + '(' + serComps(c.args, hook) + ')';
    case 'blk': return c.open + serComps(c.items, hook) + (c.open === '(' ? ')' : c.open === '[' ? ']' : '}');
    case 'cdo': return '<!--';
    case 'cdc': return '-->';
    default: return c.t;
  }
}
function serComps(comps, hook) {
  let s = '', prevTight = true;
  for (const c of comps) {
    const tight = c.t === ',' || (c.t === 'delim' && c.v === '/');
    if (!tight && !prevTight) s += ' ';
    s += serComp(c, hook);
    prevTight = tight;
  }
  return s;
}
const CSS_WIDE = new Set(['inherit', 'initial', 'unset', 'revert', 'revert-layer']);
function wideKeyword(comps) { return comps.length === 1 && comps[0].t === 'ident' && CSS_WIDE.has(lc(comps[0].v)) ? lc(comps[0].v) : null; }

const NAMED = {};
('aliceblue f0f8ff antiquewhite faebd7 aqua 00ffff aquamarine 7fffd4 azure f0ffff beige f5f5dc bisque ffe4c4 black 000000 blanchedalmond ffebcd blue 0000ff ' +
 'blueviolet 8a2be2 brown a52a2a burlywood deb887 cadetblue 5f9ea0 chartreuse 7fff00 chocolate d2691e coral ff7f50 cornflowerblue 6495ed cornsilk fff8dc ' +
 'crimson dc143c cyan 00ffff darkblue 00008b darkcyan 008b8b darkgoldenrod b8860b darkgray a9a9a9 darkgreen 006400 darkgrey a9a9a9 darkkhaki bdb76b ' +
 'darkmagenta 8b008b darkolivegreen 556b2f darkorange ff8c00 darkorchid 9932cc darkred 8b0000 darksalmon e9967a darkseagreen 8fbc8f darkslateblue 483d8b ' +
 'darkslategray 2f4f4f darkslategrey 2f4f4f darkturquoise 00ced1 darkviolet 9400d3 deeppink ff1493 deepskyblue 00bfff dimgray 696969 dimgrey 696969 ' +
 'dodgerblue 1e90ff firebrick b22222 floralwhite fffaf0 forestgreen 228b22 fuchsia ff00ff gainsboro dcdcdc ghostwhite f8f8ff gold ffd700 goldenrod daa520 ' +
 'gray 808080 green 008000 greenyellow adff2f grey 808080 honeydew f0fff0 hotpink ff69b4 indianred cd5c5c indigo 4b0082 ivory fffff0 khaki f0e68c ' +
 'lavender e6e6fa lavenderblush fff0f5 lawngreen 7cfc00 lemonchiffon fffacd lightblue add8e6 lightcoral f08080 lightcyan e0ffff lightgoldenrodyellow fafad2 ' +
 'lightgray d3d3d3 lightgreen 90ee90 lightgrey d3d3d3 lightpink ffb6c1 lightsalmon ffa07a lightseagreen 20b2aa lightskyblue 87cefa lightslategray 778899 ' +
 'lightslategrey 778899 lightsteelblue b0c4de lightyellow ffffe0 lime 00ff00 limegreen 32cd32 linen faf0e6 magenta ff00ff maroon 800000 ' +
 'mediumaquamarine 66cdaa mediumblue 0000cd mediumorchid ba55d3 mediumpurple 9370db mediumseagreen 3cb371 mediumslateblue 7b68ee mediumspringgreen 00fa9a ' +
 'mediumturquoise 48d1cc mediumvioletred c71585 midnightblue 191970 mintcream f5fffa mistyrose ffe4e1 moccasin ffe4b5 navajowhite ffdead navy 000080 ' +
 'oldlace fdf5e6 olive 808000 olivedrab 6b8e23 orange ffa500 orangered ff4500 orchid da70d6 palegoldenrod eee8aa palegreen 98fb98 paleturquoise afeeee ' +
 'palevioletred db7093 papayawhip ffefd5 peachpuff ffdab9 peru cd853f pink ffc0cb plum dda0dd powderblue b0e0e6 purple 800080 rebeccapurple 663399 ' +
 'red ff0000 rosybrown bc8f8f royalblue 4169e1 saddlebrown 8b4513 salmon fa8072 sandybrown f4a460 seagreen 2e8b57 seashell fff5ee sienna a0522d ' +
 'silver c0c0c0 skyblue 87ceeb slateblue 6a5acd slategray 708090 slategrey 708090 snow fffafa springgreen 00ff7f steelblue 4682b4 tan d2b48c teal 008080 ' +
 'thistle d8bfd8 tomato ff6347 turquoise 40e0d0 violet ee82ee wheat f5deb3 white ffffff whitesmoke f5f5f5 yellow ffff00 yellowgreen 9acd32')
  .split(' ').forEach((w, i, a) => { if (i % 2 === 0) NAMED[w] = a[i + 1]; });
const SYSTEM_COLORS = new Set(['canvas', 'canvastext', 'linktext', 'visitedtext', 'activetext', 'buttonface', 'buttontext', 'buttonborder', 'field', 'fieldtext',
  'highlight', 'highlighttext', 'selecteditem', 'selecteditemtext', 'mark', 'marktext', 'graytext', 'accentcolor', 'accentcolortext',
  'activeborder', 'activecaption', 'appworkspace', 'background', 'buttonhighlight', 'buttonshadow', 'captiontext', 'inactiveborder', 'inactivecaption',
  'inactivecaptiontext', 'infobackground', 'infotext', 'menu', 'menutext', 'scrollbar', 'threeddarkshadow', 'threedface', 'threedhighlight',
  'threedlightshadow', 'threedshadow', 'window', 'windowframe', 'windowtext']);
const OPAQUE_COLOR_FN = new Set(['lab', 'lch', 'oklab', 'oklch', 'color', 'color-mix', 'light-dark', 'device-cmyk']);

function fmtAlpha(a) { a = Math.min(1, Math.max(0, a)); return String(Number(a.toFixed(4))); }
function rgbaStr(r, g, b, a) {
  const ch = (x) => { x = Math.min(255, Math.max(0, x)); return Math.floor(x + 0.5 + 1e-9); };
  return 'rgba(' + ch(r) + ',' + ch(g) + ',' + ch(b) + ',' + fmtAlpha(a) + ')';
}
function hslToRgb(h, s, l) { // h degrees, s,l in 0..1 -> 0..255 floats
  h = ((h % 360) + 360) % 360;
  const a = s * Math.min(l, 1 - l);
  const f = (n) => { const k = (n + h / 30) % 12; return (l - a * Math.max(-1, Math.min(k - 3, 9 - k, 1))) * 255; };
  return [f(0), f(8), f(4)];
}
function angleDeg(c) {
  if (c.t === 'num') return c.n;
  if (c.t === 'dim') switch (c.unit) { case 'deg': return c.n; case 'turn': return c.n * 360; case 'rad': return c.n * 180 / Math.PI; case 'grad': return c.n * 0.9; }
  return null;
}
function isNone(c) { return c.t === 'ident' && lc(c.v) === 'none'; }
// returns canonical colour text or null; adds used features to fx
function parseColor(c, fx) {
  if (c.t === 'ident') {
    const k = lc(c.v);
    if (Object.prototype.hasOwnProperty.call(NAMED, k)) { const h = NAMED[k]; return rgbaStr(parseInt(h.slice(0, 2), 16), parseInt(h.slice(2, 4), 16), parseInt(h.slice(4, 6), 16), 1); }
    if (k === 'transparent') return 'rgba(0,0,0,0)';
    if (k === 'currentcolor') return 'currentcolor';
    if (SYSTEM_COLORS.has(k)) return k;
    return null;
  }
  if (c.t === 'hash') {
    const h = c.v;
    if (!/^[0-9a-fA-F]+$/.test(h)) return null;
    const x = (s) => parseInt(s, 16);
    if (h.length === 3 || h.length === 4) { if (h.length === 4) fx.add('hex-alpha'); return rgbaStr(x(h[0]) * 17, x(h[1]) * 17, x(h[2]) * 17, h.length === 4 ? x(h[3]) * 17 / 255 : 1); }
    if (h.length === 6 || h.length === 8) { if (h.length === 8) fx.add('hex-alpha'); return rgbaStr(x(h.slice(0, 2)), x(h.slice(2, 4)), x(h.slice(4, 6)), h.length === 8 ? x(h.slice(6, 8)) / 255 : 1); }
    return null;
  }
  if (c.t !== 'func') return null;
  const nm = c.name;
  if (OPAQUE_COLOR_FN.has(nm)) return 'unsupported-color:' + serComp(c);
  if (nm !== 'rgb' && nm !== 'rgba' && nm !== 'hsl' && nm !== 'hsla' && nm !== 'hwb') return null;
  const args = c.args;
  if (args.some((a) => a.t === 'func')) return 'unsupported-color:' + serComp(c);
  const legacy = args.some((a) => a.t === ',');
  let comps, alpha = null;
  if (legacy) {
    if (nm === 'hwb') return null;
    comps = [];
    for (let i = 0; i < args.length; i++) { if (i % 2 === 1) { if (args[i].t !== ',') return null; } else { if (args[i].t === ',') return null; comps.push(args[i]); } }
    if (args.length % 2 === 0) return null;
    if (comps.length === 4) alpha = comps.pop();
    if (comps.length !== 3) return null;
    if (comps.some(isNone) || (alpha && isNone(alpha))) return null;
    const four = alpha !== null, isA = nm === 'rgba' || nm === 'hsla';
    if (four !== isA) fx.add('rgb-space');
  } else {
    const sl = args.findIndex((a) => a.t === 'delim' && a.v === '/');
    if (sl >= 0) { if (sl !== 3 || args.length !== 5) return null; alpha = args[4]; comps = args.slice(0, 3); }
    else { if (args.length !== 3) return null; comps = args; }
    fx.add('rgb-space');
  }
  let A = 1;
  if (alpha) { if (alpha.t === 'num') A = alpha.n; else if (alpha.t === 'pct') A = alpha.n / 100; else if (isNone(alpha)) A = 0; else return null; }
  if (nm === 'rgb' || nm === 'rgba') {
    const nNum = comps.filter((x) => x.t === 'num').length, nPct = comps.filter((x) => x.t === 'pct').length, nNone = comps.filter(isNone).length;
    if (nNum + nPct + nNone !== 3) return null;
    if (legacy && nNum !== 3 && nPct !== 3) return null;
    const v = comps.map((x) => (x.t === 'num' ? x.n : x.t === 'pct' ? x.n * 255 / 100 : 0));
    return rgbaStr(v[0], v[1], v[2], A);
  }
  const h = isNone(comps[0]) ? 0 : angleDeg(comps[0]);
  if (h === null) return null;
  const pc = (x) => (x.t === 'pct' ? x.n : (!legacy && x.t === 'num') ? x.n : isNone(x) ? 0 : null);
  const p1 = pc(comps[1]), p2 = pc(comps[2]);
  if (p1 === null || p2 === null) return null;
  if (nm === 'hwb') {
    let w = Math.min(100, Math.max(0, p1)) / 100, b = Math.min(100, Math.max(0, p2)) / 100;
    if (w + b >= 1) { const g = w / (w + b) * 255; return rgbaStr(g, g, g, A); }
    const rgb = hslToRgb(h, 1, 0.5).map((x) => x * (1 - w - b) + w * 255);
    return rgbaStr(rgb[0], rgb[1], rgb[2], A);
  }
  const rgb = hslToRgb(h, Math.min(100, Math.max(0, p1)) / 100, Math.min(100, Math.max(0, p2)) / 100);
  return rgbaStr(rgb[0], rgb[1], rgb[2], A);
}
// scan any value for syntax features (hex-alpha, rgb-space) regardless of property type
function scanValueFeats(comps, fx) {
  for (const c of comps) {
    if (c.t === 'hash') { if ((c.v.length === 4 || c.v.length === 8) && /^[0-9a-fA-F]+$/.test(c.v)) fx.add('hex-alpha'); }
    else if (c.t === 'func') {
      if (c.name === 'rgb' || c.name === 'rgba' || c.name === 'hsl' || c.name === 'hsla') parseColor(c, fx);
      if (c.name === 'min' || c.name === 'max' || c.name === 'clamp') fx.add('math-fn'); // comparison functions (Values 4): newer than calc()
      scanValueFeats(c.args, fx);
    } else if (c.t === 'blk') scanValueFeats(c.items, fx);
  }
}

// calc(): linear combination over units ('' = unitless, '%')
function calcReduce(items) {
  let pos = 0;
  const isOp = (c, a, b) => c && c.t === 'delim' && (c.v === a || c.v === b);
  const unitless = (m) => { for (const [u, v] of m) if (u !== '' && v !== 0) return false; return true; };
  const scale = (m, k) => { const r = new Map(); for (const [u, v] of m) r.set(u, v * k); return r; };
  function value() {
    const c = items[pos];
    if (!c) return null;
    pos++;
    if (c.t === 'num') return new Map([['', c.n]]);
    if (c.t === 'dim') return new Map([[c.unit, c.n]]);
    if (c.t === 'pct') return new Map([['%', c.n]]);
    if (c.t === 'blk' && c.open === '(') return calcReduce(c.items);
    if (c.t === 'func' && c.name === 'calc') return calcReduce(c.args);
    return null;
  }
  function product() {
    let l = value();
    if (!l) return null;
    while (isOp(items[pos], '*', '/')) {
      const op = items[pos].v; pos++;
      const r = value();
      if (!r) return null;
      if (op === '*') { if (unitless(r)) l = scale(l, r.get('') || 0); else if (unitless(l)) l = scale(r, l.get('') || 0); else return null; }
      else { if (!unitless(r)) return null; const d = r.get('') || 0; if (d === 0) return null; l = scale(l, 1 / d); }
    }
    return l;
  }
  let acc = product();
  if (!acc) return null;
  while (isOp(items[pos], '+', '-')) {
    const sg = items[pos].v === '+' ? 1 : -1; pos++;
    const r = product();
    if (!r) return null;
    for (const [u, v] of r) acc.set(u, (acc.get(u) || 0) + sg * v);
  }
  return pos === items.length ? acc : null;
}
function fmtDim(n, unit) { const s = fmtNum(n); return s === '0' && LENGTH_UNITS.has(unit) ? '0' : s + unit; }
// returns text, or null when irreducible
function calcText(c, allowUnitless) {
  const m = calcReduce(c.args);
  if (!m) return null;
  const terms = [];
  let onlyPct = m.size > 0;
  for (const [u, v] of m) { if (u !== '%') onlyPct = false; if (fmtNum(v) !== '0') terms.push([u, v]); }
  if (!terms.length) return onlyPct ? '0%' : '0';
  if (terms.length === 1) {
    const [u, v] = terms[0];
    if (u === '') return allowUnitless ? fmtNum(v) : undefined;
    return fmtDim(v, u);
  }
  terms.sort((a, b) => (a[0] < b[0] ? -1 : a[0] > b[0] ? 1 : 0));
  return 'calc(' + terms.map(([u, v]) => fmtNum(v) + u).join('+') + ')';
}

// ───────────────────────────── declarations: typing, canonicalisation, shorthand expansion ─────────────────────────────
const SIDES = ['top', 'right', 'bottom', 'left'];
const CORNERS = ['border-top-left-radius', 'border-top-right-radius', 'border-bottom-right-radius', 'border-bottom-left-radius'];
const COLOR_PROPS = new Set(['color', 'background-color', 'border-top-color', 'border-right-color', 'border-bottom-color', 'border-left-color', 'outline-color',
  'text-decoration-color', 'caret-color', 'fill', 'stroke', 'accent-color', 'column-rule-color']);
const COLOR_EXTRA = { fill: ['none', 'context-fill', 'context-stroke'], stroke: ['none', 'context-fill', 'context-stroke'], 'caret-color': ['auto'], 'accent-color': ['auto'], 'outline-color': ['invert', 'auto'] };
const LENGTH_PROPS = new Set(['top', 'right', 'bottom', 'left', 'width', 'height', 'font-size', 'line-height', 'letter-spacing', 'word-spacing', 'text-indent',
  'row-gap', 'column-gap', 'outline-width', 'outline-offset', 'flex-basis', 'column-rule-width']);
for (const s of SIDES) { LENGTH_PROPS.add('margin-' + s); LENGTH_PROPS.add('padding-' + s); LENGTH_PROPS.add('border-' + s + '-width'); }
const SIZE_KW = ['min-content', 'max-content', 'fit-content', 'stretch'];
function isLengthProp(p) { return LENGTH_PROPS.has(p) || /^(min|max)-(width|height|inline-size|block-size)$/.test(p); }
function lengthKeywords(p) {
  if (p === 'width' || p === 'height' || p.startsWith('min-')) return SIZE_KW;
  if (p.startsWith('max-')) return ['none'].concat(SIZE_KW);
  if (p === 'font-size') return ['xx-small', 'x-small', 'small', 'medium', 'large', 'x-large', 'xx-large', 'xxx-large', 'larger', 'smaller', 'math'];
  if (p === 'line-height' || p === 'letter-spacing' || p === 'word-spacing' || p === 'row-gap' || p === 'column-gap') return ['normal'];
  if (p.endsWith('-width')) return ['thin', 'medium', 'thick'];
  if (p === 'flex-basis') return ['content'].concat(SIZE_KW);
  return [];
}
// one length-typed component -> canonical text or null (invalid)
function canonLength(c, prop) {
  switch (c.t) {
    case 'num': { const s = fmtNum(c.n); return s === '0' ? '0' : prop === 'line-height' ? s : null; }
    case 'dim': return fmtDim(c.n, c.unit);
    case 'pct': return fmtNum(c.n) + '%';
    case 'ident': { const k = lc(c.v); return k === 'auto' || lengthKeywords(prop).includes(k) ? k : null; }
    case 'func': {
      if (c.name === 'calc') { const t = calcText(c, prop === 'line-height'); return t === undefined ? null : t === null ? 'calc:' + serComp(c) : t; }
      return serComp(c);
    }
  }
  return null;
}
function box4(vals) { // 1-4 values rule -> [top,right,bottom,left]
  switch (vals.length) {
    case 1: return [vals[0], vals[0], vals[0], vals[0]];
    case 2: return [vals[0], vals[1], vals[0], vals[1]];
    case 3: return [vals[0], vals[1], vals[2], vals[1]];
    case 4: return vals;
  }
  return null;
}
function mapAll(comps, f) { const out = []; for (const c of comps) { const v = f(c); if (v == null) return null; out.push(v); } return out; }
const BORDER_STYLES = new Set(['none', 'hidden', 'dotted', 'dashed', 'solid', 'double', 'groove', 'ridge', 'inset', 'outset']);
const GENERIC_FAMILIES = new Set(['serif', 'sans-serif', 'monospace', 'cursive', 'fantasy', 'system-ui', 'ui-serif', 'ui-sans-serif', 'ui-monospace', 'ui-rounded', 'emoji', 'math', 'fangsong']);
const SYSTEM_FONTS = new Set(['caption', 'icon', 'menu', 'message-box', 'small-caption', 'status-bar']);
const FONT_STRETCH = new Set(['ultra-condensed', 'extra-condensed', 'condensed', 'semi-condensed', 'semi-expanded', 'expanded', 'extra-expanded', 'ultra-expanded']);
const FONT_LONGS = ['font-style', 'font-variant', 'font-weight', 'font-stretch', 'font-size', 'line-height', 'font-family'];

function canonFamily(comps) {
  const out = [];
  let cur = [];
  const flush = () => {
    if (!cur.length) return false;
    if (cur.length === 1 && cur[0].t === 'str') out.push('n:' + cur[0].v);
    else if (cur.every((c) => c.t === 'ident')) {
      if (cur.length === 1 && GENERIC_FAMILIES.has(lc(cur[0].v))) out.push('g:' + lc(cur[0].v));
      else out.push('n:' + cur.map((c) => c.v).join(' '));
    } else return false;
    cur = [];
    return true;
  };
  for (const c of comps) { if (c.t === ',') { if (!flush()) return null; } else cur.push(c); }
  if (!flush()) return null;
  return out.join(',');
}
function canonWeight(c) {
  if (c.t === 'ident') { const k = lc(c.v); return k === 'normal' ? '400' : k === 'bold' ? '700' : (k === 'bolder' || k === 'lighter') ? k : null; }
  if (c.t === 'num') return c.n >= 1 && c.n <= 1000 ? fmtNum(c.n) : null;
  if (c.t === 'func') return serComp(c);
  return null;
}
function expandFont(comps) {
  if (comps.length === 1 && comps[0].t === 'ident' && SYSTEM_FONTS.has(lc(comps[0].v))) return FONT_LONGS.map(() => 'system:' + lc(comps[0].v));
  let style = 'normal', variant = 'normal', weight = '400', stretch = 'normal', i = 0;
  const seen = new Set();
  for (let k = 0; k < 4 && i < comps.length; k++) {
    const c = comps[i];
    let slot = null;
    if (c.t === 'ident') {
      const v = lc(c.v);
      if (v === 'normal') { i++; continue; }
      if (v === 'italic' || v === 'oblique') {
        slot = 'style'; style = v;
        if (v === 'oblique' && comps[i + 1] && comps[i + 1].t === 'dim' && angleDeg(comps[i + 1]) !== null) { style = 'oblique ' + fmtNum(comps[i + 1].n) + comps[i + 1].unit; i++; }
      } else if (v === 'small-caps') { slot = 'variant'; variant = v; }
      else if (v === 'bold' || v === 'bolder' || v === 'lighter') { slot = 'weight'; weight = canonWeight(c); }
      else if (FONT_STRETCH.has(v)) { slot = 'stretch'; stretch = v; }
      else break;
    } else if (c.t === 'num' && i + 1 < comps.length && c.n >= 1 && c.n <= 1000) { slot = 'weight'; weight = fmtNum(c.n); }
    else break;
    if (seen.has(slot)) return null;
    seen.add(slot);
    i++;
  }
  if (i >= comps.length) return null;
  const size = canonLength(comps[i], 'font-size');
  if (size == null || size === 'auto') return null;
  i++;
  let lh = 'normal';
  if (comps[i] && comps[i].t === 'delim' && comps[i].v === '/') {
    if (!comps[i + 1]) return null;
    lh = canonLength(comps[i + 1], 'line-height');
    if (lh == null || lh === 'auto') return null;
    i += 2;
  }
  const fam = canonFamily(comps.slice(i));
  if (fam == null) return null;
  return [style, variant, weight, stretch, size, lh, fam];
}
function expandBorderLike(comps, fx, outline) {
  if (comps.length < 1 || comps.length > 3) return null;
  let w = null, s = null, col = null;
  for (const c of comps) {
    let v;
    if (c.t === 'ident' && (BORDER_STYLES.has(lc(c.v)) || (outline && lc(c.v) === 'auto'))) { if (s !== null) return null; s = lc(c.v); }
    else if ((c.t !== 'ident' || ['thin', 'medium', 'thick'].includes(lc(c.v))) && (c.t !== 'func' || !/^(rgba?|hsla?|hwb|lab|lch|oklab|oklch|color|color-mix|light-dark)$/.test(c.name)) && c.t !== 'hash' && (v = canonLength(c, 'border-top-width')) != null) { if (w !== null) return null; w = v; }
    else if ((v = parseColor(c, fx)) != null) { if (col !== null) return null; col = v; }
    else return null;
  }
  return [w === null ? 'medium' : w, s === null ? 'none' : s, col === null ? 'currentcolor' : col];
}
function colorHook(fx) { return (c) => ((c.t === 'ident' || c.t === 'hash' || c.t === 'func') ? parseColor(c, fx) : null); }

// shorthand table: name -> {longs, expand(comps, fx) -> values[] | null}
const SHORTHANDS = {};
function defBox(name, longs, canon) {
  SHORTHANDS[name] = { longs, expand: (comps, fx) => { const v = mapAll(comps, (c) => canon(c, fx)); return v && box4(v); } };
}
defBox('margin', SIDES.map((s) => 'margin-' + s), (c) => canonLength(c, 'margin-top'));
defBox('padding', SIDES.map((s) => 'padding-' + s), (c) => canonLength(c, 'padding-top'));
defBox('inset', SIDES, (c) => canonLength(c, 'top'));
defBox('border-color', SIDES.map((s) => 'border-' + s + '-color'), (c, fx) => parseColor(c, fx));
defBox('border-width', SIDES.map((s) => 'border-' + s + '-width'), (c) => canonLength(c, 'border-top-width'));
defBox('border-style', SIDES.map((s) => 'border-' + s + '-style'), (c) => (c.t === 'ident' && BORDER_STYLES.has(lc(c.v)) ? lc(c.v) : null));
SHORTHANDS['border-radius'] = { longs: CORNERS, expand: (comps) => {
  const sl = comps.findIndex((c) => c.t === 'delim' && c.v === '/');
  const hs = sl < 0 ? comps : comps.slice(0, sl), vs = sl < 0 ? null : comps.slice(sl + 1);
  const h = mapAll(hs, (c) => canonLength(c, 'border-radius')), v = vs ? mapAll(vs, (c) => canonLength(c, 'border-radius')) : h;
  if (!h || !v) return null;
  const H = box4(h), V = box4(v);
  if (!H || !V) return null;
  return [0, 1, 2, 3].map((k) => H[k] + ' ' + V[k]);
} };
SHORTHANDS.font = { longs: FONT_LONGS, expand: expandFont };
SHORTHANDS.background = { longs: ['background-color', 'background-image'], expand: (comps, fx) => {
  if (comps.length === 1) {
    const c = parseColor(comps[0], fx);
    if (c != null) return [c, 'none'];
    if (isNone(comps[0])) return ['rgba(0,0,0,0)', 'none'];
  }
  let col = null;
  for (const c of comps) { const v = (c.t === 'ident' || c.t === 'hash' || c.t === 'func') ? parseColor(c, fx) : null; if (v != null) { if (col !== null) return null; col = v; } }
  return [col === null ? 'rgba(0,0,0,0)' : col, 'complex:' + serComps(comps, colorHook(fx))];
} };
SHORTHANDS.border = { longs: [].concat(...SIDES.map((s) => ['border-' + s + '-width', 'border-' + s + '-style', 'border-' + s + '-color'])),
  expand: (comps, fx) => { const v = expandBorderLike(comps, fx, false); return v && [].concat(v, v, v, v); } };
for (const s of SIDES) SHORTHANDS['border-' + s] = { longs: ['border-' + s + '-width', 'border-' + s + '-style', 'border-' + s + '-color'], expand: (comps, fx) => expandBorderLike(comps, fx, false) };
SHORTHANDS.outline = { longs: ['outline-width', 'outline-style', 'outline-color'], expand: (comps, fx) => expandBorderLike(comps, fx, true) };
SHORTHANDS.overflow = { longs: ['overflow-x', 'overflow-y'], expand: (comps) => {
  if (comps.length < 1 || comps.length > 2 || !comps.every((c) => c.t === 'ident')) return null;
  return [lc(comps[0].v), lc(comps[comps.length - 1].v)];
} };
SHORTHANDS.gap = { longs: ['row-gap', 'column-gap'], expand: (comps) => {
  if (comps.length < 1 || comps.length > 2) return null;
  const v = mapAll(comps, (c) => canonLength(c, 'row-gap'));
  return v && [v[0], v[v.length - 1]];
} };

function canonLonghand(name, comps, fx) {
  if (COLOR_PROPS.has(name)) {
    if (comps.length !== 1) return null;
    const c = comps[0];
    const v = parseColor(c, fx);
    if (v != null) return v;
    if (c.t === 'ident' && COLOR_EXTRA[name] && COLOR_EXTRA[name].includes(lc(c.v))) return lc(c.v);
    if ((name === 'fill' || name === 'stroke') && (c.t === 'url' || (c.t === 'func' && c.name === 'url'))) return serComp(c);
    if (c.t === 'func' && !/^(rgba?|hsla?|hwb)$/.test(c.name)) return serComp(c);
    return null;
  }
  if (CORNERS.includes(name)) {
    if (comps.length < 1 || comps.length > 2) return null;
    const v = mapAll(comps, (c) => canonLength(c, name));
    return v && v[0] + ' ' + v[v.length - 1];
  }
  if (isLengthProp(name)) {
    if (comps.length !== 1) return name === 'text-indent' ? serComps(comps) : null;
    return canonLength(comps[0], name);
  }
  if (name === 'font-weight') return comps.length === 1 ? canonWeight(comps[0]) : null;
  if (name === 'font-family') return canonFamily(comps);
  return serComps(comps);
}
// custom properties: the token stream with numbers normalised and reducible calc() reduced; identifiers,
// hashes and units stay as written (nothing that is rendered depends on more than that)
function customHook(c) {
  switch (c.t) {
    case 'ident': return c.v;
    case 'hash': return '#' + c.v;
    case 'dim': return fmtNum(c.n) + c.unit;
    case 'func':
      if (c.name === 'calc') { const t = calcText(c, true); if (typeof t === 'string') return t; }
      return null;
    default: return null;
  }
}
function customText(toks) { return serComps(toComps(toks), customHook); }
function hasBadToken(comps) {
  for (const c of comps) {
    if (c.t === 'badstr' || c.t === 'badurl' || c.t === ')' || c.t === ']' || c.t === '}') return true;
    if (c.t === 'func' ? hasBadToken(c.args) : c.t === 'blk' ? hasBadToken(c.items) : false) return true;
  }
  return false;
}
// -> {lh: [[longhand, value],...] | null, all: keyword | null, feats: Set}
function expandDecl(d) {
  const fx = new Set();
  const bad = { lh: null, all: null, feats: fx };
  if (d.custom) {
    if (hasBadToken(toComps(d.value))) return bad;
    const cw = wideKeyword(toComps(d.value)); // CSS-wide keywords keep their meaning (case-insensitively) in custom properties
    return { lh: [[d.name, cw || customText(d.value)]], all: null, feats: fx };
  }
  const comps = toComps(d.value);
  const name = d.name;
  if (name === 'inset') fx.add('inset');
  if (!comps.length || hasBadToken(comps)) return bad;
  scanValueFeats(comps, fx);
  const wide = wideKeyword(comps);
  if (name === 'all') return wide ? { lh: null, all: wide, feats: fx } : bad;
  const pending = hasFunc(comps, 'var');
  const sh = Object.prototype.hasOwnProperty.call(SHORTHANDS, name) ? SHORTHANDS[name] : null;
  if (sh) {
    if (wide) return { lh: sh.longs.map((l) => [l, wide]), all: null, feats: fx };
    if (pending) { const t = 'pending:' + serComps(comps); return { lh: sh.longs.map((l) => [l, t]), all: null, feats: fx }; }
    const v = sh.expand(comps, fx);
    if (!v) return bad;
    return { lh: sh.longs.map((l, k) => [l, v[k]]), all: null, feats: fx };
  }
  if (wide) return { lh: [[name, wide]], all: null, feats: fx };
  if (pending) return { lh: [[name, serComps(comps)]], all: null, feats: fx };
  const v = canonLonghand(name, comps, fx);
  if (v == null) return bad;
  return { lh: [[name, v]], all: null, feats: fx };
}

// ───────────────────────────── sheet builder (rule tree, @import inlining) ─────────────────────────────
const SILENT_AT = new Set(['keyframes', '-webkit-keyframes', '-moz-keyframes', '-o-keyframes', 'font-face', 'page', 'property', 'namespace', 'counter-style',
  'font-feature-values', 'font-palette-values', 'viewport', '-ms-viewport', 'color-profile', 'position-try', 'view-transition', 'document', '-moz-document']);
const NO_ALL = new Set(['direction', 'unicode-bidi']);

function parseLayerName(toks) { // ident(.ident)* -> [parts] | null
  const t = trimWs(toks);
  if (!t.length || t.length % 2 === 0) return null;
  const parts = [];
  for (let i = 0; i < t.length; i++) {
    if (i % 2 === 0) { if (t[i].t !== 'ident') return null; parts.push(t[i].v); }
    else if (!(t[i].t === 'delim' && t[i].v === '.')) return null;
  }
  return parts;
}
function normPath(p) {
  const out = [];
  for (const seg of p.split('/')) { if (seg === '' || seg === '.') continue; if (seg === '..') out.pop(); else out.push(seg); }
  return '/' + out.join('/');
}
function resolveImportPath(from, url) {
  if (/^[a-zA-Z][a-zA-Z0-9+.-]*:/.test(url) || url.startsWith('//')) return null;
  url = url.replace(/[?#].*$/, '');
  if (url.startsWith('/')) return normPath(url);
  const dir = from.slice(0, from.lastIndexOf('/') + 1);
  return normPath(dir + url);
}

function mkDecl(st, it) {
  const ex = expandDecl(it);
  for (const f of ex.feats) st.feats.add(f);
  let ids = null, vals = null;
  if (ex.lh) {
    ids = []; vals = [];
    for (const [p, v] of ex.lh) {
      if (!p.startsWith('--') && !NO_ALL.has(p)) st.universe.add(p);
      let id = st.propIds.get(p);
      if (id === undefined) { id = st.propNames.length; st.propIds.set(p, id); st.propNames.push(p); }
      ids.push(id); vals.push(v);
    }
  }
  if (!ex.lh && !ex.all) st.notes.add('invalid declaration: ' + it.name);
  return { kind: 'decl', ex, ids, vals, important: it.important };
}
function buildItems(st, raw, styleNode) {
  const out = [];
  let sawNested = false;
  for (const it of raw) {
    if (it.type === 'decl') { if (sawNested) st.notes.add('decl-after-nested'); out.push(mkDecl(st, it)); }
    else {
      sawNested = true; st.feats.add('nesting');
      if (it.type === 'qual') out.push(buildStyle(st, it, styleNode));
      else out.push(buildAt(st, it, styleNode) || { kind: 'skip' });
    }
  }
  return out;
}
function buildStyle(st, r, parentStyle) {
  const node = { kind: 'style', sel: null, parent: parentStyle, items: null, cache: new Map(), plain: false };
  try {
    node.sel = parseSelectorList(r.prelude, !!parentStyle);
    for (const f of node.sel.feats) st.feats.add(f);
    node.plain = node.sel.feats.size === 0 && (!parentStyle || parentStyle.plain === true);
  } catch (e) {
    if (!(e instanceof SelError)) throw e;
    st.notes.add('invalid selector (' + e.message + '): ' + rawOf(r.prelude).slice(0, 60));
    // features are still collected from what can be seen
    for (const t of r.prelude) { if (t.t === 'delim' && t.v === '&') st.feats.add('nesting'); if (t.t === 'fn' && (lc(t.v) === 'is' || lc(t.v) === 'where')) st.feats.add(lc(t.v)); }
  }
  node.items = buildItems(st, parseStyleBlock(r.block, st.notes), node);
  return node;
}
function buildChildren(st, block, parentStyle) {
  return parentStyle ? buildItems(st, parseStyleBlock(block, st.notes), parentStyle) : buildRules(st, parseRuleList(block, false, st.notes), null, null);
}
function buildAt(st, r, parentStyle) {
  switch (r.name) {
    case 'media': case 'supports': case 'container': {
      if (r.block === null) { st.notes.add('@' + r.name + ' without block ignored'); return null; }
      const cond = r.name === 'media' ? parseMediaList(st, r.prelude) : r.name === 'supports' ? parseSupports(st, r.prelude) : parseContainer(st, r.prelude);
      return { kind: 'cond', cond, children: buildChildren(st, r.block, parentStyle) };
    }
    case 'layer': {
      if (r.block === null) {
        const names = splitCommas(r.prelude).map(parseLayerName);
        if (names.some((n) => !n) || parentStyle) { st.notes.add('invalid @layer statement'); return null; }
        return { kind: 'layerstmt', names };
      }
      let name = null;
      if (trimWs(r.prelude).length) { name = parseLayerName(r.prelude); if (!name) { st.notes.add('invalid @layer name: ' + rawOf(r.prelude).slice(0, 40)); return null; } }
      return { kind: 'layer', name, children: buildChildren(st, r.block, parentStyle) };
    }
    case 'charset': return null;
    case 'import': st.notes.add('misplaced @import ignored'); return null;
    default:
      if (!SILENT_AT.has(r.name)) st.notes.add('unknown at-rule @' + r.name);
      return null;
  }
}
function buildImport(st, r, file, chain) {
  const p = trimWs(r.prelude);
  let i = 0, url = null;
  if (r.block !== null || !p.length) { st.notes.add('invalid @import'); return []; }
  if (p[0].t === 'str' || p[0].t === 'url') { url = p[0].v; i = 1; }
  else if (p[0].t === 'fn' && lc(p[0].v) === 'url') {
    const e = skipBlock(p, 0), inner = noWs(p.slice(1, e));
    if (inner.length >= 1 && inner[0].t === 'str') url = inner[0].v;
    i = e + 1;
  }
  if (url === null) { st.notes.add('invalid @import'); return []; }
  const skipWs = () => { while (i < p.length && p[i].t === 'ws') i++; };
  skipWs();
  let layer; // undefined: none; null: anonymous; [parts]
  if (i < p.length && p[i].t === 'ident' && lc(p[i].v) === 'layer') { layer = null; i++; }
  else if (i < p.length && p[i].t === 'fn' && lc(p[i].v) === 'layer') {
    const e = skipBlock(p, i);
    layer = parseLayerName(p.slice(i + 1, e));
    if (!layer) { st.notes.add('invalid @import layer()'); return []; }
    i = e + 1;
  }
  skipWs();
  let sup = null;
  if (i < p.length && p[i].t === 'fn' && lc(p[i].v) === 'supports') {
    const e = skipBlock(p, i), inner = p.slice(i + 1, e), nw = noWs(inner);
    if (nw.length >= 2 && nw[0].t === 'ident' && nw[1].t === ':') sup = mkAtom(st, 'supports', '(' + serAtomToks(inner) + ')');
    else sup = parseSupports(st, inner);
    i = e + 1;
  }
  const media = p.slice(i);
  const mcond = trimWs(media).length ? parseMediaList(st, media) : null;
  if (file === null) { st.notes.add('@import ignored (css mode)'); return []; }
  const path = resolveImportPath(file, url);
  if (path === null || !Object.prototype.hasOwnProperty.call(st.files, path)) { st.notes.add('import not found: ' + url); return []; }
  if (chain.includes(path)) { st.notes.add('import cycle ignored: ' + path); return []; }
  let inner = buildSheet(st, String(st.files[path]), path, chain.concat(path));
  if (layer !== undefined) inner = [{ kind: 'layer', name: layer, children: inner }];
  if (sup) inner = [{ kind: 'cond', cond: sup, children: inner }];
  if (mcond) inner = [{ kind: 'cond', cond: mcond, children: inner }];
  return inner;
}
// imp: {file, chain} when @import is allowed here (top level of a sheet), else null
function buildRules(st, rules, imp) {
  const nodes = [];
  let importsAllowed = !!imp;
  for (const r of rules) {
    if (r.type === 'qual') { importsAllowed = false; nodes.push(buildStyle(st, r, null)); continue; }
    if (r.name === 'charset') continue;
    if (r.name === 'import') {
      if (!imp) st.notes.add('nested @import ignored');
      else if (!importsAllowed) st.notes.add('misplaced @import ignored');
      else for (const n of buildImport(st, r, imp.file, imp.chain)) nodes.push(n);
      continue;
    }
    if (!(r.name === 'layer' && r.block === null)) importsAllowed = false;
    const n = buildAt(st, r, null);
    if (n) nodes.push(n);
  }
  return nodes;
}
function buildSheet(st, text, file, chain) {
  return buildRules(st, parseRuleList(tokenize(text), true, st.notes), { file, chain });
}

// ───────────────────────────── cascade evaluation ─────────────────────────────
function newLayer(name, parent) { return { name, parent, children: [], byName: new Map(), rank: 0 }; }
function declareLayer(E, from, parts) {
  if (parts === null) { const l = newLayer('<anon' + (++E.anon) + '>', from); from.children.push(l); return l; }
  let cur = from;
  for (const p of parts) {
    let c = cur.byName.get(p);
    if (!c) { c = newLayer(p, cur); cur.byName.set(p, c); cur.children.push(c); }
    cur = c;
  }
  return cur;
}
function walkRules(E, nodes, layer) {
  for (const n of nodes) {
    switch (n.kind) {
      case 'style': walkStyle(E, n, layer); break;
      case 'cond': if (evalCond(n.cond, E.env, E.notes)) walkRules(E, n.children, layer); break;
      case 'layer': walkRules(E, n.children, declareLayer(E, layer, n.name)); break;
      case 'layerstmt': for (const nm of n.names) declareLayer(E, layer, nm); break;
    }
  }
}
function walkStyle(E, node, layer) {
  if (!resolveStyle(node, E.env, E.dom)) return;
  walkItems(E, node.items, layer, node);
}
function walkItems(E, items, layer, styleNode) {
  let run = null;
  for (const it of items) {
    if (it.kind === 'decl') { if (!run) { run = { style: styleNode, layer, decls: [] }; E.apps.push(run); } run.decls.push(it); continue; }
    if (!E.env.feats.has('nesting')) return 'stop';
    run = null;
    switch (it.kind) {
      case 'style': walkStyle(E, it, layer); break;
      case 'cond': if (evalCond(it.cond, E.env, E.notes)) walkItems(E, it.children, layer, styleNode); break;
      case 'layer': walkItems(E, it.children, declareLayer(E, layer, it.name), styleNode); break;
    }
  }
}
function rankLayers(root) {
  let k = 0;
  const names = [];
  (function rec(l, prefix) {
    for (const c of l.children) rec(c, prefix === null ? c.name : prefix + '.' + c.name);
    l.rank = k++;
    if (prefix !== null) names.push(prefix);
  })(root, null);
  return names;
}
function evalEnv(J, envIn) {
  const feats = new Set(envIn && envIn.feats || []);
  const env = { feats, conds: (envIn && envIn.conds) || {} };
  const root = newLayer(null, null);
  const E = { env, dom: J.dom, notes: J.st.notes, apps: [], anon: 0 };
  walkRules(E, J.nodes, root);
  const layers = rankLayers(root);
  const nP = J.st.propNames.length, nE = J.dom.els.length;
  if (!J.buf) J.buf = { K1: new Float64Array(nP * nE), SP: new Float64Array(nP * nE), V: new Array(nP * nE) };
  const K1 = J.buf.K1.fill(-1), SP = J.buf.SP, V = J.buf.V;
  for (const app of E.apps) {
    const res = resolveStyle(app.style, env, J.dom);
    if (!res || !res.els.length) continue;
    const rank = app.layer.rank, els = res.els, sps = res.sps;
    for (const d of app.decls) {
      const ex = d.ex;
      if (!d.ids && !ex.all) continue;
      if (ex.feats.size && !subsetOf(ex.feats, feats)) continue;
      const ids = ex.all ? J.allIds : d.ids, vals = d.vals, allv = ex.all;
      const k1 = d.important ? 3e6 - rank : 1e6 + rank;
      for (let e = 0; e < els.length; e++) {
        const base = els[e] * nP, sp = sps[e];
        for (let k = 0; k < ids.length; k++) {
          const x = base + ids[k], c = K1[x];
          if (c > k1 || (c === k1 && SP[x] > sp)) continue;
          K1[x] = k1; SP[x] = sp; V[x] = allv || vals[k];
        }
      }
    }
  }
  const winners = {};
  for (let i = 0; i < nE; i++) {
    let o = null;
    for (const id of J.sortedIds) { const x = i * nP + id; if (K1[x] >= 0) { if (!o) o = {}; o[J.st.propNames[id]] = V[x]; } }
    if (o) winners[J.dom.els[i].id] = o;
  }
  return { winners, layers };
}
function runJob(job, defaultDom) {
  const st = { atoms: new Set(), feats: new Set(), notes: new Set(), universe: new Set(), files: null, propIds: new Map(), propNames: [] };
  const dom = job.dom ? buildDom(job.dom) : defaultDom;
  let nodes;
  if (job.files) {
    st.files = {};
    for (const k of Object.keys(job.files)) st.files[normPath(k)] = job.files[k];
    const entry = normPath(String(job.entry));
    if (!Object.prototype.hasOwnProperty.call(st.files, entry)) throw new Error('entry not found: ' + job.entry);
    nodes = buildSheet(st, String(st.files[entry]), entry, [entry]);
  } else nodes = buildSheet(st, String(job.css == null ? '' : job.css), null, []);
  const props = [...st.universe].sort();
  if (Array.isArray(job.universe)) for (const x of job.universe) { // extra longhands for the expansion of `all`
    const p = lc(String(x));
    if (p.startsWith('--') || NO_ALL.has(p) || st.universe.has(p)) continue;
    st.universe.add(p);
    if (!st.propIds.has(p)) { st.propIds.set(p, st.propNames.length); st.propNames.push(p); }
  }
  const J = { st, dom, nodes, allIds: [...st.universe].map((p) => st.propIds.get(p)),
    sortedIds: st.propNames.map((p, i) => i).sort((a, b) => (st.propNames[a] < st.propNames[b] ? -1 : 1)) };
  const winners = [], layers = [];
  for (const env of job.envs || []) { const r = evalEnv(J, env); winners.push(r.winners); layers.push(r.layers); }
  return { id: job.id, error: null, winners, features: [...st.feats].sort(), atoms: [...st.atoms].sort(), layers, props, notes: [...st.notes] };
}
function runOne(job, defaultDom) {
  try { return runJob(job, defaultDom); }
  catch (e) { return { id: job && job.id, error: String((e && e.message) || e), winners: [], features: [], atoms: [], layers: [], props: [], notes: [] }; }
}
function runBatch(input) {
  const defaultDom = buildDom(input.dom || []);
  return { results: (input.jobs || []).map((job) => runOne(job, defaultDom)) };
}
module.exports = { runBatch, tokenize };
if (require.main === module) {
  const chunks = [];
  process.stdin.on('data', (c) => chunks.push(c));
  process.stdin.on('end', () => {
    let input;
    try { input = JSON.parse(Buffer.concat(chunks).toString('utf8')); if (!input || typeof input !== 'object') throw new Error('not an object'); }
    catch (e) { process.stdout.write(JSON.stringify({ results: [], error: 'bad input: ' + String((e && e.message) || e) }) + '\n'); return; }
    // results are serialised job by job so that a large batch never holds all winner tables in memory
    let defaultDom;
    try { defaultDom = buildDom(input.dom || []); } catch (e) { defaultDom = buildDom([]); }
    const jobs = Array.isArray(input.jobs) ? input.jobs : [];
    const fs = require('fs');
    const put = (str) => { // synchronous write that copes with EAGAIN on pipes
      const buf = Buffer.from(str, 'utf8');
      let off = 0;
      while (off < buf.length) {
        try { off += fs.writeSync(1, buf, off, buf.length - off); }
        catch (e) { if (e.code !== 'EAGAIN') throw e; Atomics.wait(new Int32Array(new SharedArrayBuffer(4)), 0, 0, 2); }
      }
    };
    let acc = '{"results":[';
    for (let i = 0; i < jobs.length; i++) {
      acc += (i ? ',' : '') + JSON.stringify(runOne(jobs[i], defaultDom));
      jobs[i] = null;
      if (acc.length > (1 << 20)) { put(acc); acc = ''; }
    }
    put(acc + ']}\n');
  });
}
