// smap_check.js -- independent source-map decoder and truth checker for C07.
//
// stdin : {"jobs":[{id, code, map, files:{<sources entry>:<text>}, expect:{...}, opts:{...}}]}
// stdout: {"results":[{id, errors:[{kind,msg,...}], stats:{...}, mappings?:[...], segs?:[...]}]}
//
// Nothing here comes from esbuild: the VLQ decoder, the line tables (ECMAScript
// line terminators, UTF-16 columns) and the tokenisation (acorn, embedded in
// Node) are independent of the code under test.
//
// Conventions of esbuild's printer that the checker knows about (found by
// experiment, see harness/props/c07/c07.go for the list and the reasons):
//  * a mapping is recorded before the indentation / the separating space of
//    the token is printed: the generated position may be followed by blanks
//    (and, before a statement that starts on a new line, by a line break and
//    blanks); the token meant is the first one after them;
//  * a node-level mapping may sit on a parenthesis that the printer inserted
//    before the token (y => ... is printed (y) => ...): the arrow function starts
//    at "(" in the output and at "y" in the input; the "(" is skipped;
//  * "cover" mappings: a line that would not start with a mapping gets one at
//    column 0 that repeats the original position of the previous mapping
//    (work-around for mozilla/source-map#261); they carry no name.
'use strict';
const acorn = require('internal/deps/acorn/acorn/dist/acorn');

const B64 = 'ABCDEFGHIJKLMNOPQRSTUVWXYZabcdefghijklmnopqrstuvwxyz0123456789+/';
const B64V = new Int8Array(128).fill(-1);
for (let i = 0; i < 64; i++) B64V[B64.charCodeAt(i)] = i;

// ---- VLQ / mappings decoder (strict) --------------------------------------
// returns {segs: [[...deltas] | null(for ';')], maps: [{gl,gc,n,src,ol,oc,name}], errors}
function decodeMappings(str) {
  const errors = [], segs = [], maps = [];
  let gl = 0, gc = 0, src = 0, ol = 0, oc = 0, nm = 0;
  let i = 0;
  const n = str.length;
  let fields = [], inSeg = false;
  const flush = () => {
    if (!inSeg) return;
    inSeg = false;
    const f = fields; fields = [];
    segs.push(f);
    if (f.length !== 1 && f.length !== 4 && f.length !== 5) { errors.push({ kind: 'segment-arity', msg: `segment with ${f.length} fields at generated line ${gl}` }); return; }
    gc += f[0];
    const m = { gl, gc, n: f.length, src: -1, ol: -1, oc: -1, name: -1 };
    if (f.length >= 4) { src += f[1]; ol += f[2]; oc += f[3]; m.src = src; m.ol = ol; m.oc = oc; }
    if (f.length === 5) { nm += f[4]; m.name = nm; }
    maps.push(m);
  };
  while (i < n) {
    const ch = str.charCodeAt(i);
    if (ch === 59 /* ; */) { flush(); segs.push(null); gl++; gc = 0; i++; continue; }
    if (ch === 44 /* , */) {
      if (!inSeg) errors.push({ kind: 'empty-segment', msg: `empty segment at offset ${i}` });
      flush(); i++; continue;
    }
    // one VLQ number
    let v = 0, shift = 0, more = true;
    while (more) {
      if (i >= n) { errors.push({ kind: 'vlq-truncated', msg: 'mappings end inside a VLQ number' }); return { segs, maps, errors }; }
      const c = str.charCodeAt(i);
      const d = c < 128 ? B64V[c] : -1;
      if (d < 0) { errors.push({ kind: 'vlq-alphabet', msg: `character ${JSON.stringify(str[i])} at offset ${i} is not base64` }); return { segs, maps, errors }; }
      i++;
      // use multiplication: values may exceed 2^31 only in broken maps, but do not wrap silently
      v += (d & 31) * Math.pow(2, shift);
      shift += 5;
      more = (d & 32) !== 0;
      if (shift > 50) { errors.push({ kind: 'vlq-too-long', msg: 'VLQ number longer than 10 digits' }); return { segs, maps, errors }; }
    }
    const neg = v % 2 === 1;
    let val = Math.floor(v / 2);
    if (neg) val = -val;
    fields.push(val);
    inSeg = true;
  }
  flush();
  return { segs, maps, errors };
}

// ---- text positions ---------------------------------------------------------
// line starts by ECMAScript line terminators (CR LF is one), columns = UTF-16 units
function lineStarts(text) {
  const starts = [0];
  for (let i = 0; i < text.length; i++) {
    const c = text.charCodeAt(i);
    if (c === 10 || c === 0x2028 || c === 0x2029) starts.push(i + 1);
    else if (c === 13) { if (text.charCodeAt(i + 1) === 10) i++; starts.push(i + 1); }
  }
  return starts;
}
function lineEnd(text, starts, line) {
  // offset of the line terminator (or end of text)
  let e = line + 1 < starts.length ? starts[line + 1] : text.length;
  if (line + 1 < starts.length) {
    e--; // the terminator's last unit
    if (text.charCodeAt(e) === 10 && e > starts[line] && text.charCodeAt(e - 1) === 13) e--;
  }
  return e;
}
function toOffset(text, starts, line, col) {
  if (line < 0 || col < 0 || line >= starts.length) return -1;
  const e = lineEnd(text, starts, line);
  const off = starts[line] + col;
  // a position on the terminator itself (CR of CR LF) or beyond is out of range;
  // the position just after the last character of the line is allowed
  if (off > e) return -1;
  return off;
}
function toLineCol(starts, off) {
  let lo = 0, hi = starts.length - 1;
  while (lo < hi) { const mid = (lo + hi + 1) >> 1; if (starts[mid] <= off) lo = mid; else hi = mid - 1; }
  return [lo, off - starts[lo]];
}

// ---- tokens -----------------------------------------------------------------
// token starts (offset -> {t: kind, x: text}); comments are included as kind 'comment'
function tokenize(text) {
  const toks = new Map();
  let error = null;
  let body = text, base = 0;
  try {
    const tk = acorn.tokenizer(body, {
      ecmaVersion: 'latest', sourceType: 'module', allowHashBang: true,
      onComment: (block, t, start, end) => { toks.set(start + base, { t: 'comment', x: body.slice(start, end), e: end + base }); },
    });
    for (let tok = tk.getToken(); tok.type !== acorn.tokTypes.eof; tok = tk.getToken()) {
      let kind = 'punct';
      const ty = tok.type;
      if (ty === acorn.tokTypes.name || ty === acorn.tokTypes.privateId) kind = 'ident';
      else if (ty === acorn.tokTypes.string) kind = 'string';
      else if (ty === acorn.tokTypes.template) kind = 'template';
      else if (ty === acorn.tokTypes.num || ty === acorn.tokTypes.regexp) kind = 'literal';
      else if (ty.keyword) kind = 'keyword';
      if (kind === 'template' && tok.end === tok.start) continue; // empty template chunk
      toks.set(tok.start + base, { t: kind, x: body.slice(tok.start, tok.end), e: tok.end + base });
    }
  } catch (e) { error = String(e && e.message || e); }
  return { toks, error };
}

const MARK = /^(?:[`'"#.]|\$\{)?(mk_\d+(?:_[A-Za-z0-9]+)?)/;
function markerAt(text, off) {
  const m = MARK.exec(text.slice(off, off + 48));
  return m ? m[1] : null;
}
function isBlank(c) { return c === 32 || c === 9; }
function isNL(c) { return c === 10 || c === 13 || c === 0x2028 || c === 0x2029; }

// sources are shared by the outputs of one scenario: tokenise each text once
const SRC_CACHE = new Map();
// TypeScript / TSX originals cannot be tokenised by acorn: the token that starts
// at a position is read off the text there (identifier run that does not continue
// one, quoted string, number, or a single punctuation character)
function looseTokenAt(text, o) {
  const c = text[o];
  if (c === undefined || /\s/.test(c)) return undefined;
  if (/[A-Za-z_$]/.test(c)) {
    if (o > 0 && /[A-Za-z0-9_$]/.test(text[o - 1])) return undefined;
    const m = /^[A-Za-z_$][A-Za-z0-9_$]*/.exec(text.slice(o, o + 120));
    return { t: 'ident', x: m[0], e: o + m[0].length };
  }
  if (c === '"' || c === "'") { const j = text.indexOf(c, o + 1); return j < 0 ? undefined : { t: 'string', x: text.slice(o, j + 1), e: j + 1 }; }
  if (/[0-9]/.test(c)) { if (o > 0 && /[A-Za-z0-9_$.]/.test(text[o - 1])) return undefined; const m = /^[0-9.]+/.exec(text.slice(o, o + 40)); return { t: 'literal', x: m[0], e: o + m[0].length }; }
  return { t: 'punct', x: c, e: o + 1 };
}
function sourceInfo(t, loose) {
  if (loose) return { text: t, starts: lineStarts(t), tok: { toks: { get: o => looseTokenAt(t, o) }, error: null } };
  let v = SRC_CACHE.get(t);
  if (!v) {
    v = { text: t, starts: lineStarts(t), tok: tokenize(t) };
    if (SRC_CACHE.size > 64) SRC_CACHE.clear();
    SRC_CACHE.set(t, v);
  }
  return v;
}

// ---- one job ----------------------------------------------------------------
function checkJob(job) {
  const errors = [], stats = { mappings: 0, with_source: 0, marker_true: 0, name_true: 0, cover: 0, plain_same: 0, plain_diff: 0, blank_skips: 0, newline_skips: 0, paren_skips: 0, gen_markers: 0, gen_markers_mapped: 0, sources: 0, dup_gen: 0, lines: 0, null_content: 0, renamed_unverified: 0, compose_not_decidable: 0, compose_true: 0, compose_unmapped_ok: 0, inexact_skipped: 0 };
  const err = (kind, msg, extra) => { if (errors.length < 40) errors.push(Object.assign({ kind, msg }, extra || {})); };
  const opts = job.opts || {}, expect = job.expect || {};
  let map;
  try { map = JSON.parse(job.map); } catch (e) { err('json', 'the map is not JSON: ' + e.message); return { id: job.id, errors, stats }; }
  if (map === null || typeof map !== 'object') { err('json', 'the map is not an object'); return { id: job.id, errors, stats }; }
  if (map.version !== 3) err('version', `version is ${JSON.stringify(map.version)}, not 3`);
  if (typeof map.mappings !== 'string') { err('shape', 'mappings is not a string'); return { id: job.id, errors, stats }; }
  if (!Array.isArray(map.sources) || !map.sources.every(s => typeof s === 'string')) { err('shape', 'sources is not an array of strings'); return { id: job.id, errors, stats }; }
  if (!Array.isArray(map.names) || !map.names.every(s => typeof s === 'string')) { err('shape', 'names is not an array of strings'); return { id: job.id, errors, stats }; }
  stats.sources = map.sources.length;
  if ('sourceRoot' in expect) {
    const want = expect.sourceRoot || undefined;
    if (map.sourceRoot !== want) err('source-root', `sourceRoot is ${JSON.stringify(map.sourceRoot)}, expected ${JSON.stringify(want)}`);
  }
  // sources -> texts
  const files = job.files || {};
  const srcText = map.sources.map((s, i) => {
    if (!(s in files)) { err('unknown-source', `sources[${i}] = ${JSON.stringify(s)} does not name an input file (known: ${Object.keys(files).join(', ')})`); return null; }
    return files[s];
  });
  if (new Set(map.sources).size !== map.sources.length) err('duplicate-source', 'sources lists one file twice: ' + JSON.stringify(map.sources));
  if (expect.sourcesContent === true) {
    if (!Array.isArray(map.sourcesContent) || map.sourcesContent.length !== map.sources.length) err('sources-content', 'sourcesContent is missing or has the wrong length');
    else map.sourcesContent.forEach((c, i) => { if (c === null && (expect.nullContent || []).includes(map.sources[i])) { stats.null_content++; return; } if (srcText[i] !== null && c !== srcText[i]) err('sources-content', `sourcesContent[${i}] differs from the text of ${map.sources[i]}`, { got: typeof c === 'string' ? c.slice(0, 80) : c }); });
  } else if (expect.sourcesContent === false) {
    if ('sourcesContent' in map) err('sources-content', 'sourcesContent present although it was switched off');
  }
  // "sources" is the concatenation of the files' own source lists (one entry for a
  // plain file, the input map's sources for a file that carries one)
  if (expect.groups) {
    let total = 0;
    for (const g of expect.groups) {
      total += g.sources.length;
      const i0 = map.sources.indexOf(g.sources[0]);
      if (i0 < 0) { err('sources-not-concatenation', `the sources of ${g.file} are missing: ${JSON.stringify(g.sources)} not in ${JSON.stringify(map.sources)}`); continue; }
      for (let j = 0; j < g.sources.length; j++) if (map.sources[i0 + j] !== g.sources[j]) { err('sources-not-concatenation', `the sources of ${g.file} must be the contiguous run ${JSON.stringify(g.sources)} but sources is ${JSON.stringify(map.sources)}`); break; }
    }
    if (map.sources.length !== total) err('sources-not-concatenation', `sources has ${map.sources.length} entries, the files contribute ${total}: ${JSON.stringify(map.sources)}`);
  }
  const dec = decodeMappings(map.mappings);
  for (const e of dec.errors) err(e.kind, e.msg);
  const maps = dec.maps;
  stats.mappings = maps.length;
  // ---- composition through input source maps -----------------------------------
  // For a generated marker token that comes from an intermediate file (a file
  // with an input map), the composed original position is what the input map
  // says about the position of that token in the intermediate text: the LAST
  // segment on that line whose column is <= the token's column (SourceMap.tla
  // RefFind); a 1-field segment or no segment at all means "not mapped".
  const inters = (job.inter || []).map(I => {
    const tk = tokenize(I.text), starts = lineStarts(I.text);
    const byMarker = new Map();
    for (const [off, t] of tk.toks) { if (t.t === 'comment') continue; const mk = markerAt(I.text, off); if (mk) { if (!byMarker.has(mk)) byMarker.set(mk, []); byMarker.get(mk).push(off); } }
    if (I.plain) return { I, starts, byMarker, byLine: null, names: [], tokErr: tk.error, decErr: 0 };
    const im = JSON.parse(I.map), d = decodeMappings(im.mappings);
    const byLine = new Map();
    for (const sg of d.maps) { if (!byLine.has(sg.gl)) byLine.set(sg.gl, []); byLine.get(sg.gl).push(sg); }
    return { I, starts, byMarker, byLine, names: im.names || [], tokErr: tk.error, decErr: d.errors.length };
  });
  for (const X of inters) if (X.tokErr || X.decErr) return { id: job.id, errors, stats, infra: `cannot use the intermediate file ${X.I.file}: ${X.tokErr || 'undecodable input map'}` };
  const refFind = (X, line, col) => { let best = null; for (const sg of (X.byLine.get(line) || [])) if (sg.gc <= col && (best === null || sg.gc >= best.gc)) best = sg; return best; };
  // every place where a marker stands in the files esbuild read, with what the
  // composed mapping of a token there must be (null: not mapped)
  const expectedFor = mk => {
    const out = [];
    for (const X of inters) for (const off of (X.byMarker.get(mk) || [])) {
      const [l, c] = toLineCol(X.starts, off);
      if (X.I.plain) out.push({ X, l, c, to: { src: X.I.sources[0], ol: l, oc: c, name: null } });
      else { const sg = refFind(X, l, c); out.push({ X, l, c, sg, to: sg && sg.n >= 4 ? { src: X.I.sources[sg.src], ol: sg.ol, oc: sg.oc, name: sg.n === 5 ? X.names[sg.name] : null } : null }); }
    }
    return out;
  };
  const perSourceCompose = map.sources.map(() => 0);
  const anyRenaming = inters.some(X => X.I.renames);
  const code = job.code;
  const gStarts = lineStarts(code);
  stats.lines = gStarts.length;
  const gTok = tokenize(code);
  if (gTok.error) return { id: job.id, errors, stats, infra: 'cannot tokenise the generated code: ' + gTok.error };
  const sInfo = srcText.map(t => t === null ? null : sourceInfo(t, !!opts.looseSources));
  for (let i = 0; i < sInfo.length; i++) if (sInfo[i] && sInfo[i].tok.error) return { id: job.id, errors, stats, infra: `cannot tokenise ${map.sources[i]}: ${sInfo[i].tok.error}` };
  // the number of ';' must not exceed the number of lines of the generated code
  let maxLine = 0;
  for (const m of maps) if (m.gl > maxLine) maxLine = m.gl;
  let prev = null;
  const mappedGen = new Set();
  const perSourceTrue = map.sources.map(() => 0);
  const out = [];
  for (let k = 0; k < maps.length; k++) {
    const m = maps[k];
    const where = `mapping #${k} gen ${m.gl}:${m.gc}` + (m.n >= 4 ? ` -> ${map.sources[m.src]}@${m.ol}:${m.oc}` : '');
    if (m.gc < 0) err('negative', `${where}: negative generated column`);
    if (prev && prev.gl === m.gl) {
      if (m.gc < prev.gc) err('unsorted', `${where}: generated column goes backwards (previous ${prev.gc})`);
      else if (m.gc === prev.gc) stats.dup_gen++;
    }
    const p = prev; prev = m;
    const g = toOffset(code, gStarts, m.gl, m.gc);
    if (g < 0) { err('gen-range', `${where}: generated position is outside the generated text`); continue; }
    if (m.n < 4) { if (opts.dump) out.push({ m, gen: code.slice(g, g + 16) }); continue; }
    stats.with_source++;
    if (m.src < 0 || m.src >= map.sources.length) { err('source-index', `${where}: source index ${m.src} out of range`); continue; }
    if (m.ol < 0 || m.oc < 0) { err('negative', `${where}: negative original position`); continue; }
    if (m.n === 5 && (m.name < 0 || m.name >= map.names.length)) { err('name-index', `${where}: name index ${m.name} out of range`); continue; }
    const S = sInfo[m.src];
    if (!S) continue;
    const o = toOffset(S.text, S.starts, m.ol, m.oc);
    if (o < 0) { err('orig-range', `${where}: original position is outside the text of ${map.sources[m.src]}`); continue; }
    // generated token: first token after blanks (see header)
    let g2 = g, skippedNL = false;
    while (g2 < code.length && isBlank(code.charCodeAt(g2))) g2++;
    if (g2 < code.length && isNL(code.charCodeAt(g2)) && !gTok.toks.has(g2)) {
      let g3 = g2;
      while (g3 < code.length && (isBlank(code.charCodeAt(g3)) || isNL(code.charCodeAt(g3)))) g3++;
      skippedNL = true; g2 = g3;
    }
    const gt = gTok.toks.get(g2);
    const ot = S.tok.toks.get(o);
    const isCover = m.gc === 0 && m.n === 4 && p && p.n >= 4 && p.src === m.src && p.ol === m.ol && p.oc === m.oc;
    if (opts.dump) out.push({ m, gen: code.slice(g, g + 16), orig: S.text.slice(o, o + 16), name: m.n === 5 ? map.names[m.name] : undefined, gt: gt && gt.t, ot: ot && ot.t, cover: isCover });
    // a cover mapping is exempt from the truth check (it repeats the previous original position by design)
    let exempted = false;
    const bad = (kind, msg, extra) => { if (isCover) exempted = true; else err(kind, msg, extra); };
    if (!ot) { bad('orig-not-token', `${where}: no token starts at the original position (text there: ${JSON.stringify(S.text.slice(Math.max(0, o - 6), o))}|${JSON.stringify(S.text.slice(o, o + 16))})`, { map: m }); if (exempted) stats.cover++; continue; }
    if (!gt) { bad('gen-not-token', `${where}: no token starts at the generated position (text there: ${JSON.stringify(code.slice(Math.max(0, g - 6), g))}|${JSON.stringify(code.slice(g, g + 16))})`, { map: m }); if (exempted) stats.cover++; continue; }
    if (g2 !== g) { if (skippedNL) stats.newline_skips++; else stats.blank_skips++; }
    const mo = markerAt(S.text, o);
    let mg = markerAt(code, g2);
    if (mo !== null && mg === null && gt.x === '(' && ot.x !== '(') {
      // inserted parenthesis: the token meant is the one after it
      let g4 = gt.e;
      while (g4 < code.length && (isBlank(code.charCodeAt(g4)) || isNL(code.charCodeAt(g4)))) g4++;
      if (gTok.toks.has(g4) && markerAt(code, g4) !== null) { mg = markerAt(code, g4); stats.paren_skips++; }
    }
    // composition oracle (decided by the GENERATED token: where its marker stands in the files esbuild read)
    let inexact = false;
    // (a use of an aliased import is printed with the name of the declaration)
    const cands = mg !== null && inters.length ? [mg].concat(Object.keys(job.aliases || {}).filter(a => job.aliases[a] === mg)).flatMap(expectedFor) : [];
    if (cands.some(x => !x.X.I.plain)) {
      inexact = cands.some(x => !x.X.I.exact);
      const hit = cands.find(x => x.to && x.to.src === map.sources[m.src] && x.to.ol === m.ol && x.to.oc === m.oc);
      const desc = cands.map(x => `${x.X.I.file} ${x.l}:${x.c} => ${x.to ? x.to.src + '@' + x.to.ol + ':' + x.to.oc : (x.sg ? 'unmapped (1-field segment)' : 'unmapped (no segment)')}`).join('; ');
      if (hit) {
        stats.compose_true++; perSourceCompose[m.src]++;
        if (hit.to.name !== null && !(m.n === 5 && map.names[m.name] === hit.to.name)) err('compose-name', `${where}: the input map of ${hit.X.I.file} records the name ${JSON.stringify(hit.to.name)} for this position, the final map ${m.n === 5 ? 'records ' + JSON.stringify(map.names[m.name]) : 'records none'}`, { map: m });
      } else if (!isCover) {
        if (cands.every(x => !x.to)) {
          const after1 = cands.some(x => x.sg && x.sg.n === 1);
          err(after1 ? 'compose-after-unmapped-segment' : 'compose-unmapped-line', `${where}: the generated token ${JSON.stringify(gt.x)} stands where the input map does not map it, but the final map maps it (${desc})`, { map: m, gen_marker: mg });
        } else if (anyRenaming && /^mk_\d+_/.test(mg)) stats.compose_not_decidable++; // a first stage renamed identifiers: the intermediate token of this identifier may be no marker
        else err('compose-mismatch', `${where}: the generated token ${JSON.stringify(gt.x)} must map to one of: ${desc}`, { map: m, gen_marker: mg });
      }
    } else if (mg === null && inters.some(X => !X.I.exact && X.I.sources.includes(map.sources[m.src]))) inexact = true;
    if (inexact) { stats.inexact_skipped++; continue; } // token-level truth is not defined through a coarse input map
    let nameOK = false;
    if (m.n === 5) {
      const nm = map.names[m.name];
      if ((ot.t === 'ident' || ot.t === 'keyword') && ot.x !== nm && (job.aliases || {})[ot.x] === nm) {
        // the name of the imported binding's DECLARATION is recorded, not the local alias written at this position
        bad('name-alias', `${where}: recorded name ${JSON.stringify(nm)} but the original identifier there is the import alias ${JSON.stringify(ot.x)}`, { map: m });
        nameOK = true; // the generated token is still the renamed image of this identifier
      } else if (ot.t === 'ident' && ot.x !== nm && (job.renamed || []).includes(ot.x) && !/^mk_\d+/.test(nm)) {
        // same cause: the declaration lives in a file whose first stage renamed it; its intermediate name is recorded
        bad('name-alias', `${where}: recorded name ${JSON.stringify(nm)} is the intermediate name of the imported declaration, the original identifier there is ${JSON.stringify(ot.x)}`, { map: m });
        nameOK = true;
      } else if (ot.t !== 'ident' && ot.t !== 'keyword' || ot.x !== nm) bad('name-untrue', `${where}: recorded name ${JSON.stringify(nm)} but the original token there is ${JSON.stringify(ot.x)}`, { map: m });
      else { nameOK = true; stats.name_true++; }
    }
    if (mo !== null) {
      const alias = (job.aliases || {})[mo];
      if (mg === mo || (alias !== undefined && mg === alias)) { stats.marker_true++; perSourceTrue[m.src]++; mappedGen.add(g2); }
      else if (mg === null && nameOK && gt.t === 'ident') { stats.marker_true++; perSourceTrue[m.src]++; mappedGen.add(g2); }
      else if (mg === null && gt.t === 'ident' && (job.renamed || []).includes(mo)) stats.renamed_unverified++; // bound to a declaration that a first stage renamed: printed with the intermediate name
      else bad('untrue', `${where}: original token ${JSON.stringify(ot.x)} but the generated token is ${JSON.stringify(gt.x)}` + (m.n === 5 ? ` (name ${JSON.stringify(map.names[m.name])})` : ''), { map: m, orig_marker: mo, gen_marker: mg });
    } else {
      if (mg !== null) bad('untrue', `${where}: original token ${JSON.stringify(ot.x)} is not a marker but the generated token is the marker ${JSON.stringify(gt.x)}`, { map: m, orig_marker: mo, gen_marker: mg });
      else if (gt.x === ot.x) stats.plain_same++; else stats.plain_diff++;
    }
    if (exempted) stats.cover++;
  }
  // coverage of marker tokens of the generated code (statistic + vacuity guard)
  for (const [off, t] of gTok.toks) {
    if (t.t === 'comment') continue;
    if (markerAt(code, off) !== null) { stats.gen_markers++; if (mappedGen.has(off)) stats.gen_markers_mapped++; }
  }
  if (expect.everySourceMapped) perSourceTrue.forEach((c, i) => { if (c + perSourceCompose[i] === 0 && sInfo[i]) err('no-true-mapping', `no mapping points at a marker of ${map.sources[i]}`); });
  if (expect.minSources && map.sources.length < expect.minSources) err('missing-source', `only ${map.sources.length} sources, expected at least ${expect.minSources}`);
  const res = { id: job.id, errors, stats };
  if (opts.dump) res.dump = out;
  if (opts.wantMappings) res.mappings = maps.map(m => m.n >= 4 ? [m.gl, m.gc, m.src, m.ol, m.oc, m.n === 5 ? m.name : -1] : [m.gl, m.gc, -1, -1, -1, -1]);
  if (opts.wantSegs) res.segs = dec.segs.map(s => s === null ? [] : s);
  if (opts.wantSources) res.sources = map.sources;
  return res;
}

// ---- re-basing relation (bundle vs stand-alone build of the same file) -------
// job: {id, kind:'rebase', bundle:{code,map}, alone:[{source, code, map}]}
// For every file that was also built alone: its mappings in the bundle must be
// its stand-alone mappings moved by the (text-derived) start offset of its code
// in the bundle.  Also emits the instance record (chunks, offsets, real delta
// stream) that TLC validates against SourceMap.tla (SourceMapState.tla).
function refOffset(text, from, to) {
  // (line breaks, columns) of text[from,to) with the semantics of LineColumnOffset.Add
  let lines = 0, last = from;
  for (let i = from; i < to; i++) {
    const c = text.charCodeAt(i);
    if (c === 10 || c === 0x2028 || c === 0x2029) { lines++; last = i + 1; }
    else if (c === 13) { if (i + 1 < to && text.charCodeAt(i + 1) === 10) i++; lines++; last = i + 1; }
  }
  return [lines, to - last];
}
function rebaseJob(job) {
  const errors = [], skipped = [];
  const err = (kind, msg, extra) => { if (errors.length < 20) errors.push(Object.assign({ kind, msg }, extra || {})); };
  const bmap = JSON.parse(job.bundle.map), bcode = job.bundle.code;
  const bdec = decodeMappings(bmap.mappings);
  if (bdec.errors.length) return { id: job.id, errors: [], skipped: ['bundle map undecodable'], compared: 0 };
  const bstarts = lineStarts(bcode);
  const boff = m => toOffset(bcode, bstarts, m.gl, m.gc);
  // the files of the bundle and the sources each contributes (by NAME); the place
  // of a file's first source in the real "sources" array is its real base
  const groups = job.groups || [];
  const fileOfSrc = bmap.sources.map(() => -1), realBase = [];
  groups.forEach((g, fi) => {
    realBase[fi] = bmap.sources.indexOf(g.sources[0]);
    g.sources.forEach(sn => { const i = bmap.sources.indexOf(sn); if (i >= 0) fileOfSrc[i] = fi; });
  });
  // mappings of the bundle per file, in order
  const per = groups.map(() => []);
  let contiguous = true, lastFile = -1; const seen = new Set();
  for (const m of bdec.maps) {
    if (m.n < 4) { contiguous = false; continue; }
    const fi = m.src >= 0 && m.src < fileOfSrc.length ? fileOfSrc[m.src] : -1;
    if (fi < 0) { contiguous = false; continue; }
    if (fi !== lastFile) { if (seen.has(fi)) contiguous = false; seen.add(fi); lastFile = fi; }
    per[fi].push(m);
  }
  let compared = 0;
  const aloneBy = {};
  for (const a of job.alone) {
    const amap = JSON.parse(a.map), acode = a.code;
    const adec = decodeMappings(amap.mappings);
    const astarts = lineStarts(acode);
    const am = adec.maps.filter(m => m.n >= 4);
    const want = a.sources || [a.source];
    if (adec.errors.length || am.length === 0 || amap.sources.length !== want.length || amap.sources.some((x, j) => x !== want[j])) { skipped.push(a.source + ': stand-alone map unusable'); continue; }
    const aoff = m => toOffset(acode, astarts, m.gl, m.gc);
    const pa = aoff(am[0]), pz = aoff(am[am.length - 1]) + 1;
    if (pa < 0 || pz <= pa) { skipped.push(a.source + ': stand-alone positions out of range'); continue; }
    const text = acode.slice(pa, pz);
    const idx = bcode.indexOf(text);
    if (idx < 0 || bcode.indexOf(text, idx + 1) >= 0) { skipped.push(a.source + ': stand-alone text not found exactly once in the bundle'); continue; }
    const fi = groups.findIndex(g => g.sources[0] === want[0]);
    const base = fi >= 0 ? realBase[fi] : -1;
    if (base < 0 || want.some((x, j) => bmap.sources[base + j] !== x)) { err('rebase-missing-source', `the sources of ${a.source} (${JSON.stringify(want)}) are not a contiguous run of the sources of the bundle map ${JSON.stringify(bmap.sources)}`); continue; }
    const bm = per[fi];
    aloneBy[fi] = { am, acode, astarts, pa, pz, names: amap.names };
    if (bm.length !== am.length) { err('rebase-count', `${a.source}: ${am.length} mappings alone but ${bm.length} mappings of the bundle name its sources`); continue; }
    for (let i = 0; i < am.length; i++) {
      const x = am[i], y = bm[i];
      const wantOff = aoff(x) - pa + idx, got = boff(y);
      const xn = x.n === 5 ? amap.names[x.name] : null, yn = y.n === 5 ? bmap.names[y.name] : null;
      if (wantOff !== got || x.src + base !== y.src || x.ol !== y.ol || x.oc !== y.oc || xn !== yn) {
        const wlc = toLineCol(bstarts, wantOff);
        err('rebase-mismatch', `${a.source} mapping #${i}: alone gen ${x.gl}:${x.gc} -> source ${x.src} ${x.ol}:${x.oc}; re-based by the start offset and the file's source index base ${base} it must be at bundle ${wlc[0]}:${wlc[1]} -> source ${x.src + base}, but the bundle map has ${y.gl}:${y.gc} -> source ${y.src} ${y.ol}:${y.oc}` + (xn !== yn ? ` (names ${xn} / ${yn})` : ''), { source: a.source, index: i });
        break;
      }
      compared++;
    }
  }
  // instance record for TLC (only when every file forms one contiguous run)
  let record = null;
  if (contiguous && errors.length === 0 && bdec.maps.length > 0 && bdec.maps.length <= 900) {
    const order = []; for (const m of bdec.maps) { const fi = fileOfSrc[m.src]; if (!order.includes(fi)) order.push(fi); }
    const chunks = []; let q = 0, okRec = true;
    for (const fi of order) {
      const bm = per[fi], base = realBase[fi], k = groups[fi].sources.length;
      const first = boff(bm[0]), end = boff(bm[bm.length - 1]) + 1;
      if (first < 0 || end < 0 || first < q || base < 0) { okRec = false; break; }
      let maps, lines, fcol;
      const rel = (ms, starts, offOf, names, sbase) => {
        const [l0, c0] = toLineCol(starts, offOf(ms[0]));
        const local = new Map();
        return ms.map(m => {
          let nm = -1;
          if (m.n === 5) { const t = names[m.name]; if (!local.has(t)) local.set(t, local.size); nm = local.get(t); }
          return [m.gl - l0, m.gl === l0 ? m.gc - c0 : m.gc, m.ol, m.oc, nm, m.src - sbase];
        });
      };
      const al = aloneBy[fi];
      if (al) { maps = rel(al.am, al.astarts, m => toOffset(al.acode, al.astarts, m.gl, m.gc), al.names, 0); [lines, fcol] = refOffset(al.acode, al.pa, al.pz); }
      else { maps = rel(bm, bstarts, boff, bmap.names, base); [lines, fcol] = refOffset(bcode, first, end); }
      if (maps.some(x => x[5] < 0 || x[5] >= k)) { okRec = false; break; }
      const [offl, offc] = refOffset(bcode, q, first);
      // file: identity of the file; nsrc: how many sources it contributes (the length
      // of its own source list); realbase: where its first source stands in the real array
      chunks.push({ maps, lines, fcol, offl, offc, file: fi + 1, nsrc: k, realbase: base, alone: !!al });
      q = end;
    }
    if (okRec) record = { id: job.id, chunks, nsources: bmap.sources.length, segs: bdec.segs.map(x => x === null ? [] : x) };
  }
  return { id: job.id, errors, skipped, compared, record };
}

// ---- CSS ---------------------------------------------------------------------
// job: {id, kind:'css', code, map, files, expect}.  Tokens are read off the text: a
// marker token is a class / id selector, custom property, keyframes / animation
// name, string or url body that carries a marker.
const CSSMARK = /^(?:[.#"']|--|::?)?(mk_\d+(?:_[A-Za-z0-9]+)?)/;
function cssMarkerAt(text, off) { const m = CSSMARK.exec(text.slice(off, off + 48)); return m ? m[1] : null; }
function cssTokenStart(text, off) {
  // a position where a CSS token can start: not inside a word
  if (off >= text.length) return false;
  const c = text[off];
  if (/\s/.test(c)) return false;
  if (/[A-Za-z0-9_-]/.test(c) && off > 0 && /[A-Za-z0-9_-]/.test(text[off - 1])) return false;
  return true;
}
function checkCss(job) {
  const errors = [], stats = { mappings: 0, with_source: 0, css_marker_true: 0, css_plain: 0, cover: 0, sources: 0, gen_markers: 0, gen_markers_mapped: 0 };
  const err = (kind, msg, extra) => { if (errors.length < 40) errors.push(Object.assign({ kind, msg }, extra || {})); };
  const expect = job.expect || {};
  let map;
  try { map = JSON.parse(job.map); } catch (e) { err('json', 'the map is not JSON: ' + e.message); return { id: job.id, errors, stats }; }
  if (map.version !== 3) err('version', `version is ${JSON.stringify(map.version)}, not 3`);
  if (typeof map.mappings !== 'string' || !Array.isArray(map.sources) || !Array.isArray(map.names)) { err('shape', 'mappings / sources / names have the wrong type'); return { id: job.id, errors, stats }; }
  stats.sources = map.sources.length;
  const files = job.files || {};
  const srcText = map.sources.map((s, i) => { if (!(s in files)) { err('unknown-source', `sources[${i}] = ${JSON.stringify(s)} does not name an input file (known: ${Object.keys(files).join(', ')})`); return null; } return files[s]; });
  if (new Set(map.sources).size !== map.sources.length) err('duplicate-source', 'sources lists one file twice: ' + JSON.stringify(map.sources));
  if (expect.sourcesContent === true) {
    if (!Array.isArray(map.sourcesContent) || map.sourcesContent.length !== map.sources.length) err('sources-content', 'sourcesContent is missing or has the wrong length');
    else map.sourcesContent.forEach((c, i) => { if (srcText[i] !== null && c !== srcText[i]) err('sources-content', `sourcesContent[${i}] differs from the text of ${map.sources[i]}`); });
  } else if (expect.sourcesContent === false && 'sourcesContent' in map) err('sources-content', 'sourcesContent present although it was switched off');
  if (expect.groups) {
    let total = 0;
    for (const g of expect.groups) {
      total += g.sources.length;
      const i0 = map.sources.indexOf(g.sources[0]);
      if (i0 < 0) { err('sources-not-concatenation', `the sources of ${g.file} are missing: ${JSON.stringify(g.sources)} not in ${JSON.stringify(map.sources)}`); continue; }
      for (let j = 0; j < g.sources.length; j++) if (map.sources[i0 + j] !== g.sources[j]) { err('sources-not-concatenation', `the sources of ${g.file} must be the contiguous run ${JSON.stringify(g.sources)} but sources is ${JSON.stringify(map.sources)}`); break; }
    }
    if (map.sources.length !== total) err('sources-not-concatenation', `sources has ${map.sources.length} entries, the files contribute ${total}: ${JSON.stringify(map.sources)}`);
  }
  const dec = decodeMappings(map.mappings);
  for (const e of dec.errors) err(e.kind, e.msg);
  const code = job.code, gStarts = lineStarts(code);
  const sStarts = srcText.map(t => t === null ? null : lineStarts(t));
  const perSourceTrue = map.sources.map(() => 0);
  const mappedGen = new Set();
  let prev = null;
  stats.mappings = dec.maps.length;
  dec.maps.forEach((m, k) => {
    const where = `mapping #${k} gen ${m.gl}:${m.gc}` + (m.n >= 4 ? ` -> ${map.sources[m.src]}@${m.ol}:${m.oc}` : '');
    if (prev && prev.gl === m.gl && m.gc < prev.gc) err('unsorted', `${where}: generated column goes backwards (previous ${prev.gc})`);
    const p = prev; prev = m;
    const g = toOffset(code, gStarts, m.gl, m.gc);
    if (g < 0) { err('gen-range', `${where}: generated position is outside the generated text`); return; }
    if (m.n < 4) return;
    stats.with_source++;
    if (m.src < 0 || m.src >= map.sources.length) { err('source-index', `${where}: source index ${m.src} out of range`); return; }
    if (m.ol < 0 || m.oc < 0) { err('negative', `${where}: negative original position`); return; }
    if (srcText[m.src] === null) return;
    const T = srcText[m.src];
    const o = toOffset(T, sStarts[m.src], m.ol, m.oc);
    if (o < 0) { err('orig-range', `${where}: original position is outside the text of ${map.sources[m.src]}`); return; }
    const isCover = m.gc === 0 && p && p.n >= 4 && p.src === m.src && p.ol === m.ol && p.oc === m.oc;
    if (isCover) { stats.cover++; return; }
    let g2 = g;
    while (g2 < code.length && /\s/.test(code[g2])) g2++;
    const mo = cssMarkerAt(T, o), mg = cssMarkerAt(code, g2);
    const gtxt = code.slice(g2, g2 + 24), otxt = T.slice(o, o + 24);
    // two defects of the unchanged tree with their own kinds (known_findings.jsonl):
    // a box shorthand re-created by the minifier (margin: 0 0 0 0 -> margin:0) is
    // located at offset 0 of its file; the wrapper generated from the conditions of
    // an @import (@media screen{...}) carries offsets of the IMPORTING file but is
    // mapped through the imported file's line table and source index
    if (/^margin\b/.test(gtxt) && !/^margin\b/.test(otxt)) { err('css-compacted-box-loc', `${where}: the compacted declaration ${JSON.stringify(gtxt)} is mapped to ${JSON.stringify(otxt)}`, { map: m }); return; }
    if (expect.importConditions && /^(@media\b|screen\b|print\b)/.test(gtxt) && !/^(@media\b|screen\b|print\b)/.test(otxt)) { err('css-import-condition-loc', `${where}: the wrapper text ${JSON.stringify(gtxt)} generated from an @import condition is mapped to ${JSON.stringify(otxt)}`, { map: m }); return; }
    if (mo !== null || mg !== null) {
      if (mo === mg) { stats.css_marker_true++; perSourceTrue[m.src]++; mappedGen.add(g2); }
      else err('untrue', `${where}: original text ${JSON.stringify(T.slice(o, o + 24))} but generated text ${JSON.stringify(code.slice(g2, g2 + 24))}`, { map: m, orig_marker: mo, gen_marker: mg });
      return;
    }
    if (!cssTokenStart(T, o)) { err('orig-not-token', `${where}: no token starts at the original position (${JSON.stringify(T.slice(Math.max(0, o - 6), o))}|${JSON.stringify(T.slice(o, o + 16))})`, { map: m }); return; }
    if (!cssTokenStart(code, g2)) { err('gen-not-token', `${where}: no token starts at the generated position (${JSON.stringify(code.slice(Math.max(0, g2 - 6), g2))}|${JSON.stringify(code.slice(g2, g2 + 16))})`, { map: m }); return; }
    stats.css_plain++;
  });
  // selectors / names that carry a marker in the generated text: how many are mapped (statistic)
  const re = /(?:[.#"']|--)mk_\d+/g; let mm;
  while ((mm = re.exec(code)) !== null) { stats.gen_markers++; if (mappedGen.has(mm.index)) stats.gen_markers_mapped++; }
  if (expect.everySourceMapped) perSourceTrue.forEach((c, i) => { if (c === 0 && srcText[i] !== null) err('no-true-mapping', `no mapping points at a marker of ${map.sources[i]}`); });
  return { id: job.id, errors, stats };
}

module.exports = { decodeMappings, lineStarts, toOffset, toLineCol, tokenize, markerAt, checkJob };

if (require.main === module) {
  let inp = '';
  process.stdin.setEncoding('utf8');
  process.stdin.on('data', d => { inp += d; }).on('end', () => {
    const req = JSON.parse(inp);
    const results = req.jobs.map(j => {
      try { return j.kind === 'rebase' ? rebaseJob(j) : j.kind === 'css' ? checkCss(j) : checkJob(j); } catch (e) { return { id: j.id, errors: [], stats: {}, infra: 'checker exception: ' + (e && e.stack || e) }; }
    });
    process.stdout.write(JSON.stringify({ results }));
  });
}
