// run_rename.js - executes marker programs of the C15 check in fresh vm
// contexts and reports what every reference saw.
//
// stdin : {"jobs":[{id, kind:"script"|"esm"|"cjs", files:{path:code}, entries:[path],
//                   globals:[free names], wnames:[names]|null, probes:[names], globalName:"",
//                   ftypes:{path:"esm"|"cjs"}, cjsNames:{path:[export names]}}]}
// stdout: {"results":[{id, imm:{ref:value}, def:{ref:value}, exports:{entry:{name:value}},
//                      probes:{name:value}, sites:{site:key}, error:""}]}
//
// Program conventions: __L(id, v, f) logs the value v a reference sees at once
// and registers f to read it again when the program has finished (all
// declarations initialised); __T(m, fn) tags a function/class with marker m;
// __W is the object of every "with" statement.  Free globals are defined under
// their own names with the value "G:<name>".
'use strict'
const vm = require('vm')
const path = require('path')

const JOB_TIMEOUT_MS = 60000

const HELPERS = `
(function (global, freeNames, wnames) {
  const MARKS = new WeakMap()
  const origEval = global.eval
  const LOG = { imm: {}, def: {}, pending: [] }
  function canon(v, depth) {
    if (v === undefined) return 'undefined'
    if (v === null) return 'null'
    if (typeof v === 'function') {
      if (MARKS.has(v)) return MARKS.get(v)
      if (v === origEval) return 'G:eval'
      if (Object.prototype.hasOwnProperty.call(v, 'm')) return v.m
      if ((depth || 0) > 2) return 'fn?'
      try { return canon(v(), (depth || 0) + 1) } catch (e) { return 'fn?' }
    }
    if (typeof v === 'object' && Object.prototype.toString.call(v) === '[object Arguments]')
      return 'ARGS:' + String(v[v.length - 1])
    if (typeof v === 'number' || typeof v === 'string' || typeof v === 'boolean') return v
    return String(v)
  }
  global.__L = function (id, v, f) { LOG.imm[id] = canon(v); LOG.pending.push([id, f]); return v }
  global.__T = function (m, fn) { if (m) MARKS.set(fn, m); return fn }
  const w = {}
  if (wnames) for (const n of wnames) w[n] = 'W:' + n
  global.__W = w
  for (const n of freeNames) if (n !== 'eval') global[n] = 'G:' + n
  global.__END = function () {
    for (const [id, f] of LOG.pending) {
      try { LOG.def[id] = canon(f()) } catch (e) { LOG.def[id] = '!' + (e && e.name) }
    }
    LOG.pending = []
    return JSON.stringify({ imm: LOG.imm, def: LOG.def })
  }
  // property sites (mangled properties): the key a site actually uses
  const SITES = {}
  global.__P = function (i) {
    return new Proxy({}, {
      get (t, k) { if (typeof k === 'string') SITES[i] = k; return function () {} },
      set (t, k, v) { if (typeof k === 'string') SITES[i] = k; return true },
      has (t, k) { if (typeof k === 'string') SITES[i] = k; return true }
    })
  }
  global.__K = function (i, o) { SITES[i] = Object.keys(o).join(','); return o }
  global.__STR = function (s) { return String(s) }
  // JSX twins: <X /> stands for __JSX(X, null); the "element" is the tag's value itself
  global.__JSX = function (tag) { return tag }
  // an object literal holding every property of a build: own-key count and sum of the values
  global.__O = function (o) {
    const ks = Object.keys(o)
    SITES.litKeys = String(ks.length)
    SITES.litSum = String(ks.reduce((a, k) => a + o[k], 0))
    return o
  }
  global.__SITES = function () { return JSON.stringify(SITES) }
  global.__CANON = function (f) { try { return canon(f()) } catch (e) { return '!' + (e && e.name) } }
})`

function errName(e) {
  if (e && typeof e === 'object' && 'name' in e) return String(e.name) + ': ' + String(e.message).slice(0, 200)
  return 'thrown: ' + String(e)
}

async function runJob(job) {
  const out = { id: job.id, imm: {}, def: {}, exports: {}, probes: {}, error: '' }
  const ctx = vm.createContext({})
  vm.runInContext(HELPERS, ctx)(vm.runInContext('globalThis', ctx), job.globals || [], job.wnames || null)
  const readExports = (entry, obj) => {
    const ex = {}
    if (obj && (typeof obj === 'object' || typeof obj === 'function')) {
      for (const k of Object.keys(obj)) {
        if (k === '__esModule') continue
        ctx.__TMP = obj
        ex[k] = vm.runInContext('__CANON(() => __TMP[' + JSON.stringify(k) + '])', ctx)
      }
    }
    out.exports[entry] = ex
  }
  try {
    if (job.kind === 'esm') {
      // A small reference loader: ES modules are vm.SourceTextModules; a CommonJS file
      // (job.ftypes[p] === 'cjs') runs once inside function (exports, module, require);
      // an ES module that imports it sees a synthetic module with the export names
      // job.cjsNames[p]; require() of an ES module evaluates it at once (all modules are
      // linked up front; evaluation of a module without top-level await is synchronous);
      // import() evaluates the module and resolves to its namespace.
      const ftypes = job.ftypes || {}
      const isCJS = (p) => ftypes[p] === 'cjs'
      const resolve = (spec, from) => path.posix.normalize(path.posix.join(path.posix.dirname(from), spec))
      const cache = new Map()
      const cjs = new Map()
      const dynamic = (from) => async (spec) => {
        const m = load(resolve(spec, from))
        if (m.status === 'linked') await m.evaluate()
        if (m.status === 'errored') throw m.error
        return m
      }
      const requireFrom = (from) => (spec) => {
        const p = resolve(spec, from)
        if (!(p in job.files)) throw new Error('module not found: ' + p)
        if (isCJS(p)) return runCJS(p)
        const m = load(p)
        if (m.status === 'linked') m.evaluate().catch(() => {})
        if (m.status === 'errored') throw m.error
        return m.namespace
      }
      const runCJS = (p) => {
        if (cjs.has(p)) return cjs.get(p).exports
        const module = vm.runInContext('({ exports: {} })', ctx)
        cjs.set(p, module)
        const fn = vm.runInContext('(function (exports, module, require) {' + job.files[p] + '\n})', ctx,
          { filename: p, importModuleDynamically: dynamic(p) })
        fn(module.exports, module, requireFrom(p))
        return module.exports
      }
      const load = (p) => {
        if (cache.has(p)) return cache.get(p)
        if (!(p in job.files)) throw new Error('module not found: ' + p)
        let m
        if (isCJS(p)) {
          const names = ((job.cjsNames || {})[p] || []).filter((n) => n !== 'default')
          m = new vm.SyntheticModule(names.concat(['default']), function () {
            const e = runCJS(p)
            for (const n of names) this.setExport(n, e[n])
            this.setExport('default', e)
          }, { context: ctx, identifier: p })
        } else {
          m = new vm.SourceTextModule(job.files[p], { context: ctx, identifier: p, importModuleDynamically: dynamic(p) })
        }
        cache.set(p, m)
        return m
      }
      const linker = (spec, ref) => load(resolve(spec, ref.identifier))
      ctx.require = requireFrom(job.entries[0]) // "require" inside an ES module file: a free name
      for (const p of Object.keys(job.files)) load(p) // syntax errors surface here, before linking
      for (const p of Object.keys(job.files)) {
        const m = load(p)
        if (m.status === 'unlinked') await m.link(linker)
      }
      for (const e of job.entries) {
        const m = load(e)
        if (m.status === 'linked') await m.evaluate()
        if (m.status === 'errored') throw m.error
        readExports(e, m.namespace)
      }
    } else {
      for (const e of job.entries) {
        if (job.kind === 'cjs') {
          vm.runInContext('var module = { exports: {} }; var exports = module.exports; var require = function (p) { throw new Error("require " + p) }', ctx)
        }
        vm.runInContext(job.files[e], ctx, { filename: e })
        if (job.kind === 'cjs') readExports(e, vm.runInContext('module.exports', ctx))
        else if (job.globalName) readExports(e, vm.runInContext('typeof ' + job.globalName + ' === "undefined" ? undefined : ' + job.globalName, ctx))
      }
    }
  } catch (e) {
    out.error = errName(e)
  }
  // let import().then(...) continuations run before the final reads
  await new Promise((resolve) => setImmediate(resolve))
  try {
    const logs = JSON.parse(vm.runInContext('__END()', ctx))
    out.imm = logs.imm
    out.def = logs.def
    out.sites = JSON.parse(vm.runInContext('__SITES()', ctx))
    for (const n of job.probes || []) {
      out.probes[n] = vm.runInContext('__CANON(() => ' + n + ')', ctx)
    }
  } catch (e) {
    out.error = out.error || ('harness: ' + errName(e))
  }
  return out
}

async function main() {
  let data = ''
  process.stdin.setEncoding('utf8')
  for await (const chunk of process.stdin) data += chunk
  const input = JSON.parse(data)
  const results = []
  for (const job of input.jobs) {
    // a job whose promise never settles (or that takes absurdly long) must not stall the batch
    let timer
    const guard = new Promise((resolve) => { timer = setTimeout(() => resolve({ id: job.id, imm: {}, def: {}, exports: {}, probes: {}, error: 'harness: TIMEOUT' }), JOB_TIMEOUT_MS) })
    try { results.push(await Promise.race([runJob(job), guard])) } catch (e) { results.push({ id: job.id, imm: {}, def: {}, exports: {}, probes: {}, error: 'harness: ' + errName(e) }) }
    clearTimeout(timer)
  }
  process.stdout.write(JSON.stringify({ results }))
}
process.on('unhandledRejection', () => {}) // a failed link of one job must not end the batch
main().catch((e) => { console.error(e); process.exit(1) })
