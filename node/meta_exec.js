// meta_exec.js: run emitted single-file bundles whose modules record their own
// path when they are evaluated and, for every import, the id of the module they
// really received (C19: the metafile's import edges against what the bundle
// loads).  stdin: {dir, items:[{id, format:"esm"|"cjs"|"iife", code}]}
// stdout: {results:[{id, ok, error?, ran:[path], edges:[[importer, specifier, kind, gotId|null]]}]}
'use strict';
const vm = require('vm');
const fs = require('fs');
const path = require('path');
const { pathToFileURL } = require('url');

globalThis.require = require; // the require() shim of iife/esm output falls back to a global require

async function runOne(item, dir, n) {
  const m = { ran: [], edges: [], mk: [] };
  globalThis.__m = m;
  const res = { id: item.id, ok: true, ran: [], edges: [] };
  try {
    if (item.format === 'esm') {
      const f = path.join(dir, 'x' + n + '.mjs');
      fs.writeFileSync(f, item.code);
      await import(pathToFileURL(f).href);
    } else if (item.format === 'cjs') {
      const fn = vm.runInThisContext('(function (require, module, exports) {' + item.code + '\n})', { filename: 'bundle' + n + '.js' });
      const mod = { exports: {} };
      fn(require, mod, mod.exports);
    } else {
      vm.runInThisContext(item.code, { filename: 'bundle' + n + '.js' });
    }
    // dynamic imports of bundled modules settle within a few turns
    for (let k = 0; k < 3; k++) await new Promise((r) => setImmediate(r));
  } catch (e) {
    res.ok = false; res.error = String(e && e.stack || e).slice(0, 600);
  }
  res.ran = m.ran.slice();
  res.edges = m.edges.map((e) => [e[0], e[1], e[2], typeof e[3] === 'string' ? e[3] : null]);
  return res;
}

let input = '';
process.stdin.setEncoding('utf8');
process.stdin.on('data', (d) => { input += d; });
process.stdin.on('end', async () => {
  const req = JSON.parse(input);
  fs.mkdirSync(req.dir, { recursive: true });
  const results = [];
  let n = 0;
  for (const item of req.items) results.push(await runOne(item, req.dir, n++));
  process.stdout.write(JSON.stringify({ results }));
});
