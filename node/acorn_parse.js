// acorn_parse.js — reference reader for C01/C13.
// stdin : {"items":[{"src":"...", "kind":"script"|"module", "want":"sexp"|"valid"|"both", "v8":bool}]}
// stdout: {"results":[{"acorn":bool, "sexp":"...", "aerr":"...", "v8":bool, "verr":"..."}]}
// Run with: node --expose-internals [--experimental-vm-modules] acorn_parse.js
//
// The S-expression is the normal form shared with spec/JsSyntax.tla (operator Sexp):
//   * parentheses are invisible (ESTree), nested comma sequences are flattened,
//     a parenthesised optional chain that is itself the object of an optional
//     link is merged ((a?.b)?.c == a?.b?.c), empty statements are dropped,
//   * literals are given by VALUE: (num <Object.is-precise>) (big <decimal>) (str <hex units>)
//     (re <hex source> <sorted flags>) (tpl c:<cooked hex> ... | exprs) ; tagged templates keep raw too.
'use strict';
const acorn = require('internal/deps/acorn/acorn/dist/acorn');
const vm = require('vm');

function hex(s) {
  if (s === null || s === undefined) return 'null';
  let o = [];
  for (let i = 0; i < s.length; i++) o.push(s.charCodeAt(i).toString(16).padStart(4, '0'));
  return o.length ? o.join('.') : 'e';
}
function name(s) { return /^[A-Za-z0-9_$]+$/.test(s) ? s : 'u:' + hex(s); }
function numRepr(v) { return Object.is(v, -0) ? '-0' : String(v); }

function list(tag, xs) { return '(' + [tag].concat(xs).join(' ') + ')'; }

function isChainElem(n) {
  return n.type === 'MemberExpression' || n.type === 'CallExpression';
}

function flattenSeq(n, out) {
  for (const e of n.expressions) {
    if (e.type === 'SequenceExpression') flattenSeq(e, out); else out.push(X(e));
  }
  return out;
}

function key(n, computed) {
  // property key: identifiers and string/number keys that are not computed are compared by VALUE class
  if (computed) return list('computed', [X(n)]);
  if (n.type === 'Identifier') return list('key', [name(n.name)]);
  if (n.type === 'PrivateIdentifier') return list('priv', [name(n.name)]);
  if (n.type === 'Literal') {
    if (typeof n.value === 'string') return list('skey', [hex(n.value)]);
    if (typeof n.value === 'number') return list('nkey', [numRepr(n.value)]);
    if (n.bigint !== undefined) return list('bkey', [String(BigInt(n.bigint.replace(/_/g, '')))]);
  }
  return X(n);
}

function fnParts(n) {
  const fl = (n.async ? 'a' : '') + (n.generator ? 'g' : '');
  return [fl === '' ? '-' : fl, n.id ? name(n.id.name) : '-', list('params', n.params.map(X)),
    n.body.type === 'BlockStatement' ? list('body', stmts(n.body.body)) : X(n.body)];
}

function stmts(body) {
  const out = [];
  for (const s of body) { if (s.type !== 'EmptyStatement') out.push(X(s)); }
  return out;
}

function tpl(n, withRaw) {
  const qs = n.quasis.map(q => withRaw ? 'c:' + hex(q.value.cooked) + '/r:' + hex(q.value.raw) : 'c:' + hex(q.value.cooked));
  return list('tpl', qs.concat(['|']).concat(n.expressions.map(X)));
}

function X(n) {
  if (n === null || n === undefined) return '-';
  switch (n.type) {
    case 'Program': return list('prog', stmts(n.body));
    case 'ExpressionStatement':
      if (n.directive !== undefined) return list('dir', [hex(n.directive)]);
      return list('expr', [X(n.expression)]);
    case 'BlockStatement': return list('block', stmts(n.body));
    case 'StaticBlock': return list('static', stmts(n.body));
    case 'EmptyStatement': return '(empty)';
    case 'DebuggerStatement': return '(debugger)';
    case 'WithStatement': return list('with', [X(n.object), X(n.body)]);
    case 'ReturnStatement': return list('return', [X(n.argument)]);
    case 'LabeledStatement': return list('label', [name(n.label.name), X(n.body)]);
    case 'BreakStatement': return list('break', [n.label ? name(n.label.name) : '-']);
    case 'ContinueStatement': return list('continue', [n.label ? name(n.label.name) : '-']);
    case 'IfStatement': return list('if', [X(n.test), X(n.consequent), X(n.alternate)]);
    case 'SwitchStatement': return list('switch', [X(n.discriminant)].concat(n.cases.map(c =>
      list(c.test ? 'case' : 'default', (c.test ? [X(c.test)] : []).concat(stmts(c.consequent))))));
    case 'ThrowStatement': return list('throw', [X(n.argument)]);
    case 'TryStatement': return list('try', [X(n.block),
      n.handler ? list('catch', [X(n.handler.param), X(n.handler.body)]) : '-', X(n.finalizer)]);
    case 'WhileStatement': return list('while', [X(n.test), X(n.body)]);
    case 'DoWhileStatement': return list('dowhile', [X(n.body), X(n.test)]);
    case 'ForStatement': return list('for', [X(n.init), X(n.test), X(n.update), X(n.body)]);
    case 'ForInStatement': return list('forin', [X(n.left), X(n.right), X(n.body)]);
    case 'ForOfStatement': return list(n.await ? 'forawait' : 'forof', [X(n.left), X(n.right), X(n.body)]);
    case 'FunctionDeclaration': return list('fndecl', fnParts(n));
    case 'FunctionExpression': return list('fn', fnParts(n));
    case 'ArrowFunctionExpression': return list('arrow', [n.async ? 'a' : '-', list('params', n.params.map(X)),
      n.body.type === 'BlockStatement' ? list('body', stmts(n.body.body)) : X(n.body)]);
    case 'VariableDeclaration': return list(n.kind, n.declarations.map(d => list('decl', [X(d.id), X(d.init)])));
    case 'ClassDeclaration': case 'ClassExpression':
      return list(n.type === 'ClassDeclaration' ? 'classdecl' : 'class', [n.id ? name(n.id.name) : '-', X(n.superClass)].concat(n.body.body.map(X)));
    case 'MethodDefinition': {
      const v = n.value;
      return list('method', [(n.static ? 's' : '-') + n.kind, key(n.key, n.computed)].concat(fnParts(v)));
    }
    case 'PropertyDefinition':
      return list('field', [n.static ? 's' : '-', key(n.key, n.computed), X(n.value)]);
    case 'ThisExpression': return '(this)';
    case 'Super': return '(super)';
    case 'Identifier': return list('id', [name(n.name)]);
    case 'PrivateIdentifier': return list('priv', [name(n.name)]);
    case 'Literal':
      if (n.regex) return list('re', [hex(n.regex.pattern), n.regex.flags.split('').sort().join('') || '-']);
      if (n.bigint !== undefined) return list('big', [String(BigInt(n.bigint.replace(/_/g, '')))]);
      if (n.value === null) return '(null)';
      if (typeof n.value === 'boolean') return list('bool', [String(n.value)]);
      if (typeof n.value === 'number') return list('num', [numRepr(n.value)]);
      if (typeof n.value === 'string') return list('str', [hex(n.value)]);
      return list('lit', [String(n.raw)]);
    case 'TemplateLiteral': return tpl(n, false);
    case 'TaggedTemplateExpression': return list('tag', [X(n.tag), tpl(n.quasi, true)]);
    case 'ArrayExpression': return list('arr', n.elements.map(e => e === null ? '(hole)' : X(e)));
    case 'ArrayPattern': return list('parr', n.elements.map(e => e === null ? '(hole)' : X(e)));
    case 'ObjectExpression': return list('obj', n.properties.map(X));
    case 'ObjectPattern': return list('pobj', n.properties.map(X));
    case 'Property': {
      if (n.kind === 'get' || n.kind === 'set' || n.method)
        return list('method', ['-' + (n.method ? 'method' : n.kind), key(n.key, n.computed)].concat(fnParts(n.value)));
      // shorthand {a} is the same tree as {a: a}
      return list('prop', [key(n.key, n.computed), X(n.value)]);
    }
    case 'SpreadElement': return list('spread', [X(n.argument)]);
    case 'RestElement': return list('rest', [X(n.argument)]);
    case 'AssignmentPattern': return list('pdef', [X(n.left), X(n.right)]);
    case 'UnaryExpression': return list('un', [n.operator, X(n.argument)]);
    case 'UpdateExpression': return list('upd', [n.operator, n.prefix ? 'pre' : 'post', X(n.argument)]);
    case 'BinaryExpression': case 'LogicalExpression':
      return list('bin', [n.operator, n.left.type === 'PrivateIdentifier' ? list('priv', [name(n.left.name)]) : X(n.left), X(n.right)]);
    case 'AssignmentExpression': return list('asg', [n.operator, X(n.left), X(n.right)]);
    case 'ConditionalExpression': return list('cond', [X(n.test), X(n.consequent), X(n.alternate)]);
    case 'SequenceExpression': return list('seq', flattenSeq(n, []));
    case 'YieldExpression': return list(n.delegate ? 'yield*' : 'yield', [X(n.argument)]);
    case 'AwaitExpression': return list('await', [X(n.argument)]);
    case 'ImportExpression': return list('import()', [X(n.source)].concat(n.options ? [X(n.options)] : []));
    case 'MetaProperty': return list('meta', [n.meta.name, n.property.name]);
    case 'ParenthesizedExpression': return X(n.expression);
    case 'ChainExpression': return list('chain', [X(n.expression)]);
    case 'MemberExpression': {
      let o = n.object;
      // (a?.b)?.c == a?.b?.c : merge the inner chain
      if (n.optional && o.type === 'ChainExpression') o = o.expression;
      const t = n.computed ? 'idx' : 'dot';
      const p = n.computed ? X(n.property) : (n.property.type === 'PrivateIdentifier' ? '#' + name(n.property.name) : name(n.property.name));
      return list(t + (n.optional ? '?' : ''), [X(o), p]);
    }
    case 'CallExpression': {
      let c = n.callee;
      if (n.optional && c.type === 'ChainExpression') c = c.expression;
      return list('call' + (n.optional ? '?' : ''), [X(c)].concat(n.arguments.map(X)));
    }
    case 'NewExpression': return list('new', [X(n.callee)].concat(n.arguments.map(X)));
    case 'ImportDeclaration': return list('import', [hex(n.source.value)].concat(n.specifiers.map(X)));
    case 'ImportSpecifier': return list('ispec', [impName(n.imported), name(n.local.name)]);
    case 'ImportDefaultSpecifier': return list('idefault', [name(n.local.name)]);
    case 'ImportNamespaceSpecifier': return list('ins', [name(n.local.name)]);
    case 'ExportNamedDeclaration':
      return list('export', [X(n.declaration), n.source ? hex(n.source.value) : '-'].concat(n.specifiers.map(X)));
    case 'ExportSpecifier': return list('espec', [impName(n.local), impName(n.exported)]);
    case 'ExportDefaultDeclaration': {
      // `export default function(){}` is a declaration, `export default (function(){})` an expression
      return list('exportdefault', [X(n.declaration)]);
    }
    case 'ExportAllDeclaration': return list('exportall', [n.exported ? impName(n.exported) : '-', hex(n.source.value)]);
    default: {
      // generic fallback (future node types): sorted keys
      const ks = Object.keys(n).filter(k => !['type', 'start', 'end', 'loc', 'range', 'raw'].includes(k)).sort();
      return list(n.type, ks.map(k => {
        const v = n[k];
        if (Array.isArray(v)) return k + ':' + list('', v.map(X));
        if (v && typeof v === 'object' && v.type) return k + ':' + X(v);
        return k + ':' + JSON.stringify(v);
      }));
    }
  }
}
function impName(n) { return n.type === 'Literal' ? 's:' + hex(n.value) : name(n.name); }

// ---- constant folding normal form (sound: literal-only operands, evaluated by V8's own operators) ----
// esbuild folds a few literal-only expressions even without minification (-1, !0, typeof 1, "a"+"b").
// Both the input tree and the output tree are folded to the same normal form before comparison.
const NOFOLD = {};
function primOf(n) {
  if (n.type === 'Literal' && !n.regex && n.bigint === undefined) return n.value;
  if (n.type === 'TemplateLiteral' && n.expressions.length === 0 && n.quasis[0].value.cooked !== null) return n.quasis[0].value.cooked;
  return NOFOLD;
}
function litNode(v) {
  if (v === undefined) return NOFOLD;
  if (typeof v === 'number' && !Number.isFinite(v)) return NOFOLD;
  if (typeof v === 'number' || typeof v === 'string' || typeof v === 'boolean' || v === null) return { type: 'Literal', value: v };
  return NOFOLD;
}
function foldNode(n) {
  if (n.type === 'UnaryExpression') {
    const a = primOf(n.argument);
    if (a === NOFOLD) return n;
    let v;
    switch (n.operator) {
      case '-': v = -a; break; case '+': v = +a; break; case '!': v = !a; break; case '~': v = ~a; break;
      case 'typeof': v = typeof a; break; default: return n;
    }
    const l = litNode(v); return l === NOFOLD ? n : l;
  }
  if (n.type === 'BinaryExpression') {
    if (n.left.type === 'PrivateIdentifier') return n;
    const a = primOf(n.left), b = primOf(n.right);
    if (a === NOFOLD || b === NOFOLD) return n;
    let v;
    switch (n.operator) {
      case '+': v = a + b; break; case '-': v = a - b; break; case '*': v = a * b; break; case '/': v = a / b; break;
      case '%': v = a % b; break; case '**': v = a ** b; break; case '<<': v = a << b; break; case '>>': v = a >> b; break;
      case '>>>': v = a >>> b; break; case '&': v = a & b; break; case '|': v = a | b; break; case '^': v = a ^ b; break;
      case '==': v = a == b; break; case '!=': v = a != b; break; case '===': v = a === b; break; case '!==': v = a !== b; break;
      case '<': v = a < b; break; case '>': v = a > b; break; case '<=': v = a <= b; break; case '>=': v = a >= b; break;
      default: return n;
    }
    const l = litNode(v); return l === NOFOLD ? n : l;
  }
  return n;
}
function foldAst(n) {
  if (Array.isArray(n)) { for (let i = 0; i < n.length; i++) if (n[i] && typeof n[i] === 'object') n[i] = foldAst(n[i]); return n; }
  if (!n || typeof n.type !== 'string') return n;
  for (const k of Object.keys(n)) {
    const v = n[k];
    if (v && typeof v === 'object' && k !== 'regex' && k !== 'value') n[k] = foldAst(v);
  }
  return foldNode(n);
}
// drop expression statements that are primitive literals after folding (esbuild removes them; they have no effect)
function dropPure(n) {
  if (Array.isArray(n)) {
    for (let i = n.length - 1; i >= 0; i--) {
      const s = n[i];
      if (s && s.type === 'ExpressionStatement' && s.directive === undefined && primOf(s.expression) !== NOFOLD) n.splice(i, 1);
      else if (s && typeof s === 'object') dropPure(s);
    }
    return;
  }
  if (!n || typeof n !== 'object') return;
  for (const k of Object.keys(n)) { const v = n[k]; if (v && typeof v === 'object' && k !== 'regex' && k !== 'value') dropPure(v); }
}
// (() => { body })()  ->  body   (format=iife wrapper)
function unwrapIife(ast) {
  const b = ast.body.filter(s => s.type !== 'EmptyStatement');
  if (b.length === 1 && b[0].type === 'ExpressionStatement' && b[0].expression.type === 'CallExpression' &&
      b[0].expression.arguments.length === 0 && b[0].expression.callee.type === 'ArrowFunctionExpression' &&
      b[0].expression.callee.params.length === 0 && !b[0].expression.callee.async && b[0].expression.callee.body.type === 'BlockStatement') {
    ast.body = b[0].expression.callee.body.body;
    return true;
  }
  return false;
}

// esbuild prints `export default E` as `var in_default = E; export { in_default as default }` and
// `export const v = E` as `const v = E; export { v }` when it converts to format=esm: same module, same exports.
function normExports(ast) {
  const body = ast.body;
  for (let i = body.length - 1; i >= 0; i--) {
    const s = body[i];
    if (s.type !== 'ExportNamedDeclaration' || s.declaration || s.source) continue;
    s.specifiers = s.specifiers.filter(sp => {
      if (sp.local.type !== 'Identifier' || sp.exported.type !== 'Identifier') return true;
      const local = sp.local.name, exported = sp.exported.name;
      for (let j = 0; j < body.length; j++) {
        const d = body[j];
        if (d.type === 'VariableDeclaration' && d.declarations.length === 1 && d.declarations[0].id.type === 'Identifier' &&
            d.declarations[0].id.name === local) {
          if (exported === 'default' && d.kind === 'var' && d.declarations[0].init && /_default$/.test(local)) {
            body[j] = { type: 'ExportDefaultDeclaration', declaration: d.declarations[0].init };
            return false;
          }
          if (exported === local) { body[j] = { type: 'ExportNamedDeclaration', declaration: d, specifiers: [], source: null }; return false; }
        }
        if ((d.type === 'FunctionDeclaration' || d.type === 'ClassDeclaration') && d.id && d.id.name === local && exported === local) {
          body[j] = { type: 'ExportNamedDeclaration', declaration: d, specifiers: [], source: null }; return false;
        }
      }
      return true;
    });
    if (s.specifiers.length === 0) body.splice(i, 1);
  }
}

function parseOne(item) {
  const res = {};
  const kind = item.kind === 'module' ? 'module' : 'script';
  const want = item.want || 'both';
  try {
    const ast = acorn.parse(item.src, {
      ecmaVersion: 'latest', sourceType: kind,
      allowHashBang: true,
      allowReturnOutsideFunction: false,
      allowAwaitOutsideFunction: kind === 'module',
    });
    res.acorn = true;
    if (item.unwrap === 'iife') res.unwrapped = unwrapIife(ast);
    if (kind === 'module') normExports(ast);
    if (want !== 'valid') {
      res.sexp = X(ast);
      if (item.fold) { foldAst(ast); dropPure(ast); const f = X(ast); if (f !== res.sexp) res.sexpf = f; }
    }
  } catch (e) {
    res.acorn = false;
    res.aerr = String(e && e.message);
  }
  if (item.v8) {
    try {
      if (kind === 'module') new vm.SourceTextModule(item.src);
      else new vm.Script(item.src);
      res.v8 = true;
    } catch (e) {
      res.v8 = false;
      res.verr = String(e && e.message);
    }
  }
  return res;
}

if (require.main === module) {
  const chunks = [];
  process.stdin.on('data', c => chunks.push(c));
  process.stdin.on('end', () => {
    const inp = JSON.parse(Buffer.concat(chunks).toString('utf8'));
    const results = inp.items.map(parseOne);
    process.stdout.write(JSON.stringify({ results }));
  });
} else {
  module.exports = { X, parseOne, hex };
}
