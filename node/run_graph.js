// run_graph.js: execute materialised module graphs natively (Node's own ESM
// and CommonJS loaders) and execute their esbuild bundles, recording for each
// run the host-visible observation: the probe trace, the error thrown by
// loading the entry point, and the entry point's exports as an importer / a
// requirer / the global name sees them.
//
// stdin : {"cases":[{"id", "dir", "entry", "bundles":[{"name","file","format","global"}]}]}
// stdout: {"results":[{"id", "native":{...}, "bundles":[{"name", ...}]}]}
//
// observation = {trace:[[id,val],...], threw:null|message, ns:rendered|null, req:rendered|null, exp:rendered|null}
//
// Every graph lives in its own directory, so one process serves a whole batch
// (module registries are keyed by path).  Values are rendered when they are
// probed (bindings are live): strings as they are, undefined, functions as
// "fn", objects as {k:v,...} over their sorted own enumerable string keys
// without "__esModule" (an interop marker whose enumerability differs between
// Node's require(esm) and a transpiled module and is not part of C02).
'use strict'
const path = require('path')
const url = require('url')
const fs = require('fs')
const vm = require('vm')

function render(v, depth) {
  depth = depth || 0
  if (v === undefined) return 'undefined'
  if (v === null) return 'null'
  const t = typeof v
  if (t === 'string') return v
  if (t === 'function') return 'fn'
  if (t === 'object') {
    if (depth > 3) return '{...}'
    let keys
    try { keys = Object.keys(v).filter(k => k !== '__esModule').sort() } catch (e) { return '<keys:' + e.message + '>' }
    return '{' + keys.map(k => {
      let x
      try { x = render(v[k], depth + 1) } catch (e) { x = '<' + (e && e.name) + '>' }
      return k + ':' + x
    }).join(',') + '}'
  }
  return String(v)
}

let log = []
let pending = 0
globalThis.__probe = (id, v) => { log.push([id, render(v)]) }
globalThis.__dyn = (id, p) => {
  pending++
  p.then(ns => { log.push([id, render(ns)]) }, e => { log.push([id, '!' + (e && e.message)]) })
    .then(() => { pending-- }, () => { pending-- })
}

const tick = () => new Promise(r => setImmediate(r))

async function quiesce() {
  let spins = 0
  while (pending > 0 && spins < 20000) { await tick(); spins++ }
  for (let i = 0; i < 3; i++) await tick()
  return pending === 0
}

function errMsg(e) {
  if (e && typeof e === 'object' && 'message' in e) return (e.code ? e.code + ':' : '') + e.message
  return String(e)
}

// kind: 'import' (ES module file or any file through Node's ESM loader),
//       'require' (CommonJS loader), 'iife' (script + global name)
async function runOne(kind, file, globalName, alsoRequire) {
  log = []
  pending = 0
  const obs = { trace: null, threw: null, ns: null, req: null, exp: null, settled: true }
  let value, loaded = false
  try {
    if (kind === 'import') {
      value = await import(url.pathToFileURL(file).href)
    } else if (kind === 'require') {
      value = require(file)
    } else {
      const code = fs.readFileSync(file, 'utf8')
      vm.runInThisContext(code, { filename: file })
      value = globalThis[globalName]
    }
    loaded = true
  } catch (e) {
    obs.threw = errMsg(e)
  }
  obs.settled = await quiesce()
  if (loaded) {
    try { obs.exp = render(value) } catch (e) { obs.exp = '<render:' + errMsg(e) + '>' }
    if (alsoRequire) {
      // the native reference: what a requirer of the entry point gets
      obs.ns = obs.exp
      try { obs.req = render(require(file)) } catch (e) { obs.req = '<require:' + errMsg(e) + '>' }
    }
  }
  obs.trace = log
  if (kind === 'iife' && globalName) { try { delete globalThis[globalName] } catch (e) { globalThis[globalName] = undefined } }
  return obs
}

async function main() {
  const input = JSON.parse(fs.readFileSync(0, 'utf8'))
  const results = []
  for (const c of input.cases) {
    const res = { id: c.id, native: null, bundles: [] }
    if (c.entry) res.native = await runOne('import', path.join(c.dir, c.entry), null, true)
    for (const b of c.bundles || []) {
      const kind = b.format === 'esm' ? 'import' : b.format === 'cjs' ? 'require' : 'iife'
      const o = await runOne(kind, path.join(c.dir, b.file), b.global, false)
      o.name = b.name
      res.bundles.push(o)
    }
    results.push(res)
  }
  process.stdout.write(JSON.stringify({ results }))
}

process.on('unhandledRejection', () => {})
main().catch(e => { process.stderr.write(String(e && e.stack || e)); process.exit(3) })
