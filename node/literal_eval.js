// literal_eval.js — evaluate a one-assignment program `x = <literal>` in V8 and report the VALUE of the literal.
// stdin : {"items":[{"src":"x = 'a\\u2028';", "mode":"str"|"key"|"tag"|"num"|"big"|"re", "goal":"script"|"module"}]}
// stdout: {"results":[{"ok":true,"val":"0061.2028","compiles":true} | {"ok":false,"err":"..."}]}
//   str/key : UTF-16 code units (hex) of x / of the first own key of x
//   dir     : UTF-16 code units of the script's completion value + '|strict' / '|sloppy' (variable s of the program)
//   tag     : cooked units "/" raw units of the first template string seen by the tag function
//   num     : the 64 bits of the float (hex) — Object.is-precise; big: decimal digits; re: source units "/" flags
// Run with: node --experimental-vm-modules --no-warnings literal_eval.js
'use strict';
const vm = require('vm');
function hex(s) {
  if (s === undefined) return 'undef';
  const o = [];
  for (let i = 0; i < s.length; i++) o.push(s.charCodeAt(i).toString(16).padStart(4, '0'));
  return o.length ? o.join('.') : 'e';
}
const f64 = new Float64Array(1), u64 = new BigUint64Array(f64.buffer);
function bits(v) { f64[0] = v; return u64[0].toString(16).padStart(16, '0'); }

function fresh() {
  const sandbox = { tag: (s) => ({ c: s[0], r: s.raw[0] }) };
  return { sandbox, ctx: vm.createContext(sandbox) };
}
const shared = fresh();
function evalOne(item) {
  const res = {};
  // programs that declare anything (helpers / caches such as `var _a` in outputs) get a fresh context;
  // plain `x = <literal>` programs share one (x is deleted in between)
  const w = /\b(var|let|const|function|class)\b/.test(item.src) ? fresh() : shared;
  const sandbox = w.sandbox, ctx = w.ctx;
  delete sandbox.x;
  try {
    if (item.goal === 'module') new vm.SourceTextModule(item.src, { context: ctx }); else new vm.Script(item.src);
    res.compiles = true;
  } catch (e) { res.compiles = false; res.ok = false; res.err = 'compile: ' + String(e && e.message); return res; }
  try {
    const completion = vm.runInContext(item.src, ctx);
    const x = sandbox.x;
    switch (item.mode) {
      // dir: `'...'; var s = (function () { return this === undefined; })();` — the completion value of the script is the
      // value of the directive's string literal; s tells whether the code after the directive prologue is strict
      case 'dir': if (typeof completion !== 'string') throw new Error('completion value is not a string: ' + typeof completion);
        res.val = hex(completion) + (sandbox.s === true ? '|strict' : '|sloppy'); break;
      case 'str': if (typeof x !== 'string') throw new Error('not a string: ' + typeof x); res.val = hex(x); break;
      case 'key': { const k = Object.keys(x); if (k.length !== 1) throw new Error('keys: ' + k.length); res.val = hex(k[0]); break; }
      case 'tag': res.val = hex(x.c) + '/' + hex(x.r); break;
      case 'num': if (typeof x !== 'number') throw new Error('not a number: ' + typeof x); res.val = bits(x); break;
      case 'big': if (typeof x !== 'bigint') throw new Error('not a bigint: ' + typeof x); res.val = x.toString(); break;
      case 're': if (Object.prototype.toString.call(x) !== '[object RegExp]') throw new Error('not a regexp'); res.val = hex(x.source) + '/' + x.flags; break;
      default: throw new Error('mode?');
    }
    res.ok = true;
  } catch (e) { res.ok = false; res.err = 'run: ' + String(e && e.message); }
  return res;
}
const chunks = [];
process.stdin.on('data', c => chunks.push(c));
process.stdin.on('end', () => {
  const inp = JSON.parse(Buffer.concat(chunks).toString('utf8'));
  process.stdout.write(JSON.stringify({ results: inp.items.map(evalOne) }));
});
