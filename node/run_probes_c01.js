// run_probes.js — execute programs in fresh V8 contexts with PROBE leaves and record what the host sees.
// stdin : {"items":[{"src":"...", "kind":"script"|"module"|"cjs", "names":["a0","y",...], "valuations":3}]}
// stdout: {"results":[{"traces":[["read a0","call y(this=undefined; a0)",...,"throw TypeError"], ...]}]}
// Every free identifier listed in names is a global accessor that logs reads/writes; its value is, depending
// on the valuation, a universal probe object (a callable Proxy that logs get/set/has/delete/call/construct/
// to-primitive and returns further probes) or a grid primitive (0, null, undefined, '', NaN, false, 1, 2, 'x', true).
// The trace = ordered log + thrown exception class + exported values (module namespace / module.exports).
// Run with: node --experimental-vm-modules --no-warnings run_probes.js
'use strict';
const vm = require('vm');

const MAXLOG = 300;
class Abort extends Error {}

function makeWorld(names, valuation) {
  const log = [];
  const probes = new WeakMap(); // proxy -> label
  const memo = new Map();
  function push(s) {
    log.push(s);
    if (log.length > MAXLOG) throw new Abort('log limit');
  }
  function repr(v) {
    if (v === null) return 'null';
    const t = typeof v;
    if (t === 'object' || t === 'function') {
      if (probes.has(v)) return '<' + probes.get(v) + '>';
      if (t === 'function') return 'function';
      if (Array.isArray(v)) return '[' + v.map(repr).join(',') + ']';
      if (v instanceof RegExp || Object.prototype.toString.call(v) === '[object RegExp]') return 'regexp:' + String(v);
      let ks; try { ks = Object.keys(v); } catch (e) { ks = []; }
      return '{' + ks.slice(0, 6).map(k => k + ':' + reprShallow(v[k])).join(',') + '}';
    }
    if (t === 'string') return JSON.stringify(v);
    if (t === 'bigint') return String(v) + 'n';
    if (t === 'symbol') return String(v);
    if (t === 'number' && Object.is(v, -0)) return '-0';
    return String(v);
  }
  function reprShallow(v) {
    const t = typeof v;
    if (v !== null && (t === 'object' || t === 'function')) return probes.has(v) ? '<' + probes.get(v) + '>' : t;
    return repr(v);
  }
  function primOf(label) {
    // deterministic primitive for a probe label
    let h = 0; for (let i = 0; i < label.length; i++) h = (h * 31 + label.charCodeAt(i)) | 0;
    return (Math.abs(h) % 7) + 1;
  }
  function mkProbe(label) {
    if (memo.has(label)) return memo.get(label);
    const target = function () {};
    let calls = 0;
    const p = new Proxy(target, {
      get(t, k) {
        if (k === Symbol.toPrimitive) return (hint) => { push('prim ' + label + ' ' + hint); return primOf(label); };
        if (k === Symbol.iterator) return function* () { push('iter ' + label); yield mkProbe(label + '#0'); yield mkProbe(label + '#1'); };
        if (typeof k === 'symbol') return undefined;
        if (k === 'then') { push('get ' + label + '.then'); return undefined; }
        push('get ' + label + '.' + k);
        if (k === 'prototype') return Object.prototype;
        return mkProbe(label + '.' + k);
      },
      set(t, k, v) { push('set ' + label + '.' + String(k) + ' = ' + repr(v)); return true; },
      // a function / class used as a key is converted to its source text (Function.prototype.toString: excluded by the
      // property); esbuild re-formats only its white space, so the answer must not depend on white space
      has(t, k) { push('has ' + String(k) + ' in ' + label); return primOf(label + String(k).replace(/\s+/g, '')) % 2 === 0; },
      deleteProperty(t, k) { push('delete ' + label + '.' + String(k)); return true; },
      apply(t, th, args) { push('call ' + label + '(this=' + repr(th) + '; ' + args.map(repr).join(', ') + ')'); return mkProbe(label + '()' + (calls++)); },
      construct(t, args) { push('new ' + label + '(' + args.map(repr).join(', ') + ')'); return mkProbe(label + '{}' + (calls++)); },
      ownKeys() { push('keys ' + label); return ['prototype']; },
      getOwnPropertyDescriptor(t, k) { return Reflect.getOwnPropertyDescriptor(t, k); },
    });
    probes.set(p, label);
    memo.set(label, p);
    return p;
  }
  const falsy = [0, null, undefined, '', NaN, false];
  const mixed = [1, 2, 'x', true, 3, 0];
  const values = {};
  names.forEach((n, i) => {
    if (valuation === 0) values[n] = mkProbe(n);
    else if (valuation === 1) values[n] = falsy[(i + names.length) % falsy.length];
    else if (valuation === 2) values[n] = (i % 3 === 2) ? mkProbe(n) : mixed[i % mixed.length];
    else values[n] = (i % 2 === 0) ? mkProbe(n) : falsy[i % falsy.length];
  });
  const sandbox = {};
  const ctx = vm.createContext(sandbox);
  for (const n of names) {
    Object.defineProperty(sandbox, n, {
      configurable: true, enumerable: false,
      get() { push('read ' + n); return values[n]; },
      set(v) { push('write ' + n + ' = ' + repr(v)); values[n] = v; },
    });
  }
  return { log, ctx, sandbox, repr, mkProbe, push };
}

function errName(e, w) {
  if (e instanceof Abort) return 'abort';
  if (e && (typeof e === 'object' || typeof e === 'function')) {
    if (e.code === 'ERR_SCRIPT_EXECUTION_TIMEOUT') return 'timeout';
    const r = w.repr(e);
    if (r[0] === '<') return r;
    try { return String(e.constructor && e.constructor.name) + (e instanceof SyntaxError || (e.name === 'SyntaxError') ? ':' + e.message : ''); } catch (x) { return 'object'; }
  }
  return w.repr(e);
}

async function settle() { for (let i = 0; i < 3; i++) await new Promise(r => setImmediate(r)); }

async function runOne(item, valuation) {
  const w = makeWorld(item.names || [], valuation);
  const kind = item.kind || 'script';
  try {
    if (kind === 'module') {
      const mod = new vm.SourceTextModule(item.src, { context: w.ctx });
      await mod.link(async (spec) => {
        // any import resolves to a synthetic module exporting probes
        const names = ['default', 'jsx', 'jsxs', 'Fragment', 'jsxDEV', 'a', 'b', 'x'];
        const m = new vm.SyntheticModule(names, function () { for (const n of names) this.setExport(n, w.mkProbe('import(' + spec + ').' + n)); }, { context: w.ctx });
        return m;
      });
      await mod.evaluate({ timeout: 5000 });
      await settle();
      const ns = mod.namespace;
      for (const k of Object.keys(ns).sort()) w.log.push('export ' + k + ' = ' + w.repr(ns[k]));
    } else {
      if (kind === 'cjs') {
        const module = { exports: {} };
        w.sandbox.module = module; w.sandbox.exports = module.exports;
        w.sandbox.require = (s) => { w.push('require ' + s); return w.mkProbe('require(' + s + ')'); };
      }
      vm.runInContext(item.src, w.ctx, { timeout: 5000 });
      await settle();
      if (kind === 'cjs') {
        const ex = w.sandbox.module.exports;
        for (const k of Object.keys(ex).sort()) if (k !== '__esModule') w.log.push('export ' + k + ' = ' + w.repr(ex[k]));
      }
    }
  } catch (e) {
    w.log.push('throw ' + errName(e, w));
  }
  return w.log;
}

async function main() {
  const chunks = [];
  for await (const c of process.stdin) chunks.push(c);
  const inp = JSON.parse(Buffer.concat(chunks).toString('utf8'));
  const results = [];
  process.on('unhandledRejection', () => {});
  for (const item of inp.items) {
    const traces = [];
    const n = item.valuations || 3;
    for (let v = 0; v < n; v++) traces.push(await runOne(item, v));
    results.push({ traces });
  }
  process.stdout.write(JSON.stringify({ results }));
}
main().catch(e => { console.error(e); process.exit(1); });
