// resolve_oracle.js - asks REAL Node how it resolves (property C11).
// stdin : {"conds": ["browser"...], "questions": [{"id", "imp", "spec", "kind"}]}
// stdout: {"answers": [{"id", "path"} | {"id", "code", "msg"} (+ "unsure": "...")]}
// The process must be started with
//   node --expose-internals --experimental-import-meta-resolve [-C cond]... resolve_oracle.js
// so that the extra conditions are Node's own (process-wide) conditions.
//
// kind=require : module.createRequire(importer).resolve(specifier)
// kind=import  : two witnesses that must agree, otherwise the answer is marked "unsure":
//   (1) import.meta.resolve(specifier, parentURL)  [public API; swallows not-found /
//       directory errors and returns the URL, so existence is checked here with stat]
//   (2) the ESM loader's own defaultResolve() (lib/internal/modules/esm/resolve.js),
//       which throws every error of the algorithm
'use strict';
const fs = require('fs');
const { createRequire } = require('module');
const { pathToFileURL, fileURLToPath } = require('url');

function readStdin() {
  return new Promise((resolve) => {
    let data = '';
    process.stdin.setEncoding('utf8');
    process.stdin.on('data', (c) => { data += c; });
    process.stdin.on('end', () => resolve(data));
  });
}

function errAnswer(e) {
  return { code: (e && e.code) || 'UNKNOWN', msg: String(e && e.message).slice(0, 300) };
}

function classifyURL(url) {
  if (!url.startsWith('file:')) return { code: 'NOT_A_FILE_URL', msg: url };
  let p;
  try { p = fileURLToPath(url); } catch (e) { return errAnswer(e); }
  if (/%2f|%5c/i.test(new URL(url).pathname)) return { code: 'ERR_INVALID_MODULE_SPECIFIER', msg: url };
  let st;
  try { st = fs.statSync(p); } catch (e) { return { code: 'ERR_MODULE_NOT_FOUND', msg: p }; }
  if (st.isDirectory()) return { code: 'ERR_UNSUPPORTED_DIR_IMPORT', msg: p };
  return { path: fs.realpathSync(p) };
}

async function main() {
  const input = JSON.parse(await readStdin());
  const conds = input.conds || [];
  let internal = null;
  try { internal = require('internal/modules/esm/resolve'); } catch (e) { internal = null; }
  const esm = await import(pathToFileURL(__dirname + '/resolve_oracle_esm.mjs').href);
  const requires = new Map();
  const answers = [];
  for (const q of input.questions) {
    let a;
    if (q.kind === 'require') {
      let req = requires.get(q.imp);
      if (!req) { req = createRequire(q.imp); requires.set(q.imp, req); }
      try { a = { path: req.resolve(q.spec) }; } catch (e) { a = errAnswer(e); }
    } else {
      const parentURL = pathToFileURL(q.imp).href;
      let pub;
      try { pub = classifyURL(esm.resolveFrom(q.spec, parentURL)); } catch (e) { pub = errAnswer(e); }
      a = pub;
      if (internal) {
        let int;
        try {
          const r = internal.defaultResolve(q.spec, { parentURL, conditions: ['node', 'import', ...conds], importAttributes: {} });
          int = r.url.startsWith('file:') ? { path: fileURLToPath(r.url) } : { code: 'NOT_A_FILE_URL', msg: r.url };
        } catch (e) { int = errAnswer(e); }
        if ((pub.path || '') !== (int.path || '') || (pub.code || '') !== (int.code || '')) {
          a = Object.assign({}, pub, { unsure: 'import.meta.resolve=' + JSON.stringify(pub) + ' defaultResolve=' + JSON.stringify(int) });
        }
      } else {
        a = Object.assign({}, pub, { unsure: 'internal resolver unavailable' });
      }
    }
    a.id = q.id;
    answers.push(a);
  }
  process.stdout.write(JSON.stringify({ answers, node: process.version, execArgv: process.execArgv }));
}

main().catch((e) => { console.error(e); process.exit(1); });
